#!/bin/bash
# tools/seedimport.sh <PROP> <change dir> <seed name> "<demo command run from the worktree root>" [extra check IDs...]
# 1. copies patch.diff, demo/, meta.json into /verif/seeded/<name>/
# 2. in a scratch worktree of /repo HEAD: demo passes WITHOUT the patch, patch applies, tree builds,
#    pinned suite passes, demo FAILS with the patch
# 3. runs ./check <PROP> quick (and the extra IDs) against the patched worktree
# Results are appended to /verif/seeded/<name>/verified.txt
PROP=$1; SRC=$2; NAME=$3; DEMO=$4; shift 4; EXTRA="$@"
DST=/verif/seeded/$NAME
mkdir -p "$DST" && cp -r "$SRC/patch.diff" "$SRC/meta.json" "$DST/" 2>/dev/null; rm -rf "$DST/demo"; cp -r "$SRC/demo" "$DST/demo"
WT=$(mktemp -d /tmp/seedimp.XXXXXX); rmdir "$WT"
git -C /repo worktree add -q --detach "$WT" HEAD || exit 2
trap 'git -C /repo worktree remove --force "$WT" >/dev/null 2>&1; git -C /repo worktree prune' EXIT
export GOFLAGS= GOPROXY=off GOSUMDB=off GOTOOLCHAIN=local CGO_CFLAGS=-w
LOG="$DST/verified.txt"; : > "$LOG"
echo "repo HEAD: $(git -C /repo log --format=%h -1)" >> "$LOG"
run_demo() { (cd "$WT" && DEMO_DIR="$DST/demo" bash -c "$DEMO") > "$WT.demo" 2>&1; echo $?; }
r0=$(run_demo); echo "demo without patch: exit $r0" | tee -a "$LOG"
(cd "$WT" && git checkout -q -- . && git clean -fdq)
if ! git -C "$WT" apply "$DST/patch.diff"; then echo "PATCH-DOES-NOT-APPLY" | tee -a "$LOG"; exit 2; fi
if ! (cd "$WT" && go build ./pkg/... ./cmd/obitools/... ) >/dev/null 2>&1; then echo "DOES-NOT-BUILD" | tee -a "$LOG"; exit 2; fi
echo "builds with patch: yes" >> "$LOG"
if VH_REPO="$WT" /verif/tools/baseline.sh >> "$LOG" 2>&1; then echo "pinned suite with patch: passes" | tee -a "$LOG"; else echo "SUITE-FAILS" | tee -a "$LOG"; fi
r1=$(run_demo); echo "demo with patch: exit $r1" | tee -a "$LOG"; tail -5 "$WT.demo" >> "$LOG"; rm -f "$WT.demo"
(cd "$WT" && git status --short | grep -v "^ M" | awk '{print $2}' | xargs -r rm -rf)
cd /verif
for ID in $PROP $EXTRA; do
  OUT=$(VH_REPO="$WT" ./check "$ID" quick 2>&1)
  echo "--- ./check $ID quick (against the patched worktree)" >> "$LOG"
  echo "$OUT" | grep -E "^(VIOLATION|INCONCLUSIVE|SUMMARY)" | cut -c1-300 | head -8 >> "$LOG"
  if echo "$OUT" | grep -q "^VIOLATION"; then echo "check $ID: DETECTED" | tee -a "$LOG"; else echo "check $ID: MISSED" | tee -a "$LOG"; fi
done
