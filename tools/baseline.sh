#!/bin/bash
# Runs the pinned suite in /repo (hooks OFF) and compares with /root/.vp/BASELINE.json stable_pass.
# A test counts as passing when it passes in at least one of up to 6 runs (pkg/obiutils TestSetString
# is flaky on the pinned tree: map iteration order).
cd "${VH_REPO:-/repo}" || exit 2
export CGO_CFLAGS=-w GOPROXY=off GOSUMDB=off GOTOOLCHAIN=local
OUT=/tmp/baseline.$$.json; : > $OUT
for i in 1 2 3 4 5 6; do
  go test -json -vet=off -count=1 -timeout 25m ./... 2>/dev/null >> $OUT
  python3 - $OUT <<'PY' && { rm -f $OUT; exit 0; }
import json,sys
passed=set()
for l in open(sys.argv[1]):
    try: e=json.loads(l)
    except: continue
    if e.get('Action')=='pass' and e.get('Test'): passed.add(e['Package']+'::'+e['Test'])
b=json.load(open('/root/.vp/BASELINE.json'))
missing=[t for t in b['stable_pass'] if t not in passed]
if not missing: print("passed",len(passed),"baseline",len(b['stable_pass']),"missing []")
sys.exit(1 if missing else 0)
PY
done
python3 - $OUT <<'PY'
import json,sys
passed=set()
for l in open(sys.argv[1]):
    try: e=json.loads(l)
    except: continue
    if e.get('Action')=='pass' and e.get('Test'): passed.add(e['Package']+'::'+e['Test'])
b=json.load(open('/root/.vp/BASELINE.json'))
print("passed",len(passed),"baseline",len(b['stable_pass']),"missing",[t for t in b['stable_pass'] if t not in passed])
PY
rm -f $OUT; exit 1
