#!/bin/bash
# Runs the pinned suite in /repo (hooks OFF) and compares with /root/.vp/BASELINE.json stable_pass.
cd "${VH_REPO:-/repo}" || exit 2
export CGO_CFLAGS=-w GOPROXY=off GOSUMDB=off GOTOOLCHAIN=local
# three runs: a test counts as passing when it passes in at least one (TestSetString is flaky on the pinned tree: map order)
for i in 1 2 3; do go test -json -vet=off -count=1 -timeout 25m ./... 2>/dev/null; done > /tmp/baseline.$$.json
python3 - /tmp/baseline.$$.json <<'PY'
import json,sys
passed=set()
for l in open(sys.argv[1]):
    try: e=json.loads(l)
    except: continue
    if e.get('Action')=='pass' and e.get('Test'): passed.add(e['Package']+'::'+e['Test'])
b=json.load(open('/root/.vp/BASELINE.json'))
missing=[t for t in b['stable_pass'] if t not in passed]
print("passed",len(passed),"baseline",len(b['stable_pass']),"missing",missing)
sys.exit(1 if missing else 0)
PY
rc=$?; rm -f /tmp/baseline.$$.json; exit $rc
