#!/usr/bin/env python3
"""Prints the markdown table of the seeded changes (from /verif/seeded/*/meta.json and verified.txt)."""
import json,glob,os,re
rows=[]
for d in sorted(glob.glob('/verif/seeded/*')):
    name=os.path.basename(d)
    try: m=json.load(open(d+'/meta.json'))
    except Exception: m={}
    v=open(d+'/verified.txt').read() if os.path.exists(d+'/verified.txt') else ''
    hist={}
    for a,b in re.findall(r'check (C\d+): (DETECTED|MISSED)',v): hist.setdefault(a,[]).append(b)
    det=[(a,h[-1]+('*' if h[-1]=='DETECTED' and 'MISSED' in h else '')) for a,h in hist.items()]
    demo=('fails with / passes without' if 'demo without patch: exit 0' in v and re.search(r'demo with patch: exit [1-9]',v) else 'see verified.txt')
    suite='passes' if 'pinned suite with patch: passes' in v else '?'
    needs=(m.get('needs') or '').replace('\n',' ').replace('|','/')
    if len(needs)>220: needs=needs[:217]+'...'
    rows.append((name,m.get('property',name.split('-')[0]),needs,demo,suite,', '.join('%s %s'%(a,('**caught**' if b=='DETECTED' else '**caught** (after strengthening)' if b=='DETECTED*' else 'missed')) for a,b in det)))
print('| seeded change | property | needs, to manifest | demo | pinned suite | checks run against it (quick tier) |')
print('|---|---|---|---|---|---|')
for r in rows: print('| '+' | '.join(r)+' |')
