#!/bin/bash
# tools/seedtest.sh <patch.diff> <ID> [tier] [VERIF_ONLY subs]
# Applies a seeded change to a scratch worktree of /repo (never to /repo itself), checks that the
# tree still builds and that the pinned suite still passes, runs ./check <ID> against it and
# removes the worktree. Prints DETECTED / MISSED.
PATCH=$(readlink -f "$1"); ID=$2; TIER=${3:-quick}; ONLY=$4
WT=$(mktemp -d /tmp/seedtest.XXXXXX); rmdir "$WT"
git -C /repo worktree add -q --detach "$WT" HEAD || exit 2
trap 'git -C /repo worktree remove --force "$WT" >/dev/null 2>&1; git -C /repo worktree prune' EXIT
if ! git -C "$WT" apply "$PATCH"; then echo "PATCH-DOES-NOT-APPLY"; exit 2; fi
export GOPROXY=off GOSUMDB=off GOTOOLCHAIN=local CGO_CFLAGS=-w
if ! (cd "$WT" && go build ./pkg/... ./cmd/obitools/... ) >/dev/null 2>"$WT.build"; then echo "DOES-NOT-BUILD"; tail -5 "$WT.build"; rm -f "$WT.build"; exit 2; fi
rm -f "$WT.build"
if [ -z "$SEEDTEST_NOSUITE" ]; then
  VH_REPO="$WT" /verif/tools/baseline.sh || { echo "SUITE-FAILS"; exit 2; }
fi
cd /verif
OUT=$(VH_REPO="$WT" VERIF_ONLY="$ONLY" ./check "$ID" "$TIER" 2>&1)
echo "$OUT" | grep -E "^(VIOLATION|INCONCLUSIVE|SUMMARY)" | cut -c1-260 | head -12
if echo "$OUT" | grep -q "^VIOLATION"; then echo "DETECTED"; else echo "MISSED"; fi
