#!/usr/bin/env python3-vt
import json,sys,glob,jsonschema
ms=json.load(open('/root/.vp/MANIFEST.schema.json')); es=json.load(open('/root/.vp/EVIDENCE.schema.json'))
m=json.load(open('/verif/MANIFEST.json')); jsonschema.validate(m,ms)
ids=[json.loads(l)['id'] for l in open('/verif/properties.jsonl')]
claimed=[c['property_id'] for c in m['checks']]; na=[x['property_id'] for x in m.get('not_applicable',[])]
assert sorted(claimed+na)==sorted(ids),(sorted(claimed+na),ids)
print('manifest ok; claimed',len(claimed),'not_applicable',len(na))
for c in m['checks']:
    f=c['evidence_file']
    try:
        e=json.load(open(f)); jsonschema.validate(e,es); assert e['level']==c['level_claimed']['category']
        print(' ',c['property_id'],e['tier'],'evals',e['coverage']['evaluations'],'distinct',e['coverage']['distinct_nontrivial'],'wall',round(e['wall_s'],1))
    except Exception as ex:
        print(' ',c['property_id'],'EVIDENCE INVALID',str(ex)[:200])
