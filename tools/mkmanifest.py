#!/usr/bin/env python3
"""Regenerates /verif/MANIFEST.json from tools/manifest_src.json (per-property texts)."""
import json,subprocess
src=json.load(open('/verif/tools/manifest_src.json'))
ids=[json.loads(l)['id'] for l in open('/verif/properties.jsonl')]
hooks=subprocess.run(['git','-C','/repo','log','--format=%h %s','--grep=^verif hooks'],capture_output=True,text=True).stdout.strip().split('\n')
m={"version":1,
 "setup_cmd":"./check --setup",
 "hooks":{"guard":"verif","enable":"go build -tags verif (harness module /verif/harness with replace => /repo; commands built by import path from it)",
   "baseline_off_cmd":"cd /repo && go test -json -vet=off -count=1 -timeout 25m ./...",
   "source_commits":[h.split()[0] for h in hooks if h],"add_only":True},
 "engines":[{"name":"vh","path":"/verif/harness","serves_properties":[i for i in ids if i in src['checks']],
   "kind_free_text":"Go harness: supervisor + child processes running the real code (tag verif) under generated workloads, with reference oracles, event hooks, race detector twin, sanitizer builds, fault injection"}],
 "checks":[],"not_applicable":[],"notes":src.get('notes','')}
for i in ids:
    if i in src['checks']:
        c=src['checks'][i]
        m['checks'].append({"property_id":i,"quick_cmd":"./check %s quick"%i,"thorough_cmd":"./check %s thorough"%i,
          "evidence_file":"/verif/evidence/%s.json"%i,"replay_cmd_template":"./check %s --replay {path}"%i,"engine":"vh",
          "level_claimed":{"category":c.get('level','exploration'),"text":c['text'],"design_ref":c.get('design_ref','DESIGN.md section 5, '+i)},
          "level_note":c['note'],"technique":c['technique']})
    else:
        m['not_applicable'].append({"property_id":i,"reason":src['not_applicable'].get(i,"check not built yet in this revision of /verif (runtime monitor designed in DESIGN.md section 5; no claim is made until it runs silently on the unchanged tree)")})
json.dump(m,open('/verif/MANIFEST.json','w'),indent=1)
print("claimed",len(m['checks']),"n/a",len(m['not_applicable']))
