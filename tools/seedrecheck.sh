#!/bin/bash
# tools/seedrecheck.sh <seed name> <ID> [tier] [only]  — re-runs a check against a stored seed after the
# check was strengthened and appends the outcome to seeded/<name>/verified.txt
NAME=$1; ID=$2; TIER=${3:-quick}; ONLY=$4
OUT=$(SEEDTEST_NOSUITE=1 /verif/tools/seedtest.sh /verif/seeded/$NAME/patch.diff $ID $TIER "$ONLY" 2>&1)
echo "$OUT" | tail -4
{ echo "--- re-check ($(git -C /verif log --format=%h -1)+, repo $(git -C /repo log --format=%h -1)): ./check $ID $TIER ${ONLY:+VERIF_ONLY=$ONLY}"; echo "$OUT" | grep -E "^(VIOLATION|SUMMARY|INCONC)" | cut -c1-300 | head -4; echo "check $ID: $(echo "$OUT" | tail -1)"; } >> /verif/seeded/$NAME/verified.txt
