#!/usr/bin/env python3
"""addhook.py FILE 'anchor line (exact, stripped)' 'new line' [before|after] [occurrence|all]
Inserts a hook line before/after each/one line whose stripped text equals anchor, keeping indentation,
and adds the obiverif import. Add-only."""
import sys,re
IMP='"git.metabarcoding.org/obitools/obitools4/obitools4/pkg/obiverif"'
path,anchor,new=sys.argv[1:4]
where=sys.argv[4] if len(sys.argv)>4 else 'before'
occ=sys.argv[5] if len(sys.argv)>5 else 'all'
lines=open(path).read().split('\n')
out=[];k=0
for ln in lines:
    if ln.strip()==anchor:
        k+=1
        if occ=='all' or int(occ)==k:
            ind=ln[:len(ln)-len(ln.lstrip())]
            if where=='before':
                out.append(ind+new); out.append(ln)
            else:
                out.append(ln); out.append(ind+new)
            continue
    out.append(ln)
assert k>0,"anchor not found"
s='\n'.join(out)
if IMP not in s:
    m=re.search(r'import \(\n(.*?)\n\)',s,re.S)
    assert m
    block=m.group(1).split('\n')
    # insert after last line containing obitools4/pkg, else at the end
    idx=None
    for i,l in enumerate(block):
        if 'obitools4/pkg/' in l and l.strip().startswith('"') and l.strip()<'\t'+IMP: idx=i
    cand=[i for i,l in enumerate(block) if 'obitools4/pkg/' in l and l.strip().startswith('"')]
    if cand:
        pos=cand[0]
        for i in cand:
            if block[i].strip()<IMP: pos=i+1
        block.insert(pos,'\t'+IMP)
    else:
        block.append('\t'+IMP)
    s=s[:m.start(1)]+'\n'.join(block)+s[m.end(1):]
open(path,'w').write(s)
