#!/bin/bash
# tools/sweep.sh <tier> <seed>... : runs every claimed check and prints one line per run
cd "$(dirname "$0")/.."
TIER=$1; shift
for seed in "$@"; do
  for id in $(python3 -c "import json;print(' '.join(c['property_id'] for c in json.load(open('MANIFEST.json'))['checks']))"); do
    out=$(VERIF_SEED=$seed ./check $id $TIER 2>&1); rc=$?
    echo "seed=$seed $id rc=$rc $(echo "$out" | grep '^SUMMARY' | sed 's/SUMMARY property=[A-Z0-9]* //')"
    echo "$out" | grep -E '^(VIOLATION|INCONCLUSIVE)' | cut -c1-300
  done
done
