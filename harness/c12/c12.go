package c12

import (
	"fmt"
	"math/rand"
	"strings"

	log "github.com/sirupsen/logrus"

	"git.metabarcoding.org/obitools/obitools4/obitools4/pkg/obiformats"
	"git.metabarcoding.org/obitools/obitools4/obitools4/pkg/obingslibrary"
	"git.metabarcoding.org/obitools/obitools4/obitools4/pkg/obiseq"

	"verifh/core"
	"verifh/gen"
)

// ---------------------------------------------------------------------------
// the real code

type realLib struct {
	worker obiseq.SeqSliceWorker
}

// loadLib: sheet text -> obiformats.ReadNGSFilter -> ExtractMultiBarcodeSliceWorker (as obimultiplex does).
func loadLib(sh *gen.C12Sheet) (*realLib, error) {
	lib, err := obiformats.ReadNGSFilter(strings.NewReader(sh.Text))
	if err != nil {
		return nil, err
	}
	var opts []obingslibrary.WithOption
	if sh.CmdErr > 0 {
		opts = append(opts, obingslibrary.OptionAllowedMismatches(sh.CmdErr))
	}
	return &realLib{worker: lib.ExtractMultiBarcodeSliceWorker(opts...)}, nil
}

func (l *realLib) run(id, read string) ([]obsRec, error) {
	seq := obiseq.NewBioSequence(id, []byte(read), "")
	out, err := l.worker(obiseq.BioSequenceSlice{seq})
	if err != nil {
		return nil, err
	}
	var recs []obsRec
	for _, s := range out {
		a := map[string]any{}
		if s.HasAnnotation() {
			for k, v := range s.Annotations() {
				a[k] = v
			}
		}
		recs = append(recs, obsRec{ID: s.Id(), Seq: s.String(), A: a})
	}
	return recs, nil
}

// ---------------------------------------------------------------------------
// constructed reads

type ampOpt struct {
	fmis, rmis     int // primer mismatches
	ftagSub        int // substitutions in the forward tag
	rtagSub        int
	ftagIndel      int // insertions / deletions in the forward tag
	rtagIndel      int
	otherSampleTag bool // reverse tag taken from another sample of the marker (possibly an undeclared pair)
	foreignTag     bool // forward tag taken from another marker
}

func makeAmp(r *rand.Rand, sh *gen.C12Sheet, mi int, o ampOpt) gen.C12Amp {
	m := &sh.Markers[mi]
	si := r.Intn(len(m.Samples))
	s := m.Samples[si]
	ft, rt := s.FTag, s.RTag
	if o.otherSampleTag {
		rt = m.Samples[r.Intn(len(m.Samples))].RTag
	}
	if o.foreignTag && len(sh.Markers) > 1 && m.FLen > 0 {
		om := &sh.Markers[(mi+1+r.Intn(len(sh.Markers)-1))%len(sh.Markers)]
		t := om.Samples[r.Intn(len(om.Samples))].FTag
		if len(t) == m.FLen {
			ft = t
		}
	}
	if ft != "" {
		ft = gen.C12Substitute(r, ft, o.ftagSub, 0)
		ft = gen.C12Indel(r, ft, o.ftagIndel, 0)
	}
	if rt != "" {
		rt = gen.C12Substitute(r, rt, o.rtagSub, 0)
		rt = gen.C12Indel(r, rt, o.rtagIndel, 0)
	}
	bl := 5 + r.Intn(76)
	if r.Intn(10) == 0 {
		bl = 1 + r.Intn(5)
	}
	return gen.C12Amp{Marker: mi, Sample: si,
		FPre: ft + string(gen.DNA(r, m.FSpacer)), RPre: rt + string(gen.DNA(r, m.RSpacer)),
		FwdInst: gen.C12Instance(r, m.Fwd, o.fmis), RevInst: gen.C12Instance(r, m.Rev, o.rmis),
		Barcode: string(gen.DNA(r, bl)), Reverse: r.Intn(2) == 0}
}

// within draws primer mismatch counts within the budgets (at least one when possible).
func within(r *rand.Rand, bF, bR int) (int, int) {
	f, rv := r.Intn(bF+1), r.Intn(bR+1)
	if f+rv == 0 {
		if bF > 0 && (bR == 0 || r.Intn(2) == 0) {
			f = 1 + r.Intn(bF)
		} else if bR > 0 {
			rv = 1 + r.Intn(bR)
		}
	}
	return f, rv
}

// constructedRead draws one read of the classes listed in the property.
func constructedRead(r *rand.Rand, sh *gen.C12Sheet, long bool) *gen.C12Read {
	mi := r.Intn(len(sh.Markers))
	bF, bR := sh.BudgetF(mi), sh.BudgetR(mi)
	minFlank := 0
	fl := func() string { return gen.C12Flank(r, minFlank) }
	if long {
		// one amplicon next to a flank of 9-12 kb; no priming site within 20 nt of offset 10000
		// in either orientation, so that "a site beyond offset 10000" is a clear-cut feature
		for {
			a := makeAmp(r, sh, mi, ampOpt{})
			n := 9000 + r.Intn(900) // control: just below the 10 kb mark
			class := "long-flank-below-10k"
			if r.Intn(3) > 0 {
				n = 10020 + r.Intn(2000)
				class = "long-flank-beyond-10k"
			}
			big := string(gen.DNA(r, n))
			flanks := []string{big, fl()}
			if r.Intn(2) == 0 {
				flanks = []string{fl(), big}
			}
			rd := gen.C12Assemble(class, flanks, []gen.C12Amp{a})
			grey := false
			for _, flip := range []bool{false, true} {
				v := orient(sh, rd, flip)
				for _, st := range v.sites {
					if st.pos > farLimit-40 && st.pos < farLimit {
						grey = true
					}
				}
			}
			if !grey {
				return rd
			}
		}
	}
	k := r.Intn(100)
	switch {
	case k < 26:
		return gen.C12Assemble("clean", []string{fl(), fl()}, []gen.C12Amp{makeAmp(r, sh, mi, ampOpt{})})
	case k < 44:
		f, rv := within(r, bF, bR)
		return gen.C12Assemble("primer-errors-within-budget", []string{fl(), fl()}, []gen.C12Amp{makeAmp(r, sh, mi, ampOpt{fmis: f, rmis: rv})})
	case k < 53:
		o := ampOpt{}
		if r.Intn(2) == 0 {
			o.fmis, o.rmis = bF+1, r.Intn(bR+1)
		} else {
			o.fmis, o.rmis = r.Intn(bF+1), bR+1
		}
		return gen.C12Assemble("primer-errors-over-budget", []string{fl(), fl()}, []gen.C12Amp{makeAmp(r, sh, mi, o)})
	case k < 66:
		o := ampOpt{}
		switch r.Intn(3) {
		case 0:
			o.ftagSub = 1 + r.Intn(2)
		case 1:
			o.rtagSub = 1 + r.Intn(2)
		default:
			o.ftagSub, o.rtagSub = 1+r.Intn(2), 1+r.Intn(2)
		}
		return gen.C12Assemble("tag-substitutions", []string{fl(), fl()}, []gen.C12Amp{makeAmp(r, sh, mi, o)})
	case k < 72:
		o := ampOpt{}
		if r.Intn(2) == 0 {
			o.ftagIndel = 1 + r.Intn(2)
		} else {
			o.rtagIndel = 1 + r.Intn(2)
		}
		minFlank = 4
		return gen.C12Assemble("tag-indels", []string{fl(), fl()}, []gen.C12Amp{makeAmp(r, sh, mi, o)})
	case k < 78:
		o := ampOpt{otherSampleTag: r.Intn(2) == 0}
		o.foreignTag = !o.otherSampleTag
		return gen.C12Assemble("other-tag-combination", []string{fl(), fl()}, []gen.C12Amp{makeAmp(r, sh, mi, o)})
	case k < 88:
		m2 := r.Intn(len(sh.Markers))
		f, rv := 0, 0
		if r.Intn(2) == 0 {
			f, rv = within(r, sh.BudgetF(m2), sh.BudgetR(m2))
		}
		return gen.C12Assemble("chimera-two-amplicons", []string{fl(), fl(), fl()},
			[]gen.C12Amp{makeAmp(r, sh, mi, ampOpt{}), makeAmp(r, sh, m2, ampOpt{fmis: f, rmis: rv})})
	case k < 92:
		m2 := r.Intn(len(sh.Markers))
		bad := ampOpt{fmis: bF + 1}
		if r.Intn(2) == 0 {
			bad = ampOpt{rmis: bR + 1}
		}
		amps := []gen.C12Amp{makeAmp(r, sh, mi, bad), makeAmp(r, sh, m2, ampOpt{})}
		if r.Intn(2) == 0 {
			amps[0], amps[1] = amps[1], amps[0]
		}
		return gen.C12Assemble("chimera-one-broken-site", []string{fl(), fl(), fl()}, amps)
	case k < 97:
		// partial priming site: the read stops inside the second primer site (or, placed
		// reverse-complemented, starts inside it); only 1..len-1 bases of that site remain
		a := makeAmp(r, sh, mi, ampOpt{})
		keep := 1 + r.Intn(len(a.RevInst)-1)
		a.RevInst = a.RevInst[len(a.RevInst)-keep:]
		a.RPre = ""
		a.Note = "second-site-truncated"
		if a.Reverse {
			return gen.C12Assemble("partial-priming-site", []string{"", fl()}, []gen.C12Amp{a})
		}
		return gen.C12Assemble("partial-priming-site", []string{fl(), ""}, []gen.C12Amp{a})
	default:
		return &gen.C12Read{Seq: string(gen.DNA(r, 20+r.Intn(150))), Class: "no-priming-site"}
	}
}

func sheetDesc(sh *gen.C12Sheet) string {
	m := &sh.Markers[0]
	return fmt.Sprintf("%s/m%d/%s/%s/L%d-%d/sp%d-%d/b%d-%d/e%d", sh.Format, len(sh.Markers), sh.Matching, m.Form, m.FLen, m.RLen, m.FSpacer, m.RSpacer, m.FErr, m.RErr, sh.CmdErr)
}

func readDesc(sh *gen.C12Sheet, rd *gen.C12Read, v *view) string {
	d := rd.Class
	for _, e := range v.exp {
		m := &sh.Markers[e.marker]
		d += fmt.Sprintf("/%s:%s:L%d-%d:sp%d-%d:mis%d-%d:%v", m.Form, e.Direction, m.FLen, m.RLen, m.FSpacer, m.RSpacer, e.FwdErr, e.RevErr, e.Sample != "")
	}
	return d
}

func detail(sh *gen.C12Sheet, rd *gen.C12Read, v *view, obs []obsRec, extra map[string]any) map[string]any {
	d := map[string]any{"sheet": sh.Text, "sheet_format": sh.Format, "matching": sh.Matching, "option_e": sh.CmdErr,
		"read_class": rd.Class, "read": v.seq, "expected": v.exp, "observed": obs}
	if len(v.seq) > 600 {
		d["read"] = fmt.Sprintf("%s…(%d nt)…%s", v.seq[:150], len(v.seq), v.seq[len(v.seq)-300:])
		d["read_full"] = v.seq
	}
	for k, x := range extra {
		d[k] = x
	}
	return d
}

// sheetShown: the sheet as shown in evidence samples (the filler of a long line is abbreviated; replays keep it).
func sheetShown(sh *gen.C12Sheet) string {
	if sh.BigSheet && len(sh.Text) > 4000 {
		return sh.Text[:2000] + fmt.Sprintf("\n... (%d bytes, %d lines) ...\n", len(sh.Text), strings.Count(sh.Text, "\n")) + sh.Text[len(sh.Text)-600:]
	}
	if !sh.LongLine {
		return sh.Text
	}
	n := strings.Count(sh.Text, "lorem ipsum ")
	return strings.Replace(strings.ReplaceAll(sh.Text, "lorem ipsum ", ""), "comment=;", fmt.Sprintf("comment=<'lorem ipsum ' x %d>;", n), 1)
}

func silence() { log.SetLevel(log.ErrorLevel) }

// sheetFor draws the sheet of a case and loads it with the real reader.
func sheetFor(c *core.Ctx, opt gen.C12Opt) (*gen.C12Sheet, *realLib) {
	sh := gen.C12MakeSheet(c.Rng, opt)
	c.Risk("load-sheet:" + sh.Format)
	lib, err := loadLib(sh)
	if err != nil {
		c.Violate("sheet-rejected:"+sh.Format, "a well-formed sample sheet is rejected by ReadNGSFilter: "+err.Error(), map[string]any{"sheet": sh.Text})
		return sh, nil
	}
	return sh, lib
}

func nReads(c *core.Ctx) int { return c.Pick(100, 160) }

// runConstruct: constructed truth, one random orientation per read.
func runConstruct(c *core.Ctx) {
	silence()
	sh, lib := sheetFor(c, gen.C12Opt{})
	if lib == nil {
		return
	}
	evals, skipped, amplicons, assigned, flagged := 0, 0, 0, 0, 0
	n := nReads(c)
	for k := 0; k < n; k++ {
		long := k == 0 && c.Idx%4 == 0
		rd := constructedRead(c.Rng, sh, long)
		v := orient(sh, rd, c.Rng.Intn(2) == 0)
		if !v.ok || !unambiguous(sh, &v) {
			skipped++
			continue
		}
		c.Risk("extract:" + rd.Class)
		obs, err := lib.run(fmt.Sprintf("r%d", k), v.seq)
		evals++
		if err != nil {
			c.Violate("worker-error", "the demultiplexing worker returns an error: "+err.Error(), detail(sh, rd, &v, nil, nil))
			continue
		}
		amplicons += len(v.exp)
		for _, e := range v.exp {
			if e.Sample != "" {
				assigned++
			} else {
				flagged++
			}
		}
		c.Key("%s|%s", sheetDesc(sh), readDesc(sh, rd, &v))
		if cause, what := compareConstructed(&v, obs); cause != "" {
			c.Violate(cause, what, detail(sh, rd, &v, obs, nil))
		}
		if k == 1 {
			c.Sample(map[string]any{"sheet": sheetShown(sh), "option_e": sh.CmdErr, "read_class": rd.Class, "read": v.seq, "expected": v.exp})
		}
	}
	c.Count("evaluations", evals)
	c.Count("reads_skipped_ambiguous_by_own_matcher", skipped)
	c.Count("constructed_amplicons_checked", amplicons)
	c.Count("expected_assigned", assigned)
	c.Count("expected_flagged", flagged)
	c.Count("sheets_"+sh.Format, 1)
}

// runStrand: a read and its reverse complement give the same records, direction flipped.
func runStrand(c *core.Ctx) {
	silence()
	sh, lib := sheetFor(c, gen.C12Opt{})
	if lib == nil {
		return
	}
	evals, skipped, pairs := 0, 0, 0
	n := nReads(c)
	for k := 0; k < n; k++ {
		long := k == 0 && c.Idx%4 == 0
		rd := constructedRead(c.Rng, sh, long)
		v1, v2 := orient(sh, rd, false), orient(sh, rd, true)
		if !v1.ok || !v2.ok || !unambiguous(sh, &v1) || !unambiguous(sh, &v2) {
			skipped++
			continue
		}
		c.Risk("extract:" + rd.Class)
		o1, err1 := lib.run(fmt.Sprintf("r%d", k), v1.seq)
		o2, err2 := lib.run(fmt.Sprintf("r%d", k), v2.seq)
		evals += 2
		if err1 != nil || err2 != nil {
			c.Violate("worker-error", "the demultiplexing worker returns an error", detail(sh, rd, &v1, nil, nil))
			continue
		}
		pairs++
		if len(v1.exp) > 0 {
			c.Key("%s|%s", sheetDesc(sh), readDesc(sh, rd, &v1))
		}
		if cause, what := compareStrand(o1, o2); cause != "" {
			c.Violate(feature(cause, v1.far || v2.far), what, detail(sh, rd, &v1, o1, map[string]any{"reverse_complement_read": v2.seq, "observed_reverse_complement": o2}))
		}
		if k == 1 {
			c.Sample(map[string]any{"sheet": sheetShown(sh), "read": v1.seq, "reverse_complement": v2.seq, "read_class": rd.Class})
		}
	}
	c.Count("evaluations", evals)
	c.Count("strand_pairs", pairs)
	c.Count("reads_skipped_ambiguous_by_own_matcher", skipped)
}

// ---------------------------------------------------------------------------
// safety: hostile reads, verdict recomputed from the output annotations alone

func tieTag(r *rand.Rand, a, b string) string {
	if len(a) != len(b) {
		return a
	}
	t := []byte(a)
	flip := false
	for i := range t {
		if a[i] != b[i] {
			if flip {
				t[i] = b[i]
			}
			flip = !flip
		}
	}
	return string(t)
}

func hostileTag(r *rand.Rand, declared []string, own string, l int, avoid byte) string {
	if l == 0 {
		return ""
	}
	switch r.Intn(9) {
	case 0:
		return own
	case 1:
		return declared[r.Intn(len(declared))]
	case 2, 3:
		return gen.C12Substitute(r, own, 1+r.Intn(3), avoid)
	case 4, 5:
		return tieTag(r, declared[r.Intn(len(declared))], declared[r.Intn(len(declared))])
	case 6:
		b := gen.DNA(r, l)
		for i := range b {
			for b[i] == avoid {
				b[i] = gen.ACGT[r.Intn(4)]
			}
		}
		return string(b)
	case 7:
		return gen.C12Indel(r, own, 1+r.Intn(2), avoid)
	}
	return gen.C12Substitute(r, tieTag(r, own, declared[r.Intn(len(declared))]), r.Intn(2), avoid)
}

func hostileAmp(r *rand.Rand, sh *gen.C12Sheet, mi int) gen.C12Amp {
	m := &sh.Markers[mi]
	s := m.Samples[r.Intn(len(m.Samples))]
	var fd, rdl []string
	for _, x := range m.Samples {
		fd = append(fd, x.FTag)
		rdl = append(rdl, x.RTag)
	}
	ft := hostileTag(r, fd, s.FTag, m.FLen, m.FDelim)
	rt := hostileTag(r, rdl, s.RTag, m.RLen, m.RDelim)
	if len(sh.Markers) > 1 && r.Intn(8) == 0 { // tag of another marker
		om := &sh.Markers[(mi+1)%len(sh.Markers)]
		if t := om.Samples[r.Intn(len(om.Samples))].FTag; t != "" && m.FLen > 0 {
			ft = t
		}
	}
	pre := func(tag string, spacer int, delim byte) string {
		if delim == 0 || tag == "" {
			return tag + string(gen.DNA(r, spacer))
		}
		run := func() string {
			n := spacer
			switch r.Intn(6) {
			case 0:
				n++
			case 1:
				n = max(0, n-1)
			}
			return strings.Repeat(string(delim), n)
		}
		return run() + tag + run()
	}
	f, rv := within(r, sh.BudgetF(mi), sh.BudgetR(mi))
	if r.Intn(2) == 0 {
		f, rv = 0, 0
	}
	return gen.C12Amp{Marker: mi, Sample: -1, FPre: pre(ft, m.FSpacer, m.FDelim), RPre: pre(rt, m.RSpacer, m.RDelim),
		FwdInst: gen.C12Instance(r, m.Fwd, f), RevInst: gen.C12Instance(r, m.Rev, rv),
		Barcode: string(gen.DNA(r, 1+r.Intn(60))), Reverse: r.Intn(2) == 0}
}

func hostileRead(r *rand.Rand, sh *gen.C12Sheet) *gen.C12Read {
	mi := r.Intn(len(sh.Markers))
	fl := func() string {
		if r.Intn(5) == 0 {
			return string(gen.DNA(r, r.Intn(4))) // too short to hold a tag
		}
		return gen.C12Flank(r, 0)
	}
	switch r.Intn(10) {
	case 0:
		return gen.C12Assemble("hostile-chimera", []string{fl(), fl(), fl()}, []gen.C12Amp{hostileAmp(r, sh, mi), hostileAmp(r, sh, r.Intn(len(sh.Markers)))})
	case 1:
		// mixed primers: forward primer of one marker, reverse primer of another
		a := hostileAmp(r, sh, mi)
		if len(sh.Markers) > 1 {
			o := &sh.Markers[(mi+1)%len(sh.Markers)]
			a.RevInst = gen.C12Instance(r, o.Rev, 0)
		}
		return gen.C12Assemble("hostile-mixed-primers", []string{fl(), fl()}, []gen.C12Amp{a})
	case 2:
		rd := gen.C12Assemble("hostile-truncated", []string{fl(), fl()}, []gen.C12Amp{hostileAmp(r, sh, mi)})
		cut := r.Intn(len(rd.Seq)/2 + 1)
		if r.Intn(2) == 0 {
			rd.Seq = rd.Seq[cut:]
		} else {
			rd.Seq = rd.Seq[:len(rd.Seq)-cut]
		}
		rd.Amps = nil
		return rd
	}
	return gen.C12Assemble("hostile-tags", []string{fl(), fl()}, []gen.C12Amp{hostileAmp(r, sh, mi)})
}

func runSafety(c *core.Ctx) {
	silence()
	sh, lib := sheetFor(c, gen.C12Opt{Delim: c.Idx%3 == 2})
	if lib == nil {
		return
	}
	evals := 0
	kinds := map[string]int{}
	n := nReads(c)
	for k := 0; k < n; k++ {
		rd := hostileRead(c.Rng, sh)
		seq := rd.Seq
		if len(seq) == 0 {
			continue
		}
		c.Risk("extract:" + rd.Class)
		obs, err := lib.run(fmt.Sprintf("r%d", k), seq)
		evals++
		if err != nil {
			c.Violate("worker-error", "the demultiplexing worker returns an error: "+err.Error(), map[string]any{"sheet": sh.Text, "read": seq})
			continue
		}
		for i := range obs {
			cause, what, kind := checkSafety(sh, &obs[i])
			kinds[kind]++
			if strings.HasPrefix(kind, "assigned") {
				m := &sh.Markers[0]
				c.Key("%s/%s/%s/%s/L%d-%d/delim%v/%s/d%s-%s", sh.Format, sh.Matching, m.Form, kind, m.FLen, m.RLen, sh.Delim, obs[i].str("obimultiplex_direction"),
					obs[i].str("obimultiplex_forward_tag_dist"), obs[i].str("obimultiplex_reverse_tag_dist"))
			}
			if cause != "" {
				c.Violate(cause, what, map[string]any{"sheet": sh.Text, "matching": sh.Matching, "option_e": sh.CmdErr, "read_class": rd.Class, "read": seq, "record": obs[i], "all_records": obs})
			}
		}
		if k == 1 {
			c.Sample(map[string]any{"sheet": sheetShown(sh), "read_class": rd.Class, "read": seq, "records": obs})
		}
	}
	c.Count("evaluations", evals)
	for k, v := range kinds {
		c.Count("safety_records_"+k, v)
	}
}

func init() {
	core.Register(&core.Property{
		ID:    "C12",
		Level: "exploration",
		Rule: "each case = one random well-formed sample sheet (legacy ngsfilter text or CSV with @param lines; 1-3 markers; tag forms f:r, t, f:-, -:r; tag length 1-10; spacers 0-3 global / per direction / per primer; matching strict, hamming, indel; primer mismatch budget 0-3 from the sheet or from -e) loaded by the real obiformats.ReadNGSFilter, and 100-160 reads assembled from it (flank + tag + spacer + forward primer + barcode + rc(reverse primer) + spacer + rc(tag) + flank, either orientation; primer mismatches within and one over the budget, at the ends of the primer; tag substitutions and indels; undeclared tag combinations; chimeras of two amplicons; truncated priming sites; reads without site; flanks up to 12 kb) run through the real ExtractMultiBarcodeSliceWorker and through the obimultiplex command. " +
			"construct/e2e: only reads for which an independent brute-force matcher finds exactly the constructed priming sites are judged; expected sample = unique nearest declared tag under the declared mode computed by the harness. strand: read vs reverse complement. safety: hostile reads (near-tie tags, random tags, foreign tags, delimiter/rescue extraction, truncations); the verdict is recomputed from the annotations of each output record alone. " +
			"Added later: concurrent sub-check (one demultiplexing worker shared by 2-16 goroutines, approximate tag matching preferred). legacy sheets with one sample line beyond 64 KiB. " +
			"distinct_nontrivial = distinct (sheet shape: format, markers, matching, tag form, tag lengths, spacers, budgets, -e) x (read class, per amplicon: form, direction, tag lengths, spacers, primer mismatches, assigned or flagged) classes of reads that contain at least one complete amplicon (construct, strand, e2e) + distinct (format, matching, form, exact/nearest, tag lengths, delimiter, direction, tag distances) classes of records that carry a sample (safety)",
		Assume: []string{
			"a sheet is well-formed when all tags of one primer have the same length, tag pairs are unique per marker and primers are distinct",
			"'identified under the declared matching mode' = strict: the extracted pair is declared; hamming / indel: on each tagged side the declared tag at strictly smallest Hamming / Levenshtein distance from the extracted tag is unique, and the pair of these tags is declared",
			"Hamming distance between strings of different length is not defined by the property: such records are not judged (counted as safety_records_free)",
			"primer indels (--with-indels) are not exercised: the property speaks of primer mismatches",
		},
		Cmds: []string{"obimultiplex"},
		Subs: []core.Sub{
			{Name: "construct", N: core.Const(640, 18000), Run: runConstruct},
			{Name: "strand", N: core.Const(320, 9000), Run: runStrand},
			{Name: "safety", N: core.Const(480, 13500), Run: runSafety},
			{Name: "e2e", N: core.Const(128, 4800), Run: runE2E},
			{Name: "concurrent", N: core.Const(24, 240), Run: runConcurrent, Race: true, NRace: core.Const(6, 24), TimeoutS: 600},
		},
		RaceFiles:     []string{"pkg/obingslibrary/", "pkg/obiapat/"},
		MinNontrivial: 500,
	})
}
