package c12

import (
	"fmt"
	"sort"
	"sync"
	"sync/atomic"

	"verifh/core"
	"verifh/gen"
)

// canon renders the records produced for one read in a canonical form.
func canon(obs []obsRec) string {
	var parts []string
	for _, o := range obs {
		keys := make([]string, 0, len(o.A))
		for k := range o.A {
			keys = append(keys, k)
		}
		sort.Strings(keys)
		s := o.ID + "|" + o.Seq
		for _, k := range keys {
			s += fmt.Sprintf("|%s=%v", k, o.A[k])
		}
		parts = append(parts, s)
	}
	return fmt.Sprint(parts)
}

// runConcurrent: obimultiplex hands ONE demultiplexing worker to all its parallel workers. The
// records produced for a read while 2-16 goroutines run that same worker must be the records
// produced for the read alone (which the other sub-checks compare with the constructed truth).
func runConcurrent(c *core.Ctx) {
	silence()
	var sh *gen.C12Sheet
	var lib *realLib
	// two cases out of three insist on a sheet with approximate tag matching (its distance
	// computations are the part of the matcher that needs scratch memory)
	for try := 0; try < 40; try++ {
		sh, lib = sheetFor(c, gen.C12Opt{Delim: c.Idx%2 == 1})
		if lib == nil {
			return
		}
		if c.Idx%3 == 0 || sh.Matching != "strict" {
			break
		}
	}
	type item struct {
		id, read, alone string
	}
	var items []item
	for k := 0; k < c.Pick(200, 500); k++ {
		var read string
		if k%3 == 2 {
			read = hostileRead(c.Rng, sh).Seq
		} else {
			rd := constructedRead(c.Rng, sh, false)
			v := orient(sh, rd, c.Rng.Intn(2) == 0)
			read = v.seq
		}
		if read == "" {
			continue
		}
		id := fmt.Sprintf("r%d", k)
		obs, err := lib.run(id, read)
		if err != nil {
			continue // judged by the other sub-checks
		}
		items = append(items, item{id, read, canon(obs)})
	}
	if len(items) < 20 {
		c.Inconclusive("too few reads for the concurrent sub-check")
		return
	}
	workers := []int{2, 4, 8, 16}[c.Idx%4]
	rounds := c.Pick(4, 10)
	type bad struct {
		cause string
		det   map[string]any
	}
	found := make(chan bad, 2*workers)
	var evals atomic.Int64
	var wg sync.WaitGroup
	for w := 0; w < workers; w++ {
		wg.Add(1)
		go func(w int) {
			defer wg.Done()
			for rd := 0; rd < rounds; rd++ {
				for k := range items {
					it := items[(k*7+w*11+rd)%len(items)]
					func() {
						defer func() {
							if x := recover(); x != nil {
								select {
								case found <- bad{"concurrent:panic", map[string]any{"sheet": sh.Text, "read": it.read, "panic": fmt.Sprint(x)}}:
								default:
								}
							}
						}()
						evals.Add(1)
						obs, err := lib.run(it.id, it.read)
						if got := canon(obs); err != nil || got != it.alone {
							select {
							case found <- bad{"concurrent:records:" + sh.Matching, map[string]any{"sheet": sh.Text, "option_e": sh.CmdErr, "read": it.read, "goroutines": workers, "alone": it.alone, "got": got, "error": fmt.Sprint(err)}}:
							default:
							}
						}
					}()
				}
			}
		}(w)
	}
	wg.Wait()
	close(found)
	c.Count("evaluations", int(evals.Load()))
	c.Count("concurrent_evaluations", int(evals.Load()))
	c.Key("concurrent/%s/%d/%s", sh.Matching, workers, sheetDesc(sh))
	if c.Idx < 2 {
		c.Sample(map[string]any{"sheet": sheetShown(sh), "reads": len(items), "goroutines": workers, "matching": sh.Matching})
	}
	seen := map[string]bool{}
	for b := range found {
		if !seen[b.cause] {
			seen[b.cause] = true
			c.Violate(b.cause, "the demultiplexing worker gives, while other goroutines run it, records different from those it gives for the same read alone", b.det)
		}
	}
}
