// Package c12: demultiplexing assigns the declared sample, the exact barcode, on either strand.
//
// model.go: what a constructed read must yield (geometry written from the
// property text, independent of the code under test), the "identified under
// the declared matching mode" rule, and the comparison with observed records.
package c12

import (
	"fmt"
	"sort"
	"strings"

	"verifh/gen"
	"verifh/ref"
)

const (
	kFwd  = iota // forward primer, direct
	kCRev        // reverse-complemented reverse primer
	kRev         // reverse primer, direct
	kCFwd        // reverse-complemented forward primer
)

// farLimit: a primer site is "far" when it begins at or beyond this offset of the read as given.
const farLimit = 10020

type site struct {
	marker, kind, pos, mis int
	inBudget               bool
}

// expRec is one record that a read must produce.
type expRec struct {
	Barcode   string `json:"barcode"`
	Direction string `json:"direction"`
	FwdPrimer string `json:"forward_primer"`
	RevPrimer string `json:"reverse_primer"`
	FwdMatch  string `json:"forward_match"`
	RevMatch  string `json:"reverse_match"`
	FwdErr    int    `json:"forward_error"`
	RevErr    int    `json:"reverse_error"`
	FTag      string `json:"forward_tag"`
	RTag      string `json:"reverse_tag"`
	Sample    string `json:"sample"` // "" = must be flagged with an error instead
	Exp       string `json:"experiment"`
	Why       string `json:"why,omitempty"`
	marker    int
}

// view is a read in one orientation with everything the property says about it.
type view struct {
	seq   string
	exp   []expRec
	sites []site
	ok    bool // every tag window lies inside the read
	far   bool // some usable primer site begins at >= farLimit
}

func pattern(sh *gen.C12Sheet, marker, kind int) (pat string, budget int) {
	m := &sh.Markers[marker]
	switch kind {
	case kFwd:
		return m.Fwd, sh.BudgetF(marker)
	case kCFwd:
		return gen.C12RC(m.Fwd), sh.BudgetF(marker)
	case kRev:
		return m.Rev, sh.BudgetR(marker)
	}
	return gen.C12RC(m.Rev), sh.BudgetR(marker)
}

func window(s string, from, n int) (string, bool) {
	if n == 0 {
		return "", true
	}
	if from < 0 || from+n > len(s) {
		return "", false
	}
	return s[from : from+n], true
}

// orient describes the read as given (flip=false) or reverse-complemented (flip=true).
func orient(sh *gen.C12Sheet, rd *gen.C12Read, flip bool) view {
	v := view{seq: rd.Seq, ok: true}
	if flip {
		v.seq = gen.C12RC(rd.Seq)
	}
	L := len(rd.Seq)
	n := len(rd.Amps)
	for k := 0; k < n; k++ {
		a := &rd.Amps[k]
		if flip {
			a = &rd.Amps[n-1-k]
		}
		A := a.Seq()
		start, rev := a.Start, a.Reverse
		if flip {
			start, rev = L-a.Start-len(A), !rev
		}
		m := &sh.Markers[a.Marker]
		bF, bR := sh.BudgetF(a.Marker), sh.BudgetR(a.Marker)
		fm := ref.C12Mismatches([]byte(a.FwdInst), []byte(m.Fwd))
		rm := ref.C12Mismatches([]byte(a.RevInst), []byte(m.Rev))
		var ftag, rtag string
		var ok1, ok2 bool
		dir := "forward"
		var s1, s2 site
		if !rev {
			p1 := start + len(a.FPre)
			p2 := p1 + len(a.FwdInst) + len(a.Barcode)
			s1 = site{a.Marker, kFwd, p1, fm, fm <= bF}
			s2 = site{a.Marker, kCRev, p2, rm, rm <= bR}
			ftag, ok1 = window(v.seq, p1-m.FSpacer-m.FLen, m.FLen)
			rtag, ok2 = window(v.seq, p2+len(a.RevInst)+m.RSpacer, m.RLen)
			rtag = gen.C12RC(rtag)
		} else {
			dir = "reverse"
			p1 := start + len(a.RPre)
			p2 := p1 + len(a.RevInst) + len(a.Barcode)
			s1 = site{a.Marker, kRev, p1, rm, rm <= bR}
			s2 = site{a.Marker, kCFwd, p2, fm, fm <= bF}
			rtag, ok1 = window(v.seq, p1-m.RSpacer-m.RLen, m.RLen)
			ftag, ok2 = window(v.seq, p2+len(a.FwdInst)+m.FSpacer, m.FLen)
			ftag = gen.C12RC(ftag)
		}
		if a.Note == "second-site-truncated" { // the reverse-primer site is incomplete: it cannot be matched
			if !rev {
				s2.inBudget = false
			} else {
				s1.inBudget = false
			}
		}
		v.sites = append(v.sites, s1, s2)
		for _, s := range []site{s1, s2} {
			if s.inBudget && s.pos >= farLimit {
				v.far = true
			}
		}
		if !(s1.inBudget && s2.inBudget) {
			continue
		}
		if !ok1 || !ok2 {
			v.ok = false
			continue
		}
		e := expRec{Barcode: a.Barcode, Direction: dir, FwdPrimer: m.Fwd, RevPrimer: m.Rev,
			FwdMatch: a.FwdInst, RevMatch: a.RevInst, FwdErr: fm, RevErr: rm, FTag: ftag, RTag: rtag, marker: a.Marker}
		sp := specSample(sh, a.Marker, ftag, rtag)
		if sp.free {
			v.ok = false
		}
		if sp.sample != nil {
			e.Sample, e.Exp = sp.sample.Name, sp.sample.Exp
		}
		e.Why = sp.why
		v.exp = append(v.exp, e)
	}
	return v
}

// unambiguous: the brute-force matcher finds, for every pattern of every marker
// of the sheet, exactly the usable sites that were constructed and nothing else.
func unambiguous(sh *gen.C12Sheet, v *view) bool {
	want := map[[3]int]bool{}
	for _, s := range v.sites {
		if s.inBudget {
			want[[3]int{s.marker, s.kind, s.pos}] = true
		}
	}
	found := 0
	seq := []byte(v.seq)
	for mi := range sh.Markers {
		for kind := kFwd; kind <= kCFwd; kind++ {
			pat, budget := pattern(sh, mi, kind)
			for _, h := range ref.C12Hits(seq, []byte(pat), budget) {
				if !want[[3]int{mi, kind, h.Pos}] {
					// the forward primer of ANOTHER marker, a variant of this one, matching exactly
					// where a constructed forward site lies: that marker has no reverse site in the
					// read (any such hit ends the loop with "ambiguous"), it cannot be the amplified one
					if sh.ClosePrimers && (kind == kFwd || kind == kCFwd) && sameSiteOfAnotherMarker(want, mi, kind, h.Pos, len(sh.Markers)) {
						continue
					}
					return false
				}
				found++
			}
		}
	}
	return found == len(want)
}

func sameSiteOfAnotherMarker(want map[[3]int]bool, mi, kind, pos, nm int) bool {
	for o := 0; o < nm; o++ {
		if o != mi && want[[3]int{o, kind, pos}] {
			return true
		}
	}
	return false
}

// ---------------------------------------------------------------------------
// "its extracted tags identify that sample under the declared matching mode"

type specResult struct {
	sample *gen.C12Sample
	why    string // strict-miss | tie | no-pair | missing-tag | …
	free   bool   // the property text does not decide (Hamming distance of strings of different length)
	distF  int
	distR  int
}

func specSide(mode, tag string, declLen int, cands []string) (proposed string, why string, free bool, d int) {
	if declLen == 0 {
		if tag != "" {
			return "", "tag-on-untagged-side", false, 0
		}
		return "", "", false, 0
	}
	if tag == "" {
		return "", "missing-tag", false, 0
	}
	switch mode {
	case "strict":
		return tag, "", false, 0
	case "hamming":
		best, d, ok, undef := ref.C12Nearest(tag, cands, ref.C12HammingStr)
		if undef {
			return "", "", true, 0
		}
		if !ok {
			return "", "tie", false, d
		}
		return best, "", false, d
	case "indel":
		best, d, ok, _ := ref.C12Nearest(tag, cands, ref.C12LevStr)
		if !ok {
			return "", "tie", false, d
		}
		return best, "", false, d
	}
	return "", "unknown-mode", false, 0
}

// specSample applies the rule of the property to a pair of extracted tags.
func specSample(sh *gen.C12Sheet, marker int, ftag, rtag string) specResult {
	m := &sh.Markers[marker]
	var fc, rc []string
	for _, s := range m.Samples {
		fc = append(fc, s.FTag)
		rc = append(rc, s.RTag)
	}
	pf, whyF, freeF, dF := specSide(sh.Matching, ftag, m.FLen, fc)
	pr, whyR, freeR, dR := specSide(sh.Matching, rtag, m.RLen, rc)
	res := specResult{distF: dF, distR: dR}
	if freeF || freeR {
		res.free = true
		return res
	}
	if whyF != "" || whyR != "" {
		res.why = whyF
		if res.why == "" {
			res.why = whyR
		}
		return res
	}
	for i := range m.Samples {
		if m.Samples[i].FTag == pf && m.Samples[i].RTag == pr {
			res.sample = &m.Samples[i]
			return res
		}
	}
	res.why = "no-pair"
	return res
}

// ---------------------------------------------------------------------------
// observed records

type obsRec struct {
	ID  string         `json:"id"`
	Seq string         `json:"sequence"`
	A   map[string]any `json:"annotations"`
}

func (o *obsRec) has(k string) bool { _, ok := o.A[k]; return ok }
func (o *obsRec) str(k string) string {
	v, ok := o.A[k]
	if !ok {
		return ""
	}
	if s, ok := v.(string); ok {
		return s
	}
	return fmt.Sprint(v)
}
func (o *obsRec) num(k string) int {
	switch v := o.A[k].(type) {
	case int:
		return v
	case int64:
		return int(v)
	case float64:
		return int(v)
	}
	return -1
}

func feature(cause string, far bool) string {
	if far {
		return cause + ":far-site"
	}
	return cause
}

// compareConstructed checks the records of one read against the construction.
// It returns the classified cause ("" = held) and a sentence.
func compareConstructed(v *view, obs []obsRec) (cause, what string) {
	if len(v.exp) == 0 {
		// nothing to extract: the read itself must come out, flagged
		if len(obs) == 0 {
			return feature("no-record", v.far), "the read yields no record at all"
		}
		if len(obs) != 1 {
			return feature("spurious-amplicon", v.far), fmt.Sprintf("a read without a complete pair of priming sites yields %d records", len(obs))
		}
		o := &obs[0]
		switch {
		case o.has("sample"):
			return feature("spurious-sample", v.far), "a read without a complete pair of priming sites is assigned to sample " + o.str("sample")
		case !o.has("obimultiplex_error"):
			return feature("unflagged", v.far), "a read without a complete pair of priming sites is output without obimultiplex_error"
		case o.has("obimultiplex_direction"):
			return feature("spurious-amplicon", v.far), "a barcode is extracted from a read without a complete pair of priming sites"
		}
		return "", ""
	}
	var amp []*obsRec
	for i := range obs {
		if obs[i].has("obimultiplex_direction") {
			amp = append(amp, &obs[i])
		}
	}
	if len(amp) < len(v.exp) {
		return feature("missing-amplicon", v.far), fmt.Sprintf("%d amplicons constructed, %d extracted", len(v.exp), len(amp))
	}
	if len(amp) > len(v.exp) || len(amp) != len(obs) {
		return feature("spurious-amplicon", v.far), fmt.Sprintf("%d amplicons constructed, %d records returned", len(v.exp), len(obs))
	}
	exp := append([]expRec{}, v.exp...)
	sort.SliceStable(exp, func(i, j int) bool {
		return exp[i].Barcode+"|"+exp[i].Direction+"|"+exp[i].FwdPrimer < exp[j].Barcode+"|"+exp[j].Direction+"|"+exp[j].FwdPrimer
	})
	sort.SliceStable(amp, func(i, j int) bool {
		return amp[i].Seq+"|"+amp[i].str("obimultiplex_direction")+"|"+amp[i].str("obimultiplex_forward_primer") <
			amp[j].Seq+"|"+amp[j].str("obimultiplex_direction")+"|"+amp[j].str("obimultiplex_forward_primer")
	})
	for i := range exp {
		e, o := &exp[i], amp[i]
		switch {
		case o.Seq != e.Barcode:
			return feature("barcode", v.far), fmt.Sprintf("barcode %q returned, %q constructed", o.Seq, e.Barcode)
		case o.str("obimultiplex_direction") != e.Direction:
			return feature("direction", v.far), fmt.Sprintf("direction %q reported, %q constructed", o.str("obimultiplex_direction"), e.Direction)
		case o.str("obimultiplex_forward_primer") != e.FwdPrimer || o.str("obimultiplex_reverse_primer") != e.RevPrimer:
			return feature("primer-match", v.far), "the reported primer pair is not the one of the amplicon"
		case o.str("obimultiplex_forward_match") != e.FwdMatch || o.str("obimultiplex_reverse_match") != e.RevMatch:
			return feature("primer-match", v.far), fmt.Sprintf("primer matches %q/%q reported, %q/%q constructed", o.str("obimultiplex_forward_match"), o.str("obimultiplex_reverse_match"), e.FwdMatch, e.RevMatch)
		case o.num("obimultiplex_forward_error") != e.FwdErr || o.num("obimultiplex_reverse_error") != e.RevErr:
			return feature("primer-match", v.far), fmt.Sprintf("primer mismatch counts %d/%d reported, %d/%d constructed", o.num("obimultiplex_forward_error"), o.num("obimultiplex_reverse_error"), e.FwdErr, e.RevErr)
		case o.str("obimultiplex_forward_tag") != e.FTag || o.str("obimultiplex_reverse_tag") != e.RTag:
			return feature("tag", v.far), fmt.Sprintf("tags %q:%q reported, %q:%q constructed", o.str("obimultiplex_forward_tag"), o.str("obimultiplex_reverse_tag"), e.FTag, e.RTag)
		}
		if e.Sample == "" {
			if o.has("sample") {
				return feature("spurious-sample", v.far), fmt.Sprintf("tags %q:%q identify no sample (%s) but the record is assigned to %q", e.FTag, e.RTag, e.Why, o.str("sample"))
			}
			if !o.has("obimultiplex_error") {
				return feature("unflagged", v.far), "a record without sample carries no obimultiplex_error"
			}
			continue
		}
		if o.str("sample") != e.Sample || o.str("experiment") != e.Exp {
			return feature("sample", v.far), fmt.Sprintf("sample %q / experiment %q reported, %q / %q declared for tags %q:%q", o.str("sample"), o.str("experiment"), e.Sample, e.Exp, e.FTag, e.RTag)
		}
		if o.has("obimultiplex_error") {
			return feature("sample", v.far), "a correctly identified record is flagged with obimultiplex_error"
		}
	}
	return "", ""
}

// strandKey is what must be identical for a read and its reverse complement
// (the direction of the second one is flipped before the comparison).
func strandTuples(obs []obsRec, flipDir bool) [][]string {
	var t [][]string
	for i := range obs {
		o := &obs[i]
		if !o.has("obimultiplex_direction") {
			t = append(t, []string{"<no amplicon>", "", o.str("sample"), fmt.Sprint(o.has("obimultiplex_error")), "", "", "", "", "", "", "", "", ""})
			continue
		}
		d := o.str("obimultiplex_direction")
		if flipDir {
			d = map[string]string{"forward": "reverse", "reverse": "forward"}[d]
		}
		t = append(t, []string{o.Seq, d, o.str("sample"), fmt.Sprint(o.has("obimultiplex_error")), o.str("experiment"),
			o.str("obimultiplex_forward_tag"), o.str("obimultiplex_reverse_tag"),
			o.str("obimultiplex_forward_match"), o.str("obimultiplex_reverse_match"),
			o.str("obimultiplex_forward_error"), o.str("obimultiplex_reverse_error"),
			o.str("obimultiplex_forward_primer"), o.str("obimultiplex_reverse_primer")})
	}
	sort.Slice(t, func(i, j int) bool { return strings.Join(t[i], "|") < strings.Join(t[j], "|") })
	return t
}

var strandFields = []string{"barcode", "direction", "sample", "flag", "sample", "tag", "tag", "primer-match", "primer-match", "primer-match", "primer-match", "primer-match", "primer-match"}

func compareStrand(a, b []obsRec) (cause, what string) {
	ta, tb := strandTuples(a, false), strandTuples(b, true)
	if len(ta) != len(tb) {
		na, nb := 0, 0
		for _, t := range ta {
			if t[0] != "<no amplicon>" {
				na++
			}
		}
		for _, t := range tb {
			if t[0] != "<no amplicon>" {
				nb++
			}
		}
		return "asymmetric:count", fmt.Sprintf("%d amplicons from the read, %d from its reverse complement", na, nb)
	}
	for i := range ta {
		if (ta[i][0] == "<no amplicon>") != (tb[i][0] == "<no amplicon>") {
			return "asymmetric:count", "an amplicon is extracted on one strand only"
		}
		for j := range ta[i] {
			if ta[i][j] != tb[i][j] {
				return "asymmetric:" + strandFields[j], fmt.Sprintf("%s differs between the strands: %q vs %q", strandFields[j], ta[i][j], tb[i][j])
			}
		}
	}
	return "", ""
}

// checkSafety recomputes, from the annotations of one output record alone,
// whether its sample is justified. Returns cause ("" = held), sentence, and
// what kind of record it was (for the evidence).
func checkSafety(sh *gen.C12Sheet, o *obsRec) (cause, what, kind string) {
	if !o.has("sample") {
		if !o.has("obimultiplex_error") {
			return "unflagged", "a record without sample carries no obimultiplex_error", "unflagged"
		}
		return "", "", "flagged"
	}
	mode := sh.Matching
	fp, rp := o.str("obimultiplex_forward_primer"), o.str("obimultiplex_reverse_primer")
	mi := -1
	for i := range sh.Markers {
		if sh.Markers[i].Fwd == fp && sh.Markers[i].Rev == rp {
			mi = i
		}
	}
	if mi < 0 {
		return "unsafe-assignment:" + mode + ":unknown-marker", fmt.Sprintf("sample %q assigned with primers %q/%q that the sheet does not declare", o.str("sample"), fp, rp), "assigned"
	}
	ft, rt := o.str("obimultiplex_forward_tag"), o.str("obimultiplex_reverse_tag")
	sp := specSample(sh, mi, ft, rt)
	if sp.free {
		return "", "", "free"
	}
	kind = "assigned-exact"
	if sp.distF+sp.distR > 0 {
		kind = "assigned-nearest"
	}
	if sp.sample == nil {
		return "unsafe-assignment:" + mode + ":" + sp.why, fmt.Sprintf("sample %q assigned although the extracted tags %q:%q identify no sample under %s matching (%s)", o.str("sample"), ft, rt, mode, sp.why), kind
	}
	if sp.sample.Name != o.str("sample") || sp.sample.Exp != o.str("experiment") {
		return "unsafe-assignment:" + mode + ":wrong-sample", fmt.Sprintf("sample %q assigned, the extracted tags %q:%q identify %q under %s matching", o.str("sample"), ft, rt, sp.sample.Name, mode), kind
	}
	return "", "", kind
}
