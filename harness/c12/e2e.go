package c12

import (
	"bytes"
	"context"
	"encoding/json"
	"fmt"
	"os"
	"os/exec"
	"path/filepath"
	"strconv"
	"strings"
	"time"

	"verifh/core"
	"verifh/gen"
)

// parseSeqFile reads a FASTA or 4-line FASTQ file written by the obitools
// (identifier, optional JSON annotations on the title line).
func parseSeqFile(path string) ([]obsRec, error) {
	b, err := os.ReadFile(path)
	if err != nil {
		return nil, err
	}
	var recs []obsRec
	lines := strings.Split(string(b), "\n")
	header := func(h string) (obsRec, error) {
		id, rest, _ := strings.Cut(h, " ")
		r := obsRec{ID: id, A: map[string]any{}}
		rest = strings.TrimSpace(rest)
		if strings.HasPrefix(rest, "{") {
			if err := json.Unmarshal([]byte(rest), &r.A); err != nil {
				return r, fmt.Errorf("title line of %s: %v", id, err)
			}
		}
		return r, nil
	}
	if len(b) == 0 {
		return nil, nil
	}
	switch b[0] {
	case '>':
		var cur *obsRec
		for _, l := range lines {
			if strings.HasPrefix(l, ">") {
				r, err := header(l[1:])
				if err != nil {
					return nil, err
				}
				recs = append(recs, r)
				cur = &recs[len(recs)-1]
			} else if cur != nil {
				cur.Seq += strings.ToLower(strings.TrimSpace(l))
			}
		}
	case '@':
		for i := 0; i+3 < len(lines); i += 4 {
			if !strings.HasPrefix(lines[i], "@") || !strings.HasPrefix(lines[i+2], "+") {
				return nil, fmt.Errorf("not a 4-line FASTQ record at line %d", i+1)
			}
			r, err := header(lines[i][1:])
			if err != nil {
				return nil, err
			}
			r.Seq = strings.ToLower(strings.TrimSpace(lines[i+1]))
			recs = append(recs, r)
		}
	default:
		return nil, fmt.Errorf("unknown output format")
	}
	return recs, nil
}

func baseID(id string) string {
	if i := strings.Index(id, "_sub["); i >= 0 {
		return id[:i]
	}
	return id
}

// runE2E: the obimultiplex command on a file of reads.
func runE2E(c *core.Ctx) {
	sh := gen.C12MakeSheet(c.Rng, gen.C12Opt{})
	dir := filepath.Join(c.Dir, fmt.Sprintf("e2e-%d", c.Idx))
	os.MkdirAll(dir, 0o755)
	defer os.RemoveAll(dir)
	if k := os.Getenv("C12_KEEP"); k != "" { // development aid: keep the files of the case
		defer func() { exec.Command("cp", "-r", dir, k).Run() }()
	}
	sheetPath := filepath.Join(dir, []string{"sheet.txt", "sheet.csv", "ngsfilter"}[c.Rng.Intn(3)])
	os.WriteFile(sheetPath, []byte(sh.Text), 0o644)

	type item struct {
		rd     *gen.C12Read
		v      view
		judged bool
	}
	var items []item
	hasLong := c.Idx%4 == 0
	n := c.Pick(60, 100)
	small := c.Idx%5 == 1 // a very small input file, written with -u, holding at least one read without priming site
	if small {
		n = 1 + c.Rng.Intn(4)
	}
	for k := 0; k < n; k++ {
		var rd *gen.C12Read
		long := k == 0 && hasLong
		if !long && c.Rng.Intn(6) == 0 {
			rd = hostileRead(c.Rng, sh)
			if len(rd.Seq) == 0 {
				continue
			}
			items = append(items, item{rd: rd, v: view{seq: rd.Seq}})
			continue
		}
		rd = constructedRead(c.Rng, sh, long)
		v := orient(sh, rd, c.Rng.Intn(2) == 0)
		items = append(items, item{rd: rd, v: v, judged: v.ok && unambiguous(sh, &v)})
	}
	if small {
		rd := &gen.C12Read{Seq: string(gen.DNA(c.Rng, 30+c.Rng.Intn(100))), Class: "no-priming-site"}
		v := orient(sh, rd, false)
		items = append(items, item{rd: rd, v: v, judged: unambiguous(sh, &v)})
	}
	fastq := c.Rng.Intn(3) == 0
	upper := c.Rng.Intn(2) == 0
	var in bytes.Buffer
	for i, it := range items {
		s := it.v.seq
		if upper {
			s = strings.ToUpper(s)
		}
		if fastq {
			fmt.Fprintf(&in, "@r%d\n%s\n+\n%s\n", i, s, strings.Repeat("I", len(s)))
		} else {
			fmt.Fprintf(&in, ">r%d\n", i)
			for len(s) > 60 {
				in.WriteString(s[:60] + "\n")
				s = s[60:]
			}
			in.WriteString(s + "\n")
		}
	}
	readsPath := filepath.Join(dir, map[bool]string{true: "reads.fastq", false: "reads.fasta"}[fastq])
	os.WriteFile(readsPath, in.Bytes(), 0o644)

	mode := []string{"unidentified", "keep-errors", "discard"}[c.Rng.Intn(3)]
	if small {
		mode = "unidentified"
	}
	outPath, unidPath := filepath.Join(dir, "out"), filepath.Join(dir, "unidentified")
	args := []string{"-t", sheetPath, "--no-progressbar", "--max-cpu", fmt.Sprint(1 + c.Rng.Intn(4)), "--batch-size", fmt.Sprint(1 + c.Rng.Intn(40)), "-o", outPath}
	switch mode {
	case "unidentified":
		args = append(args, "-u", unidPath)
	case "keep-errors":
		args = append(args, "--keep-errors")
	}
	if sh.CmdErr > 0 {
		args = append(args, "-e", fmt.Sprint(sh.CmdErr))
	}
	if fastq && (hasLong || c.Rng.Intn(3) == 0) {
		// the format sniffer of the reader only sees the first 3 kB of the file and does not
		// recognise a FASTQ file whose first record is longer (input reading is not part of C12)
		args = append(args, "--fastq")
	}
	args = append(args, readsPath)
	c.Risk("obimultiplex:" + mode)
	limit := 300
	if v, err := strconv.Atoi(os.Getenv("C12_E2E_TIMEOUT")); err == nil && v > 0 { // development aid
		limit = v
	}
	ctx, cancel := context.WithTimeout(context.Background(), time.Duration(limit)*time.Second)
	defer cancel()
	cmd := exec.CommandContext(ctx, filepath.Join(c.BinDir, "obimultiplex"), args...)
	var stderr bytes.Buffer
	cmd.Stderr = &stderr
	err := cmd.Run()
	base := map[string]any{"sheet": sh.Text, "args": strings.Join(args, " "), "input_format": map[bool]string{true: "fastq", false: "fasta"}[fastq], "upper_case": upper}
	if ctx.Err() != nil {
		c.Inconclusive(fmt.Sprintf("obimultiplex did not finish within %d s (case %d: %s)", limit, c.Idx, strings.Join(args, " ")))
		return
	}
	if ee, ok := err.(*exec.ExitError); ok && ee.ExitCode() < 0 {
		c.Inconclusive(fmt.Sprintf("obimultiplex was killed by a signal (case %d: %v)", c.Idx, err))
		return
	}
	if err != nil {
		base["stderr"] = tailStr(stderr.String(), 2000)
		base["reads"] = in.String()
		c.Violate("command-failed:"+sh.Format, "obimultiplex exits with an error on a well-formed sheet and well-formed reads: "+err.Error(), base)
		return
	}
	mainRecs, err := parseSeqFile(outPath)
	if err != nil {
		c.Inconclusive("cannot parse the output of obimultiplex: " + err.Error())
		return
	}
	var unidRecs []obsRec
	if mode == "unidentified" {
		// the file is written by a goroutine the command does not wait for explicitly; an absent file means no record
		if _, e := os.Stat(unidPath); e == nil {
			unidRecs, err = parseSeqFile(unidPath)
			if err != nil {
				c.Inconclusive("cannot parse the unidentified file: " + err.Error())
				return
			}
		}
	}
	byID := map[string][]obsRec{}
	byIDu := map[string][]obsRec{}
	for _, r := range mainRecs {
		byID[baseID(r.ID)] = append(byID[baseID(r.ID)], r)
	}
	for _, r := range unidRecs {
		byIDu[baseID(r.ID)] = append(byIDu[baseID(r.ID)], r)
	}
	det := func(it *item, obs []obsRec, extra map[string]any) map[string]any {
		d := detail(sh, it.rd, &it.v, obs, base)
		for k, x := range extra {
			d[k] = x
		}
		return d
	}
	evals, judged := 0, 0
	for i := range items {
		it := &items[i]
		id := fmt.Sprintf("r%d", i)
		evals++
		obs := append(append([]obsRec{}, byID[id]...), byIDu[id]...)
		// safety and routing on every record
		for k := range obs {
			cause, what, _ := checkSafety(sh, &obs[k])
			if cause != "" && !(mode == "discard" && cause == "unflagged") {
				c.Violate(cause, what, det(it, obs, map[string]any{"record": obs[k]}))
			}
		}
		for _, o := range byID[id] {
			if o.has("obimultiplex_error") && mode != "keep-errors" {
				c.Violate("routing:error-in-main-output", "a record flagged with obimultiplex_error is written to the main output ("+mode+")", det(it, obs, nil))
			}
		}
		for _, o := range byIDu[id] {
			if !o.has("obimultiplex_error") {
				c.Violate("routing:unflagged-in-unidentified", "a record without obimultiplex_error is written to the unidentified file", det(it, obs, nil))
			}
		}
		if !it.judged {
			continue
		}
		judged++
		v := it.v
		if len(v.exp) > 0 {
			c.Key("%s|%s|%s", sheetDesc(sh), readDesc(sh, it.rd, &v), mode)
		}
		onlyAssigned := mode == "discard" // flagged records are dropped: only the assigned amplicons may remain
		if mode == "unidentified" {
			wantFlagged := 0
			for _, e := range v.exp {
				if e.Sample == "" {
					wantFlagged++
				}
			}
			if len(v.exp) == 0 {
				wantFlagged = 1
			}
			if len(byIDu[id]) < wantFlagged {
				c.Violate("routing:record-lost", fmt.Sprintf("%d record(s) of a read must be flagged with an error; they are neither in the main output nor in the unidentified file", wantFlagged-len(byIDu[id])), det(it, obs, nil))
				onlyAssigned = true
				obs = append([]obsRec{}, byID[id]...)
			}
		}
		if onlyAssigned {
			var keep []expRec
			for _, e := range v.exp {
				if e.Sample != "" {
					keep = append(keep, e)
				}
			}
			v.exp = keep
			if len(keep) == 0 {
				for k := range obs {
					if obs[k].has("sample") {
						c.Violate(feature("spurious-sample", v.far), "a read whose tags identify no sample is assigned to "+obs[k].str("sample"), det(it, obs, nil))
					}
				}
				continue
			}
		}
		if cause, what := compareConstructed(&v, obs); cause != "" {
			c.Violate(cause, what, det(it, obs, nil))
		}
	}
	c.Sample(map[string]any{"args": strings.Join(args, " "), "sheet": sheetShown(sh), "reads": len(items), "records_main": len(mainRecs), "records_unidentified": len(unidRecs)})
	c.Count("evaluations", evals)
	c.Count("e2e_reads_judged_by_construction", judged)
	c.Count("e2e_runs_"+mode, 1)
	c.Count("e2e_records", len(mainRecs)+len(unidRecs))
}

func tailStr(s string, n int) string {
	if len(s) > n {
		return s[len(s)-n:]
	}
	return s
}
