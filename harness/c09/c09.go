// Package c09: LCS and one-difference kernels are exact within their error bound.
package c09

import (
	"bytes"
	"fmt"
	"sync"
	"sync/atomic"

	"git.metabarcoding.org/obitools/obitools4/obitools4/pkg/obialign"
	"git.metabarcoding.org/obitools/obitools4/obitools4/pkg/obiseq"

	"verifh/core"
	"verifh/gen"
	"verifh/ref"
)

func bs(s []byte) *obiseq.BioSequence {
	return obiseq.NewBioSequence("s", append([]byte{}, s...), "")
}

// checkLCS compares FastLCSScore(a, b, bound) with the reference; returns a cause ("" = held).
func checkLCS(a, b []byte, bound int, buffer *[]uint64) (cause string, detail map[string]any) {
	sa, sb := bs(a), bs(b)
	gotS, gotL := obialign.FastLCSScore(sa, sb, bound, buffer)
	lcs, ali := ref.LCS(a, b, ref.Compatible)
	diff := ali - lcs
	detail = map[string]any{"a": string(a), "b": string(b), "bound": bound, "got_lcs": gotS, "got_alilen": gotL, "ref_lcs": lcs, "ref_alilen": ali}
	within := bound < 0 || diff <= bound
	switch {
	case within && gotS < 0:
		return "false-notfound", detail
	case within && gotS != lcs:
		return "lcs-value", detail
	case within && gotL != ali:
		return "alilen", detail
	case !within && gotS >= 0:
		// beyond the bound: the answer must itself be beyond the bound
		if gotL-gotS <= bound {
			return "spurious-within-bound", detail
		}
	}
	return "", detail
}

func hasUpper(b []byte) bool {
	for _, x := range b {
		if x >= 'A' && x <= 'Z' {
			return true
		}
	}
	return false
}

func lcsCase(c *core.Ctx, a, b []byte, bounds []int, shared *[]uint64) {
	for _, bound := range bounds {
		cause, detail := checkLCS(a, b, bound, shared)
		if cause != "" {
			c.Violate(cause, "FastLCSScore disagrees with the full-matrix reference", detail)
			continue
		}
		// fresh buffer must give the same answer as the reused one
		s1, l1 := obialign.FastLCSScore(bs(a), bs(b), bound, shared)
		s2, l2 := obialign.FastLCSScore(bs(a), bs(b), bound, nil)
		if s1 != s2 || l1 != l2 {
			c.Violate("buffer-reuse", "FastLCSScore gives different answers with a reused and a fresh buffer", detail)
		}
		// the same pair given to the kernel as raw bytes in mixed case (sequences assembled with
		// Write / WriteString keep the case they are given): a letter matches in either case
		if hasUpper(a) || hasUpper(b) {
			s4, l4, _ := obialign.FastLCSEGFScoreByte(a, b, bound, false, shared)
			if s4 != s1 || l4 != l1 {
				detail["raw_bytes_answer"] = []int{s4, l4}
				c.Violate("case", "the kernel gives another answer for the same pair written in mixed case", detail)
			}
		}
		// symmetry
		s3, l3 := obialign.FastLCSScore(bs(b), bs(a), bound, shared)
		if s3 != s1 || l3 != l1 {
			detail["swapped"] = []int{s3, l3}
			c.Violate("symmetry", "FastLCSScore is not symmetric in its arguments", detail)
		}
	}
}

func runExhaustiveLCS(c *core.Ctx) {
	maxLen := c.Pick(4, 5)
	n := gen.CountStrings(maxLen)
	per := (n + nShards - 1) / nShards
	var shared []uint64
	bounds := []int{-1, 0, 1, 2, 3}
	evals := 0
	for ia := c.Idx * per; ia < min(n, (c.Idx+1)*per); ia++ {
		a := gen.NthString(ia)
		for ib := 0; ib < n; ib++ {
			b := gen.NthString(ib)
			lcsCase(c, a, b, bounds, &shared)
			evals += len(bounds)
			if len(a) > 0 && len(b) > 0 {
				c.Key("ex/%s/%d", a, len(b))
			}
		}
		if c.Violations() > 10 {
			break
		}
	}
	if c.Idx == 0 {
		c.Sample(map[string]any{"a": "acgt", "b": "agt", "bounds": bounds, "enumeration": fmt.Sprintf("all ordered pairs of strings over acgt of length <= %d", maxLen)})
	}
	c.Count("evaluations", evals)
	c.Count("exhaustive_pairs", evals/len(bounds))
}

const nShards = 64

func runRandomLCS(c *core.Ctx) {
	var shared []uint64
	per := c.Pick(40, 300)
	for k := 0; k < per; k++ {
		n := 1 + c.Rng.Intn(c.Pick(250, 400))
		amb := []int{0, 0, 20, 100, 500}[c.Rng.Intn(5)]
		a := gen.DNAIupac(c.Rng, n, amb)
		var b []byte
		switch c.Rng.Intn(4) {
		case 0: // unrelated, different length
			b = gen.DNAIupac(c.Rng, max(1, n+c.Rng.Intn(81)-40), amb)
		default:
			b = gen.Mutate(c.Rng, a, c.Rng.Intn(12))
			if c.Rng.Intn(3) == 0 { // length difference at one end
				b = append(b, gen.DNA(c.Rng, c.Rng.Intn(40))...)
			}
		}
		if len(b) == 0 {
			b = []byte("a")
		}
		if c.Rng.Intn(6) == 0 {
			// the other symbols of sequences: the ".........." spacer of joined paired reads, gaps '-':
			// a symbol outside the nucleotide codes matches itself and nothing else
			sp := []byte([]string{"..........", "-", "--", "."}[c.Rng.Intn(4)])
			at := c.Rng.Intn(len(a) + 1)
			a = append(append(append([]byte{}, a[:at]...), sp...), a[at:]...)
			at = min(at, len(b))
			b = append(append(append([]byte{}, b[:at]...), sp...), b[at:]...)
			c.Count("pairs_with_non_letter_symbols", 1)
		}
		if c.Rng.Intn(4) == 0 {
			a = gen.Upper(c.Rng, a, 300)
		}
		if c.Rng.Intn(8) == 0 {
			b = gen.Upper(c.Rng, b, 1000)
		}
		lcs, ali := ref.LCS(a, b, ref.Compatible)
		d := ali - lcs
		bounds := []int{-1, d - 1, d, d + 1, c.Rng.Intn(20)}
		if d == 0 {
			bounds[1] = 0
		}
		lcsCase(c, a, b, bounds, &shared)
		c.Key("rnd/%d/%d/%d/%d", len(a)/20, (len(a)-len(b)+100)/5, d, amb)
		if k == 0 {
			c.Sample(map[string]any{"a": string(a), "b": string(b), "ref_lcs": lcs, "ref_alilen": ali, "bounds": bounds})
		}
	}
	c.Count("evaluations", per*5)
}

// runSymbols checks the compatibility relation on every pair of IUPAC symbols.
func runSymbols(c *core.Ctx) {
	codes := ref.IupacCodes
	evals := 0
	for i := 0; i < len(codes); i++ {
		for j := 0; j < len(codes); j++ {
			for _, up := range []bool{false, true} {
				x, y := codes[i], codes[j]
				if up {
					x -= 32
				}
				want := 0
				if ref.Compatible(x, y) {
					want = 1
				}
				got, _ := obialign.FastLCSScore(bs([]byte{x}), bs([]byte{y}), -1, nil)
				evals++
				c.Key("sym/%c%c", x, y)
				if got != want {
					lo := []byte{ref.Lower(x), ref.Lower(y)}
					if lo[0] > lo[1] {
						lo[0], lo[1] = lo[1], lo[0]
					}
					c.Violate(fmt.Sprintf("iupac:%s", lo), fmt.Sprintf("symbols %q and %q: kernel says match=%d, IUPAC says %d", x, y, got, want),
						map[string]any{"x": string(x), "y": string(y), "got": got, "want": want})
				}
			}
		}
	}
	c.Sample(map[string]any{"pairs": "all 16x16 IUPAC code pairs, lower and upper case"})
	c.Count("evaluations", evals)
}

// runEGF: the end-gap-free variant must report the same LCS length when no bound is given.
func runEGF(c *core.Ctx) {
	var shared []uint64
	per := c.Pick(60, 400)
	for k := 0; k < per; k++ {
		n := 1 + c.Rng.Intn(200)
		a := gen.DNA(c.Rng, n)
		b := gen.Mutate(c.Rng, a, c.Rng.Intn(8))
		if c.Rng.Intn(2) == 0 {
			b = append(gen.DNA(c.Rng, c.Rng.Intn(30)), b...)
		}
		if len(b) == 0 {
			b = []byte("c")
		}
		lcs, _ := ref.LCS(a, b, ref.Compatible)
		got, _, _ := obialign.FastLCSEGFScore(bs(a), bs(b), -1, &shared)
		got2, _, _ := obialign.FastLCSEGFScore(bs(b), bs(a), -1, nil)
		c.Key("egf/%d/%d", len(a)/10, len(b)-len(a))
		if got != lcs || got2 != lcs {
			c.Violate("lcs-value", "FastLCSEGFScore without bound does not return the LCS length",
				map[string]any{"a": string(a), "b": string(b), "got": got, "got_swapped": got2, "ref_lcs": lcs})
		}
		if k == 0 {
			c.Sample(map[string]any{"a": string(a), "b": string(b), "ref_lcs": lcs})
		}
		// with a bound: a sequence found with e edits INSIDE a longer one (free end gaps on both sides)
		// lies within every bound >= e, whatever the difference of the lengths: same answer as
		// without bound
		if n >= 8 && k%2 == 0 {
			e := c.Rng.Intn(4)
			inner := gen.Mutate(c.Rng, a, e)
			long := append(append(gen.DNA(c.Rng, 1+c.Rng.Intn(40)), inner...), gen.DNA(c.Rng, c.Rng.Intn(40))...)
			free, _, _ := obialign.FastLCSEGFScore(bs(a), bs(long), -1, &shared)
			for _, bound := range []int{e, e + 1, e + 5} {
				g1, _, _ := obialign.FastLCSEGFScore(bs(a), bs(long), bound, &shared)
				g2, _, _ := obialign.FastLCSEGFScore(bs(long), bs(a), bound, nil)
				c.Count("evaluations", 2)
				c.Key("egf-bounded/%d/%d/%d", len(a)/20, (len(long)-len(a))/10, bound-e)
				if g1 != free || g2 != free {
					c.Violate("egf-bounded", "FastLCSEGFScore with a bound that the end-gap-free alignment respects differs from the answer without bound",
						map[string]any{"a": string(a), "b": string(long), "edits_inside": e, "bound": bound, "got": g1, "got_swapped": g2, "without_bound": free})
					break
				}
			}
		}
	}
	c.Count("evaluations", per*2)
}

// checkD1 verifies D1Or0(a,b) against the reference; returns cause.
func checkD1(a, b []byte) (string, map[string]any) {
	v, pos, x, y := obialign.D1Or0(bs(a), bs(b))
	d := ref.EditDistance(a, b)
	detail := map[string]any{"a": string(a), "b": string(b), "verdict": v, "pos": pos, "sym_a": string(rune(x)), "sym_b": string(rune(y)), "edit_distance": d}
	want := -1
	if d == 0 {
		want = 0
	} else if d == 1 {
		want = 1
	}
	if v != want {
		return "verdict", detail
	}
	if v == 1 {
		// the reported position and symbols must reproduce the edit a -> b
		var rebuilt []byte
		ok := true
		switch {
		case x != '-' && y != '-': // substitution
			ok = pos >= 0 && pos < len(a) && pos < len(b) && a[pos] == x && b[pos] == y
			if ok {
				rebuilt = append(append(append([]byte{}, a[:pos]...), y), a[pos+1:]...)
			}
		case y == '-' && x != '-': // symbol of a deleted
			ok = pos >= 0 && pos < len(a) && a[pos] == x
			if ok {
				rebuilt = append(append([]byte{}, a[:pos]...), a[pos+1:]...)
			}
		case x == '-' && y != '-': // symbol inserted into b
			ok = pos >= 0 && pos < len(b) && b[pos] == y
			if ok {
				rebuilt = append(append(append([]byte{}, a[:pos]...), y), a[pos:]...)
			}
		default:
			ok = false
		}
		if !ok || !bytes.Equal(rebuilt, b) {
			kind := "substitution"
			if len(a) > len(b) {
				kind = "deletion"
			} else if len(a) < len(b) {
				kind = "insertion"
			}
			detail["rebuilt"] = string(rebuilt)
			return "edit-not-reproduced:" + kind, detail
		}
	}
	return "", detail
}

func d1Pair(c *core.Ctx, a, b []byte) {
	if len(a) == 0 || len(b) == 0 {
		return
	}
	cause, detail := checkD1(a, b)
	if cause != "" {
		c.Violate(cause, "D1Or0 disagrees with the edit-distance reference", detail)
		return
	}
	v1, _, _, _ := obialign.D1Or0(bs(a), bs(b))
	v2, _, _, _ := obialign.D1Or0(bs(b), bs(a))
	if v1 != v2 {
		c.Violate("symmetry", "D1Or0 verdict is not symmetric", detail)
	}
}

func runExhaustiveD1(c *core.Ctx) {
	maxLen := c.Pick(5, 6)
	n := gen.CountStrings(maxLen)
	per := (n + nShards - 1) / nShards
	evals := 0
	for ia := c.Idx * per; ia < min(n, (c.Idx+1)*per); ia++ {
		a := gen.NthString(ia)
		for ib := 0; ib < n; ib++ {
			b := gen.NthString(ib)
			if len(a)-len(b) > 2 || len(b)-len(a) > 2 {
				continue
			}
			d1Pair(c, a, b)
			evals++
			if len(a) > 0 && len(b) > 0 {
				c.Key("d1ex/%s/%d", a, len(b))
			}
		}
		if c.Violations() > 10 {
			break
		}
	}
	if c.Idx == 0 {
		c.Sample(map[string]any{"enumeration": fmt.Sprintf("all ordered pairs of non-empty strings over acgt of length <= %d whose lengths differ by at most 2", maxLen)})
	}
	c.Count("evaluations", evals)
}

func runRandomD1(c *core.Ctx) {
	per := c.Pick(200, 2000)
	for k := 0; k < per; k++ {
		n := 1 + c.Rng.Intn(300)
		a := gen.DNAIupac(c.Rng, n, []int{0, 50}[c.Rng.Intn(2)])
		var b []byte
		switch c.Rng.Intn(6) {
		case 0:
			b = append([]byte{}, a...)
		case 1, 2:
			b = gen.Mutate(c.Rng, a, 1)
		case 3:
			b = gen.Mutate(c.Rng, a, 2)
		case 4: // homopolymer context: edits inside runs
			a = bytes.Repeat([]byte{gen.ACGT[c.Rng.Intn(4)]}, 1+c.Rng.Intn(6))
			a = append(a, gen.DNA(c.Rng, c.Rng.Intn(4))...)
			b = gen.Mutate(c.Rng, a, 1+c.Rng.Intn(2))
		default:
			b = gen.DNA(c.Rng, max(1, n+c.Rng.Intn(3)-1))
		}
		if len(b) == 0 {
			b = []byte("g")
		}
		d1Pair(c, a, b)
		c.Key("d1rnd/%d/%d/%d", len(a)/10, len(b)-len(a), min(3, ref.EditDistance(a, b)))
		if k == 0 {
			c.Sample(map[string]any{"a": string(a), "b": string(b)})
		}
	}
	c.Count("evaluations", per)
}

// runLongLCS: sequences of tens of thousands of bases (the kernel packs score and length in one word):
// pairs built from a random sequence and a few edits, bounds around the number of edits; reference =
// banded DP (exact here: an alignment leaving the band loses more matches than the constructed one).
func runLongLCS(c *core.Ctx) {
	var shared []uint64
	// self-check of the banded reference against the full matrix on short pairs
	for k := 0; k < 40; k++ {
		a := gen.DNAIupac(c.Rng, 20+c.Rng.Intn(300), 30)
		d := c.Rng.Intn(7)
		b := gen.Mutate(c.Rng, a, d)
		if len(b) == 0 {
			continue
		}
		l1, a1 := ref.LCS(a, b, ref.Compatible)
		l2, a2 := ref.LCSBanded(a, b, 2*d+8+max(len(a)-len(b), len(b)-len(a)), ref.Compatible)
		if l1 != l2 || a1 != a2 {
			c.Inconclusive("reference self-check failed: banded and full-matrix LCS disagree")
			return
		}
	}
	for k := 0; k < c.Pick(3, 8); k++ {
		// the alignment (not the sum of the lengths) must stay below 2^16 columns
		n := []int{9000, 16384, 20000, 32767, 32768, 33000, 40000, 50000, 65000}[c.Rng.Intn(9)]
		a := gen.DNA(c.Rng, n)
		d := c.Rng.Intn(7)
		b := gen.Mutate(c.Rng, a, d)
		band := 2*d + 8 + max(len(a)-len(b), len(b)-len(a))
		lcs, ali := ref.LCSBanded(a, b, band, ref.Compatible)
		diff := ali - lcs
		for _, bound := range []int{diff, diff + 3, 60} {
			for _, buf := range []*[]uint64{nil, &shared} {
				gs, gl := obialign.FastLCSScore(bs(a), bs(b), bound, buf)
				c.Count("evaluations", 1)
				c.Key("long/%d/%d/%d", n/1000, diff, bound-diff)
				if gs != lcs || gl != ali {
					cause := "long:lcs-value"
					if gs < 0 {
						cause = "long:false-notfound"
					}
					c.Violate(cause, "FastLCSScore disagrees with the reference on a long pair", map[string]any{"len_a": len(a), "len_b": len(b), "edits": d, "bound": bound, "got_lcs": gs, "got_alilen": gl, "ref_lcs": lcs, "ref_alilen": ali})
					return
				}
			}
		}
		if k == 0 {
			c.Sample(map[string]any{"len_a": len(a), "len_b": len(b), "edits": d, "ref_lcs": lcs, "ref_alilen": ali})
		}
	}
}

// runMediumLCS: pairs of one to a few thousand bases (matrices of 2^20 cells and more) that are NOT
// alike: unrelated, block-rearranged (X+Y against Y+X'), nested, or separated by hundreds of edits,
// with no bound, with the exact distance as bound and with bounds tied to the lengths. The full
// matrix reference is still affordable here (a few million cells).
func runMediumLCS(c *core.Ctx) {
	var shared []uint64
	per := c.Pick(5, 20)
	for k := 0; k < per; k++ {
		r := c.Rng
		n := []int{700, 1000, 1024, 1100, 1500, 2000, 2600}[r.Intn(7)] + r.Intn(50)
		a := gen.DNA(r, n)
		var b []byte
		shape := []string{"unrelated", "rearranged", "rearranged", "rearranged", "nested", "many-edits", "few-edits", "tail"}[r.Intn(8)]
		switch shape {
		case "unrelated":
			b = gen.DNA(r, max(600, n+r.Intn(401)-200))
		case "rearranged":
			cut := n/16 + r.Intn(3*n/4)
			b = append(append([]byte{}, a[cut:]...), gen.Mutate(r, a[:cut], r.Intn(6))...)
		case "nested":
			from := r.Intn(n / 3)
			b = gen.Mutate(r, a[from:from+n/2+r.Intn(n/6)], r.Intn(8))
		case "many-edits":
			b = gen.Mutate(r, a, n/10+r.Intn(n/5))
		case "few-edits":
			b = gen.Mutate(r, a, r.Intn(10))
		default:
			b = append(gen.Mutate(r, a, r.Intn(5)), gen.DNA(r, n/8+r.Intn(n/4))...)
		}
		if len(b) == 0 {
			continue
		}
		if r.Intn(4) == 0 {
			a, _ = gen.Ambiguate(r, a, 1+r.Intn(20))
		}
		lcs, ali := ref.LCS(a, b, ref.Compatible)
		d := ali - lcs
		m := max(len(a), len(b))
		bounds := []int{-1, d, d - 1, d + 1, m / 8, m/8 + 1, m / 4}
		lcsCase(c, a, b, bounds, &shared)
		c.Count("evaluations", len(bounds))
		c.Count("medium."+shape, 1)
		c.Key("med/%s/%d/%d/%v", shape, n/300, min(d*16/m, 20), len(a)*len(b) >= 1<<20)
		if k == 0 {
			c.Sample(map[string]any{"shape": shape, "len_a": len(a), "len_b": len(b), "ref_lcs": lcs, "ref_alilen": ali, "bounds": bounds})
		}
	}
}

// runConcurrent: the kernels are called by parallel workers (obiclean, obitag, obiconsensus ...): every
// answer given while other goroutines run the same kernels must be the answer given alone. The
// sequential answers are themselves compared with the reference first.
func runConcurrent(c *core.Ctx) {
	type pair struct {
		a, b      []byte
		bound     int
		s, l      int // FastLCSScore
		e, el, ee int // FastLCSEGFScore
		v, pos    int // D1Or0
		x, y      byte
	}
	var pairs []pair
	for k := 0; k < c.Pick(40, 120); k++ {
		n := 20 + c.Rng.Intn(280)
		a := gen.DNA(c.Rng, n)
		d := c.Rng.Intn(6)
		b := gen.Mutate(c.Rng, a, d)
		if len(b) == 0 {
			b = []byte("g")
		}
		bound := []int{-1, d, d + 3}[c.Rng.Intn(3)]
		if cause, detail := checkLCS(a, b, bound, nil); cause != "" {
			c.Violate(cause, "FastLCSScore disagrees with the full-matrix reference", detail)
			return
		}
		p := pair{a: a, b: b, bound: bound}
		p.s, p.l = obialign.FastLCSScore(bs(a), bs(b), bound, nil)
		p.e, p.el, p.ee = obialign.FastLCSEGFScore(bs(a), bs(b), bound, nil)
		p.v, p.pos, p.x, p.y = obialign.D1Or0(bs(a), bs(b))
		pairs = append(pairs, p)
	}
	workers := []int{2, 4, 8, 16}[c.Idx%4]
	rounds := c.Pick(6, 20)
	type bad struct {
		cause string
		det   map[string]any
	}
	found := make(chan bad, workers)
	var wg sync.WaitGroup
	var evals atomic.Int64
	for w := 0; w < workers; w++ {
		wg.Add(1)
		go func(w int) {
			defer wg.Done()
			var own []uint64
			report := func(cause string, p pair, got any) {
				select {
				case found <- bad{cause, map[string]any{"a": string(p.a), "b": string(p.b), "bound": p.bound, "goroutines": workers, "got": got,
					"alone": map[string]any{"lcs": []int{p.s, p.l}, "egf": []int{p.e, p.el, p.ee}, "d1or0": []int{p.v, p.pos}}}}:
				default:
				}
			}
			for r := 0; r < rounds; r++ {
				for i := range pairs {
					p := pairs[(i*7+w*13+r)%len(pairs)]
					func() {
						defer func() {
							if e := recover(); e != nil {
								report("concurrent:panic", p, fmt.Sprint(e))
							}
						}()
						evals.Add(4)
						if s, l := obialign.FastLCSScore(bs(p.a), bs(p.b), p.bound, nil); s != p.s || l != p.l {
							report("concurrent:lcs:fresh-buffer", p, []int{s, l})
						}
						if s, l := obialign.FastLCSScore(bs(p.a), bs(p.b), p.bound, &own); s != p.s || l != p.l {
							report("concurrent:lcs:own-buffer", p, []int{s, l})
						}
						if e, el, ee := obialign.FastLCSEGFScore(bs(p.a), bs(p.b), p.bound, nil); e != p.e || el != p.el || ee != p.ee {
							report("concurrent:egf:fresh-buffer", p, []int{e, el, ee})
						}
						if v, pos, x, y := obialign.D1Or0(bs(p.a), bs(p.b)); v != p.v || pos != p.pos || x != p.x || y != p.y {
							report("concurrent:d1or0", p, []int{v, pos})
						}
					}()
				}
			}
		}(w)
	}
	wg.Wait()
	close(found)
	c.Count("evaluations", int(evals.Load()))
	c.Count("concurrent_evaluations", int(evals.Load()))
	c.Key("concurrent/%d/%d", workers, len(pairs)/10)
	seen := map[string]bool{}
	for b := range found {
		if !seen[b.cause] {
			seen[b.cause] = true
			c.Violate(b.cause, "a kernel gives, while other goroutines run the same kernels, an answer different from the one it gives alone", b.det)
		}
	}
}

func init() {
	core.Register(&core.Property{
		ID:    "C09",
		Level: "exploration",
		Rule: "FastLCSScore / FastLCSEGFScore / D1Or0 executed next to a full-matrix DP with an independent IUPAC table: exhaustively on all ordered pairs of strings over {a,c,g,t} of length <= 4 (quick) / <= 5 (thorough) x bounds -1,0,1,2,3 (D1Or0: length <= 5 / 6), all 16x16 IUPAC symbol pairs, and random pairs up to 400 nt with ambiguity codes, mixed case, bounds d-1, d, d+1 around the true number of differences; reused vs fresh scratch buffer; both argument orders; 2-16 goroutines calling the three kernels at once (fresh and per-goroutine buffers) must get the answers the kernels give alone, also under the race detector. " +
			"Added later: pairs of 9-65 kb (banded reference, self-checked against the full matrix), the non-letter symbols of joined reads ('.', '-'). lcs-medium: dissimilar, nested and block-rearranged pairs of 0.7-2.6 kb against the full matrix, unbounded and with bounds tied to the distance and to the lengths. " +
			"distinct_nontrivial = distinct (first string, length of second string) classes of non-empty pairs (exhaustive part; the pairs themselves are counted in counters.exhaustive_pairs) + distinct (length class, length difference, true difference count, ambiguity rate) classes (random part)",
		Assume: []string{"the reference DP (max LCS, then shortest alignment) is the meaning of 'LCS length and shortest alignment achieving it'", "sequences are non-empty, over the IUPAC alphabet plus the symbols '.' and '-' (which match only themselves); the alignment is shorter than 2^16 columns (score and length are packed in one word)"},
		Subs: []core.Sub{
			{Name: "symbols", N: core.Const(1, 1), Run: runSymbols},
			{Name: "lcs-exhaustive", N: core.Const(nShards, nShards), Run: runExhaustiveLCS},
			{Name: "lcs-random", N: core.Const(64, 400), Run: runRandomLCS},
			{Name: "lcs-long", N: core.Const(8, 48), Run: runLongLCS},
			{Name: "lcs-medium", N: core.Const(16, 64), Run: runMediumLCS},
			{Name: "egf", N: core.Const(16, 64), Run: runEGF},
			{Name: "d1-exhaustive", N: core.Const(nShards, nShards), Run: runExhaustiveD1},
			{Name: "d1-random", N: core.Const(32, 128), Run: runRandomD1},
			{Name: "concurrent", N: core.Const(16, 64), Run: runConcurrent, Race: true, NRace: core.Const(4, 8), TimeoutS: 300},
		},
		MinNontrivial: 1000,
		RaceFiles:     []string{"pkg/obialign/fastlcsegf.go", "pkg/obialign/fastlcs.go", "pkg/obialign/is_d0_or_d1.go", "pkg/obialign/fourbitsencode.go"},
	})
}
