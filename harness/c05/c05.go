// Package c05: command output is a function of input and options, not of parallelism.
package c05

import (
	"bytes"
	"compress/gzip"
	"crypto/sha1"
	"fmt"
	"io"
	"os"
	"path/filepath"
	"strings"
	"sync"
	"sync/atomic"
	"time"

	"git.metabarcoding.org/obitools/obitools4/obitools4/pkg/obiseq"
	"github.com/anishathalye/porcupine"

	"verifh/cmdx"
	"verifh/core"
	"verifh/gen"
)

// job is one (command, functional options, inputs).
type job struct {
	name  string // option-set label
	bin   string
	args  func(dir string) []string // functional options + inputs (files are under dir)
	setup func(c *core.Ctx, dir string, n int)
	noPB  bool     // command has no --no-progressbar option
	files []string // side output files (relative to the case directory) compared together with stdout
}

func w(dir, name string, data []byte) { os.WriteFile(filepath.Join(dir, name), data, 0o644) }

func jobs() []job {
	fa := func(c *core.Ctx, dir string, n int) { w(dir, "in.fasta", gen.GenericFasta(c.Rng, n)) }
	fq := func(c *core.Ctx, dir string, n int) { w(dir, "in.fastq", gen.GenericFastq(c.Rng, n)) }
	// faWide: every record carries the same eight attributes (scalars, a list, a map)
	faWide := func(c *core.Ctx, dir string, n int) {
		var sb strings.Builder
		for i := 0; i < n; i++ {
			fmt.Fprintf(&sb, ">seq%05d {\"count\":%d,\"sample\":\"s%d\",\"run\":\"r%d\",\"plate\":%d,\"score\":%d.5,\"ok\":%v,\"pos\":[%d,%d],\"merged_sample\":{\"s1\":%d,\"s2\":%d}}\n%s\n",
				i, 1+c.Rng.Intn(9), c.Rng.Intn(5), c.Rng.Intn(3), c.Rng.Intn(96), c.Rng.Intn(40), c.Rng.Intn(2) == 0, c.Rng.Intn(9), c.Rng.Intn(9), 1+c.Rng.Intn(5), 1+c.Rng.Intn(5), gen.DNA(c.Rng, 20+c.Rng.Intn(100)))
		}
		w(dir, "wide.fasta", []byte(sb.String()))
	}
	in := func(f string) func(string) []string {
		return func(d string) []string { return []string{filepath.Join(d, f)} }
	}
	with := func(f string, a ...string) func(string) []string {
		return func(d string) []string { return append(append([]string{}, a...), filepath.Join(d, f)) }
	}
	pairs := func(c *core.Ctx, dir string, n int) {
		f, r := gen.ReadPairs(c.Rng, n, 100)
		w(dir, "f.fastq", f)
		w(dir, "r.fastq", r)
	}
	pairArgs := func(a ...string) func(string) []string {
		return func(d string) []string {
			return append(append([]string{}, a...), "-F", filepath.Join(d, "f.fastq"), "-R", filepath.Join(d, "r.fastq"))
		}
	}
	mux := func(c *core.Ctx, dir string, n int) {
		m := gen.MultiplexData(c.Rng, 4, n)
		w(dir, "sheet.txt", m.Sheet)
		w(dir, "reads.fastq", m.Reads)
	}
	muxArgs := func(a ...string) func(string) []string {
		return func(d string) []string {
			return append(append([]string{"-t", filepath.Join(d, "sheet.txt")}, a...), filepath.Join(d, "reads.fastq"))
		}
	}
	var fwd, rev string
	pcr := func(c *core.Ctx, dir string, n int) {
		var t []byte
		t, fwd, rev = gen.PCRTemplates(c.Rng, n)
		w(dir, "tpl.fasta", t)
		w(dir, "primers", []byte(fwd+" "+rev))
	}
	pcrArgs := func(a ...string) func(string) []string {
		return func(d string) []string {
			b, _ := os.ReadFile(filepath.Join(d, "primers"))
			p := strings.Fields(string(b))
			return append(append([]string{"--forward", p[0], "--reverse", p[1]}, a...), filepath.Join(d, "tpl.fasta"))
		}
	}
	return []job{
		{name: "obiconvert:fasta", bin: "obiconvert", setup: fa, args: in("in.fasta")},
		{name: "obiconvert:fasta-to-fastq", bin: "obiconvert", setup: fa, args: with("in.fasta", "--fastq-output")},
		{name: "obiconvert:fastq-to-fasta", bin: "obiconvert", setup: fq, args: with("in.fastq", "--fasta-output")},
		{name: "obiconvert:fastq-json", bin: "obiconvert", setup: fq, args: with("in.fastq", "--json-output")},
		{name: "obiconvert:fasta-gz", bin: "obiconvert", setup: fa, args: with("in.fasta", "-Z")},
		{name: "obiconvert:fastq-gz", bin: "obiconvert", setup: fq, args: with("in.fastq", "--fastq-output", "--compress")},
		{name: "obigrep:length", bin: "obigrep", setup: fa, args: with("in.fasta", "-l", "60", "-L", "150")},
		{name: "obigrep:predicate", bin: "obigrep", setup: fq, args: with("in.fastq", "-p", "annotations.count >= 4", "-a", "sample=s[123]")},
		{name: "obiannotate:length", bin: "obiannotate", setup: fa, args: with("in.fasta", "--length", "-S", "double=annotations.count*2")},
		{name: "obiannotate:rename", bin: "obiannotate", setup: fq, args: with("in.fastq", "-R", "origin=sample", "--delete-tag", "count")},
		{name: "obicomplement:fasta", bin: "obicomplement", setup: fa, args: in("in.fasta")},
		{name: "obicomplement:fastq", bin: "obicomplement", setup: fq, args: in("in.fastq")},
		{name: "obipairing:fast", bin: "obipairing", setup: pairs, args: pairArgs()},
		{name: "obipairing:exact", bin: "obipairing", setup: pairs, args: pairArgs("--exact-mode", "--min-overlap", "15")},
		{name: "obipairing:fast-absolute", bin: "obipairing", setup: pairs, args: pairArgs("--fast-absolute", "-D", "3")},
		{name: "obimultiplex:default", bin: "obimultiplex", setup: mux, args: muxArgs()},
		{name: "obimultiplex:keep-errors", bin: "obimultiplex", setup: mux, args: muxArgs("--keep-errors", "-e", "1")},
		// the majority LCA (--lca-error > 0) of taxid distributions with tied weights
		{name: "obiannotate:lca-ties", bin: "obiannotate", setup: func(c *core.Ctx, dir string, n int) {
			parent := map[int]int{1: 1, 10: 1, 11: 10, 12: 11, 13: 12, 14: 12, 15: 10, 16: 15, 20: 1, 21: 20, 22: 21, 23: 22}
			rank := map[int]string{1: "no rank", 10: "kingdom", 11: "family", 12: "genus", 13: "species", 14: "species", 15: "family", 16: "species", 20: "kingdom", 21: "family", 22: "genus", 23: "species"}
			var nodes, names strings.Builder
			for _, id := range []int{1, 10, 11, 12, 13, 14, 15, 16, 20, 21, 22, 23} {
				fmt.Fprintf(&nodes, "%d\t|\t%d\t|\t%s\t|\t\t|\t0\t|\t0\t|\t1\t|\t0\t|\t0\t|\t0\t|\t0\t|\t0\t|\t\t|\n", id, parent[id], rank[id])
				fmt.Fprintf(&names, "%d\t|\ttaxon %d\t|\t\t|\tscientific name\t|\n", id, id)
			}
			os.MkdirAll(filepath.Join(dir, "taxdump"), 0o755)
			w(dir, "taxdump/nodes.dmp", []byte(nodes.String()))
			w(dir, "taxdump/names.dmp", []byte(names.String()))
			w(dir, "taxdump/merged.dmp", nil)
			leaves := []int{13, 14, 16, 23, 12, 21}
			var sb strings.Builder
			for i := 0; i < n; i++ {
				k := 2 + c.Rng.Intn(3)
				perm := c.Rng.Perm(len(leaves))[:k]
				wgt := 1 + c.Rng.Intn(3)
				var parts []string
				tot := 0
				for j, p := range perm {
					x := wgt // equal weights: ties at every level
					if j == 0 && c.Rng.Intn(3) == 0 {
						x += c.Rng.Intn(2)
					}
					parts = append(parts, fmt.Sprintf("\"%d\":%d", leaves[p], x))
					tot += x
				}
				fmt.Fprintf(&sb, ">seq%05d {\"count\":%d,\"merged_taxid\":{%s}}\n%s\n", i, tot, strings.Join(parts, ","), gen.DNA(c.Rng, 20+c.Rng.Intn(60)))
			}
			w(dir, "lca.fasta", []byte(sb.String()))
		}, args: func(d string) []string {
			return []string{"-t", filepath.Join(d, "taxdump"), "--add-lca-in", "lca", "--lca-error", "0.7", filepath.Join(d, "lca.fasta")}
		}},
		{name: "obimultiplex:shared-primer", bin: "obimultiplex", args: muxArgs("--keep-errors"), setup: func(c *core.Ctx, dir string, n int) {
			m := gen.MultiplexSharedPrimer(c.Rng, n)
			w(dir, "sheet.txt", m.Sheet)
			w(dir, "reads.fastq", m.Reads)
		}},
		{name: "obimultiplex:close-tags", bin: "obimultiplex", args: muxArgs("--keep-errors"), setup: func(c *core.Ctx, dir string, n int) {
			m := gen.MultiplexCloseTags(c.Rng, n)
			w(dir, "sheet.txt", m.Sheet)
			w(dir, "reads.fastq", m.Reads)
		}},
		{name: "obimultiplex:unidentified", bin: "obimultiplex", setup: mux, files: []string{"unid.fastq"},
			args: func(d string) []string {
				return []string{"-t", filepath.Join(d, "sheet.txt"), "-u", filepath.Join(d, "unid.fastq"), filepath.Join(d, "reads.fastq")}
			}},
		{name: "obigrep:save-discarded", bin: "obigrep", setup: fa, files: []string{"disc.fasta"},
			args: func(d string) []string {
				return []string{"-l", "80", "--save-discarded", filepath.Join(d, "disc.fasta"), filepath.Join(d, "in.fasta")}
			}},
		{name: "obigrep:paired", bin: "obigrep", setup: pairs, files: []string{"out_R1.fastq", "out_R2.fastq"},
			args: func(d string) []string {
				return []string{"-s", "^[ac]", "--paired-mode", "or", "--paired-with", filepath.Join(d, "r.fastq"), "-o", filepath.Join(d, "out.fastq"), filepath.Join(d, "f.fastq")}
			}},
		{name: "obipcr:e2", bin: "obipcr", setup: pcr, args: pcrArgs("-e", "2", "-L", "400")},
		{name: "obipcr:flank", bin: "obipcr", setup: pcr, args: pcrArgs("-e", "1", "-L", "300", "-l", "10", "-D", "5")},
		{name: "obipcr:fragmented", bin: "obipcr", setup: func(c *core.Ctx, dir string, n int) {
			t, f, v := gen.PCRGenome(c.Rng, 1+min(n, 2), 8)
			w(dir, "tpl.fasta", t)
			w(dir, "primers", []byte(f+" "+v))
		}, args: pcrArgs("-e", "0", "-L", "10", "-l", "3", "--fragmented")},
		{name: "obicount:all", bin: "obicount", setup: fa, args: in("in.fasta"), noPB: true},
		{name: "obisummary:json", bin: "obisummary", setup: fq, args: with("in.fastq", "--json-output"), noPB: true},
		{name: "obisummary:obiclean", bin: "obisummary", setup: func(c *core.Ctx, dir string, n int) { w(dir, "clean.fasta", gen.ObicleanFasta(c.Rng, n)) },
			args: with("clean.fasta", "--json-output"), noPB: true},
		{name: "obisummary:yaml", bin: "obisummary", setup: fa, args: with("in.fasta", "--yaml-output"), noPB: true},
		{name: "obicsv:keys", bin: "obicsv", setup: fa, args: with("in.fasta", "-i", "-s", "--count", "-k", "sample")},
		{name: "obicsv:quality", bin: "obicsv", setup: fq, args: with("in.fastq", "-i", "-q", "-k", "count")},
		// the columns of --auto are documented as those of the first batch: every record carries the same
		// attributes here, so that only their order (and nothing about batching) is at stake
		{name: "obicsv:auto", bin: "obicsv", setup: faWide, args: with("wide.fasta", "--auto", "-i")},
		{name: "obiconvert:obi-header", bin: "obiconvert", setup: faWide, args: with("wide.fasta", "--output-OBI-header")},
		{name: "obiconvert:obi-header-fastq", bin: "obiconvert", setup: fq, args: with("in.fastq", "--output-OBI-header")},
	}
}

type config struct {
	cpu, batch, gomax int
	yield             string
	debug             bool // --debug: more is logged on stderr, nothing else may change
}

func (k config) String() string {
	return fmt.Sprintf("max-cpu=%d batch-size=%d GOMAXPROCS=%d yield=%s debug=%v", k.cpu, k.batch, k.gomax, k.yield, k.debug)
}

func runJob(c *core.Ctx, bindir string, j job, dir string, k config, raceLog string) cmdx.Res {
	args := []string{"--max-cpu", fmt.Sprint(k.cpu), "--batch-size", fmt.Sprint(k.batch)}
	if !j.noPB {
		args = append(args, "--no-progressbar")
	}
	if k.debug {
		args = append(args, "--debug")
	}
	args = append(args, j.args(dir)...)
	env := []string{"OBIVERIF_POISON=1"}
	if k.yield != "" {
		env = append(env, "OBIVERIF_YIELD="+k.yield)
	}
	if k.gomax > 0 {
		env = append(env, fmt.Sprintf("GOMAXPROCS=%d", k.gomax))
	}
	if raceLog != "" {
		env = append(env, "GORACE=halt_on_error=0 log_path="+raceLog)
	}
	for _, f := range j.files {
		os.Remove(filepath.Join(dir, f))
	}
	res := cmdx.Run(filepath.Join(bindir, j.bin), args, cmdx.Opt{Env: env, Timeout: 300 * time.Second})
	// side output files are part of the compared output
	for _, f := range j.files {
		b, err := os.ReadFile(filepath.Join(dir, f))
		res.Stdout = append(res.Stdout, []byte("\n==== "+f+" ====\n")...)
		if err != nil {
			res.Stdout = append(res.Stdout, []byte("<missing>")...)
		} else {
			res.Stdout = append(res.Stdout, b...)
		}
	}
	return res
}

func digest(b []byte) string { return fmt.Sprintf("%x", sha1.Sum(b))[:12] }

func firstDiff(a, b []byte) int {
	n := min(len(a), len(b))
	for i := 0; i < n; i++ {
		if a[i] != b[i] {
			return i
		}
	}
	return n
}

func around(b []byte, i int) string {
	lo, hi := max(0, i-200), min(len(b), i+200)
	return string(b[lo:hi])
}

func runMatrix(c *core.Ctx, race bool) {
	js := jobs()
	j := js[c.Idx%len(js)]
	round := c.Idx / len(js)
	n := []int{2500, 0, 1, 2, 4000}[round%5]
	if race {
		n = 600
	}
	dir := filepath.Join(c.Dir, fmt.Sprintf("c05-%d", c.Idx))
	os.MkdirAll(dir, 0o755)
	defer os.RemoveAll(dir)
	j.setup(c, dir, n)
	bindir := c.BinDir
	raceLog := ""
	if race {
		bindir = filepath.Join(c.BinDir, "race")
		raceLog = filepath.Join(os.Getenv("VH_RACEDIR"), fmt.Sprintf("cmd-%s-%d", strings.ReplaceAll(j.name, ":", "_"), c.Idx))
		os.MkdirAll(os.Getenv("VH_RACEDIR"), 0o755)
	}
	refCfg := config{cpu: 1, batch: 100}
	ref := runJob(c, bindir, j, dir, refCfg, raceLog)
	c.Count("evaluations", 1)
	det := func(k config, r cmdx.Res) map[string]any {
		return map[string]any{"command": j.bin, "option_set": j.name, "records": n, "config": k.String(), "exit": r.Exit, "stderr": cmdx.Tail(r.Stderr, 700)}
	}
	exitOK := func(r cmdx.Res) bool { return r.Exit == 0 || (race && r.Exit == 66) }
	if ref.TimedOut {
		c.Inconclusive("watchdog on the reference run of " + j.name)
		return
	}
	if !exitOK(ref) {
		c.Violate("exit:"+j.name, "the command fails on a well-formed input", det(refCfg, ref))
		return
	}
	c.Sample(map[string]any{"command": j.bin, "option_set": j.name, "records": n, "reference_config": refCfg.String(), "reference_digest": digest(ref.Stdout), "output_bytes": len(ref.Stdout)})
	cpus := []int{1, 2, 3, 4, 8, 16, 32}
	batches := []int{1, 2, 7, 100, max(1, n)}
	nconf := c.Pick(7, 24)
	if race {
		nconf = 3
	}
	digests := map[string]bool{digest(ref.Stdout): true}
	for i := 0; i < nconf; i++ {
		k := config{cpu: cpus[c.Rng.Intn(len(cpus))], batch: batches[c.Rng.Intn(len(batches))]}
		if n > 1000 && k.batch < 7 {
			k.batch = 7 + c.Rng.Intn(50)
		}
		if i%3 == 0 {
			k = refCfg // plain repetition
			k.cpu = 8
			k.batch = 50
		}
		if c.Rng.Intn(2) == 0 {
			k.yield = fmt.Sprintf("%d:%d:%d", c.Idx*100+i, 100+c.Rng.Intn(400), 50+c.Rng.Intn(400))
		}
		if c.Rng.Intn(3) == 0 {
			k.gomax = []int{1, 2, 4}[c.Rng.Intn(3)]
		}
		k.debug = c.Rng.Intn(5) == 0
		res := runJob(c, bindir, j, dir, k, raceLog)
		c.Count("evaluations", 1)
		c.Count("command_runs."+j.bin, 1)
		if res.TimedOut {
			if res.Deadlock {
				c.Violate("deadlock:"+j.name, "the command never terminates", det(k, res))
			} else {
				c.Inconclusive("watchdog on " + j.name)
			}
			continue
		}
		if !exitOK(res) {
			c.Violate("exit:"+j.name, "the command fails with another parallel configuration", det(k, res))
			continue
		}
		if n > 2 {
			c.Key("%s/%d/%d/%d/%v/%d", j.name, n, k.cpu, k.batch, k.yield != "", k.gomax)
		}
		digests[digest(res.Stdout)] = true
		// the poison byte is looked for in the text of the result: a compressed result is inflated first
		// (0xDB is an ordinary byte of a deflate stream)
		plain := res.Stdout
		if strings.HasSuffix(j.name, "-gz") && len(res.Stdout) > 0 { // (a result without any record is written as 0 bytes)
			if zr, err := gzip.NewReader(bytes.NewReader(res.Stdout)); err == nil {
				if b, err := io.ReadAll(zr); err == nil {
					plain = b
				} else {
					c.Violate("gzip-invalid:"+j.name, "the compressed result does not decompress", det(k, res))
					continue
				}
			} else {
				c.Violate("gzip-invalid:"+j.name, "the compressed result does not decompress", det(k, res))
				continue
			}
		}
		if bytes.IndexByte(plain, 0xDB) >= 0 {
			d := det(k, res)
			p := bytes.IndexByte(plain, 0xDB)
			d["context"] = around(plain, p)
			c.Violate("poison:"+j.name, "a byte of a recycled (poisoned) buffer reaches the output", d)
			continue
		}
		if !bytes.Equal(res.Stdout, ref.Stdout) {
			d := det(k, res)
			p := firstDiff(res.Stdout, ref.Stdout)
			d["first_difference_at"] = p
			d["reference"] = around(ref.Stdout, p)
			d["observed"] = around(res.Stdout, p)
			d["reference_bytes"] = len(ref.Stdout)
			d["observed_bytes"] = len(res.Stdout)
			axis := "schedule"
			if k.cpu != refCfg.cpu {
				axis = "max-cpu"
			}
			if k.batch != refCfg.batch {
				axis += "+batch-size"
			}
			c.Violate("bytes-differ:"+j.name, "the output bytes depend on the parallel configuration ("+axis+")", d)
		}
	}
	c.Count("sum_over_cases_of_distinct_output_digests."+j.name, len(digests))
	c.Count("cases."+j.name, 1)
}

// ---------------------------------------------------------------- linearizability of the annotation map (porcupine)

type aop struct {
	Key  string
	Kind string // set get has del
	Arg  string
}
type aout struct {
	Val string
	Ok  bool
}

func runLinearizable(c *core.Ctx) {
	keys := []string{"k0", "k1", "k2"}
	for h := 0; h < c.Pick(6, 30); h++ {
		G := []int{2, 4, 8}[c.Rng.Intn(3)]
		nops := 150 + c.Rng.Intn(150)
		seq := obiseq.NewBioSequence("shared", []byte("acgtacgt"), "")
		seq.SetAttribute("init", 1) // the annotation map exists before the goroutines start
		var clock atomic.Int64
		var mu sync.Mutex
		var ops []porcupine.Operation
		var wg sync.WaitGroup
		seeds := make([]int64, G)
		for g := range seeds {
			seeds[g] = c.Rng.Int63()
		}
		for g := 0; g < G; g++ {
			wg.Add(1)
			go func(g int) {
				defer wg.Done()
				r := core.CaseRng(seeds[g], "lin", g)
				for i := 0; i < nops/G; i++ {
					k := keys[r.Intn(len(keys))]
					in := aop{Key: k}
					var out aout
					call := clock.Add(1)
					switch r.Intn(6) {
					case 0, 1:
						in.Kind, in.Arg = "set", fmt.Sprintf("g%d-%d", g, i)
						seq.SetAttribute(k, in.Arg)
					case 2, 3:
						in.Kind = "get"
						v, ok := seq.GetAttribute(k)
						out.Ok = ok
						if ok {
							out.Val = fmt.Sprint(v)
						}
					case 4:
						in.Kind = "has"
						out.Ok = seq.HasAttribute(k)
					default:
						in.Kind = "del"
						seq.DeleteAttribute(k)
					}
					ret := clock.Add(1)
					mu.Lock()
					ops = append(ops, porcupine.Operation{ClientId: g, Input: in, Call: call, Output: out, Return: ret})
					mu.Unlock()
				}
			}(g)
		}
		wg.Wait()
		type st struct {
			present bool
			val     string
		}
		model := porcupine.Model{
			Partition: func(history []porcupine.Operation) [][]porcupine.Operation {
				m := map[string][]porcupine.Operation{}
				for _, o := range history {
					k := o.Input.(aop).Key
					m[k] = append(m[k], o)
				}
				var out [][]porcupine.Operation
				for _, k := range keys {
					if len(m[k]) > 0 {
						out = append(out, m[k])
					}
				}
				return out
			},
			Init: func() any { return st{} },
			Step: func(state, input, output any) (bool, any) {
				s := state.(st)
				in := input.(aop)
				out := output.(aout)
				switch in.Kind {
				case "set":
					return true, st{true, in.Arg}
				case "del":
					return true, st{}
				case "has":
					return out.Ok == s.present, s
				default:
					if !s.present {
						return !out.Ok, s
					}
					return out.Ok && out.Val == s.val, s
				}
			},
			Equal: func(a, b any) bool { return a.(st) == b.(st) },
		}
		res, _ := porcupine.CheckOperationsVerbose(model, ops, 60*time.Second)
		c.Count("evaluations", 1)
		c.Count("histories_checked", 1)
		c.Count("history_events", len(ops))
		c.Key("lin/%d/%d/%d", G, nops/50, h)
		switch res {
		case porcupine.Illegal:
			var ex []map[string]any
			for i, o := range ops {
				if i > 60 {
					break
				}
				ex = append(ex, map[string]any{"client": o.ClientId, "in": o.Input, "out": o.Output, "call": o.Call, "ret": o.Return})
			}
			c.Violate("history-illegal", "a concurrent history of SetAttribute/GetAttribute/HasAttribute/DeleteAttribute on one sequence is not linearizable", map[string]any{"goroutines": G, "operations": len(ops), "history_excerpt": ex})
		case porcupine.Unknown:
			c.Inconclusive("porcupine timed out")
		}
		if h == 0 {
			c.Sample(map[string]any{"goroutines": G, "operations": len(ops), "keys": keys, "verdict": fmt.Sprint(res)})
		}
	}
}

func init() {
	nj := len(jobs())
	bins := []string{"obiconvert", "obigrep", "obiannotate", "obicomplement", "obipairing", "obimultiplex", "obipcr", "obicount", "obisummary", "obicsv"}
	core.Register(&core.Property{
		ID:    "C05",
		Level: "exploration",
		Rule: "each case = one (command, functional option set, generated input of 0/1/2/2500/4000 records: annotated FASTA/FASTQ, overlapping read pairs, tagged amplicons + sample sheet, templates with planted priming sites); the command is run with a reference configuration and then with 7 (quick) / 24 (thorough) other (--max-cpu in 1..32, --batch-size in 1..N, GOMAXPROCS, injected yield seeds, plain repetitions) with recycled buffers poisoned (0xDB); oracle: exit 0, byte-identical stdout, no poison byte; the same matrix on -race builds (reports with a site in the anchored files); porcupine linearizability of concurrent attribute operations on one sequence. " +
			"Added later: --debug as one more non-functional axis, --output-OBI-header and obicsv --auto jobs, reads trimmed to 1-12 bases in the pair generator, obiclean annotations for obisummary, compressed outputs (-Z: raw bytes compared, poison looked for in the inflated text), obipcr --fragmented on 100-140 kb templates with products inside the overlaps of consecutive pieces. " +
			"distinct_nontrivial = distinct (command option set, input size, max-cpu, batch-size, yield on/off, GOMAXPROCS) configurations compared with the reference on inputs of more than 2 records, plus linearizability histories",
		Assume: []string{"metamorphic oracle: no model of the commands is needed, only equality with the reference configuration", "obicsv --auto takes its columns from the first batch (documented): it is exercised on inputs whose records all carry the same attributes, so that only the order of the columns is at stake", "the annotation map exists before it is shared (as in every command)"},
		Subs: []core.Sub{
			{Name: "matrix", N: core.Const(nj*2, nj*12), Shard: 1, TimeoutS: 1800, Run: func(c *core.Ctx) { runMatrix(c, false) }},
			{Name: "race", N: core.Const(nj, nj), Shard: 1, TimeoutS: 1800, Run: func(c *core.Ctx) { runMatrix(c, true) }},
			{Name: "linearizable", N: core.Const(8, 128), Run: runLinearizable, Race: true, NRace: core.Const(4, 8)},
		},
		Cmds:          bins,
		RaceCmds:      bins,
		MinNontrivial: 100,
		RaceFiles:     []string{"pkg/obioptions/", "pkg/obiiter/", "pkg/obiseq/", "pkg/obitools/obipairing/", "pkg/obingslibrary/", "pkg/obiapat/", "pkg/obialign/", "pkg/obiformats/", "cmd/obitools/"},
	})
}
