package c14

import (
	"fmt"
	"sort"
	"strconv"
	"strings"

	"git.metabarcoding.org/obitools/obitools4/obitools4/pkg/obiseq"
	"git.metabarcoding.org/obitools/obitools4/obitools4/pkg/obitax"

	"verifh/core"
	"verifh/ref"
)

// bcfg fixes how much of the query space of one taxonomy is compared with the reference tree.
type bcfg struct {
	allPairs   bool // every ordered pair of nodes (small trees); otherwise nPairs sampled + structured pairs
	nPairs     int
	allTriples bool // every ordered triple (associativity)
	nTriples   int
	nSets      int  // taxon sets: clade sets and weighted LCA of a sequence
	allRanks   bool // TaxonAtRank / HasRankDefined on every node; otherwise nRankNodes sampled nodes
	nRankNodes int
	nSeq       int  // sequence-level probes (predicates, annotators) per kind
	light      bool // only node table, pairs (LCA, clade) and paths
	tag        string
}

// keyCache avoids hashing the same case class again and again.
type keyCache struct {
	c    *core.Ctx
	seen map[string]struct{}
}

func (k *keyCache) key(format string, a ...any) {
	s := fmt.Sprintf(format, a...)
	if _, ok := k.seen[s]; ok {
		return
	}
	k.seen[s] = struct{}{}
	k.c.Key("%s", s)
}

func bucket(d int) int {
	switch {
	case d <= 4:
		return d
	case d <= 8:
		return 8
	case d <= 32:
		return 32
	case d <= 256:
		return 256
	}
	return 9999
}

// describe renders the tree for a witness: completely when small, by the lineages involved otherwise.
func describe(t *ref.TaxTree, nodes ...int) map[string]any {
	d := map[string]any{"n": t.N(), "root_taxid": t.Taxid[t.Root]}
	if t.N() <= 12 {
		par := make([]int, t.N())
		for i := range par {
			par[i] = t.Taxid[t.Parent[i]]
		}
		d["taxid"] = t.Taxid
		d["parent_taxid"] = par
		d["rank"] = t.Rank
		al := map[string]int{}
		for _, a := range t.Alias {
			al[strconv.Itoa(a[0])] = t.Taxid[a[1]]
		}
		d["alias_old_to_new"] = al
	} else {
		d["height"] = t.Height()
	}
	for k, x := range nodes {
		if x < 0 || x >= t.N() {
			continue
		}
		p := t.Path(x)
		var s []string
		for _, y := range p {
			s = append(s, fmt.Sprintf("%d(%s)", t.Taxid[y], t.Rank[y]))
			if len(s) > 40 {
				s = append(s, fmt.Sprintf("... %d more up to the root %d", len(p)-len(s), t.Taxid[t.Root]))
				break
			}
		}
		d[fmt.Sprintf("lineage_%d", k)] = strings.Join(s, " < ")
	}
	return d
}

func tid(n *obitax.TaxNode) any {
	if n == nil {
		return nil
	}
	return n.Taxid()
}

func mkseq(id string, taxid int) *obiseq.BioSequence {
	s := obiseq.NewBioSequence(id, []byte("acgtacgt"), "")
	s.SetAttribute("taxid", taxid)
	return s
}

type probe struct {
	c   *core.Ctx
	t   *ref.TaxTree
	tax *obitax.Taxonomy
	nd  []*obitax.TaxNode // node i of the reference tree in the real taxonomy
	kc  *keyCache
	ev  int
	// descriptor of the call in flight (for the panic guard)
	op    string
	class string
	nodes []int
}

// guard runs f; a panic raised by target code becomes a violation classified by the call in flight.
func (p *probe) guard(f func()) {
	defer func() {
		if r := recover(); r != nil {
			d := describe(p.t, p.nodes...)
			d["panic"] = fmt.Sprint(r)
			p.c.Violate("panic:"+p.op+":"+p.class, p.op+" panicked on a well-formed taxonomy", d)
		}
	}()
	f()
}

// is tells whether the real node n is node i of the reference tree (taxids are distinct).
func (p *probe) is(n *obitax.TaxNode, i int) bool { return n != nil && n.Taxid() == p.t.Taxid[i] }

func (p *probe) stop() bool { return p.c.Violations() >= 3 }

// idClass names how a taxid relates to the taxonomy.
func idClass(via, ok bool) string {
	switch {
	case !ok:
		return "unknown-taxid"
	case via:
		return "alias"
	}
	return "node"
}

// battery compares every query of the real taxonomy `tax` with the reference tree t.
// ids that are neither nodes nor aliases are in unknown.
func battery(c *core.Ctx, tax *obitax.Taxonomy, t *ref.TaxTree, unknown []int, cfg bcfg) {
	p := &probe{c: c, t: t, tax: tax, kc: &keyCache{c, map[string]struct{}{}}}
	defer func() { c.Count("evaluations", p.ev) }()
	n := t.N()
	r := c.Rng

	// ---- node table: every taxon is found, with its rank, name and parent link
	if tax.Len() != n {
		c.Violate("size", fmt.Sprintf("taxonomy holds %d taxa, the tree has %d", tax.Len(), n), describe(t))
	}
	p.nd = make([]*obitax.TaxNode, n)
	okTable := true
	p.op, p.class = "Taxon", "node"
	p.guard(func() {
		for i := 0; i < n; i++ {
			p.nodes = []int{i}
			nd, err := tax.Taxon(t.Taxid[i])
			p.ev++
			if err != nil || nd == nil {
				c.Violate("lookup", fmt.Sprintf("taxon %d of the tree is not found in the taxonomy", t.Taxid[i]), describe(t, i))
				okTable = false
				continue
			}
			p.nd[i] = nd
			if nd.Taxid() != t.Taxid[i] {
				c.Violate("lookup", fmt.Sprintf("Taxon(%d) returns taxon %d", t.Taxid[i], nd.Taxid()), describe(t, i))
				okTable = false
			}
			if nd.Rank() != t.Rank[i] {
				c.Violate("rank-label", fmt.Sprintf("taxon %d has rank %q, the tree says %q", t.Taxid[i], nd.Rank(), t.Rank[i]), describe(t, i))
			}
			if nd.ScientificName() != t.Name[i] {
				c.Violate("name", fmt.Sprintf("taxon %d has scientific name %q, the tree says %q", t.Taxid[i], nd.ScientificName(), t.Name[i]), describe(t, i))
			}
		}
		for i := 0; i < n && okTable; i++ {
			p.nodes = []int{i}
			par := p.nd[i].Parent()
			p.ev++
			if !p.is(par, t.Parent[i]) {
				cl := "inner"
				if i == t.Root {
					cl = "root"
				}
				c.Violate("parent-link:"+cl, fmt.Sprintf("parent of taxon %d is %v, the tree says %d", t.Taxid[i], tid(par), t.Taxid[t.Parent[i]]), describe(t, i))
				okTable = false
			}
		}
	})
	if !okTable {
		return // the remaining queries would dereference broken links
	}

	// ---- aliases and unknown taxids
	p.op = "Taxon"
	p.guard(func() {
		for _, a := range t.Alias {
			p.class, p.nodes = "alias", []int{a[1]}
			nd, err := tax.Taxon(a[0])
			p.ev++
			p.kc.key("alias/%s", map[bool]string{true: "root", false: "inner"}[a[1] == t.Root])
			if err != nil || !p.is(nd, a[1]) {
				d := describe(t, a[1])
				d["old_taxid"] = a[0]
				d["got"] = tid(nd)
				c.Violate("alias", fmt.Sprintf("merged taxid %d resolves to %v instead of %d", a[0], tid(nd), t.Taxid[a[1]]), d)
			}
			// the string form of a taxid is resolved in the same way
			nd2, err2 := tax.Taxon(strconv.Itoa(a[0]))
			p.ev++
			if err2 != nil || !p.is(nd2, a[1]) {
				c.Violate("alias:string-taxid", fmt.Sprintf("merged taxid \"%d\" (string) resolves to %v instead of %d", a[0], tid(nd2), t.Taxid[a[1]]), describe(t, a[1]))
			}
		}
		for _, u := range unknown {
			p.class, p.nodes = "unknown-taxid", nil
			nd, err := tax.Taxon(u)
			p.ev++
			p.kc.key("unknown")
			if err == nil {
				d := describe(t)
				d["taxid"] = u
				d["got"] = tid(nd)
				c.Violate("unknown-accepted", fmt.Sprintf("taxid %d is neither a taxon nor a merged id, Taxon returns %v without error", u, tid(nd)), d)
			}
		}
	})

	// ---- pairs: LCA (commutative, idempotent, = reference), clade membership
	pair := func(a, b int) {
		rel := t.Relation(a, b)
		p.class, p.nodes = rel, []int{a, b}
		want := t.LCA(a, b)
		if a != b || n == 1 {
			p.kc.key("pair/%s/%d/%d/%d", rel, bucket(t.Depth[a]), bucket(t.Depth[b]), bucket(t.Depth[want]))
		}
		p.op = "LCA"
		got, err := p.nd[a].LCA(p.nd[b])
		p.ev++
		if err != nil || !p.is(got, want) {
			d := describe(t, a, b)
			d["got"], d["want"], d["err"] = tid(got), t.Taxid[want], fmt.Sprint(err)
			c.Violate("lca:"+rel, fmt.Sprintf("LCA(%d,%d) = %v, the deepest common ancestor is %d", t.Taxid[a], t.Taxid[b], tid(got), t.Taxid[want]), d)
		}
		if !cfg.allPairs { // with all ordered pairs the swapped call is compared with the reference anyway
			got2, _ := p.nd[b].LCA(p.nd[a])
			p.ev++
			if tid(got2) != tid(got) {
				d := describe(t, a, b)
				d["ab"], d["ba"] = tid(got), tid(got2)
				c.Violate("lca-commutative:"+rel, fmt.Sprintf("LCA(%d,%d) != LCA(%d,%d)", t.Taxid[a], t.Taxid[b], t.Taxid[b], t.Taxid[a]), d)
			}
		}
		p.op = "IsSubCladeOf"
		for _, o := range [][2]int{{a, b}, {b, a}} {
			if cfg.allPairs && o[0] != a {
				break
			}
			gotc := p.nd[o[0]].IsSubCladeOf(p.nd[o[1]])
			wantc := t.IsAncestorOrSelf(o[1], o[0])
			p.ev++
			if gotc != wantc {
				d := describe(t, o[0], o[1])
				d["got"], d["want"] = gotc, wantc
				dir := "descendant-denied"
				if gotc {
					dir = "non-descendant-accepted"
				}
				c.Violate("clade:"+dir+":"+rel, fmt.Sprintf("%d.IsSubCladeOf(%d) = %v", t.Taxid[o[0]], t.Taxid[o[1]], gotc), d)
			}
		}
	}
	p.guard(func() {
		if cfg.allPairs {
			for a := 0; a < n && !p.stop(); a++ {
				for b := 0; b < n; b++ {
					pair(a, b)
				}
			}
			return
		}
		for k := 0; k < cfg.nPairs && !p.stop(); k++ {
			a, b := r.Intn(n), r.Intn(n)
			switch k % 8 {
			case 0: // with the root
				b = t.Root
			case 1: // with itself
				b = a
			case 2: // with one of its ancestors
				pa := t.Path(a)
				b = pa[r.Intn(len(pa))]
			case 3: // with its parent / a sibling lineage
				b = t.Parent[a]
			}
			if k%2 == 0 {
				a, b = b, a
			}
			pair(a, b)
		}
	})

	// ---- paths
	pathOf := func(a int) {
		p.op, p.nodes = "Path", []int{a}
		cl := "inner"
		switch {
		case a == t.Root:
			cl = "root"
		case t.Parent[a] == t.Root:
			cl = "child-of-root"
		}
		p.class = cl
		want := t.Path(a)
		ps, err := p.nd[a].Path()
		p.ev++
		p.kc.key("path/%d", bucket(len(want)))
		bad := err != nil || ps == nil || len(*ps) != len(want)
		if !bad {
			for i, x := range *ps {
				if !p.is(x, want[i]) {
					bad = true
					break
				}
			}
		}
		if bad {
			d := describe(t, a)
			if ps != nil {
				var g []int
				for _, x := range *ps {
					if x != nil {
						g = append(g, x.Taxid())
					}
					if len(g) > 60 {
						break
					}
				}
				d["got"] = g
			}
			d["err"] = fmt.Sprint(err)
			c.Violate("path:"+cl, fmt.Sprintf("Path of taxon %d is not the chain of parent links from it to the root", t.Taxid[a]), d)
		}
	}
	p.guard(func() {
		if cfg.allPairs {
			for a := 0; a < n; a++ {
				pathOf(a)
			}
		} else {
			for k := 0; k < cfg.nPairs/4+2 && !p.stop(); k++ {
				pathOf(r.Intn(n))
			}
			pathOf(t.Root)
		}
		// Taxonomy.Path(taxid), through a node id and through a merged id
		ids := [][2]int{{t.Taxid[r.Intn(n)], -1}}
		for _, a := range t.Alias {
			ids = append(ids, [2]int{a[0], a[1]})
			if len(ids) > 4 {
				break
			}
		}
		for _, id := range ids {
			x, via, _ := t.Resolve(id[0])
			p.op, p.class, p.nodes = "Taxonomy.Path", idClass(via, true), []int{x}
			want := t.Path(x)
			ps, err := tax.Path(id[0])
			p.ev++
			bad := err != nil || ps == nil || len(*ps) != len(want)
			if !bad {
				for i, y := range *ps {
					if !p.is(y, want[i]) {
						bad = true
						break
					}
				}
			}
			if bad {
				d := describe(t, x)
				d["taxid"] = id[0]
				c.Violate("path:by-taxid:"+idClass(via, true), fmt.Sprintf("Taxonomy.Path(%d) is not the lineage of taxon %d", id[0], t.Taxid[x]), d)
			}
		}
	})
	if cfg.light || p.stop() {
		return
	}

	// ---- triples: associativity, and agreement with the LCA of the set
	triple := func(a, b, cc int) {
		p.op, p.class, p.nodes = "LCA", "triple", []int{a, b, cc}
		ab, _ := p.nd[a].LCA(p.nd[b])
		bc, _ := p.nd[b].LCA(p.nd[cc])
		if ab == nil || bc == nil {
			return // already reported by the pair check
		}
		l, _ := ab.LCA(p.nd[cc])
		rr, _ := p.nd[a].LCA(bc)
		p.ev += 4
		want := t.LCASet([]int{a, b, cc})
		if a != b && b != cc && a != cc {
			p.kc.key("triple/%d/%d", bucket(t.Depth[want]), bucket(max(t.Depth[a], t.Depth[b], t.Depth[cc])))
		}
		if tid(l) != tid(rr) {
			d := describe(t, a, b, cc)
			d["(ab)c"], d["a(bc)"] = tid(l), tid(rr)
			c.Violate("lca-associative", fmt.Sprintf("LCA(LCA(%d,%d),%d) != LCA(%d,LCA(%d,%d))", t.Taxid[a], t.Taxid[b], t.Taxid[cc], t.Taxid[a], t.Taxid[b], t.Taxid[cc]), d)
		} else if !p.is(l, want) {
			d := describe(t, a, b, cc)
			d["got"], d["want"] = tid(l), t.Taxid[want]
			c.Violate("lca-of-three", "folded LCA of three taxa is not their deepest common ancestor", d)
		}
	}
	p.guard(func() {
		if cfg.allTriples {
			for a := 0; a < n && !p.stop(); a++ {
				for b := 0; b < n; b++ {
					for cc := 0; cc < n; cc++ {
						triple(a, b, cc)
					}
				}
			}
		} else {
			for k := 0; k < cfg.nTriples && !p.stop(); k++ {
				a := r.Intn(n)
				b, cc := r.Intn(n), r.Intn(n)
				if k%3 == 0 { // relatives: nodes near a
					pa := t.Path(a)
					b = pa[r.Intn(len(pa))]
				}
				triple(a, b, cc)
			}
		}
	})

	// ---- ranks
	ranks := t.Ranks()
	probeRanks := append(append([]string{}, ranks...), "verif-absent-rank", "")
	p.guard(func() {
		got := tax.RankList()
		p.ev++
		g := append([]string{}, got...)
		w := append([]string{}, ranks...)
		sort.Strings(g)
		sort.Strings(w)
		if strings.Join(g, "\x00") != strings.Join(w, "\x00") {
			d := describe(t)
			d["got"], d["want"] = g, w
			c.Violate("ranklist", "RankList is not the set of rank labels of the taxa", d)
		}
	})
	rankOf := func(a int, rank string) {
		p.op, p.nodes = "TaxonAtRank", []int{a}
		want := t.AtRank(a, rank)
		cl := "none"
		switch {
		case len(want) == 1 && want[0] == a:
			cl = "self"
		case len(want) == 1 && want[0] == t.Root:
			cl = "root"
		case len(want) == 1:
			cl = "one-ancestor"
		case len(want) > 1 && want[0] == a:
			cl = "repeated-self-first"
		case len(want) > 1:
			cl = "repeated"
		}
		if a == t.Root {
			cl += "-from-root"
		}
		p.class = cl
		p.kc.key("rank/%s", cl)
		got := p.nd[a].TaxonAtRank(rank)
		p.ev++
		cause := ""
		switch {
		case len(want) == 0 && got != nil:
			cause = "rank:spurious"
		case len(want) > 0 && got == nil:
			cause = "rank:missing"
		case len(want) > 0:
			in := false
			for _, w := range want {
				if p.is(got, w) {
					in = true
				}
			}
			if !in {
				cause = "rank:wrong-taxon"
			} else if !p.is(got, want[0]) {
				cause = "rank:not-nearest"
			}
		}
		if cause != "" {
			d := describe(t, a)
			d["rank"], d["got"] = rank, tid(got)
			var w []int
			for _, x := range want {
				w = append(w, t.Taxid[x])
			}
			d["ancestors_or_self_with_that_rank"] = w
			c.Violate(cause+":"+cl, fmt.Sprintf("TaxonAtRank(%q) from taxon %d = %v", rank, t.Taxid[a], tid(got)), d)
		}
		p.op = "HasRankDefined"
		has := p.nd[a].HasRankDefined(rank)
		p.ev++
		if has != (len(want) > 0) {
			d := describe(t, a)
			d["rank"], d["got"] = rank, has
			c.Violate("has-rank:"+cl, fmt.Sprintf("HasRankDefined(%q) from taxon %d = %v", rank, t.Taxid[a], has), d)
		}
	}
	p.guard(func() {
		if cfg.allRanks {
			for a := 0; a < n && !p.stop(); a++ {
				for _, rk := range probeRanks {
					rankOf(a, rk)
				}
			}
		} else {
			for k := 0; k < cfg.nRankNodes && !p.stop(); k++ {
				a := r.Intn(n)
				if k == 0 {
					a = t.Root
				}
				for _, rk := range probeRanks {
					rankOf(a, rk)
				}
			}
		}
		// the three named wrappers
		a := r.Intn(n)
		p.op, p.class, p.nodes = "Species/Genus/Family", "wrapper", []int{a}
		for rk, f := range map[string]func() *obitax.TaxNode{"species": p.nd[a].Species, "genus": p.nd[a].Genus, "family": p.nd[a].Family} {
			got := f()
			p.ev++
			if tid(got) != tid(p.nd[a].TaxonAtRank(rk)) {
				d := describe(t, a)
				d["rank"], d["got"] = rk, tid(got)
				c.Violate("rank:wrapper", "Species/Genus/Family differ from TaxonAtRank of the same rank", d)
			}
		}
	})

	// ---- clade sets
	p.guard(func() {
		for k := 0; k < cfg.nSets && !p.stop(); k++ {
			size := r.Intn(4)
			set := obitax.TaxonSet{}
			var members []int
			for j := 0; j < size; j++ {
				m := r.Intn(n)
				members = append(members, m)
				set.Inserts(p.nd[m])
			}
			a := r.Intn(n)
			if k%3 == 0 && size > 0 { // a descendant of a member, when there is one nearby
				for tries := 0; tries < 8; tries++ {
					x := r.Intn(n)
					if t.IsAncestorOrSelf(members[0], x) {
						a = x
						break
					}
				}
			}
			want := false
			for _, m := range members {
				if t.IsAncestorOrSelf(m, a) {
					want = true
				}
			}
			p.op, p.class, p.nodes = "IsBelongingSubclades", fmt.Sprintf("set-of-%d", size), append([]int{a}, members...)
			got := p.nd[a].IsBelongingSubclades(&set)
			p.ev++
			p.kc.key("cladeset/%d/%v", size, want)
			if got != want {
				d := describe(t, append([]int{a}, members...)...)
				d["got"], d["want"] = got, want
				c.Violate(fmt.Sprintf("clade-set:size-%d", size), fmt.Sprintf("IsBelongingSubclades of taxon %d = %v", t.Taxid[a], got), d)
			}
		}
	})

	// ---- clade of a taxon as a set: the taxa of the taxonomy filtered by IsSubCladeOf
	if n <= 64 {
		p.guard(func() {
			for k := 0; k < min(cfg.nSets, 3) && !p.stop(); k++ {
				a := r.Intn(n)
				p.op, p.class, p.nodes = "IFilterOnSubcladeOf", "subtree", []int{a}
				got := tax.IFilterOnSubcladeOf(p.nd[a]).TaxonSet()
				p.ev++
				want := 0
				bad := false
				for x := 0; x < n; x++ {
					_, in := (*got)[t.Taxid[x]]
					w := t.IsAncestorOrSelf(a, x)
					if w {
						want++
					}
					bad = bad || in != w
				}
				p.kc.key("subtree/%d", bucket(want))
				if bad || len(*got) != want {
					var g []int
					for id := range *got {
						g = append(g, id)
					}
					sort.Ints(g)
					d := describe(t, a)
					d["got"] = g
					c.Violate("clade-iterator", fmt.Sprintf("the taxa selected by IFilterOnSubcladeOf(%d) are not its subtree", t.Taxid[a]), d)
				}
			}
		})
	}

	// ---- sequence level: predicates and annotators built on the queries
	p.seqLevel(cfg, unknown, ranks)
}

// pickID draws a taxid to put on a sequence: a node, a merged id, or an unknown id.
func (p *probe) pickID(unknown []int, allowUnknown bool) (taxid, node int, cl string) {
	r, t := p.c.Rng, p.t
	switch k := r.Intn(10); {
	case k < 2 && len(t.Alias) > 0:
		a := t.Alias[r.Intn(len(t.Alias))]
		return a[0], a[1], "alias"
	case k == 2 && allowUnknown && len(unknown) > 0:
		return unknown[r.Intn(len(unknown))], -1, "unknown-taxid"
	}
	x := r.Intn(t.N())
	return t.Taxid[x], x, "node"
}

func (p *probe) seqLevel(cfg bcfg, unknown []int, ranks []string) {
	c, t, tax, r := p.c, p.t, p.tax, p.c.Rng
	n := t.N()

	// restrict-to / ignore taxon: Taxonomy.IsSubCladeOf(T), IsSubCladeOfSlot(key)
	p.guard(func() {
		for k := 0; k < cfg.nSeq && !p.stop(); k++ {
			T, tn, tcl := p.pickID(unknown, false)
			pred := tax.IsSubCladeOf(T)
			slot := tax.IsSubCladeOfSlot("clade_ref")
			for j := 0; j < 4; j++ {
				id, x, cl := p.pickID(unknown, true)
				if j == 1 { // make positives frequent: look for a member of the clade
					for tries := 0; tries < 8; tries++ {
						y := r.Intn(n)
						if t.IsAncestorOrSelf(tn, y) {
							id, x, cl = t.Taxid[y], y, "node"
							break
						}
					}
				}
				want := x >= 0 && t.IsAncestorOrSelf(tn, x)
				p.op, p.class, p.nodes = "Taxonomy.IsSubCladeOf", cl+"-in-"+tcl, []int{x, tn}
				s := mkseq("s", id)
				got := pred(s)
				p.ev++
				p.kc.key("seqclade/%s/%s/%v", cl, tcl, want)
				if got != want {
					d := describe(t, x, tn)
					d["sequence_taxid"], d["clade_taxid"], d["got"], d["want"] = id, T, got, want
					c.Violate("seq-clade:"+cl+"-in-"+tcl, fmt.Sprintf("predicate IsSubCladeOf(%d) on a sequence of taxid %d = %v", T, id, got), d)
				}
				p.op = "Taxonomy.IsSubCladeOfSlot"
				s.SetAttribute("clade_ref", T)
				got = slot(s)
				p.ev++
				if got != want {
					d := describe(t, x, tn)
					d["sequence_taxid"], d["clade_taxid"], d["got"], d["want"] = id, T, got, want
					c.Violate("seq-clade-slot:"+cl+"-in-"+tcl, fmt.Sprintf("predicate IsSubCladeOfSlot on a sequence of taxid %d, slot %d = %v", id, T, got), d)
				}
			}
			// a slot that does not name a taxon of the taxonomy (what `obiannotate --taxon-at-rank`
			// writes when the rank is missing: -1) selects nothing, whatever the taxid of the sequence
			var bad any = []any{-1, 0, "NA", "", "taxon:x"}[r.Intn(5)]
			if len(unknown) > 0 && r.Intn(2) == 0 {
				bad = unknown[r.Intn(len(unknown))]
			}
			id, x, cl := p.pickID(unknown, k%4 == 3)
			s := mkseq("s", id)
			s.SetAttribute("clade_ref", bad)
			p.op, p.class, p.nodes = "Taxonomy.IsSubCladeOfSlot", cl+"-in-non-taxon-slot", []int{x}
			got := slot(s)
			p.ev++
			p.kc.key("seqclade-badslot/%s/%T", cl, bad)
			if got {
				d := describe(t, x, x)
				d["sequence_taxid"], d["slot_value"] = id, bad
				c.Violate("seq-clade-slot:non-taxon-slot", fmt.Sprintf("predicate IsSubCladeOfSlot selects a sequence of taxid %d whose slot holds %v, not a taxon", id, bad), d)
			}
		}
	})

	// required rank, valid taxon, taxon at rank, classifier
	p.guard(func() {
		for k := 0; k < cfg.nSeq && !p.stop(); k++ {
			rank := ranks[r.Intn(len(ranks))]
			pred := tax.HasRequiredRank(rank)
			valid := tax.IsAValidTaxon()
			fix := tax.IsAValidTaxon(true)
			classif := obitax.TaxonomyClassifier(rank, tax, false)
			for j := 0; j < 3; j++ {
				id, x, cl := p.pickID(unknown, true)
				var want []int
				if x >= 0 {
					want = t.AtRank(x, rank)
				}
				p.nodes = []int{x}
				p.class = cl
				p.kc.key("seqrank/%s/%d", cl, min(2, len(want)))

				p.op = "Taxonomy.HasRequiredRank"
				got := pred(mkseq("s", id))
				p.ev++
				if got != (len(want) > 0) {
					d := describe(t, x)
					d["sequence_taxid"], d["rank"], d["got"] = id, rank, got
					c.Violate("seq-required-rank:"+cl, fmt.Sprintf("predicate HasRequiredRank(%q) on a sequence of taxid %d = %v", rank, id, got), d)
				}

				p.op = "Taxonomy.IsAValidTaxon"
				s := mkseq("s", id)
				gv := valid(s)
				p.ev++
				if gv != (x >= 0) || s.Taxid() != id {
					d := describe(t, x)
					d["sequence_taxid"], d["got"], d["taxid_after"] = id, gv, s.Taxid()
					c.Violate("seq-valid:"+cl, fmt.Sprintf("predicate IsAValidTaxon on a sequence of taxid %d = %v", id, gv), d)
				}
				wantID := id
				if x >= 0 {
					wantID = t.Taxid[x]
				}
				// the same predicate instance meets the same (possibly merged) taxid on several sequences
				for rep := 0; rep < 3; rep++ {
					if rep > 0 {
						s = mkseq(fmt.Sprintf("s%d", rep), id)
					}
					gv = fix(s)
					p.ev++
					if gv != (x >= 0) || s.Taxid() != wantID {
						d := describe(t, x)
						d["sequence_taxid"], d["got"], d["taxid_after"], d["want_taxid_after"], d["nth_sequence_with_this_taxid"] = id, gv, s.Taxid(), wantID, rep+1
						c.Violate("seq-valid-autocorrect:"+cl, fmt.Sprintf("IsAValidTaxon(autocorrect) on taxid %d leaves taxid %d", id, s.Taxid()), d)
						break
					}
				}

				p.op = "Taxonomy.SetTaxonAtRank"
				s = mkseq("s", id)
				ret := tax.SetTaxonAtRank(s, rank)
				p.ev++
				at, has := s.GetIntAttribute(rank + "_taxid")
				if !has {
					at, has = s.GetIntAttribute(rank)
				}
				nm, hasName := s.GetStringAttribute(rank + "_name")
				cause := ""
				switch {
				case len(want) == 0:
					// nothing to name: no real taxon may be returned or written
					if ret != nil {
						cause = "spurious"
					} else if has {
						if _, _, known := t.Resolve(at); known {
							cause = "spurious"
						}
					}
				case ret == nil || !has:
					cause = "missing"
				default:
					in := false
					for _, w := range want {
						if p.is(ret, w) {
							in = true
						}
					}
					switch {
					case !in:
						cause = "wrong-taxon"
					case at != ret.Taxid() || (hasName && nm != ret.ScientificName()):
						cause = "attributes-disagree"
					case !p.is(ret, want[0]):
						cause = "not-nearest"
					}
				}
				if cause != "" {
					d := describe(t, x)
					d["sequence_taxid"], d["rank"], d["returned"], d["attr_taxid"], d["attr_name"] = id, rank, tid(ret), at, nm
					c.Violate("seq-taxon-at-rank:"+cause+":"+cl, fmt.Sprintf("SetTaxonAtRank(%q) on a sequence of taxid %d", rank, id), d)
				}

				p.op = "TaxonomyClassifier"
				code := classif.Code(mkseq("s", id))
				p.ev++
				okc := false
				if len(want) == 0 {
					_, _, known := t.Resolve(code) // 0 today; any code that names no taxon is accepted
					okc = !known
				} else {
					for _, w := range want {
						if code == t.Taxid[w] {
							okc = true
						}
					}
				}
				if !okc {
					d := describe(t, x)
					d["sequence_taxid"], d["rank"], d["code"] = id, rank, code
					c.Violate("seq-classifier:"+cl, fmt.Sprintf("TaxonomyClassifier(%q) code of a sequence of taxid %d = %d", rank, id, code), d)
				}
			}
		}
	})

	// path / rank / name annotators (known taxids only: the others stop the program by design)
	c.Risk("sequence-annotators")
	p.guard(func() {
		for k := 0; k < cfg.nSeq && !p.stop(); k++ {
			id, x, cl := p.pickID(unknown, false)
			p.op, p.class, p.nodes = "Taxonomy.SetPath", cl, []int{x}
			s := mkseq("s", id)
			got := tax.SetPath(s)
			attr, _ := s.GetStringAttribute("taxonomic_path")
			p.ev++
			path := t.Path(x)
			want := make([]int, len(path))
			for i, y := range path {
				want[i] = t.Taxid[y]
			}
			if !lineageMatches(got, want) || !lineageMatches(attr, want) {
				d := describe(t, x)
				d["sequence_taxid"], d["got"], d["want"] = id, got, want
				c.Violate("seq-path:"+cl, fmt.Sprintf("SetPath on a sequence of taxid %d is not its lineage from the root", id), d)
			}
			p.op = "Taxonomy.SetTaxonomicRank"
			if g := tax.SetTaxonomicRank(s); g != t.Rank[x] {
				d := describe(t, x)
				d["sequence_taxid"], d["got"] = id, g
				c.Violate("seq-rank-label:"+cl, fmt.Sprintf("SetTaxonomicRank on a sequence of taxid %d = %q", id, g), d)
			}
			p.op = "Taxonomy.SetScientificName"
			if g := tax.SetScientificName(s); g != t.Name[x] {
				d := describe(t, x)
				d["sequence_taxid"], d["got"] = id, g
				c.Violate("seq-name:"+cl, fmt.Sprintf("SetScientificName on a sequence of taxid %d = %q", id, g), d)
			}
			p.ev += 2
		}
	})

	// LCA of the taxids merged in a sequence, zero error tolerance
	p.guard(func() {
		worker := obitax.AddLCAWorker(tax, "lca", 1.0)
		for k := 0; k < cfg.nSets && !p.stop(); k++ {
			size := 1 + r.Intn(6)
			if k%7 == 0 {
				size = 1
			}
			var nodes []int
			merged := map[string]int{}
			alias := false
			total := 0
			base := r.Intn(n)
			for j := 0; j < size; j++ {
				id, x, cl := p.pickID(unknown, false)
				switch (k + j) % 4 {
				case 1: // relatives: somewhere on the lineage of base
					pa := t.Path(base)
					x = pa[r.Intn(len(pa))]
					id, cl = t.Taxid[x], "node"
				case 2: // a node whose lineage passes through base's parent: siblings / cousins
					for tries := 0; tries < 6; tries++ {
						y := r.Intn(n)
						if t.IsAncestorOrSelf(t.Parent[base], y) {
							x, id, cl = y, t.Taxid[y], "node"
							break
						}
					}
				}
				if _, dup := merged[strconv.Itoa(id)]; dup {
					continue
				}
				if cl == "alias" {
					alias = true
				}
				w := 1 + r.Intn(5)
				if k%5 == 3 {
					// a deep sequencing run: millions of reads for one taxon next to a single read of
					// another one - the single read counts for the LCA all the same
					w = []int{1, 1, 2500000, 40000000, 1 + r.Intn(3)}[r.Intn(5)]
				}
				merged[strconv.Itoa(id)] = w
				total += w
				nodes = append(nodes, x)
			}
			want := t.LCASet(nodes)
			cl := "diverging"
			distinct := map[int]bool{}
			for _, x := range nodes {
				distinct[x] = true
			}
			switch {
			case len(distinct) == 1:
				cl = "single"
			case distinct[want] && want == t.Root:
				cl = "nested-root-member"
			case distinct[want]:
				cl = "nested"
			case want == t.Root:
				cl = "diverging-at-root"
			}
			if alias {
				cl += "+alias"
			}
			p.op, p.class, p.nodes = "Taxonomy.LCA(sequence)", cl, nodes
			p.kc.key("wlca/%s/%d/%d", cl, len(distinct), bucket(t.Depth[want]))
			for rep := 0; rep < 2; rep++ { // the implementation iterates over maps: ask twice
				s := obiseq.NewBioSequence("m", []byte("acgt"), "")
				s.SetAttribute("taxid", t.Taxid[want])
				s.SetCount(total)
				var mt any = obiseq.StatsOnValues(copyMap(merged))
				if (k+rep)%2 == 1 { // as it comes out of a JSON header
					m := map[string]interface{}{}
					for kk, v := range merged {
						m[kk] = float64(v)
					}
					mt = m
				}
				s.SetAttribute("merged_taxid", mt)
				got, rans, _ := tax.LCA(s, 1.0)
				p.ev++
				if !p.is(got, want) || rans != 1.0 {
					d := describe(t, nodes...)
					d["merged_taxid"], d["got"], d["want"], d["share"] = merged, tid(got), t.Taxid[want], rans
					c.Violate("weighted-lca:"+cl, fmt.Sprintf("LCA of the merged taxids of a sequence (threshold 1) = %v, deepest common ancestor is %d", tid(got), t.Taxid[want]), d)
					break
				}
				out, err := worker(s)
				p.ev++
				lt, okT := s.GetIntAttribute("lca_taxid")
				if !okT {
					lt, _ = s.GetIntAttribute("lca")
				}
				ln, hasName := s.GetStringAttribute("lca_name")
				le, hasErr := s.GetFloatAttribute("lca_error")
				if err != nil || len(out) != 1 || lt != t.Taxid[want] || (hasName && ln != t.Name[want]) || (hasErr && le != 0) {
					d := describe(t, nodes...)
					d["merged_taxid"], d["lca_taxid"], d["lca_name"], d["lca_error"], d["want"] = merged, lt, ln, le, t.Taxid[want]
					c.Violate("weighted-lca-annotation:"+cl, "AddLCAWorker (threshold 1) does not annotate the deepest common ancestor with error 0", d)
					break
				}
			}
		}
		// a sequence that only has a taxid: its LCA is that taxon
		for k := 0; k < min(cfg.nSeq, 8) && !p.stop(); k++ {
			id, x, cl := p.pickID(unknown, false)
			p.op, p.class, p.nodes = "Taxonomy.LCA(sequence)", "taxid-only:"+cl, []int{x}
			s := mkseq("s", id)
			if k%2 == 0 {
				s.SetCount(1 + r.Intn(9))
			}
			got, rans, _ := tax.LCA(s, 1.0)
			p.ev++
			p.kc.key("wlca/taxid-only/%s", cl)
			if !p.is(got, x) || rans != 1.0 {
				d := describe(t, x)
				d["sequence_taxid"], d["got"] = id, tid(got)
				c.Violate("weighted-lca:taxid-only:"+cl, fmt.Sprintf("LCA of a sequence carrying only taxid %d = %v", id, tid(got)), d)
			}
		}
	})
}

// lineageMatches tells whether a rendered taxonomic path (items separated by '|', each starting
// with the taxid followed by '@') lists exactly the taxids of want (self .. root), in either direction.
func lineageMatches(s string, want []int) bool {
	parts := strings.Split(s, "|")
	if len(parts) != len(want) {
		return false
	}
	fwd, rev := true, true
	for i, part := range parts {
		id, err := strconv.Atoi(strings.SplitN(part, "@", 2)[0])
		if err != nil {
			return false
		}
		fwd = fwd && id == want[i]
		rev = rev && id == want[len(want)-1-i]
	}
	return fwd || rev
}

func copyMap(m map[string]int) map[string]int {
	r := make(map[string]int, len(m))
	for k, v := range m {
		r[k] = v
	}
	return r
}
