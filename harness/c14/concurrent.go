package c14

import (
	"fmt"

	"git.metabarcoding.org/obitools/obitools4/obitools4/pkg/obitax"

	"verifh/conc"
	"verifh/core"
	"verifh/gen"
)

// runConcurrent: the taxonomy is shared, read-only, by all the parallel workers of obigrep,
// obiannotate, obitag ...: the queries answered while 2-16 goroutines query the same taxonomy must be
// the answers given alone (LCA and clade answers are compared with the reference tree first).
func runConcurrent(c *core.Ctx) {
	quiet()
	t, shape := randomTree(c, 2000)
	tax := buildAPI(c, t)
	if tax == nil {
		return
	}
	r := c.Rng
	unknown := append(gen.UnknownTaxids(r, t, 4), 0, -1)
	ranks := append(t.Ranks(), "no-such-rank")
	type q struct {
		op   int
		a, b int // taxids
		rank string
	}
	pick := func() int {
		switch k := r.Intn(12); {
		case k == 0 && len(t.Alias) > 0:
			return t.Alias[r.Intn(len(t.Alias))][0]
		case k == 1:
			return unknown[r.Intn(len(unknown))]
		}
		return t.Taxid[r.Intn(t.N())]
	}
	n := c.Pick(1500, 4000)
	qs := make([]q, n)
	for i := range qs {
		qs[i] = q{op: r.Intn(7), a: pick(), b: pick(), rank: ranks[r.Intn(len(ranks))]}
	}
	restrict := map[int]func(int) bool{}
	eval := func(i, w int) string {
		x := qs[i]
		ta, ea := tax.Taxon(x.a)
		tb, eb := tax.Taxon(x.b)
		switch x.op {
		case 0:
			if ea != nil {
				return "unknown"
			}
			return fmt.Sprint(ta.Taxid(), ta.Rank(), ta.ScientificName())
		case 1:
			if ea != nil || eb != nil {
				return "unknown"
			}
			l, err := ta.LCA(tb)
			if err != nil || l == nil {
				return "lca-error"
			}
			return fmt.Sprint(l.Taxid())
		case 2:
			if ea != nil || eb != nil {
				return "unknown"
			}
			return fmt.Sprint(ta.IsSubCladeOf(tb))
		case 3:
			if ea != nil {
				return "unknown"
			}
			p, err := ta.Path()
			if err != nil {
				return "path-error"
			}
			s := ""
			for _, nd := range *p {
				s += fmt.Sprint(nd.Taxid(), ",")
			}
			return s
		case 4:
			if ea != nil {
				return "unknown"
			}
			return fmt.Sprint(tid(ta.TaxonAtRank(x.rank)), ta.HasRankDefined(x.rank))
		case 5:
			s := mkseq("s", x.a)
			if x.rank == "no-such-rank" {
				return fmt.Sprint(tax.IsAValidTaxon()(s))
			}
			return fmt.Sprint(tax.HasRequiredRank(x.rank)(s), tax.IsAValidTaxon()(s))
		default:
			if eb != nil {
				return "unknown-clade"
			}
			s := mkseq("s", x.a)
			got := tax.IsSubCladeOf(x.b)(s)
			if ea != nil { // the annotators stop the program on a taxid unknown to the taxonomy (documented)
				return fmt.Sprint(got)
			}
			node := tax.SetTaxonAtRank(s, x.rank)
			return fmt.Sprint(got, tid(node), tax.SetPath(s))
		}
	}
	_ = restrict
	workers := []int{2, 4, 8, 16}[c.Idx%4]
	c.Risk("concurrent-queries")
	alone, bad, evals := conc.Run(workers, c.Pick(3, 8), n, eval)
	// anchor the sequential answers on the reference tree (LCA, clade membership)
	for i, x := range qs {
		na, _, oka := t.Resolve(x.a)
		nb, _, okb := t.Resolve(x.b)
		if !oka || !okb {
			continue
		}
		switch x.op {
		case 1:
			if want := fmt.Sprint(t.Taxid[t.LCA(na, nb)]); alone[i] != want {
				c.Violate("concurrent:alone:lca", "LCA disagrees with the reference tree", map[string]any{"a": x.a, "b": x.b, "got": alone[i], "want": want})
				return
			}
		case 2:
			if want := fmt.Sprint(t.IsAncestorOrSelf(nb, na)); alone[i] != want {
				c.Violate("concurrent:alone:clade", "IsSubCladeOf disagrees with the reference tree", map[string]any{"a": x.a, "b": x.b, "got": alone[i], "want": want})
				return
			}
		}
	}
	c.Count("evaluations", int(evals))
	c.Count("concurrent_evaluations", int(evals))
	c.Key("concurrent/%s/%d/%d", shape, logBucket(t.N()), workers)
	if c.Idx < 2 {
		c.Sample(map[string]any{"shape": shape, "n": t.N(), "queries": n, "goroutines": workers})
	}
	ops := []string{"Taxon", "LCA", "IsSubCladeOf", "Path", "TaxonAtRank", "predicates", "sequence-annotators"}
	seen := map[string]bool{}
	for _, m := range bad {
		cause := "concurrent:" + ops[qs[m.Index].op]
		if m.Panic {
			cause = "concurrent:panic:" + ops[qs[m.Index].op]
		}
		if !seen[cause] {
			seen[cause] = true
			c.Violate(cause, "a taxonomy query answered while other goroutines query the same taxonomy differs from the answer given alone",
				map[string]any{"query": fmt.Sprintf("%s(%d, %d, %q)", ops[qs[m.Index].op], qs[m.Index].a, qs[m.Index].b, qs[m.Index].rank), "alone": m.Alone, "got": m.Got, "goroutines": workers, "shape": shape, "n": t.N()})
		}
	}
}

var _ = obitax.NewTaxonomy
