package c14

import (
	"bytes"
	"context"
	"encoding/json"
	"fmt"
	"os"
	"os/exec"
	"path/filepath"
	"sort"
	"strconv"
	"strings"
	"time"

	"verifh/core"
	"verifh/gen"
	"verifh/ref"
)

// rec is one FASTA record of an end-to-end case.
type rec struct {
	id     string
	taxid  int
	node   int            // node of the reference tree, -1 when the taxid is unknown
	class  string         // node | alias | unknown-taxid
	merged map[string]int // merged_taxid attribute (nil = absent)
	mnodes []int          // nodes of the merged ids
	malias bool
}

func (r *rec) header() string {
	m := map[string]any{"taxid": r.taxid}
	if r.merged != nil {
		m["merged_taxid"] = r.merged
		tot := 0
		for _, w := range r.merged {
			tot += w
		}
		m["count"] = tot
	}
	b, _ := json.Marshal(m)
	return ">" + r.id + " " + string(b)
}

func writeFasta(path string, recs []*rec, rng interface{ Intn(int) int }) error {
	var b strings.Builder
	for _, r := range recs {
		b.WriteString(r.header())
		b.WriteByte('\n')
		b.WriteString(string(gen.ACGT[rng.Intn(4)]))
		b.WriteString("acgtacgtacgttgca\n")
	}
	return os.WriteFile(path, []byte(b.String()), 0o644)
}

type outRec struct {
	id    string
	annot map[string]any
}

// parseFasta reads FASTA text whose title lines are `>id {json}`.
func parseFasta(text string) ([]outRec, error) {
	var out []outRec
	for _, line := range strings.Split(text, "\n") {
		if !strings.HasPrefix(line, ">") {
			continue
		}
		line = line[1:]
		id, rest := line, ""
		if i := strings.IndexAny(line, " \t"); i >= 0 {
			id, rest = line[:i], strings.TrimSpace(line[i+1:])
		}
		o := outRec{id: id, annot: map[string]any{}}
		if strings.HasPrefix(rest, "{") {
			dec := json.NewDecoder(strings.NewReader(rest))
			dec.UseNumber()
			if err := dec.Decode(&o.annot); err != nil {
				return nil, fmt.Errorf("title line of %s is not `id {json}`: %v", id, err)
			}
		}
		out = append(out, o)
	}
	return out, nil
}

func asInt(v any) (int, bool) {
	switch x := v.(type) {
	case json.Number:
		if i, err := x.Int64(); err == nil {
			return int(i), true
		}
		if f, err := x.Float64(); err == nil && f == float64(int(f)) {
			return int(f), true
		}
	case string:
		if i, err := strconv.Atoi(x); err == nil {
			return i, true
		}
	}
	return 0, false
}

type runResult struct {
	stdout, stderr string
	exit           int
	timedOut       bool
}

func runCmd(dir, bin string, args ...string) runResult {
	ctx, cancel := context.WithTimeout(context.Background(), 300*time.Second)
	defer cancel()
	cmd := exec.CommandContext(ctx, bin, args...)
	cmd.Dir = dir
	var so, se bytes.Buffer
	cmd.Stdout, cmd.Stderr = &so, &se
	err := cmd.Run()
	res := runResult{stdout: so.String(), stderr: se.String()}
	if ctx.Err() != nil {
		res.timedOut = true
		return res
	}
	if err != nil {
		res.exit = -1
		if ee, ok := err.(*exec.ExitError); ok {
			res.exit = ee.ExitCode()
		}
	}
	return res
}

// aboutTaxonomy tells whether the diagnostic of a dead command points into the taxonomy code
// (a stack frame of obitax / ncbitaxdump, or a fatal message about a taxid, taxon, taxonomy or rank).
func aboutTaxonomy(stderr string) bool {
	// only the diagnostic counts: the informational log always talks about the taxonomy being loaded
	at := -1
	for _, mark := range []string{"panic:", "fatal error:", "level=fatal", "level=panic"} {
		if i := strings.Index(stderr, mark); i >= 0 && (at < 0 || i < at) {
			at = i
		}
	}
	if at < 0 {
		return false
	}
	diag := stderr[at:]
	for _, mark := range []string{"pkg/obitax", "obitax.", "ncbitaxdump", "axid", "axon", "rank", "merged", "LoadSelectedTaxonomy"} {
		if strings.Contains(diag, mark) {
			return true
		}
	}
	return false
}

// crashLine extracts the line that says why the command died, as a short slug.
func crashLine(stderr string) string {
	line := ""
	for _, l := range strings.Split(stderr, "\n") {
		if strings.HasPrefix(l, "panic:") || strings.HasPrefix(l, "fatal error:") || strings.Contains(l, "level=fatal") || strings.HasPrefix(l, "runtime:") || strings.Contains(l, "SIG") {
			line = l
			break
		}
	}
	if line == "" {
		line = "no diagnostic"
	}
	var b strings.Builder
	for _, r := range line {
		switch {
		case r >= 'a' && r <= 'z', r >= 'A' && r <= 'Z', r >= '0' && r <= '9':
			b.WriteRune(r)
		default:
			b.WriteByte('-')
		}
		if b.Len() >= 90 {
			break
		}
	}
	return b.String()
}

func tailStr(s string, n int) string {
	if len(s) > n {
		return s[len(s)-n:]
	}
	return s
}

type e2eCase struct {
	c    *core.Ctx
	t    *ref.TaxTree
	dir  string
	recs []*rec
	byID map[string]*rec
}

// run executes one command; ok=false when the run cannot be compared (already reported).
func (e *e2eCase) run(cmd, optClass string, args ...string) ([]outRec, bool) {
	c := e.c
	c.Risk(cmd + ":" + optClass)
	var res runResult
	detail := func() map[string]any {
		d := describe(e.t)
		d["command"] = cmd + " " + strings.Join(args, " ")
		d["exit"] = res.exit
		d["stderr_tail"] = tailStr(res.stderr, 1500)
		d["dump_dir_files"] = "nodes.dmp names.dmp merged.dmp as rendered by gen.TaxDump for this case (replay regenerates them)"
		return d
	}
	for attempt := 0; ; attempt++ {
		res = runCmd(e.dir, filepath.Join(c.BinDir, cmd), args...)
		c.Count("evaluations", 1)
		c.Count("command_runs", 1)
		if res.timedOut {
			c.Inconclusive(cmd + " did not finish within the watchdog")
			return nil, false
		}
		if res.exit == 0 && !strings.Contains(res.stderr, "level=fatal") && !strings.Contains(res.stderr, "panic:") {
			break
		}
		if aboutTaxonomy(res.stderr) {
			c.Violate(cmd+":abnormal-exit:"+optClass, fmt.Sprintf("%s stops abnormally (exit %d) on a well-formed dump and in-scope records", cmd, res.exit), detail())
			return nil, false
		}
		// The command died outside the taxonomy code (reader, writer, runtime): that says
		// nothing about C14. Run it again to get an observation; give up as inconclusive.
		msg := crashLine(res.stderr)
		c.Count("crash_outside_taxonomy_code:"+msg, 1)
		if keep := os.Getenv("VH_C14_KEEP"); keep != "" {
			os.WriteFile(filepath.Join(keep, fmt.Sprintf("crash-%d-%d.stderr", c.Idx, attempt)), []byte(res.stderr), 0o644)
		}
		if attempt == 2 {
			c.Inconclusive(fmt.Sprintf("%s %s died three times outside the taxonomy code (exit %d: %s)", cmd, optClass, res.exit, msg))
			return nil, false
		}
	}
	out, err := parseFasta(res.stdout)
	if err != nil {
		d := detail()
		d["parse_error"] = err.Error()
		d["stdout_head"] = head(res.stdout)
		c.Violate(cmd+":output-unreadable:"+optClass, cmd+" output is not FASTA with JSON title lines", d)
		return nil, false
	}
	seen := map[string]bool{}
	for _, o := range out {
		if seen[o.id] || e.byID[o.id] == nil {
			d := detail()
			d["record"] = o.id
			c.Violate(cmd+":record-duplicated-or-invented:"+optClass, "an output record is duplicated or was not in the input", d)
			return nil, false
		}
		seen[o.id] = true
	}
	return out, true
}

func (e *e2eCase) witness(cmd string, args []string, r *rec, extra map[string]any) map[string]any {
	nodes := []int{}
	if r != nil && r.node >= 0 {
		nodes = append(nodes, r.node)
	}
	if r != nil {
		nodes = append(nodes, r.mnodes...)
	}
	d := describe(e.t, nodes...)
	d["command"] = cmd + " " + strings.Join(args, " ")
	if r != nil {
		d["record"] = r.header()
	}
	for k, v := range extra {
		d[k] = v
	}
	return d
}

// grep runs obigrep with taxonomy filters and compares the selected ids with the tree.
func (e *e2eCase) grep(restrict, ignore []int, ranks []string) {
	c, t := e.c, e.t
	args := []string{"-t", e.dir}
	var parts []string
	add := func(name string, k int) {
		if k == 1 {
			parts = append(parts, name)
		} else if k > 1 {
			parts = append(parts, name+"*n")
		}
	}
	for _, x := range restrict {
		args = append(args, "-r", strconv.Itoa(x))
	}
	for _, x := range ignore {
		args = append(args, "-i", strconv.Itoa(x))
	}
	for _, x := range ranks {
		args = append(args, "--require-rank", x)
	}
	add("r", len(restrict))
	add("i", len(ignore))
	add("require-rank", len(ranks))
	optClass := strings.Join(parts, "+")
	for _, x := range append(append([]int{}, restrict...), ignore...) {
		if _, via, _ := t.Resolve(x); via {
			optClass += "(merged-id)"
			break
		}
	}
	args = append(args, "in.fasta")
	out, ok := e.run("obigrep", optClass, args...)
	if !ok {
		return
	}
	got := map[string]bool{}
	for _, o := range out {
		got[o.id] = true
	}
	inClade := func(r *rec, taxid int) bool {
		a, _, _ := t.Resolve(taxid)
		return r.node >= 0 && t.IsAncestorOrSelf(a, r.node)
	}
	for _, r := range e.recs {
		want := true
		if len(restrict) > 0 {
			any := false
			for _, x := range restrict {
				any = any || inClade(r, x)
			}
			want = want && any
		}
		for _, x := range ignore {
			want = want && !inClade(r, x)
		}
		for _, rk := range ranks {
			want = want && r.node >= 0 && len(t.AtRank(r.node, rk)) > 0
		}
		c.Key("grep/%s/%s/%v", optClass, r.class, want)
		c.Count("records_decided", 1)
		if got[r.id] != want {
			kind := "missed"
			if got[r.id] {
				kind = "wrongly-selected"
			}
			c.Violate("grep:"+optClass+":"+kind+":"+r.class,
				fmt.Sprintf("obigrep %s: record of taxid %d is %s", optClass, r.taxid, kind),
				e.witness("obigrep", args, r, map[string]any{"selected": got[r.id], "tree_says": want}))
			return
		}
	}
}

// annotateRank runs obiannotate --with-taxon-at-rank.
func (e *e2eCase) annotateRank(ranks []string) {
	c, t := e.c, e.t
	args := []string{"-t", e.dir}
	for _, rk := range ranks {
		args = append(args, "--with-taxon-at-rank", rk)
	}
	args = append(args, "in.fasta")
	optClass := "with-taxon-at-rank"
	if len(ranks) > 1 {
		optClass += "*n"
	}
	out, ok := e.run("obiannotate", optClass, args...)
	if !ok {
		return
	}
	if len(out) != len(e.recs) {
		c.Violate("annotate:"+optClass+":records-lost", "obiannotate does not output every input record", e.witness("obiannotate", args, nil, map[string]any{"in": len(e.recs), "out": len(out)}))
		return
	}
	for _, o := range out {
		r := e.byID[o.id]
		for _, rk := range ranks {
			var want []int
			if r.node >= 0 {
				want = t.AtRank(r.node, rk)
			}
			c.Key("annot-rank/%s/%d", r.class, min(2, len(want)))
			c.Count("records_decided", 1)
			v, has := o.annot[rk+"_taxid"]
			if !has {
				v, has = o.annot[rk]
			}
			at, isInt := asInt(v)
			name, hasName := o.annot[rk+"_name"].(string)
			cause := ""
			switch {
			case len(want) == 0:
				if has && isInt {
					if _, _, known := t.Resolve(at); known {
						cause = "spurious"
					}
				}
			case !has || !isInt:
				cause = "missing"
			default:
				x, via, known := t.Resolve(at)
				in := false
				for _, w := range want {
					if known && !via && w == x {
						in = true
					}
				}
				if !in {
					cause = "wrong-taxon"
				} else if hasName && name != t.Name[x] {
					cause = "name"
				}
			}
			if cause != "" {
				var w []int
				for _, x := range want {
					w = append(w, t.Taxid[x])
				}
				c.Violate("annotate:with-taxon-at-rank:"+cause+":"+r.class,
					fmt.Sprintf("obiannotate --with-taxon-at-rank %s on a record of taxid %d writes %v", rk, r.taxid, v),
					e.witness("obiannotate", args, r, map[string]any{"rank": rk, "output_annotations": o.annot, "ancestors_or_self_with_that_rank": w}))
				return
			}
		}
		if tx, ok := asInt(o.annot["taxid"]); !ok || tx != r.taxid {
			c.Violate("annotate:with-taxon-at-rank:taxid-changed", "obiannotate --with-taxon-at-rank changes the taxid of a record",
				e.witness("obiannotate", args, r, map[string]any{"output_annotations": o.annot}))
			return
		}
	}
}

// annotateLCA runs obiannotate --add-lca-in on the records that carry only known ids.
func (e *e2eCase) annotateLCA(explicitZero bool) {
	c, t := e.c, e.t
	args := []string{"-t", e.dir, "--add-lca-in", "lca"}
	if explicitZero {
		args = append(args, "--lca-error", "0")
	}
	args = append(args, "known.fasta")
	out, ok := e.run("obiannotate", "add-lca-in", args...)
	if !ok {
		return
	}
	n := 0
	for _, r := range e.recs {
		if r.node >= 0 {
			n++
		}
	}
	if len(out) != n {
		c.Violate("annotate:add-lca-in:records-lost", "obiannotate does not output every input record", e.witness("obiannotate", args, nil, map[string]any{"in": n, "out": len(out)}))
		return
	}
	for _, o := range out {
		r := e.byID[o.id]
		nodes := r.mnodes
		cl := "taxid-only:" + r.class
		if r.merged == nil {
			nodes = []int{r.node}
		}
		want := t.LCASet(nodes)
		if r.merged != nil {
			distinct := map[int]bool{}
			for _, x := range nodes {
				distinct[x] = true
			}
			switch {
			case len(distinct) == 1:
				cl = "single"
			case distinct[want] && want == t.Root:
				cl = "nested-root-member"
			case distinct[want]:
				cl = "nested"
			case want == t.Root:
				cl = "diverging-at-root"
			default:
				cl = "diverging"
			}
			if r.malias {
				cl += "+alias"
			}
		}
		c.Key("annot-lca/%s", cl)
		c.Count("records_decided", 1)
		lt, okT := asInt(o.annot["lca_taxid"])
		if !okT {
			lt, okT = asInt(o.annot["lca"])
		}
		ln, hasName := o.annot["lca_name"].(string)
		le, hasErr := o.annot["lca_error"].(json.Number)
		lef, _ := le.Float64()
		cause := ""
		switch {
		case !okT || lt != t.Taxid[want]:
			cause = "taxid"
		case hasName && ln != t.Name[want]:
			cause = "name"
		case hasErr && lef != 0:
			cause = "error-not-zero"
		}
		if cause != "" {
			c.Violate("annotate:add-lca-in:"+cause+":"+cl,
				fmt.Sprintf("obiannotate --add-lca-in (error tolerance 0): lca_taxid=%v, the deepest common ancestor of the merged taxids is %d", o.annot["lca_taxid"], t.Taxid[want]),
				e.witness("obiannotate", args, r, map[string]any{"output_annotations": o.annot, "want_lca_taxid": t.Taxid[want]}))
			return
		}
	}
}

// annotatePath runs obiannotate --taxonomic-path --taxonomic-rank on the records with known ids.
func (e *e2eCase) annotatePath() {
	c, t := e.c, e.t
	args := []string{"-t", e.dir, "--taxonomic-path", "--taxonomic-rank", "known.fasta"}
	out, ok := e.run("obiannotate", "taxonomic-path", args...)
	if !ok {
		return
	}
	for _, o := range out {
		r := e.byID[o.id]
		path := t.Path(r.node) // self .. root
		c.Key("annot-path/%s/%d", r.class, bucket(len(path)))
		c.Count("records_decided", 1)
		s, _ := o.annot["taxonomic_path"].(string)
		want := make([]int, len(path))
		for i, y := range path {
			want[i] = t.Taxid[y]
		}
		if !lineageMatches(s, want) {
			c.Violate("annotate:taxonomic-path:"+r.class, fmt.Sprintf("obiannotate --taxonomic-path on a record of taxid %d is not its lineage", r.taxid),
				e.witness("obiannotate", args, r, map[string]any{"taxonomic_path": s}))
			return
		}
		if rk, _ := o.annot["taxonomic_rank"].(string); rk != t.Rank[r.node] {
			c.Violate("annotate:taxonomic-rank:"+r.class, fmt.Sprintf("obiannotate --taxonomic-rank on a record of taxid %d writes %q", r.taxid, rk),
				e.witness("obiannotate", args, r, map[string]any{"output_annotations": o.annot}))
			return
		}
	}
}

func runE2E(c *core.Ctx) {
	r := c.Rng
	var n int
	switch k := c.Idx % 6; {
	case k == 0:
		n = 1 + r.Intn(6)
	case k == 1:
		n = 200 + r.Intn(c.Pick(600, 3000))
	default:
		n = 3 + r.Intn(60)
	}
	shape := gen.TaxShapes[r.Intn(len(gen.TaxShapes))]
	parent, root := gen.RandomParents(r, n, shape)
	t := gen.DressTaxTree(r, parent, root, r.Intn(3), r.Intn(2), 2+r.Intn(8), 1+r.Intn(2+n/5))
	dir := filepath.Join(c.Dir, fmt.Sprintf("e2e-%d", c.Idx))
	nodes, names, merged := gen.TaxDump(r, t, r.Intn(4) != 0, r.Intn(2) == 0)
	if err := gen.WriteTaxDump(dir, nodes, names, merged); err != nil {
		c.Inconclusive("cannot write the dump: " + err.Error())
		return
	}
	defer func() {
		if keep := os.Getenv("VH_C14_KEEP"); keep != "" { // debugging aid: keep the files of the case
			os.Rename(dir, filepath.Join(keep, filepath.Base(dir)))
		}
		os.RemoveAll(dir)
	}()
	e := &e2eCase{c: c, t: t, dir: dir, byID: map[string]*rec{}}
	unknown := gen.UnknownTaxids(r, t, 3)

	// focus taxa: the filters are more telling when many records are near them
	focus := r.Intn(n)
	near := func() int {
		switch r.Intn(4) {
		case 0: // on the lineage of focus
			p := t.Path(focus)
			return p[r.Intn(len(p))]
		case 1: // below the parent of focus
			for tries := 0; tries < 10; tries++ {
				y := r.Intn(n)
				if t.IsAncestorOrSelf(t.Parent[focus], y) {
					return y
				}
			}
		case 2: // below focus
			for tries := 0; tries < 10; tries++ {
				y := r.Intn(n)
				if t.IsAncestorOrSelf(focus, y) {
					return y
				}
			}
		}
		return r.Intn(n)
	}
	pickAlias := func() (int, int, bool) {
		if len(t.Alias) == 0 {
			return 0, 0, false
		}
		a := t.Alias[r.Intn(len(t.Alias))]
		return a[0], a[1], true
	}
	m := 12 + r.Intn(c.Pick(30, 120))
	for i := 0; i < m; i++ {
		rc := &rec{id: fmt.Sprintf("rec%04d", i)}
		switch k := r.Intn(10); {
		case k < 2:
			if old, x, ok := pickAlias(); ok {
				rc.taxid, rc.node, rc.class = old, x, "alias"
				break
			}
			fallthrough
		case k == 2:
			rc.taxid, rc.node, rc.class = unknown[r.Intn(len(unknown))], -1, "unknown-taxid"
		default:
			x := near()
			rc.taxid, rc.node, rc.class = t.Taxid[x], x, "node"
		}
		if rc.node >= 0 && r.Intn(2) == 0 { // a dereplicated record: several taxids merged
			rc.merged = map[string]int{}
			size := 1 + r.Intn(5)
			for j := 0; j < size; j++ {
				x := near()
				id := t.Taxid[x]
				if r.Intn(5) == 0 {
					if old, ax, ok := pickAlias(); ok {
						id, x = old, ax
						rc.malias = true
					}
				}
				key := strconv.Itoa(id)
				if _, dup := rc.merged[key]; dup {
					continue
				}
				rc.merged[key] = 1 + r.Intn(4)
				rc.mnodes = append(rc.mnodes, x)
			}
		}
		e.recs = append(e.recs, rc)
		e.byID[rc.id] = rc
	}
	var known []*rec
	for _, rc := range e.recs {
		if rc.node >= 0 {
			known = append(known, rc)
		}
	}
	if err := writeFasta(filepath.Join(dir, "in.fasta"), e.recs, r); err != nil {
		c.Inconclusive("cannot write the input: " + err.Error())
		return
	}
	if err := writeFasta(filepath.Join(dir, "known.fasta"), known, r); err != nil {
		c.Inconclusive("cannot write the input: " + err.Error())
		return
	}
	if c.Idx < 2 {
		var hs []string
		for _, rc := range e.recs[:min(6, len(e.recs))] {
			hs = append(hs, rc.header())
		}
		c.Sample(map[string]any{"shape": shape, "n": n, "nodes.dmp": head(nodes), "merged.dmp": head(merged), "records": hs})
	}

	pickTaxon := func() int { // a filter taxon: near the focus, sometimes given by a merged id
		if r.Intn(5) == 0 {
			if old, _, ok := pickAlias(); ok {
				return old
			}
		}
		if r.Intn(6) == 0 {
			return t.Taxid[t.Root]
		}
		return t.Taxid[near()]
	}
	pickN := func(k int) []int {
		var l []int
		for i := 0; i < k; i++ {
			l = append(l, pickTaxon())
		}
		return l
	}
	ranks := t.Ranks()
	sort.Strings(ranks)
	pickRanks := func(k int, noSpace bool) []string {
		var l []string
		for tries := 0; tries < 20 && len(l) < k; tries++ {
			rk := ranks[r.Intn(len(ranks))]
			if noSpace && strings.Contains(rk, " ") {
				continue
			}
			dup := false
			for _, x := range l {
				dup = dup || x == rk
			}
			if !dup {
				l = append(l, rk)
			}
		}
		return l
	}

	e.grep(pickN(1+r.Intn(2)), nil, nil)
	e.grep(nil, pickN(1+r.Intn(2)), nil)
	if rk := pickRanks(1+r.Intn(2), false); len(rk) > 0 {
		e.grep(nil, nil, rk)
	}
	e.grep(pickN(1+r.Intn(3)), pickN(1+r.Intn(2)), pickRanks(r.Intn(2), false))
	if c.Violations() > 0 {
		return
	}
	if rk := pickRanks(1+r.Intn(2), true); len(rk) > 0 {
		e.annotateRank(rk)
	}
	if len(known) > 0 {
		e.annotateLCA(r.Intn(2) == 0)
		e.annotatePath()
	}
	c.Key("e2e-shape/%s/%d", shape, logBucket(n))
}
