// Package c14: taxonomy queries (LCA, lineage, clade, rank, aliases) and the
// sequence filters / annotations built on them agree with the tree.
//
// Oracle: a parent-array tree (verifh/ref.TaxTree) queried by walking parent
// links. The real taxonomy is built from the same tree through the obitax API
// (sub-check api), through a synthetic NCBI dump loaded by LoadNCBITaxDump
// (sub-check dump) and through the obigrep / obiannotate commands (sub-check e2e).
package c14

import (
	"fmt"
	"path/filepath"

	"git.metabarcoding.org/obitools/obitools4/obitools4/pkg/obiformats/ncbitaxdump"
	"git.metabarcoding.org/obitools/obitools4/obitools4/pkg/obitax"
	log "github.com/sirupsen/logrus"

	"verifh/core"
	"verifh/gen"
	"verifh/ref"
)

// the first nExShards cases of `api` and `dump` enumerate all small trees, the others are random trees
const nExShards = 128

// quiet keeps the informational chatter of the library out of the child's stderr (fatal and panic stay).
func quiet() { log.SetLevel(log.WarnLevel) }

// buildAPI builds the real taxonomy of tree t through the obitax API.
func buildAPI(c *core.Ctx, t *ref.TaxTree) *obitax.Taxonomy {
	r := c.Rng
	n := t.N()
	tax := obitax.NewTaxonomy()
	fail := func(step string, err error) *obitax.Taxonomy {
		d := describe(t)
		d["error"] = fmt.Sprint(err)
		c.Violate("build:"+step, "the obitax API refuses a well-formed taxonomy at "+step, d)
		return nil
	}
	// one build in three: a taxon that has children is first entered under another parent (the root),
	// the taxonomy is indexed, then the taxon is redefined with its true parent and the taxonomy is
	// indexed again (what a user does to correct a taxonomy loaded from a dump)
	redo, root := -1, -1
	for i := 0; i < n; i++ {
		if t.Parent[i] == i {
			root = i
		}
	}
	if r.Intn(3) == 0 && root >= 0 {
		var cands []int
		hasChild := make([]bool, n)
		for i := 0; i < n; i++ {
			if t.Parent[i] != i {
				hasChild[t.Parent[i]] = true
			}
		}
		for i := 0; i < n; i++ {
			if i != root && hasChild[i] && t.Parent[i] != root {
				cands = append(cands, i)
			}
		}
		if len(cands) > 0 {
			redo = cands[r.Intn(len(cands))]
		}
	}
	for _, i := range r.Perm(n) { // any insertion order: children may come before their parent
		parent := t.Taxid[t.Parent[i]]
		if i == redo {
			parent = t.Taxid[root]
		}
		if _, err := tax.AddNewTaxa(t.Taxid[i], parent, t.Rank[i], false, true); err != nil {
			return fail("AddNewTaxa", err)
		}
	}
	if redo >= 0 {
		if err := tax.ReindexParent(); err != nil {
			return fail("ReindexParent", err)
		}
		if _, err := tax.AddNewTaxa(t.Taxid[redo], t.Taxid[t.Parent[redo]], t.Rank[redo], true, true); err != nil {
			return fail("AddNewTaxa(redefine)", err)
		}
		c.Count("taxonomies_with_a_redefined_taxon", 1)
	}
	if r.Intn(3) == 0 { // adding a taxon again with replace=true (as the dump loader does) is allowed
		i := r.Intn(n)
		if _, err := tax.AddNewTaxa(t.Taxid[i], t.Taxid[t.Parent[i]], t.Rank[i], true, true); err != nil {
			return fail("AddNewTaxa(replace)", err)
		}
	}
	if err := tax.ReindexParent(); err != nil {
		return fail("ReindexParent", err)
	}
	aliasFirst := r.Intn(2) == 0
	addAlias := func() bool {
		for _, a := range t.Alias {
			if err := tax.AddNewAlias(t.Taxid[a[1]], a[0]); err != nil {
				fail("AddNewAlias", err)
				return false
			}
		}
		return true
	}
	if aliasFirst && !addAlias() {
		return nil
	}
	sci, syn := "scientific name", "synonym"
	for _, i := range r.Perm(n) {
		name := t.Name[i]
		if r.Intn(3) == 0 {
			other := fmt.Sprintf("old name of %d", t.Taxid[i])
			if err := tax.AddNewName(t.Taxid[i], &other, &syn); err != nil {
				return fail("AddNewName", err)
			}
		}
		if err := tax.AddNewName(t.Taxid[i], &name, &sci); err != nil {
			return fail("AddNewName", err)
		}
		if r.Intn(3) == 0 {
			other := fmt.Sprintf("other name of %d", t.Taxid[i])
			if err := tax.AddNewName(t.Taxid[i], &other, &syn); err != nil {
				return fail("AddNewName", err)
			}
		}
	}
	if !aliasFirst && !addAlias() {
		return nil
	}
	if r.Intn(3) == 0 { // rebuilding the parent links again changes nothing
		if err := tax.ReindexParent(); err != nil {
			return fail("ReindexParent", err)
		}
	}
	return tax
}

// buildDump writes t as an NCBI dump into dir and loads it with the real loader.
func buildDump(c *core.Ctx, t *ref.TaxTree, dir string) *obitax.Taxonomy {
	r := c.Rng
	shuffle := r.Intn(4) != 0
	synonyms := r.Intn(2) == 0
	onlysn := r.Intn(2) == 0
	nodes, names, merged := gen.TaxDump(r, t, shuffle, synonyms)
	if err := gen.WriteTaxDump(dir, nodes, names, merged); err != nil {
		c.Inconclusive("cannot write the dump: " + err.Error())
		return nil
	}
	c.Risk("LoadNCBITaxDump")
	var tax *obitax.Taxonomy
	var err error
	func() {
		defer func() {
			if rec := recover(); rec != nil {
				err = fmt.Errorf("panic: %v", rec)
			}
		}()
		tax, err = ncbitaxdump.LoadNCBITaxDump(dir, onlysn)
	}()
	if err != nil || tax == nil {
		d := describe(t)
		d["error"], d["nodes.dmp"], d["names.dmp"], d["merged.dmp"] = fmt.Sprint(err), head(nodes), head(names), head(merged)
		c.Violate("build:LoadNCBITaxDump", "LoadNCBITaxDump fails on a well-formed dump", d)
		return nil
	}
	if c.Idx == 0 || c.Idx == nExShards {
		c.Sample(map[string]any{"n": t.N(), "nodes.dmp": head(nodes), "names.dmp": head(names), "merged.dmp": head(merged), "only_scientific_names": onlysn})
	}
	return tax
}

func head(s string) string {
	if len(s) > 600 {
		return s[:600] + "…"
	}
	return s
}

// exhaustive runs shard c.Idx of the enumeration of all labelled rooted trees.
func exhaustive(c *core.Ctx, maxFull, maxLight int, viaDump bool) {
	g := 0
	trees := 0
	for n := 1; n <= max(maxFull, maxLight); n++ {
		cnt := gen.CountRootedTrees(n)
		for k := 0; k < cnt; k++ {
			g++
			if g%nExShards != c.Idx {
				continue
			}
			parent, root := gen.NthRootedTree(n, k)
			full := n <= maxFull
			nAlias := 0
			if full {
				nAlias = c.Rng.Intn(3)
			}
			t := gen.DressTaxTree(c.Rng, parent, root, 0, 0, 2+c.Rng.Intn(3), nAlias)
			var tax *obitax.Taxonomy
			if viaDump {
				tax = buildDump(c, t, filepath.Join(c.Dir, "dump"))
			} else {
				tax = buildAPI(c, t)
			}
			if tax == nil {
				if c.Violations() > 0 {
					return
				}
				continue
			}
			cfg := bcfg{allPairs: true, allTriples: true, allRanks: true, nSets: 6, nSeq: 2, light: !full}
			battery(c, tax, t, append(gen.UnknownTaxids(c.Rng, t, 2), 0), cfg)
			trees++
			if n >= 2 {
				c.Key("tree/%d/%d", n, k)
			}
			if c.Violations() >= 3 {
				return
			}
		}
	}
	c.Count("exhaustive_trees", trees)
	if c.Idx == 0 {
		c.Sample(map[string]any{"enumeration": fmt.Sprintf("all labelled rooted trees with <= %d nodes: all ordered pairs and triples, all (node, rank) queries, aliases, unknown ids, sequence-level probes; trees with %d..%d nodes: all ordered pairs (LCA, clade) and all paths", maxFull, maxFull+1, maxLight)})
	}
}

// randomTree draws the tree of a random case.
func randomTree(c *core.Ctx, maxN int) (*ref.TaxTree, string) {
	r := c.Rng
	var n int
	switch k := c.Idx % 8; {
	case k == 0:
		n = maxN/5 + r.Intn(maxN-maxN/5+1)
	case k <= 2:
		n = 30 + r.Intn(600)
	case k == 3:
		n = 1 + r.Intn(4)
	default:
		n = 2 + r.Intn(60)
	}
	shape := gen.TaxShapes[r.Intn(len(gen.TaxShapes))]
	parent, root := gen.RandomParents(r, n, shape)
	t := gen.DressTaxTree(r, parent, root, r.Intn(3), r.Intn(3), 1+r.Intn(11), r.Intn(2+n/6))
	return t, shape
}

func randomCfg(c *core.Ctx) bcfg {
	return bcfg{nPairs: c.Pick(400, 1200), nTriples: c.Pick(100, 400), nSets: c.Pick(40, 120), nRankNodes: c.Pick(30, 80), nSeq: c.Pick(10, 25)}
}

func logBucket(n int) int {
	b := 0
	for n > 1 {
		n /= 2
		b++
	}
	return b
}

func runAPI(c *core.Ctx) {
	quiet()
	if c.Idx < nExShards {
		exhaustive(c, c.Pick(6, 7), c.Pick(7, 8), false)
		return
	}
	t, shape := randomTree(c, 5000)
	tax := buildAPI(c, t)
	if tax == nil {
		return
	}
	battery(c, tax, t, append(gen.UnknownTaxids(c.Rng, t, 4), 0, -1), randomCfg(c))
	c.Key("shape/%s/%d", shape, logBucket(t.N()))
	c.Count("random_trees", 1)
	if c.Idx == nExShards {
		c.Sample(map[string]any{"shape": shape, "n": t.N(), "height": t.Height(), "max_degree": t.MaxDegree(), "aliases": len(t.Alias), "ranks": t.Ranks()})
	}
}

func runDump(c *core.Ctx) {
	quiet()
	if c.Idx < nExShards {
		exhaustive(c, c.Pick(5, 6), 0, true)
		return
	}
	t, shape := randomTree(c, 5000)
	tax := buildDump(c, t, filepath.Join(c.Dir, fmt.Sprintf("dump-%d", c.Idx)))
	if tax == nil {
		return
	}
	battery(c, tax, t, append(gen.UnknownTaxids(c.Rng, t, 4), 0, -1), randomCfg(c))
	c.Key("shape/%s/%d", shape, logBucket(t.N()))
	c.Count("random_trees", 1)
}

func init() {
	core.Register(&core.Property{
		ID:    "C14",
		Level: "exploration",
		Rule: "A reference tree (parent array; LCA by marking ancestors, lineage / clade / taxon-at-rank by walking parent links) is turned into the real obitax.Taxonomy (a) through NewTaxonomy/AddNewTaxa/ReindexParent/AddNewName/AddNewAlias in random insertion order, (b) through synthetic nodes.dmp/names.dmp/merged.dmp loaded by LoadNCBITaxDump, (c) through obigrep -t DIR -r/-i/--require-rank and obiannotate -t DIR --with-taxon-at-rank/--add-lca-in/--taxonomic-path/--taxonomic-rank on FASTA records carrying node ids, merged ids and unknown ids. " +
			"Exhaustive part: every labelled rooted tree (Pruefer code x root, n^(n-1) trees) with <= 6 (quick) / <= 7 (thorough) nodes through the API and <= 5 / <= 6 nodes through dump files x all ordered pairs (LCA, IsSubCladeOf), all ordered triples (associativity, LCA of the set), all (node, rank label) queries incl. absent labels, all paths, aliases, unknown ids, taxon sets, sequence-level predicates and annotators; one more size (7 / 8 nodes, API only) with all ordered pairs and all paths only. Random part: 9 shapes (recursive, chain, star, caterpillar, binary, broom, preferential, two-chains, deep-bushy) up to 5000 nodes, random taxids, ranks with repeats along a lineage, sampled and structured pairs (with root, with itself, with an ancestor, with the parent). " +
			"Added later: concurrent sub-check (one taxonomy queried by 2-16 goroutines), slot values that are not taxa, a taxon first entered under the root, indexed, then redefined under its true parent and indexed again. nodes.dmp with a free-text comments column (one line beyond 64 KiB), the auto-correcting IsAValidTaxon predicate applied to several sequences of the same taxid. " +
			"distinct_nontrivial = distinct enumerated trees with >= 2 nodes + distinct (path relation of the pair, depth class a, depth class b, depth class of the LCA) + distinct rank-query classes, taxon-set classes, (shape, size class) of random trees, and (command option set, record id class, decision) classes of the end-to-end runs",
		Assume: []string{
			"a taxonomy is well formed: one root that is its own parent, every parent id defined, distinct taxids, merged ids distinct from taxon ids and pointing to existing taxa, every taxon has a scientific name",
			"a record whose taxid is neither a taxon nor a merged id belongs to no clade and has no rank (DESIGN A.2); path / LCA annotation of such a record is out of scope",
			"taxon at rank: any ancestor-or-self with that rank is accepted by the e2e oracle when the label repeats along the lineage; the in-process oracle additionally expects the nearest one as documented by TaxonAtRank; when no ancestor-or-self has the rank, any value that names no taxon (absent, -1, NA, 0) is accepted",
			"annotation layout: the taxid written by --with-taxon-at-rank R is read from R_taxid (or R), by --add-lca-in lca from lca_taxid (or lca); companion attributes (R_name, lca_name, lca_error) are checked only when present; taxonomic_path is a '|'-separated list of items starting with 'taxid@', accepted in either direction",
			"commands dying outside the taxonomy code (reader, writer, Go runtime) are re-run, never counted as C14 violations (counter crash_outside_taxonomy_code:*), and make the case inconclusive after three deaths",
		},
		Subs: []core.Sub{
			{Name: "api", N: core.Const(nExShards+192, nExShards+2880), Run: runAPI, Shard: 2, TimeoutS: 3000},
			{Name: "dump", N: core.Const(nExShards+96, nExShards+1728), Run: runDump, Shard: 2, TimeoutS: 3000},
			{Name: "e2e", N: core.Const(64, 1200), Run: runE2E, Shard: 4, TimeoutS: 3000},
			{Name: "concurrent", N: core.Const(16, 128), Run: runConcurrent, Race: true, NRace: core.Const(4, 16), TimeoutS: 600},
		},
		Cmds:          []string{"obigrep", "obiannotate"},
		RaceFiles:     []string{"pkg/obitax/"},
		MinNontrivial: 400,
	})
}
