package main

import _ "verifh/c07"
