package main

import _ "verifh/c06"
