package c06

// Offline checker: observed output records against the reference classes of
// ref.C06Derep. Outputs are compared as maps key -> (count, merged maps); ids,
// other attributes of the representative and record order are free.

import (
	"fmt"
	"math"
	"sort"
	"strconv"
	"strings"

	"verifh/ref"
)

type diff struct {
	Cause  string
	What   string
	Detail map[string]any
}

// printObs gives the printed form of an observed attribute value.
func printObs(v any) string {
	switch t := v.(type) {
	case string:
		return t
	case float64:
		if t == math.Floor(t) && math.Abs(t) < 1e15 {
			return strconv.FormatInt(int64(t), 10)
		}
		if t == math.Floor(t) {
			return strconv.FormatFloat(t, 'f', -1, 64)
		}
		return strconv.FormatFloat(t, 'g', -1, 64)
	case bool:
		return strconv.FormatBool(t)
	}
	return fmt.Sprint(v)
}

func obsCats(r *outRec, o ref.C06Opts) []string {
	vals := make([]string, len(o.Cats))
	for i, k := range o.Cats {
		if v, ok := r.Ann[k]; ok {
			vals[i] = printObs(v)
		} else {
			vals[i] = o.NA
		}
	}
	return vals
}

// obsCount returns the count of an observed record (absent = 1); ok=false when it is not a positive integer.
func obsCount(r *outRec) (int, bool) {
	v, present := r.Ann["count"]
	if !present {
		return 1, true
	}
	f, isNum := v.(float64)
	if !isNum || f != math.Floor(f) || f < 1 {
		return 0, false
	}
	return int(f), true
}

// obsMerged decodes merged_<k>.
func obsMerged(r *outRec, k string) (m map[string]int, present, ok bool) {
	v, present := r.Ann["merged_"+k]
	if !present {
		return nil, false, false
	}
	mm, isMap := v.(map[string]any)
	if !isMap {
		return nil, true, false
	}
	m = map[string]int{}
	for val, w := range mm {
		f, isNum := w.(float64)
		if !isNum || f != math.Floor(f) {
			return nil, true, false
		}
		m[val] = int(f)
	}
	return m, true, true
}

func sameIntMap(a, b map[string]int) bool {
	if len(a) != len(b) {
		return false
	}
	for k, v := range a {
		if w, ok := b[k]; !ok || w != v {
			return false
		}
	}
	return true
}

func showKey(seq string, cats []string) string {
	s := seq
	if len(s) > 24 {
		s = s[:24] + fmt.Sprintf("...(%d nt)", len(seq))
	}
	return s + " | " + strings.Join(cats, ",")
}

func mergedFeature(cl *ref.C06Class, k string) string {
	switch {
	case cl.Premerged[k]:
		return "premerged"
	case cl.Missing[k]:
		return "na"
	}
	return "plain"
}

// compare returns the disagreements between the observed records and the reference
// (all = every class, kept = the classes that must be output), at most maxDiffs of them,
// and the observed total count.
func compare(all, kept map[string]*ref.C06Class, outs []outRec, o ref.C06Opts, maxDiffs int) (diffs []diff, totalObs int) {
	add := func(cause, what string, detail map[string]any) {
		if len(diffs) < maxDiffs {
			diffs = append(diffs, diff{cause, what, detail})
		}
	}
	obsByKey := map[string][]int{}
	obsBySeq := map[string][]string{} // distinct observed keys per sequence
	cnt := make([]int, len(outs))
	for i := range outs {
		r := &outs[i]
		c, ok := obsCount(r)
		if !ok {
			add("count:malformed", "an output record carries a count that is not a positive integer",
				map[string]any{"id": r.ID, "count": r.Ann["count"]})
			c = 0
		}
		cnt[i] = c
		totalObs += c
		seq := strings.ToLower(r.Seq)
		key := ref.C06Key(seq, obsCats(r, o))
		if len(obsByKey[key]) == 0 {
			obsBySeq[seq] = append(obsBySeq[seq], key)
		}
		obsByKey[key] = append(obsByKey[key], i)
	}
	expBySeq := map[string][]string{}
	for _, key := range ref.C06SortedKeys(kept) {
		expBySeq[kept[key].Seq] = append(expBySeq[kept[key].Seq], key)
	}
	seqSet := map[string]bool{}
	for s := range obsBySeq {
		seqSet[s] = true
	}
	for s := range expBySeq {
		seqSet[s] = true
	}
	var seqs []string
	for s := range seqSet {
		seqs = append(seqs, s)
	}
	sort.Strings(seqs)

	for _, seq := range seqs {
		if len(diffs) >= maxDiffs {
			break
		}
		ek, ok := expBySeq[seq], obsBySeq[seq]
		sort.Strings(ok)
		nObsRecs, sumObs, sumExp := 0, 0, 0
		for _, k := range ok {
			nObsRecs += len(obsByKey[k])
			for _, i := range obsByKey[k] {
				sumObs += cnt[i]
			}
		}
		for _, k := range ek {
			sumExp += kept[k].Count
		}
		sameKeys := len(ek) == len(ok)
		if sameKeys {
			for i := range ek {
				sameKeys = sameKeys && ek[i] == ok[i]
			}
		}
		detail := func() map[string]any {
			d := map[string]any{"sequence": seq, "expected_total": sumExp, "observed_total": sumObs}
			var e, g []string
			for _, k := range ek {
				e = append(e, fmt.Sprintf("%s count=%d", showKey(seq, kept[k].Cats), kept[k].Count))
			}
			for _, k := range ok {
				for _, i := range obsByKey[k] {
					g = append(g, fmt.Sprintf("%s count=%d id=%s", showKey(seq, obsCats(&outs[i], o)), cnt[i], outs[i].ID))
				}
			}
			d["expected_classes"], d["observed_records"] = e, g
			return d
		}
		if (!sameKeys || nObsRecs != len(ok)) && sumObs == sumExp {
			// the reads of this sequence are all there, but grouped differently
			switch {
			case nObsRecs > len(ek):
				add("class-split", "records with the same key are output as several records", detail())
			case nObsRecs < len(ek):
				add("class-merge", "records with different keys are merged into one output record", detail())
			default:
				add("class-spurious", "an output record carries a key that no input record has", detail())
			}
			continue
		}
		if nObsRecs != len(ok) {
			add("class-split", "records with the same key are output as several records", detail())
			continue
		}
		expSet := map[string]bool{}
		for _, k := range ek {
			expSet[k] = true
		}
		for _, k := range ok {
			if expSet[k] {
				continue
			}
			if cl := all[k]; cl != nil && o.NoSingleton && cl.Count == 1 {
				add("singleton-kept", "a class of total count 1 is output although singletons are to be dropped", detail())
			} else {
				add("class-spurious", "an output record carries a key that no input record has", detail())
			}
		}
		for _, k := range ek {
			idx := obsByKey[k]
			cl := kept[k]
			if len(idx) == 0 {
				f := "multi-record"
				if cl.Members == 1 {
					f = "single-record"
				}
				add("class-missing:"+f, "a class of the input has no output record", detail())
				continue
			}
			r := &outs[idx[0]]
			if cnt[idx[0]] != cl.Count {
				f := "excess"
				if cnt[idx[0]] < cl.Count {
					f = "deficit"
				}
				d := detail()
				d["class"], d["expected_count"], d["observed_count"], d["members"] = showKey(seq, cl.Cats), cl.Count, cnt[idx[0]], cl.Members
				add("count:"+f, "the count of an output record is not the sum of the counts of its class", d)
				continue
			}
			for _, mk := range o.Merge {
				m, present, good := obsMerged(r, mk)
				d := map[string]any{"class": showKey(seq, cl.Cats), "key": mk, "expected": cl.Merged[mk], "observed": r.Ann["merged_"+mk], "id": r.ID, "count": cl.Count, "members": cl.Members}
				switch {
				case !present:
					add("merged:absent", "a requested merged_<key> map is absent from an output record", d)
				case !good:
					add("merged:malformed", "merged_<key> is not a map of integer weights", d)
				case !sameIntMap(m, cl.Merged[mk]):
					add("merged:"+mergedFeature(cl, mk), "merged_<key> is not the summed weight per value of the class", d)
				}
			}
		}
	}
	return diffs, totalObs
}
