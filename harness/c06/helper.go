package c06

// Helper process (`vh c06-helper <request file>`): runs ONE in-process execution
// of the on-disk code path (IUniqueSequence / ISequenceChunkOnDisk) outside the
// child, so that a process-fatal end (panic or log.Fatal in a library goroutine)
// costs one execution and is classified by the case, not by the supervisor.

import (
	"bytes"
	"encoding/json"
	"fmt"
	"math"
	"math/rand"
	"os"
	"os/exec"
	"path/filepath"
	"regexp"
	"strings"
	"time"

	"git.metabarcoding.org/obitools/obitools4/obitools4/pkg/obiverif"
	log "github.com/sirupsen/logrus"

	"verifh/core"
	"verifh/gen"
	"verifh/ref"
)

type helperRequest struct {
	Op       string       `json:"op"` // "uniq" | "chunks"
	Recs     []ref.C06Rec `json:"recs"`
	Opts     ref.C06Opts  `json:"opts"`
	Cfg      cfg          `json:"cfg"`
	Tmp      string       `json:"tmp"`
	EventsOn bool         `json:"events_on"`
	Seed     int64        `json:"seed"`
}

type helperReply struct {
	Outs    []outRec   `json:"outs,omitempty"`
	Chunks  [][]outRec `json:"chunks,omitempty"`
	Error   string     `json:"error,omitempty"`
	Timeout bool       `json:"timeout,omitempty"`
}

// normalizeRecs restores the Go types of the attribute values after a JSON round trip.
func normalizeRecs(recs []ref.C06Rec) {
	for i := range recs {
		for k, v := range recs[i].Attrs {
			switch t := v.(type) {
			case float64:
				if math.Abs(t) < 1<<53 {
					recs[i].Attrs[k] = int(t)
				} // else: a value beyond the int64 range stays a float
			case map[string]any:
				m := map[string]int{}
				for a, b := range t {
					if f, ok := b.(float64); ok {
						m[a] = int(f)
					}
				}
				recs[i].Attrs[k] = m
			}
		}
	}
}

func helperMain(args []string) int {
	if len(args) < 1 {
		fmt.Fprintln(os.Stderr, "usage: vh c06-helper <request.json>")
		return 2
	}
	b, err := os.ReadFile(args[0])
	if err != nil {
		fmt.Fprintln(os.Stderr, err)
		return 2
	}
	var req helperRequest
	if err := json.Unmarshal(b, &req); err != nil {
		fmt.Fprintln(os.Stderr, err)
		return 2
	}
	normalizeRecs(req.Recs)
	log.SetLevel(log.WarnLevel)
	os.Setenv("TMPDIR", req.Tmp)
	if req.EventsOn {
		os.Setenv("OBIVERIF_EVENTS", filepath.Join(req.Tmp, "events.jsonl"))
		obiverif.Configure()
	}
	w := &gen.C06Workload{Recs: req.Recs, Opts: req.Opts}
	r := rand.New(rand.NewSource(req.Seed))
	var rep helperReply
	switch req.Op {
	case "uniq":
		outs, done, err := runInproc(r, w, req.Cfg)
		rep.Outs, rep.Timeout = outs, !done
		if err != nil {
			rep.Error = err.Error()
		}
	case "chunks":
		chunks, done, err := runChunker(r, w, req.Cfg)
		rep.Chunks, rep.Timeout = chunks, !done
		if err != nil {
			rep.Error = err.Error()
		}
	default:
		return 2
	}
	out, err := json.Marshal(rep)
	if err != nil {
		fmt.Fprintln(os.Stderr, err)
		return 2
	}
	os.Stdout.Write(out)
	return 0
}

func init() { core.Extra["c06-helper"] = helperMain }

// excerpt keeps the informative part of a standard error text: from the panic message on.
func excerpt(st string) string {
	if i := strings.Index(st, "panic: "); i >= 0 {
		st = st[i:]
	} else if i := strings.Index(st, "fatal error: "); i >= 0 {
		st = st[i:]
	}
	if len(st) > 3000 {
		st = st[:2200] + "\n...\n" + st[len(st)-800:]
	}
	return st
}

var repoFrame = regexp.MustCompile(`(?m)^git\.metabarcoding\.org/obitools/obitools4/obitools4/pkg/(.+)\([^()]*\)$`)

// howDied classifies the end of a process from its exit status and standard error:
// "panic@<innermost function of obitools4 on the stack of the panicking goroutine>",
// "fatal" (log.Fatal of the library) or "exit<n>".
func howDied(exit int, stderr string) string {
	i := strings.Index(stderr, "panic: ")
	if j := strings.Index(stderr, "fatal error: "); j >= 0 && (i < 0 || j < i) {
		i = j
	}
	if i >= 0 {
		st := stderr[i:]
		// the first goroutine of the dump is the one that failed
		if k := strings.Index(st, "\n\ngoroutine "); k >= 0 {
			rest := st[k+2:]
			if e := strings.Index(rest, "\n\n"); e >= 0 {
				rest = rest[:e]
			}
			if m := repoFrame.FindStringSubmatch(rest); m != nil {
				return "panic@" + m[1]
			}
		}
		return "panic"
	}
	if strings.Contains(stderr, "level=fatal") {
		return "fatal"
	}
	return fmt.Sprintf("exit%d", exit)
}

// helperResult is what the case learns from one helper execution.
type helperResult struct {
	Reply        helperReply
	Died         string // "" or how the process ended: "panic", "fatal", "exit<n>"
	Stderr       string
	Inconclusive string
}

var helperSeq int

// callHelper runs one execution in a helper process.
func callHelper(dir string, req helperRequest) helperResult {
	helperSeq++
	reqPath := filepath.Join(dir, fmt.Sprintf("helper-%d.json", helperSeq))
	req.Tmp = filepath.Join(dir, fmt.Sprintf("helper-%d.tmp", helperSeq))
	os.MkdirAll(req.Tmp, 0o755)
	defer os.RemoveAll(req.Tmp)
	defer os.Remove(reqPath)
	b, err := json.Marshal(req)
	if err != nil {
		return helperResult{Inconclusive: "cannot encode the helper request: " + err.Error()}
	}
	if err := os.WriteFile(reqPath, b, 0o644); err != nil {
		return helperResult{Inconclusive: "cannot write the helper request: " + err.Error()}
	}
	self, err := os.Executable()
	if err != nil {
		return helperResult{Inconclusive: "cannot find the harness executable"}
	}
	cmd := exec.Command(self, "c06-helper", reqPath)
	cmd.Env = cleanEnv(req.Tmp)
	var out, errb bytes.Buffer
	cmd.Stdout, cmd.Stderr = &out, &errb
	if err := cmd.Start(); err != nil {
		return helperResult{Inconclusive: "cannot start the helper: " + err.Error()}
	}
	done := make(chan error, 1)
	go func() { done <- cmd.Wait() }()
	select {
	case err = <-done:
	case <-time.After(400 * time.Second):
		cmd.Process.Kill()
		<-done
		return helperResult{Inconclusive: "the helper process did not finish within 400 s"}
	}
	st := excerpt(errb.String())
	if err != nil {
		code := -1
		if ee, ok := err.(*exec.ExitError); ok {
			code = ee.ExitCode()
		}
		return helperResult{Died: howDied(code, errb.String()), Stderr: st}
	}
	var rep helperReply
	if err := json.Unmarshal(out.Bytes(), &rep); err != nil {
		return helperResult{Inconclusive: "the helper reply cannot be decoded: " + err.Error()}
	}
	if rep.Timeout {
		return helperResult{Inconclusive: "the execution in the helper process did not finish within 180 s"}
	}
	return helperResult{Reply: rep, Stderr: st}
}
