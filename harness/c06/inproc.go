package c06

// Sub-check "inproc": obichunk.IUniqueSequence driven in-process with every
// option combination, chunk counts, memory / disk, worker counts, permuted input.

import (
	"encoding/json"
	"fmt"
	"math/rand"
	"os"
	"path/filepath"
	"sort"
	"time"

	"git.metabarcoding.org/obitools/obitools4/obitools4/pkg/obichunk"
	"git.metabarcoding.org/obitools/obitools4/obitools4/pkg/obiiter"
	"git.metabarcoding.org/obitools/obitools4/obitools4/pkg/obioptions"
	"git.metabarcoding.org/obitools/obitools4/obitools4/pkg/obiseq"
	log "github.com/sirupsen/logrus"

	"verifh/core"
	"verifh/gen"
	"verifh/ref"
)

// cfg is one configuration of a dereplication run (the axes the result must not depend on).
type cfg struct {
	Axis      string `json:"axis"` // which axis differs from the base configuration ("base", "multi")
	Permuted  bool   `json:"permuted"`
	PermSeed  int64  `json:"perm_seed"`
	Chunks    int    `json:"chunks"`
	Disk      bool   `json:"disk"`
	Workers   int    `json:"workers"`
	InBatch   int    `json:"input_batch"`      // size of the batches of the input iterator / --batch-size
	DistBatch int    `json:"distribute_batch"` // obioptions batch size used by Distribute (in-process only)
}

var chunkChoices = []int{1, 2, 7, 100}
var workerChoices = []int{1, 2, 8}

func baseCfg() cfg {
	return cfg{Axis: "base", Chunks: 1, Workers: 1, InBatch: 2000, DistBatch: 2000}
}

// variants returns the configurations of one case: the base, one-axis variants, and random combinations.
func variants(r *rand.Rand, nMulti int) []cfg {
	out := []cfg{baseCfg()}
	v := baseCfg()
	v.Axis, v.Permuted, v.PermSeed = "order", true, r.Int63()
	out = append(out, v)
	v = baseCfg()
	v.Axis, v.Chunks = "chunks", chunkChoices[1+r.Intn(3)]
	out = append(out, v)
	v = baseCfg()
	v.Axis, v.Disk = "mode", true
	out = append(out, v)
	v = baseCfg()
	v.Axis, v.Workers = "workers", workerChoices[1+r.Intn(2)]
	out = append(out, v)
	v = baseCfg()
	v.Axis, v.InBatch, v.DistBatch = "batch", []int{1, 3, 10, 50}[r.Intn(4)], []int{1, 2, 10}[r.Intn(3)]
	out = append(out, v)
	for i := 0; i < nMulti; i++ {
		v = cfg{Axis: "multi", Permuted: r.Intn(4) > 0, PermSeed: r.Int63(), Chunks: chunkChoices[r.Intn(4)], Disk: r.Intn(2) == 0,
			Workers: workerChoices[r.Intn(3)], InBatch: []int{1, 3, 10, 50, 2000}[r.Intn(5)], DistBatch: []int{1, 2, 10, 2000}[r.Intn(4)]}
		out = append(out, v)
	}
	return out
}

// buildSeqs creates fresh BioSequence objects (the dereplication consumes and mutates them).
func buildSeqs(r *rand.Rand, recs []ref.C06Rec, order []int) obiseq.BioSequenceSlice {
	seqs := obiseq.MakeBioSequenceSlice()
	for _, i := range order {
		rec := &recs[i]
		s := obiseq.NewBioSequence(rec.ID, []byte(rec.Seq), "")
		if rec.Count > 0 {
			s.SetAttribute("count", rec.Count)
		}
		keys := make([]string, 0, len(rec.Attrs))
		for k := range rec.Attrs {
			keys = append(keys, k)
		}
		sort.Strings(keys)
		for _, k := range keys {
			v := rec.Attrs[k]
			if m, ok := v.(map[string]int); ok {
				// the three representations the library accepts for an existing merged map
				switch r.Intn(3) {
				case 0:
					c := obiseq.StatsOnValues{}
					for a, b := range m {
						c[a] = b
					}
					s.SetAttribute(k, c)
				case 1:
					c := map[string]int{}
					for a, b := range m {
						c[a] = b
					}
					s.SetAttribute(k, c)
				default: // as decoded from a JSON title line
					c := map[string]interface{}{}
					for a, b := range m {
						c[a] = float64(b)
					}
					s.SetAttribute(k, c)
				}
				continue
			}
			s.SetAttribute(k, v)
		}
		seqs = append(seqs, s)
	}
	return seqs
}

func uniqOptions(o ref.C06Opts, g cfg) []obichunk.WithOption {
	opts := []obichunk.WithOption{
		obichunk.OptionBatchCount(g.Chunks),
		obichunk.OptionsParallelWorkers(g.Workers),
		obichunk.OptionNAValue(o.NA),
		obichunk.OptionStatOn(o.Merge...),
		obichunk.OptionSubCategory(o.Cats...),
	}
	if g.Disk {
		opts = append(opts, obichunk.OptionSortOnDisk())
	} else {
		opts = append(opts, obichunk.OptionSortOnMemory())
	}
	if o.NoSingleton {
		opts = append(opts, obichunk.OptionsNoSingleton())
	} else {
		opts = append(opts, obichunk.OptionsWithSingleton())
	}
	return opts
}

// runInproc executes one dereplication in-process and returns the drained records.
// done=false: the pipeline did not finish before the watchdog (inconclusive, never a verdict).
func runInproc(r *rand.Rand, w *gen.C06Workload, g cfg) (outs []outRec, done bool, err error) {
	order := gen.C06Order(rand.New(rand.NewSource(g.PermSeed)), len(w.Recs), g.Permuted)
	seqs := buildSeqs(r, w.Recs, order)
	obioptions.SetBatchSize(g.DistBatch)
	type result struct {
		outs []outRec
		err  error
	}
	ch := make(chan result, 1)
	go func() {
		it := obiiter.IBatchOver("c06", seqs, g.InBatch)
		u, err := obichunk.IUniqueSequence(it, uniqOptions(w.Opts, g)...)
		if err != nil {
			ch <- result{nil, err}
			return
		}
		var res []outRec
		for u.Next() {
			b := u.Get()
			for _, s := range b.Slice() {
				o := outRec{ID: s.Id(), Seq: s.String()}
				var jb []byte
				if s.HasAnnotation() {
					jb, err = json.Marshal(map[string]interface{}(s.Annotations()))
					if err != nil {
						ch <- result{nil, fmt.Errorf("annotations of %s cannot be encoded: %v", s.Id(), err)}
						return
					}
				}
				o.Ann, err = annFromJSON(jb)
				if err != nil {
					ch <- result{nil, err}
					return
				}
				res = append(res, o)
			}
		}
		ch <- result{res, nil}
	}()
	select {
	case res := <-ch:
		return res.outs, true, res.err
	case <-time.After(180 * time.Second):
		return nil, false, nil
	}
}

func totalCount(m map[string]*ref.C06Class) int {
	t := 0
	for _, c := range m {
		t += c.Count
	}
	return t
}

func nontrivial(all map[string]*ref.C06Class) bool {
	if len(all) < 2 {
		return false
	}
	for _, c := range all {
		if c.Members >= 2 {
			return true
		}
	}
	return false
}

func sizeClass(n int) int {
	switch {
	case n < 100:
		return 0
	case n < 500:
		return 1
	case n < 2000:
		return 2
	}
	return 3
}

func b2i(b bool) int {
	if b {
		return 1
	}
	return 0
}

// recordKey registers the class of a non-trivial execution for the evidence.
func recordKey(c *core.Ctx, w *gen.C06Workload, g cfg, all map[string]*ref.C06Class) {
	if !nontrivial(all) {
		return
	}
	c.Key("%v/%d/%d/%v/%d.%d/c%d/m%d/s%v/p%v/n%v/x%v/i%v/z%d", g.Disk, g.Chunks, g.Workers, g.Permuted, g.InBatch, g.DistBatch,
		len(w.Opts.Cats), len(w.Opts.Merge), w.Opts.NoSingleton, w.Premerged, w.MissingCat, w.ExplicitNA, w.IntValues, sizeClass(len(w.Recs)))
}

func workloadSample(w *gen.C06Workload, g cfg, all, kept map[string]*ref.C06Class) map[string]any {
	var first []string
	for i := 0; i < len(w.Recs) && i < 6; i++ {
		t := gen.C06Title(nil, &w.Recs[i])
		first = append(first, ">"+w.Recs[i].ID+" "+t+" "+w.Recs[i].Seq)
	}
	return map[string]any{"records": len(w.Recs), "distinct_sequences": w.NSeqs, "options": w.Opts, "config": g,
		"expected_classes": len(all), "expected_output_records": len(kept), "total_count": totalCount(all), "first_records": first}
}

func violationDetail(w *gen.C06Workload, g cfg, d diff) map[string]any {
	m := map[string]any{"options": w.Opts, "config": g, "records": len(w.Recs)}
	for k, v := range d.Detail {
		m[k] = v
	}
	// the input records of the sequence concerned (bounded)
	if seq, ok := d.Detail["sequence"].(string); ok {
		var in []string
		for i := range w.Recs {
			if len(in) >= 30 {
				in = append(in, "...")
				break
			}
			if eqFold(w.Recs[i].Seq, seq) {
				in = append(in, ">"+w.Recs[i].ID+" "+gen.C06Title(nil, &w.Recs[i]))
			}
		}
		m["input_records_of_sequence"] = in
	}
	return m
}

func eqFold(a, b string) bool {
	if len(a) != len(b) {
		return false
	}
	for i := 0; i < len(a); i++ {
		if ref.Lower(a[i]) != ref.Lower(b[i]) {
			return false
		}
	}
	return true
}

func inprocParams(c *core.Ctx) gen.C06Params {
	p := gen.C06Params{MinRecs: 50, MaxRecs: 600, MinSeqs: 5, MaxSeqs: 120}
	if c.Idx%10 == 9 { // tiny inputs: one to a few records
		return gen.C06Params{MinRecs: 1, MaxRecs: 6, MinSeqs: 1, MaxSeqs: 3}
	}
	if c.Quick() {
		if c.Idx%16 == 15 {
			p.MaxRecs, p.MaxSeqs = 5000, 300
		}
	} else {
		p.MaxRecs, p.MaxSeqs = 2000, 300
		if c.Idx%4 == 3 {
			p.MinRecs, p.MaxRecs = 2000, 5000
		}
	}
	return p
}

func runInprocCase(c *core.Ctx) {
	log.SetLevel(log.WarnLevel)
	// one case in four: the temporary directory has glob characters in its name (/scratch/job[7])
	dir := filepath.Join(c.Dir, fmt.Sprintf("inproc-%d%s", c.Idx, []string{"", "", "", "-job[7]?x*"}[c.Idx%4]))
	os.MkdirAll(dir, 0o755)
	defer os.RemoveAll(dir)
	os.Setenv("TMPDIR", dir) // the on-disk mode creates its chunk directory under os.TempDir()

	w := gen.C06Generate(c.Rng, inprocParams(c))
	ev := newEvaluator(c, w, func(g cfg) execResult {
		if g.Disk {
			// the on-disk path is executed in a helper process: its failures are process-fatal
			h := callHelper(dir, helperRequest{Op: "uniq", Recs: w.Recs, Opts: w.Opts, Cfg: g, Seed: c.Rng.Int63()})
			switch {
			case h.Inconclusive != "":
				return execResult{Inconclusive: h.Inconclusive}
			case h.Died != "":
				return execResult{FailCause: "crash:" + h.Died, FailWhat: "the process running IUniqueSequence dies on a well-formed input", Detail: map[string]any{"stderr": h.Stderr}}
			case h.Reply.Error != "":
				return execResult{FailCause: "error", FailWhat: "IUniqueSequence returned an error on a well-formed input", Detail: map[string]any{"error": h.Reply.Error}}
			}
			return execResult{OK: true, Outs: h.Reply.Outs}
		}
		c.Risk(modeName(g.Disk))
		outs, done, err := runInproc(c.Rng, w, g)
		switch {
		case !done:
			return execResult{Inconclusive: fmt.Sprintf("IUniqueSequence did not finish within 180 s (case %d, config %+v)", c.Idx, g)}
		case err != nil:
			return execResult{FailCause: "error", FailWhat: "IUniqueSequence returned an error on a well-formed input", Detail: map[string]any{"error": err.Error()}}
		}
		return execResult{OK: true, Outs: outs}
	})
	for _, g := range variants(c.Rng, c.Pick(2, 4)) {
		if !ev.run(g) {
			break
		}
	}
	ev.finish()
}

func modeName(disk bool) string {
	if disk {
		return "disk"
	}
	return "memory"
}
