package c06

// Sub-checks "e2e" (obiuniq on FASTA files, permuted inputs, option combinations)
// and "demerge" (obiuniq -m k | obidemerge -d k | obiuniq -m k = obiuniq -m k).

import (
	"bytes"
	"context"
	"errors"
	"fmt"
	"math/rand"
	"os"
	"os/exec"
	"path/filepath"
	"sort"
	"strconv"
	"strings"
	"time"

	"verifh/core"
	"verifh/gen"
	"verifh/ref"
)

type cmdResult struct {
	Stdout     []byte
	Stderr     string // excerpt
	FullStderr string
	Exit       int
	TimedOut   bool
	Err        error
}

func cleanEnv(tmp string) []string {
	var env []string
	for _, e := range os.Environ() {
		if strings.HasPrefix(e, "OBI") || strings.HasPrefix(e, "TMPDIR=") {
			continue
		}
		env = append(env, e)
	}
	return append(env, "TMPDIR="+tmp)
}

// runCmd runs a command of BinDir; stdinPath "" = no standard input.
func runCmd(c *core.Ctx, tmp, name string, args []string, stdinPath string) cmdResult {
	ctx, cancel := context.WithTimeout(context.Background(), 300*time.Second)
	defer cancel()
	cmd := exec.CommandContext(ctx, filepath.Join(c.BinDir, name), args...)
	cmd.Env = cleanEnv(tmp)
	cmd.Dir = tmp
	var out, errb bytes.Buffer
	cmd.Stdout, cmd.Stderr = &out, &errb
	if stdinPath != "" {
		f, err := os.Open(stdinPath)
		if err != nil {
			return cmdResult{Err: err}
		}
		defer f.Close()
		cmd.Stdin = f
	}
	err := cmd.Run()
	res := cmdResult{Stdout: out.Bytes()}
	res.FullStderr = errb.String()
	res.Stderr = excerpt(res.FullStderr)
	if ctx.Err() != nil {
		res.TimedOut = true
		return res
	}
	if err != nil {
		var ee *exec.ExitError
		if errors.As(err, &ee) {
			res.Exit = ee.ExitCode()
		} else {
			res.Err = err
		}
	}
	return res
}

func uniqArgs(o ref.C06Opts, g cfg) []string {
	var a []string
	for _, k := range o.Merge {
		a = append(a, "-m", k)
	}
	for _, k := range o.Cats {
		a = append(a, "-c", k)
	}
	if o.NA != "NA" {
		a = append(a, "--na-value", o.NA)
	}
	if o.NoSingleton {
		a = append(a, "--no-singleton")
	}
	if !g.Disk {
		a = append(a, "--in-memory")
	}
	a = append(a, "--chunk-count", strconv.Itoa(g.Chunks))
	if g.Workers <= 1 {
		a = append(a, "--force-one-cpu")
	} else {
		a = append(a, "--max-cpu", strconv.Itoa(g.Workers))
	}
	if g.InBatch > 0 {
		a = append(a, "--batch-size", strconv.Itoa(g.InBatch))
	}
	return a
}

func e2eBase() cfg { return cfg{Axis: "base", Chunks: 1, Workers: 1} }

func e2eVariants(r *rand.Rand, nMulti int) []cfg {
	out := []cfg{e2eBase()}
	v := e2eBase()
	v.Axis, v.Permuted, v.PermSeed = "order", true, r.Int63()
	out = append(out, v)
	v = e2eBase()
	v.Axis, v.Disk = "mode", true
	out = append(out, v)
	v = e2eBase()
	switch r.Intn(3) {
	case 0:
		v.Axis, v.Chunks = "chunks", chunkChoices[1+r.Intn(3)]
	case 1:
		v.Axis, v.Workers = "workers", []int{2, 8, 16}[r.Intn(3)]
	default:
		v.Axis, v.InBatch = "batch", []int{1, 3, 50, 2000}[r.Intn(4)]
	}
	out = append(out, v)
	for i := 0; i < nMulti; i++ {
		v = cfg{Axis: "multi", Permuted: r.Intn(4) > 0, PermSeed: r.Int63(), Chunks: chunkChoices[r.Intn(4)], Disk: r.Intn(3) > 0,
			Workers: []int{1, 2, 8, 16}[r.Intn(4)], InBatch: []int{0, 1, 3, 50, 2000}[r.Intn(5)]}
		out = append(out, v)
	}
	return out
}

// cmdFailure classifies a command that did not deliver an output.
func cmdFailure(name string, res cmdResult) execResult {
	switch {
	case res.TimedOut:
		return execResult{Inconclusive: name + " did not finish within 300 s"}
	case res.Err != nil:
		return execResult{Inconclusive: name + " could not be started: " + res.Err.Error()}
	}
	how := howDied(res.Exit, res.FullStderr)
	return execResult{FailCause: "command-failed:" + name + ":" + how, FailWhat: name + " exits with a non-zero status on a well-formed input",
		Detail: map[string]any{"exit": res.Exit, "stderr": res.Stderr}}
}

// uniqExec returns the executor running obiuniq on the workload written as FASTA (file argument or standard input).
func uniqExec(c *core.Ctx, dir string, w *gen.C06Workload, recs []ref.C06Rec, stdin bool) func(g cfg) execResult {
	n := 0
	return func(g cfg) execResult {
		n++
		order := gen.C06Order(rand.New(rand.NewSource(g.PermSeed)), len(recs), g.Permuted)
		in := filepath.Join(dir, fmt.Sprintf("in%d.fasta", n))
		text := gen.C06Fasta(c.Rng, recs, order)
		if err := os.WriteFile(in, text, 0o644); err != nil {
			return execResult{Inconclusive: "cannot write the input file: " + err.Error()}
		}
		defer os.Remove(in)
		args := uniqArgs(w.Opts, g)
		detail := map[string]any{"args": strings.Join(args, " ")}
		if len(text) < 3000 {
			detail["input"] = string(text)
		}
		var res cmdResult
		if stdin {
			res = runCmd(c, dir, "obiuniq", args, in)
		} else {
			res = runCmd(c, dir, "obiuniq", append(args, in), "")
		}
		if res.TimedOut || res.Err != nil || res.Exit != 0 {
			r := cmdFailure("obiuniq", res)
			for k, v := range detail {
				if r.Detail != nil {
					r.Detail[k] = v
				}
			}
			return r
		}
		outs, err := parseFasta(res.Stdout)
		if err != nil {
			detail["error"] = err.Error()
			return execResult{FailCause: "output-unreadable", FailWhat: "the output of obiuniq is not FASTA with JSON annotations", Detail: detail}
		}
		return execResult{OK: true, Outs: outs, Raw: res.Stdout, Detail: detail}
	}
}

func e2eParams(c *core.Ctx) gen.C06Params {
	p := gen.C06Params{MinRecs: 50, MaxRecs: 800, MinSeqs: 5, MaxSeqs: 150}
	if c.Idx%10 == 9 { // tiny inputs: one to a few records
		return gen.C06Params{MinRecs: 1, MaxRecs: 6, MinSeqs: 1, MaxSeqs: 3}
	}
	if c.Quick() {
		if c.Idx%12 == 11 {
			p.MaxRecs, p.MaxSeqs = 5000, 300
		}
	} else {
		p.MaxRecs, p.MaxSeqs = 2500, 300
		if c.Idx%4 == 3 {
			p.MinRecs, p.MaxRecs = 2500, 5000
		}
	}
	return p
}

func runE2ECase(c *core.Ctx) {
	dir := filepath.Join(c.Dir, fmt.Sprintf("e2e-%d%s", c.Idx, []string{"", "-job[7]?x*", "", ""}[c.Idx%4]))
	os.MkdirAll(dir, 0o755)
	defer os.RemoveAll(dir)

	w := gen.C06Generate(c.Rng, e2eParams(c))
	ev := newEvaluator(c, w, uniqExec(c, dir, w, w.Recs, false))
	for _, g := range e2eVariants(c.Rng, c.Pick(1, 3)) {
		if !ev.run(g) {
			break
		}
	}
	ev.finish()
}

// ---------------------------------------------------------------------------
// demerge

func demergeParams(c *core.Ctx) gen.C06Params {
	p := gen.C06Params{MinRecs: 30, MaxRecs: 500, MinSeqs: 3, MaxSeqs: 80, OneMergeNoCatOverlap: true}
	if !c.Quick() {
		p.MaxRecs, p.MaxSeqs = 2500, 250
	}
	return p
}

// sameClassMaps compares two outputs of obiuniq as maps key -> (count, merged map of k).
func sameClassMaps(a, b []outRec, o ref.C06Opts, k string) (string, map[string]any) {
	type ent struct {
		n      int
		count  int
		merged map[string]int
	}
	index := func(rs []outRec) map[string]*ent {
		m := map[string]*ent{}
		for i := range rs {
			key := ref.C06Key(rs[i].Seq, obsCats(&rs[i], o))
			e := m[key]
			if e == nil {
				e = &ent{}
				m[key] = e
			}
			e.n++
			cnt, _ := obsCount(&rs[i])
			e.count += cnt
			e.merged, _, _ = obsMerged(&rs[i], k)
		}
		return m
	}
	ma, mb := index(a), index(b)
	var keys []string
	for key := range ma {
		keys = append(keys, key)
	}
	for key := range mb {
		if ma[key] == nil {
			keys = append(keys, key)
		}
	}
	sort.Strings(keys)
	for _, key := range keys {
		ea, eb := ma[key], mb[key]
		show := strings.ReplaceAll(key, "\x00", " | ")
		switch {
		case ea == nil || eb == nil:
			return "classes", map[string]any{"class": show, "in_first": ea != nil, "in_second": eb != nil}
		case ea.n != eb.n:
			return "classes", map[string]any{"class": show, "records_first": ea.n, "records_second": eb.n}
		case ea.count != eb.count:
			return "count", map[string]any{"class": show, "count_first": ea.count, "count_second": eb.count}
		case !sameIntMap(ea.merged, eb.merged):
			return "merged", map[string]any{"class": show, "merged_first": ea.merged, "merged_second": eb.merged}
		}
	}
	return "", nil
}

func runDemergeCase(c *core.Ctx) {
	dir := filepath.Join(c.Dir, fmt.Sprintf("demerge-%d", c.Idx))
	os.MkdirAll(dir, 0o755)
	defer os.RemoveAll(dir)

	w := gen.C06Generate(c.Rng, demergeParams(c))
	k := w.Opts.Merge[0]
	g := cfg{Axis: "multi", Permuted: true, PermSeed: c.Rng.Int63(), Chunks: chunkChoices[c.Rng.Intn(4)], Disk: c.Rng.Intn(2) == 0,
		Workers: []int{1, 2, 8}[c.Rng.Intn(3)]}
	useStdin := c.Rng.Intn(3) == 0
	base := map[string]any{"options": w.Opts, "config": g, "records": len(w.Recs), "stdin_pipeline": useStdin}
	detail := func(extra map[string]any) map[string]any {
		m := map[string]any{}
		for a, b := range base {
			m[a] = b
		}
		for a, b := range extra {
			m[a] = b
		}
		return m
	}

	// step 1: obiuniq -m k, compared with the reference
	ev1 := newEvaluator(c, w, uniqExec(c, dir, w, w.Recs, false))
	ev1.prefix = "uniq:"
	ok := ev1.run(g)
	ev1.finish()
	if !ok || !ev1.lastHeld {
		return // the law is about a correct first dereplication
	}
	u1 := ev1.lastOuts
	kept := ev1.kept
	u1path := filepath.Join(dir, "u1.fasta")
	if err := os.WriteFile(u1path, ev1.lastRaw, 0o644); err != nil {
		c.Inconclusive("cannot write a file: " + err.Error())
		return
	}
	evals := 0
	defer func() { c.Count("evaluations", evals) }()

	// step 2: obidemerge -d k  -> one record per (class, value) with exactly the weight of the value
	var res2 cmdResult
	if useStdin {
		res2 = runCmd(c, dir, "obidemerge", []string{"-d", k}, u1path)
	} else {
		res2 = runCmd(c, dir, "obidemerge", []string{"-d", k, u1path}, "")
	}
	if res2.TimedOut || res2.Err != nil || res2.Exit != 0 {
		f := cmdFailure("obidemerge", res2)
		if f.Inconclusive != "" {
			c.Inconclusive(f.Inconclusive)
		} else {
			c.Violate(f.FailCause, f.FailWhat, detail(f.Detail))
		}
		return
	}
	d, err := parseFasta(res2.Stdout)
	if err != nil {
		c.Violate("output-unreadable:obidemerge", "the output of obidemerge is not FASTA with JSON annotations", detail(map[string]any{"error": err.Error()}))
		return
	}
	evals++
	type pv struct {
		n, count int
	}
	got := map[string]*pv{}
	slotKept := 0
	for i := range d {
		val := "\x01absent"
		if v, has := d[i].Ann[k]; has {
			val = printObs(v)
		}
		key := ref.C06Key(d[i].Seq, obsCats(&d[i], w.Opts)) + "\x00=" + val
		e := got[key]
		if e == nil {
			e = &pv{}
			got[key] = e
		}
		e.n++
		cnt, _ := obsCount(&d[i])
		e.count += cnt
		if _, kept := d[i].Ann["merged_"+k]; kept {
			slotKept++
		}
	}
	want := map[string]int{}
	for key, cl := range kept {
		for v, wgt := range cl.Merged[k] {
			want[key+"\x00="+v] = wgt
		}
	}
	var wk []string
	for key := range want {
		wk = append(wk, key)
	}
	sort.Strings(wk)
	bad := false
	for _, key := range wk {
		e := got[key]
		show := strings.ReplaceAll(key, "\x00", " | ")
		switch {
		case e == nil:
			c.Violate("expand:value-missing", "obidemerge gives no record for a value of the merged map", detail(map[string]any{"class_value": show, "expected_count": want[key]}))
			bad = true
		case e.n > 1:
			c.Violate("expand:value-duplicated", "obidemerge gives several records for one value of the merged map", detail(map[string]any{"class_value": show, "records": e.n}))
			bad = true
		case e.count != want[key]:
			c.Violate("expand:count", "the record obidemerge gives for a value does not carry the weight of that value", detail(map[string]any{"class_value": show, "expected_count": want[key], "observed_count": e.count}))
			bad = true
		}
		if bad {
			break
		}
	}
	if !bad {
		var gk []string
		for key := range got {
			gk = append(gk, key)
		}
		sort.Strings(gk)
		for _, key := range gk {
			if _, ok := want[key]; !ok {
				c.Violate("expand:spurious", "obidemerge gives a record for a value that is not in the merged map", detail(map[string]any{"class_value": strings.ReplaceAll(key, "\x00", " | "), "count": got[key].count}))
				bad = true
				break
			}
		}
	}
	if !bad && slotKept > 0 {
		c.Violate("expand:slot-kept", "records given by obidemerge still carry the demerged map (its weights would be counted twice)", detail(map[string]any{"records_with_slot": slotKept}))
		bad = true
	}
	if bad {
		return
	}
	dpath := filepath.Join(dir, "d.fasta")
	if err := os.WriteFile(dpath, res2.Stdout, 0o644); err != nil {
		c.Inconclusive("cannot write a file: " + err.Error())
		return
	}

	// step 3: obiuniq -m k again: the same map key -> (count, merged) as step 1 (hence as the reference)
	g2 := g
	g2.Chunks, g2.Disk = chunkChoices[c.Rng.Intn(4)], c.Rng.Intn(2) == 0
	ev3 := newEvaluator(c, w, func(gg cfg) execResult {
		args := uniqArgs(w.Opts, gg)
		var res cmdResult
		if useStdin {
			res = runCmd(c, dir, "obiuniq", args, dpath)
		} else {
			res = runCmd(c, dir, "obiuniq", append(args, dpath), "")
		}
		if res.TimedOut || res.Err != nil || res.Exit != 0 {
			return cmdFailure("obiuniq", res)
		}
		outs, err := parseFasta(res.Stdout)
		if err != nil {
			return execResult{FailCause: "output-unreadable", FailWhat: "the output of obiuniq is not FASTA with JSON annotations", Detail: map[string]any{"error": err.Error()}}
		}
		return execResult{OK: true, Outs: outs, Detail: map[string]any{"args": strings.Join(args, " "), "step": "obiuniq after obidemerge"}}
	})
	ev3.prefix, ev3.noSample = "law:", true
	ok = ev3.run(g2)
	c.Count("evaluations", ev3.evals)
	if !ok || !ev3.lastHeld {
		return
	}
	u2 := ev3.lastOuts
	if cause, dd := sameClassMaps(u1, u2, w.Opts, k); cause != "" {
		c.Violate("law:"+cause, "obiuniq -m k | obidemerge -d k | obiuniq -m k differs from obiuniq -m k", detail(dd))
		return
	}
	if nontrivial(ev1.all) {
		multi := false
		for _, cl := range kept {
			multi = multi || len(cl.Merged[k]) > 1
		}
		if multi {
			c.Key("demerge/%v/%d/%d/c%d/p%v/i%v/stdin%v/z%d", g.Disk, g.Chunks, g.Workers, len(w.Opts.Cats), w.Premerged, w.IntValues, useStdin, sizeClass(len(w.Recs)))
		}
	}
	c.Count("demerge_records", len(d))
	if c.Idx < 2 {
		c.Sample(map[string]any{"records": len(w.Recs), "options": w.Opts, "config": g, "uniq_records": len(u1), "demerged_records": len(d), "reuniq_records": len(u2), "stdin_pipeline": useStdin})
	}
}
