// Package c06: dereplication conserves counts and merges exactly the identical records.
//
// Workloads: multisets of records (duplicated sequences, counts >= 1 or absent,
// category / merge attributes present, absent or already merged). Oracle: the
// 40-line reference ref.C06Derep (DESIGN Appendix A.5). Observed: the records
// drained from obichunk.IUniqueSequence and the FASTA output of the commands,
// compared as maps key -> (count, merged maps).
package c06

import (
	"verifh/core"
)

func init() {
	core.Register(&core.Property{
		ID:    "C06",
		Level: "exploration",
		Rule: "each case = one random multiset of 50-5000 records over 5-300 distinct sequences (skewed class sizes; close sequence variants; lower/upper/mixed case), count absent / 1 / 2-20 / large, " +
			"0-3 category attributes and 0-2 merge attributes that are present, absent, explicitly NA or already merged (merged_<k> maps whose weights add up to the count), string or integer values, NA value NA or none, with / without --no-singleton; " +
			"every case is executed under a base configuration (input order, 1 chunk, memory, 1 worker) and under variants changing one axis (permuted input, chunk count 2/7/100, on-disk mode, 2/8(/16) workers, batch sizes) or all of them, " +
			"in-process through obichunk.IUniqueSequence (inproc; the on-disk path runs in a helper process because its failures are process-fatal) and through the obiuniq command on FASTA files (e2e); demerge: obiuniq -m k | obidemerge -d k | obiuniq -m k on files or through standard input, with the expansion made by obidemerge checked value by value; " +
			"chunks: the first step alone (ISequenceChunk / ISequenceChunkOnDisk must partition the input: every record once, unchanged, equal sequences in one chunk), and the chunk files as they are when obiformats.WriterDispatcher returns (half of the cases with the event hook switched on, which adds work at the existing suspension point writer.arrival). " +
			"Each execution is compared with the reference dereplication as a map key -> (count, merged maps). evaluations = executions of IUniqueSequence / of a command compared with the oracle; " +
			"Added later: weighted merge descriptors (-m key:wgt), numeric values beyond int64 and identifiers differing in their last digit only (100000001..3), temporary directories whose name has glob characters. The empty string as NA value. " +
			"distinct_nontrivial = distinct (mode, chunk count, workers, permuted, batch sizes, #categories, #merge keys, no-singleton, premerged / missing / explicit-NA / integer values present, size class) classes of executions whose expected result has >= 2 classes and at least one class merging >= 2 records " +
			"(demerge: at least one class whose merged map has >= 2 values; chunks: more distinct sequences than chunks)",
		Assume: []string{
			"the reference of DESIGN Appendix A.5 is the meaning of the property text",
			"string attribute values are restricted to [A-Za-z0-9_] and never look like numbers, so that the title-line round trip of the on-disk mode (property C02) is not at stake",
			"an attribute has either string or integer values, never both printed alike (whether 1 and \"1\" are the same category value is left open by the property)",
			"ids and other attributes of the representative, and the order of the output records, are free",
			"a disagreement seen only in on-disk mode is reported as config-dependent:mode when the same configuration in memory mode gives the reference result (the memory twin is executed at that moment)",
		},
		Cmds: []string{"obiuniq", "obidemerge"},
		Subs: []core.Sub{
			{Name: "chunks", N: core.Const(128, 800), Run: runChunksCase, TimeoutS: 900},
			{Name: "inproc", N: core.Const(300, 2000), Run: runInprocCase, TimeoutS: 900},
			{Name: "e2e", N: core.Const(120, 700), Run: runE2ECase, TimeoutS: 900},
			{Name: "demerge", N: core.Const(64, 400), Run: runDemergeCase, TimeoutS: 900},
		},
		MinNontrivial: 200,
		Post: func(tier string, counters map[string]int64) []string {
			var inc []string
			if counters["runs.disk"] == 0 || counters["runs.memory"] == 0 {
				inc = append(inc, "one of the two modes (memory, disk) was never executed")
			}
			if counters["runs.permuted"] == 0 {
				inc = append(inc, "no permuted input was executed")
			}
			return inc
		},
	})
}
