package c06

// Sub-check "chunks": the first step of the dereplication. ISequenceChunk /
// ISequenceChunkOnDisk must partition the input: every record comes out exactly
// once, unchanged, and all records with the same sequence are in the same chunk.
// For the on-disk store the files written by obiformats.WriterDispatcher are
// also looked at directly when it returns.

import (
	"bytes"
	"encoding/json"
	"fmt"
	"math/rand"
	"os"
	"path/filepath"
	"reflect"
	"strings"
	"time"

	"git.metabarcoding.org/obitools/obitools4/obitools4/pkg/obichunk"
	"git.metabarcoding.org/obitools/obitools4/obitools4/pkg/obiformats"
	"git.metabarcoding.org/obitools/obitools4/obitools4/pkg/obiiter"
	"git.metabarcoding.org/obitools/obitools4/obitools4/pkg/obioptions"
	"git.metabarcoding.org/obitools/obitools4/obitools4/pkg/obiseq"
	"git.metabarcoding.org/obitools/obitools4/obitools4/pkg/obiverif"
	log "github.com/sirupsen/logrus"

	"verifh/core"
	"verifh/gen"
	"verifh/ref"
)

// expectedAnn is the annotation map of an input record as encoding/json would decode it.
func expectedAnn(rec *ref.C06Rec) map[string]any {
	m := map[string]any{}
	if rec.Count > 0 {
		m["count"] = float64(rec.Count)
	}
	for k, v := range rec.Attrs {
		switch t := v.(type) {
		case string:
			m[k] = t
		case int:
			m[k] = float64(t)
		case float64:
			m[k] = t
		case map[string]int:
			mm := map[string]any{}
			for a, b := range t {
				mm[a] = float64(b)
			}
			m[k] = mm
		}
	}
	return m
}

func seqToOut(s *obiseq.BioSequence) (outRec, error) {
	o := outRec{ID: s.Id(), Seq: s.String()}
	var jb []byte
	var err error
	if s.HasAnnotation() {
		jb, err = json.Marshal(map[string]interface{}(s.Annotations()))
		if err != nil {
			return o, fmt.Errorf("annotations of %s cannot be encoded: %v", s.Id(), err)
		}
	}
	o.Ann, err = annFromJSON(jb)
	return o, err
}

// storeFiles returns the total size and the number of title lines of the files of dir.
func storeFiles(dir string) (files int, size int64, titles int) {
	ents, _ := os.ReadDir(dir)
	for _, e := range ents {
		b, err := os.ReadFile(filepath.Join(dir, e.Name()))
		if err != nil {
			continue
		}
		files++
		size += int64(len(b))
		if len(b) > 0 && b[0] == '>' {
			titles++
		}
		titles += bytes.Count(b, []byte("\n>"))
	}
	return
}

// partitionClause checks the chunks against the input; "" = the partition holds.
func partitionClause(w *gen.C06Workload, chunks [][]outRec, nchunks int) (string, map[string]any) {
	byID := map[string]*ref.C06Rec{}
	for i := range w.Recs {
		byID[w.Recs[i].ID] = &w.Recs[i]
	}
	seen := map[string]int{}
	chunkOfSeq := map[string]int{}
	if len(chunks) > nchunks {
		return "too-many-chunks", map[string]any{"chunks": len(chunks), "requested": nchunks}
	}
	for ci, ch := range chunks {
		if len(ch) == 0 {
			return "empty-chunk", map[string]any{"chunk": ci}
		}
		for i := range ch {
			o := &ch[i]
			rec := byID[o.ID]
			if rec == nil {
				return "unknown-record", map[string]any{"id": o.ID, "sequence": o.Seq}
			}
			seen[o.ID]++
			if seen[o.ID] > 1 {
				return "record-duplicated", map[string]any{"id": o.ID}
			}
			if o.Seq != strings.ToLower(rec.Seq) {
				return "sequence-changed", map[string]any{"id": o.ID, "expected": strings.ToLower(rec.Seq), "observed": o.Seq}
			}
			if exp := expectedAnn(rec); !reflect.DeepEqual(exp, o.Ann) {
				return "annotations-changed", map[string]any{"id": o.ID, "expected": exp, "observed": o.Ann}
			}
			if c0, ok := chunkOfSeq[o.Seq]; ok && c0 != ci {
				return "sequence-scattered", map[string]any{"sequence": o.Seq, "chunks": []int{c0, ci}}
			}
			chunkOfSeq[o.Seq] = ci
		}
	}
	if len(seen) != len(w.Recs) {
		var missing []string
		for i := range w.Recs {
			if seen[w.Recs[i].ID] == 0 && len(missing) < 10 {
				missing = append(missing, w.Recs[i].ID)
			}
		}
		return "records-lost", map[string]any{"input_records": len(w.Recs), "output_records": len(seen), "first_missing_ids": missing}
	}
	return "", nil
}

func runChunker(r *rand.Rand, w *gen.C06Workload, g cfg) (chunks [][]outRec, done bool, err error) {
	seqs := buildSeqs(r, w.Recs, gen.C06Order(nil, len(w.Recs), false))
	obioptions.SetBatchSize(g.DistBatch)
	type result struct {
		chunks [][]outRec
		err    error
	}
	ch := make(chan result, 1)
	go func() {
		it := obiiter.IBatchOver("c06", seqs, g.InBatch)
		var out obiiter.IBioSequence
		var err error
		if g.Disk {
			out, err = obichunk.ISequenceChunkOnDisk(it, obiseq.HashClassifier(g.Chunks))
		} else {
			out, err = obichunk.ISequenceChunk(it, obiseq.HashClassifier(g.Chunks))
		}
		if err != nil {
			ch <- result{nil, err}
			return
		}
		var res [][]outRec
		for out.Next() {
			b := out.Get()
			cur := []outRec{}
			for _, s := range b.Slice() {
				o, err := seqToOut(s)
				if err != nil {
					ch <- result{nil, err}
					return
				}
				cur = append(cur, o)
			}
			res = append(res, cur)
		}
		ch <- result{res, nil}
	}()
	select {
	case r := <-ch:
		return r.chunks, true, r.err
	case <-time.After(180 * time.Second):
		return nil, false, nil
	}
}

func runChunksCase(c *core.Ctx) {
	log.SetLevel(log.WarnLevel)
	dir := filepath.Join(c.Dir, fmt.Sprintf("chunks-%d%s", c.Idx, []string{"", "", "-job[7]?x*", ""}[c.Idx%4]))
	os.MkdirAll(dir, 0o755)
	defer os.RemoveAll(dir)
	os.Setenv("TMPDIR", dir)

	// odd cases: the event hook is switched on, which adds work at "writer.arrival",
	// i.e. between the hand-over of a chunk of text to a file writer and its write
	eventsOn := c.Idx%2 == 1
	if eventsOn {
		os.Setenv("OBIVERIF_EVENTS", filepath.Join(dir, "events.jsonl"))
		obiverif.Configure()
		defer func() {
			os.Unsetenv("OBIVERIF_EVENTS")
			obiverif.Configure()
		}()
	}

	p := gen.C06Params{MinRecs: 20, MaxRecs: c.Pick(400, 1500), MinSeqs: 3, MaxSeqs: c.Pick(120, 300)}
	w := gen.C06Generate(c.Rng, p)
	g := cfg{Chunks: chunkChoices[c.Rng.Intn(4)], InBatch: []int{1, 3, 10, 50, 2000}[c.Rng.Intn(5)], DistBatch: []int{1, 2, 10, 2000}[c.Rng.Intn(4)]}
	evals := 0
	defer func() { c.Count("evaluations", evals) }()
	base := func(extra map[string]any) map[string]any {
		m := map[string]any{"records": len(w.Recs), "distinct_sequences": w.NSeqs, "config": g, "event_hook_on": eventsOn}
		for k, v := range extra {
			m[k] = v
		}
		return m
	}

	// (a) the partition, in memory and on disk
	for _, disk := range []bool{false, true} {
		g.Disk = disk
		var chunks [][]outRec
		if disk {
			// executed in a helper process: a failure of the on-disk path is process-fatal
			h := callHelper(dir, helperRequest{Op: "chunks", Recs: w.Recs, Opts: w.Opts, Cfg: g, EventsOn: eventsOn, Seed: c.Rng.Int63()})
			switch {
			case h.Inconclusive != "":
				c.Inconclusive(h.Inconclusive)
				return
			case h.Died != "":
				evals++
				c.Count("runs.disk", 1)
				c.Violate("partition:disk", "the process reading the on-disk chunks back dies",
					base(map[string]any{"clause": "crash:" + h.Died, "stderr": h.Stderr}))
				continue
			case h.Reply.Error != "":
				c.Violate("error:disk", "the chunk iterator returned an error", base(map[string]any{"error": h.Reply.Error}))
				continue
			}
			chunks = h.Reply.Chunks
		} else {
			c.Risk(modeName(disk))
			var done bool
			var err error
			chunks, done, err = runChunker(c.Rng, w, g)
			if !done {
				c.Inconclusive("the chunk iterator did not finish within 180 s")
				return
			}
			if err != nil {
				c.Violate("error:"+modeName(disk), "the chunk iterator returned an error", base(map[string]any{"error": err.Error()}))
				continue
			}
		}
		evals++
		c.Count("runs."+modeName(disk), 1)
		clause, d := partitionClause(w, chunks, g.Chunks)
		if clause != "" {
			c.Violate("partition:"+modeName(disk), "the chunks are not a partition of the input records (every record once, unchanged, equal sequences together)",
				base(map[string]any{"clause": clause, "witness": d, "chunks": len(chunks)}))
		}
		if w.NSeqs > g.Chunks && len(chunks) > 0 {
			c.Key("chunks/%v/%d/%d.%d/z%d/e%v", disk, g.Chunks, g.InBatch, g.DistBatch, sizeClass(len(w.Recs)), eventsOn)
		}
	}

	// (b) the files of the on-disk store at the moment WriterDispatcher returns
	// ("The function blocks until all writing jobs are completed"), then again
	// after every registered writer has finished.
	g.Disk = true
	store := filepath.Join(dir, "store")
	os.MkdirAll(store, 0o755)
	seqs := buildSeqs(c.Rng, w.Recs, gen.C06Order(nil, len(w.Recs), false))
	obioptions.SetBatchSize(g.DistBatch)
	c.Risk("dispatcher")
	it := obiiter.IBatchOver("c06", seqs, g.InBatch)
	obiformats.WriterDispatcher(store+"/chunk_%s.fastx", it.Distribute(obiseq.HashClassifier(g.Chunks)), obiformats.WriteSequencesToFile)
	files1, size1, titles1 := storeFiles(store)
	obiiter.WaitForLastPipe()
	files2, size2, titles2 := storeFiles(store)
	evals++
	d := base(map[string]any{"files_on_return": files1, "bytes_on_return": size1, "records_on_return": titles1,
		"files_after_writers_finished": files2, "bytes_after_writers_finished": size2, "records_after_writers_finished": titles2})
	switch {
	case titles2 != len(w.Recs):
		c.Violate("dispatcher:records-not-written", "the files written by WriterDispatcher do not hold every record even after all writers have finished", d)
	case size1 != size2 || titles1 != titles2:
		c.Count("dispatcher_incomplete_on_return", 1)
		c.Violate("dispatcher:files-incomplete-on-return", "WriterDispatcher returns before the files are completely written: the on-disk store reads them back at that moment", d)
	default:
		c.Count("dispatcher_complete_on_return", 1)
	}
	if c.Idx < 2 {
		c.Sample(d)
	}
}
