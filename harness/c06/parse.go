package c06

// A small FASTA reader with JSON title-line annotations (encoding/json), used to
// observe what the commands wrote. It is independent of the readers of obitools4.

import (
	"bytes"
	"encoding/json"
	"fmt"
	"strings"
)

// outRec is one observed output record.
type outRec struct {
	ID  string
	Seq string
	Ann map[string]any // as decoded by encoding/json: float64, string, bool, map[string]any, []any
}

// parseFasta parses FASTA text whose title lines are ">id", ">id {json}" or ">id {json} definition".
func parseFasta(data []byte) ([]outRec, error) {
	var recs []outRec
	var cur *outRec
	var seq strings.Builder
	flush := func() {
		if cur != nil {
			cur.Seq = seq.String()
			recs = append(recs, *cur)
			cur = nil
			seq.Reset()
		}
	}
	for ln, line := range bytes.Split(data, []byte{'\n'}) {
		line = bytes.TrimRight(line, "\r")
		if len(line) == 0 {
			continue
		}
		if line[0] == '>' {
			flush()
			title := string(line[1:])
			id, rest, _ := strings.Cut(title, " ")
			cur = &outRec{ID: id, Ann: map[string]any{}}
			rest = strings.TrimSpace(rest)
			if strings.HasPrefix(rest, "{") {
				dec := json.NewDecoder(strings.NewReader(rest))
				if err := dec.Decode(&cur.Ann); err != nil {
					return nil, fmt.Errorf("line %d: title-line annotations are not a JSON object: %v", ln+1, err)
				}
			}
			continue
		}
		if cur == nil {
			return nil, fmt.Errorf("line %d: sequence data before the first title line", ln+1)
		}
		seq.Write(bytes.TrimSpace(line))
	}
	flush()
	return recs, nil
}

// annFromJSON turns a JSON object text into the same representation.
func annFromJSON(b []byte) (map[string]any, error) {
	m := map[string]any{}
	if len(b) == 0 {
		return m, nil
	}
	err := json.Unmarshal(b, &m)
	return m, err
}
