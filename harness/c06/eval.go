package c06

// Evaluation of one workload under several configurations, shared by the
// in-process and the command sub-checks: every execution is compared with the
// reference; a disagreement is classified by the oracle clause that failed or,
// when the same workload is dereplicated correctly under another configuration,
// by the axis the result depends on.

import (
	"verifh/core"
	"verifh/gen"
	"verifh/ref"
)

// execResult is what one execution of the target delivered.
type execResult struct {
	OK           bool // Outs holds the output records
	Outs         []outRec
	Raw          []byte // the bytes the command wrote (commands only)
	FailCause    string // no output: classified failure ("error", "command-failed:obiuniq:panic", ...)
	FailWhat     string
	Detail       map[string]any // added to the detail of a violation of this execution
	Inconclusive string         // the execution proves nothing (watchdog, cannot start)
}

type evaluator struct {
	c         *core.Ctx
	w         *gen.C06Workload
	all, kept map[string]*ref.C06Class
	exec      func(g cfg) execResult
	baseHeld  bool
	evals     int
	n         int
	prefix    string   // put before clause causes ("uniq:", "law:")
	lastOuts  []outRec // output of the last configuration evaluated by run
	lastHeld  bool
	lastRaw   []byte
	noSample  bool
	reported  map[string]bool // causes already reported for this case
}

func newEvaluator(c *core.Ctx, w *gen.C06Workload, exec func(g cfg) execResult) *evaluator {
	e := &evaluator{c: c, w: w, exec: exec}
	e.all, e.kept = ref.C06Derep(w.Recs, w.Opts)
	return e
}

// check executes g and compares with the reference. held=true: agreement.
func (e *evaluator) check(g cfg) (res execResult, diffs []diff, held bool) {
	res = e.exec(g)
	if res.Inconclusive != "" {
		return res, nil, false
	}
	if !res.OK {
		return res, nil, false
	}
	e.evals++
	var totalObs int
	diffs, totalObs = compare(e.all, e.kept, res.Outs, e.w.Opts, 1000)
	if totalObs == totalCount(e.kept) {
		e.c.Count("runs_total_count_conserved", 1)
	}
	e.c.Count("runs."+modeName(g.Disk), 1)
	if g.Permuted {
		e.c.Count("runs.permuted", 1)
	}
	recordKey(e.c, e.w, g, e.all)
	return res, diffs, len(diffs) == 0
}

// run evaluates one configuration; false = stop the case (inconclusive execution).
func (e *evaluator) run(g cfg) bool {
	c := e.c
	first := e.n == 0
	e.n++
	res, diffs, held := e.check(g)
	e.lastOuts, e.lastHeld, e.lastRaw = res.Outs, held, res.Raw
	if res.Inconclusive != "" {
		c.Inconclusive(res.Inconclusive)
		return false
	}
	if first {
		e.baseHeld = held
	}
	if first && !e.noSample {
		s := workloadSample(e.w, g, e.all, e.kept)
		for k, v := range res.Detail {
			if k != "input" {
				s[k] = v
			}
		}
		c.Sample(s)
	}
	if held {
		return true
	}
	// what failed, as oracle clauses
	var clauses []diff
	if !res.OK {
		clauses = []diff{{Cause: res.FailCause, What: res.FailWhat, Detail: map[string]any{}}}
	} else {
		clauses = diffs
	}
	// does the result depend on the configuration?
	axis := ""
	if g.Disk {
		twin := g
		twin.Disk = false
		tres, _, theld := e.check(twin)
		if tres.Inconclusive == "" && theld {
			axis = "mode"
		}
	}
	if axis == "" && g.Axis != "base" && e.baseHeld && res.OK {
		axis = g.Axis
	}
	if axis != "" {
		var cl []string
		var ex []map[string]any
		for i, d := range clauses {
			if i >= 3 {
				break
			}
			cl = append(cl, d.Cause)
			ex = append(ex, violationDetail(e.w, g, d))
		}
		detail := map[string]any{"options": e.w.Opts, "config": g, "records": len(e.w.Recs), "failed_clauses": cl, "examples": ex}
		for k, v := range res.Detail {
			detail[k] = v
		}
		what := "the same multiset of records is dereplicated correctly under another configuration but not under this one (axis: " + axis + ")"
		if axis == "mode" {
			what = "the on-disk mode gives a result different from the reference while the in-memory mode, all other settings equal, gives the reference result"
		}
		c.Violate("config-dependent:"+axis, what, detail)
		return true
	}
	if e.reported == nil {
		e.reported = map[string]bool{}
	}
	n := 0
	for _, d := range clauses {
		if n >= 4 {
			break
		}
		if e.reported[d.Cause] {
			continue // one witness per cause and case
		}
		e.reported[d.Cause] = true
		n++
		detail := violationDetail(e.w, g, d)
		for k, v := range res.Detail {
			detail[k] = v
		}
		cause := e.prefix + d.Cause
		if !res.OK {
			cause = d.Cause // a process that died: the cause names how and where, whatever the step
		}
		c.Violate(cause, d.What, detail)
	}
	return true
}

func (e *evaluator) finish() {
	e.c.Count("evaluations", e.evals)
	e.c.Count("input_records", len(e.w.Recs))
	e.c.Count("expected_classes", len(e.all))
}
