package main

import _ "verifh/c04"
