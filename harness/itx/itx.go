// Package itx: helpers to drive the real obiiter combinators with chosen
// batch partitions and arrival orders, and to record what comes out at the
// iterator boundary.
package itx

import (
	"fmt"
	"math/rand"
	"sort"

	"git.metabarcoding.org/obitools/obitools4/obitools4/pkg/obiiter"
	"git.metabarcoding.org/obitools/obitools4/obitools4/pkg/obiseq"
)

// Rec is the harness-side description of a record (ground truth).
type Rec struct {
	ID  string
	Seq string
	K   int // attribute "k"
}

// MkRecs creates n records prefix0..prefix(n-1); sequence lengths 8..19, attribute k = i%3.
func MkRecs(r *rand.Rand, prefix string, n int) []Rec {
	out := make([]Rec, n)
	for i := range out {
		l := 8 + r.Intn(12)
		s := make([]byte, l)
		for j := range s {
			s[j] = "acgt"[r.Intn(4)]
		}
		out[i] = Rec{ID: fmt.Sprintf("%s%d", prefix, i), Seq: string(s), K: r.Intn(3)}
	}
	return out
}

// Bio builds the real sequence object of a record.
func (r Rec) Bio() *obiseq.BioSequence {
	s := obiseq.NewBioSequence(r.ID, []byte(r.Seq), "")
	s.SetAttribute("k", r.K)
	return s
}

// Partition cuts recs into len(sizes) consecutive parts of the given sizes (sum must be len(recs)).
func Partition(recs []Rec, sizes []int) [][]Rec {
	var out [][]Rec
	p := 0
	for _, s := range sizes {
		out = append(out, recs[p:p+s])
		p += s
	}
	return out
}

// RandSizes draws nb batch sizes from {0,1,2,3,5}; forceEmpty puts at least one empty batch when nb>0.
func RandSizes(r *rand.Rand, nb int, emptyPermille int) []int {
	sz := make([]int, nb)
	for i := range sz {
		if r.Intn(1000) < emptyPermille {
			sz[i] = 0
		} else {
			sz[i] = []int{1, 2, 3, 5}[r.Intn(4)]
		}
	}
	return sz
}

func Sum(x []int) int {
	t := 0
	for _, v := range x {
		t += v
	}
	return t
}

// Perms returns all permutations of 0..n-1 when n <= exhaustiveUpTo, otherwise k random ones (the identity first).
func Perms(r *rand.Rand, n, exhaustiveUpTo, k int) [][]int {
	id := make([]int, n)
	for i := range id {
		id[i] = i
	}
	if n <= exhaustiveUpTo {
		var out [][]int
		var rec func(a []int, i int)
		rec = func(a []int, i int) {
			if i == len(a) {
				out = append(out, append([]int{}, a...))
				return
			}
			for j := i; j < len(a); j++ {
				a[i], a[j] = a[j], a[i]
				rec(a, i+1)
				a[i], a[j] = a[j], a[i]
			}
		}
		rec(append([]int{}, id...), 0)
		if len(out) == 0 {
			out = [][]int{{}}
		}
		return out
	}
	out := [][]int{id}
	for len(out) < k {
		out = append(out, r.Perm(n))
	}
	return out
}

// OutOfOrder counts the arrivals that are not the next expected number.
func OutOfOrder(perm []int) int {
	n := 0
	next := 0
	seen := map[int]bool{}
	for _, p := range perm {
		if p != next {
			n++
		}
		seen[p] = true
		for seen[next] {
			next++
		}
	}
	return n
}

// Feed pushes the parts, numbered by their index, into a fresh iterator in the arrival order perm.
func Feed(parts [][]Rec, perm []int) obiiter.IBioSequence {
	bios := make([]obiseq.BioSequenceSlice, len(parts))
	for i, p := range parts {
		bios[i] = obiseq.MakeBioSequenceSlice(0)
		for _, r := range p {
			bios[i] = append(bios[i], r.Bio())
		}
	}
	return FeedBio(bios, perm)
}

// FeedBio is Feed for ready-made slices.
func FeedBio(bios []obiseq.BioSequenceSlice, perm []int) obiiter.IBioSequence {
	it := obiiter.MakeIBioSequence()
	it.Add(1)
	go func() {
		for _, k := range perm {
			it.Push(obiiter.MakeBioSequenceBatch("src", k, bios[k]))
		}
		it.Done()
	}()
	go it.WaitAndClose()
	return it
}

// Obs is one batch as observed at the output boundary.
type Obs struct {
	Order int      `json:"order"`
	IDs   []string `json:"ids"`
}

// Drain consumes an iterator and records every batch in arrival order.
func Drain(it obiiter.IBioSequence) []Obs {
	var out []Obs
	for it.Next() {
		b := it.Get()
		o := Obs{Order: b.Order(), IDs: []string{}}
		for _, s := range b.Slice() {
			if s == nil {
				o.IDs = append(o.IDs, "<nil>")
			} else {
				o.IDs = append(o.IDs, s.Id())
			}
		}
		out = append(out, o)
	}
	return out
}

// Numbering checks that the batch numbers are exactly 0..m-1; returns "" or "gap"/"dup".
func Numbering(obs []Obs) string {
	seen := map[int]int{}
	for _, o := range obs {
		seen[o.Order]++
	}
	for _, n := range seen {
		if n > 1 {
			return "dup"
		}
	}
	for i := 0; i < len(obs); i++ {
		if seen[i] == 0 {
			return "gap"
		}
	}
	return ""
}

// SameNumbers checks that the output numbers are exactly the set want.
func SameNumbers(obs []Obs, want []int) bool {
	if len(obs) != len(want) {
		return false
	}
	a := make([]int, 0, len(obs))
	for _, o := range obs {
		a = append(a, o.Order)
	}
	b := append([]int{}, want...)
	sort.Ints(a)
	sort.Ints(b)
	for i := range a {
		if a[i] != b[i] {
			return false
		}
	}
	return true
}

// ByNumber returns the ids in batch-number order (stable for equal numbers).
func ByNumber(obs []Obs) []string {
	o2 := append([]Obs{}, obs...)
	sort.SliceStable(o2, func(i, j int) bool { return o2[i].Order < o2[j].Order })
	var ids []string
	for _, o := range o2 {
		ids = append(ids, o.IDs...)
	}
	return ids
}

// InArrival returns the ids in arrival order.
func InArrival(obs []Obs) []string {
	var ids []string
	for _, o := range obs {
		ids = append(ids, o.IDs...)
	}
	return ids
}

// IDs lists the ids of records.
func IDs(recs []Rec) []string {
	out := make([]string, len(recs))
	for i, r := range recs {
		out[i] = r.ID
	}
	return out
}

// Flatten concatenates the parts in index order.
func Flatten(parts [][]Rec) []Rec {
	var out []Rec
	for _, p := range parts {
		out = append(out, p...)
	}
	return out
}

// CompareSeq classifies the difference between an observed and an expected id list:
// "" equal, "lost", "dup", "extra", "reorder".
func CompareSeq(got, want []string) string {
	if len(got) == len(want) {
		eq := true
		for i := range got {
			if got[i] != want[i] {
				eq = false
				break
			}
		}
		if eq {
			return ""
		}
	}
	return CompareMultiset(got, want, true)
}

// CompareMultiset compares as multisets; when orderMatters and the multisets are equal it returns "reorder".
func CompareMultiset(got, want []string, orderMatters bool) string {
	g := map[string]int{}
	for _, x := range got {
		g[x]++
	}
	w := map[string]int{}
	for _, x := range want {
		w[x]++
	}
	for k, n := range w {
		if g[k] < n {
			return "lost"
		}
	}
	for k, n := range g {
		if w[k] == 0 {
			return "extra"
		}
		if n > w[k] {
			return "dup"
		}
	}
	if orderMatters {
		return "reorder"
	}
	return ""
}
