package main

import _ "verifh/c18"
