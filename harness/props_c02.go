package main

import _ "verifh/c02"
