package c16

import (
	"fmt"
	"os"
	"path/filepath"
	"sort"
	"strings"

	log "github.com/sirupsen/logrus"

	"verifh/cmdx"
	"verifh/core"
)

func readDir(dir string, fastq bool) (map[string][]outRec, error) {
	out := map[string][]outRec{}
	ents, err := os.ReadDir(dir)
	if err != nil {
		return nil, err
	}
	for _, e := range ents {
		b, err := os.ReadFile(filepath.Join(dir, e.Name()))
		if err != nil {
			return nil, err
		}
		recs, err := parseOutput(b, fastq)
		if err != nil {
			return nil, fmt.Errorf("%s: %v", e.Name(), err)
		}
		out[e.Name()] = recs
	}
	return out, nil
}

func runDistribute(c *core.Ctx) {
	log.SetLevel(log.ErrorLevel)
	mode := []string{"-c", "-H", "-n", "-c-d"}[c.Idx%4]
	fastq := c.Rng.Intn(3) == 0
	recs := mkRecords(c.Rng, 40+c.Rng.Intn(80), fastq, false)
	slashValues := mode == "-c" && c.Idx%8 == 4
	if slashValues {
		// class values that differ only by '/' against '_' (sample names such as "x/y" and "x_y"): two
		// classes, two files (the first one in the sub-directory part_x, created beforehand)
		for i := range recs {
			switch recs[i].Sample {
			case "aa":
				recs[i].Sample = "x/y"
			case "ab":
				recs[i].Sample = "x_y"
			}
		}
	}
	dir := filepath.Join(c.Dir, fmt.Sprintf("dist-%d", c.Idx))
	defer os.RemoveAll(dir)
	// two runs: original order and a shuffled order, different parallel settings
	orders := [][]int{nil, c.Rng.Perm(len(recs))}
	orders[0] = make([]int, len(recs))
	for i := range orders[0] {
		orders[0][i] = i
	}
	var fileOf []map[string]string // record key -> file
	nparts := 2 + c.Rng.Intn(4)
	for run, ord := range orders {
		od := filepath.Join(dir, fmt.Sprintf("run%d", run))
		os.MkdirAll(od, 0o755)
		if slashValues {
			os.MkdirAll(filepath.Join(od, "part_x"), 0o755)
		}
		var rs []R
		for _, i := range ord {
			rs = append(rs, recs[i])
		}
		in := filepath.Join(dir, fmt.Sprintf("in%d.fa", run))
		os.MkdirAll(dir, 0o755)
		os.WriteFile(in, render(rs, fastq), 0o644)
		args := []string{"--no-progressbar", "--max-cpu", fmt.Sprint([]int{1, 4, 16}[c.Rng.Intn(3)]), "--batch-size", fmt.Sprint([]int{1, 7, 100}[c.Rng.Intn(3)]),
			"-p", "part_%s.fa"}
		switch mode {
		case "-c":
			args = append(args, "-c", "sample")
		case "-c-d":
			args = append(args, "-c", "sample", "-d", "k")
		case "-H":
			args = append(args, "-H", fmt.Sprint(nparts))
		case "-n":
			args = append(args, "-n", fmt.Sprint(nparts))
		}
		args = append(args, in)
		res := cmdx.Run(filepath.Join(c.BinDir, "obidistribute"), args, cmdx.Opt{Dir: od})
		c.Count("evaluations", 1)
		det := map[string]any{"args": args, "records": len(recs), "exit": res.Exit, "stderr": cmdx.Diag(res.Stderr, 3000)}
		if res.TimedOut {
			c.Inconclusive("watchdog on obidistribute")
			return
		}
		if res.Exit != 0 {
			c.Violate("exit:"+mode, "obidistribute fails", det)
			return
		}
		files := map[string][]outRec{}
		filepath.Walk(od, func(p string, info os.FileInfo, err error) error {
			if err == nil && !info.IsDir() {
				b, _ := os.ReadFile(p)
				rr, perr := parseOutput(b, fastq)
				if perr != nil {
					files["UNPARSABLE:"+p] = nil
				} else {
					rel, _ := filepath.Rel(od, p)
					files[rel] = rr
				}
			}
			return nil
		})
		seen := map[string]int{}
		where := map[string]string{}
		for name, rr := range files {
			if strings.HasPrefix(name, "UNPARSABLE") {
				c.Violate("unparsable:"+mode, "an output file cannot be parsed", det)
				return
			}
			for _, g := range rr {
				seen[g.ID+"|"+g.Seq]++
				where[g.ID+"|"+g.Seq] = name
			}
		}
		for _, r := range recs {
			k := r.ID + "|" + r.Seq
			if seen[k] != 1 {
				det["record"] = r.ID
				det["times_output"] = seen[k]
				cause := "lost"
				if seen[k] > 1 {
					cause = "duplicated"
				}
				c.Violate("partition:"+cause+":"+mode, "obidistribute does not route every record to exactly one output file", det)
				return
			}
		}
		if len(seen) != len(recs) {
			c.Violate("partition:extra:"+mode, "obidistribute outputs records that are not in the input", det)
			return
		}
		// -c: the file is named after the attribute value
		if mode == "-c" {
			for _, r := range recs {
				want := "part_" + r.Sample + ".fa"
				if r.Sample == "" {
					want = "part_NA.fa"
				}
				if where[r.ID+"|"+r.Seq] != want {
					det["record"] = r
					det["file"] = where[r.ID+"|"+r.Seq]
					c.Violate("routing:-c", "a record is not in the file of its classifier value", det)
					return
				}
			}
		}
		fileOf = append(fileOf, where)
		if run == 0 {
			var names []string
			for n := range files {
				names = append(names, n)
			}
			sort.Strings(names)
			c.Sample(map[string]any{"mode": mode, "records": len(recs), "files": names})
		}
	}
	// record-alone routing: same record -> same file whatever the order / batching (not for -n, which deals records round-robin)
	if mode != "-n" {
		for k, f := range fileOf[0] {
			if fileOf[1][k] != f {
				c.Violate("routing:order-dependent:"+mode, "the output file of a record depends on the order of the input or on the batching",
					map[string]any{"record": k, "file_run0": f, "file_run1": fileOf[1][k]})
				return
			}
		}
	}
	c.Key("distribute/%s/%d", mode, len(recs)/20)
}

func init() {
	ng, na := len(grepKinds), len(annotKinds)
	core.Register(&core.Property{
		ID:    "C16",
		Level: "exploration",
		Rule: "inputs with controlled attribute values (counts 1..9 or absent, lengths 20..200 on the option boundaries, lower-case ids/definitions, sample/k attributes present or absent, taxids over a fixed 12-node taxonomy with an alias and an unknown id); obigrep: every selection option alone, every pair, random larger subsets with repeated options, -v and --save-discarded, checked against a reference interpreter (stdout = selected records in order and unchanged, discarded file = complement), paired inputs over the six --paired-mode values, inputs of 1200-3600 records cut into hundreds of batches (forced read buffer of 150-550 bytes, yields) with 2-32 filter workers; obiannotate: every edit option alone, every pair, random larger subsets, reference applies the edits in the command's fixed order and demands equality of the whole record; dependent map options and out-of-range --cut only have to be deterministic / a function of the record alone (orders, batch sizes, worker counts varied); obidistribute: union of files = input exactly once, file named after the classifier value, same record -> same file under reordering. " +
			"Added later: reserved names (id, sequence, qualities) as attribute keys, id lists holding a line of 4 KiB-200 kB, -s patterns with upper-case escapes and named groups, class values differing by '/' and '_'. Attributes present with the value null, false or 0 (-A keeps them). " +
			"distinct_nontrivial = distinct option-subset signatures for which both outcomes (kept and dropped) were observed (obigrep) or which were compared on all records (obiannotate, obidistribute)",
		Assume: []string{"reference semantics of DESIGN.md Appendix A.2 / A.3", "-I/-D patterns and data are lower case (documented vs actual case sensitivity is not at stake)", "expressions only reference attributes every record has"},
		Subs: []core.Sub{
			{Name: "grep", N: core.Const(ng+ng*(ng-1)/2+60, ng+ng*(ng-1)/2+4000), Run: runGrep},
			{Name: "grep-manybatches", N: core.Const(12, 200), Run: runGrepManyBatches},
			{Name: "grep-paired", N: core.Const(24, 600), Run: runGrepPaired},
			{Name: "annotate", N: core.Const(na+na*(na-1)/2+40, na+na*(na-1)/2+3000), Run: runAnnotate},
			{Name: "annotate-selected", N: core.Const(24, 800), Run: runAnnotateSelected},
			{Name: "annotate-dependent", N: core.Const(6, 60), Run: runAnnotateDependent},
			{Name: "annotate-cut", N: core.Const(16, 400), Run: runCutFree},
			{Name: "distribute", N: core.Const(24, 480), Run: runDistribute},
		},
		Cmds:          []string{"obigrep", "obiannotate", "obidistribute"},
		MinNontrivial: 80,
	})
}
