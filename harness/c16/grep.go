package c16

import (
	"fmt"
	"os"
	"path/filepath"
	"regexp"
	"sort"
	"strings"

	"verifh/cmdx"
	"verifh/core"
)

// crit is one selection criterion: command-line arguments + reference predicate.
type crit struct {
	opt  string // option name (for classification)
	args []string
	pred func(r R) bool
}

// mkCrit draws a criterion of the given kind with values at / around the boundaries of the data.
func mkCrit(c *core.Ctx, kind string, recs []R, dir string) crit {
	rx := func(p string) *regexp.Regexp { return regexp.MustCompile(p) }
	switch kind {
	case "-l":
		n := []int{20, 21, 50, 51, 100, 101, 150}[c.Rng.Intn(7)]
		return crit{kind, []string{"-l", fmt.Sprint(n)}, func(r R) bool { return len(r.Seq) >= n }}
	case "-L":
		n := []int{20, 49, 50, 99, 100, 150, 199}[c.Rng.Intn(7)]
		return crit{kind, []string{"-L", fmt.Sprint(n)}, func(r R) bool { return len(r.Seq) <= n }}
	case "-c":
		n := 2 + c.Rng.Intn(7)
		return crit{kind, []string{"-c", fmt.Sprint(n)}, func(r R) bool { return r.count() >= n }}
	case "-C":
		n := 1 + c.Rng.Intn(8)
		return crit{kind, []string{"-C", fmt.Sprint(n)}, func(r R) bool { return r.count() <= n }}
	case "-I":
		p := []string{"a$", "^seq0[0-4]", "x", "seq.[13579]"}[c.Rng.Intn(4)]
		re := rx(p)
		return crit{kind, []string{"-I", p}, func(r R) bool { return re.MatchString(r.ID) }}
	case "-D":
		p := []string{"alpha", "^beta", "gamma$", "a b"}[c.Rng.Intn(4)]
		re := rx(p)
		return crit{kind, []string{"-D", p}, func(r R) bool { return re.MatchString(r.Def) }}
	case "-s":
		// plain patterns, and patterns using the upper-case escapes and named groups of the regular
		// expression syntax (matching is case-insensitive, the syntax of the pattern is not)
		p := []string{"^ac", "GAT", "ttt+a", "c[at]g$", `\Aac`, `^\S+$`, `c\Bg`, `(?P<core>gat)`, `\Qgat\E`, `a\Wc`, `^[^\D]`, `t\z`}[c.Rng.Intn(12)]
		re := rx("(?i)" + p)
		return crit{kind, []string{"-s", p}, func(r R) bool { return re.MatchString(r.Seq) }}
	case "-a":
		if c.Rng.Intn(2) == 0 {
			p := []string{"^a", "b", "^bc$"}[c.Rng.Intn(3)]
			re := rx(p)
			return crit{kind, []string{"-a", "sample=" + p}, func(r R) bool { return r.Sample != "" && re.MatchString(r.Sample) }}
		}
		if c.Rng.Intn(5) == 0 {
			// a pattern on a key that is the name of a part of the record, not of an annotation
			key := []string{"id", "sequence"}[c.Rng.Intn(2)]
			return crit{kind, []string{"-a", key + "=^[a-z]"}, func(r R) bool { return false }}
		}
		p := []string{"^1", "^[0-5]$", "1$"}[c.Rng.Intn(3)]
		re := rx(p)
		return crit{kind, []string{"-a", "k=" + p}, func(r R) bool { return r.K >= 0 && re.MatchString(fmt.Sprint(r.K)) }}
	case "-A":
		// "id", "sequence" and "qualities" are parts of a record, not annotations: no record has them
		k := []string{"sample", "k", "count", "definition", "nosuchkey", "id", "sequence", "qualities", "flag", "flag", "flag", "flag"}[c.Rng.Intn(12)]
		return crit{kind, []string{"-A", k}, func(r R) bool { _, ok := r.annotations()[k]; return ok }}
	case "--id-list":
		set := map[string]bool{}
		var lines []string
		for _, r := range recs {
			if c.Rng.Intn(3) == 0 {
				set[r.ID] = true
				lines = append(lines, r.ID)
			}
		}
		lines = append(lines, "not_an_id")
		if c.Rng.Intn(3) == 0 && len(lines) > 2 {
			// a very long line (longer than the 64 KiB of the usual line scanners) in the middle of the list
			at := 1 + c.Rng.Intn(len(lines)-1)
			long := strings.Repeat("x", []int{4096, 65535, 65536, 70000, 200000}[c.Rng.Intn(5)])
			lines = append(lines[:at], append([]string{long}, lines[at:]...)...)
		}
		// the list is "one identifier per line": an identifier holds no blank, so blanks or tabs around it
		// (an indented list, an empty second column, a trailing blank), empty lines and CRLF line ends do not
		// change which identifier a line names (CLIIdListPredicate trims every line)
		if c.Rng.Intn(2) == 0 {
			for i := range lines {
				switch c.Rng.Intn(8) {
				case 0:
					lines[i] = lines[i] + " "
				case 1:
					lines[i] = lines[i] + "\t"
				case 2:
					lines[i] = "  " + lines[i]
				case 3:
					lines[i] = "\t" + lines[i] + " \t "
				}
			}
			if c.Rng.Intn(2) == 0 {
				at := c.Rng.Intn(len(lines))
				lines = append(lines[:at], append([]string{[]string{"", " ", "\t"}[c.Rng.Intn(3)]}, lines[at:]...)...)
			}
		}
		eol := "\n"
		if c.Rng.Intn(4) == 0 {
			eol = "\r\n"
		}
		p := filepath.Join(dir, fmt.Sprintf("ids-%d.txt", c.Rng.Intn(1e9)))
		os.WriteFile(p, []byte(strings.Join(lines, eol)+eol), 0o644)
		return crit{kind, []string{"--id-list", p}, func(r R) bool { return set[r.ID] }}
	case "-p":
		switch c.Rng.Intn(4) {
		case 0:
			n := 30 + c.Rng.Intn(150)
			return crit{kind, []string{"-p", fmt.Sprintf("sequence.Len() > %d", n)}, func(r R) bool { return len(r.Seq) > n }}
		case 1:
			n := 1 + c.Rng.Intn(8)
			return crit{kind, []string{"-p", fmt.Sprintf("sequence.Count() >= %d", n)}, func(r R) bool { return r.count() >= n }}
		case 2:
			n := 40 + c.Rng.Intn(100)
			return crit{kind, []string{"-p", fmt.Sprintf("sequence.Len() <= %d || sequence.Count() == 1", n)}, func(r R) bool { return len(r.Seq) <= n || r.count() == 1 }}
		default:
			n := 50 + c.Rng.Intn(100)
			return crit{kind, []string{"-p", fmt.Sprintf("!(sequence.Len() < %d) && sequence.Count() < 9", n)}, func(r R) bool { return !(len(r.Seq) < n) && r.count() < 9 }}
		}
	case "-r":
		t := []int{10, 11, 12, 15, 20, 13, 99}[c.Rng.Intn(7)]
		return crit{kind, []string{"-r", fmt.Sprint(t)}, func(r R) bool { return r.Taxid > 0 && inClade(r.Taxid, t) }}
	case "-i":
		t := []int{10, 11, 12, 15, 20, 22}[c.Rng.Intn(6)]
		return crit{kind, []string{"-i", fmt.Sprint(t)}, func(r R) bool { return !(r.Taxid > 0 && inClade(r.Taxid, t)) }}
	case "--approx-pattern":
		// a window of one of the records, with up to three substitutions, on either strand
		src := recs[c.Rng.Intn(len(recs))].Seq
		l := 6 + c.Rng.Intn(10)
		if l > len(src) {
			l = len(src)
		}
		at := c.Rng.Intn(len(src) - l + 1)
		pat := []byte(src[at : at+l])
		for i := c.Rng.Intn(4); i > 0; i-- {
			pat[c.Rng.Intn(l)] = "acgt"[c.Rng.Intn(4)]
		}
		if c.Rng.Intn(2) == 0 {
			pat = []byte(revComp(string(pat)))
		}
		ps, po := string(pat), curPat
		return crit{kind, []string{"--approx-pattern", ps}, func(r R) bool {
			return hammingFind(r.Seq, ps, po.err) || (!po.onlyForward && hammingFind(r.Seq, revComp(ps), po.err))
		}}
	case "--require-rank":
		rk := []string{"genus", "family", "species", "kingdom"}[c.Rng.Intn(4)]
		return crit{kind, []string{"--require-rank", rk}, func(r R) bool { return r.Taxid > 0 && hasRank(r.Taxid, rk) }}
	}
	panic("unknown criterion " + kind)
}

// patOpts: --pattern-error and --only-forward apply to every --approx-pattern of the command.
type patOpts struct {
	err         int
	onlyForward bool
}

var curPat patOpts

func revComp(s string) string {
	out := make([]byte, len(s))
	for i := range s {
		out[len(s)-1-i] = map[byte]byte{'a': 't', 'c': 'g', 'g': 'c', 't': 'a'}[s[i]]
	}
	return string(out)
}

// hammingFind: does pat occur in seq (entirely inside it) with at most e substitutions?
func hammingFind(seq, pat string, e int) bool {
	for s := 0; s+len(pat) <= len(seq); s++ {
		mm := 0
		for j := 0; j < len(pat) && mm <= e; j++ {
			if seq[s+j] != pat[j] {
				mm++
			}
		}
		if mm <= e {
			return true
		}
	}
	return false
}

var grepKinds = []string{"--approx-pattern", "-l", "-L", "-c", "-C", "-I", "-D", "-s", "-a", "-A", "--id-list", "-p", "-r", "-i", "--require-rank"}
var taxKinds = map[string]bool{"-r": true, "-i": true, "--require-rank": true}

// chooseKinds: singles, then all pairs, then random larger subsets (with repeats of repeatable options).
func chooseKinds(c *core.Ctx) []string {
	n := len(grepKinds)
	idx := c.Idx
	if idx < n {
		return []string{grepKinds[idx]}
	}
	idx -= n
	if idx < n*(n-1)/2 {
		for i := 0; i < n; i++ {
			for j := i + 1; j < n; j++ {
				if idx == 0 {
					return []string{grepKinds[i], grepKinds[j]}
				}
				idx--
			}
		}
	}
	k := 3 + c.Rng.Intn(5)
	var out []string
	for i := 0; i < k; i++ {
		out = append(out, grepKinds[c.Rng.Intn(n)])
	}
	return out
}

var repeatable = map[string]bool{"--approx-pattern": true, "-a": true, "-A": true, "-p": true, "-r": true, "-i": true, "--require-rank": true, "-I": true, "-D": true, "-s": true}

func runGrep(c *core.Ctx) {
	kinds := chooseKinds(c)
	// non repeatable options appear once
	seen := map[string]bool{}
	var ks []string
	for _, k := range kinds {
		if seen[k] && !repeatable[k] {
			continue
		}
		seen[k] = true
		ks = append(ks, k)
	}
	withTax := false
	for _, k := range ks {
		if taxKinds[k] {
			withTax = true
		}
	}
	fastq := c.Rng.Intn(3) == 0
	recs := mkRecords(c.Rng, 40+c.Rng.Intn(60), fastq, withTax)
	dir := filepath.Join(c.Dir, fmt.Sprintf("grep-%d", c.Idx))
	os.MkdirAll(dir, 0o755)
	defer os.RemoveAll(dir)
	in := filepath.Join(dir, "in.fa")
	os.WriteFile(in, render(recs, fastq), 0o644)
	var crits []crit
	var args []string
	aKeys := map[string]bool{}
	curPat = patOpts{err: c.Rng.Intn(3), onlyForward: c.Rng.Intn(3) == 0}
	if seen["--approx-pattern"] {
		if curPat.err > 0 || c.Rng.Intn(2) == 0 {
			args = append(args, "--pattern-error", fmt.Sprint(curPat.err))
		}
		if curPat.onlyForward {
			args = append(args, "--only-forward")
		}
	}
	for _, k := range ks {
		cr := mkCrit(c, k, recs, dir)
		if k == "-a" { // -a is a map option: one pattern per key
			key := strings.SplitN(cr.args[1], "=", 2)[0]
			if aKeys[key] {
				continue
			}
			aKeys[key] = true
		}
		// -r is a disjunction over its occurrences: handled below
		crits = append(crits, cr)
		args = append(args, cr.args...)
	}
	if withTax {
		tdir := filepath.Join(dir, "taxdump")
		writeTaxdump(tdir)
		args = append(args, "-t", tdir)
	}
	invert := c.Idx%5 == 4
	saveDiscarded := c.Idx%3 == 2
	if invert {
		args = append(args, "-v")
	}
	disc := filepath.Join(dir, "discarded.fa")
	if saveDiscarded {
		args = append(args, "--save-discarded", disc)
	}
	selected := func(r R) bool {
		ok := true
		rAny, rSeen := false, false
		for _, cr := range crits {
			if cr.opt == "-r" {
				rSeen = true
				rAny = rAny || cr.pred(r)
				continue
			}
			ok = ok && cr.pred(r)
		}
		if rSeen {
			ok = ok && rAny
		}
		if invert {
			return !ok
		}
		return ok
	}
	var want, wantDisc []R
	for _, r := range recs {
		if selected(r) {
			want = append(want, r)
		} else {
			wantDisc = append(wantDisc, r)
		}
	}
	var opts []string
	for _, cr := range crits {
		opts = append(opts, cr.opt)
	}
	sort.Strings(opts)
	sig := strings.Join(opts, " ")
	if invert {
		sig += " -v"
	}
	if saveDiscarded {
		sig += " --save-discarded"
	}
	cfgs := [][2]int{{1, 100}, {4, 7}, {16, 1}}
	cfg := cfgs[c.Rng.Intn(3)]
	full := append([]string{"--no-progressbar", "--max-cpu", fmt.Sprint(cfg[0]), "--batch-size", fmt.Sprint(cfg[1])}, args...)
	full = append(full, in)
	res := cmdx.Run(filepath.Join(c.BinDir, "obigrep"), full, cmdx.Opt{})
	c.Count("evaluations", 1)
	c.Count("records_compared", len(recs))
	det := map[string]any{"args": args, "records": len(recs), "config": cfg, "exit": res.Exit, "stderr": cmdx.Diag(res.Stderr, 3000)}
	if c.Idx < 3 || c.Idx%50 == 0 {
		c.Sample(map[string]any{"args": args, "records": len(recs), "expected_kept": len(want)})
	}
	if res.TimedOut {
		c.Inconclusive("watchdog on obigrep")
		return
	}
	if res.Exit != 0 {
		c.Violate("exit:"+sig, "obigrep fails", det)
		return
	}
	got, err := parseOutput(res.Stdout, fastq)
	if err != nil {
		det["error"] = err.Error()
		c.Violate("output-unparsable", "obigrep output cannot be parsed", det)
		return
	}
	if len(want) > 0 && len(wantDisc) > 0 {
		c.Key("grep/%s", sig)
	}
	cmp := func(what string, got []outRec, want []R) bool {
		var gi, wi []string
		for _, g := range got {
			gi = append(gi, g.ID)
		}
		for _, w := range want {
			wi = append(wi, w.ID)
		}
		if strings.Join(gi, " ") != strings.Join(wi, " ") {
			// which single option, if ignored, explains the output?
			cause := "selection"
			for skip := range crits {
				okAll := true
				var alt []string
				for _, r := range recs {
					ok := true
					rAny, rSeen := false, false
					for i, cr := range crits {
						if i == skip {
							continue
						}
						if cr.opt == "-r" {
							rSeen = true
							rAny = rAny || cr.pred(r)
							continue
						}
						ok = ok && cr.pred(r)
					}
					if rSeen {
						ok = ok && rAny
					}
					if invert {
						ok = !ok
					}
					if (what == "stdout") == ok {
						alt = append(alt, r.ID)
					}
				}
				if okAll && strings.Join(alt, " ") == strings.Join(gi, " ") {
					cause = "option-ignored:" + crits[skip].opt
					break
				}
			}
			det["got_ids"] = gi
			det["want_ids"] = wi
			c.Violate(what+":"+cause, "obigrep does not keep exactly the records satisfying every requested criterion ("+what+")", det)
			return false
		}
		for i, g := range got {
			if f := sameRecord(g, want[i].ID, want[i].Seq, want[i].Qual, want[i].annotations()); f != "" {
				det["record"] = want[i]
				det["got"] = g
				c.Violate(what+":record-changed:"+f, "obigrep changes a record it keeps", det)
				return false
			}
		}
		return true
	}
	if !cmp("stdout", got, want) {
		return
	}
	if saveDiscarded {
		b, err := os.ReadFile(disc)
		if err != nil && len(wantDisc) > 0 {
			c.Violate("discarded:file-missing", "the --save-discarded file was not written", det)
			return
		}
		gd, err := parseOutput(b, fastq)
		if err != nil {
			det["error"] = err.Error()
			c.Violate("discarded:unparsable", "the --save-discarded file cannot be parsed", det)
			return
		}
		cmp("discarded", gd, wantDisc)
	}
}

// ---------------------------------------------------------------- many batches

// runGrepManyBatches: the same oracle on inputs that reach the filter as hundreds of batches (read
// buffer forced to a few hundred bytes) with several filter workers: the selection must not depend
// on the way the stream is cut nor on the worker that handles a batch.
func runGrepManyBatches(c *core.Ctx) {
	fastq := c.Idx%3 == 0
	recs := mkRecords(c.Rng, c.Pick(1200, 3000)+c.Rng.Intn(600), fastq, false)
	for i := range recs {
		recs[i].ID = fmt.Sprintf("s%05d", i)
	}
	dir := filepath.Join(c.Dir, fmt.Sprintf("grepmb-%d", c.Idx))
	os.MkdirAll(dir, 0o755)
	defer os.RemoveAll(dir)
	in := filepath.Join(dir, "in.fa")
	os.WriteFile(in, render(recs, fastq), 0o644)
	for rep := 0; rep < c.Pick(3, 6); rep++ {
		kind := []string{"-l", "-L", "-c", "-s", "-p", "-a", "--approx-pattern"}[c.Rng.Intn(7)]
		curPat = patOpts{err: 1}
		cr := mkCrit(c, kind, recs, dir)
		args := append([]string{}, cr.args...)
		if kind == "--approx-pattern" {
			args = append(args, "--pattern-error", "1")
		}
		invert := c.Rng.Intn(4) == 0
		if invert {
			args = append(args, "-v")
		}
		saveDiscarded := c.Rng.Intn(2) == 0
		disc := filepath.Join(dir, "discarded.fa")
		os.Remove(disc)
		if saveDiscarded {
			args = append(args, "--save-discarded", disc)
		}
		var want, wantDisc []string
		for _, r := range recs {
			if cr.pred(r) != invert {
				want = append(want, r.ID)
			} else {
				wantDisc = append(wantDisc, r.ID)
			}
		}
		cpu := []int{2, 4, 8, 16, 32}[c.Rng.Intn(5)]
		chunk := 150 + c.Rng.Intn(400)
		full := append([]string{"--no-progressbar", "--max-cpu", fmt.Sprint(cpu)}, args...)
		full = append(full, in)
		res := cmdx.Run(filepath.Join(c.BinDir, "obigrep"), full, cmdx.Opt{Env: []string{
			fmt.Sprintf("OBIVERIF_CHUNK=%d", chunk), fmt.Sprintf("OBIVERIF_YIELD=%d:200:50", c.Rng.Intn(1e6))}})
		c.Count("evaluations", 1)
		c.Count("records_compared", len(recs))
		det := map[string]any{"args": args, "records": len(recs), "max_cpu": cpu, "forced_read_buffer": chunk, "exit": res.Exit, "stderr": cmdx.Diag(res.Stderr, 2000)}
		if res.TimedOut {
			if res.Deadlock {
				c.Violate("many-batches:deadlock", "obigrep never terminates", det)
			} else {
				c.Inconclusive("watchdog on obigrep")
			}
			return
		}
		if res.Exit != 0 {
			c.Violate("many-batches:exit", "obigrep fails", det)
			return
		}
		ids := func(b []byte) ([]string, error) {
			out, err := parseOutput(b, fastq)
			var l []string
			for _, o := range out {
				l = append(l, o.ID)
			}
			return l, err
		}
		got, err := ids(res.Stdout)
		if err != nil {
			c.Violate("many-batches:output-unparsable", "obigrep output cannot be parsed", det)
			return
		}
		c.Key("grep-many/%s/%v/%v/%d", kind, invert, saveDiscarded, cpu)
		if rep == 0 && c.Idx < 2 {
			c.Sample(map[string]any{"args": args, "records": len(recs), "approx_batches": len(render(recs, fastq)) / chunk, "expected_kept": len(want)})
		}
		explain := func(got, want []string) string {
			gs := map[string]int{}
			for _, g := range got {
				gs[g]++
			}
			lost, dup := 0, 0
			for _, w := range want {
				if gs[w] == 0 {
					lost++
				} else if gs[w] > 1 {
					dup++
				}
			}
			switch {
			case lost > 0 && dup > 0:
				return "lost+duplicated"
			case lost > 0:
				return "lost"
			case dup > 0:
				return "duplicated"
			case len(got) != len(want):
				return "extra"
			}
			return "order"
		}
		if strings.Join(got, " ") != strings.Join(want, " ") {
			det["got_count"], det["want_count"] = len(got), len(want)
			c.Violate("many-batches:stdout:"+explain(got, want), "obigrep over a stream of many batches does not output exactly the selected records in input order", det)
			return
		}
		if saveDiscarded {
			b, _ := os.ReadFile(disc)
			gd, err := ids(b)
			if err != nil || strings.Join(gd, " ") != strings.Join(wantDisc, " ") {
				det["got_count"], det["want_count"] = len(gd), len(wantDisc)
				c.Violate("many-batches:discarded:"+explain(gd, wantDisc), "the --save-discarded file of a stream of many batches is not the complement of the selection in input order", det)
				return
			}
		}
	}
}

// ---------------------------------------------------------------- paired input

func runGrepPaired(c *core.Ctx) {
	mode := []string{"forward", "reverse", "and", "or", "andnot", "xor"}[c.Idx%6]
	n := 30 + c.Rng.Intn(50)
	fwd := mkRecords(c.Rng, n, true, false)
	rev := mkRecords(c.Rng, n, true, false)
	for i := range rev {
		rev[i].ID = fwd[i].ID
	}
	dir := filepath.Join(c.Dir, fmt.Sprintf("gp-%d", c.Idx))
	os.MkdirAll(dir, 0o755)
	defer os.RemoveAll(dir)
	f1, f2 := filepath.Join(dir, "r1.fastq"), filepath.Join(dir, "r2.fastq")
	os.WriteFile(f1, render(fwd, true), 0o644)
	os.WriteFile(f2, render(rev, true), 0o644)
	cr := mkCrit(c, []string{"-l", "-L", "-c", "-a", "-p", "-s"}[c.Rng.Intn(6)], fwd, dir)
	out := filepath.Join(dir, "out.fastq")
	args := append([]string{"--no-progressbar", "--max-cpu", fmt.Sprint(1 + c.Rng.Intn(8)), "--batch-size", fmt.Sprint(1 + c.Rng.Intn(20)),
		"--paired-with", f2, "--paired-mode", mode, "-o", out}, cr.args...)
	args = append(args, f1)
	res := cmdx.Run(filepath.Join(c.BinDir, "obigrep"), args, cmdx.Opt{})
	c.Count("evaluations", 1)
	det := map[string]any{"args": args, "mode": mode, "exit": res.Exit, "stderr": cmdx.Diag(res.Stderr, 3000)}
	if res.TimedOut {
		c.Inconclusive("watchdog on obigrep (paired)")
		return
	}
	if res.Exit != 0 {
		c.Violate("exit:"+mode, "obigrep fails on paired input", det)
		return
	}
	b1, e1 := os.ReadFile(filepath.Join(dir, "out_R1.fastq"))
	b2, e2 := os.ReadFile(filepath.Join(dir, "out_R2.fastq"))
	var want []int
	for i := range fwd {
		a, b := cr.pred(fwd[i]), cr.pred(rev[i])
		ok := a
		switch mode {
		case "reverse":
			ok = b
		case "and":
			ok = a && b
		case "or":
			ok = a || b
		case "andnot":
			ok = a && !b
		case "xor":
			ok = a != b
		}
		if ok {
			want = append(want, i)
		}
	}
	if e1 != nil || e2 != nil {
		if len(want) == 0 {
			return
		}
		c.Violate("files-missing:"+mode, "the paired output files were not written", det)
		return
	}
	g1, err1 := parseOutput(b1, true)
	g2, err2 := parseOutput(b2, true)
	if err1 != nil || err2 != nil {
		c.Violate("unparsable:"+mode, "a paired output file cannot be parsed", det)
		return
	}
	if len(want) > 0 && len(want) < n {
		c.Key("paired/%s/%s", mode, cr.opt)
	}
	if len(g1) != len(g2) {
		det["r1"], det["r2"] = len(g1), len(g2)
		c.Violate("mate-desync:count:"+mode, "the two output files do not hold the same number of records", det)
		return
	}
	var gi, wi []string
	for i := range g1 {
		if g1[i].ID != g2[i].ID {
			c.Violate("mate-desync:rank:"+mode, "mates are not at the same rank of the two output files", det)
			return
		}
		gi = append(gi, g1[i].ID)
	}
	for _, i := range want {
		wi = append(wi, fwd[i].ID)
	}
	if strings.Join(gi, " ") != strings.Join(wi, " ") {
		det["got_ids"], det["want_ids"] = gi, wi
		c.Violate("selection:"+mode, "the pairs kept are not those selected by the paired mode", det)
		return
	}
	for k, i := range want {
		if g1[k].Seq != fwd[i].Seq || g2[k].Seq != rev[i].Seq {
			c.Violate("mate-swapped:"+mode, "a kept pair does not hold the two mates of the input pair", det)
			return
		}
	}
	if c.Idx < 6 {
		c.Sample(map[string]any{"mode": mode, "criterion": cr.args, "pairs": n, "kept": len(want)})
	}
}
