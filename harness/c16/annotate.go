package c16

import (
	"bytes"
	"regexp"
	"fmt"
	"os"
	"path/filepath"
	"sort"
	"strings"

	"verifh/cmdx"
	"verifh/core"
)

// edit is one obiannotate option with its reference semantics; rank gives the fixed application order.
type edit struct {
	opt   string
	rank  int
	args  []string
	apply func(o *outRec, r R)
}

// curCount is the count of the record in its current state (the attribute may have been removed by an earlier edit).
func curCount(o *outRec) int {
	switch v := o.Annot["count"].(type) {
	case int:
		return v
	case float64:
		return int(v)
	}
	return 1
}

func cloneAnnot(m map[string]any) map[string]any {
	c := map[string]any{}
	for k, v := range m {
		c[k] = v
	}
	return c
}

var annotKinds = []string{"--clear", "--set-identifier", "--delete-tag", "--keep", "--rename-tag", "--length", "-S", "--cut"}

func mkEdit(c *core.Ctx, kind string, minLen int, used map[string]bool) (edit, bool) {
	switch kind {
	case "--clear":
		return edit{kind, 1, []string{"--clear"}, func(o *outRec, r R) { o.Annot = map[string]any{} }}, true
	case "--set-identifier":
		return edit{kind, 2, []string{"--set-identifier", `printf("x%v_%s", sequence.Len(), sequence.Id())`},
			func(o *outRec, r R) { o.ID = fmt.Sprintf("x%d_%s", len(o.Seq), o.ID) }}, true
	case "--delete-tag":
		k := []string{"sample", "k", "count", "definition", "nosuchkey"}[c.Rng.Intn(5)]
		if used["del:"+k] {
			return edit{}, false
		}
		used["del:"+k] = true
		return edit{kind, 3, []string{"--delete-tag", k}, func(o *outRec, r R) { delete(o.Annot, k) }}, true
	case "--keep":
		k := []string{"sample", "k", "count"}[c.Rng.Intn(3)]
		if used["keep:"+k] {
			return edit{}, false
		}
		used["keep:"+k] = true
		// several --keep options keep the union: handled by the caller through keepSet
		return edit{kind, 4, []string{"--keep", k}, nil}, true
	case "--rename-tag":
		pairs := [][2]string{{"origin", "sample"}, {"kk", "k"}, {"abundance", "count"}, {"newname", "nosuchkey"}}
		p := pairs[c.Rng.Intn(len(pairs))]
		if used["ren:"+p[1]] {
			return edit{}, false
		}
		used["ren:"+p[1]] = true
		return edit{kind, 5, []string{"--rename-tag", p[0] + "=" + p[1]}, func(o *outRec, r R) {
			if v, ok := o.Annot[p[1]]; ok {
				o.Annot[p[0]] = v
				delete(o.Annot, p[1])
			}
		}}, true
	case "--length":
		return edit{kind, 6, []string{"--length"}, func(o *outRec, r R) { o.Annot["seq_length"] = len(o.Seq) }}, true
	case "-S":
		type ex struct {
			key, expr string
			val       func(o *outRec, r R) any
		}
		exs := []ex{
			{"dbl", "sequence.Len()*2", func(o *outRec, r R) any { return len(o.Seq) * 2 }},
			{"cst", `"abc"`, func(o *outRec, r R) any { return "abc" }},
			{"c1", "sequence.Count()+1", func(o *outRec, r R) any { return curCount(o) + 1 }},
			{"big", "sequence.Len() > 60", func(o *outRec, r R) any { return len(o.Seq) > 60 }},
		}
		e := exs[c.Rng.Intn(len(exs))]
		if used["set:"+e.key] {
			return edit{}, false
		}
		used["set:"+e.key] = true
		return edit{kind, 7, []string{"-S", e.key + "=" + e.expr}, func(o *outRec, r R) { o.Annot[e.key] = e.val(o, r) }}, true
	case "--cut":
		a := 1 + c.Rng.Intn(minLen-1)
		b := a + c.Rng.Intn(minLen-a+1)
		if b == a {
			b = a + 1
			if b > minLen {
				a, b = 1, 2
			}
		}
		return edit{kind, 8, []string{"--cut", fmt.Sprintf("%d:%d", a, b)}, func(o *outRec, r R) {
			o.ID = fmt.Sprintf("%s_sub[%d..%d]", o.ID, a, b)
			o.Seq = o.Seq[a-1 : b]
			if o.Qual != "" {
				o.Qual = o.Qual[a-1 : b]
			}
		}}, true
	}
	panic(kind)
}

// runAnnotateSelected: obiannotate together with a selection option: the selected records must all be
// output, edited, in input order (what happens to the unselected ones is free).
func runAnnotateSelected(c *core.Ctx) { annotate(c, true) }

func runAnnotate(c *core.Ctx) { annotate(c, false) }

func annotate(c *core.Ctx, withSelection bool) {
	// option subsets: singles, pairs, larger
	n := len(annotKinds)
	var kinds []string
	idx := c.Idx
	switch {
	case idx < n:
		kinds = []string{annotKinds[idx]}
	case idx < n+n*(n-1)/2:
		idx -= n
		for i := 0; i < n && kinds == nil; i++ {
			for j := i + 1; j < n; j++ {
				if idx == 0 {
					kinds = []string{annotKinds[i], annotKinds[j]}
					break
				}
				idx--
			}
		}
	default:
		k := 3 + c.Rng.Intn(6)
		for i := 0; i < k; i++ {
			kinds = append(kinds, annotKinds[c.Rng.Intn(n)])
		}
	}
	fastq := c.Rng.Intn(3) == 0
	recs := mkRecords(c.Rng, 30+c.Rng.Intn(50), fastq, false)
	minLen := 1 << 30
	for _, r := range recs {
		minLen = min(minLen, len(r.Seq))
	}
	used := map[string]bool{}
	var edits []edit
	once := map[string]bool{}
	hasCut, hasLen := false, false
	for _, k := range kinds {
		if once[k] && (k == "--clear" || k == "--set-identifier" || k == "--length" || k == "--cut") {
			continue
		}
		if (k == "--cut" && hasLen) || (k == "--length" && hasCut) {
			continue // whether seq_length is taken before or after the cut is free
		}
		e, ok := mkEdit(c, k, minLen, used)
		if !ok {
			continue
		}
		once[k] = true
		hasCut = hasCut || k == "--cut"
		hasLen = hasLen || k == "--length"
		edits = append(edits, e)
	}
	sort.SliceStable(edits, func(i, j int) bool { return edits[i].rank < edits[j].rank })
	var args, opts []string
	keepSet := map[string]bool{}
	for _, e := range edits {
		args = append(args, e.args...)
		opts = append(opts, e.opt)
		if e.opt == "--keep" {
			keepSet[e.args[1]] = true
		}
	}
	dir := filepath.Join(c.Dir, fmt.Sprintf("ann-%d-%v", c.Idx, withSelection))
	os.MkdirAll(dir, 0o755)
	defer os.RemoveAll(dir)
	selected := func(r R) bool { return true }
	nfiles := 1
	if withSelection {
		// the records are spread over several input files (each file makes its own batches) and
		// whole files are deselected, so that whole batches are emptied in front of selected ones
		nfiles = 3 + c.Rng.Intn(3)
		dropFile := c.Rng.Intn(nfiles - 1)
		for i := range recs {
			recs[i].Sample = "aa"
			f := i * nfiles / len(recs)
			if f == dropFile || (f != nfiles-1 && c.Rng.Intn(4) == 0) {
				recs[i].Sample = "zz"
			}
		}
		cr := mkCrit(c, "-a", recs, dir)
		cr = crit{"-a", []string{"-a", "sample=^a"}, func(r R) bool { return strings.HasPrefix(r.Sample, "a") }}
		args = append(args, cr.args...)
		opts = append(opts, "[-a]")
		selected = cr.pred
	}
	in := filepath.Join(dir, "in.fa")
	os.WriteFile(in, render(recs, fastq), 0o644)
	inputs := []string{in}
	if nfiles > 1 {
		inputs = nil
		for f := 0; f < nfiles; f++ {
			lo, hi := f*len(recs)/nfiles, (f+1)*len(recs)/nfiles
			// record i belongs to file i*nfiles/len: recompute the bounds accordingly
			var part []R
			for i, r := range recs {
				if i*nfiles/len(recs) == f {
					part = append(part, r)
				}
			}
			_, _ = lo, hi
			p := filepath.Join(dir, fmt.Sprintf("in%d.fa", f))
			os.WriteFile(p, render(part, fastq), 0o644)
			inputs = append(inputs, p)
		}
	}
	cfgs := [][2]int{{1, 100}, {4, 7}, {16, 1}}
	if withSelection {
		cfgs = [][2]int{{4, 7}, {16, 1}, {2, 3}}
	}
	cfg := cfgs[c.Rng.Intn(3)]
	full := append([]string{"--no-progressbar", "--max-cpu", fmt.Sprint(cfg[0]), "--batch-size", fmt.Sprint(cfg[1])}, args...)
	full = append(full, inputs...)
	res := cmdx.Run(filepath.Join(c.BinDir, "obiannotate"), full, cmdx.Opt{})
	c.Count("evaluations", 1)
	c.Count("records_compared", len(recs))
	sig := strings.Join(opts, " ")
	det := map[string]any{"args": args, "records": len(recs), "config": cfg, "exit": res.Exit, "stderr": cmdx.Diag(res.Stderr, 3000)}
	if c.Idx < 3 || c.Idx%40 == 0 {
		c.Sample(map[string]any{"args": args, "records": len(recs)})
	}
	if res.TimedOut {
		c.Inconclusive("watchdog on obiannotate")
		return
	}
	if res.Exit != 0 {
		c.Violate("exit:"+sig, "obiannotate fails", det)
		return
	}
	got, err := parseOutput(res.Stdout, fastq)
	if err != nil {
		det["error"] = err.Error()
		c.Violate("output-unparsable", "obiannotate output cannot be parsed", det)
		return
	}
	if withSelection {
		// keep the selected records only, on both sides (the others are free)
		var rs []R
		selIDs := map[string]bool{}
		for _, r := range recs {
			if selected(r) {
				rs = append(rs, r)
			}
		}
		recs = rs
		// the input id is still recognisable inside the (possibly edited) output id
		for _, r := range recs {
			selIDs[r.ID] = true
		}
		idRx := regexp.MustCompile(`seq[0-9]{3}[abx]?`)
		var gs []outRec
		for _, g := range got {
			if selIDs[idRx.FindString(g.ID)] {
				gs = append(gs, g)
			}
		}
		got = gs
	}
	if len(got) != len(recs) {
		det["got_records"] = len(got)
		det["want_records"] = len(recs)
		c.Violate("record-count:"+sig, "obiannotate does not output every (selected) record", det)
		return
	}
	c.Key("annotate/%s", sig)
	for i, r := range recs {
		want := outRec{ID: r.ID, Seq: r.Seq, Qual: r.Qual, Annot: cloneAnnot(r.annotations())}
		keptDone := false
		for _, e := range edits {
			if e.opt == "--keep" {
				if !keptDone {
					for k := range want.Annot {
						if !keepSet[k] {
							delete(want.Annot, k)
						}
					}
					keptDone = true
				}
				continue
			}
			e.apply(&want, r)
		}
		if f := sameRecord(got[i], want.ID, want.Seq, want.Qual, want.Annot); f != "" {
			// which single edit, if dropped, explains the output?
			cause := "record:" + f
			for skip := range edits {
				alt := outRec{ID: r.ID, Seq: r.Seq, Qual: r.Qual, Annot: cloneAnnot(r.annotations())}
				kd := false
				for j, e := range edits {
					if j == skip {
						continue
					}
					if e.opt == "--keep" {
						if !kd {
							ks := map[string]bool{}
							for jj, ee := range edits {
								if ee.opt == "--keep" && jj != skip {
									ks[ee.args[1]] = true
								}
							}
							for k := range alt.Annot {
								if !ks[k] {
									delete(alt.Annot, k)
								}
							}
							kd = true
						}
						continue
					}
					e.apply(&alt, r)
				}
				if sameRecord(got[i], alt.ID, alt.Seq, alt.Qual, alt.Annot) == "" {
					cause = "edit-dropped:" + edits[skip].opt
					break
				}
			}
			det["record"] = r
			det["got"] = got[i]
			det["want"] = want
			c.Violate(cause, "obiannotate does not apply every requested edit (and nothing else) to a record", det)
			return
		}
	}
}

// runAnnotateDependent: dependent map-valued options only have to be deterministic from run to run.
func runAnnotateDependent(c *core.Ctx) {
	recs := mkRecords(c.Rng, 40, false, false)
	for i := range recs {
		recs[i].Sample = []string{"aa", "ab", "bc"}[c.Rng.Intn(3)]
		recs[i].K = c.Rng.Intn(9)
	}
	dir := filepath.Join(c.Dir, fmt.Sprintf("dep-%d", c.Idx))
	os.MkdirAll(dir, 0o755)
	defer os.RemoveAll(dir)
	in := filepath.Join(dir, "in.fa")
	os.WriteFile(in, render(recs, false), 0o644)
	sets := [][]string{
		{"-R", "b=sample", "-R", "c=b"},
		{"-R", "k=sample", "-R", "sample=k"},
		{"-S", "x=sequence.Len()", "-S", "y=annotations.x"},
	}
	args := sets[c.Idx%len(sets)]
	var first []byte
	for run := 0; run < c.Pick(6, 20); run++ {
		full := append([]string{"--no-progressbar", "--max-cpu", fmt.Sprint(1 + c.Rng.Intn(8)), "--batch-size", fmt.Sprint(1 + c.Rng.Intn(30))}, args...)
		full = append(full, in)
		res := cmdx.Run(filepath.Join(c.BinDir, "obiannotate"), full, cmdx.Opt{})
		c.Count("evaluations", 1)
		if res.TimedOut {
			c.Inconclusive("watchdog on obiannotate")
			return
		}
		if res.Exit != 0 {
			// an expression that cannot be evaluated may legitimately fail; but it must fail every time
			res.Stdout = []byte(fmt.Sprintf("EXIT %d", res.Exit))
		}
		if first == nil {
			first = res.Stdout
			continue
		}
		if !bytes.Equal(first, res.Stdout) {
			kind := "rename"
			if args[0] == "-S" {
				kind = "set-tag"
			}
			c.Violate("nondeterministic:"+kind, "the same obiannotate command on the same input gives different outputs from run to run",
				map[string]any{"args": args, "first": cmdx.Tail(first, 400), "other": cmdx.Tail(res.Stdout, 400)})
			return
		}
	}
	c.Key("dependent/%v", args)
	c.Sample(map[string]any{"args": args, "runs_compared": c.Pick(6, 20)})
}

// runCutFree: --cut with bounds beyond the sequence or negative: the result must be a function of the record alone.
func runCutFree(c *core.Ctx) {
	fastq := c.Idx%2 == 0
	recs := mkRecords(c.Rng, 40, fastq, false)
	a := []int{1, 3, 30, 120, -10, -50, -150}[c.Rng.Intn(7)]
	b := []int{25, 60, 150, 500, -1, -5, -40}[c.Rng.Intn(7)]
	dir := filepath.Join(c.Dir, fmt.Sprintf("cut-%d", c.Idx))
	os.MkdirAll(dir, 0o755)
	defer os.RemoveAll(dir)
	orders := [][]int{}
	idn := make([]int, len(recs))
	for i := range idn {
		idn[i] = i
	}
	rev := make([]int, len(recs))
	for i := range rev {
		rev[i] = len(recs) - 1 - i
	}
	bylen := append([]int{}, idn...)
	sort.SliceStable(bylen, func(i, j int) bool { return len(recs[bylen[i]].Seq) < len(recs[bylen[j]].Seq) })
	orders = append(orders, idn, rev, bylen, c.Rng.Perm(len(recs)))
	var ref map[string]string
	for oi, ord := range orders {
		var rs []R
		for _, i := range ord {
			rs = append(rs, recs[i])
		}
		in := filepath.Join(dir, fmt.Sprintf("in%d.fa", oi))
		os.WriteFile(in, render(rs, fastq), 0o644)
		args := []string{"--no-progressbar", "--max-cpu", fmt.Sprint([]int{1, 2, 8}[c.Rng.Intn(3)]), "--batch-size", fmt.Sprint([]int{1, 7, 100}[c.Rng.Intn(3)]),
			"--cut", fmt.Sprintf("%d:%d", a, b), in}
		res := cmdx.Run(filepath.Join(c.BinDir, "obiannotate"), args, cmdx.Opt{})
		c.Count("evaluations", 1)
		if res.TimedOut {
			c.Inconclusive("watchdog on obiannotate --cut")
			return
		}
		out := map[string]string{}
		if res.Exit == 0 {
			got, err := parseOutput(res.Stdout, fastq)
			if err != nil {
				c.Violate("cut:unparsable", "obiannotate --cut output cannot be parsed", map[string]any{"cut": []int{a, b}, "fastq": fastq, "error": err.Error(), "stdout": cmdx.Tail(res.Stdout, 1500)})
				return
			}
			for _, g := range got {
				base := g.ID
				if i := strings.Index(base, "_sub["); i >= 0 {
					base = base[:i]
				}
				out[base] = g.ID + "|" + g.Seq + "|" + g.Qual
			}
		} else {
			out["EXIT"] = fmt.Sprint(res.Exit)
		}
		if ref == nil {
			ref = out
			continue
		}
		for _, r := range recs {
			if ref[r.ID] != out[r.ID] {
				c.Violate("cut:depends-on-other-records", "the result of --cut on a record depends on the other records / their order / the batching",
					map[string]any{"cut": fmt.Sprintf("%d:%d", a, b), "record": r.ID, "length": len(r.Seq), "in_input_order": ref[r.ID], "in_other_order": out[r.ID], "order": oi})
				return
			}
		}
	}
	c.Key("cutfree/%d/%d", a, b)
	c.Sample(map[string]any{"cut": fmt.Sprintf("%d:%d", a, b), "orders_compared": len(orders)})
}
