// Package c16: obigrep, obiannotate, obidistribute act on each record as their options say.
package c16

import (
	"encoding/json"
	"fmt"
	"math/rand"
	"os"
	"path/filepath"
	"sort"
	"strings"

	"verifh/gen"
)

// R is a record with controlled attribute values (ground truth).
type R struct {
	ID     string
	Def    string
	Seq    string
	Qual   string
	Count  int  // 0 = attribute absent (counts as 1)
	Sample string // "" = absent
	K      int  // -1 = absent
	Taxid  int  // 0 = absent
	Extra  map[string]any
}

// annotations returns the attribute map of the record as the toolkit sees it after parsing.
func (r R) annotations() map[string]any {
	m := map[string]any{}
	if r.Def != "" {
		m["definition"] = r.Def
	}
	if r.Count > 0 {
		m["count"] = r.Count
	}
	if r.Sample != "" {
		m["sample"] = r.Sample
	}
	if r.K >= 0 {
		m["k"] = r.K
	}
	if r.Taxid > 0 {
		m["taxid"] = r.Taxid
	}
	for k, v := range r.Extra {
		m[k] = v
	}
	return m
}

func (r R) count() int {
	if r.Count > 0 {
		return r.Count
	}
	return 1
}

func (r R) render(fastq bool) string {
	a := r.annotations()
	title := ""
	if len(a) > 0 {
		b, _ := json.Marshal(a)
		title = " " + string(b)
	}
	if fastq {
		return fmt.Sprintf("@%s%s\n%s\n+\n%s\n", r.ID, title, r.Seq, r.Qual)
	}
	return fmt.Sprintf(">%s%s\n%s\n", r.ID, title, r.Seq)
}

func render(recs []R, fastq bool) []byte {
	var sb strings.Builder
	for _, r := range recs {
		sb.WriteString(r.render(fastq))
	}
	return []byte(sb.String())
}

// taxonomy: a fixed small tree written as an NCBI dump.
//
//	1 root (no rank)
//	├─ 10 kingdom A
//	│   ├─ 11 family A1 ── 12 genus ── 13 species, 14 species
//	│   └─ 15 family A2 ── 16 species (no genus)
//	└─ 20 kingdom B ── 21 family ── 22 genus ── 23 species
//	merged: 99 -> 13
var taxParent = map[int]int{1: 1, 10: 1, 11: 10, 12: 11, 13: 12, 14: 12, 15: 10, 16: 15, 20: 1, 21: 20, 22: 21, 23: 22}
var taxRank = map[int]string{1: "no rank", 10: "kingdom", 11: "family", 12: "genus", 13: "species", 14: "species", 15: "family", 16: "species", 20: "kingdom", 21: "family", 22: "genus", 23: "species"}
var taxAlias = map[int]int{99: 13}
var taxidsForRecords = []int{0, 10, 11, 12, 13, 14, 15, 16, 20, 21, 22, 23, 99, 777} // 777 unknown

func writeTaxdump(dir string) {
	os.MkdirAll(dir, 0o755)
	var nodes, names, merged strings.Builder
	var ids []int
	for id := range taxParent {
		ids = append(ids, id)
	}
	sort.Ints(ids)
	for _, id := range ids {
		fmt.Fprintf(&nodes, "%d\t|\t%d\t|\t%s\t|\t\t|\t0\t|\t1\t|\t1\t|\t1\t|\t0\t|\t1\t|\t0\t|\t0\t|\t\t|\n", id, taxParent[id], taxRank[id])
		fmt.Fprintf(&names, "%d\t|\ttaxon%d\t|\t\t|\tscientific name\t|\n", id, id)
	}
	for o, n := range taxAlias {
		fmt.Fprintf(&merged, "%d\t|\t%d\t|\n", o, n)
	}
	os.WriteFile(filepath.Join(dir, "nodes.dmp"), []byte(nodes.String()), 0o644)
	os.WriteFile(filepath.Join(dir, "names.dmp"), []byte(names.String()), 0o644)
	os.WriteFile(filepath.Join(dir, "merged.dmp"), []byte(merged.String()), 0o644)
}

func resolve(t int) (int, bool) {
	if n, ok := taxAlias[t]; ok {
		t = n
	}
	_, ok := taxParent[t]
	return t, ok
}

// inClade: is taxon t (resolved) a descendant-or-self of a?
func inClade(t, a int) bool {
	t, ok := resolve(t)
	if !ok {
		return false
	}
	a, ok = resolve(a)
	if !ok {
		return false
	}
	for {
		if t == a {
			return true
		}
		if taxParent[t] == t {
			return false
		}
		t = taxParent[t]
	}
}

func hasRank(t int, rank string) bool {
	t, ok := resolve(t)
	if !ok {
		return false
	}
	for {
		if taxRank[t] == rank {
			return true
		}
		if taxParent[t] == t {
			return false
		}
		t = taxParent[t]
	}
}

func mkRecords(r *rand.Rand, n int, fastq bool, withTax bool) []R {
	recs := make([]R, n)
	lens := []int{20, 21, 49, 50, 51, 99, 100, 101, 150, 200}
	for i := range recs {
		l := lens[r.Intn(len(lens))]
		if r.Intn(3) == 0 {
			l = 20 + r.Intn(181)
		}
		rec := R{ID: fmt.Sprintf("seq%03d%s", i, []string{"", "a", "b", "x"}[r.Intn(4)]), Seq: string(gen.DNA(r, l)), K: -1}
		if r.Intn(4) != 0 {
			rec.Def = []string{"alpha beta", "beta gamma", "gamma", "delta alpha"}[r.Intn(4)]
		}
		if r.Intn(4) != 0 {
			rec.Count = 1 + r.Intn(9)
		}
		if r.Intn(4) != 0 {
			rec.Sample = []string{"aa", "ab", "bc"}[r.Intn(3)]
		}
		if r.Intn(3) != 0 {
			rec.K = r.Intn(12)
		}
		if withTax {
			rec.Taxid = taxidsForRecords[r.Intn(len(taxidsForRecords))]
		}
		if r.Intn(4) == 0 {
			// an attribute that is present with the JSON value null (or false, or 0): present all the same
			rec.Extra = map[string]any{"flag": []any{nil, nil, false, 0}[r.Intn(4)]}
		}
		if fastq {
			q := make([]byte, l)
			for j := range q {
				q[j] = byte(33 + 5 + r.Intn(35))
			}
			rec.Qual = string(q)
		}
		recs[i] = rec
	}
	return recs
}

// outRec is a record parsed from a command output.
type outRec struct {
	ID    string
	Seq   string
	Qual  string
	Annot map[string]any
}

func parseOutput(b []byte, fastq bool) ([]outRec, error) {
	var frs []gen.FRec
	var err error
	if fastq {
		frs, err = gen.ParseFastq(b)
	} else {
		frs, err = gen.ParseFasta(b)
	}
	if err != nil {
		return nil, err
	}
	var out []outRec
	for _, f := range frs {
		o := outRec{ID: f.ID, Seq: f.Seq, Qual: f.Qual, Annot: map[string]any{}}
		if f.Title != "" {
			if err := json.Unmarshal([]byte(f.Title), &o.Annot); err != nil {
				return nil, fmt.Errorf("title of %s is not JSON: %s", f.ID, f.Title)
			}
		}
		out = append(out, o)
	}
	return out, nil
}

func canonJSON(v any) string {
	b, _ := json.Marshal(v)
	var x any
	json.Unmarshal(b, &x)
	b, _ = json.Marshal(x)
	return string(b)
}

// sameRecord: output record equals (id, seq, qual, annotations by value).
func sameRecord(o outRec, id, seq, qual string, annot map[string]any) string {
	switch {
	case o.ID != id:
		return "id"
	case o.Seq != seq:
		return "sequence"
	case qual != "" && o.Qual != qual:
		return "quality"
	case canonJSON(o.Annot) != canonJSON(annot):
		return "annotations"
	}
	return ""
}
