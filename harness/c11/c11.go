// Package c11: in-silico PCR returns exactly the amplicons the primers define, on either strand.
//
// The real obiapat.PCRSim / PCRSlice (cgo matcher underneath) and the real
// obipcr command are executed on generated templates; every execution is
// compared with a brute-force reference (ref.PCRPairs) or with another
// execution that the property relates to it (reverse-complemented template,
// rotated circular template, batch vs one by one, ASan build vs normal build).
package c11

import (
	"encoding/json"
	"fmt"
	"math/rand"
	"os"
	"os/exec"
	"path/filepath"
	"regexp"
	"sort"
	"strings"

	"git.metabarcoding.org/obitools/obitools4/obitools4/pkg/obiapat"
	"git.metabarcoding.org/obitools/obitools4/obitools4/pkg/obiseq"

	"verifh/core"
	"verifh/ref"
)

// ---------------------------------------------------------------------------
// running the real code

type tmpl struct {
	ID  string `json:"id"`
	Seq string `json:"seq"`
	// Ann: annotations the template already carries (a template that is itself the product of an
	// earlier PCR describes that PCR under the very names this one writes)
	Ann map[string]any `json:"ann,omitempty"`
}

type outRec struct {
	ID string `json:"id"`
	ref.PCRRec
}

type job struct {
	Cfg       ref.PCRConfig `json:"cfg"`
	Templates []tmpl        `json:"templates"`
	Mode      string        `json:"mode"` // sim: PCRSim on each template; slice: one PCRSlice call; worker: PCRSliceWorker
}

type jobResult struct {
	PerTemplate [][]outRec `json:"per_template,omitempty"` // mode sim
	Flat        []outRec   `json:"flat,omitempty"`         // mode slice / worker
}

func pcrOptions(cfg ref.PCRConfig) []obiapat.WithOption {
	opts := []obiapat.WithOption{
		obiapat.OptionForwardPrimer(cfg.Forward, cfg.FwdErr),
		obiapat.OptionReversePrimer(cfg.Reverse, cfg.RevErr),
		obiapat.OptionOnlyFullExtension(cfg.Full),
	}
	if cfg.MinLen > 0 {
		opts = append(opts, obiapat.OptionMinLength(cfg.MinLen))
	}
	if cfg.Ext >= 0 {
		opts = append(opts, obiapat.OptionWithExtension(cfg.Ext))
	}
	opts = append(opts, obiapat.OptionMaxLength(cfg.MaxLen))
	if cfg.Circular {
		opts = append(opts, obiapat.OptionCircular(true))
	}
	return opts
}

func asInt(v any) int {
	switch x := v.(type) {
	case int:
		return x
	case int64:
		return int(x)
	case float64:
		if x == float64(int(x)) {
			return int(x)
		}
	case json.Number:
		if i, err := x.Int64(); err == nil {
			return int(i)
		}
	}
	return -999
}

func asString(v any) string {
	if s, ok := v.(string); ok {
		return s
	}
	return fmt.Sprintf("<%v>", v)
}

func recOf(id, seq string, a map[string]any) outRec {
	return outRec{ID: id, PCRRec: ref.PCRRec{
		Seq: seq, Dir: asString(a["direction"]),
		FwdMatch: asString(a["forward_match"]), FwdErr: asInt(a["forward_error"]),
		RevMatch: asString(a["reverse_match"]), RevErr: asInt(a["reverse_error"]),
	}}
}

func convert(rs obiseq.BioSequenceSlice) []outRec {
	out := make([]outRec, 0, len(rs))
	for _, r := range rs {
		out = append(out, recOf(r.Id(), r.String(), r.Annotations()))
	}
	return out
}

func bioseq(t tmpl) *obiseq.BioSequence {
	s := obiseq.NewBioSequence(t.ID, []byte(t.Seq), "")
	for k, v := range t.Ann {
		if f, ok := v.(float64); ok && f == float64(int(f)) { // after the JSON round trip of a helper job
			v = int(f)
		}
		s.SetAttribute(k, v)
	}
	return s
}

// earlierPCR: the annotations left on a template by a previous amplification.
func earlierPCR(r *rand.Rand) map[string]any {
	return map[string]any{
		"direction":      []string{"forward", "reverse"}[r.Intn(2)],
		"forward_primer": "ggggggggggggggg", "reverse_primer": "ccccccccccccccc",
		"forward_match": "ggggggggagggggg", "reverse_match": "cccccccccccctcc",
		"forward_error": 1 + r.Intn(3), "reverse_error": 4 + r.Intn(3),
		"count": 1 + r.Intn(5),
	}
}

// runJob executes the job in this process.
func runJob(j *job) jobResult {
	var res jobResult
	opts := pcrOptions(j.Cfg)
	switch j.Mode {
	case "sim":
		for _, t := range j.Templates {
			res.PerTemplate = append(res.PerTemplate, convert(obiapat.PCRSim(bioseq(t), opts...)))
		}
	case "slice":
		var sl obiseq.BioSequenceSlice
		for _, t := range j.Templates {
			sl = append(sl, bioseq(t))
		}
		res.Flat = convert(obiapat.PCRSlice(sl, opts...))
	case "worker":
		var sl obiseq.BioSequenceSlice
		for _, t := range j.Templates {
			sl = append(sl, bioseq(t))
		}
		w := obiapat.PCRSliceWorker(opts...)
		// the same worker (same compiled patterns) is applied to two halves, as MakeISliceWorker does with successive batches
		h := len(sl) / 2
		a, _ := w(sl[:h])
		b, _ := w(sl[h:])
		res.Flat = append(convert(a), convert(b)...)
	}
	return res
}

func helperMain(args []string) int {
	if len(args) < 2 {
		return 2
	}
	b, err := os.ReadFile(args[0])
	if err != nil {
		fmt.Fprintln(os.Stderr, err)
		return 2
	}
	var j job
	if err := json.Unmarshal(b, &j); err != nil {
		fmt.Fprintln(os.Stderr, err)
		return 2
	}
	res := runJob(&j)
	ob, _ := json.Marshal(res)
	if err := os.WriteFile(args[1], ob, 0o644); err != nil {
		return 2
	}
	return 0
}

var helperSeq int

// contained tells whether the job must run in a helper process: circular
// templates with flanks make the library call log.Fatalf (known defect), which
// would otherwise kill the child and every other case of its shard.
func contained(cfg ref.PCRConfig) bool { return cfg.Circular && cfg.Ext >= 0 }

// execJob runs the job (in process, or in a helper process when contained).
// died: the helper process ended abnormally; stderr is its error output.
func execJob(c *core.Ctx, j *job) (res jobResult, died bool, stderr string) {
	if !contained(j.Cfg) {
		c.Risk("obiapat." + map[string]string{"sim": "PCRSim", "slice": "PCRSlice", "worker": "PCRSliceWorker"}[j.Mode])
		return runJob(j), false, ""
	}
	helperSeq++
	base := filepath.Join(c.Dir, fmt.Sprintf("c11job-%s-%d-%d", c.Sub, c.Idx, helperSeq))
	jb, _ := json.Marshal(j)
	os.WriteFile(base+".json", jb, 0o644)
	defer os.Remove(base + ".json")
	defer os.Remove(base + ".out")
	self, _ := os.Executable()
	cmd := exec.Command(self, "c11-pcr", base+".json", base+".out")
	var eb strings.Builder
	cmd.Stderr = &eb
	err := cmd.Run()
	if err != nil {
		return res, true, eb.String()
	}
	ob, err := os.ReadFile(base + ".out")
	if err != nil || json.Unmarshal(ob, &res) != nil {
		return res, true, "helper wrote no result: " + eb.String()
	}
	return res, false, ""
}

var negFrom = regexp.MustCompile(`from out of bounds -\d+ < 0`)

// crashCause classifies the death of a contained execution (helper or obipcr).
func crashCause(cfg ref.PCRConfig, templates []tmpl, stderr string) string {
	if cfg.Circular && cfg.Ext >= 0 && negFrom.MatchString(stderr) {
		for _, t := range templates {
			for _, p := range ref.PCRPairs([]byte(t.Seq), cfg) {
				if p.P-cfg.Ext < 0 {
					return "crash:circular-flank-before-origin"
				}
			}
		}
	}
	switch {
	case strings.Contains(stderr, "AddressSanitizer"):
		return "crash:asan"
	case strings.Contains(stderr, "panic:") || strings.Contains(stderr, "[signal SIG"):
		return "crash:panic"
	case strings.Contains(stderr, "level=fatal"):
		return "crash:fatalf"
	}
	return "crash:unexplained"
}

// relationCrash handles the death of a contained execution inside a relation sub-check:
// the Fatalf of circular templates with flanks is reported by the amplicons and e2e
// sub-checks (same inputs); here the case is only counted as not comparable.
func relationCrash(c *core.Ctx, cfg ref.PCRConfig, ts []tmpl, stderr string) {
	cause := crashCause(cfg, ts, stderr)
	if cause == "crash:circular-flank-before-origin" {
		c.Count("not_comparable_contained_crash", 1)
		return
	}
	violate(c, cause, "PCR simulation ends the process", map[string]any{"config": cfg, "templates": ts, "stderr": tailStr(stderr, 600)})
}

func plain(rs []outRec) []ref.PCRRec {
	out := make([]ref.PCRRec, len(rs))
	for i, r := range rs {
		out[i] = r.PCRRec
	}
	return out
}

// ---------------------------------------------------------------------------
// evidence keys

func extClass(cfg ref.PCRConfig) string {
	switch {
	case cfg.Ext < 0:
		return "noflank"
	case cfg.Ext == 0:
		return "flank0"
	case cfg.Full:
		return "flank-full"
	}
	return "flank"
}

func lenClass(cfg ref.PCRConfig, L int) string {
	switch {
	case L == 1:
		return "L1"
	case cfg.MinLen > 0 && L == cfg.MinLen:
		return "L=min"
	case cfg.MaxLen > 0 && L == cfg.MaxLen:
		return "L=max"
	case cfg.MinLen > 0 && L == cfg.MinLen-1:
		return "L=min-1"
	case cfg.MaxLen > 0 && L == cfg.MaxLen+1:
		return "L=max+1"
	case L == 0:
		return "L0"
	case L < 0:
		return "L<0"
	}
	return "L"
}

// recordKeys registers the distinct classes of site pairs that the execution exercised.
func recordKeys(c *core.Ctx, tag string, cfg ref.PCRConfig, N int, pairs []ref.PCRPair) (required int) {
	for i := range pairs {
		p := &pairs[i]
		end := ""
		if p.P == 0 || p.Q == 0 {
			end += "@0"
		}
		if !cfg.Circular && (p.Dir == "forward" && p.Q+len(cfg.Reverse) == N || p.Dir == "reverse" && p.Q+len(cfg.Forward) == N) {
			end += "@N"
		}
		switch p.Status {
		case ref.PCRRequired:
			required++
			c.Key("%s|req|%s|e%d,%d|%s|%s|%s", tag, p.Geo, p.E1, p.E2, extClass(cfg), lenClass(cfg, p.L), end)
		case ref.PCROptional:
			c.Key("%s|opt|%s|%s", tag, p.Geo, extClass(cfg))
		default:
			c.Key("%s|none|%s|%s|%s|%s", tag, p.Why, p.Geo, lenClass(cfg, p.L), end)
		}
	}
	return required
}

// The supervisor keeps at most 2000 violation records per run; the known
// defects of circular templates would fill that quota in the thorough tier and
// hide later sub-checks. Each child process therefore reports a cause once (with
// its witness) and counts the repetitions.
var reportedInProcess = map[string]bool{}

func violate(c *core.Ctx, cause, what string, detail any) {
	k := c.Sub + ":" + cause
	if reportedInProcess[k] && !c.Replay {
		c.Count("repeated_violations_not_listed", 1)
		return
	}
	reportedInProcess[k] = true
	c.Violate(cause, what, detail)
}

func report(c *core.Ctx, devs []ref.PCRDeviation, what string, detail map[string]any) {
	seen := map[string]bool{}
	for _, d := range devs {
		if seen[d.Cause] {
			continue
		}
		seen[d.Cause] = true
		dd := map[string]any{"deviation": d}
		for k, v := range detail {
			dd[k] = v
		}
		violate(c, d.Cause, what+": "+d.Cause, dd)
	}
}

// ---------------------------------------------------------------------------
// sub-check amplicons: PCRSim on one template at a time vs the reference

func runAmplicons(c *core.Ctx) {
	g := newGen(c, genOpts{})
	evals := 0
	for k, t := range g.templates {
		j := &job{Cfg: g.cfg, Templates: []tmpl{t}, Mode: "sim"}
		pairs := ref.PCRPairs([]byte(t.Seq), g.cfg)
		res, died, stderr := execJob(c, j)
		evals++
		detail := map[string]any{"config": g.cfg, "template": t}
		if died {
			violate(c, crashCause(g.cfg, j.Templates, stderr), "PCRSim ends the process", map[string]any{"config": g.cfg, "template": t, "stderr": tailStr(stderr, 600)})
			continue
		}
		obs := plain(res.PerTemplate[0])
		devs := ref.PCRCompare(obs, pairs, false)
		report(c, devs, "PCRSim disagrees with the brute-force reference", detail)
		req := recordKeys(c, "sim", g.cfg, len(t.Seq), pairs)
		c.Count("amplicons_required", req)
		c.Count("amplicons_observed", len(obs))
		if k == 0 && req > 0 {
			c.Sample(map[string]any{"config": g.cfg, "template": t, "observed": obs})
		}
	}
	c.Count("evaluations", evals)
}

func tailStr(s string, n int) string {
	if len(s) > n {
		return s[len(s)-n:]
	}
	return s
}

// ---------------------------------------------------------------------------
// sub-check strand: PCR(revcomp(T)) = PCR(T) with the direction flipped

func flip(rs []ref.PCRRec) []ref.PCRRec {
	out := make([]ref.PCRRec, len(rs))
	for i, r := range rs {
		switch r.Dir {
		case "forward":
			r.Dir = "reverse"
		case "reverse":
			r.Dir = "forward"
		}
		out[i] = r
	}
	return out
}

func multiset(rs []ref.PCRRec, asSet bool) map[string]int {
	m := map[string]int{}
	for _, r := range rs {
		if asSet {
			m[r.Key()] = 1
		} else {
			m[r.Key()]++
		}
	}
	return m
}

// annotOfKey turns a record key (dir|seq|fm|fe|rm|re) into its annotation key (dir|fm|fe|rm|re).
func annotOfKey(k string) string {
	f := strings.Split(k, "|")
	if len(f) != 6 {
		return k
	}
	return strings.Join([]string{f[0], f[2], f[3], f[4], f[5]}, "|")
}

// openAnnots lists the annotation keys of the pairs whose flanks run further than
// once around the circle (their content is left open by the property).
func openAnnots(pairs []ref.PCRPair, flipped bool, into map[string]bool) {
	for i := range pairs {
		if pairs[i].Status == ref.PCROptional && pairs[i].FlankBeyondCircle {
			k := pairs[i].Rec.AnnotKey()
			if flipped {
				k = flipKey(k)
			}
			into[k] = true
		}
	}
}

// sameModuloOpen compares two multisets, tolerating differences on records that claim an open pair.
func sameModuloOpen(a, b map[string]int, open map[string]bool) (bool, string) {
	var keys []string
	for k := range a {
		keys = append(keys, k)
	}
	for k := range b {
		if _, ok := a[k]; !ok {
			keys = append(keys, k)
		}
	}
	sort.Strings(keys)
	for _, k := range keys {
		if a[k] != b[k] && !open[annotOfKey(k)] {
			return false, k
		}
	}
	return true, ""
}

func sameMultiset(a, b map[string]int) (bool, string) {
	var keys []string
	for k := range a {
		keys = append(keys, k)
	}
	for k := range b {
		if _, ok := a[k]; !ok {
			keys = append(keys, k)
		}
	}
	sort.Strings(keys)
	for _, k := range keys {
		if a[k] != b[k] {
			return false, k
		}
	}
	return true, ""
}

// relationCause explains a broken metamorphic relation by the deviations of the two sides from the reference.
func relationCause(prefix string, cfg ref.PCRConfig, ta, tb []byte, obsA, obsB []ref.PCRRec, asSet bool, differing string) string {
	pa := ref.PCRPairs(ta, cfg)
	pb := ref.PCRPairs(tb, cfg)
	var causes []string
	for _, d := range ref.PCRCompare(obsA, pa, asSet) {
		causes = append(causes, d.Cause)
	}
	for _, d := range ref.PCRCompare(obsB, pb, asSet) {
		causes = append(causes, d.Cause)
	}
	if len(causes) > 0 {
		sort.Strings(causes)
		return prefix + ":" + causes[0]
	}
	// both sides agree with the reference: the difference lies in the class the property leaves open
	for _, ps := range [][]ref.PCRPair{pa, pb} {
		for i := range ps {
			if ps[i].Status == ref.PCROptional {
				k := ps[i].Rec.Key()
				if k == differing || flipKey(k) == differing {
					return prefix + ":circ-lap"
				}
			}
		}
	}
	return prefix + ":unexplained"
}

func flipKey(k string) string {
	switch {
	case strings.HasPrefix(k, "forward|"):
		return "reverse|" + strings.TrimPrefix(k, "forward|")
	case strings.HasPrefix(k, "reverse|"):
		return "forward|" + strings.TrimPrefix(k, "reverse|")
	}
	return k
}

func runStrand(c *core.Ctx) {
	g := newGen(c, genOpts{})
	evals := 0
	for k, t := range g.templates {
		rc := tmpl{ID: t.ID + "rc", Seq: ref.RevCompString(t.Seq)}
		ra, diedA, errA := execJob(c, &job{Cfg: g.cfg, Templates: []tmpl{t}, Mode: "sim"})
		rb, diedB, errB := execJob(c, &job{Cfg: g.cfg, Templates: []tmpl{rc}, Mode: "sim"})
		evals += 2
		if diedA || diedB {
			st, tt := errA, t
			if !diedA {
				st, tt = errB, rc
			}
			relationCrash(c, g.cfg, []tmpl{tt}, st)
			continue
		}
		pairs := ref.PCRPairs([]byte(t.Seq), g.cfg)
		a := plain(ra.PerTemplate[0])
		b := flip(plain(rb.PerTemplate[0]))
		open := map[string]bool{}
		openAnnots(pairs, false, open)
		openAnnots(ref.PCRPairs([]byte(rc.Seq), g.cfg), true, open)
		same, diff := sameModuloOpen(multiset(a, false), multiset(b, false), open)
		recordKeys(c, "strand", g.cfg, len(t.Seq), pairs)
		if !same {
			cause := relationCause("multiset-differs", g.cfg, []byte(t.Seq), []byte(rc.Seq), a, plain(rb.PerTemplate[0]), false, diff)
			violate(c, cause, "the reverse-complemented template does not give the same amplicons with the direction flipped",
				map[string]any{"config": g.cfg, "template": t, "differing_record": diff, "observed": a, "observed_on_revcomp_flipped": b})
		}
		if k == 0 && len(a) > 0 {
			c.Sample(map[string]any{"config": g.cfg, "template": t, "observed": a, "observed_on_revcomp": rb.PerTemplate[0]})
		}
	}
	c.Count("evaluations", evals)
}

// ---------------------------------------------------------------------------
// sub-check rotation: rotating a circular template does not change the set of amplicons

func runRotation(c *core.Ctx) {
	g := newGen(c, genOpts{forceCircular: true, fewFlanks: true})
	evals := 0
	for k, t := range g.templates {
		N := len(t.Seq)
		ra, died, errA := execJob(c, &job{Cfg: g.cfg, Templates: []tmpl{t}, Mode: "sim"})
		evals++
		if died {
			relationCrash(c, g.cfg, []tmpl{t}, errA)
			continue
		}
		pairs := ref.PCRPairs([]byte(t.Seq), g.cfg)
		a := plain(ra.PerTemplate[0])
		open := map[string]bool{}
		openAnnots(pairs, false, open)
		recordKeys(c, "rot", g.cfg, N, pairs)
		// rotations: inside the sites of the first pairs, and random ones
		var rots []int
		for i := range pairs {
			if pairs[i].L >= 1 && len(rots) < 4 {
				rots = append(rots, pairs[i].P+1+c.Rng.Intn(len(g.cfg.Forward)), pairs[i].Q+c.Rng.Intn(3))
			}
		}
		rots = append(rots, 1, N-1, 1+c.Rng.Intn(N-1), 1+c.Rng.Intn(N-1))
		if len(rots) > 6 {
			c.Rng.Shuffle(len(rots), func(i, j int) { rots[i], rots[j] = rots[j], rots[i] })
			rots = rots[:6]
		}
		for _, r := range rots {
			r = ((r % N) + N) % N
			if r == 0 {
				continue
			}
			rt := tmpl{ID: fmt.Sprintf("%s_rot%d", t.ID, r), Seq: t.Seq[r:] + t.Seq[:r]}
			rb, died, errB := execJob(c, &job{Cfg: g.cfg, Templates: []tmpl{rt}, Mode: "sim"})
			evals++
			if died {
				relationCrash(c, g.cfg, []tmpl{rt}, errB)
				continue
			}
			b := plain(rb.PerTemplate[0])
			same, diff := sameModuloOpen(multiset(a, true), multiset(b, true), open)
			if len(a) > 0 || len(b) > 0 {
				c.Key("rot|r%s|n%d", rotClass(r, N, pairs, g.cfg), min(len(a), 3))
			}
			if !same {
				cause := relationCause("set-differs", g.cfg, []byte(t.Seq), []byte(rt.Seq), a, b, true, diff)
				violate(c, cause, "rotating the circular template changes the set of amplicons",
					map[string]any{"config": g.cfg, "template": t, "rotation": r, "differing_record": diff, "observed": a, "observed_rotated": b})
			}
		}
		if k == 0 && len(a) > 0 {
			c.Sample(map[string]any{"config": g.cfg, "template": t, "rotations": rots, "observed": a})
		}
	}
	c.Count("evaluations", evals)
}

// rotClass tells where the new origin falls relative to the first amplicon-defining pair.
func rotClass(r, N int, pairs []ref.PCRPair, cfg ref.PCRConfig) string {
	for i := range pairs {
		p := &pairs[i]
		if p.L < 1 {
			continue
		}
		l1, l2 := len(cfg.Forward), len(cfg.Reverse)
		if p.Dir == "reverse" {
			l1, l2 = l2, l1
		}
		off := ((r-p.P)%N + N) % N
		switch {
		case off == 0:
			return "at-site1-start"
		case off < l1:
			return "in-site1"
		case off == l1:
			return "at-segment-start"
		case off < l1+p.L:
			return "in-segment"
		case off == l1+p.L:
			return "at-site2-start"
		case off < l1+p.L+l2:
			return "in-site2"
		}
		return "outside"
	}
	return "none"
}

// ---------------------------------------------------------------------------
// sub-check batch: PCRSlice / PCRSliceWorker (recycled C buffer) vs PCRSim one by one

func keysOf(rs []outRec) map[string]int {
	m := map[string]int{}
	for _, r := range rs {
		m[r.ID+"|"+r.Key()]++
	}
	return m
}

func runBatch(c *core.Ctx) {
	g := newGen(c, genOpts{batch: true, fewFlanks: true})
	one, died1, err1 := execJob(c, &job{Cfg: g.cfg, Templates: g.templates, Mode: "sim"})
	mode := "slice"
	if c.Rng.Intn(3) == 0 {
		mode = "worker"
	}
	bat, died2, err2 := execJob(c, &job{Cfg: g.cfg, Templates: g.templates, Mode: mode})
	c.Count("evaluations", 1)
	c.Count("batch_templates", len(g.templates))
	if died1 || died2 {
		st := err1
		if !died1 {
			st = err2
		}
		relationCrash(c, g.cfg, g.templates, st)
		return
	}
	var flat []outRec
	for _, r := range one.PerTemplate {
		flat = append(flat, r...)
	}
	// (1) batch == one by one (records with their identifiers)
	same, diff := sameMultiset(keysOf(flat), keysOf(bat.Flat))
	shape := ""
	prev := 0
	nonEmpty := 0
	for i, t := range g.templates {
		switch {
		case i == 0:
		case len(t.Seq) > prev:
			shape += "g"
		case len(t.Seq) < prev:
			shape += "s"
		default:
			shape += "e"
		}
		prev = len(t.Seq)
		if len(one.PerTemplate[i]) > 0 {
			nonEmpty++
		}
	}
	if nonEmpty > 0 {
		c.Key("batch|%s|%s|%v|n%d|ne%d", mode, shape[:min(len(shape), 6)], g.cfg.Circular, len(g.templates), min(nonEmpty, 4))
	}
	if !same {
		// which template of the batch? what precedes it?
		cause := "batch-differs"
		for i, t := range g.templates {
			if strings.HasPrefix(diff, t.ID+"_sub[") || strings.HasPrefix(diff, t.ID+"|") {
				switch {
				case i == 0:
					cause += ":first-of-batch"
				case len(g.templates[i-1].Seq) > len(t.Seq):
					cause += ":after-longer-template"
				case len(g.templates[i-1].Seq) < len(t.Seq):
					cause += ":after-shorter-template"
				default:
					cause += ":after-equal-length-template"
				}
				break
			}
		}
		violate(c, cause, mode+" on the batch and PCRSim one by one give different amplicons",
			map[string]any{"config": g.cfg, "templates": g.templates, "differing_record": diff, "one_by_one": flat, "batch": bat.Flat})
	}
	for _, t := range g.templates {
		recordKeys(c, "batch", g.cfg, len(t.Seq), ref.PCRPairs([]byte(t.Seq), g.cfg))
	}
	if nonEmpty > 0 {
		c.Sample(map[string]any{"config": g.cfg, "mode": mode, "templates": g.templates, "batch_result": bat.Flat})
	}
}

func ids(ts []tmpl) []string {
	var r []string
	for _, t := range ts {
		r = append(r, fmt.Sprintf("%s(%d)", t.ID, len(t.Seq)))
	}
	return r
}

func init() {
	core.Extra["c11-pcr"] = helperMain
	core.Extra["c11-explain"] = explainMain
	core.Register(&core.Property{
		ID:    "C11",
		Level: "exploration",
		Rule: "each case = one option vector (IUPAC primers 4-30 nt, error budgets 0-3 per primer, min/max length, flanks with/without only-complete, linear/circular) and several a/c/g/t templates of 30-600 nt with 0-4 planted priming-site pairs (0..e+1 mismatches per site, distance at min-1/min/max/max+1/1/0/overlapping, constructs at the very ends or across the origin, either strand); " +
			"the real obiapat.PCRSim / PCRSlice / PCRSliceWorker and the obipcr command are executed and compared with a brute-force matcher (IUPAC set inclusion per position, both strands, every pair of sites), with the run on the reverse-complemented template, on rotated circular templates, one-by-one vs batch, obipcr with and without --fragmented on templates longer than 1000 x max-length, and ASan / UBSan(shift,bounds,signed-integer-overflow,integer-divide-by-zero,null) builds of obipcr vs the normal build. " +
			"Added later: concurrent sub-check (one PCRSliceWorker shared by 2-16 goroutines), end to end: primers decorated with '#' marks when the budget is 0, templates that are exactly one product (0-2 flanking bases). Templates carrying the annotations of an earlier PCR under the names this one writes (nested PCR). fragmented: templates tiled with the longest product allowed (starts on every offset relative to the fragment borders), the same locus planted twice several fragments apart (one amplicon per locus). " +
			"distinct_nontrivial = distinct (sub-check, pair status required/optional/none with reason, geometry incl. strand, linear/circular inner/wrapping, unequal primer lengths, flank clipping, mismatches of both sites, flank mode, length class relative to the bounds, site at position 0 / at the end) classes of site pairs actually present in executed templates, plus batch shapes and rotation classes",
		Assume: []string{
			"templates are over a,c,g,t (what a template ambiguity code matches is not fixed by the property)",
			"an amplicon has at least one symbol between the two sites (touching or overlapping sites define none); min/max length 0 means no bound",
			"on a circular template a pair whose primers + segment (+ flanks) is longer than the circle is left open (accepted when reported with the right content, not demanded)",
			"circular templates are at least as long as the longer primer",
			"only direction, forward/reverse match and error annotations and the sequence are compared (identifiers and copied template annotations are free)",
		},
		Subs: []core.Sub{
			{Name: "amplicons", N: core.Const(1600, 25000), Run: runAmplicons, Shard: 250, TimeoutS: 1800},
			{Name: "strand", N: core.Const(480, 7500), Run: runStrand, Shard: 100, TimeoutS: 1800},
			{Name: "rotation", N: core.Const(320, 6000), Run: runRotation, Shard: 60, TimeoutS: 1800},
			{Name: "batch", N: core.Const(640, 10000), Run: runBatch, Shard: 200, TimeoutS: 1800},
			{Name: "e2e", N: core.Const(160, 3000), Run: runE2E, Shard: 50, TimeoutS: 1800},
			{Name: "concurrent", N: core.Const(32, 320), Run: runConcurrent, Race: true, NRace: core.Const(8, 32), TimeoutS: 600},
			{Name: "fragmented", N: core.Const(32, 400), Run: runFragmented, Shard: 8, TimeoutS: 1800},
			{Name: "sanitizer", N: core.Const(96, 1500), Run: runSanitizer, Shard: 30, TimeoutS: 1800},
			{Name: "ubsan", N: core.Const(1, 4), Run: runUBSan, Shard: 1, TimeoutS: 3600},
		},
		Cmds:          []string{"obipcr"},
		AsanCmds:      []string{"obipcr"},
		RaceFiles:     []string{"pkg/obiapat/"},
		MinNontrivial: 300,
		Post: func(tier string, counters map[string]int64) []string {
			if os.Getenv("VERIF_ONLY") != "" {
				return nil
			}
			var r []string
			for _, k := range []string{"amplicons_required", "amplicons_observed", "batch_templates", "e2e_templates", "asan_executions", "ubsan_executions"} {
				if counters[k] == 0 {
					r = append(r, "nothing observed for "+k)
				}
			}
			return r
		},
	})
}
