package c11

import (
	"fmt"
	"sort"

	"git.metabarcoding.org/obitools/obitools4/obitools4/pkg/obiapat"
	"git.metabarcoding.org/obitools/obitools4/obitools4/pkg/obiseq"

	"verifh/conc"
	"verifh/core"
)

// runConcurrent: obipcr hands ONE PCRSliceWorker (one pair of compiled primers) to all its parallel
// workers, each applying it to its own batches. The amplicons found for a batch while 2-16 goroutines
// run the same worker must be those found for the batch alone (compared, template by template, with
// PCRSim first).
func runConcurrent(c *core.Ctx) {
	var g *caseGen
	for try := 0; try < 20; try++ {
		g = newGen(c, genOpts{batch: true, fewFlanks: true})
		if !contained(g.cfg) && len(g.templates) >= 2 {
			break
		}
	}
	if contained(g.cfg) || len(g.templates) < 2 {
		return // circular + flanks ends in log.Fatalf (known class, decided by the other sub-checks in helper processes)
	}
	opts := pcrOptions(g.cfg)
	shared := obiapat.PCRSliceWorker(opts...)
	// batches: every template alone, then windows of 2-4 consecutive templates
	type batch struct{ lo, hi int }
	var batches []batch
	for i := range g.templates {
		batches = append(batches, batch{i, i + 1})
	}
	for i := 0; i+2 <= len(g.templates); i++ {
		batches = append(batches, batch{i, min(len(g.templates), i+2+c.Rng.Intn(3))})
	}
	render := func(rs obiseq.BioSequenceSlice) string {
		var l []string
		for _, r := range convert(rs) {
			l = append(l, fmt.Sprintf("%s|%+v", r.ID, r.PCRRec))
		}
		sort.Strings(l)
		return fmt.Sprint(l)
	}
	eval := func(i, w int) string {
		b := batches[i]
		var sl obiseq.BioSequenceSlice
		for _, t := range g.templates[b.lo:b.hi] {
			sl = append(sl, bioseq(t))
		}
		out, err := shared(sl)
		if err != nil {
			return "error: " + err.Error()
		}
		return render(out)
	}
	workers := []int{2, 4, 8, 16}[c.Idx%4]
	c.Risk("concurrent-pcr")
	alone, bad, evals := conc.Run(workers, c.Pick(4, 10), len(batches), eval)
	nonEmpty := 0
	for i := range g.templates {
		want := render(obiapat.PCRSim(bioseq(g.templates[i]), opts...))
		if want != "[]" {
			nonEmpty++
		}
		if alone[i] != want {
			c.Violate("concurrent:alone:worker-vs-sim", "PCRSliceWorker on one template differs from PCRSim", map[string]any{"cfg": g.cfg, "template": g.templates[i], "worker": alone[i], "sim": want})
			return
		}
	}
	c.Count("evaluations", int(evals))
	c.Count("concurrent_evaluations", int(evals))
	if nonEmpty > 0 {
		c.Key("concurrent|%d|%v|n%d|ne%d", workers, g.cfg.Circular, min(len(g.templates), 6), min(nonEmpty, 4))
	}
	if c.Idx < 2 {
		c.Sample(map[string]any{"cfg": g.cfg, "templates": len(g.templates), "batches": len(batches), "goroutines": workers})
	}
	seen := map[string]bool{}
	for _, m := range bad {
		cause := "concurrent:amplicons"
		if m.Panic {
			cause = "concurrent:panic"
		}
		if !seen[cause] {
			seen[cause] = true
			b := batches[m.Index]
			c.Violate(cause, "the amplicons found for a batch while other goroutines run the same PCR worker differ from those found for the batch alone",
				map[string]any{"cfg": g.cfg, "templates": g.templates[b.lo:b.hi], "alone": m.Alone, "got": m.Got, "goroutines": workers})
		}
	}
}
