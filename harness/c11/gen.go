package c11

import (
	"fmt"
	"strings"

	"verifh/core"
	"verifh/gen"
	"verifh/ref"
)

type genOpts struct {
	forceCircular bool
	forceLinear   bool
	fewFlanks     bool // flanks on circular templates only rarely (those executions need a helper process)
	batch         bool // templates of contrasting lengths, duplicates, templates without site
	cli           bool // option vector expressible on the obipcr command line (one error budget, max length > 0)
	nTemplates    int  // 0 = default
	minN, maxN    int  // template length range (0 = default)
}

type caseGen struct {
	fwd, rev  string // the primers in lower case (the option vector may carry them in upper case)
	cfg       ref.PCRConfig
	templates []tmpl
	plants    [][]gen.PlantSpec
}

func pickLen(c *core.Ctx) int {
	switch x := c.Rng.Intn(10); {
	case x == 0:
		return 4 + c.Rng.Intn(4)
	case x < 7:
		return 8 + c.Rng.Intn(15)
	}
	return 23 + c.Rng.Intn(8)
}

func maxBudget(n int) int { return min(3, (n-1)/3) }

// newGen draws the option vector and the templates of one case.
func newGen(c *core.Ctx, o genOpts) *caseGen {
	r := c.Rng
	g := &caseGen{}
	lf := pickLen(c)
	lr := pickLen(c)
	if r.Intn(10) < 3 {
		lr = lf
	}
	amb := []int{0, 0, 100, 300}[r.Intn(4)]
	F := gen.Primer(r, lf, amb)
	R := gen.Primer(r, lr, amb)
	switch r.Intn(30) {
	case 0:
		R = F
	case 1:
		R = ref.RevCompString(F)
	}
	lf, lr = len(F), len(R)
	ef := r.Intn(maxBudget(lf) + 1)
	er := r.Intn(maxBudget(lr) + 1)
	if o.cli || r.Intn(10) < 6 {
		er = min(ef, maxBudget(lr))
		ef = er
	}
	scale := []int{6, 25, 60, 150}[r.Intn(4)]
	cfg := ref.PCRConfig{Forward: F, Reverse: R, FwdErr: ef, RevErr: er, Ext: -1}
	if r.Intn(10) < 6 {
		cfg.MinLen = 1 + r.Intn(scale)
	}
	if o.cli || r.Intn(4) > 0 {
		cfg.MaxLen = max(1, cfg.MinLen+r.Intn(scale+1)-r.Intn(3)/2)
	}
	cfg.Circular = r.Intn(100) < 35
	if o.forceCircular {
		cfg.Circular = true
	}
	if o.forceLinear {
		cfg.Circular = false
	}
	flankP := 50
	if cfg.Circular && o.fewFlanks {
		flankP = 12
	}
	if r.Intn(100) < flankP {
		switch r.Intn(4) {
		case 0:
			cfg.Ext = 0
		case 1:
			cfg.Ext = 1 + r.Intn(5)
		default:
			cfg.Ext = 1 + r.Intn(40)
		}
		cfg.Full = r.Intn(5) < 2
	}
	g.fwd, g.rev = F, R
	if r.Intn(8) == 0 { // primers given in upper case, as on most command lines
		cfg.Forward, cfg.Reverse = strings.ToUpper(F), strings.ToUpper(R)
	}
	g.cfg = cfg

	nT := o.nTemplates
	if nT == 0 {
		nT = 6 + r.Intn(5)
		if o.batch {
			nT = 2 + r.Intn(11)
		}
	}
	minN, maxN := 30, c.Pick(400, 600)
	if o.minN > 0 {
		minN, maxN = o.minN, o.maxN
	}
	for k := 0; k < nT; k++ {
		var seq []byte
		var plants []gen.PlantSpec
		if o.batch && k > 0 && r.Intn(8) == 0 {
			// the same template again (fresh object): the recycled buffer holds identical content
			seq = []byte(g.templates[r.Intn(k)].Seq)
		} else {
			N := minN + r.Intn(maxN-minN+1)
			if o.batch {
				switch r.Intn(5) {
				case 0:
					N = minN + r.Intn(min(40, maxN-minN+1))
				case 1:
					N = maxN - r.Intn(min(60, maxN-minN+1))
				case 2:
					if k > 0 { // same length as the previous template, other content
						N = len(g.templates[k-1].Seq)
					}
				}
			}
			if cfg.Circular {
				N = max(N, max(lf, lr)+1)
			}
			seq, plants = g.template(c, N)
		}
		t := tmpl{ID: fmt.Sprintf("t%d", k), Seq: string(seq)}
		if c.Rng.Intn(6) == 0 { // nested PCR
			t.Ann = earlierPCR(c.Rng)
		}
		g.templates = append(g.templates, t)
		g.plants = append(g.plants, plants)
	}
	return g
}

// template draws one template of length N with planted constructs; the number
// of site pairs is kept bounded (short or degenerate primers with a large budget
// would otherwise match everywhere).
func (g *caseGen) template(c *core.Ctx, N int) ([]byte, []gen.PlantSpec) {
	r := c.Rng
	cfg := g.cfg
	for attempt := 0; ; attempt++ {
		t := gen.DNA(r, N)
		var plants []gen.PlantSpec
		nPlant := []int{0, 1, 1, 1, 2, 2, 2, 3, 3, 4}[r.Intn(10)]
		if attempt > 3 {
			nPlant = 0
		}
		for k := 0; k < nPlant; k++ {
			k1 := plantErr(c, cfg.FwdErr)
			k2 := plantErr(c, cfg.RevErr)
			ins := g.insert(c)
			w := gen.Construct(r, g.fwd, g.rev, k1, k2, ins)
			if len(w) > N {
				continue
			}
			rev := r.Intn(2) == 0
			if rev {
				w = gen.PCRRevCompACGT(w)
			}
			var at int
			switch x := r.Intn(10); {
			case x == 0:
				at = 0
			case x == 1:
				at = N - len(w)
			case x == 2 && cfg.Ext > 0:
				at = []int{cfg.Ext - 1, cfg.Ext, cfg.Ext + 1, N - len(w) - cfg.Ext, N - len(w) - cfg.Ext + 1}[r.Intn(5)]
			case x <= 5 && cfg.Circular:
				// the origin falls inside the construct
				at = N - 1 - r.Intn(len(w)-1)
			default:
				at = r.Intn(N - len(w) + 1)
			}
			if !cfg.Circular {
				at = max(0, min(at, N-len(w)))
			} else {
				at = ((at % N) + N) % N
			}
			gen.Overlay(t, w, at, cfg.Circular)
			plants = append(plants, gen.PlantSpec{At: at, Reverse: rev, Insert: ins, K1: k1, K2: k2})
		}
		// bound the work
		n1 := len(ref.Sites(g.fwd, t, cfg.FwdErr, cfg.Circular)) + len(ref.Sites(ref.RevCompString(g.fwd), t, cfg.FwdErr, cfg.Circular))
		n2 := len(ref.Sites(g.rev, t, cfg.RevErr, cfg.Circular)) + len(ref.Sites(ref.RevCompString(g.rev), t, cfg.RevErr, cfg.Circular))
		if n1*n2 <= 1600 || attempt >= 8 {
			floor := max(30, len(cfg.Forward)+1, len(cfg.Reverse)+1)
			if n1*n2 > 1600 && N > floor {
				// very unspecific primers: shorten the template
				return g.template(c, max(floor, N/4))
			}
			return t, plants
		}
	}
}

func plantErr(c *core.Ctx, budget int) int {
	switch x := c.Rng.Intn(10); {
	case x < 4:
		return 0
	case x < 8:
		return c.Rng.Intn(budget + 1)
	}
	return budget + 1
}

func (g *caseGen) insert(c *core.Ctx) int {
	r := c.Rng
	cfg := g.cfg
	var cands []int
	if cfg.MinLen > 0 {
		cands = append(cands, cfg.MinLen-1, cfg.MinLen, cfg.MinLen+1)
	}
	if cfg.MaxLen > 0 {
		cands = append(cands, cfg.MaxLen-1, cfg.MaxLen, cfg.MaxLen+1)
	}
	lo, hi := 1, 60
	if cfg.MinLen > 0 {
		lo = cfg.MinLen
	}
	if cfg.MaxLen > 0 {
		hi = cfg.MaxLen
	}
	if hi < lo {
		hi = lo
	}
	switch x := r.Intn(10); {
	case x < 4 && len(cands) > 0:
		return cands[r.Intn(len(cands))]
	case x == 4:
		return 0
	case x == 5:
		return -1 - r.Intn(5)
	case x == 6:
		return 1
	}
	return lo + r.Intn(hi-lo+1)
}
