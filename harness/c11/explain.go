package c11

import (
	"encoding/json"
	"fmt"
	"os"
	"os/exec"

	"verifh/ref"
)

// explainMain (`vh c11-explain <replay.json>`) re-runs the template of a replay
// file (and its reverse complement) in helper processes and prints, for each
// side, the deviations from the brute-force reference. Development aid.
func explainMain(args []string) int {
	if len(args) < 1 {
		return 2
	}
	b, err := os.ReadFile(args[0])
	if err != nil {
		fmt.Println(err)
		return 2
	}
	var rep struct {
		Detail struct {
			Config   ref.PCRConfig `json:"config"`
			Template tmpl          `json:"template"`
			Rotation int           `json:"rotation"`
		} `json:"detail"`
	}
	if err := json.Unmarshal(b, &rep); err != nil {
		fmt.Println(err)
		return 2
	}
	cfg, t := rep.Detail.Config, rep.Detail.Template
	sides := []tmpl{t, {ID: t.ID + "rc", Seq: ref.RevCompString(t.Seq)}}
	if r := rep.Detail.Rotation; r > 0 {
		sides = append(sides, tmpl{ID: t.ID + "rot", Seq: t.Seq[r:] + t.Seq[:r]})
	}
	self, _ := os.Executable()
	for _, s := range sides {
		j := job{Cfg: cfg, Templates: []tmpl{s}, Mode: "sim"}
		jb, _ := json.Marshal(j)
		jf, of := os.TempDir()+"/c11-explain.json", os.TempDir()+"/c11-explain.out"
		os.WriteFile(jf, jb, 0o644)
		out, err := exec.Command(self, "c11-pcr", jf, of).CombinedOutput()
		if err != nil {
			fmt.Printf("%s: helper died: %s\n", s.ID, tailStr(string(out), 300))
			continue
		}
		var res jobResult
		ob, _ := os.ReadFile(of)
		json.Unmarshal(ob, &res)
		pairs := ref.PCRPairs([]byte(s.Seq), cfg)
		nreq, nopt := 0, 0
		for i := range pairs {
			switch pairs[i].Status {
			case ref.PCRRequired:
				nreq++
			case ref.PCROptional:
				nopt++
			}
		}
		obs := plain(res.PerTemplate[0])
		fmt.Printf("%s: N=%d observed=%d required=%d optional=%d\n", s.ID, len(s.Seq), len(obs), nreq, nopt)
		if len(obs) <= 4 || os.Getenv("C11_VERBOSE") != "" {
			for _, o := range res.PerTemplate[0] {
				fmt.Printf("   obs %s %s len=%d fe=%d re=%d\n", o.ID, o.Dir, len(o.Seq), o.FwdErr, o.RevErr)
			}
			for i := range pairs {
				if pairs[i].Status != ref.PCRNone || os.Getenv("C11_VERBOSE") != "" {
					fmt.Printf("   exp %s len=%d status=%d beyond=%v %s e=%d,%d\n", pairs[i].Geo, len(pairs[i].Rec.Seq), pairs[i].Status, pairs[i].FlankBeyondCircle, pairString2(&pairs[i]), pairs[i].E1, pairs[i].E2)
				}
			}
		}
		for _, d := range ref.PCRCompare(obs, pairs, false) {
			l := 0
			if d.Observed != nil {
				l = len(d.Observed.Seq)
			} else if d.Expected != nil {
				l = len(d.Expected.Seq)
			}
			fmt.Printf("   %s  seqlen=%d  %s\n", d.Cause, l, d.Pair)
		}
	}
	return 0
}

func pairString2(p *ref.PCRPair) string {
	return fmt.Sprintf("%s p=%d q=%d L=%d", p.Dir, p.P, p.Q, p.L)
}
