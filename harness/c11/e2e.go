package c11

import (
	"bytes"
	"encoding/json"
	"fmt"
	"os"
	"os/exec"
	"path/filepath"
	"regexp"
	"sort"
	"strconv"
	"strings"

	"verifh/core"
	"verifh/gen"
	"verifh/ref"
)

// ---------------------------------------------------------------------------
// obipcr end to end

func writeFasta(path string, ts []tmpl, width int) error {
	var b bytes.Buffer
	for _, t := range ts {
		if t.Ann != nil {
			ja, _ := json.Marshal(t.Ann)
			fmt.Fprintf(&b, ">%s %s\n", t.ID, ja)
		} else {
			fmt.Fprintf(&b, ">%s\n", t.ID)
		}
		if width <= 0 {
			b.WriteString(t.Seq)
			b.WriteByte('\n')
			continue
		}
		for i := 0; i < len(t.Seq); i += width {
			b.WriteString(t.Seq[i:min(len(t.Seq), i+width)])
			b.WriteByte('\n')
		}
	}
	return os.WriteFile(path, b.Bytes(), 0o644)
}

// parseFasta reads the FASTA output of obipcr (JSON annotations on the title line).
func parseFasta(b []byte) ([]outRec, error) {
	var out []outRec
	var id string
	var annot map[string]any
	var seq strings.Builder
	have := false
	flush := func() {
		if have {
			out = append(out, recOf(id, seq.String(), annot))
		}
	}
	for _, line := range strings.Split(string(b), "\n") {
		line = strings.TrimRight(line, "\r")
		if strings.HasPrefix(line, ">") {
			flush()
			have = true
			seq.Reset()
			annot = map[string]any{}
			h := line[1:]
			id = h
			if i := strings.IndexByte(h, ' '); i >= 0 {
				id = h[:i]
				rest := strings.TrimSpace(h[i+1:])
				if strings.HasPrefix(rest, "{") {
					if err := json.Unmarshal([]byte(rest), &annot); err != nil {
						return nil, fmt.Errorf("title line of %s: %v", id, err)
					}
				}
			}
			continue
		}
		if line == "" {
			continue
		}
		if !have {
			return nil, fmt.Errorf("sequence data before the first title line: %q", line)
		}
		seq.WriteString(line)
	}
	flush()
	return out, nil
}

// decorate writes a primer with the '#' marks of the pattern syntax (no error allowed at the marked
// position): with an error budget of 0 the decorated primer means exactly the same as the plain one.
func decorate(c *core.Ctx, primer string) string {
	var sb strings.Builder
	for i := 0; i < len(primer); i++ {
		sb.WriteByte(primer[i])
		if c.Rng.Intn(4) == 0 {
			sb.WriteByte('#')
		}
	}
	return sb.String()
}

func cliArgs(c *core.Ctx, cfg ref.PCRConfig, extra ...string) []string {
	fwd, rev := cfg.Forward, cfg.Reverse
	if cfg.FwdErr == 0 && cfg.RevErr == 0 && c.Rng.Intn(2) == 0 {
		fwd, rev = decorate(c, fwd), decorate(c, rev)
	}
	a := []string{"--forward", fwd, "--reverse", rev, "-e", strconv.Itoa(cfg.FwdErr), "-L", strconv.Itoa(cfg.MaxLen)}
	if cfg.MinLen > 0 {
		a = append(a, "-l", strconv.Itoa(cfg.MinLen))
	}
	if cfg.Ext >= 0 {
		a = append(a, "-D", strconv.Itoa(cfg.Ext))
	}
	if cfg.Full {
		a = append(a, "--only-complete-flanking")
	}
	if cfg.Circular {
		a = append(a, "-c")
	}
	a = append(a, "--no-progressbar")
	return append(a, extra...)
}

type cmdResult struct {
	exit   int
	stdout []byte
	stderr string
}

func runCmd(bin string, args []string, env []string) cmdResult {
	cmd := exec.Command(bin, args...)
	var so, se bytes.Buffer
	cmd.Stdout = &so
	cmd.Stderr = &se
	cmd.Env = append(os.Environ(), env...)
	err := cmd.Run()
	res := cmdResult{stdout: so.Bytes(), stderr: se.String()}
	if err != nil {
		res.exit = -1
		if ee, ok := err.(*exec.ExitError); ok {
			res.exit = ee.ExitCode()
		}
	}
	return res
}

func templateOf(id string) string {
	if i := strings.LastIndex(id, "_sub["); i >= 0 {
		return id[:i]
	}
	return id
}

func parallelArgs(c *core.Ctx) []string {
	return []string{"--max-cpu", strconv.Itoa([]int{1, 2, 4}[c.Rng.Intn(3)]), "--batch-size", strconv.Itoa([]int{1, 2, 3, 10}[c.Rng.Intn(4)])}
}

func runE2E(c *core.Ctx) {
	g := newGen(c, genOpts{cli: true, fewFlanks: true, nTemplates: 8 + c.Rng.Intn(25)})
	// templates that are exactly (or nearly) one product: 0-2 flanking bases around forward site +
	// barcode of the minimal length (or a little more) + reverse site
	for k := 0; k < 3; k++ {
		L := max(1, g.cfg.MinLen) + c.Rng.Intn(3)
		if g.cfg.MaxLen > 0 && L > g.cfg.MaxLen {
			continue
		}
		lowF, lowR := strings.ToLower(g.cfg.Forward), strings.ToLower(g.cfg.Reverse)
		seq := string(gen.DNA(c.Rng, c.Rng.Intn(3))) + string(gen.PCRInstance(c.Rng, lowF, 0)) + string(gen.DNA(c.Rng, L)) +
			ref.RevCompString(string(gen.PCRInstance(c.Rng, lowR, 0))) + string(gen.DNA(c.Rng, c.Rng.Intn(3)))
		g.templates = append(g.templates, tmpl{ID: fmt.Sprintf("exactfit%d", k), Seq: seq})
		g.plants = append(g.plants, nil)
	}
	in := filepath.Join(c.Dir, fmt.Sprintf("c11-e2e-%d.fasta", c.Idx))
	defer os.Remove(in)
	if err := writeFasta(in, g.templates, []int{0, 60, 70}[c.Rng.Intn(3)]); err != nil {
		c.Inconclusive("cannot write the input file")
		return
	}
	args := append(cliArgs(c, g.cfg, parallelArgs(c)...), in)
	res := runCmd(filepath.Join(c.BinDir, "obipcr"), args, nil)
	c.Count("evaluations", 1)
	c.Count("e2e_templates", len(g.templates))
	if res.exit != 0 {
		violate(c, crashCause(g.cfg, g.templates, res.stderr), "obipcr exits with an error on well-formed input",
			map[string]any{"args": args, "exit": res.exit, "stderr": tailStr(res.stderr, 600), "templates": g.templates})
		return
	}
	recs, err := parseFasta(res.stdout)
	if err != nil {
		violate(c, "output-unreadable", "the output of obipcr is not FASTA with JSON title lines: "+err.Error(), map[string]any{"args": args, "stdout": tailStr(string(res.stdout), 600)})
		return
	}
	byT := map[string][]ref.PCRRec{}
	known := map[string]bool{}
	for _, t := range g.templates {
		known[t.ID] = true
	}
	for _, r := range recs {
		id := templateOf(r.ID)
		if !known[id] {
			violate(c, "spurious:unknown-template", "obipcr reports an amplicon of a template that is not in the input", map[string]any{"args": args, "record": r})
			continue
		}
		byT[id] = append(byT[id], r.PCRRec)
	}
	total := 0
	for _, t := range g.templates {
		pairs := ref.PCRPairs([]byte(t.Seq), g.cfg)
		devs := ref.PCRCompare(byT[t.ID], pairs, false)
		report(c, devs, "obipcr disagrees with the brute-force reference", map[string]any{"args": args, "template": t})
		total += recordKeys(c, "e2e", g.cfg, len(t.Seq), pairs)
	}
	c.Count("amplicons_required", total)
	c.Count("amplicons_observed", len(recs))
	if total > 0 {
		c.Sample(map[string]any{"args": args[:len(args)-1], "templates": len(g.templates), "amplicons": len(recs), "first_template": g.templates[0]})
	}
}

// ---------------------------------------------------------------------------
// obipcr --fragmented : long templates are cut into overlapping fragments

func runFragmented(c *core.Ctx) {
	r := c.Rng
	lf := 6 + r.Intn(20)
	lr := 6 + r.Intn(20)
	if r.Intn(3) == 0 {
		lr = lf
	}
	e := r.Intn(2)
	cfg := ref.PCRConfig{Forward: gen.Primer(r, lf, []int{0, 100}[r.Intn(2)]), Reverse: gen.Primer(r, lr, 0), FwdErr: e, RevErr: e, Ext: -1}
	cfg.MaxLen = 3 + r.Intn(12)
	if r.Intn(2) == 0 {
		cfg.MinLen = 1 + r.Intn(cfg.MaxLen)
	}
	// geometry of obipcr --fragmented (read from the command, used only to aim the planted sites)
	minsize := cfg.MaxLen * 1000
	length := cfg.MaxLen * 100
	overlap := cfg.MaxLen + lf + lr
	step := length - overlap
	var ts []tmpl
	nT := 1 + r.Intn(2)
	for k := 0; k < nT; k++ {
		N := minsize + 1 + r.Intn(3000)
		if k == 1 && r.Intn(2) == 0 {
			N = minsize - r.Intn(500) // not fragmented
		}
		t := gen.DNA(r, N)
		nPlant := 10 + r.Intn(30)
		if k == 0 && c.Idx%3 == 0 {
			// a tiling of the longest product the options allow (every copy with its own insert),
			// the copies a fixed distance apart: their starts fall on every kind of offset relative
			// to the fragment borders, whatever the fragment geometry is
			gap := 1 + r.Intn(9)
			for at := r.Intn(20); ; {
				w := gen.Construct(r, cfg.Forward, cfg.Reverse, 0, 0, cfg.MaxLen)
				if at+len(w) > N {
					break
				}
				gen.Overlay(t, w, at, false)
				at += len(w) + gap
			}
			nPlant = 0
			c.Count("tiled_templates", 1)
		}
		for i := 0; i < nPlant; i++ {
			ins := cfg.MaxLen - r.Intn(min(cfg.MaxLen, 4))
			if r.Intn(4) == 0 {
				ins = 1 + r.Intn(cfg.MaxLen)
			}
			w := gen.Construct(r, cfg.Forward, cfg.Reverse, r.Intn(e+1), r.Intn(e+1), ins)
			if r.Intn(2) == 0 {
				w = gen.PCRRevCompACGT(w)
			}
			// aim at the fragment borders: construct straddling the start of fragment j or the end of fragment j-1
			j := 1 + r.Intn(max(1, N/step))
			var at int
			switch r.Intn(4) {
			case 0:
				at = j*step - 1 - r.Intn(len(w)) // begins just before the start of fragment j
			case 1:
				at = (j-1)*step + length - len(w) + r.Intn(len(w)) // ends just after the end of fragment j-1
			case 2:
				if len(w) > overlap { // a short product that fits into the overlap of two fragments
					w = gen.Construct(r, cfg.Forward, cfg.Reverse, 0, 0, 1+r.Intn(2))
				}
				at = j*step + r.Intn(max(1, overlap-len(w)+1)) // inside the overlap
			default:
				at = r.Intn(N)
			}
			if r.Intn(6) == 0 {
				// the longest product the options allow, placed on the very first / last positions from
				// which one fragment still holds it whole
				w = gen.Construct(r, cfg.Forward, cfg.Reverse, 0, 0, cfg.MaxLen)
				if r.Intn(2) == 0 {
					w = gen.PCRRevCompACGT(w)
				}
				if r.Intn(2) == 0 {
					at = j*step - 3 + r.Intn(5)
				} else {
					at = (j-1)*step + length - len(w) - 2 + r.Intn(5)
				}
			}
			at = max(0, min(at, N-len(w)))
			gen.Overlay(t, w, at, false)
			if i == 0 && N > 6*length {
				// the same locus a second time, several fragments away: two products with the same
				// sequence and the same match strings are two products
				at2 := (at + 3*length + r.Intn(length)) % (N - len(w))
				gen.Overlay(t, w, at2, false)
			}
		}
		ts = append(ts, tmpl{ID: fmt.Sprintf("long%d", k), Seq: string(t)})
	}
	in := filepath.Join(c.Dir, fmt.Sprintf("c11-frag-%d.fasta", c.Idx))
	defer os.Remove(in)
	if err := writeFasta(in, ts, 80); err != nil {
		c.Inconclusive("cannot write the input file")
		return
	}
	plainOut := map[string]map[string]int{}
	plainCnt := map[string]map[string]int{} // with multiplicities
	for _, frag := range []bool{false, true} {
		args := cliArgs(c, cfg, "--max-cpu", "2")
		if frag {
			args = append(args, "--fragmented")
		}
		args = append(args, in)
		res := runCmd(filepath.Join(c.BinDir, "obipcr"), args, nil)
		c.Count("evaluations", 1)
		if res.exit != 0 {
			violate(c, crashCause(cfg, nil, res.stderr), "obipcr exits with an error on well-formed input", map[string]any{"args": args, "exit": res.exit, "stderr": tailStr(res.stderr, 600)})
			return
		}
		recs, err := parseFasta(res.stdout)
		if err != nil {
			violate(c, "output-unreadable", "the output of obipcr is not FASTA with JSON title lines: "+err.Error(), map[string]any{"args": args})
			return
		}
		byT := map[string][]ref.PCRRec{}
		for _, rec := range recs {
			id := rec.ID
			if i := strings.Index(id, "_sub["); i >= 0 {
				id = id[:i]
			}
			byT[id] = append(byT[id], rec.PCRRec)
		}
		for _, t := range ts {
			pairs := ref.PCRPairs([]byte(t.Seq), cfg)
			nreq := 0
			for i := range pairs {
				if pairs[i].Status == ref.PCRRequired {
					nreq++
					if frag && len(t.Seq) > minsize {
						// position of the product relative to the fragment grid
						a := pairs[i].P
						span := pairs[i].L + lf + lr
						cls := "inside-one-fragment"
						k := a / step
						if a+span > k*step+length {
							cls = "straddles-fragment-end"
						}
						if k > 0 && a+span <= (k-1)*step+length {
							cls = "inside-overlap"
						}
						c.Key("frag|%s|%s|%s", cls, pairs[i].Dir, lenClass(cfg, pairs[i].L))
					}
				}
			}
			c.Count("amplicons_required", nreq)
			devs := ref.PCRCompare(byT[t.ID], pairs, true)
			tag := "plain"
			if frag {
				tag = "fragmented"
			}
			if !frag {
				plainOut[t.ID] = multiset(byT[t.ID], true)
				plainCnt[t.ID] = multiset(byT[t.ID], false)
			} else {
				// classify by comparison with the run without --fragmented
				for i := range devs {
					switch {
					case devs[i].Expected != nil && devs[i].Observed == nil && plainOut[t.ID][devs[i].Expected.Key()] > 0:
						devs[i].Cause = "missing:lost-by-fragmentation"
					case devs[i].Observed != nil && plainOut[t.ID][devs[i].Observed.Key()] == 0:
						devs[i].Cause += ":only-with-fragmentation"
					}
				}
			}
			report(c, devs, "obipcr ("+tag+") disagrees with the brute-force reference on a long template", map[string]any{"args": args, "template_id": t.ID, "template_length": len(t.Seq), "fragment_length": length, "fragment_step": step})
			if frag && len(t.Seq) > minsize {
				// every pair of sites must yield its amplicon once
				seen := map[string]int{}
				for _, o := range byT[t.ID] {
					seen[o.Key()]++
				}
				want := map[string]int{}
				for i := range pairs {
					if pairs[i].Status == ref.PCRRequired {
						want[pairs[i].Rec.Key()]++
					}
				}
				var keys []string
				for k := range seen {
					keys = append(keys, k)
				}
				sort.Strings(keys)
				for _, k := range keys {
					if want[k] > 1 && seen[k] < want[k] && plainCnt[t.ID][k] >= want[k] {
						// several loci give the same product: one amplicon per locus, as without --fragmented
						violate(c, "missing:identical-products-of-distinct-loci", "obipcr --fragmented reports fewer amplicons than there are pairs of sites giving that product",
							map[string]any{"args": args, "template_id": t.ID, "template_length": len(t.Seq), "record": k, "times": seen[k], "pairs_defining_it": want[k], "times_without_fragmented": plainCnt[t.ID][k]})
						break
					}
					if want[k] > 0 && seen[k] > want[k] {
						violate(c, "duplicate:fragment-overlap", "obipcr --fragmented reports the amplicon of one pair of sites more than once",
							map[string]any{"args": args, "template_id": t.ID, "template_length": len(t.Seq), "record": k, "times": seen[k], "pairs_defining_it": want[k], "fragment_length": length, "fragment_step": step})
						break
					}
				}
			}
		}
		if frag {
			c.Sample(map[string]any{"args": args[:len(args)-1], "template_lengths": []int{len(ts[0].Seq)}, "amplicons": len(recs)})
		}
	}
}

// ---------------------------------------------------------------------------
// sanitizer: the ASan / UBSan build of obipcr on the same input

var asanKind = regexp.MustCompile(`ERROR: AddressSanitizer: ([a-zA-Z-]+)`)
var asanFrame = regexp.MustCompile(`#\d+ 0x[0-9a-f]+ in (\w+) [^\n]*obiapat`)
var ubsanLine = regexp.MustCompile(`(\w+\.[ch]):\d+:\d+: runtime error: ([a-z -]+)`)

// sanitizerWorkload draws one obipcr invocation; variant selects the emphasis.
func sanitizerWorkload(c *core.Ctx, variant int, tag string) (*caseGen, []string, string) {
	o := genOpts{cli: true, fewFlanks: true, nTemplates: 6 + c.Rng.Intn(20)}
	switch variant % 4 {
	case 0: // short circular templates: the wrap-around copy of the C encoder
		o.forceCircular, o.minN, o.maxN = true, 30, 90
	case 1:
		o.batch = true // contrasting lengths: realloc path of the recycled buffer
	}
	g := newGen(c, o)
	in := filepath.Join(c.Dir, fmt.Sprintf("c11-%s-%d-%d.fasta", tag, c.Idx, variant))
	if err := writeFasta(in, g.templates, 0); err != nil {
		return nil, nil, ""
	}
	args := append(cliArgs(c, g.cfg, "--max-cpu", strconv.Itoa(1+c.Rng.Intn(2)), "--batch-size", strconv.Itoa([]int{1, 4, 50}[c.Rng.Intn(3)])), in)
	return g, args, in
}

// compareWithNormal runs the normal and the instrumented build and compares them; kind is asan or ubsan.
func compareWithNormal(c *core.Ctx, kind string, g *caseGen, args []string, bin string, env []string) {
	normal := runCmd(filepath.Join(c.BinDir, "obipcr"), args, nil)
	san := runCmd(bin, args, env)
	c.Count("evaluations", 1)
	c.Count(kind+"_executions", 1)
	shortest := 1 << 30
	for _, t := range g.templates {
		shortest = min(shortest, len(t.Seq))
	}
	c.Key("%s|%v|%s|short<64:%v|n%d", kind, g.cfg.Circular, extClass(g.cfg), shortest < 64, min(len(g.templates)/8, 3))
	topo := ":linear"
	if g.cfg.Circular {
		topo = ":circular"
		if shortest < 64 {
			topo = ":circular-template-shorter-than-64"
		}
	}
	if strings.Contains(san.stderr, "AddressSanitizer") {
		what := "report"
		if m := asanKind.FindStringSubmatch(san.stderr); m != nil {
			what = m[1]
		}
		if m := asanFrame.FindStringSubmatch(san.stderr); m != nil {
			what = m[1] // the C function of the first frame inside obiapat
		}
		i := max(0, strings.Index(san.stderr, "ERROR: AddressSanitizer"))
		violate(c, "asan:"+what+topo, "AddressSanitizer reports an error in obipcr", map[string]any{"args": args, "templates": ids(g.templates), "report": san.stderr[i:min(len(san.stderr), i+2500)]})
		return
	}
	if m := ubsanLine.FindStringSubmatch(san.stderr); m != nil {
		i := max(0, strings.Index(san.stderr, m[0]))
		violate(c, "ubsan:"+m[1]+":"+strings.ReplaceAll(strings.TrimSpace(m[2]), " ", "-"), "UndefinedBehaviorSanitizer reports an error in obipcr", map[string]any{"args": args, "templates": ids(g.templates), "report": san.stderr[i:min(len(san.stderr), i+1500)]})
		return
	}
	if (normal.exit == 0) != (san.exit == 0) {
		violate(c, kind+":exit-status", "the "+kind+" build and the normal build of obipcr end differently", map[string]any{"args": args, "normal_exit": normal.exit, "sanitizer_exit": san.exit, "sanitizer_stderr": tailStr(san.stderr, 800), "normal_stderr": tailStr(normal.stderr, 400)})
		return
	}
	if normal.exit != 0 {
		// the Fatalf of circular templates with flanks is classified by the e2e sub-check
		if cause := crashCause(g.cfg, g.templates, normal.stderr); cause != "crash:circular-flank-before-origin" {
			violate(c, cause, "obipcr exits with an error on well-formed input", map[string]any{"args": args, "exit": normal.exit, "stderr": tailStr(normal.stderr, 600)})
		}
		return
	}
	a, err1 := parseFasta(normal.stdout)
	b, err2 := parseFasta(san.stdout)
	if err1 != nil || err2 != nil {
		violate(c, "output-unreadable", "the output of obipcr is not FASTA with JSON title lines", map[string]any{"args": args})
		return
	}
	if same, diff := sameMultiset(keysOf(a), keysOf(b)); !same {
		violate(c, kind+":output-differs", "the "+kind+" build and the normal build of obipcr give different amplicons", map[string]any{"args": args, "differing_record": diff})
	}
	if len(a) > 0 {
		c.Sample(map[string]any{"build": kind, "args": args[:len(args)-1], "templates": ids(g.templates), "amplicons": len(a)})
	}
}

func runSanitizer(c *core.Ctx) {
	asanBin := filepath.Join(c.BinDir, "asan", "obipcr")
	if _, err := os.Stat(asanBin); err != nil {
		c.Inconclusive("no ASan build of obipcr")
		return
	}
	g, args, in := sanitizerWorkload(c, c.Idx, "asan")
	if g == nil {
		c.Inconclusive("cannot write the input file")
		return
	}
	defer os.Remove(in)
	compareWithNormal(c, "asan", g, args, asanBin, []string{"ASAN_OPTIONS=detect_leaks=0:halt_on_error=1:exitcode=77:abort_on_error=0"})
}

// runUBSan builds obipcr with UBSan on the C side (the harness offers no such build) and runs a series of workloads.
// alignment is not enabled: buildPattern stores uint32_t codes at an unaligned offset, harmless on x86-64 (DESIGN 4.2).
func runUBSan(c *core.Ctx) {
	bin := filepath.Join(c.Dir, "obipcr-ubsan")
	args := []string{"build", "-tags", "verif"}
	if mf := os.Getenv("VH_MODFILE"); mf != "" {
		args = append(args, "-modfile="+mf)
	}
	args = append(args, "-o", bin, "git.metabarcoding.org/obitools/obitools4/obitools4/cmd/obitools/obipcr")
	cmd := exec.Command("go", args...)
	cmd.Dir = filepath.Join(core.VerifDir, "harness")
	cmd.Env = append(os.Environ(),
		"CGO_CFLAGS=-w -g -O1 -fsanitize=shift,bounds,signed-integer-overflow,integer-divide-by-zero,null -fno-sanitize-recover=all",
		"CGO_LDFLAGS=-fsanitize=undefined")
	if out, err := cmd.CombinedOutput(); err != nil {
		c.Inconclusive("UBSan build of obipcr failed: " + tailStr(string(out), 300))
		return
	}
	defer os.Remove(bin)
	n := c.Pick(16, 150)
	for k := 0; k < n; k++ {
		g, wargs, in := sanitizerWorkload(c, k, "ubsan")
		if g == nil {
			c.Inconclusive("cannot write the input file")
			return
		}
		compareWithNormal(c, "ubsan", g, wargs, bin, []string{"UBSAN_OPTIONS=print_stacktrace=1:halt_on_error=1"})
		os.Remove(in)
		if c.Violations() > 5 {
			break
		}
	}
}
