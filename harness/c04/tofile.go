package c04

import (
	"bytes"
	"compress/gzip"
	"fmt"
	"io"
	"os"
	"path/filepath"

	"git.metabarcoding.org/obitools/obitools4/obitools4/pkg/obiformats"
	"git.metabarcoding.org/obitools/obitools4/obitools4/pkg/obiiter"

	"verifh/core"
	"verifh/itx"
	"verifh/wrx"
)

var fileKinds = []string{"fasta", "fastq", "json", "csv", "sequences"}

func writeToFile(kind string, in obiiter.IBioSequence, path string, opts ...obiformats.WithOption) (obiiter.IBioSequence, error) {
	switch kind {
	case "fasta":
		return obiformats.WriteFastaToFile(in, path, opts...)
	case "fastq":
		return obiformats.WriteFastqToFile(in, path, opts...)
	case "json":
		return obiformats.WriteJSONToFile(in, path, opts...)
	case "csv":
		return obiformats.WriteCSVToFile(in, path, append(opts, obiformats.CSVKey("k"))...)
	}
	return obiformats.WriteSequencesToFile(in, path, opts...)
}

// runToFile: the *ToFile entry points (what `-o FILE` uses). "Emit every batch exactly once ... and close
// the output after the last one": the file holds the output and nothing else, whether it existed
// before or not (shorter, longer, or a previous output), and, with the append option, what it held
// before followed by the output.
func runToFile(c *core.Ctx) {
	kind := fileKinds[c.Idx%len(fileKinds)]
	nb := 1 + c.Rng.Intn(5)
	sizes := itx.RandSizes(c.Rng, nb, 40)
	if c.Idx%7 == 3 {
		sizes[0] = 0
	}
	recs := wrx.Recs(c.Rng, itx.Sum(sizes), func() int { return []int{1, 5, 59, 60, 61, 130}[c.Rng.Intn(6)] })
	parts := itx.Partition(recs, sizes)
	withQual := kind == "fastq" || (kind == "sequences" && c.Rng.Intn(2) == 0)
	compressed := c.Rng.Intn(5) == 0
	workers := 1 + c.Rng.Intn(4)
	dir := filepath.Join(c.Dir, fmt.Sprintf("tofile-%d", c.Idx))
	os.MkdirAll(dir, 0o755)
	defer os.RemoveAll(dir)
	run := func(path string, appendMode bool) ([]byte, bool) {
		opts := []obiformats.WithOption{obiformats.OptionsParallelWorkers(workers), obiformats.OptionsCompressed(compressed)}
		if appendMode {
			opts = append(opts, obiformats.OptionsAppendFile(true))
		}
		label := "tofile:" + kind
		c.Risk(label)
		var rerr error
		ok := c.Bounded(label, wd, func() {
			var out obiiter.IBioSequence
			out, rerr = writeToFile(kind, itx.FeedBio(wrx.Bios(parts, withQual), inOrder(nb)), path, opts...)
			if rerr != nil {
				return
			}
			for out.Next() {
				out.Get()
			}
			obiiter.WaitForLastPipe()
		})
		if !ok {
			return nil, false
		}
		if rerr != nil {
			c.Violate("tofile:error:"+kind, "the writer returns an error", map[string]any{"error": rerr.Error()})
			return nil, false
		}
		b, err := os.ReadFile(path)
		if err != nil {
			c.Violate("tofile:no-file:"+kind, "the output file does not exist after the writer ended", map[string]any{"error": err.Error()})
			return nil, false
		}
		return b, true
	}
	// file names are not always plain ASCII (a sample name, a user's folder)
	freshName := []string{"fresh.out", "\u6837\u672c r\u00e9sultat.out", "\u00e9chantillon_\u03a9.out"}[c.Idx%3]
	fresh, ok := run(filepath.Join(dir, freshName), false)
	if !ok {
		return
	}
	c.Count("evaluations", 1)
	if c.Idx%4 == 1 && kind != "csv" && kind != "json" {
		// paired reads: the mates go to a second file, record for record
		mateRecs := make([]itx.Rec, len(recs))
		for i, r := range recs {
			mateRecs[i] = itx.Rec{ID: r.ID + "_mate", Seq: r.Seq + "acgt", K: r.K}
		}
		mateParts := itx.Partition(mateRecs, sizes)
		var wantRev []byte
		okRev := c.Bounded("tofile:mates-alone:"+kind, wd, func() {
			out, err := writeToFile(kind, itx.FeedBio(wrx.Bios(mateParts, withQual), inOrder(nb)), filepath.Join(dir, "mates-alone.out"),
				obiformats.OptionsParallelWorkers(workers), obiformats.OptionsCompressed(compressed))
			if err == nil {
				for out.Next() {
					out.Get()
				}
				obiiter.WaitForLastPipe()
			}
		})
		if !okRev {
			return
		}
		wantRev, _ = os.ReadFile(filepath.Join(dir, "mates-alone.out"))
		fwd, rev := wrx.Bios(parts, withQual), wrx.Bios(mateParts, withQual)
		for i := range fwd {
			for j := range fwd[i] {
				fwd[i][j].PairTo(rev[i][j])
			}
		}
		p1, p2 := filepath.Join(dir, "paired_R1.out"), filepath.Join(dir, "paired_R2.out")
		okP := c.Bounded("tofile:paired:"+kind, wd, func() {
			in := itx.FeedBio(fwd, inOrder(nb))
			in.MarkAsPaired()
			out, err := writeToFile(kind, in, p1, obiformats.OptionsParallelWorkers(workers), obiformats.OptionsCompressed(compressed), obiformats.WritePairedReadsTo(p2))
			if err == nil {
				for out.Next() {
					out.Get()
				}
				obiiter.WaitForLastPipe()
			}
		})
		if !okP {
			return
		}
		g1, _ := os.ReadFile(p1)
		g2, _ := os.ReadFile(p2)
		c.Count("evaluations", 1)
		c.Count("paired_file_outputs", 1)
		c.Key("tofile-paired/%s/%v/%d/%d", kind, compressed, nb, workers)
		if !bytes.Equal(plain(g1, compressed), plain(fresh, compressed)) || !bytes.Equal(plain(g2, compressed), plain(wantRev, compressed)) {
			c.Violate("tofile:paired:"+kind, "paired reads written to two files: a file does not hold exactly the records of its side, in order",
				map[string]any{"writer": kind, "compressed": compressed, "workers": workers, "batches": sizes, "forward_bytes": len(g1), "forward_expected": len(fresh), "mates_bytes": len(g2), "mates_expected": len(wantRev)})
			return
		}
	}
	states := []string{"longer-garbage", "shorter", "previous-longer-output", "same-length", "append"}
	state := states[(c.Idx/len(fileKinds))%len(states)]
	var before []byte
	switch state {
	case "longer-garbage":
		before = bytes.Repeat([]byte("#stale line of an older file\n"), 1+len(fresh)/20)
	case "shorter":
		before = []byte("old\n")
	case "previous-longer-output":
		before = append(append([]byte{}, fresh...), fresh...)
	case "same-length":
		before = bytes.Repeat([]byte("x"), len(fresh))
	case "append":
		before = []byte("")
		if !compressed && (kind == "fasta" || kind == "fastq") {
			before = append([]byte{}, fresh[:len(fresh)/2]...)
			if i := bytes.LastIndexByte(before, '\n'); i >= 0 {
				before = before[:i+1]
			}
		}
	}
	path := filepath.Join(dir, "existing.out")
	os.WriteFile(path, before, 0o644)
	got, ok := run(path, state == "append")
	if !ok {
		return
	}
	c.Count("evaluations", 1)
	want := fresh
	if state == "append" {
		want = append(append([]byte{}, before...), fresh...)
	}
	c.Key("tofile/%s/%s/%v/%d", kind, state, compressed, nb)
	det := map[string]any{"writer": kind, "state_of_the_file_before": state, "bytes_before": len(before), "compressed": compressed, "records": len(recs), "batches": sizes,
		"expected_bytes": len(want), "got_bytes": len(got)}
	if c.Idx < len(fileKinds) {
		c.Sample(det)
	}
	got, want = plain(got, compressed), plain(want, compressed)
	if !bytes.Equal(got, want) {
		cause := "tofile:content:" + kind + ":" + state
		if len(got) > len(want) && bytes.Equal(got[:len(want)], want) {
			cause = "tofile:stale-tail:" + kind + ":" + state
			det["tail"] = clip(got[len(want):])
		} else {
			det["got"] = clip(got)
		}
		c.Violate(cause, "the output file does not hold exactly the output of the writer (file existing before the run)", det)
	}
}

// plain: the text of an output, inflated when the writer compressed it (the compressed bytes of the
// same text may legitimately differ from file to file: a header can name the file).
func plain(b []byte, compressed bool) []byte {
	if !compressed || len(b) == 0 {
		return b
	}
	zr, err := gzip.NewReader(bytes.NewReader(b))
	if err != nil {
		return b
	}
	t, err := io.ReadAll(zr)
	if err != nil {
		return b
	}
	return t
}

func inOrder(n int) []int {
	p := make([]int, n)
	for i := range p {
		p[i] = i
	}
	return p
}
