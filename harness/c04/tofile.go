package c04

import (
	"bytes"
	"fmt"
	"os"
	"path/filepath"

	"git.metabarcoding.org/obitools/obitools4/obitools4/pkg/obiformats"
	"git.metabarcoding.org/obitools/obitools4/obitools4/pkg/obiiter"

	"verifh/core"
	"verifh/itx"
	"verifh/wrx"
)

var fileKinds = []string{"fasta", "fastq", "json", "csv", "sequences"}

func writeToFile(kind string, in obiiter.IBioSequence, path string, opts ...obiformats.WithOption) (obiiter.IBioSequence, error) {
	switch kind {
	case "fasta":
		return obiformats.WriteFastaToFile(in, path, opts...)
	case "fastq":
		return obiformats.WriteFastqToFile(in, path, opts...)
	case "json":
		return obiformats.WriteJSONToFile(in, path, opts...)
	case "csv":
		return obiformats.WriteCSVToFile(in, path, append(opts, obiformats.CSVKey("k"))...)
	}
	return obiformats.WriteSequencesToFile(in, path, opts...)
}

// runToFile: the *ToFile entry points (what `-o FILE` uses). "Emit every batch exactly once ... and close
// the output after the last one": the file holds the output and nothing else, whether it existed
// before or not (shorter, longer, or a previous output), and, with the append option, what it held
// before followed by the output.
func runToFile(c *core.Ctx) {
	kind := fileKinds[c.Idx%len(fileKinds)]
	nb := 1 + c.Rng.Intn(5)
	sizes := itx.RandSizes(c.Rng, nb, 40)
	if c.Idx%7 == 3 {
		sizes[0] = 0
	}
	recs := wrx.Recs(c.Rng, itx.Sum(sizes), func() int { return []int{1, 5, 59, 60, 61, 130}[c.Rng.Intn(6)] })
	parts := itx.Partition(recs, sizes)
	withQual := kind == "fastq" || (kind == "sequences" && c.Rng.Intn(2) == 0)
	compressed := c.Rng.Intn(5) == 0
	workers := 1 + c.Rng.Intn(4)
	dir := filepath.Join(c.Dir, fmt.Sprintf("tofile-%d", c.Idx))
	os.MkdirAll(dir, 0o755)
	defer os.RemoveAll(dir)
	run := func(path string, appendMode bool) ([]byte, bool) {
		opts := []obiformats.WithOption{obiformats.OptionsParallelWorkers(workers), obiformats.OptionsCompressed(compressed)}
		if appendMode {
			opts = append(opts, obiformats.OptionsAppendFile(true))
		}
		label := "tofile:" + kind
		c.Risk(label)
		var rerr error
		ok := c.Bounded(label, wd, func() {
			var out obiiter.IBioSequence
			out, rerr = writeToFile(kind, itx.FeedBio(wrx.Bios(parts, withQual), inOrder(nb)), path, opts...)
			if rerr != nil {
				return
			}
			for out.Next() {
				out.Get()
			}
			obiiter.WaitForLastPipe()
		})
		if !ok {
			return nil, false
		}
		if rerr != nil {
			c.Violate("tofile:error:"+kind, "the writer returns an error", map[string]any{"error": rerr.Error()})
			return nil, false
		}
		b, err := os.ReadFile(path)
		if err != nil {
			c.Violate("tofile:no-file:"+kind, "the output file does not exist after the writer ended", map[string]any{"error": err.Error()})
			return nil, false
		}
		return b, true
	}
	fresh, ok := run(filepath.Join(dir, "fresh.out"), false)
	if !ok {
		return
	}
	c.Count("evaluations", 1)
	states := []string{"longer-garbage", "shorter", "previous-longer-output", "same-length", "append"}
	state := states[(c.Idx/len(fileKinds))%len(states)]
	var before []byte
	switch state {
	case "longer-garbage":
		before = bytes.Repeat([]byte("#stale line of an older file\n"), 1+len(fresh)/20)
	case "shorter":
		before = []byte("old\n")
	case "previous-longer-output":
		before = append(append([]byte{}, fresh...), fresh...)
	case "same-length":
		before = bytes.Repeat([]byte("x"), len(fresh))
	case "append":
		before = []byte("")
		if !compressed && (kind == "fasta" || kind == "fastq") {
			before = append([]byte{}, fresh[:len(fresh)/2]...)
			if i := bytes.LastIndexByte(before, '\n'); i >= 0 {
				before = before[:i+1]
			}
		}
	}
	path := filepath.Join(dir, "existing.out")
	os.WriteFile(path, before, 0o644)
	got, ok := run(path, state == "append")
	if !ok {
		return
	}
	c.Count("evaluations", 1)
	want := fresh
	if state == "append" {
		want = append(append([]byte{}, before...), fresh...)
	}
	c.Key("tofile/%s/%s/%v/%d", kind, state, compressed, nb)
	det := map[string]any{"writer": kind, "state_of_the_file_before": state, "bytes_before": len(before), "compressed": compressed, "records": len(recs), "batches": sizes,
		"expected_bytes": len(want), "got_bytes": len(got)}
	if c.Idx < len(fileKinds) {
		c.Sample(det)
	}
	if !bytes.Equal(got, want) {
		cause := "tofile:content:" + kind + ":" + state
		if len(got) > len(want) && bytes.Equal(got[:len(want)], want) {
			cause = "tofile:stale-tail:" + kind + ":" + state
			det["tail"] = clip(got[len(want):])
		} else {
			det["got"] = clip(got)
		}
		c.Violate(cause, "the output file does not hold exactly the output of the writer (file existing before the run)", det)
	}
}

func inOrder(n int) []int {
	p := make([]int, n)
	for i := range p {
		p[i] = i
	}
	return p
}
