// Package c04: writers emit every batch once, in order, as well-formed FASTA/FASTQ/JSON/CSV.
package c04

import (
	"bytes"
	"compress/gzip"
	"encoding/csv"
	"encoding/json"
	"fmt"
	"io"
	"os"
	"strings"
	"sync"
	"time"

	"git.metabarcoding.org/obitools/obitools4/obitools4/pkg/obiiter"
	"git.metabarcoding.org/obitools/obitools4/obitools4/pkg/obioptions"
	"git.metabarcoding.org/obitools/obitools4/obitools4/pkg/obiverif"
	log "github.com/sirupsen/logrus"

	"verifh/core"
	"verifh/gen"
	"verifh/itx"
	"verifh/wrx"
)

const wd = 20 * time.Second

type arrivals struct {
	mu sync.Mutex
	l  []int
}

func (a *arrivals) hook(site string, v []int) {
	if site == "writer.arrival" && len(v) == 1 {
		a.mu.Lock()
		a.l = append(a.l, v[0])
		a.mu.Unlock()
	}
}

// maxDrain returns the longest run of chunks released from the re-sequencing buffer by one arrival.
func maxDrain(arr []int) int {
	next, best := 0, 0
	seen := map[int]bool{}
	for _, a := range arr {
		seen[a] = true
		n := 0
		for seen[next] {
			next++
			n++
		}
		if n-1 > best {
			best = n - 1
		}
	}
	return best
}

func emptyClass(sizes []int) string {
	if len(sizes) == 0 {
		return "no-batch"
	}
	e := 0
	for _, s := range sizes {
		if s == 0 {
			e++
		}
	}
	switch {
	case e == 0:
		return "no-empty-batch"
	case e == len(sizes):
		return "all-batches-empty"
	case sizes[0] == 0:
		return "empty-first-batch"
	}
	return "empty-batch"
}

// nonEmptyIDs: the identifiers of the records that have a sequence, in order.
func nonEmptyIDs(recs []itx.Rec) []string {
	ids := []string{}
	for _, r := range recs {
		if r.Seq != "" {
			ids = append(ids, r.ID)
		}
	}
	return ids
}

func runWriter(c *core.Ctx, kind string, workers int, yield bool) {
	nb := c.Idx % 7
	if c.Idx%19 == 18 {
		nb = 8 + c.Rng.Intn(20)
	}
	sizes := itx.RandSizes(c.Rng, nb, []int{0, 300, 600}[c.Rng.Intn(3)])
	if nb > 0 && c.Idx%4 == 0 {
		sizes[0] = 0
	}
	recs := wrx.Recs(c.Rng, itx.Sum(sizes), func() int { return []int{1, 5, 59, 60, 61, 130}[c.Rng.Intn(6)] })
	parts := itx.Partition(recs, sizes)
	if c.Idx%6 == 4 && nb > 0 {
		// --skip-empty: records without sequence (GenBank entries without ORIGIN give such records)
		// are left out; one whole batch is made of them, a few others hold one. The JSON and CSV writers
		// are given the option too: they write every record (or, should they honour the option one day,
		// the records with a sequence) - either way one valid array / one header and one row per record
		wrx.SkipEmpty = true
		defer func() { wrx.SkipEmpty = false }()
		whole := c.Rng.Intn(nb)
		for i := range parts {
			for j := range parts[i] {
				if i == whole || c.Rng.Intn(12) == 0 {
					parts[i][j].Seq = ""
				}
			}
		}
		c.Count("cases_with_skip_empty", 1)
	}
	compressed := c.Rng.Intn(4) == 0
	closeFile := true
	if (kind == "json" || kind == "csv") && c.Rng.Intn(3) == 0 {
		closeFile = false
	}
	if c.Idx%5 == 2 {
		// the writers at the log level of --debug (the messages go nowhere): what is logged must not
		// change what is written
		log.SetOutput(io.Discard)
		log.SetLevel(log.DebugLevel)
		c.Count("cases_at_debug_log_level", 1)
		defer func() {
			log.SetLevel(log.ErrorLevel)
			log.SetOutput(os.Stderr)
		}()
	}
	csvAuto := kind == "csv" && c.Idx%3 == 1
	wrx.CSVAuto = csvAuto
	defer func() { wrx.CSVAuto = false }()
	if yield {
		obiverif.SetYield(uint64(c.Seed)*7919+uint64(c.Idx), 400, 300)
		defer obiverif.SetYield(0, 0, 0)
	}
	ex := c.Pick(4, 5)
	for _, perm := range itx.Perms(c.Rng, nb, ex, c.Pick(6, 30)) {
		bios := wrx.Bios(parts, kind == "fastq")
		var want []byte
		if kind == "fasta" || kind == "fastq" {
			want = wrx.Expected(kind, bios)
		}
		sink := wrx.NewSink()
		arr := &arrivals{}
		obiverif.SetEventHook(arr.hook)
		label := fmt.Sprintf("%s:%s", kind, emptyClass(sizes))
		c.Risk(label)
		var rerr error
		ok := c.Bounded(label, wd, func() {
			rerr = wrx.Run(kind, bios, perm, sink, workers, compressed, closeFile)
			if closeFile {
				<-sink.Closed
			}
			// what the commands wait for before exiting: every pipe (the writer included) unregistered
			obiiter.WaitForLastPipe()
		})
		obiverif.SetEventHook(nil)
		if !ok {
			return
		}
		c.Count("evaluations", 1)
		c.Count("histories."+kind, 1)
		arr.mu.Lock()
		observed := append([]int{}, arr.l...)
		arr.mu.Unlock()
		ooo := itx.OutOfOrder(observed)
		if ooo > 0 {
			c.Count("out_of_order_histories", 1)
		}
		if maxDrain(observed) >= 2 {
			c.Count("histories_with_drain_ge2", 1)
		}
		ec := emptyClass(sizes)
		if ooo > 0 || ec != "no-empty-batch" {
			c.Key("%s/%v/%v/%v/%v", kind, sizes, observed, compressed, closeFile)
		}
		det := map[string]any{"writer": kind, "sizes": sizes, "fed_arrival": perm, "observed_arrival_at_writer": observed,
			"format_workers": workers, "compressed": compressed, "close_file": closeFile}
		if len(perm) >= 3 && ooo > 0 {
			c.Sample(det)
		}
		if rerr != nil {
			c.Violate("writer-error", "the writer returned an error", det)
			continue
		}
		if workers == 1 && fmt.Sprint(observed) != fmt.Sprint(perm) {
			// with one formatting worker the writer goroutine sees the fed order; anything else means the harness lost control
			c.Inconclusive("arrival order at the writer differs from the fed order with one formatting worker")
		}
		// sink protocol
		if closeFile && (sink.Closes != 1 || sink.WriteAfterC > 0) {
			det["closes"] = sink.Closes
			det["writes_after_close"] = sink.WriteAfterC
			c.Violate("close-protocol", "the output must be closed exactly once, after the last write", det)
		}
		if !closeFile && sink.Closes != 0 {
			c.Violate("close-protocol:closed-although-dont-close", "the output was closed although the writer was told not to close it", det)
		}
		out := sink.Snapshot()
		if compressed {
			zr, err := gzip.NewReader(bytes.NewReader(out))
			var plain []byte
			if err == nil {
				plain, err = io.ReadAll(zr)
			}
			if err != nil {
				if len(out) == 0 && len(recs) == 0 {
					plain = nil
				} else {
					det["error"] = err.Error()
					c.Violate("gzip-invalid", "the compressed output does not decompress", det)
					continue
				}
			}
			out = plain
		}
		drainClass := "in-order"
		if ooo > 0 {
			drainClass = "out-of-order-arrival"
		}
		cls := drainClass + ":" + ec
		if csvAuto {
			cls += ":auto-columns"
			det["csv_auto_columns"] = true
		}
		switch kind {
		case "fasta", "fastq":
			if !bytes.Equal(out, want) {
				det["got"] = clip(out)
				det["want"] = clip(want)
				c.Violate("bytes:"+cls, "the output is not the in-order concatenation of the formatted batches", det)
				continue
			}
			var parsed []gen.FRec
			var err error
			if kind == "fasta" {
				parsed, err = gen.ParseFasta(out)
			} else {
				parsed, err = gen.ParseFastq(out)
			}
			wantIDs := itx.IDs(recs)
			if wrx.SkipEmpty {
				wantIDs = nonEmptyIDs(recs)
			}
			if err != nil || itx.CompareSeq(gen.IDsOf(parsed), wantIDs) != "" {
				det["got"] = clip(out)
				c.Violate("records:"+cls, "the output, re-parsed, is not the record list in order", det)
				continue
			}
			if kind == "fastq" && obioptions.OutputQualityShift() == 33 {
				// well-formed FASTQ: one printable quality symbol ('!'..'~') per nucleotide, whatever the scores
				for _, r := range parsed {
					bad := len(r.Qual) != len(r.Seq)
					for k := 0; k < len(r.Qual) && !bad; k++ {
						bad = r.Qual[k] < 33 || r.Qual[k] > 126
					}
					if bad {
						det["id"], det["quality_line"] = r.ID, fmt.Sprintf("%q", r.Qual)
						c.Violate("fastq-quality-line:"+cls, "a quality line of the FASTQ output is not one printable symbol per nucleotide", det)
						break
					}
				}
			}
		case "json":
			var arrJ []map[string]any
			if err := json.Unmarshal(out, &arrJ); err != nil {
				det["got"] = clip(out)
				det["error"] = err.Error()
				c.Violate("json-invalid:"+cls, "the JSON output is not a single valid array", det)
				continue
			}
			var ids []string
			for _, o := range arrJ {
				ids = append(ids, fmt.Sprint(o["id"]))
				// the text attributes come back as they were given
				if want, ok := wrx.NoteOf(fmt.Sprint(o["id"])); ok {
					a, _ := o["annotations"].(map[string]any)
					if got, _ := a["note"].(string); got != want {
						det["id"], det["note_given"], det["note_read_back"] = o["id"], want, a["note"]
						c.Violate("json-value:"+cls, "a text attribute of a record does not come back from the JSON output as it was given", det)
						break
					}
				}
			}
			if d := itx.CompareSeq(ids, itx.IDs(recs)); d != "" && !(wrx.SkipEmpty && itx.CompareSeq(ids, nonEmptyIDs(recs)) == "") {
				det["got_ids"] = ids
				c.Violate("json-"+d+":"+cls, "the JSON array does not hold one object per record in order", det)
			}
		case "csv":
			if nb == 0 {
				continue // the property speaks of streams of at least one batch
			}
			rows, err := csv.NewReader(bytes.NewReader(out)).ReadAll()
			if err != nil || len(rows) == 0 {
				det["got"] = clip(out)
				c.Violate("csv-invalid:"+cls, "the CSV output does not parse / has no header", det)
				continue
			}
			if h := strings.Join(rows[0], ","); (!csvAuto && h != "id,k,sequence") || (csvAuto && !strings.HasPrefix(h, "id")) {
				det["got"] = clip(out)
				c.Violate("csv-header:"+cls, "the first CSV line is not the header", det)
				continue
			}
			var ids []string
			for _, r := range rows[1:] {
				ids = append(ids, r[0])
			}
			if d := itx.CompareSeq(ids, itx.IDs(recs)); d != "" && !(wrx.SkipEmpty && itx.CompareSeq(ids, nonEmptyIDs(recs)) == "") {
				det["got_ids"] = ids
				c.Violate("csv-"+d+":"+cls, "the CSV rows are not one per record in order", det)
			}
		}
	}
}

// runManyBatches: a stream of several hundred batches in which one batch of the middle is overtaken by
// hundreds of later ones (a slow formatting worker): the re-sequencing buffer of the writers has to
// park that many chunks and still emit every batch once, in order.
func runManyBatches(c *core.Ctx) {
	kind := wrx.Kinds[c.Idx%len(wrx.Kinds)]
	nb := []int{300, 520, 700, 1100}[c.Rng.Intn(4)]
	late := 1 + c.Rng.Intn(nb/3)
	behind := []int{255, 256, 257, 300, nb - late - 1}[c.Rng.Intn(5)]
	if late+behind >= nb {
		behind = nb - late - 1
	}
	var perm []int
	for i := 0; i < nb; i++ {
		if i == late {
			continue
		}
		perm = append(perm, i)
		if i == late+behind {
			perm = append(perm, late)
		}
	}
	sizes := make([]int, nb)
	for i := range sizes {
		sizes[i] = 1
		if c.Rng.Intn(10) == 0 {
			sizes[i] = 0
		}
	}
	recs := wrx.Recs(c.Rng, itx.Sum(sizes), func() int { return 5 + c.Rng.Intn(20) })
	parts := itx.Partition(recs, sizes)
	bios := wrx.Bios(parts, kind == "fastq")
	sink := wrx.NewSink()
	label := fmt.Sprintf("many-batches:%s", kind)
	c.Risk(label)
	var rerr error
	ok := c.Bounded(label, wd, func() {
		rerr = wrx.Run(kind, bios, perm, sink, 1, false, true)
		<-sink.Closed
		obiiter.WaitForLastPipe()
	})
	if !ok {
		return
	}
	c.Count("evaluations", 1)
	c.Count("histories."+kind, 1)
	c.Key("many/%s/%d/%d", kind, nb, behind)
	det := map[string]any{"writer": kind, "batches": nb, "late_batch": late, "overtaken_by": behind, "records": len(recs)}
	if c.Idx < 4 {
		c.Sample(det)
	}
	if rerr != nil {
		det["error"] = rerr.Error()
		c.Violate("error:many-batches", "the writer returns an error", det)
		return
	}
	out := sink.Snapshot()
	var ids []string
	switch kind {
	case "fasta", "fastq":
		var parsed []gen.FRec
		var err error
		if kind == "fasta" {
			parsed, err = gen.ParseFasta(out)
		} else {
			parsed, err = gen.ParseFastq(out)
		}
		if err != nil {
			det["error"] = err.Error()
			c.Violate("records:many-batches:unparsable", "the output cannot be parsed", det)
			return
		}
		ids = gen.IDsOf(parsed)
	case "json":
		var arr []map[string]any
		if err := json.Unmarshal(out, &arr); err != nil {
			det["error"] = err.Error()
			det["tail"] = clip(out[max(0, len(out)-300):])
			c.Violate("json-invalid:many-batches", "the JSON output is not a single valid array", det)
			return
		}
		for _, o := range arr {
			ids = append(ids, fmt.Sprint(o["id"]))
		}
	case "csv":
		rows, err := csv.NewReader(bytes.NewReader(out)).ReadAll()
		if err != nil || len(rows) == 0 {
			c.Violate("csv-invalid:many-batches", "the CSV output does not parse / has no header", det)
			return
		}
		for _, r := range rows[1:] {
			ids = append(ids, r[0])
		}
	}
	if d := itx.CompareSeq(ids, itx.IDs(recs)); d != "" {
		det["got_records"] = len(ids)
		c.Violate(kind+"-"+d+":many-batches", "the writer does not emit every batch exactly once in increasing batch number when one batch is overtaken by hundreds of others", det)
	}
}

// runHugeParked: a few batches of very long records arriving with the first one last, so that tens of
// megabytes (thorough tier: more than 64 MiB) of formatted output wait in the re-sequencing buffer.
func runHugeParked(c *core.Ctx) {
	kind := []string{"json", "fasta", "csv", "fastq"}[c.Idx%4]
	per := c.Pick(2, 24) << 20
	nb := 4
	var parts [][]itx.Rec
	var recs []itx.Rec
	for i := 0; i < nb; i++ {
		r := itx.Rec{ID: fmt.Sprintf("big%d", i), Seq: string(gen.DNA(c.Rng, per+c.Rng.Intn(1000))), K: i}
		parts = append(parts, []itx.Rec{r})
		recs = append(recs, r)
	}
	bios := wrx.Bios(parts, kind == "fastq")
	sink := wrx.NewSink()
	label := "huge-parked:" + kind
	c.Risk(label)
	var rerr error
	ok := c.Bounded(label, 6*wd, func() {
		rerr = wrx.Run(kind, bios, []int{1, 2, 3, 0}, sink, 1, false, true)
		<-sink.Closed
		obiiter.WaitForLastPipe()
	})
	if !ok {
		return
	}
	c.Count("evaluations", 1)
	c.Key("huge/%s/%d", kind, per>>20)
	out := sink.Snapshot()
	det := map[string]any{"writer": kind, "batches": nb, "bytes_per_record": per, "arrival": []int{1, 2, 3, 0}, "output_bytes": len(out)}
	c.Sample(det)
	if rerr != nil {
		c.Violate("error:huge-parked", "the writer returns an error", det)
		return
	}
	// every record once, in order: look for the identifiers in the output
	pos := -1
	for _, r := range recs {
		i := bytes.Index(out, []byte(r.ID))
		if i < 0 || i < pos || bytes.Count(out, []byte(r.ID)) != 1 {
			det["record"] = r.ID
			c.Violate(kind+"-records:huge-parked", "the writer does not emit every batch exactly once in increasing batch number when the parked batches are very large", det)
			return
		}
		pos = i
	}
	if kind == "json" && !json.Valid(out) {
		c.Violate("json-invalid:huge-parked", "the JSON output is not a single valid array", det)
	}
}

func clip(b []byte) string {
	if len(b) > 1500 {
		return string(b[:700]) + " ... " + string(b[len(b)-700:])
	}
	return string(b)
}

func init() {
	log.SetLevel(log.ErrorLevel)
	var subs []core.Sub
	for _, k := range wrx.Kinds {
		kind := k
		subs = append(subs, core.Sub{Name: kind, N: core.Const(70, 1400), Run: func(c *core.Ctx) { runWriter(c, kind, 1, false) }})
	}
	for _, k := range wrx.Kinds {
		kind := k
		subs = append(subs, core.Sub{Name: kind + "-workers", N: core.Const(42, 840), Race: true, NRace: core.Const(14, 140),
			Run: func(c *core.Ctx) { runWriter(c, kind, []int{2, 3, 8}[c.Idx%3], true) }})
	}
	subs = append(subs, core.Sub{Name: "many-batches", N: core.Const(16, 96), Run: runManyBatches})
	subs = append(subs, core.Sub{Name: "huge-parked", N: core.Const(4, 4), Run: runHugeParked, Serial: true, TimeoutS: 1800})
	subs = append(subs, core.Sub{Name: "tofile", N: core.Const(50, 500), Run: runToFile})
	core.Register(&core.Property{
		ID:    "C04",
		Level: "exploration",
		Rule: "each history = one real writer (WriteFasta/WriteFastq/WriteJSON/WriteCSV over CompressStream) handed a recording sink and an iterator fed with a partition of records into 0..6 batches (all permutations up to 4 (quick) / 5 (thorough) batches, random up to 27), subsets of empty batches, plain or gzip, closing or not; with ONE formatting worker the arrival order at the writer goroutine is the fed permutation (confirmed per run by the writer.arrival events), with 2-8 workers + yields the scheduler makes the order. " +
			"Added later: the *ToFile entry points over existing (shorter, longer, previous output) files and in append mode, CSV automatic columns, 300-1100 batches with one batch overtaken by 255 or more others, four batches of 2 MiB (quick) / 24 MiB (thorough) records arriving with the first one last. One case in five at the debug log level (what is logged must not change what is written). One record in three carries a text attribute that a JSON writer has to escape (backslash-u, control characters, quotes, <>&, U+2028); it must come back from the JSON output as given. tofile: file names beyond ASCII / Latin-1, paired reads written to two files (each side compared with its records written alone), compressed outputs compared after inflation. FASTA / FASTQ writers with the skip-empty option on batches made only of records without sequence. " +
			"distinct_nontrivial = distinct (writer, partition, arrival order observed at the writer, compression, close mode) with an out-of-order arrival or an empty batch",
		Assume:        []string{"encoding/json and encoding/csv decide well-formedness", "FormatFastaBatch/FormatFastqBatch of one batch is the reference rendering of that batch (C02 checks the rendering itself)"},
		Subs:          subs,
		MinNontrivial: 300,
		RaceFiles:     []string{"pkg/obiformats/seqfile_chunk_write.go", "pkg/obiformats/fastseq_write_", "pkg/obiformats/json_writer.go", "pkg/obiformats/csv_writer.go", "pkg/obiformats/universal_write.go", "pkg/obiutils/gzipfile.go"},
	})
}
