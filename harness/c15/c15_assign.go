package c15

import (
	"fmt"

	"git.metabarcoding.org/obitools/obitools4/obitools4/pkg/obiiter"
	"git.metabarcoding.org/obitools/obitools4/obitools4/pkg/obiseq"
	"git.metabarcoding.org/obitools/obitools4/obitools4/pkg/obitools/obitag"

	"verifh/core"
	"verifh/gen"
)

// runAssign goes through obitag.CLIAssignTaxonomy itself (the loading of the reference database, the
// worker and the parallel pipeline), with a database that also holds references whose taxid is not
// in the taxonomy: those are discarded with a warning (documented), wherever they stand in the
// file, and the answer must be the one of the database without them.
func runAssign(c *core.Ctx) {
	quiet()
	nRefs, L := caseSizes(c)
	nRefs = min(nRefs, 120)
	nq := c.Pick(12, 24)
	big := c.Idx%32 == 5
	if big {
		// a database of more than 8192 references (whatever is done in blocks or split between
		// goroutines above some size): the queries are copies of its LAST references
		nRefs, L = 8192+1+c.Rng.Intn(2500), 24+c.Rng.Intn(17)
		c.Count("databases_above_8192_references", 1)
	}
	rc, d := makeCase(c, nRefs, L, nq)
	if d == nil {
		return
	}
	if big {
		for qi := range rc.Queries {
			src := rc.Refs[len(rc.Refs)-1-c.Rng.Intn(8)]
			if qi%2 == 0 {
				src = rc.Refs[len(rc.Refs)-1-qi/2%2] // the very last ones
			}
			rc.Queries[qi] = gen.Mutate(c.Rng, src, c.Rng.Intn(2))
			if len(rc.Queries[qi]) < 8 {
				rc.Queries[qi] = append([]byte{}, src...)
			}
		}
	}
	// unknown taxids
	used := map[int]bool{}
	for _, id := range d.spec.Taxid {
		used[id] = true
	}
	orphanID := func() int {
		for {
			id := 1 + c.Rng.Intn(1<<20)
			if !used[id] {
				return id
			}
		}
	}
	where := []string{"none", "first", "middle", "last", "several"}[c.Idx%5]
	type slot struct {
		ref    int // index in d.raw, -1 for an orphan
		orphan []byte
	}
	var layout []slot
	for i := range d.raw {
		layout = append(layout, slot{ref: i})
	}
	mkOrphan := func() slot {
		// a tempting orphan: a copy of a query or of a reference, or a random sequence
		var s []byte
		switch c.Rng.Intn(3) {
		case 0:
			s = append([]byte{}, rc.Queries[c.Rng.Intn(len(rc.Queries))]...)
		case 1:
			s = append([]byte{}, d.raw[c.Rng.Intn(len(d.raw))]...)
		default:
			s = gen.DNA(c.Rng, 20+c.Rng.Intn(L+1))
		}
		return slot{ref: -1, orphan: s}
	}
	insert := func(at int) {
		layout = append(layout[:at], append([]slot{mkOrphan()}, layout[at:]...)...)
	}
	switch where {
	case "first":
		insert(0)
	case "middle":
		insert(1 + c.Rng.Intn(max(1, len(layout)-1)))
	case "last":
		insert(len(layout))
	case "several":
		for k := 0; k < 2+c.Rng.Intn(4); k++ {
			insert(c.Rng.Intn(len(layout) + 1))
		}
		if c.Rng.Intn(2) == 0 {
			insert(len(layout))
		}
	}
	refs := obiseq.MakeBioSequenceSlice()
	for i, sl := range layout {
		if sl.ref >= 0 {
			s := obiseq.NewBioSequence(fmt.Sprintf("ref%04d", sl.ref), append([]byte{}, d.raw[sl.ref]...), "")
			s.SetTaxid(d.spec.Taxid[d.node[sl.ref]])
			refs = append(refs, s)
		} else {
			s := obiseq.NewBioSequence(fmt.Sprintf("orphan%04d", i), sl.orphan, "")
			s.SetTaxid(orphanID())
			refs = append(refs, s)
		}
	}
	queries := obiseq.MakeBioSequenceSlice()
	for qi, q := range rc.Queries {
		queries = append(queries, newQuery(qi, q))
	}
	label := "CLIAssignTaxonomy:unknown-taxid-" + where
	c.Risk(label)
	got := map[string]*obiseq.BioSequence{}
	ok := c.Bounded(label, wdAssign, func() {
		it := obitag.CLIAssignTaxonomy(obiiter.IBatchOver("q", queries, 1+c.Rng.Intn(8)), refs, d.taxo)
		for it.Next() {
			for _, s := range it.Get().Slice() {
				got[s.Id()] = s
			}
		}
	})
	if !ok {
		return
	}
	c.Count("evaluations", len(rc.Queries))
	c.Key("assign/%s/%d/%d", where, bucket(len(d.raw), 10, 30, 100), len(layout)-len(d.raw))
	if c.Idx < 5 {
		c.Sample(map[string]any{"references": len(d.raw), "references_with_unknown_taxid": len(layout) - len(d.raw), "position": where, "queries": len(rc.Queries)})
	}
	for qi, qraw := range rc.Queries {
		id := fmt.Sprintf("query%04d", qi)
		out := got[id]
		detail := map[string]any{"query": string(qraw), "unknown_taxid_references": where, "n_refs": len(d.raw)}
		if out == nil {
			violate(c, "assign:query-lost", "CLIAssignTaxonomy does not deliver the query", detail)
			continue
		}
		_, dmin, best := bruteForce(qraw, d.raw)
		taxid := out.Taxid()
		detail["assigned_taxid"], detail["true_min_distance"], detail["true_best_idx"] = taxid, dmin, best
		nd, known := d.nodeOf[taxid]
		if !known {
			violate(c, "assign:unknown-taxon:"+where, fmt.Sprintf("assigned taxid %d is not in the taxonomy", taxid), detail)
			continue
		}
		// the best match named in the record and the number of best matches
		if bm, ok := out.GetStringAttribute("obitag_bestmatch"); ok {
			isBest := false
			for _, b := range best {
				if bm == fmt.Sprintf("ref%04d", b) {
					isBest = true
				}
			}
			if !isBest {
				detail["obitag_bestmatch"] = bm
				violate(c, "assign:bestmatch:unknown-taxid-"+where, fmt.Sprintf("the reference named as best match (%s) is not at the minimal distance %d", bm, dmin), detail)
				continue
			}
		}
		if mc, ok := out.GetIntAttribute("obitag_match_count"); ok && mc != len(best) {
			detail["obitag_match_count"] = mc
			violate(c, "assign:match-count:unknown-taxid-"+where, fmt.Sprintf("%d best matches reported, %d references lie at the minimal distance %d", mc, len(best), dmin), detail)
			continue
		}
		for _, b := range best {
			if !d.tree.IsAncestorOrSelf(nd, d.node[b]) {
				detail["uncovered_best"] = map[string]any{"idx": b, "taxid": d.spec.Taxid[d.node[b]], "seq": string(d.raw[b])}
				violate(c, "assign:not-ancestor:unknown-taxid-"+where, fmt.Sprintf("assigned taxid %d is not an ancestor-or-self of the taxon of best-matching reference %d (distance %d)", taxid, b, dmin), detail)
				break
			}
		}
	}
}
