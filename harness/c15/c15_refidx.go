package c15

import (
	"encoding/json"
	"fmt"
	"os"
	"path/filepath"
	"sort"
	"strconv"
	"strings"
	"time"

	"verifh/cmdx"
	"verifh/core"
)

// runRefidxE2E goes through the obirefidx command itself (loading of the database and of the NCBI
// dump, parallel indexing, writing). The database is given as it comes from earlier work: some
// records already carry an obitag_ref_index that was computed on ANOTHER reference set (an older
// release of the database, before sequences were added). The index written for every reference
// must describe the database it is written with.
func runRefidxE2E(c *core.Ctx) {
	quiet()
	nRefs, L := caseSizes(c)
	nRefs = min(nRefs, 80)
	rc, d, _ := makeCaseTrap(c, nRefs, L, 1, true)
	if d == nil {
		return
	}
	dir := filepath.Join(c.Dir, fmt.Sprintf("c15refidx-%d", c.Idx))
	tdir := filepath.Join(dir, "taxdump")
	if err := os.MkdirAll(tdir, 0o755); err != nil {
		c.Inconclusive("cannot create the work directory: " + err.Error())
		return
	}
	defer os.RemoveAll(dir)
	var nodes, names strings.Builder
	for i, id := range d.spec.Taxid {
		fmt.Fprintf(&nodes, "%d\t|\t%d\t|\t%s\t|\t\t|\t0\t|\t0\t|\t1\t|\t0\t|\t0\t|\t0\t|\t0\t|\t0\t|\t\t|\n", id, d.spec.Taxid[d.spec.Parent[i]], d.spec.Rank[i])
		fmt.Fprintf(&names, "%d\t|\t%s\t|\t\t|\tscientific name\t|\n", id, d.spec.Name[i])
	}
	os.WriteFile(filepath.Join(tdir, "nodes.dmp"), []byte(nodes.String()), 0o644)
	os.WriteFile(filepath.Join(tdir, "names.dmp"), []byte(names.String()), 0o644)
	os.WriteFile(filepath.Join(tdir, "merged.dmp"), nil, 0o644)

	// stale indices: what the index of the record was when the database only held a subset of the
	// present references (computed by brute force on that subset), or an index of another record
	stale := map[int]map[string]string{}
	mode := []string{"none", "some", "all"}[c.Idx%3]
	subset := make([]bool, len(d.raw))
	for i := range subset {
		subset[i] = c.Rng.Intn(2) == 0
	}
	for i := range d.raw {
		if mode == "none" || (mode == "some" && c.Rng.Intn(2) == 0) {
			continue
		}
		subset[i] = true
		dist, _, _ := bruteForce(d.raw[i], d.raw)
		old := map[string]string{}
		prev := -1
		for dd := 0; dd <= len(d.raw[i]); dd++ {
			w := -1
			for j := range d.raw {
				if subset[j] && dist[j] <= dd {
					if w < 0 {
						w = d.node[j]
					} else {
						w = d.tree.LCA(w, d.node[j])
					}
				}
			}
			if w >= 0 && w != prev {
				old[strconv.Itoa(dd)] = fmt.Sprintf("%d@%s@%s", d.spec.Taxid[w], d.spec.Name[w], d.spec.Rank[w])
				prev = w
			}
		}
		stale[i] = old
	}
	var fa strings.Builder
	for i, s := range d.raw {
		m := map[string]any{"taxid": d.spec.Taxid[d.node[i]]}
		if st, ok := stale[i]; ok {
			m["obitag_ref_index"] = st
		}
		b, _ := json.Marshal(m)
		fmt.Fprintf(&fa, ">ref%04d %s\n%s\n", i, b, s)
	}
	in := filepath.Join(dir, "refs.fasta")
	os.WriteFile(in, []byte(fa.String()), 0o644)
	args := []string{"-t", tdir, "--no-progressbar", "--max-cpu", strconv.Itoa(1 + c.Rng.Intn(4)), in}
	c.Risk("obirefidx " + strings.Join(args, " "))
	res := cmdx.Run(filepath.Join(c.BinDir, "obirefidx"), args, cmdx.Opt{Timeout: 300 * time.Second})
	detail := map[string]any{"args": strings.Join(args, " "), "n_refs": len(d.raw), "records_with_an_earlier_index": len(stale), "stderr": cmdx.Tail(res.Stderr, 600)}
	if res.TimedOut {
		c.Inconclusive("obirefidx did not finish within 300 s")
		return
	}
	if res.Exit != 0 {
		violate(c, "refidx-e2e:abnormal-exit", fmt.Sprintf("obirefidx stops with exit status %d on a well-formed database", res.Exit), detail)
		return
	}
	got := map[int]map[int]string{}
	for _, line := range strings.Split(string(res.Stdout), "\n") {
		if !strings.HasPrefix(line, ">ref") {
			continue
		}
		sp := strings.IndexByte(line, ' ')
		if sp < 0 {
			continue
		}
		i, err := strconv.Atoi(line[4:sp])
		if err != nil {
			continue
		}
		var ann struct {
			Idx map[string]string `json:"obitag_ref_index"`
		}
		if json.Unmarshal([]byte(strings.TrimSpace(line[sp:])), &ann) != nil || ann.Idx == nil {
			continue
		}
		m := map[int]string{}
		for k, v := range ann.Idx {
			if n, err := strconv.Atoi(k); err == nil {
				m[n] = v
			} else {
				m[-1] = v
			}
		}
		got[i] = m
	}
	c.Count("evaluations", len(d.raw))
	c.Count("refidx_e2e_records_with_an_earlier_index", len(stale))
	c.Key("refidx-e2e/%s/%d/%d", mode, bucket(len(d.raw), 10, 30, 100), min(d.tree.Depth[d.node[0]], 6))
	ids := make([]int, 0, len(d.raw))
	for i := range d.raw {
		ids = append(ids, i)
	}
	sort.Ints(ids)
	for _, i := range ids {
		idx, ok := got[i]
		if !ok {
			dd := map[string]any{"reference": i}
			for k, v := range detail {
				dd[k] = v
			}
			violate(c, "refidx-e2e:record-without-index", fmt.Sprintf("reference %d comes out of obirefidx without a readable obitag_ref_index", i), dd)
			continue
		}
		dist, _, _ := bruteForce(d.raw[i], d.raw)
		before := c.Violations()
		checkIndex(c, d, i, idx, dist)
		if c.Violations() > before {
			break // one report per database
		}
	}
	if c.Idx < 3 {
		c.Sample(map[string]any{"args": strings.Join(args, " "), "n_refs": len(d.raw), "earlier_indices": mode, "first_record": strings.SplitN(fa.String(), "\n", 2)[0], "queries": len(rc.Queries)})
	}
}
