// Package c15: the assignment search of obitag is lossless.
//
// Real code observed: obitag.FindClosests, obitag2.FindClosests,
// obirefidx.IndexSequence, obitag.Identify (sequentially and from 8 goroutines
// sharing the references). Oracle: the harness's own full-matrix LCS DP
// (ref.LCS: maximal LCS, then shortest alignment; distance = columns - LCS)
// evaluated against ALL references, and a parent-array LCA (ref.Tree).
package c15

import (
	"fmt"
	"io"
	"os"
	"sort"
	"strconv"
	"strings"
	"sync"
	"time"

	log "github.com/sirupsen/logrus"

	"git.metabarcoding.org/obitools/obitools4/obitools4/pkg/obikmer"
	"git.metabarcoding.org/obitools/obitools4/obitools4/pkg/obiseq"
	"git.metabarcoding.org/obitools/obitools4/obitools4/pkg/obitax"
	"git.metabarcoding.org/obitools/obitools4/obitools4/pkg/obitools/obirefidx"
	"git.metabarcoding.org/obitools/obitools4/obitools4/pkg/obitools/obitag"
	"git.metabarcoding.org/obitools/obitools4/obitools4/pkg/obitools/obitag2"
	"git.metabarcoding.org/obitools/obitools4/obitools4/pkg/obiutils"

	"verifh/core"
	"verifh/gen"
	"verifh/ref"
)

// ---------------------------------------------------------------------------
// database under test + reference data

const wdAssign = 60 * time.Second

type db struct {
	raw    [][]byte
	refs   obiseq.BioSequenceSlice
	counts []*obikmer.Table4mer
	taxa   obitax.TaxonSet
	taxo   *obitax.Taxonomy
	spec   *gen.TaxSpec
	tree   *ref.Tree
	node   []int       // taxonomy node of each reference
	nodeOf map[int]int // taxid -> node
}

// buildTaxonomy builds the real taxonomy through the public obitax API.
func buildTaxonomy(spec *gen.TaxSpec) (*obitax.Taxonomy, error) {
	taxo := obitax.NewTaxonomy()
	for i, id := range spec.Taxid {
		if _, err := taxo.AddNewTaxa(id, spec.Taxid[spec.Parent[i]], spec.Rank[i], false, false); err != nil {
			return nil, err
		}
	}
	class := "scientific name"
	for i, id := range spec.Taxid {
		name := spec.Name[i]
		if err := taxo.AddNewName(id, &name, &class); err != nil {
			return nil, err
		}
	}
	if err := taxo.ReindexParent(); err != nil {
		return nil, err
	}
	return taxo, nil
}

// newDB builds the reference database exactly as obitag.CLIAssignTaxonomy does
// (Count4Mer tables, TaxonSet indexed by reference number).
func newDB(raw [][]byte, spec *gen.TaxSpec, node []int) (*db, error) {
	d := &db{raw: raw, spec: spec, node: node, nodeOf: map[int]int{}}
	d.tree = ref.NewTree(spec.Parent)
	if d.tree == nil {
		return nil, fmt.Errorf("generator produced a parent array that is not a tree")
	}
	for i, id := range spec.Taxid {
		d.nodeOf[id] = i
	}
	taxo, err := buildTaxonomy(spec)
	if err != nil {
		return nil, err
	}
	d.taxo = taxo
	d.refs = make(obiseq.BioSequenceSlice, len(raw))
	d.counts = make([]*obikmer.Table4mer, len(raw))
	d.taxa = make(obitax.TaxonSet, len(raw))
	buffer := make([]byte, 0, 1000)
	for i, s := range raw {
		d.refs[i] = obiseq.NewBioSequence(fmt.Sprintf("ref%04d", i), append([]byte{}, s...), "")
		d.refs[i].SetTaxid(spec.Taxid[node[i]])
		d.counts[i] = obikmer.Count4Mer(d.refs[i], &buffer, nil)
		d.taxa[i], err = taxo.Taxon(spec.Taxid[node[i]])
		if err != nil {
			return nil, err
		}
	}
	return d, nil
}

func newQuery(i int, s []byte) *obiseq.BioSequence {
	return obiseq.NewBioSequence(fmt.Sprintf("query%04d", i), append([]byte{}, s...), "")
}

// oracle: distances of q to every reference, the minimum and the set of references at the minimum.
func bruteForce(q []byte, raw [][]byte) (dist []int, dmin int, best []int) {
	dist = make([]int, len(raw))
	dmin = -1
	for i, r := range raw {
		dist[i] = ref.LCSDistance(q, r)
		if dmin < 0 || dist[i] < dmin {
			dmin = dist[i]
		}
	}
	for i := range raw {
		if dist[i] == dmin {
			best = append(best, i)
		}
	}
	return
}

// lenRel describes the order of the three lengths that matter for a reference
// lost by the search: q = query, m = the lost reference, b = the first returned
// best reference (the one whose length fixed the pruning threshold).
// Examples: "m<q<b", "q=m<b", "q<m=b".
func lenRel(q, m, b int) string {
	type it struct {
		n string
		l int
	}
	v := []it{{"q", q}, {"m", m}, {"b", b}}
	sort.SliceStable(v, func(i, j int) bool {
		if v[i].l != v[j].l {
			return v[i].l < v[j].l
		}
		return v[i].n > v[j].n // q, m, b in that order among equals
	})
	s := v[0].n
	for i := 1; i < 3; i++ {
		if v[i].l == v[i-1].l {
			s += "="
		} else {
			s += "<"
		}
		s += v[i].n
	}
	return s
}

// lostRel = lenRel, plus ":not-below-threshold" when the lost reference m shares at least
// max(len q, len b)-3-4*distance 4-letter words with the query.
func lostRel(q, m, b []byte, maxe int) string {
	rel := lenRel(len(q), len(m), len(b))
	if ref.Common4mers(q, m) >= max(len(q), len(b))-3-4*maxe {
		rel += ":not-below-threshold"
	}
	return rel
}

type finder func(*obiseq.BioSequence, obiseq.BioSequenceSlice, []*obikmer.Table4mer, bool) (obiseq.BioSequenceSlice, int, float64, string, []int)

// searchOrderPos returns the position of reference m in the candidate order of the search
// (decreasing number of shared 4-mers, computed with the same utility the commands use).
// Only used to attribute a lost reference to the 1000-candidate cap of obitag2.
func searchOrderPos(d *db, q *obiseq.BioSequence, m int) int {
	qc := obikmer.Count4Mer(q, nil, nil)
	cw := make([]int, len(d.counts))
	for i, rc := range d.counts {
		cw[i] = obikmer.Common4Mer(qc, rc)
	}
	o := obiutils.Reverse(obiutils.IntOrder(cw), true)
	for p, x := range o {
		if x == m {
			return p
		}
	}
	return -1
}

// checkClosest runs one FindClosests and compares it with the brute force.
// Returns the oracle (dist, dmin, best) and the returned index set for further use.
func checkClosest(c *core.Ctx, d *db, find finder, capped bool, qi int, qraw []byte, kind string) (dmin int, best []int, got []int) {
	q := newQuery(qi, qraw)
	dist, dmin, best := bruteForce(qraw, d.raw)
	c.Risk("FindClosests")
	bests, maxe, _, _, idxs := find(q, d.refs, d.counts, false)
	c.Count("evaluations", 1)
	got = append([]int{}, idxs...)

	detail := func(m int) map[string]any {
		dt := map[string]any{"query": string(qraw), "query_kind": kind, "n_refs": len(d.raw),
			"returned_distance": maxe, "returned_idx": idxs, "true_min_distance": dmin, "true_best_idx": best}
		if len(idxs) > 0 && idxs[0] >= 0 && idxs[0] < len(d.raw) {
			b := idxs[0]
			dt["first_returned"] = map[string]any{"idx": b, "seq": string(d.raw[b]), "len": len(d.raw[b]), "distance": dist[b], "common4mers": ref.Common4mers(qraw, d.raw[b])}
		}
		if m >= 0 {
			dt["lost"] = map[string]any{"idx": m, "seq": string(d.raw[m]), "len": len(d.raw[m]), "distance": dist[m], "common4mers": ref.Common4mers(qraw, d.raw[m])}
		}
		return dt
	}

	// structural consistency of the answer
	if len(bests) != len(idxs) || len(idxs) == 0 {
		violate(c, "inconsistent-result", "FindClosests returned lists of different lengths or nothing", detail(-1))
		return
	}
	seen := map[int]bool{}
	for i, x := range idxs {
		if x < 0 || x >= len(d.refs) || bests[i] != d.refs[x] || seen[x] {
			violate(c, "inconsistent-result", "FindClosests: bests / index list do not denote distinct references of the database", detail(-1))
			return
		}
		seen[x] = true
	}
	// Structural description of a lost reference m: the order of the lengths of query, lost
	// reference and first returned best reference; ":not-below-threshold" is added when m shares
	// at least max(len q, len b)-3-4*distance 4-letter words with the query, i.e. when even the
	// threshold derived from the longer reference b cannot explain that m was not examined.
	relOf := func(m int) string {
		if capped {
			if p := searchOrderPos(d, q, m); p > 1000 {
				return "candidate-cap"
			}
		}
		return lostRel(qraw, d.raw[m], d.raw[idxs[0]], maxe)
	}
	if maxe != dmin {
		if maxe < dmin {
			violate(c, "distance:below-minimum", fmt.Sprintf("FindClosests reports distance %d, no reference is closer than %d", maxe, dmin), detail(-1))
			return
		}
		m := best[0]
		violate(c, "distance:"+relOf(m), fmt.Sprintf("FindClosests reports best distance %d but reference %d is at distance %d", maxe, m, dmin), detail(m))
		return
	}
	for _, x := range idxs {
		if dist[x] != dmin {
			violate(c, "spurious-best", fmt.Sprintf("FindClosests returns reference %d (distance %d) among the best (distance %d)", x, dist[x], dmin), detail(-1))
			return
		}
	}
	lost := 0
	for _, m := range best {
		if !seen[m] {
			lost++
			violate(c, "missed-tie:"+relOf(m), fmt.Sprintf("reference %d is at the best distance %d but is not returned (%d of %d tied references returned)", m, dmin, len(idxs), len(best)), detail(m))
		}
	}
	if lost > 0 {
		c.Count("queries_with_lost_tie", 1)
	}
	return
}

func bucket(n int, bounds ...int) int {
	for i, b := range bounds {
		if n <= b {
			return i
		}
	}
	return len(bounds)
}

// tieShape summarises the lengths of the tied best references relative to the query.
func tieShape(q []byte, raw [][]byte, best []int) string {
	lo, hi := 0, 0
	for _, b := range best {
		if len(raw[b]) < len(q) {
			lo = 1
		}
		if len(raw[b]) > len(q) {
			hi = 1
		}
	}
	return fmt.Sprintf("s%dl%d", lo, hi)
}

func caseSizes(c *core.Ctx) (nRefs, L int) {
	switch x := c.Rng.Intn(10); {
	case x < 4:
		nRefs = 5 + c.Rng.Intn(20)
	case x < 8:
		nRefs = 25 + c.Rng.Intn(76)
	default:
		nRefs = 100 + c.Rng.Intn(201)
	}
	L = []int{24, 40, 60, 90, 120}[c.Rng.Intn(5)]
	if nRefs > 100 && L > 90 {
		L = 90
	}
	return
}

func makeCase(c *core.Ctx, nRefs, L, nQueries int) (*gen.RefCase, *db) {
	rc, d, _ := makeCaseTrap(c, nRefs, L, nQueries, false)
	return rc, d
}

// makeCaseTrap: with trap, one case in two also contains the constellation of gen.IndexTrap;
// the third result is the index of its central reference (-1: none).
func makeCaseTrap(c *core.Ctx, nRefs, L, nQueries int, trap bool) (*gen.RefCase, *db, int) {
	nTie := c.Rng.Intn(4)
	if c.Rng.Intn(4) == 0 {
		nTie = 0
	}
	rc := gen.NewRefCase(c.Rng, nRefs, L, nQueries, nTie)
	for len(rc.Refs) > 8192 && (len(rc.Refs)%2 == 0 || len(rc.Refs)%3 == 0) {
		// very large databases: a size that no small number of workers divides evenly
		rc.Refs, rc.Fam = rc.Refs[:len(rc.Refs)-1], rc.Fam[:len(rc.Fam)-1]
	}
	if nRefs <= 40 && c.Rng.Intn(6) == 0 {
		// low-complexity amplicons: every sequence starts with the same long microsatellite or
		// homopolymer, so that one 4-mer occurs several hundred times in queries and references
		unit := []string{"a", "ac", "acg", "t"}[c.Rng.Intn(4)]
		block := []byte(strings.Repeat(unit, (260+c.Rng.Intn(300))/len(unit)+1))
		for i := range rc.Refs {
			rc.Refs[i] = append(append([]byte{}, block...), rc.Refs[i]...)
		}
		for i := range rc.Queries {
			rc.Queries[i] = append(append([]byte{}, block...), rc.Queries[i]...)
		}
		c.Count("low_complexity_cases", 1)
	}
	if nRefs <= 100 && c.Rng.Intn(5) == 0 {
		// rearranged amplicons: a query of 150-400 bases, a reference that is the same sequence with a
		// block moved (circular permutation: it shares every 4-mer with the query, so it is the first
		// candidate examined, yet lies far away), and in-order variants of the query at a range of
		// distances around it. Whatever is assumed from the first candidate must not hide the others.
		r := c.Rng
		for g := 0; g < 1+r.Intn(3); g++ {
			n := 150 + r.Intn(250)
			q := gen.DNA(r, n)
			cut := n/4 + 10 + r.Intn(n/2-20)
			rc.Refs = append(rc.Refs, append(append([]byte{}, q[cut:]...), q[:cut]...))
			rc.Fam = append(rc.Fam, -1)
			// in-order variants of the query whose true distance lies just below that of the rearranged
			// copy (substitutions are added until the full-matrix distance reaches the target)
			moved := rc.Refs[len(rc.Refs)-1]
			l0, a0 := ref.LCS(q, moved, ref.Compatible)
			far := a0 - l0
			perm := r.Perm(n)
			backs := []int{1, 2 + r.Intn(3), 6 + r.Intn(6), 14 + r.Intn(10), 30 + r.Intn(20), far / 2}
			backs = backs[:r.Intn(len(backs)+1)] // from "the rearranged copy alone" to "variants down to half its distance"
			for _, back := range backs {
				target := far - back
				if target < 1 {
					continue
				}
				lo, hi := 0, n // number of substituted positions
				variant := func(m int) []byte {
					v := append([]byte{}, q...)
					for _, p := range perm[:m] {
						v[p] = gen.ACGT[(strings.IndexByte(string(gen.ACGT), v[p])+1+int(perm[p])%3)%4]
					}
					return v
				}
				dist := func(m int) int {
					l, a := ref.LCS(q, variant(m), ref.Compatible)
					return a - l
				}
				for lo < hi { // smallest m with distance >= target
					mid := (lo + hi) / 2
					if dist(mid) >= target {
						hi = mid
					} else {
						lo = mid + 1
					}
				}
				if dist(lo) >= far {
					continue
				}
				rc.Refs = append(rc.Refs, variant(lo))
				rc.Fam = append(rc.Fam, -1)
			}
			at := r.Intn(len(rc.Queries))
			rc.Queries[at], rc.QKind[at] = q, "rearranged"
			if r.Intn(2) == 0 {
				at = r.Intn(len(rc.Queries))
				rc.Queries[at], rc.QKind[at] = gen.Mutate(r, q, r.Intn(4)), "rearranged"
			}
		}
		c.Count("rearranged_cases", 1)
	}
	spec := gen.Taxonomy(c.Rng, 1+c.Rng.Intn(40))
	node := gen.AssignTaxa(c.Rng, rc, spec)
	self := -1
	if trap && c.Rng.Intn(2) == 0 {
		node, self = gen.IndexTrap(c.Rng, rc, spec, node)
	}
	d, err := newDB(rc.Refs, spec, node)
	if err != nil {
		c.Inconclusive("cannot build the database: " + err.Error())
		return nil, nil, -1
	}
	return rc, d, self
}

func runClosestWith(find finder, capped bool) func(c *core.Ctx) {
	return func(c *core.Ctx) {
		quiet()
		var rc *gen.RefCase
		var d *db
		nq := c.Pick(12, 24)
		if (capped && c.Idx < c.Pick(2, 12)) || (!capped && c.Idx < c.Pick(1, 3)) {
			// obitag2 stops after 1001 candidates (recorded finding); obitag must not
			rc, d = capCase(c, nq)
		} else {
			nRefs, L := caseSizes(c)
			rc, d = makeCase(c, nRefs, L, nq)
		}
		if d == nil {
			return
		}
		for qi, q := range rc.Queries {
			dmin, best, _ := checkClosest(c, d, find, capped, qi, q, rc.QKind[qi])
			if len(best) >= 2 || dmin >= 1 {
				c.Key("%d/%d/%d/%s/%s", bucket(len(d.raw), 10, 30, 100, 300), min(dmin, 12), bucket(len(best), 1, 2, 4), tieShape(q, d.raw, best), rc.QKind[qi])
			}
			if len(best) >= 2 {
				c.Count("queries_with_ties", 1)
			}
		}
		if c.Idx == 0 {
			c.Sample(map[string]any{"n_refs": len(rc.Refs), "refs_first3": strs(rc.Refs, 3), "queries_first3": strs(rc.Queries, 3), "kinds": rc.QKind})
		}
	}
}

func strs(b [][]byte, n int) []string {
	var s []string
	for i := 0; i < len(b) && i < n; i++ {
		s = append(s, string(b[i]))
	}
	return s
}

// capCase: more than 1001 near-identical references (obitag2 stops after 1001 candidates).
func capCase(c *core.Ctx, nq int) (*gen.RefCase, *db) {
	r := c.Rng
	L := 40 + r.Intn(30)
	s := gen.DNA(r, L)
	rc := &gen.RefCase{}
	n := 1150 + r.Intn(100)
	variant := c.Idx % 2
	for i := 0; i < n; i++ {
		var v []byte
		switch {
		case variant == 0 && i < n-60: // one substitution anywhere: about 1100 references tied at distance 1
			v = gen.SpreadEdits(r, s, 1, 0, 0)
		case variant == 0:
			v = gen.SpreadEdits(r, s, 2, 0, 0)
		case variant == 1 && i == 0: // the only reference at distance 1, in the middle (loses 4 words)
			v = append([]byte{}, s...)
			p := L/2 - 2 + r.Intn(4)
			v[p] = gen.ACGT[(strings.IndexByte(gen.ACGT, v[p])+1+r.Intn(3))%4]
		default: // distance 2 through both end letters (loses 2 words only): sorted before the one above
			v = append([]byte{}, s...)
			v[0] = gen.ACGT[(strings.IndexByte(gen.ACGT, v[0])+1+r.Intn(3))%4]
			v[L-1] = gen.ACGT[(strings.IndexByte(gen.ACGT, v[L-1])+1+r.Intn(3))%4]
		}
		rc.Refs = append(rc.Refs, v)
		rc.Fam = append(rc.Fam, 0)
	}
	r.Shuffle(len(rc.Refs), func(i, j int) { rc.Refs[i], rc.Refs[j] = rc.Refs[j], rc.Refs[i] })
	nq = min(nq, 6)
	for i := 0; i < nq; i++ {
		q := append([]byte{}, s...)
		if i > 0 {
			q = gen.Mutate(r, s, 1)
			if len(q) < 8 {
				q = append([]byte{}, s...)
			}
		}
		rc.Queries = append(rc.Queries, q)
		rc.QKind = append(rc.QKind, "cap")
	}
	spec := gen.Taxonomy(r, 1+r.Intn(10))
	node := gen.AssignTaxa(r, rc, spec)
	d, err := newDB(rc.Refs, spec, node)
	if err != nil {
		c.Inconclusive("cannot build the database: " + err.Error())
		return nil, nil
	}
	return rc, d
}

// ---------------------------------------------------------------------------
// index

// parseEntry decodes "taxid@name@rank".
func parseEntry(s string) (int, bool) {
	p := strings.Split(s, "@")
	if len(p) != 3 {
		return 0, false
	}
	id, err := strconv.Atoi(p[0])
	return id, err == nil
}

// expectedWithin returns the LCA (node) of the taxa of all references within distance dd of reference i.
func expectedWithin(d *db, dist []int, dd int) int {
	var nodes []int
	for j := range d.raw {
		if dist[j] <= dd {
			nodes = append(nodes, d.node[j])
		}
	}
	return d.tree.LCAOf(nodes)
}

// checkIndex compares one IndexSequence result with the brute force; dist = distances of reference i to all references.
func checkIndex(c *core.Ctx, d *db, i int, idx map[int]string, dist []int) {
	keys := make([]int, 0, len(idx))
	for k := range idx {
		keys = append(keys, k)
	}
	sort.Ints(keys)
	for _, k := range keys {
		detail := map[string]any{"reference": i, "seq": string(d.raw[i]), "taxid": d.spec.Taxid[d.node[i]], "index": idx, "n_refs": len(d.raw)}
		id, ok := parseEntry(idx[k])
		nd, known := d.nodeOf[id]
		if !ok || !known || k < 0 {
			violate(c, "index-entry-malformed", fmt.Sprintf("index entry %d -> %q is not distance -> taxid@name@rank of a taxon of the taxonomy", k, idx[k]), detail)
			continue
		}
		want := expectedWithin(d, dist, k)
		c.Count("index_entries_checked", 1)
		if nd == want {
			continue
		}
		var within []map[string]any
		for j := range d.raw {
			if dist[j] <= k && len(within) < 12 {
				within = append(within, map[string]any{"idx": j, "distance": dist[j], "taxid": d.spec.Taxid[d.node[j]], "len": len(d.raw[j]), "seq": string(d.raw[j])})
			}
		}
		detail["distance"] = k
		detail["recorded_taxid"] = id
		detail["expected_taxid"] = d.spec.Taxid[want]
		detail["within"] = within
		cause := "index-lca:unrelated"
		switch {
		case d.tree.IsAncestorOrSelf(want, nd):
			// references within the distance were not taken into account
			cause = "index-lca:too-specific:" + overlookedClass(d, i, dist, k, nd)
		case d.tree.IsAncestorOrSelf(nd, want):
			cause = "index-lca:too-general"
		}
		violate(c, cause, fmt.Sprintf("index of reference %d maps distance %d to taxid %d, the LCA of the references within %d is taxid %d", i, k, id, k, d.spec.Taxid[want]), detail)
	}
	// not part of the verdict (the property only speaks of recorded distances): distances
	// at which the LCA changes but that the index does not record
	if len(keys) > 0 {
		maxd := 0
		for _, x := range dist {
			maxd = max(maxd, x)
		}
		prev := -1
		for dd := 0; dd <= maxd && dd < len(d.raw[i]); dd++ {
			w := expectedWithin(d, dist, dd)
			if w != prev {
				if _, ok := idx[dd]; !ok {
					c.Count("index_unrecorded_lca_change", 1)
				}
				prev = w
			}
		}
	}
}

// overlookedClass describes the references X within distance k of reference i whose taxon is
// not below the recorded taxon nd (the scan overlooked all of them). "behind-longer-candidate":
// for every such X there is another reference Y at the same taxonomic level (same LCA with the
// taxon of i) that shares at least as many 4-letter words with i as X does (so it may be
// scanned before X) and fewer than max(len i, len Y)-3-4(k+1), the threshold the scan derives
// from the length of Y; this implies len Y > max(len i, len X)+4. Otherwise "unexplained".
func overlookedClass(d *db, i int, dist []int, k, nd int) string {
	s := d.raw[i]
	cw := make([]int, len(d.raw))
	level := make([]int, len(d.raw))
	for j := range d.raw {
		cw[j] = ref.Common4mers(s, d.raw[j])
		level[j] = d.tree.LCA(d.node[i], d.node[j])
	}
	for x := range d.raw {
		if dist[x] > k || d.tree.IsAncestorOrSelf(nd, d.node[x]) {
			continue
		}
		explained := false
		for y := range d.raw {
			if y != x && level[y] == level[x] && cw[y] >= cw[x] && cw[y] < max(len(s), len(d.raw[y]))-3-4*(k+1) {
				explained = true
				break
			}
		}
		if !explained {
			return "unexplained"
		}
	}
	return "behind-longer-candidate"
}

func runIndex(c *core.Ctx) {
	quiet()
	nRefs, L := caseSizes(c)
	nRefs = min(nRefs, 150)
	rc, d, self := makeCaseTrap(c, nRefs, L, 1, true)
	if d == nil {
		return
	}
	per := min(c.Pick(10, 20), len(rc.Refs))
	perm := c.Rng.Perm(len(rc.Refs))[:per]
	if self >= 0 {
		perm[0] = self
		c.Count("index_trap_cases", 1)
	}
	for _, i := range perm {
		c.Risk("IndexSequence")
		idx := obirefidx.IndexSequence(i, d.refs, &d.counts, &d.taxa, d.taxo)
		c.Count("evaluations", 1)
		dist, _, _ := bruteForce(d.raw[i], d.raw)
		checkIndex(c, d, i, idx, dist)
		if len(idx) >= 2 {
			c.Key("%d/%d/%d", bucket(len(d.raw), 10, 30, 100), min(len(idx), 8), min(d.tree.Depth[d.node[i]], 8))
		}
		if c.Idx == 0 && i == perm[0] {
			c.Sample(map[string]any{"n_refs": len(rc.Refs), "reference": string(d.raw[i]), "taxid": d.spec.Taxid[d.node[i]], "index": idx, "taxonomy": d.spec})
		}
	}
}

// ---------------------------------------------------------------------------
// identify

func runIdentify(c *core.Ctx) {
	quiet()
	nRefs, L := caseSizes(c)
	nRefs = min(nRefs, 150)
	nq := c.Pick(12, 24)
	rc, d := makeCase(c, nRefs, L, nq)
	if d == nil {
		return
	}
	seqTaxid := make([]int, len(rc.Queries))
	for qi, qraw := range rc.Queries {
		_, dmin, best := bruteForce(qraw, d.raw)
		q := newQuery(qi, qraw)
		c.Risk("Identify")
		out := obitag.Identify(q, d.refs, d.counts, d.taxa, d.taxo, false)
		c.Count("evaluations", 1)
		taxid := out.Taxid()
		seqTaxid[qi] = taxid
		nd, known := d.nodeOf[taxid]
		detail := map[string]any{"query": string(qraw), "query_kind": rc.QKind[qi], "assigned_taxid": taxid, "true_min_distance": dmin, "true_best_idx": best, "n_refs": len(d.raw)}
		if !known {
			violate(c, "unknown-taxon", fmt.Sprintf("Identify assigned taxid %d, which is not in the taxonomy", taxid), detail)
			continue
		}
		distinct := map[int]bool{}
		for _, b := range best {
			distinct[d.node[b]] = true
		}
		if len(distinct) >= 2 || (len(best) >= 2 && dmin >= 1) {
			c.Key("%d/%d/%d/%d", bucket(len(best), 1, 2, 4), min(dmin, 10), min(len(distinct), 4), min(d.tree.Depth[nd], 6))
		}
		var uncovered []int
		for _, b := range best {
			if !d.tree.IsAncestorOrSelf(nd, d.node[b]) {
				uncovered = append(uncovered, b)
			}
		}
		if len(uncovered) == 0 {
			continue
		}
		// which references did the search return for this query? (classification only)
		_, maxe, _, _, idxs := obitag.FindClosests(newQuery(qi, qraw), d.refs, d.counts, false)
		returned := map[int]bool{}
		for _, x := range idxs {
			returned[x] = true
		}
		m := uncovered[0]
		cause := "not-ancestor:of-returned-best"
		if !returned[m] && len(idxs) > 0 {
			cause = "not-ancestor:of-lost-tie:" + lostRel(qraw, d.raw[m], d.raw[idxs[0]], maxe)
		}
		detail["uncovered_best"] = map[string]any{"idx": m, "taxid": d.spec.Taxid[d.node[m]], "seq": string(d.raw[m]), "len": len(d.raw[m])}
		detail["search_returned_idx"] = idxs
		detail["taxonomy"] = d.spec
		violate(c, cause, fmt.Sprintf("assigned taxid %d is not an ancestor-or-self of taxid %d of best-matching reference %d (distance %d)", taxid, d.spec.Taxid[d.node[m]], m, dmin), detail)
	}
	// the lazily built indexes stored on the shared references must be the ones IndexSequence computes
	lazy := 0
	for i, r := range d.refs {
		got := r.OBITagRefIndex()
		if got == nil {
			continue
		}
		lazy++
		want := obirefidx.IndexSequence(i, d.refs, &d.counts, &d.taxa, d.taxo)
		if !sameIndex(got, want) {
			violate(c, "lazy-index-differs", fmt.Sprintf("index stored on reference %d by Identify differs from IndexSequence", i), map[string]any{"stored": got, "computed": want})
		}
	}
	c.Count("lazy_indexes", lazy)

	// the same queries from 8 goroutines sharing fresh (not yet indexed) references
	d2, err := newDB(rc.Refs, d.spec, d.node)
	if err != nil {
		c.Inconclusive("cannot rebuild the database: " + err.Error())
		return
	}
	conc := make([]int, len(rc.Queries))
	var wg sync.WaitGroup
	c.Risk("Identify-concurrent")
	for g := 0; g < 8; g++ {
		wg.Add(1)
		go func(g int) {
			defer wg.Done()
			for qi := g; qi < len(rc.Queries); qi += 8 {
				out := obitag.Identify(newQuery(qi, rc.Queries[qi]), d2.refs, d2.counts, d2.taxa, d2.taxo, false)
				conc[qi] = out.Taxid()
			}
		}(g)
	}
	wg.Wait()
	c.Count("evaluations", len(rc.Queries))
	for qi := range conc {
		if conc[qi] != seqTaxid[qi] {
			violate(c, "concurrent-differs", fmt.Sprintf("query %d: taxid %d when identified alone, %d from 8 goroutines sharing the references", qi, seqTaxid[qi], conc[qi]),
				map[string]any{"query": string(rc.Queries[qi]), "sequential": seqTaxid[qi], "concurrent": conc[qi]})
		}
	}
	for i, r := range d2.refs {
		got := r.OBITagRefIndex()
		if got == nil {
			continue
		}
		if want := d.refs[i].OBITagRefIndex(); want != nil && !sameIndex(got, want) {
			violate(c, "concurrent-differs", fmt.Sprintf("index stored on reference %d differs between the sequential and the concurrent run", i), map[string]any{"sequential": want, "concurrent": got})
		}
	}
	if c.Idx == 0 {
		c.Sample(map[string]any{"n_refs": len(rc.Refs), "queries_first3": strs(rc.Queries, 3), "assigned_taxids": seqTaxid, "taxonomy": d.spec})
	}
}

func sameIndex(a, b map[int]string) bool {
	if len(a) != len(b) {
		return false
	}
	for k, v := range a {
		if b[k] != v {
			return false
		}
	}
	return true
}

// violate records a violation. The supervisor keeps at most 2000 violations per run and only
// uses the first witness of every signature, so each child process reports a signature once
// (first witness); every occurrence is counted in the evidence counter "observed.<sub>:<cause>".
var (
	emittedMu sync.Mutex
	emitted   = map[string]bool{}
)

func violate(c *core.Ctx, cause, what string, detail any) {
	key := c.Sub + ":" + cause
	c.Count("observed."+key, 1)
	emittedMu.Lock()
	first := !emitted[key]
	emitted[key] = true
	emittedMu.Unlock()
	if first {
		c.Violate(cause, what, detail)
	}
}

var quietOnce sync.Once

func quiet() {
	quietOnce.Do(func() {
		log.SetOutput(io.Discard)
		log.SetLevel(log.ErrorLevel)
	})
}

var anchored = []string{
	"pkg/obitools/obitag/obitag.go", "pkg/obitools/obitag2/obitag.go", "pkg/obitools/obirefidx/obirefidx.go",
	"pkg/obitools/obirefidx/famlilyindexing.go", "pkg/obikmer/counting.go", "pkg/obikmer/encodefourmer.go",
	"pkg/obialign/fastlcsegf.go", "pkg/obialign/is_d0_or_d1.go", "pkg/obitax/lca.go",
}

func init() {
	core.Register(&core.Property{
		ID:    "C15",
		Level: "exploration",
		Rule: "reference sets of 5-300 sequences over a,c,g,t (families of related sequences, near-duplicates at 0-6 edits, exact duplicates, lengths within +-30 %, unrelated sequences, 0-3 constructed tie groups: a query, a longer reference at distance k (insertions / extra end letters) and references at distance k, k-1, k+1 through spread substitutions / deletions sharing few 4-mers; for obitag2 also sets of >1001 near-identical references; for the index, in one case out of two, a constellation of a copy of the indexed sequence and two much longer references on the same ancestor taxon plus a reference at 1-2 substitutions on the parent of that ancestor), random taxonomies of 1-40 nodes (4 shapes) assigned to the references at random or correlated with the sequence families; queries = references with 0-8 edits, unrelated sequences, tie-group queries. " +
			"Every answer of the real obitag.FindClosests / obitag2.FindClosests / obirefidx.IndexSequence / obitag.Identify (alone and from 8 goroutines) is compared with a brute force over ALL references using the harness's own full-matrix LCS DP and parent-array LCA. " +
			"Added later: sub-check assign through obitag.CLIAssignTaxonomy with references of unknown taxid at every position, low-complexity amplicons (a common repeat of 260-560 nt), the >1001-reference cases also for obitag. rearranged amplicons (a circular permutation of the query, which shares all its 4-mers and is examined first, next to in-order variants whose true distance lies just below), refidx-e2e: the obirefidx command on databases whose records already carry an index computed on an older, smaller reference set. " +
			"distinct_nontrivial = distinct (database size class, best distance, number of tied best references class, tied references shorter/longer than the query, query kind) of queries with a tie or a non-zero best distance (closest, closest2); (size class, number of index entries >= 2, depth of the taxon) (index); (ties, distance, distinct taxa among the best >= 2 or ties, depth of the assigned taxon) (identify)",
		Assume: []string{
			"sequences are over a,c,g,t, at least 8 letters (the 4-mer bound does not hold for ambiguity codes; Encode4mer needs >= 4 letters)",
			"distance = columns of the shortest alignment achieving the maximal LCS, minus the LCS (what obitag computes: alilength - lcs)",
			"the index clause is checked on recorded distances only, as the property states; distances where the LCA changes but that are not recorded are counted (index_unrecorded_lca_change), not judged",
			"every reference has a taxon of the taxonomy; the root has taxid 1",
		},
		Subs: []core.Sub{
			// order: the sub-checks with few expected reports first (the supervisor keeps the first 2000 violations)
			{Name: "index", N: core.Const(150, 3000), Run: runIndex},
			{Name: "identify", N: core.Const(100, 1800), Run: runIdentify, Race: true, NRace: core.Const(6, 24)},
			{Name: "closest2", N: core.Const(150, 3000), Run: runClosestWith(obitag2.FindClosests, true)},
			{Name: "closest", N: core.Const(300, 6000), Run: runClosestWith(obitag.FindClosests, false)},
			{Name: "assign", N: core.Const(60, 600), Run: runAssign},
			{Name: "refidx-e2e", N: core.Const(24, 240), Run: runRefidxE2E},
		},
		Cmds:          []string{"obirefidx"},
		MinNontrivial: 200,
		RaceFiles:     anchored,
		Post: func(tier string, counters map[string]int64) (inconclusive []string) {
			if os.Getenv("VERIF_ONLY") != "" {
				return nil
			}
			if counters["queries_with_ties"] < 100 {
				inconclusive = append(inconclusive, fmt.Sprintf("only %d queries had tied best references", counters["queries_with_ties"]))
			}
			if counters["lazy_indexes"] < 50 {
				inconclusive = append(inconclusive, fmt.Sprintf("only %d reference indexes were built lazily by Identify", counters["lazy_indexes"]))
			}
			if counters["index_entries_checked"] < 200 {
				inconclusive = append(inconclusive, fmt.Sprintf("only %d index entries were compared", counters["index_entries_checked"]))
			}
			return
		},
	})
}
