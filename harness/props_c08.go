package main

import _ "verifh/c08"
