// Package c17: truncated or corrupt compressed input is reported, never silently accepted.
//
// Fault enumeration over the bytes of compressed files: truncation at byte k,
// single bit flips, and read errors injected after k bytes; the oracle is the
// exit status of the command / of a helper process running the real reader.
package c17

import (
	"bytes"
	"errors"
	"fmt"
	"git.metabarcoding.org/obitools/obitools4/obitools4/pkg/obiverif"
	"io"
	"os"
	"path/filepath"
	"strconv"
	"strings"
	"time"

	"git.metabarcoding.org/obitools/obitools4/obitools4/pkg/obiformats"
	"git.metabarcoding.org/obitools/obitools4/obitools4/pkg/obiiter"
	log "github.com/sirupsen/logrus"

	"verifh/cmdx"
	"verifh/core"
	"verifh/gen"
)

// seqText renders n simple records as FASTA or FASTQ.
func seqText(c interface{ Intn(int) int }, n int, fastq bool) []byte {
	var sb strings.Builder
	for i := 0; i < n; i++ {
		l := 30 + c.Intn(90)
		seq := make([]byte, l)
		for j := range seq {
			seq[j] = "acgt"[c.Intn(4)]
		}
		if fastq {
			q := make([]byte, l)
			for j := range q {
				q[j] = byte(33 + 2 + c.Intn(38))
			}
			fmt.Fprintf(&sb, "@seq%d {\"count\":%d}\n%s\n+\n%s\n", i, 1+c.Intn(9), seq, q)
		} else {
			fmt.Fprintf(&sb, ">seq%d {\"count\":%d}\n%s\n", i, 1+c.Intn(9), seq)
		}
	}
	return []byte(sb.String())
}

type target struct {
	name  string // sub-check cause label
	bin   string
	args  []string
	stdin bool
	extra string // "two-files": an intact plain file is given before the faulty one
}

func targets(codec string) []target {
	t := []target{
		{"obiconvert:file", "obiconvert", nil, false, ""},
		{"obicount:file", "obicount", nil, false, ""},
		{"obigrep:file", "obigrep", []string{"-l", "1"}, false, ""},
		{"obiconvert:file-forced-format", "obiconvert", []string{"--FORMAT"}, false, ""},
		{"obiconvert:two-files", "obiconvert", nil, false, "two-files"},
		{"obiconvert:two-files-forced-format", "obiconvert", []string{"--FORMAT"}, false, "two-files"},
		{"obiconvert:two-compressed-files", "obiconvert", nil, false, "two-compressed-files"},
	}
	if codec == "gzip" {
		// the stdin path goes through zlib (kseq): plain and gzip only
		t = append(t, target{"obiconvert:stdin", "obiconvert", nil, true, ""})
	}
	return t
}

func runCmd(c *core.Ctx, t target, path string) cmdx.Res {
	args := append([]string{"--max-cpu", "2"}, t.args...)
	if t.bin != "obicount" { // obicount has no --no-progressbar option
		args = append([]string{"--no-progressbar"}, args...)
	}
	opt := cmdx.Opt{Timeout: 90 * time.Second}
	for i, a := range args {
		if a == "--FORMAT" {
			args[i] = "--fasta"
			switch {
			case strings.Contains(path, ".fastq"):
				args[i] = "--fastq"
			case strings.Contains(path, ".embl"):
				args[i] = "--embl"
			case strings.Contains(path, ".gb"):
				args[i] = "--genbank"
			}
		}
	}
	if t.stdin {
		opt.StdinFile = path
	} else {
		switch t.extra {
		case "two-files":
			args = append(args, okFileFor(path), path)
		case "two-compressed-files":
			// an intact file of the same codec is read first (decoder state must not leak from file to file)
			args = append(args, okFileFor(path)+gen.CodecExt(codecOfPath(path)), path)
		case "paired":
			// the damaged file is the mate file; the forward file (same records, intact) is given by name
			args = append(args, "--paired-with", path, "-o", path+".out.fastq", pairedFileFor(path))
		default:
			args = append(args, path)
		}
	}
	return cmdx.Run(filepath.Join(c.BinDir, t.bin), args, opt)
}

func codecOfPath(path string) string {
	for _, cd := range gen.Codecs {
		if strings.HasSuffix(path, gen.CodecExt(cd)) {
			return cd
		}
	}
	return "gzip"
}

// pairedFileFor: the intact, uncompressed forward file written next to a damaged mate file.
func pairedFileFor(path string) string { return path + ".fwd.fastq" }

// okFileFor returns the path of the intact, uncompressed companion of a faulty file (written by runTruncate).
func okFileFor(path string) string {
	ext := ".fasta"
	if strings.Contains(path, ".fastq") {
		ext = ".fastq"
	}
	return path + ".ok" + ext
}

// points returns the fault offsets to explore in [lo, n): all of them when n is small, else head, tail and a sample.
func points(c *core.Ctx, lo, n, exhaustiveUpTo, sample int) []int {
	var out []int
	if n-lo <= exhaustiveUpTo {
		for k := lo; k < n; k++ {
			out = append(out, k)
		}
		return out
	}
	seen := map[int]bool{}
	add := func(k int) {
		if k >= lo && k < n && !seen[k] {
			seen[k] = true
			out = append(out, k)
		}
	}
	for k := lo; k < lo+12; k++ {
		add(k)
	}
	for k := n - 12; k < n; k++ {
		add(k)
	}
	for len(out) < sample {
		add(lo + c.Rng.Intn(n-lo))
	}
	return out
}

func sizeParams(c *core.Ctx) (n int, class string) {
	switch c.Idx % 4 {
	case 0:
		return 1 + c.Rng.Intn(3), "tiny"
	case 1:
		return 10 + c.Rng.Intn(30), "small"
	case 2:
		return 100 + c.Rng.Intn(150), "medium"
	}
	if c.Quick() {
		return 300, "medium"
	}
	return 3000, "large"
}

func runTruncate(c *core.Ctx, codec string) {
	n, class := sizeParams(c)
	if c.Idx%6 >= 4 {
		runTruncateFlat(c, codec, []string{"embl", "genbank"}[c.Idx%2], min(n, 60), class)
		return
	}
	fastq := c.Idx%2 == 1
	text := seqText(c.Rng, n, fastq)
	// one file in four starts with a UTF-8 byte order mark (a file saved by a Windows editor and
	// compressed afterwards): the readers skip it, and a stream that breaks right behind it is as
	// broken as any other
	bom := c.Idx%4 == 3
	if bom {
		text = append([]byte("\xef\xbb\xbf"), text...)
		c.Count("files_with_byte_order_mark", 1)
	}
	enc := codec
	if codec == "xz" && c.Idx%2 == 1 {
		enc = "xz-multiblock"
	}
	comp, err := gen.Compress(enc, text)
	// one case in three: a file made of two or three members (streams, frames) compressed on their
	// own, cut anywhere in the text. A cut exactly between two members leaves a complete, shorter
	// file and is not a fault; every other cut is, the first bytes of a later member included.
	var memberStarts []int
	if c.Idx%3 == 2 && len(text) > 8 {
		var parts [][]byte
		prev := 0
		for i := 0; i < 1+c.Rng.Intn(2); i++ {
			at := prev + 1 + c.Rng.Intn(len(text)-prev-1)
			if at >= len(text) {
				break
			}
			parts = append(parts, text[prev:at])
			prev = at
		}
		parts = append(parts, text[prev:])
		comp, memberStarts, err = gen.CompressMembers(codec, parts)
		enc = codec + "-members"
		c.Count("multi_member_files", 1)
	}
	if err != nil {
		c.Inconclusive("cannot compress: " + err.Error())
		return
	}
	ext := ".fasta"
	if fastq {
		ext = ".fastq"
	}
	base := filepath.Join(c.Dir, fmt.Sprintf("t%d%s%s", c.Idx, ext, gen.CodecExt(codec)))
	defer os.Remove(base)
	tg := targets(codec)
	if fastq {
		// paired-end mode: the damaged file is the mate file of an intact forward file
		tg = append(tg, target{"obiconvert:paired-with", "obiconvert", nil, false, "paired"})
		os.WriteFile(pairedFileFor(base), text, 0o644)
		defer os.Remove(pairedFileFor(base))
		defer os.Remove(base + ".out_R1.fastq")
		defer os.Remove(base + ".out_R2.fastq")
		defer os.Remove(base + ".out.fastq")
	}
	okText := seqText(c.Rng, 5, fastq)
	os.WriteFile(okFileFor(base), okText, 0o644)
	defer os.Remove(okFileFor(base))
	if okComp, err := gen.Compress(codec, okText); err == nil {
		os.WriteFile(okFileFor(base)+gen.CodecExt(codec), okComp, 0o644)
		defer os.Remove(okFileFor(base) + gen.CodecExt(codec))
	}
	// sanity: the intact file must be accepted
	os.WriteFile(base, comp, 0o644)
	for _, t := range tg {
		intact := runCmd(c, t, base)
		if intact.Exit != 0 {
			c.Violate("intact-rejected:"+t.name, "the intact compressed file is rejected", map[string]any{"codec": codec, "records": n, "stderr": cmdx.Tail(intact.Stderr, 800)})
			return
		}
	}
	c.Sample(map[string]any{"codec": codec, "format": ext, "records": n, "compressed_bytes": len(comp), "faults": "truncation at byte k (k from 6 to len-1)"})
	pts := points(c, 6, len(comp), c.Pick(40, 4096), c.Pick(40, 200))
	// plus the cuts at which the decoding library itself reads the prefix to a clean EOF
	silent := gen.SilentPrefixCuts(enc, comp)
	c.Count("library_silent_prefixes", len(silent))
	have := map[int]bool{}
	for _, k := range pts {
		have[k] = true
	}
	for _, k := range silent {
		if !have[k] && len(pts) < c.Pick(120, 6000) {
			pts = append(pts, k)
			have[k] = true
		}
	}
	if bom {
		// the cuts after which the decoder delivers the byte order mark (or a part of it) and nothing
		// else before it fails
		added := 0
		for k := 6; k < len(comp) && k < 4096 && added < 24; k++ {
			if d := gen.DecodedBeforeError(codec, comp[:k]); d >= 1 && d <= 3 {
				if !have[k] {
					pts = append(pts, k)
					have[k] = true
				}
				added++
				c.Count("cuts_right_behind_the_byte_order_mark", 1)
			} else if d > 3 {
				break
			}
		}
	}
	isStart := map[int]bool{}
	for _, st := range memberStarts {
		isStart[st] = true
		for k := st - 9; k <= st+14; k++ { // the trailer of the previous member, the header of this one
			if k >= 6 && k < len(comp) && !have[k] {
				pts = append(pts, k)
				have[k] = true
			}
		}
	}
	for _, k := range pts {
		if isStart[k] {
			continue
		}
		os.WriteFile(base, comp[:k], 0o644)
		t := tg[(k+c.Idx)%len(tg)]
		if !c.Quick() && len(comp) <= 600 {
			// tiny files: every command on every cut
			for _, tt := range tg {
				checkTrunc(c, codec, class, tt, base, k, len(comp), n, isStart[k-1])
			}
			continue
		}
		if isStart[k-1] || isStart[k-2] { // the first bytes of a later member: every command
			for _, tt := range tg {
				checkTrunc(c, codec, class, tt, base, k, len(comp), n, isStart[k-1])
			}
			continue
		}
		checkTrunc(c, codec, class, t, base, k, len(comp), n)
	}
}

// runTruncateFlat: the same fault enumeration on compressed EMBL / GenBank flat files, read with the
// guessed format and with the format forced (--embl / --genbank: another opening code path).
func runTruncateFlat(c *core.Ctx, codec, format string, n int, class string) {
	text := flatText(c.Rng, format, n)
	comp, err := gen.Compress(codec, text)
	if err != nil {
		c.Inconclusive("cannot compress: " + err.Error())
		return
	}
	ext := map[string]string{"embl": ".embl", "genbank": ".gb"}[format]
	base := filepath.Join(c.Dir, fmt.Sprintf("f%d%s%s", c.Idx, ext, gen.CodecExt(codec)))
	defer os.Remove(base)
	tg := []target{
		{"obiconvert:flat-file", "obiconvert", nil, false, ""},
		{"obiconvert:flat-file-forced-format", "obiconvert", []string{"--FORMAT"}, false, ""},
		{"obicount:flat-file-forced-format", "obicount", []string{"--FORMAT"}, false, ""},
	}
	os.WriteFile(base, comp, 0o644)
	for _, t := range tg {
		if intact := runCmd(c, t, base); intact.Exit != 0 {
			c.Violate("intact-rejected:"+t.name, "the intact compressed file is rejected", map[string]any{"codec": codec, "format": format, "records": n, "stderr": cmdx.Tail(intact.Stderr, 800)})
			return
		}
	}
	c.Sample(map[string]any{"codec": codec, "format": format, "records": n, "compressed_bytes": len(comp), "faults": "truncation at byte k (k from 6 to len-1)"})
	for i, k := range points(c, 6, len(comp), c.Pick(40, 2048), c.Pick(40, 160)) {
		os.WriteFile(base, comp[:k], 0o644)
		if !c.Quick() && len(comp) <= 600 {
			for _, tt := range tg {
				checkTrunc(c, codec+":"+format, class, tt, base, k, len(comp), n)
			}
			continue
		}
		checkTrunc(c, codec+":"+format, class, tg[(i+c.Idx)%len(tg)], base, k, len(comp), n)
	}
}

func checkTrunc(c *core.Ctx, codec, class string, t target, path string, k, total, n int, afterStart ...bool) {
	res := runCmd(c, t, path)
	c.Count("evaluations", 1)
	c.Count("truncation_points", 1)
	if res.TimedOut {
		if res.Deadlock {
			c.Violate("deadlock:"+t.name, "the command dead-locks on a truncated input", map[string]any{"codec": codec, "cut_at": k, "of": total})
		} else {
			c.Inconclusive("watchdog on " + t.name)
		}
		return
	}
	where := "body"
	if k >= total-8 {
		where = "trailer"
	} else if k < 20 {
		where = "header"
	}
	c.Key("trunc/%s/%s/%s/%s", codec, t.name, class, where)
	if memoryFault(res) {
		c.Violate(fmt.Sprintf("memory-fault:%s:%s", codec, t.name), "the command dies of a memory fault (SIGSEGV) on a truncated input instead of reporting an error",
			map[string]any{"codec": codec, "command": t.bin, "args": t.args, "stdin": t.stdin, "cut_at": k, "of": total, "records_in_file": n, "where": where, "stderr": cmdx.Diag(res.Stderr, 2500)})
		return
	}
	if res.Exit == 0 {
		recs := bytes.Count(res.Stdout, []byte("\n>")) + bytes.Count(res.Stdout, []byte("\n@"))
		cause := fmt.Sprintf("exit0:%s:%s", codec, t.name)
		if len(afterStart) > 0 && afterStart[0] {
			// the file ends one byte into a later member: half a magic number
			cause += ":later-member-magic-incomplete"
			where = "later-member-magic"
		}
		c.Violate(cause, "the command exits 0 although its compressed input is cut short",
			map[string]any{"codec": codec, "command": t.bin, "args": t.args, "stdin": t.stdin, "cut_at": k, "of": total, "records_in_file": n, "approx_records_output": recs, "where": where, "stderr": cmdx.Tail(res.Stderr, 600)})
	}
}

// runTruncateBig: inputs larger than every internal read-ahead (the format sniffer reads the first
// MiB, the chunk reader works with 1 MiB buffers): faults located after the first and the second
// decompressed MiB.
func runTruncateBig(c *core.Ctx) {
	codec := gen.Codecs[c.Idx%len(gen.Codecs)]
	fastq := (c.Idx/len(gen.Codecs))%2 == 1
	n := 26000 + c.Rng.Intn(6000)
	if fastq {
		n = 15000 + c.Rng.Intn(3000)
	}
	text := seqText(c.Rng, n, fastq)
	if c.Idx >= 8 && c.Idx%16 >= 8 {
		// long reads: a dozen records of 70-300 kb each (the first record alone is larger than a
		// 64 KiB look-ahead)
		n = 8 + c.Rng.Intn(8)
		var sb strings.Builder
		for i := 0; i < n; i++ {
			l := 70000 + c.Rng.Intn(230000)
			seq := gen.DNA(c.Rng, l)
			if fastq {
				fmt.Fprintf(&sb, "@read%d {\"count\":1}\n%s\n+\n%s\n", i, seq, strings.Repeat("I", l))
			} else {
				fmt.Fprintf(&sb, ">read%d {\"count\":1}\n%s\n", i, seq)
			}
		}
		text = []byte(sb.String())
	}
	comp, err := gen.Compress(codec, text)
	if err != nil {
		c.Inconclusive("cannot compress: " + err.Error())
		return
	}
	// gzip and zstd: the compressor is flushed between records (what a streaming producer does), and
	// the file is also cut exactly there: the prefix decodes to whole records, then the stream breaks
	var flushCuts []int
	if codec == "gzip" || codec == "zstd" {
		var parts [][]byte
		start := byte('>')
		if fastq {
			start = '@'
		}
		last := 0
		for i := 1; i < len(text); i++ {
			if text[i] == start && text[i-1] == '\n' && (!fastq || i+1 < len(text) && text[i+1] != '\n') {
				if !fastq || bytes.Count(text[last:i], []byte("\n"))%4 == 0 {
					if len(parts) < 400 || i-last > 50000 {
						parts = append(parts, text[last:i])
						last = i
					}
				}
			}
		}
		parts = append(parts, text[last:])
		if fc, cuts, err := gen.CompressFlushed(codec, parts); err == nil {
			comp, flushCuts = fc, cuts
		}
	}
	ext := ".fasta"
	if fastq {
		ext = ".fastq"
	}
	base := filepath.Join(c.Dir, fmt.Sprintf("big%d%s%s", c.Idx, ext, gen.CodecExt(codec)))
	defer os.Remove(base)
	tg := targets(codec)[:4] // single-file targets
	if codec == "gzip" {
		tg = append(tg, target{"obiconvert:stdin", "obiconvert", nil, true, ""})
	}
	os.WriteFile(base, comp, 0o644)
	for _, t := range tg {
		if intact := runCmd(c, t, base); intact.Exit != 0 {
			c.Violate("intact-rejected:"+t.name, "the intact compressed file is rejected", map[string]any{"codec": codec, "records": n, "stderr": cmdx.Tail(intact.Stderr, 800)})
			return
		}
	}
	c.Sample(map[string]any{"codec": codec, "format": ext, "records": n, "decompressed_bytes": len(text), "compressed_bytes": len(comp), "faults": "truncation at sampled byte offsets over the whole file and in its last 12 bytes; single bit flips"})
	var cuts []int
	for i := 0; i < c.Pick(6, 24); i++ {
		cuts = append(cuts, 6+c.Rng.Intn(len(comp)-6))
	}
	for i := 0; i < c.Pick(3, 12); i++ {
		cuts = append(cuts, len(comp)-1-c.Rng.Intn(12))
	}
	for i := 0; i < c.Pick(6, 24) && len(flushCuts) > 0; i++ {
		cuts = append(cuts, flushCuts[c.Rng.Intn(len(flushCuts))])
		c.Count("cuts_at_flush_points", 1)
	}
	for i, k := range cuts {
		os.WriteFile(base, comp[:k], 0o644)
		checkTrunc(c, codec, "big", tg[(i+c.Idx)%len(tg)], base, k, len(comp), n)
	}
	// the earliest flush points (the first records) with the guessed-format and the forced-format readers
	for i := 0; i < min(3, len(flushCuts)); i++ {
		os.WriteFile(base, comp[:flushCuts[i]], 0o644)
		checkTrunc(c, codec, "big", tg[0], base, flushCuts[i], len(comp), n)
		checkTrunc(c, codec, "big", tg[1], base, flushCuts[i], len(comp), n)
	}
	for i := 0; i < c.Pick(4, 16); i++ {
		b := c.Rng.Intn(len(comp) * 8)
		mut := append([]byte{}, comp...)
		mut[b/8] ^= 1 << uint(b%8)
		libErr := gen.DecodeError(codec, mut)
		if libErr == nil {
			continue // not a corruption the decoder can see: nothing to demand without the intact output at hand
		}
		os.WriteFile(base, mut, 0o644)
		t := tg[(i+c.Idx)%len(tg)]
		res := runCmd(c, t, base)
		c.Count("evaluations", 1)
		c.Count("bit_flips", 1)
		if res.TimedOut {
			c.Inconclusive("watchdog on a bit-flipped input")
			continue
		}
		where := fmt.Sprintf("decile-%d", b*10/(len(comp)*8))
		c.Key("flip-big/%s/%s/%s", codec, t.name, where)
		if res.Exit == 0 {
			c.Violate(fmt.Sprintf("exit0-decoder-error:%s:big:%s", codec, t.name), "the command exits 0 although reading its input stream to the end returns an error other than end of file (corrupt compressed data)",
				map[string]any{"codec": codec, "command": t.name, "flipped_bit": b, "of_bits": len(comp) * 8, "decoder_error": libErr.Error(), "decompressed_bytes": len(text)})
		}
	}
}

// runTruncateCSV: sequence data in CSV (what obicsv writes: id, count, sequence columns), 2-4 MiB once
// decompressed, cut after the part of the file the format detector looks at.
func runTruncateCSV(c *core.Ctx) {
	codec := gen.Codecs[c.Idx%len(gen.Codecs)]
	var sb strings.Builder
	sb.WriteString("id,count,sequence\n")
	n := 25000 + c.Rng.Intn(15000)
	for i := 0; i < n; i++ {
		fmt.Fprintf(&sb, "seq%d,%d,%s\n", i, 1+c.Rng.Intn(9), gen.DNA(c.Rng, 40+c.Rng.Intn(80)))
	}
	text := []byte(sb.String())
	comp, err := gen.Compress(codec, text)
	if err != nil {
		c.Inconclusive("cannot compress: " + err.Error())
		return
	}
	base := filepath.Join(c.Dir, fmt.Sprintf("seqs%d.csv%s", c.Idx, gen.CodecExt(codec)))
	defer os.Remove(base)
	tg := []target{{"obiconvert:file", "obiconvert", nil, false, ""}, {"obicount:file", "obicount", nil, false, ""}}
	os.WriteFile(base, comp, 0o644)
	for _, t := range tg {
		if intact := runCmd(c, t, base); intact.Exit != 0 {
			c.Violate("intact-rejected:csv:"+t.name, "the intact compressed CSV file is rejected", map[string]any{"codec": codec, "records": n, "stderr": cmdx.Tail(intact.Stderr, 800)})
			return
		}
	}
	c.Sample(map[string]any{"codec": codec, "format": "csv", "records": n, "decompressed_bytes": len(text), "compressed_bytes": len(comp), "faults": "truncation between 35 % and the last byte of the compressed file"})
	for i := 0; i < c.Pick(5, 16); i++ {
		k := len(comp)*35/100 + c.Rng.Intn(len(comp)*65/100-1)
		if i == 0 {
			k = len(comp) - 1 - c.Rng.Intn(8)
		}
		os.WriteFile(base, comp[:k], 0o644)
		checkTrunc(c, codec, "csv", tg[i%len(tg)], base, k, len(comp), n)
	}
}

// runTruncateHuge: files larger than 32 MiB on disk (multi-stream files: a 3 MB member repeated),
// damaged in their last stream - what a reader that treats big files differently (another decoder,
// a helper process, memory mapping) must still report. xz, bzip2, zstd and gzip in turn.
func runTruncateHuge(c *core.Ctx) {
	codec := []string{"xz", "bzip2", "zstd", "gzip"}[c.Idx%4]
	text := seqText(c.Rng, 36000, false) // about 3 MB
	member, err := gen.Compress(codec, text)
	if err != nil || len(member) == 0 {
		c.Inconclusive("cannot compress")
		return
	}
	copies := (33<<20)/len(member) + 2
	comp := bytes.Repeat(member, copies)
	last := len(member) * (copies - 1)
	base := filepath.Join(c.Dir, fmt.Sprintf("huge%d.fasta%s", c.Idx, gen.CodecExt(codec)))
	defer os.Remove(base)
	run := func() cmdx.Res {
		return cmdx.Run(filepath.Join(c.BinDir, "obicount"), []string{"--max-cpu", "4", base}, cmdx.Opt{Timeout: 600 * time.Second})
	}
	os.WriteFile(base, comp, 0o644)
	c.Risk("obicount on a " + codec + " file of " + fmt.Sprint(len(comp)>>20) + " MiB")
	intact := run()
	if intact.TimedOut {
		c.Inconclusive("watchdog on the intact huge file")
		return
	}
	if intact.Exit != 0 {
		c.Violate("intact-rejected:huge:"+codec, "the intact multi-stream file is rejected", map[string]any{"codec": codec, "bytes": len(comp), "streams": copies, "stderr": cmdx.Tail(intact.Stderr, 800)})
		return
	}
	c.Sample(map[string]any{"codec": codec, "file_bytes": len(comp), "streams": copies, "records": 36000 * copies, "faults": "cut in the middle of / 5 bytes into the last stream (the file stays above 32 MiB)"})
	for _, f := range []struct {
		name string
		at   int
	}{{"mid-last-stream", last + len(member)/2}, {"5-bytes-into-last-stream", last + 5}} {
		os.WriteFile(base, comp[:f.at], 0o644)
		res := run()
		c.Count("evaluations", 1)
		c.Count("truncation_points", 1)
		c.Key("huge/%s/%s", codec, f.name)
		if res.TimedOut {
			c.Inconclusive("watchdog on a truncated huge file")
			continue
		}
		det := map[string]any{"codec": codec, "file_bytes": f.at, "of": len(comp), "streams": copies, "fault": f.name, "stdout": cmdx.Tail(res.Stdout, 300), "stderr": cmdx.Tail(res.Stderr, 600)}
		if memoryFault(res) {
			c.Violate("memory-fault:huge:"+codec, "the command dies of a memory fault on a truncated input", det)
		} else if res.Exit == 0 {
			c.Violate(fmt.Sprintf("exit0:%s:huge:%s", codec, f.name), "the command exits 0 although its compressed input (more than 32 MiB on disk) is cut short", det)
		}
	}
}

// runTruncateAsan: the stdin path decodes gzip inside C code (kseq + zlib): truncated and bit-flipped
// gzip streams through an AddressSanitizer build of obiconvert. Oracle: the exit status as
// elsewhere, and no sanitizer report.
func runTruncateAsan(c *core.Ctx) {
	bin := filepath.Join(c.BinDir, "asan", "obiconvert")
	if _, err := os.Stat(bin); err != nil {
		c.Inconclusive("the -asan build of obiconvert is missing")
		return
	}
	n, class := sizeParams(c)
	fastq := c.Idx%2 == 1
	text := seqText(c.Rng, n, fastq)
	comp, err := gen.Compress("gzip", text)
	if err != nil {
		c.Inconclusive("cannot compress: " + err.Error())
		return
	}
	base := filepath.Join(c.Dir, fmt.Sprintf("a%d.gz", c.Idx))
	defer os.Remove(base)
	run := func(data []byte) cmdx.Res {
		os.WriteFile(base, data, 0o644)
		return cmdx.Run(bin, []string{"--no-progressbar", "--max-cpu", "2"}, cmdx.Opt{StdinFile: base, Timeout: 300 * time.Second,
			Env: []string{"ASAN_OPTIONS=detect_leaks=0:abort_on_error=0:exitcode=97"}})
	}
	intact := run(comp)
	if intact.Exit != 0 {
		c.Violate("intact-rejected:asan-stdin", "the intact gzip stream is rejected on stdin (ASan build)", map[string]any{"records": n, "stderr": cmdx.Diag(intact.Stderr, 1500)})
		return
	}
	c.Sample(map[string]any{"codec": "gzip", "transport": "stdin (C reader), ASan build", "records": n, "compressed_bytes": len(comp)})
	check := func(kind string, at int, data []byte, mustFail bool) {
		res := run(data)
		c.Count("evaluations", 1)
		c.Count("asan_runs", 1)
		if res.TimedOut {
			c.Inconclusive("watchdog on the ASan build")
			return
		}
		det := map[string]any{"fault": kind, "at": at, "of": len(comp), "records": n, "exit": res.Exit, "stderr": cmdx.Diag(res.Stderr, 3000)}
		c.Key("asan/%s/%s/%d", kind, class, min(at*10/len(comp), 9))
		if strings.Contains(string(res.Stderr), "AddressSanitizer") {
			c.Violate("asan:gzip-stdin:"+kind, "AddressSanitizer reports a memory error while the C reader decodes a damaged gzip stream", det)
			return
		}
		if res.Exit == 0 && (mustFail || !bytes.Equal(res.Stdout, intact.Stdout)) {
			c.Violate("exit0:gzip:obiconvert:stdin-asan:"+kind, "the command exits 0 although its compressed input is damaged", det)
		}
	}
	for _, k := range points(c, 6, len(comp), c.Pick(30, 600), c.Pick(30, 150)) {
		check("truncation", k, comp[:k], true)
	}
	for i := 0; i < c.Pick(20, 150); i++ {
		b := c.Rng.Intn(len(comp) * 8)
		mut := append([]byte{}, comp...)
		mut[b/8] ^= 1 << uint(b%8)
		check("bitflip", b/8, mut, false)
	}
}

// memoryFault: the process was killed by a memory fault, in C (signal) or reported by the Go runtime.
func memoryFault(res cmdx.Res) bool {
	e := string(res.Stderr)
	return strings.Contains(e, "SIGSEGV") || strings.Contains(e, "unexpected signal during runtime execution") || strings.Contains(e, "SIGBUS")
}

func runBitflip(c *core.Ctx, codec string) {
	n := 1 + c.Rng.Intn(12)
	fastq := c.Idx%2 == 1
	text := seqText(c.Rng, n, fastq)
	comp, err := gen.Compress(codec, text)
	later := -1 // offset of the second member of a two-member file
	if c.Idx%3 == 2 && len(text) > 8 {
		at := 1 + c.Rng.Intn(len(text)-1)
		var starts []int
		comp, starts, err = gen.CompressMembers(codec, [][]byte{text[:at], text[at:]})
		if len(starts) == 1 {
			later = starts[0]
			c.Count("multi_member_files", 1)
		}
	}
	if err != nil {
		c.Inconclusive("cannot compress: " + err.Error())
		return
	}
	base := filepath.Join(c.Dir, fmt.Sprintf("b%d.dat%s", c.Idx, gen.CodecExt(codec)))
	defer os.Remove(base)
	// the guessed-format path (the sniffer reads the first MiB) and the forced-format path (the
	// chunk reader does the first read itself)
	tgs := []target{targets(codec)[0], {"obiconvert:file-forced-format", "obiconvert", []string{"--FORMAT"}, false, ""}}
	if codec == "gzip" {
		tgs = append(tgs, target{"obiconvert:stdin", "obiconvert", nil, true, ""}) // decoded by zlib inside the C reader
	}
	if fastq {
		base = filepath.Join(c.Dir, fmt.Sprintf("b%d.fastq%s", c.Idx, gen.CodecExt(codec)))
	}
	// the damaged file read after an intact file of the same codec
	if okComp, err := gen.Compress(codec, seqText(c.Rng, 5, fastq)); err == nil {
		tgs = append(tgs, target{"obiconvert:two-compressed-files", "obiconvert", nil, false, "two-compressed-files"})
		defer os.Remove(okFileFor(base) + gen.CodecExt(codec))
		os.WriteFile(okFileFor(base)+gen.CodecExt(codec), okComp, 0o644)
	}
	os.WriteFile(base, comp, 0o644)
	intact := make([]cmdx.Res, len(tgs))
	for i, t := range tgs {
		intact[i] = runCmd(c, t, base)
		if intact[i].Exit != 0 {
			c.Violate("intact-rejected:"+t.name, "the intact compressed file is rejected", map[string]any{"codec": codec})
			return
		}
	}
	c.Sample(map[string]any{"codec": codec, "records": n, "compressed_bytes": len(comp), "faults": "single bit flips"})
	nbits := len(comp) * 8
	var flips []int
	if nbits <= c.Pick(0, 8192) {
		for b := 0; b < nbits; b++ {
			flips = append(flips, b)
		}
	} else {
		// stratified: header, trailer (the index, footer, check sums live there) and body
		edge := min(32*8, nbits/3)
		for i := 0; i < c.Pick(12, 100); i++ {
			flips = append(flips, c.Rng.Intn(edge), nbits-1-c.Rng.Intn(edge))
		}
		for i := 0; i < c.Pick(30, 300); i++ {
			flips = append(flips, c.Rng.Intn(nbits))
		}
		if codec == "xz" && nbits > 13*8 {
			// the size byte of the first block header (byte 12 of an xz stream), every bit
			for b := 12 * 8; b < 13*8; b++ {
				flips = append(flips, b)
			}
		}
	}
	if later >= 0 { // the header of the second member: every bit of its first four bytes, some of the next
		for b := later * 8; b < (later+4)*8 && b < nbits; b++ {
			flips = append(flips, b)
		}
		for i := 0; i < 8; i++ {
			if b := (later+4)*8 + c.Rng.Intn(6*8); b < nbits {
				flips = append(flips, b)
			}
		}
	}
	for fi, b := range flips {
		mut := append([]byte{}, comp...)
		mut[b/8] ^= 1 << uint(b%8)
		os.WriteFile(base, mut, 0o644)
		// does the decoding library the toolkit uses report this corruption when the stream is read to its end?
		libErr := gen.DecodeError(codec, mut)
		region := "body"
		if b/8 < 12 {
			region = "header"
		} else if b/8 >= len(comp)-32 {
			region = "trailer"
		}
		if later >= 0 && b/8 >= later && b/8 < later+2 {
			region = "later-member-magic"
		} else if later >= 0 && b/8 >= later+2 && b/8 < later+10 {
			region = "later-member-header"
		}
		for ti, t := range tgs {
			structural := (codec == "xz" && b/8 == 12) || strings.HasPrefix(region, "later-member") // size byte of the first block header, header of a later member: every target, always
			if !structural && ti != fi%len(tgs) && (c.Quick() || region == "body") {                // every target on the header and trailer bits in the thorough tier
				continue
			}
			res := runCmd(c, t, base)
			c.Count("evaluations", 1)
			c.Count("bit_flips", 1)
			if res.TimedOut {
				c.Inconclusive("watchdog on a bit-flipped input")
				continue
			}
			c.Key("flip/%s/%s/%s/%v/%v", codec, t.name, region, res.Exit == 0, libErr != nil)
			det := map[string]any{"codec": codec, "command": t.name, "flipped_bit": b, "of_bits": nbits, "region": region, "stdout": cmdx.Tail(res.Stdout, 400), "intact_stdout": cmdx.Tail(intact[ti].Stdout, 400)}
			if memoryFault(res) {
				c.Violate(fmt.Sprintf("memory-fault:%s:%s", codec, t.name), "the command dies of a memory fault (SIGSEGV) on a corrupt input instead of reporting an error", det)
				continue
			}
			if res.Exit != 0 {
				continue
			}
			if libErr != nil {
				c.Count("flips_reported_by_the_decoder", 1)
				det["decoder_error"] = libErr.Error()
				c.Violate(fmt.Sprintf("exit0-decoder-error:%s:%s:%s", codec, region, t.name), "the command exits 0 although reading its input stream to the end returns an error other than end of file (corrupt compressed data)", det)
			} else if !bytes.Equal(res.Stdout, intact[ti].Stdout) {
				c.Violate(fmt.Sprintf("exit0-different:%s:%s", codec, region), "the command exits 0 with a different output although its compressed input is corrupt", det)
			}
		}
	}
}

// ---------------------------------------------------------------- injected read errors (helper process)

var errInjected = errors.New("injected read error (input/output error)")

// failingReader delivers data[:fail] and then a read error. The io.Reader contract leaves two
// freedoms, both exercised: the error may come together with the last bytes (withData) or on its
// own; and a reader may report its error once only and behave afterwards as an ended stream
// (oneShot; what the xz decoder does for a corrupt index or footer).
type failingReader struct {
	data     []byte
	pos      int
	fail     int
	withData bool
	oneShot  bool
	failed   bool
}

func (f *failingReader) Read(p []byte) (int, error) {
	if f.failed {
		if f.oneShot {
			return 0, io.EOF
		}
		return 0, errInjected
	}
	lim := min(f.fail, len(f.data))
	n := copy(p, f.data[f.pos:lim])
	f.pos += n
	if f.pos >= lim && (f.withData || n == 0) {
		f.failed = true
		os.Stderr.WriteString("VH-READ-ERROR-DELIVERED\n")
		return n, errInjected
	}
	return n, nil
}

var readErrModes = []string{"sticky", "sticky-with-data", "one-shot", "one-shot-with-data"}

func flatText(r interface{ Intn(int) int }, format string, n int) []byte {
	switch format {
	case "fasta":
		return seqText(r, n, false)
	case "fastq":
		return seqText(r, n, true)
	}
	var sb strings.Builder
	for i := 0; i < n; i++ {
		l := 60 + r.Intn(120)
		seq := make([]byte, l)
		for j := range seq {
			seq[j] = "acgt"[r.Intn(4)]
		}
		if format == "genbank" {
			fmt.Fprintf(&sb, "LOCUS       GB%05d %d bp    DNA     linear   UNA 01-JAN-2000\nDEFINITION  record %d.\nSOURCE      Homo sapiens\nFEATURES             Location/Qualifiers\n     source          1..%d\n                     /db_xref=\"taxon:9606\"\nORIGIN\n", i, l, i, l)
			for p := 0; p < l; p += 60 {
				fmt.Fprintf(&sb, "%9d", p+1)
				for q := p; q < min(l, p+60); q += 10 {
					fmt.Fprintf(&sb, " %s", seq[q:min(l, q+10)])
				}
				sb.WriteString("\n")
			}
			sb.WriteString("//\n")
		} else {
			fmt.Fprintf(&sb, "ID   EM%05d; SV 1; linear; genomic DNA; STD; UNC; %d BP.\nDE   record %d.\nOS   Homo sapiens\nFH   Key             Location/Qualifiers\nFT   source          1..%d\nFT                   /db_xref=\"taxon:9606\"\nSQ   Sequence %d BP;\n", i, l, i, l, l)
			for p := 0; p < l; p += 60 {
				line := "    "
				for q := p; q < min(l, p+60); q += 10 {
					line += " " + string(seq[q:min(l, q+10)])
				}
				fmt.Fprintf(&sb, "%-70s%10d\n", line, min(l, p+60))
			}
			sb.WriteString("//\n")
		}
	}
	return []byte(sb.String())
}

var formats = []string{"fasta", "fastq", "genbank", "embl"}

func readCase(seed int64, sub string, idx int) (format string, text []byte) {
	r := core.CaseRng(seed, sub, idx)
	format = formats[idx%4]
	return format, flatText(r, format, 1+r.Intn(40))
}

// readMain: `vh c17read <seed> <sub> <idx> <k>`: the real Read* function over a reader failing after k bytes.
func readMain(args []string) int {
	if len(args) < 4 {
		return 2
	}
	seed, _ := strconv.ParseInt(args[0], 10, 64)
	idx, _ := strconv.Atoi(args[2])
	k, _ := strconv.Atoi(args[3])
	log.SetLevel(log.FatalLevel)
	format, text := readCase(seed, args[1], idx)
	mode, chunk := 0, 0
	if len(args) >= 6 {
		mode, _ = strconv.Atoi(args[4])
		chunk, _ = strconv.Atoi(args[5])
	}
	// chunk 0: the production read buffer (the whole input arrives with the first read)
	obiverif.SetChunk(chunk)
	var r io.Reader = &failingReader{data: text, fail: k, withData: mode%2 == 1, oneShot: mode >= 2}
	if k < 0 {
		r = bytes.NewReader(text)
	}
	var it obiiter.IBioSequence
	var err error
	opts := []obiformats.WithOption{obiformats.OptionsParallelWorkers(2)}
	switch format {
	case "fasta":
		it, err = obiformats.ReadFasta(r, opts...)
	case "fastq":
		it, err = obiformats.ReadFastq(r, opts...)
	case "genbank":
		it, err = obiformats.ReadGenbank(r, opts...)
	case "embl":
		it, err = obiformats.ReadEMBL(r, opts...)
	}
	if err != nil {
		fmt.Fprintln(os.Stderr, "reader returned an error:", err)
		return 1
	}
	nrec := 0
	for it.Next() {
		nrec += it.Get().Len()
	}
	fmt.Printf("VH-RECORDS %d\n", nrec)
	return 0
}

func runReadErr(c *core.Ctx) {
	format, text := readCase(c.Seed, c.Sub, c.Idx)
	self, _ := os.Executable()
	mode := (c.Idx / 4) % 4
	chunk := []int{0, 64, 0, 1000}[(c.Idx/16+c.Idx/4)%4]
	run := func(k int) cmdx.Res {
		return cmdx.Run(self, []string{"c17read", fmt.Sprint(c.Seed), c.Sub, fmt.Sprint(c.Idx), fmt.Sprint(k), fmt.Sprint(mode), fmt.Sprint(chunk)}, cmdx.Opt{Timeout: 60 * time.Second})
	}
	ok := run(-1)
	if ok.Exit != 0 {
		c.Violate("intact-rejected:"+format, "the reader fails on an intact stream", map[string]any{"format": format, "stderr": cmdx.Tail(ok.Stderr, 600), "text": head(text)})
		return
	}
	c.Sample(map[string]any{"format": format, "bytes": len(text), "faults": "read error after k bytes, k in [0, len)", "error_mode": readErrModes[mode], "forced_read_buffer": chunk})
	for _, k := range points(c, 0, len(text), c.Pick(30, 1500), c.Pick(30, 300)) {
		res := run(k)
		c.Count("evaluations", 1)
		c.Count("read_error_points", 1)
		if res.TimedOut {
			if res.Deadlock {
				c.Violate("deadlock:"+format, "the reader dead-locks after a read error", map[string]any{"format": format, "k": k})
			} else {
				c.Inconclusive("watchdog on a read-error run")
			}
			continue
		}
		delivered := strings.Contains(string(res.Stderr), "VH-READ-ERROR-DELIVERED")
		if !delivered {
			continue
		}
		c.Key("readerr/%s/%s/%v/%d", format, readErrModes[mode], chunk == 0, min(k, 3)*1000/len(text))
		if res.Exit == 0 {
			c.Violate(fmt.Sprintf("exit0:%s:%s", format, readErrModes[mode]), "a read error (not EOF) on the input stream is not fatal", map[string]any{"format": format, "error_after_bytes": k, "of": len(text), "error_mode": readErrModes[mode], "forced_read_buffer": chunk, "stdout": cmdx.Tail(res.Stdout, 200)})
			return
		}
	}
}

func head(b []byte) string {
	if len(b) > 600 {
		return string(b[:600])
	}
	return string(b)
}

func init() {
	core.Extra["c17read"] = readMain
	var subs []core.Sub
	for _, cd := range gen.Codecs {
		codec := cd
		subs = append(subs, core.Sub{Name: "truncate-" + codec, N: core.Const(8, 24), Shard: 2, TimeoutS: 3000, Run: func(c *core.Ctx) { runTruncate(c, codec) }})
	}
	for _, cd := range gen.Codecs {
		codec := cd
		subs = append(subs, core.Sub{Name: "bitflip-" + codec, N: core.Const(4, 24), Shard: 2, TimeoutS: 3000, Run: func(c *core.Ctx) { runBitflip(c, codec) }})
	}
	subs = append(subs, core.Sub{Name: "gzip-stdin-asan", N: core.Const(4, 24), TimeoutS: 3000, Run: runTruncateAsan})
	subs = append(subs, core.Sub{Name: "truncate-big", N: core.Const(16, 48), TimeoutS: 3000, Run: runTruncateBig})
	subs = append(subs, core.Sub{Name: "truncate-csv", N: core.Const(4, 16), TimeoutS: 3000, Run: runTruncateCSV})
	subs = append(subs, core.Sub{Name: "truncate-huge", N: core.Const(2, 4), Shard: 1, TimeoutS: 3000, Run: runTruncateHuge})
	subs = append(subs, core.Sub{Name: "readerr", N: core.Const(32, 128), Run: runReadErr})
	core.Register(&core.Property{
		ID:    "C17",
		Level: "fault_enumeration",
		Rule: "fault points on compressed FASTA/FASTQ files (gzip, bzip2, xz, zstd; one member/frame each; 1..3000 records): truncation at byte k (every k from 6 for files up to 40 bytes in quick / 4 KiB in thorough, else the first and last 12 offsets plus 40/200 sampled ones), single bit flips (every bit up to 1 KiB in thorough, sampled otherwise), through obiconvert / obicount / obigrep with a file argument and, for gzip, obiconvert reading stdin; plus the four Read* functions over a reader returning a non-EOF error after k bytes (helper process). Oracle: exit status (truncation, read error => non-zero; bit flip => non-zero or output identical to the intact run). " +
			"Added later: decoder-error oracle for bit flips, forced-format and two-file targets (after a plain file and after an intact file of the same codec), damaged mate file, compressed EMBL/GenBank, read errors delivered alone / with data / once only, files of 2-3 MiB and long reads, gzip/zstd streams flushed between records and cut at the flush points, the xz block-header-size bits on every target, AddressSanitizer runs of the stdin (C) reader; a process killed by a memory fault is a violation. Files made of several members / streams / frames (cuts and bit flips in the header of a later member; a cut exactly between two members is not a fault), truncate-huge: multi-stream files of more than 32 MiB damaged in their last stream. truncate-csv: sequence data in CSV (2-4 MiB once decompressed) cut beyond what the format detector looks at. " +
			"distinct_nontrivial = distinct (fault kind, codec or format, command+transport, size class, region header/body/trailer) classes exercised",
		Assume:        []string{"each compressed file is a single member/frame, so every proper prefix of at least 6 bytes is an invalid stream", "stdin is only exercised with gzip (the stdin reader is zlib based)"},
		Subs:          subs,
		Cmds:          []string{"obiconvert", "obicount", "obigrep"},
		AsanCmds:      []string{"obiconvert"},
		MinNontrivial: 30,
	})
}
