// Package c20: fixed-precision 64/128/256-bit integers agree with exact arithmetic.
//
// Oracle: math/big. Operands are built from raw limbs (verif accessors) so
// that values in the upper limbs do not depend on the shifts under test.
package c20

import (
	"fmt"
	"io"
	"math/big"
	"math/rand"
	"strings"
	"time"

	"git.metabarcoding.org/obitools/obitools4/obitools4/pkg/obifp"
	log "github.com/sirupsen/logrus"

	"verifh/core"
)

// limbs are most significant first, len = 1, 2 or 4
func toBig(l []uint64) *big.Int {
	r := new(big.Int)
	for _, w := range l {
		r.Lsh(r, 64)
		r.Or(r, new(big.Int).SetUint64(w))
	}
	return r
}

func fromBig(b *big.Int, n int) []uint64 {
	l := make([]uint64, n)
	t := new(big.Int).Set(b)
	mask := new(big.Int).SetUint64(^uint64(0))
	for i := n - 1; i >= 0; i-- {
		l[i] = new(big.Int).And(t, mask).Uint64()
		t.Rsh(t, 64)
	}
	return l
}

func hex(l []uint64) string {
	s := "0x"
	for _, w := range l {
		s += fmt.Sprintf("%016x", w)
	}
	return s
}

var boundaryWords = []uint64{0, 1, 2, 3, 0x7fffffffffffffff, 0x8000000000000000, 0x8000000000000001,
	0xffffffffffffffff, 0xfffffffffffffffe, 0x00000000ffffffff, 0x0000000100000000, 0xffffffff00000000, 0x5555555555555555, 0xaaaaaaaaaaaaaaaa}

// operand draws an n-limb operand: boundary combinations, 2^k-1 / 2^k / 2^k+1, sparse and random.
func operand(r *rand.Rand, n int) []uint64 {
	l := make([]uint64, n)
	switch r.Intn(10) {
	case 0, 1, 2: // per-limb boundary words
		for i := range l {
			l[i] = boundaryWords[r.Intn(len(boundaryWords))]
		}
	case 3, 4: // 2^k + {-1,0,1}
		k := uint(r.Intn(64*n + 1))
		b := new(big.Int).Lsh(big.NewInt(1), k)
		b.Add(b, big.NewInt(int64(r.Intn(3)-1)))
		mod := new(big.Int).Lsh(big.NewInt(1), uint(64*n))
		b.Mod(b, mod)
		l = fromBig(b, n)
	case 5: // small
		l[n-1] = uint64(r.Intn(1000))
	case 6: // only low limbs used, random
		used := 1 + r.Intn(n)
		for i := n - used; i < n; i++ {
			l[i] = r.Uint64()
		}
	case 7: // random bit length
		bitsN := r.Intn(64*n + 1)
		b := new(big.Int)
		if bitsN > 0 {
			b.Rand(r, new(big.Int).Lsh(big.NewInt(1), uint(bitsN)))
		}
		l = fromBig(b, n)
	default:
		for i := range l {
			l[i] = r.Uint64()
		}
	}
	return l
}

type outcome struct {
	limbs    []uint64 // result limbs (nil when not a value)
	ints     []int64  // integer / boolean results
	panicked bool
	hung     bool
}

// guarded runs f, catching the (recoverable) overflow signal and a non-return.
func guarded(f func() outcome) (o outcome) {
	done := make(chan outcome, 1)
	go func() {
		defer func() {
			if r := recover(); r != nil {
				done <- outcome{panicked: true}
			}
		}()
		done <- f()
	}()
	select {
	case o = <-done:
		return o
	case <-time.After(30 * time.Second):
		return outcome{hung: true}
	}
}

type opCase struct {
	name string
	// run executes the real operation on operands a, b (limbs) and shift n
	run func(a, b []uint64, n uint) outcome
	// exp computes the exact result; fits=false means the exact result does not fit (overflow must be signalled);
	// skip=true: outside the property (e.g. division by zero)
	exp func(a, b *big.Int, n uint, width uint) (val *big.Int, ints []int64, fits bool, skip bool)
	// signals: the operation is one of those that must signal overflow (Add/Sub/Mul); for the others a
	// non-fitting exact value is reduced mod 2^width when wrap is true, or unconstrained when wrap is false.
	signals bool
	wrap    bool
	// narrow: result width in limbs when different from the operand width (casts)
	resLimbs int
}

func b2i(b bool) int64 {
	if b {
		return 1
	}
	return 0
}

func cmpExp(f func(c int) int64) func(a, b *big.Int, n uint, w uint) (*big.Int, []int64, bool, bool) {
	return func(a, b *big.Int, n uint, w uint) (*big.Int, []int64, bool, bool) {
		return nil, []int64{f(a.Cmp(b))}, true, false
	}
}

func arith(f func(a, b *big.Int) *big.Int) func(a, b *big.Int, n uint, w uint) (*big.Int, []int64, bool, bool) {
	return func(a, b *big.Int, n uint, w uint) (*big.Int, []int64, bool, bool) {
		v := f(a, b)
		fits := v.Sign() >= 0 && v.BitLen() <= int(w)
		return v, nil, fits, false
	}
}

var (
	bAdd = arith(func(a, b *big.Int) *big.Int { return new(big.Int).Add(a, b) })
	bSub = arith(func(a, b *big.Int) *big.Int { return new(big.Int).Sub(a, b) })
	bMul = arith(func(a, b *big.Int) *big.Int { return new(big.Int).Mul(a, b) })
	bAnd = arith(func(a, b *big.Int) *big.Int { return new(big.Int).And(a, b) })
	bOr  = arith(func(a, b *big.Int) *big.Int { return new(big.Int).Or(a, b) })
	bXor = arith(func(a, b *big.Int) *big.Int { return new(big.Int).Xor(a, b) })
)

func bNot(a, b *big.Int, n uint, w uint) (*big.Int, []int64, bool, bool) {
	all := new(big.Int).Sub(new(big.Int).Lsh(big.NewInt(1), w), big.NewInt(1))
	return new(big.Int).Xor(a, all), nil, true, false
}
func bShl(a, b *big.Int, n uint, w uint) (*big.Int, []int64, bool, bool) {
	if n >= w { // every bit is moved out of the word (also keeps math/big away from 2^63-bit numbers)
		return new(big.Int), nil, true, false
	}
	v := new(big.Int).Lsh(a, n)
	v.Mod(v, new(big.Int).Lsh(big.NewInt(1), w))
	return v, nil, true, false
}
func bShr(a, b *big.Int, n uint, w uint) (*big.Int, []int64, bool, bool) {
	if n >= w {
		return new(big.Int), nil, true, false
	}
	return new(big.Int).Rsh(a, n), nil, true, false
}

// bShl64 / bShr64: the documented single-limb primitives the wider shifts are chained from, for 0 <= n <= 64:
// LeftShift64 returns (u<<n | the n lowest bits of carryIn, the n bits moved out at the top);
// RightShift64 returns (u>>n | the n highest bits of carryIn, the n bits moved out, left aligned).
// Both results are packed as carry<<64 | value. n > 64 is not specified anywhere: outside the property.
func bShl64(a, b *big.Int, n uint, w uint) (*big.Int, []int64, bool, bool) {
	if n > 64 {
		return nil, nil, true, true
	}
	u, cin := a.Uint64(), b.Uint64()
	var v, co uint64
	switch {
	case n == 0:
		v, co = u, 0
	case n == 64:
		v, co = cin, u
	default:
		v, co = u<<n|cin&(uint64(1)<<n-1), u>>(64-n)
	}
	r := new(big.Int).SetUint64(co)
	return r.Lsh(r, 64).Add(r, new(big.Int).SetUint64(v)), nil, true, false
}
func bShr64(a, b *big.Int, n uint, w uint) (*big.Int, []int64, bool, bool) {
	if n > 64 {
		return nil, nil, true, true
	}
	u, cin := a.Uint64(), b.Uint64()
	var v, co uint64
	switch {
	case n == 0:
		v, co = u, 0
	case n == 64:
		v, co = cin, u
	default:
		v, co = u>>n|cin&^(uint64(1)<<(64-n)-1), u<<(64-n)
	}
	r := new(big.Int).SetUint64(co)
	return r.Lsh(r, 64).Add(r, new(big.Int).SetUint64(v)), nil, true, false
}
func bDiv(a, b *big.Int, n uint, w uint) (*big.Int, []int64, bool, bool) {
	if b.Sign() == 0 {
		return nil, nil, true, true
	}
	return new(big.Int).Div(a, b), nil, true, false
}
func bMod(a, b *big.Int, n uint, w uint) (*big.Int, []int64, bool, bool) {
	if b.Sign() == 0 {
		return nil, nil, true, true
	}
	return new(big.Int).Mod(a, b), nil, true, false
}
func bIdent(a, b *big.Int, n uint, w uint) (*big.Int, []int64, bool, bool) {
	return new(big.Int).Set(a), nil, true, false
}
func bIsZero(a, b *big.Int, n uint, w uint) (*big.Int, []int64, bool, bool) {
	return nil, []int64{b2i(a.Sign() == 0)}, true, false
}
func bLow64(a, b *big.Int, n uint, w uint) (*big.Int, []int64, bool, bool) {
	// AsUint64 is documented nowhere as checked: a value that fits must be preserved
	if a.BitLen() > 64 {
		return nil, nil, true, true
	}
	return nil, []int64{int64(a.Uint64())}, true, false
}

func narrowTo(bitsN int) func(a, b *big.Int, n uint, w uint) (*big.Int, []int64, bool, bool) {
	return func(a, b *big.Int, n uint, w uint) (*big.Int, []int64, bool, bool) {
		if a.BitLen() > bitsN {
			return nil, nil, true, true // does not fit the target: outside the property
		}
		return new(big.Int).Set(a), nil, true, false
	}
}

func m64(l []uint64) obifp.Uint64   { return obifp.VerifMake64(l[0]) }
func m128(l []uint64) obifp.Uint128 { return obifp.VerifMake128(l[0], l[1]) }
func m256(l []uint64) obifp.Uint256 { return obifp.VerifMake256(l[0], l[1], l[2], l[3]) }

func val(l []uint64) outcome   { return outcome{limbs: l} }
func ints(v ...int64) outcome  { return outcome{ints: v} }
func boolo(b bool) outcome     { return outcome{ints: []int64{b2i(b)}} }
func low(l []uint64) []uint64  { return l[len(l)-1:] }
func low2(l []uint64) []uint64 { return l[len(l)-2:] }

func ops64() []opCase {
	return []opCase{
		{name: "LeftShift", run: func(a, b []uint64, n uint) outcome { return val(m64(a).LeftShift(n).VerifLimbs()) }, exp: bShl},
		{name: "RightShift", run: func(a, b []uint64, n uint) outcome { return val(m64(a).RightShift(n).VerifLimbs()) }, exp: bShr},
		{name: "LeftShift64", resLimbs: 2, exp: bShl64, run: func(a, b []uint64, n uint) outcome {
			v, co := m64(a).LeftShift64(n, b[0])
			return val([]uint64{co, v})
		}},
		{name: "RightShift64", resLimbs: 2, exp: bShr64, run: func(a, b []uint64, n uint) outcome {
			v, co := m64(a).RightShift64(n, b[0])
			return val([]uint64{co, v})
		}},
		{name: "Add", signals: true, run: func(a, b []uint64, n uint) outcome { return val(m64(a).Add(m64(b)).VerifLimbs()) }, exp: bAdd},
		{name: "Sub", signals: true, run: func(a, b []uint64, n uint) outcome { return val(m64(a).Sub(m64(b)).VerifLimbs()) }, exp: bSub},
		{name: "Mul", signals: true, run: func(a, b []uint64, n uint) outcome { return val(m64(a).Mul(m64(b)).VerifLimbs()) }, exp: bMul},
		{name: "And", run: func(a, b []uint64, n uint) outcome { return val(m64(a).And(m64(b)).VerifLimbs()) }, exp: bAnd},
		{name: "Or", run: func(a, b []uint64, n uint) outcome { return val(m64(a).Or(m64(b)).VerifLimbs()) }, exp: bOr},
		{name: "Xor", run: func(a, b []uint64, n uint) outcome { return val(m64(a).Xor(m64(b)).VerifLimbs()) }, exp: bXor},
		{name: "Not", run: func(a, b []uint64, n uint) outcome { return val(m64(a).Not().VerifLimbs()) }, exp: bNot},
		{name: "Cmp", run: func(a, b []uint64, n uint) outcome { return ints(int64(m64(a).Cmp(m64(b)))) }, exp: cmpExp(func(c int) int64 { return int64(c) })},
		{name: "Equals", run: func(a, b []uint64, n uint) outcome { return boolo(m64(a).Equals(m64(b))) }, exp: cmpExp(func(c int) int64 { return b2i(c == 0) })},
		{name: "LessThan", run: func(a, b []uint64, n uint) outcome { return boolo(m64(a).LessThan(m64(b))) }, exp: cmpExp(func(c int) int64 { return b2i(c < 0) })},
		{name: "LessThanOrEqual", run: func(a, b []uint64, n uint) outcome { return boolo(m64(a).LessThanOrEqual(m64(b))) }, exp: cmpExp(func(c int) int64 { return b2i(c <= 0) })},
		{name: "GreaterThan", run: func(a, b []uint64, n uint) outcome { return boolo(m64(a).GreaterThan(m64(b))) }, exp: cmpExp(func(c int) int64 { return b2i(c > 0) })},
		{name: "GreaterThanOrEqual", run: func(a, b []uint64, n uint) outcome { return boolo(m64(a).GreaterThanOrEqual(m64(b))) }, exp: cmpExp(func(c int) int64 { return b2i(c >= 0) })},
		{name: "IsZero", run: func(a, b []uint64, n uint) outcome { return boolo(m64(a).IsZero()) }, exp: bIsZero},
		{name: "AsUint64", run: func(a, b []uint64, n uint) outcome { return ints(int64(m64(a).AsUint64())) }, exp: bLow64},
		{name: "Set64", run: func(a, b []uint64, n uint) outcome { return val(m64(b).Set64(a[0]).VerifLimbs()) }, exp: bIdent},
		{name: "From64", run: func(a, b []uint64, n uint) outcome { return val(obifp.From64[obifp.Uint64](a[0]).VerifLimbs()) }, exp: bIdent},
		{name: "ToUint64", run: func(a, b []uint64, n uint) outcome { return val(m64(a).Uint64().VerifLimbs()) }, exp: bIdent, resLimbs: 1},
		{name: "ToUint128", run: func(a, b []uint64, n uint) outcome { return val(m64(a).Uint128().VerifLimbs()) }, exp: bIdent, resLimbs: 2},
		{name: "ToUint256", run: func(a, b []uint64, n uint) outcome { return val(m64(a).Uint256().VerifLimbs()) }, exp: bIdent, resLimbs: 4},
	}
}

func ops128() []opCase {
	lo64 := func(b *big.Int) *big.Int { return new(big.Int).And(b, new(big.Int).SetUint64(^uint64(0))) }
	with64 := func(f func(a, b *big.Int, n uint, w uint) (*big.Int, []int64, bool, bool)) func(a, b *big.Int, n uint, w uint) (*big.Int, []int64, bool, bool) {
		return func(a, b *big.Int, n uint, w uint) (*big.Int, []int64, bool, bool) { return f(a, lo64(b), n, w) }
	}
	return []opCase{
		{name: "LeftShift", run: func(a, b []uint64, n uint) outcome { return val(m128(a).LeftShift(n).VerifLimbs()) }, exp: bShl},
		{name: "RightShift", run: func(a, b []uint64, n uint) outcome { return val(m128(a).RightShift(n).VerifLimbs()) }, exp: bShr},
		{name: "Add", signals: true, run: func(a, b []uint64, n uint) outcome { return val(m128(a).Add(m128(b)).VerifLimbs()) }, exp: bAdd},
		{name: "Add64", signals: true, run: func(a, b []uint64, n uint) outcome { return val(m128(a).Add64(b[1]).VerifLimbs()) }, exp: with64(bAdd)},
		{name: "Sub", signals: true, run: func(a, b []uint64, n uint) outcome { return val(m128(a).Sub(m128(b)).VerifLimbs()) }, exp: bSub},
		{name: "Mul", signals: true, run: func(a, b []uint64, n uint) outcome { return val(m128(a).Mul(m128(b)).VerifLimbs()) }, exp: bMul},
		{name: "Mul64", signals: true, run: func(a, b []uint64, n uint) outcome { return val(m128(a).Mul64(b[1]).VerifLimbs()) }, exp: with64(bMul)},
		{name: "Div", run: func(a, b []uint64, n uint) outcome { return val(m128(a).Div(m128(b)).VerifLimbs()) }, exp: bDiv},
		{name: "Mod", run: func(a, b []uint64, n uint) outcome { return val(m128(a).Mod(m128(b)).VerifLimbs()) }, exp: bMod},
		{name: "QuoRem", run: func(a, b []uint64, n uint) outcome {
			q, r := m128(a).QuoRem(m128(b))
			return val(append(q.VerifLimbs(), r.VerifLimbs()...))
		}, exp: func(a, b *big.Int, n uint, w uint) (*big.Int, []int64, bool, bool) {
			if b.Sign() == 0 {
				return nil, nil, true, true
			}
			q, r := new(big.Int).QuoRem(a, b, new(big.Int))
			return q.Add(q.Lsh(q, 128), r), nil, true, false
		}, resLimbs: 4},
		{name: "Div64", run: func(a, b []uint64, n uint) outcome { return val(m128(a).Div64(b[1]).VerifLimbs()) }, exp: with64(bDiv)},
		{name: "Mod64", run: func(a, b []uint64, n uint) outcome { return val([]uint64{0, m128(a).Mod64(b[1])}) }, exp: with64(bMod)},
		{name: "QuoRem64", run: func(a, b []uint64, n uint) outcome {
			q, r := m128(a).QuoRem64(b[1])
			return val(append(q.VerifLimbs(), 0, r))
		}, exp: func(a, b *big.Int, n uint, w uint) (*big.Int, []int64, bool, bool) {
			b = lo64(b)
			if b.Sign() == 0 {
				return nil, nil, true, true
			}
			q, r := new(big.Int).QuoRem(a, b, new(big.Int))
			return q.Add(q.Lsh(q, 128), r), nil, true, false
		}, resLimbs: 4},
		{name: "And", run: func(a, b []uint64, n uint) outcome { return val(m128(a).And(m128(b)).VerifLimbs()) }, exp: bAnd},
		{name: "Or", run: func(a, b []uint64, n uint) outcome { return val(m128(a).Or(m128(b)).VerifLimbs()) }, exp: bOr},
		{name: "Xor", run: func(a, b []uint64, n uint) outcome { return val(m128(a).Xor(m128(b)).VerifLimbs()) }, exp: bXor},
		{name: "Not", run: func(a, b []uint64, n uint) outcome { return val(m128(a).Not().VerifLimbs()) }, exp: bNot},
		{name: "Cmp", run: func(a, b []uint64, n uint) outcome { return ints(int64(m128(a).Cmp(m128(b)))) }, exp: cmpExp(func(c int) int64 { return int64(c) })},
		{name: "Cmp64", run: func(a, b []uint64, n uint) outcome { return ints(int64(m128(a).Cmp64(b[1]))) }, exp: func(a, b *big.Int, n uint, w uint) (*big.Int, []int64, bool, bool) {
			return nil, []int64{int64(a.Cmp(lo64(b)))}, true, false
		}},
		{name: "Equals", run: func(a, b []uint64, n uint) outcome { return boolo(m128(a).Equals(m128(b))) }, exp: cmpExp(func(c int) int64 { return b2i(c == 0) })},
		{name: "LessThan", run: func(a, b []uint64, n uint) outcome { return boolo(m128(a).LessThan(m128(b))) }, exp: cmpExp(func(c int) int64 { return b2i(c < 0) })},
		{name: "LessThanOrEqual", run: func(a, b []uint64, n uint) outcome { return boolo(m128(a).LessThanOrEqual(m128(b))) }, exp: cmpExp(func(c int) int64 { return b2i(c <= 0) })},
		{name: "GreaterThan", run: func(a, b []uint64, n uint) outcome { return boolo(m128(a).GreaterThan(m128(b))) }, exp: cmpExp(func(c int) int64 { return b2i(c > 0) })},
		{name: "GreaterThanOrEqual", run: func(a, b []uint64, n uint) outcome { return boolo(m128(a).GreaterThanOrEqual(m128(b))) }, exp: cmpExp(func(c int) int64 { return b2i(c >= 0) })},
		{name: "IsZero", run: func(a, b []uint64, n uint) outcome { return boolo(m128(a).IsZero()) }, exp: bIsZero},
		{name: "AsUint64", run: func(a, b []uint64, n uint) outcome { return ints(int64(m128(a).AsUint64())) }, exp: bLow64},
		{name: "Set64", run: func(a, b []uint64, n uint) outcome { return val(m128(b).Set64(a[1]).VerifLimbs()) }, exp: func(a, b *big.Int, n uint, w uint) (*big.Int, []int64, bool, bool) {
			return lo64(a), nil, true, false
		}},
		{name: "From64", run: func(a, b []uint64, n uint) outcome { return val(obifp.From64[obifp.Uint128](a[1]).VerifLimbs()) }, exp: func(a, b *big.Int, n uint, w uint) (*big.Int, []int64, bool, bool) {
			return lo64(a), nil, true, false
		}},
		{name: "One", run: func(a, b []uint64, n uint) outcome { return val(obifp.OneUint[obifp.Uint128]().VerifLimbs()) }, exp: func(a, b *big.Int, n uint, w uint) (*big.Int, []int64, bool, bool) {
			return big.NewInt(1), nil, true, false
		}},
		{name: "ToUint64", run: func(a, b []uint64, n uint) outcome { return val(m128(a).Uint64().VerifLimbs()) }, exp: narrowTo(64), resLimbs: 1},
		{name: "ToUint128", run: func(a, b []uint64, n uint) outcome { return val(m128(a).Uint128().VerifLimbs()) }, exp: bIdent, resLimbs: 2},
		{name: "ToUint256", run: func(a, b []uint64, n uint) outcome { return val(m128(a).Uint256().VerifLimbs()) }, exp: bIdent, resLimbs: 4},
	}
}

func ops256() []opCase {
	lo64 := func(b *big.Int) *big.Int { return new(big.Int).And(b, new(big.Int).SetUint64(^uint64(0))) }
	return []opCase{
		{name: "LeftShift", run: func(a, b []uint64, n uint) outcome { return val(m256(a).LeftShift(n).VerifLimbs()) }, exp: bShl},
		{name: "RightShift", run: func(a, b []uint64, n uint) outcome { return val(m256(a).RightShift(n).VerifLimbs()) }, exp: bShr},
		{name: "Add", signals: true, run: func(a, b []uint64, n uint) outcome { return val(m256(a).Add(m256(b)).VerifLimbs()) }, exp: bAdd},
		{name: "Sub", signals: true, run: func(a, b []uint64, n uint) outcome { return val(m256(a).Sub(m256(b)).VerifLimbs()) }, exp: bSub},
		{name: "Mul", signals: true, run: func(a, b []uint64, n uint) outcome { return val(m256(a).Mul(m256(b)).VerifLimbs()) }, exp: bMul},
		{name: "Div", run: func(a, b []uint64, n uint) outcome { return val(m256(a).Div(m256(b)).VerifLimbs()) }, exp: bDiv},
		{name: "And", run: func(a, b []uint64, n uint) outcome { return val(m256(a).And(m256(b)).VerifLimbs()) }, exp: bAnd},
		{name: "Or", run: func(a, b []uint64, n uint) outcome { return val(m256(a).Or(m256(b)).VerifLimbs()) }, exp: bOr},
		{name: "Xor", run: func(a, b []uint64, n uint) outcome { return val(m256(a).Xor(m256(b)).VerifLimbs()) }, exp: bXor},
		{name: "Not", run: func(a, b []uint64, n uint) outcome { return val(m256(a).Not().VerifLimbs()) }, exp: bNot},
		{name: "Cmp", run: func(a, b []uint64, n uint) outcome { return ints(int64(m256(a).Cmp(m256(b)))) }, exp: cmpExp(func(c int) int64 { return int64(c) })},
		{name: "Equals", run: func(a, b []uint64, n uint) outcome { return boolo(m256(a).Equals(m256(b))) }, exp: cmpExp(func(c int) int64 { return b2i(c == 0) })},
		{name: "LessThan", run: func(a, b []uint64, n uint) outcome { return boolo(m256(a).LessThan(m256(b))) }, exp: cmpExp(func(c int) int64 { return b2i(c < 0) })},
		{name: "LessThanOrEqual", run: func(a, b []uint64, n uint) outcome { return boolo(m256(a).LessThanOrEqual(m256(b))) }, exp: cmpExp(func(c int) int64 { return b2i(c <= 0) })},
		{name: "GreaterThan", run: func(a, b []uint64, n uint) outcome { return boolo(m256(a).GreaterThan(m256(b))) }, exp: cmpExp(func(c int) int64 { return b2i(c > 0) })},
		{name: "GreaterThanOrEqual", run: func(a, b []uint64, n uint) outcome { return boolo(m256(a).GreaterThanOrEqual(m256(b))) }, exp: cmpExp(func(c int) int64 { return b2i(c >= 0) })},
		{name: "IsZero", run: func(a, b []uint64, n uint) outcome { return boolo(m256(a).IsZero()) }, exp: bIsZero},
		{name: "AsUint64", run: func(a, b []uint64, n uint) outcome { return ints(int64(m256(a).AsUint64())) }, exp: bLow64},
		{name: "Set64", run: func(a, b []uint64, n uint) outcome { return val(m256(b).Set64(a[3]).VerifLimbs()) }, exp: func(a, b *big.Int, n uint, w uint) (*big.Int, []int64, bool, bool) {
			return lo64(a), nil, true, false
		}},
		{name: "From64", run: func(a, b []uint64, n uint) outcome { return val(obifp.From64[obifp.Uint256](a[3]).VerifLimbs()) }, exp: func(a, b *big.Int, n uint, w uint) (*big.Int, []int64, bool, bool) {
			return lo64(a), nil, true, false
		}},
		{name: "ToUint64", run: func(a, b []uint64, n uint) outcome { return val(m256(a).Uint64().VerifLimbs()) }, exp: narrowTo(64), resLimbs: 1},
		{name: "ToUint128", run: func(a, b []uint64, n uint) outcome { return val(m256(a).Uint128().VerifLimbs()) }, exp: narrowTo(128), resLimbs: 2},
		{name: "ToUint256", run: func(a, b []uint64, n uint) outcome { return val(m256(a).Uint256().VerifLimbs()) }, exp: bIdent, resLimbs: 4},
	}
}

func shiftRange(n uint) string {
	switch {
	case n == 0:
		return "0"
	case n < 64:
		return "1-63"
	case n == 64:
		return "64"
	case n < 128:
		return "65-127"
	case n == 128:
		return "128"
	case n < 192:
		return "129-191"
	case n == 192:
		return "192"
	case n < 256:
		return "193-255"
	default:
		return "ge256"
	}
}

// evalOne applies op to (a, b, n) and compares with the exact result. evaluated=false: outside the property.
func evalOne(c *core.Ctx, op opCase, limbs int, a, b []uint64, n uint) (detail map[string]any, evaluated bool, stop bool) {
	width := uint(64 * limbs)
	ba, bb := toBig(a), toBig(b)
	ev, eints, fits, skip := op.exp(ba, bb, n, width)
	if skip {
		return nil, false, false
	}
	c.Risk(fmt.Sprintf("%s a=%s b=%s n=%d", op.name, hex(a), hex(b), n))
	got := guarded(func() outcome { return op.run(a, b, n) })
	detail = map[string]any{"type": fmt.Sprintf("Uint%d", width), "op": op.name, "a": hex(a), "b": hex(b), "n": n}
	cls := op.name
	if strings.HasSuffix(op.name, "Shift") || strings.HasSuffix(op.name, "Shift64") {
		cls += ":shift:" + shiftRange(n)
	}
	classA := "fit"
	if ev != nil && !fits {
		classA = "nofit"
	}
	c.Key("%d/%s/%s/%d/%d/%s", limbs, op.name, classA, ba.BitLen()/64, bb.BitLen()/64, shiftRange(n))
	if got.hung {
		c.Violate(cls+":no-return", fmt.Sprintf("Uint%d.%s did not return within 30 s", width, op.name), detail)
		return detail, true, true
	}
	if op.signals {
		if !fits && !got.panicked {
			detail["got"] = hex(got.limbs)
			detail["exact"] = ev.String()
			kind := "partial-products"
			if ba.BitLen() > int(width)/2 && bb.BitLen() > int(width)/2 {
				// the recorded defect of Uint128.Mul: the product of the two high limbs is never
				// examined. It is the ONLY overflowing contribution exactly when the product without
				// that term fits; when the cross terms overflow as well the overflow must be seen.
				half := width / 2
				hiA, hiB := new(big.Int).Rsh(ba, half), new(big.Int).Rsh(bb, half)
				top := new(big.Int).Lsh(new(big.Int).Mul(hiA, hiB), width)
				rest := new(big.Int).Sub(new(big.Int).Mul(ba, bb), top)
				if op.name != "Mul" || rest.BitLen() <= int(width) {
					kind = "both-operands-wider-than-half"
				} else {
					kind = "partial-products:both-operands-wider-than-half"
				}
			}
			c.Violate(cls+":overflow-missed:"+kind, fmt.Sprintf("Uint%d.%s: exact result does not fit but no overflow was signalled", width, op.name), detail)
			return detail, true, false
		}
		if fits && got.panicked {
			detail["exact"] = ev.String()
			c.Violate(cls+":overflow-spurious", fmt.Sprintf("Uint%d.%s: overflow signalled although the exact result fits", width, op.name), detail)
			return detail, true, false
		}
		if !fits {
			return detail, true, false
		}
	} else if got.panicked {
		c.Violate(cls+":panic", fmt.Sprintf("Uint%d.%s panicked", width, op.name), detail)
		return detail, true, false
	}
	if ev != nil {
		rl := limbs
		if op.resLimbs != 0 {
			rl = op.resLimbs
		}
		want := fromBig(ev, rl)
		if hex(want) != hex(got.limbs) {
			detail["got"] = hex(got.limbs)
			detail["want"] = hex(want)
			c.Violate(cls+":value", fmt.Sprintf("Uint%d.%s returns a wrong value", width, op.name), detail)
		}
	} else {
		if fmt.Sprint(eints) != fmt.Sprint(got.ints) {
			detail["got"] = got.ints
			detail["want"] = eints
			c.Violate(cls+":value", fmt.Sprintf("Uint%d.%s returns a wrong value", width, op.name), detail)
		}
	}
	return detail, true, false
}

func runType(c *core.Ctx, limbs int, ops []opCase) {
	log.SetOutput(io.Discard)
	width := uint(64 * limbs)
	per := c.Pick(300, 6000)
	op := ops[c.Idx%len(ops)]
	evals := 0
	for i := 0; i < per; i++ {
		a := operand(c.Rng, limbs)
		b := operand(c.Rng, limbs)
		if c.Rng.Intn(8) == 0 {
			b = append([]uint64{}, a...) // equal operands
		}
		if limbs > 1 && c.Rng.Intn(4) == 0 {
			// two dense factors whose limb counts add up to the width at most: the product fits,
			// every partial product and every carry chain of the multiplication is exercised
			la := 1 + c.Rng.Intn(limbs-1)
			lb := 1 + c.Rng.Intn(limbs-la)
			a, b = make([]uint64, limbs), make([]uint64, limbs)
			for i := limbs - la; i < limbs; i++ {
				a[i] = c.Rng.Uint64()
			}
			for i := limbs - lb; i < limbs; i++ {
				b[i] = c.Rng.Uint64()
			}
			if c.Rng.Intn(3) == 0 { // many carries: limbs close to all-ones
				for i := limbs - la; i < limbs; i++ {
					a[i] |= ^uint64(0) << uint(c.Rng.Intn(32))
				}
			}
		}
		if c.Rng.Intn(6) == 0 { // neighbours: b = a ± 1 (wrapping)
			bb := toBig(a)
			bb.Add(bb, big.NewInt(int64(2*c.Rng.Intn(2)-1)))
			bb.Mod(bb, new(big.Int).Lsh(big.NewInt(1), width))
			b = fromBig(bb, limbs)
		}
		var n uint
		switch c.Rng.Intn(4) {
		case 0:
			n = uint(64 * c.Rng.Intn(limbs+2))
		case 1:
			n = uint(64*c.Rng.Intn(limbs+1)) + uint(c.Rng.Intn(3)) - 1
			if n > 1<<31 {
				n = 0
			}
		default:
			n = uint(c.Rng.Intn(int(width) + 65))
		}
		if c.Rng.Intn(12) == 0 { // "any amount": far beyond the width, where a signed conversion would go negative
			n = hugeShifts[c.Rng.Intn(len(hugeShifts))] + uint(c.Rng.Intn(3)) - 1
		}
		detail, evaluated, stop := evalOne(c, op, limbs, a, b, n)
		if !evaluated {
			continue
		}
		evals++
		if stop {
			return
		}
		if i == 0 {
			c.Sample(detail)
		}
	}
	c.Count("evaluations", evals)
	c.Count("evaluations."+op.name, evals)
}

var hugeShifts = []uint{1 << 31, 1 << 32, 1 << 62, 1 << 63, 1<<63 + 64, 1<<63 + 256, ^uint(0) - 1, ^uint(0) - 64, ^uint(0) - 255}

// crossWords: the limb values the boundary cross product is built from.
var crossWords = []uint64{0, 1, 2, 3, 0x00000000ffffffff, 0x0000000100000000, 0x0000000100000001, 0x7fffffffffffffff, 0x8000000000000000, 0xfffffffffffffffe, 0xffffffffffffffff}

// boundarySet: every value with one or two adjacent non-zero limbs taken from crossWords, each also
// shifted by -2..2, plus the 8 largest values: the places where carries, borrows, trial quotients and
// overflow tests change their behaviour.
func boundarySet(limbs int, words []uint64, maxDelta int64) [][]uint64 {
	mod := new(big.Int).Lsh(big.NewInt(1), uint(64*limbs))
	seen := map[string]bool{}
	var out [][]uint64
	add := func(b *big.Int) {
		b = new(big.Int).Mod(b, mod)
		k := b.Text(16)
		if !seen[k] {
			seen[k] = true
			out = append(out, fromBig(b, limbs))
		}
	}
	for j := 0; j < limbs; j++ {
		for _, hi := range words {
			for _, lo := range words {
				if j == 0 && hi != 0 {
					continue
				}
				v := new(big.Int).SetUint64(hi)
				v.Lsh(v, 64)
				v.Add(v, new(big.Int).SetUint64(lo))
				if j > 0 {
					v.Lsh(v, uint(64*(j-1)))
				}
				for d := -maxDelta; d <= maxDelta; d++ {
					add(new(big.Int).Add(v, big.NewInt(d)))
				}
			}
		}
	}
	for d := int64(1); d <= 8; d++ {
		add(new(big.Int).Sub(mod, big.NewInt(d)))
	}
	return out
}

var crossShards = 16

// runCross: every operation on every pair of the boundary set (case i takes the left operands i, i+16, ...).
func runCross(c *core.Ctx, limbs int, ops []opCase) {
	log.SetOutput(io.Discard)
	words := crossWords
	if c.Quick() {
		words = []uint64{0, 1, 3, 0x00000000ffffffff, 0x0000000100000001, 0x7fffffffffffffff, 0xffffffffffffffff}
	}
	set := boundarySet(limbs, words, int64(c.Pick(1, 2)))
	shifts := []uint{0, 1, 63, 64, 65, 127, 128, 129, 191, 192, 255, 256, 257, 300, 1 << 63, ^uint(0), 31, 32, 33}
	evals := 0
	for ia := c.Idx; ia < len(set); ia += crossShards {
		a := set[ia]
		for ib, b := range set {
			n := shifts[(ia+ib)%len(shifts)]
			for _, op := range ops {
				detail, evaluated, stop := evalOne(c, op, limbs, a, b, n)
				if !evaluated {
					continue
				}
				evals++
				if stop {
					return
				}
				if ia == c.Idx && ib == 7 && op.name == ops[0].name {
					c.Sample(detail)
				}
			}
		}
	}
	c.Count("evaluations", evals)
	c.Count("cross_product_pairs", evals/len(ops))
	c.Count("boundary_set_size", len(set))
}

func init() {
	o64, o128, o256 := ops64(), ops128(), ops256()
	core.Register(&core.Property{
		ID:    "C20",
		Level: "exploration",
		Rule: "each case = one (type, operation) applied to a batch of operand pairs drawn from per-limb boundary words, 2^k-1/2^k/2^k+1, equal and neighbouring operands, random bit lengths and random values, shift amounts 0..width+64 with emphasis on multiples of 64 +-1; the -cross sub-checks apply every operation to EVERY ordered pair of a boundary set (values with one or two adjacent non-zero limbs out of 7 (quick) / 11 (thorough) boundary words, each -1..+1 (quick) / -2..+2 (thorough), and the 8 largest values); " +
			"Added later: shift amounts far beyond the width (2^31, 2^32, 2^62, 2^63, 2^64-1 and neighbours), the single-limb primitives Uint64.LeftShift64/RightShift64 for n = 0..64 with arbitrary carry-in words (documented result u<<n | low n bits of the carry). One operand pair in four is made of two dense factors whose limb counts add up to the width at most (the product fits; limbs close to all-ones for long carry chains). " +
			"oracle math/big on raw limbs; distinct_nontrivial = distinct (type, operation, fits/overflows, limb count of a, limb count of b, shift range) classes actually evaluated; division by zero and narrowing of values that do not fit are outside the property and skipped",
		Assume: []string{"math/big is exact", "the overflow signal is the recoverable log.Panicf of the library", "an operation on at most 256 bits that does not return within 30 s never returns"},
		Subs: []core.Sub{
			{Name: "u64", N: core.Const(len(o64)*4, len(o64)*128), Run: func(c *core.Ctx) { runType(c, 1, o64) }},
			{Name: "u128", N: core.Const(len(o128)*4, len(o128)*128), Run: func(c *core.Ctx) { runType(c, 2, o128) }},
			{Name: "u256", N: core.Const(len(o256)*4, len(o256)*128), Run: func(c *core.Ctx) { runType(c, 4, o256) }},
			{Name: "u64-cross", N: core.Const(crossShards, crossShards), Run: func(c *core.Ctx) { runCross(c, 1, o64) }},
			{Name: "u128-cross", N: core.Const(crossShards, crossShards), Run: func(c *core.Ctx) { runCross(c, 2, o128) }},
			{Name: "u256-cross", N: core.Const(crossShards, crossShards), Run: func(c *core.Ctx) { runCross(c, 4, o256) }},
		},
		MinNontrivial: 100,
	})
}
