package main

import _ "verifh/c19"
