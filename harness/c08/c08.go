// Package c08: paired-end alignment — valid path, optimal score, correct consensus.
//
// The real obialign.PEAlign / PELeftAlign / PERightAlign / BuildQualityConsensus
// and obipairing.AssemblePESequences are executed on generated read pairs; an
// oracle written from the documented scheme (harness/ref/c08_pe.go) decides
// each observation. Sub-checks (one clause of the property each):
//
//	tables         exported score tables against the documented probabilistic model
//	path           the path consumes both reads exactly (all modes, grid of small lengths); no panic
//	score          fast mode: reported score == score recomputed along the path (also in exact arithmetic)
//	score-exact    exact mode: the same clause (kept apart: a defect every pair exhibits)
//	optimum        exact mode: score of the path == optimum of an independent DP, direction of the larger
//	               optimum; PELeftAlign / PERightAlign report their optimum; 128-bit reference detects overflow
//	optimum-small  the same on every ordered pair of short strings
//	consensus      one base and one quality per path column, higher quality wins
//	stats          mode / ali_length / seq_a_single / seq_b_single / join layout / thresholds
//	reassembly     error-free overlapping reads give back the fragment
//	arena          a reused arena gives the results of a fresh one
package c08

import (
	"bytes"
	"fmt"
	"io"
	"math"
	"sync"

	"git.metabarcoding.org/obitools/obitools4/obitools4/pkg/obialign"
	"git.metabarcoding.org/obitools/obitools4/obitools4/pkg/obiseq"
	"git.metabarcoding.org/obitools/obitools4/obitools4/pkg/obitools/obipairing"
	log "github.com/sirupsen/logrus"

	"verifh/core"
	"verifh/gen"
	"verifh/ref"
)

var (
	tablesOnce sync.Once
	tables     *ref.PETables
)

// loadTables copies the (read-only) exported score tables of obialign.
func loadTables() *ref.PETables {
	tablesOnce.Do(func() {
		log.SetOutput(io.Discard)
		t := &ref.PETables{}
		for a := 0; a < 100; a++ {
			for b := 0; b < 100; b++ {
				t.Match[a][b] = obialign.VerifNucScoreMatch(a, b)
				t.Mismatch[a][b] = obialign.VerifNucScoreMismatch(a, b)
			}
		}
		tables = t
	})
	return tables
}

func mkseq(id string, s, q []byte) *obiseq.BioSequence {
	return obiseq.NewBioSequenceWithQualities(id, s, "", q)
}

// outcome is what one call of PEAlign returned.
type outcome struct {
	IsLeft    bool
	Score     int
	Path      []int // private copy
	FastCount int
	Over      int
	FastScore float64
	Panic     string
	raw       []int // the returned slice itself (aliases the arena)
}

// session holds the scratch memory reused from pair to pair (like one worker of obipairing).
type session struct {
	arena  obialign.PEAlignArena
	shifts map[int]int
}

func newSession(la, lb int) *session {
	return &session{arena: obialign.MakePEAlignArena(la, lb), shifts: map[int]int{}}
}

func (s *session) reset() {
	s.arena = obialign.MakePEAlignArena(150, 150)
	s.shifts = map[int]int{}
}

func (s *session) align(sa, sb *obiseq.BioSequence, p gen.PEParams) (o outcome) {
	defer func() {
		if r := recover(); r != nil {
			o = outcome{Panic: fmt.Sprint(r)}
			s.reset()
		}
	}()
	isLeft, score, path, fc, over, fs := obialign.PEAlign(sa, sb, p.Gap, p.Scale, p.Fast, p.Delta, p.FastRel, s.arena, &s.shifts)
	return outcome{IsLeft: isLeft, Score: score, Path: append([]int(nil), path...), FastCount: fc, Over: over, FastScore: fs, raw: path}
}

// branch names the code path PEAlign documents for this result.
func branch(p gen.PEParams, o outcome) string {
	if !p.Fast {
		return "exact"
	}
	dir := "right"
	if o.IsLeft {
		dir = "left"
	}
	if o.FastCount+3 < o.Over {
		return "fast-dp-" + dir
	}
	return "fast-identical-" + dir
}

func lenClass(n int) string {
	switch {
	case n <= 3:
		return fmt.Sprint(n)
	case n < 8:
		return "4-7"
	case n < 32:
		return "8-31"
	case n < 150:
		return "32-149"
	}
	return "150-300"
}

// shortClass describes reads too short to hold a 4-mer.
func shortClass(la, lb int) string {
	switch {
	case la == 3 || lb == 3:
		return "len3"
	case lb < 4:
		return "b-shorter-than-4mer"
	case la < 4:
		return "a-shorter-than-4mer"
	}
	return "len4plus"
}

func speed(p gen.PEParams) string {
	if p.Fast {
		return "fast"
	}
	return "exact"
}

func modeName(p gen.PEParams) string {
	if !p.Fast {
		return "exact"
	}
	if p.FastRel {
		return "fast-rel"
	}
	return "fast-abs"
}

func witness(pr gen.PEPair, p gen.PEParams, o outcome) map[string]any {
	return map[string]any{
		"a": string(pr.A), "qa": qstr(pr.QA), "b": string(pr.B), "qb": qstr(pr.QB),
		"geometry": pr.Geometry, "errors": pr.Errors, "ambiguity_symbols": pr.Ambig,
		"params": fmt.Sprintf("%+v", p),
		"isLeft": o.IsLeft, "score": o.Score, "path": fmt.Sprint(o.Path), "fastcount": o.FastCount, "over": o.Over, "fastscore": o.FastScore, "panic": o.Panic,
	}
}

// qstr renders qualities as a list of numbers (they are not printable).
func qstr(q []byte) string {
	var b bytes.Buffer
	for i, x := range q {
		if i > 0 {
			b.WriteByte(',')
		}
		fmt.Fprint(&b, int(x))
	}
	return b.String()
}

// once reports a cause at most once per child process (a child runs a range of
// cases, each a stream of pairs): a defect that every pair exhibits must not
// fill the bounded violation list of the supervisor and push out other causes.
// The verdict (the set of signatures) is unchanged; the number of occurrences
// that were not listed is kept in a counter.
type once struct{}

var (
	reportedMu sync.Mutex
	reported   = map[string]bool{}
)

func (once) violate(c *core.Ctx, cause, what string, detail any) {
	reportedMu.Lock()
	dup := reported[c.Sub+"|"+cause]
	reported[c.Sub+"|"+cause] = true
	reportedMu.Unlock()
	if dup && !c.Replay {
		c.Count("violations_of_an_already_listed_cause", 1)
		return
	}
	c.Violate(cause, what, detail)
}

func nontrivialKey(c *core.Ctx, pr gen.PEPair, p gen.PEParams, o outcome, extra string) {
	if len(pr.A) < 4 || len(pr.B) < 4 {
		return
	}
	paired := 0
	for k := 1; k < len(o.Path); k += 2 {
		paired += o.Path[k]
	}
	if paired == 0 {
		return
	}
	c.Key("%s/%s/%s/%s/%s/e%v/i%v/%s/%s", pr.Geometry, branch(p, o), modeName(p), lenClass(len(pr.A)), lenClass(len(pr.B)),
		pr.Errors > 0, pr.Ambig > 0, pr.QProfile, extra)
}

// ---------------------------------------------------------------------------
// tables

func runTables(c *core.Ctx) {
	t := loadTables()
	evals := 0
	for a := 0; a <= 93; a++ {
		for b := 0; b <= 93; b++ {
			mm, mi := ref.PEFormulaScores(a, b)
			evals += 2
			if !ref.PERoundAccepts(t.Match[a][b], mm) {
				once{}.violate(c, fmt.Sprintf("match-table:%s", qPairClass(a, b)), "match score of the table differs from the documented model",
					map[string]any{"qa": a, "qb": b, "table": t.Match[a][b], "model_x10": mm})
			}
			if !ref.PERoundAccepts(t.Mismatch[a][b], mi) {
				once{}.violate(c, fmt.Sprintf("mismatch-table:%s", qPairClass(a, b)), "mismatch score of the table differs from the documented model",
					map[string]any{"qa": a, "qb": b, "table": t.Mismatch[a][b], "model_x10": mi})
			}
			c.Key("q/%d/%d", a, b)
		}
	}
	// IUPAC match ratio and the per-column helper, all symbol pairs
	syms := []byte("acgtryswkmbdhvn")
	quals := [][2]byte{{40, 40}, {1, 1}, {93, 2}, {0, 17}, {30, 12}, {5, 60}}
	for _, x := range syms {
		for _, y := range syms {
			for _, up := range []bool{false, true} {
				xx, yy := x, y
				if up {
					xx -= 32
				}
				want := ref.PEPartMatch(xx, yy)
				got := obialign.VerifNucPartMatch(xx, yy)
				evals++
				if got != want {
					once{}.violate(c, "partmatch", "IUPAC match ratio of the table differs from |Sa∩Sb|/|Sa|/|Sb|",
						map[string]any{"a": string(xx), "b": string(yy), "table": got, "expected": want})
				}
				for _, q := range quals {
					for _, sc := range []float64{0.5, 1, 1.5, 2} {
						evals++
						g, w := obialign.VerifPairingScore(xx, q[0], yy, q[1], sc), t.Column(xx, q[0], yy, q[1], sc)
						if g != w {
							once{}.violate(c, "column-score", "per-column score differs from the documented mixture of match and scaled mismatch scores",
								map[string]any{"a": string(xx), "b": string(yy), "qa": q[0], "qb": q[1], "scale": sc, "got": g, "expected": w})
						}
					}
				}
			}
			c.Key("sym/%c/%c", x, y)
		}
	}
	c.Sample(map[string]any{"tables": "match/mismatch scores for all quality pairs 0..93 x 0..93; match ratio and column score for all 15x15 IUPAC symbol pairs (both cases) x 6 quality pairs x 4 scales",
		"match[40][40]": t.Match[40][40], "mismatch[40][40]": t.Mismatch[40][40]})
	c.Count("evaluations", evals)
}

func qPairClass(a, b int) string {
	switch {
	case a == 0 && b == 0:
		return "q0-q0"
	case a == 0 || b == 0:
		return "one-q0"
	}
	return "q-positive"
}

// ---------------------------------------------------------------------------
// shared workload: a stream of pairs aligned with one reused session

type pairRun struct {
	pr     gen.PEPair
	p      gen.PEParams
	sa, sb *obiseq.BioSequence
	o      outcome
	class  string // "" = well-formed path
}

// stream runs n pairs through one session and hands each result to f.
func stream(c *core.Ctx, n int, pick func(k int) (gen.PEPair, gen.PEParams), f func(k int, r *pairRun, s *session)) {
	loadTables()
	// the arena is deliberately small or large: it must grow or be re-sliced as needed
	dims := [][2]int{{150, 150}, {1, 1}, {300, 300}, {10, 40}}[c.Rng.Intn(4)]
	s := newSession(dims[0], dims[1])
	for k := 0; k < n; k++ {
		pr, p := pick(k)
		r := &pairRun{pr: pr, p: p, sa: mkseq("a", pr.A, pr.QA), sb: mkseq("b", pr.B, pr.QB)}
		c.Risk(fmt.Sprintf("PEAlign:%s:%s", modeName(p), shortClass(len(pr.A), len(pr.B))))
		r.o = s.align(r.sa, r.sb, p)
		if r.o.Panic == "" {
			r.class, _, _, _ = ref.PEPathCheck(r.o.Path, len(pr.A), len(pr.B))
		}
		f(k, r, s)
	}
}

func randomPick(c *core.Ctx, maxLen int) func(int) (gen.PEPair, gen.PEParams) {
	return func(int) (gen.PEPair, gen.PEParams) {
		return gen.PEPairCase(c.Rng, gen.PEOptions{MaxLen: maxLen}), gen.PEParamsCase(c.Rng)
	}
}

const pairsPerCase = 24

// ---------------------------------------------------------------------------
// path

// gridCases: the first cases of `path` enumerate every pair of small lengths in both modes.
const gridMax = 9

func runPath(c *core.Ctx) {
	pick := randomPick(c, 300)
	n := pairsPerCase
	if c.Idx < gridMax*gridMax {
		// exhaustive small-length grid: (la, lb) in 1..9 x 1..9, several contents and settings each
		la, lb := 1+c.Idx/gridMax, 1+c.Idx%gridMax
		pick = func(k int) (gen.PEPair, gen.PEParams) {
			t := gen.PETemplate(c.Rng, la+lb, []string{"random", "two-letter"}[k%2])
			a0, b0 := c.Rng.Intn(lb+1), c.Rng.Intn(la+1)
			if k%3 == 0 {
				a0, b0 = 0, 0
			}
			pr := gen.PEPair{Geometry: "small-grid", Template: t, A0: a0, A1: a0 + la, B0: b0, B1: b0 + lb, QProfile: "uniform1-41"}
			pr.A = append([]byte{}, t[a0:a0+la]...)
			pr.B = append([]byte{}, t[b0:b0+lb]...)
			pr.QA, pr.QB = gen.PEQual(c.Rng, la, pr.QProfile), gen.PEQual(c.Rng, lb, pr.QProfile)
			p := gen.PEParamsCase(c.Rng)
			p.Fast = k%2 == 0
			return pr, p
		}
	}
	evals := 0
	stream(c, n, pick, func(k int, r *pairRun, s *session) {
		evals++
		la, lb := len(r.pr.A), len(r.pr.B)
		sc := shortClass(la, lb)
		// fast mode, B without any 4-mer: the "identical overlap" branch is taken without evidence
		noKmerInB := r.p.Fast && lb < 4
		switch {
		case r.o.Panic != "":
			cause := fmt.Sprintf("panic:%s:%s", speed(r.p), sc)
			if noKmerInB && sc != "len3" {
				cause = "fast-identical:b-shorter-than-4mer:panic-or-overrun"
			}
			once{}.violate(c, cause, fmt.Sprintf("PEAlign panicked on reads of length %d and %d: %s", la, lb, r.o.Panic), witness(r.pr, r.p, r.o))
		case r.class != "":
			w := witness(r.pr, r.p, r.o)
			cause := fmt.Sprintf("%s:%s:%s", branch(r.p, r.o), r.class, sc)
			if end := explainFastMerge(r); end != "" {
				cause = "fast-dp:end-run-merged-with-extension-of-other-read"
				w["conflicting_end"] = end
			}
			if noKmerInB && r.o.FastCount == 0 && r.o.FastCount+3 >= r.o.Over {
				cause = "fast-identical:b-shorter-than-4mer:panic-or-overrun"
			}
			_, ca, cb, _ := ref.PEPathCheck(r.o.Path, la, lb)
			w["consumed_a"], w["consumed_b"], w["len_a"], w["len_b"] = ca, cb, la, lb
			once{}.violate(c, cause, "the path does not consume both reads exactly", w)
		default:
			nontrivialKey(c, r.pr, r.p, r.o, "")
		}
		if k == 0 {
			c.Sample(witness(r.pr, r.p, r.o))
		}
	})
	c.Count("evaluations", evals)
}

// explainFastMerge tells whether an ill-formed path of the fast DP branch is
// what the documented construction yields when the aligned window's path
// begins (ends) with an unpaired run of one read and the unaligned end that is
// glued to it belongs to the other read: the window (predicted overlap +-
// delta) is recomputed from the returned overlap, the glueing is undone and
// the remaining path must be a well-formed alignment of the window.
// It returns "" (not explained) or the end(s) concerned.
func explainFastMerge(r *pairRun) string {
	if !r.p.Fast || r.o.FastCount+3 >= r.o.Over || len(r.o.Path) < 2 {
		return ""
	}
	la, lb := len(r.pr.A), len(r.pr.B)
	var extra5, extra3, wa, wb int
	if r.o.IsLeft {
		shift := la - r.o.Over
		startA := max(0, shift-r.p.Delta)
		wa = la - startA
		wb = min(wa, lb)
		extra5, extra3 = -startA, lb-wb
	} else {
		shift := r.o.Over - lb
		startB := max(0, -shift-r.p.Delta)
		wb = lb - startB
		wa = min(wb, la)
		extra5, extra3 = startB, wa-la
	}
	n := len(r.o.Path)
	var cands [][]int
	// the extension of the 3' end was added to the last run ...
	if r.o.Path[n-1] == 0 {
		c1 := append([]int(nil), r.o.Path...)
		c1[n-2] -= extra3
		cands = append(cands, c1)
		// ... or appended as a run of its own
		if r.o.Path[n-2] == extra3 && n >= 4 {
			cands = append(cands, append([]int(nil), r.o.Path[:n-2]...))
		}
	}
	for _, cand := range cands {
		cand[0] -= extra5
		if cl, _, _, _ := ref.PEPathCheck(cand, wa, wb); cl == "" {
			lead := cand[0]*extra5 < 0
			trail := cand[len(cand)-1] == 0 && cand[len(cand)-2]*extra3 < 0
			switch {
			case lead && trail:
				return "both"
			case lead:
				return "5'"
			case trail:
				return "3'"
			}
		}
	}
	return ""
}

// ---------------------------------------------------------------------------
// score

func overlapHasAmbig(r *pairRun) bool {
	for _, col := range ref.PEColumns(r.o.Path) {
		if col.IA >= 0 && col.IB >= 0 {
			if len(ref.IupacSets[ref.Lower(r.pr.A[col.IA])]) != 1 || len(ref.IupacSets[ref.Lower(r.pr.B[col.IB])]) != 1 {
				return true
			}
		}
	}
	return false
}

func runScoreFast(c *core.Ctx)  { runScore(c, true) }
func runScoreExact(c *core.Ctx) { runScore(c, false) }

func runScore(c *core.Ctx, fast bool) {
	t := loadTables()
	evals, skipped := 0, 0
	pick := func(int) (gen.PEPair, gen.PEParams) {
		pr, p := gen.PEPairCase(c.Rng, gen.PEOptions{MaxLen: 300}), gen.PEParamsCase(c.Rng)
		p.Fast = fast
		return pr, p
	}
	stream(c, pairsPerCase, pick, func(k int, r *pairRun, s *session) {
		if r.o.Panic != "" || r.class != "" {
			skipped++ // decided by sub-check path
			return
		}
		evals++
		want, charged := t.PEPathScore(r.pr.A, r.pr.QA, r.pr.B, r.pr.QB, r.o.Path, r.p.Gap, r.p.Scale, r.o.IsLeft)
		wide := t.PEPathScoreWide(r.pr.A, r.pr.QA, r.pr.B, r.pr.QB, r.o.Path, r.p.Gap, r.p.Scale, r.o.IsLeft)
		if r.o.Score != want || !wide.Is(want) {
			br := branch(r.p, r.o)
			var cause string
			switch {
			case r.o.Score == want:
				// 64-bit arithmetic wrapped: the reported number is not the sum of the column scores
				cause = "int-overflow:" + overflowFeature(r.pr)
				if br == "exact" {
					return // exact mode reports no score (decided below on other pairs); overflow in exact mode is decided by sub-check optimum
				}
			case br == "exact" && r.o.Score == 0:
				cause = "exact-score"
			case br == "exact":
				cause = "exact-score-differs"
			case len(r.pr.B) < 4 && r.o.FastCount == 0 && r.o.FastCount+3 >= r.o.Over:
				// B holds no 4-mer and the "identical overlap" branch was taken without evidence
				cause = "fast-identical:b-shorter-than-4mer"
			case shortClass(len(r.pr.A), len(r.pr.B)) != "len4plus":
				cause = br[:len(br)-len(dirOf(br))-1] + ":" + shortClass(len(r.pr.A), len(r.pr.B))
			case overlapHasAmbig(r):
				cause = br[:len(br)-len(dirOf(br))-1] + ":iupac-in-overlap"
			default:
				cause = br + ":plain"
			}
			w := witness(r.pr, r.p, r.o)
			w["recomputed_score"], w["charged_gaps"], w["recomputed_score_exact_arithmetic"] = want, charged, wide.String()
			once{}.violate(c, cause, "the reported score differs from the score recomputed along the returned path", w)
		}
		nontrivialKey(c, r.pr, r.p, r.o, fmt.Sprint(charged > 0))
		if k == 0 {
			w := witness(r.pr, r.p, r.o)
			w["recomputed_score"] = want
			c.Sample(w)
		}
	})
	c.Count("evaluations", evals)
	c.Count("skipped_invalid_path", skipped)
}

// overflowFeature names the input feature able to overflow 64-bit scores.
func overflowFeature(pr gen.PEPair) string {
	if bytes.IndexByte(pr.QA, 0) >= 0 && bytes.IndexByte(pr.QB, 0) >= 0 {
		return "q0-q0-mismatch"
	}
	return "other"
}

func dirOf(br string) string {
	if len(br) >= 4 && br[len(br)-4:] == "left" {
		return "left"
	}
	return "right"
}

// ---------------------------------------------------------------------------
// optimum (exact mode)

func runOptimum(c *core.Ctx) {
	pick := func(int) (gen.PEPair, gen.PEParams) {
		pr := gen.PEPairCase(c.Rng, gen.PEOptions{MaxLen: 300})
		p := gen.PEParamsCase(c.Rng)
		p.Fast = false
		return pr, p
	}
	optimumStream(c, pairsPerCase/2, pick)
}

const smallShards = 48

// runOptimumSmall enumerates every ordered pair of short strings (exact mode).
func runOptimumSmall(c *core.Ctx) {
	alphabet, maxLen := "acg", 4
	if !c.Quick() {
		alphabet, maxLen = "acgt", 4
	}
	var words [][]byte
	var rec func(w []byte)
	rec = func(w []byte) {
		if len(w) > 0 {
			words = append(words, append([]byte{}, w...))
		}
		if len(w) == maxLen {
			return
		}
		for i := 0; i < len(alphabet); i++ {
			rec(append(w, alphabet[i]))
		}
	}
	rec(nil)
	per := (len(words) + smallShards - 1) / smallShards
	lo, hi := c.Idx*per, min(len(words), (c.Idx+1)*per)
	if lo >= hi {
		c.Count("evaluations", 0)
		return
	}
	levels := []byte{2, 20, 40}
	n := (hi - lo) * len(words)
	pick := func(k int) (gen.PEPair, gen.PEParams) {
		a, b := words[lo+k/len(words)], words[k%len(words)]
		pr := gen.PEPair{A: a, B: b, Geometry: "enumerated", QProfile: "3-levels"}
		pr.QA, pr.QB = make([]byte, len(a)), make([]byte, len(b))
		for i := range pr.QA {
			pr.QA[i] = levels[c.Rng.Intn(3)]
		}
		for i := range pr.QB {
			pr.QB[i] = levels[c.Rng.Intn(3)]
		}
		p := gen.PEParamsCase(c.Rng)
		p.Fast = false
		return pr, p
	}
	optimumStream(c, n, pick)
	if c.Idx == 0 {
		c.Sample(map[string]any{"enumeration": fmt.Sprintf("all ordered pairs of non-empty strings over %q of length <= %d, qualities drawn from {2,20,40}, random gap and scale", alphabet, maxLen)})
	}
}

func optimumStream(c *core.Ctx, n int, pick func(int) (gen.PEPair, gen.PEParams)) {
	t := loadTables()
	evals, overflows := 0, 0
	small := c.Sub == "optimum-small"
	stream(c, n, pick, func(k int, r *pairRun, s *session) {
		pr, p := r.pr, r.p
		L := t.PEOptimum(pr.A, pr.QA, pr.B, pr.QB, p.Gap, p.Scale, true)
		R := t.PEOptimum(pr.A, pr.QA, pr.B, pr.QB, p.Gap, p.Scale, false)
		// the same optimum in exact (128-bit) arithmetic: when it differs, 64-bit scores overflowed on this pair
		LW := t.PEOptimumWide(pr.A, pr.QA, pr.B, pr.QB, p.Gap, p.Scale, true)
		RW := t.PEOptimumWide(pr.A, pr.QA, pr.B, pr.QB, p.Gap, p.Scale, false)
		overflow := !LW.Is(L) || !RW.Is(R)
		if overflow {
			overflows++
		}
		best := max(L, R)
		feature := pr.Geometry
		if r.o.Panic == "" && r.class == "" {
			evals++
			got, _ := t.PEPathScore(pr.A, pr.QA, pr.B, pr.QB, r.o.Path, p.Gap, p.Scale, r.o.IsLeft)
			gotW := t.PEPathScoreWide(pr.A, pr.QA, pr.B, pr.QB, r.o.Path, p.Gap, p.Scale, r.o.IsLeft)
			w := witness(pr, p, r.o)
			w["path_score"], w["ref_left"], w["ref_right"] = got, L, R
			bestW := LW
			if LW.Less(RW) {
				bestW = RW
			}
			switch {
			case overflow || !gotW.Is(got):
				w["path_score_exact_arithmetic"], w["ref_left_exact_arithmetic"], w["ref_right_exact_arithmetic"] = gotW.String(), LW.String(), RW.String()
				if gotW != bestW || (r.o.IsLeft && LW.Less(RW)) || (!r.o.IsLeft && RW.Less(LW)) {
					once{}.violate(c, "int-overflow:"+overflowFeature(pr), "64-bit score arithmetic overflows on this pair: the returned path is not optimal / not in the better direction in exact arithmetic", w)
				}
			case (r.o.IsLeft && L < R) || (!r.o.IsLeft && L > R):
				// when both optima are equal the documentation leaves the direction open
				once{}.violate(c, "direction", "the returned direction is not the one of the larger optimum", w)
			case got != best:
				d := "right"
				if r.o.IsLeft {
					d = "left"
				}
				once{}.violate(c, "suboptimal-path:"+d, "the score of the returned path is not the optimum of the independent dynamic program", w)
			}
			// the reported score is compared with the path score by sub-check score
			if small {
				if len(r.o.Path) > 2 || r.o.Path[0] != 0 {
					c.Key("small/%s/%d/%v", pr.A, len(pr.B), r.o.IsLeft)
				}
			} else {
				nontrivialKey(c, pr, p, r.o, fmt.Sprintf("g%v/s%v/L>R=%v", p.Gap, p.Scale, L > R))
				if k == 0 {
					c.Sample(w)
				}
			}
		}
		// the two exported one-sided aligners return their DP score
		for _, left := range []bool{true, false} {
			arena := s.arena
			if c.Rng.Intn(3) == 0 {
				arena = obialign.NilPEAlignArena
			}
			sc, path, pan := oneSided(r.sa, r.sb, p, left, arena)
			name, want := "PERightAlign", R
			if left {
				name, want = "PELeftAlign", L
			}
			evals++
			w := map[string]any{"function": name, "a": string(pr.A), "qa": qstr(pr.QA), "b": string(pr.B), "qb": qstr(pr.QB), "gap": p.Gap, "scale": p.Scale,
				"score": sc, "path": fmt.Sprint(path), "ref_optimum": want, "panic": pan, "geometry": feature}
			if pan != "" {
				once{}.violate(c, "panic:"+name, name+" panicked", w)
				s.reset()
				continue
			}
			if cl, _, _, _ := ref.PEPathCheck(path, len(pr.A), len(pr.B)); cl != "" {
				once{}.violate(c, name+":path:"+cl, name+" returned a path that does not consume both reads exactly", w)
				continue
			}
			ps, _ := t.PEPathScore(pr.A, pr.QA, pr.B, pr.QB, path, p.Gap, p.Scale, left)
			w["path_score"] = ps
			wantW := RW
			if left {
				wantW = LW
			}
			switch {
			case !wantW.Is(want):
				w["ref_optimum_exact_arithmetic"] = wantW.String()
				if !wantW.Is(sc) {
					once{}.violate(c, "int-overflow:"+overflowFeature(pr), "64-bit score arithmetic overflows on this pair: "+name+" does not report the optimum of exact arithmetic", w)
				}
			case sc != want:
				once{}.violate(c, name+":score-not-optimal", name+" reports a score that is not the optimum of the independent dynamic program", w)
			case ps != sc:
				once{}.violate(c, name+":path-score", name+": the score recomputed along the path differs from the reported score", w)
			}
		}
	})
	c.Count("evaluations", evals)
	c.Count("pairs_overflowing_int64", overflows)
}

func oneSided(sa, sb *obiseq.BioSequence, p gen.PEParams, left bool, arena obialign.PEAlignArena) (score int, path []int, pan string) {
	defer func() {
		if r := recover(); r != nil {
			pan = fmt.Sprint(r)
		}
	}()
	var pth []int
	if left {
		score, pth = obialign.PELeftAlign(sa, sb, p.Gap, p.Scale, arena)
	} else {
		score, pth = obialign.PERightAlign(sa, sb, p.Gap, p.Scale, arena)
	}
	return score, append([]int(nil), pth...), ""
}

// ---------------------------------------------------------------------------
// consensus

func buildConsensus(sa, sb *obiseq.BioSequence, path []int, s *session) (cons *obiseq.BioSequence, match int, pan string) {
	defer func() {
		if r := recover(); r != nil {
			pan = fmt.Sprint(r)
			s.reset()
		}
	}()
	cons, match = obialign.BuildQualityConsensus(sa, sb, path, true, s.arena)
	return cons, match, ""
}

func runConsensus(c *core.Ctx) {
	loadTables()
	evals, cols := 0, 0
	kinds := map[string]int{}
	stream(c, pairsPerCase, randomPick(c, 300), func(k int, r *pairRun, s *session) {
		if r.o.Panic != "" || r.class != "" {
			return
		}
		pr := r.pr
		evals++
		// like the production code: the path still lives in the arena when the consensus is built
		cons, match, pan := buildConsensus(r.sa, r.sb, r.o.raw, s)
		w := witness(pr, r.p, r.o)
		if pan != "" {
			once{}.violate(c, "panic", "BuildQualityConsensus panicked on a well-formed path: "+pan, w)
			return
		}
		columns := ref.PEColumns(r.o.Path)
		seq, qual := cons.Sequence(), cons.Qualities()
		w["consensus"], w["consensus_qualities"] = string(seq), qstr(qual)
		if len(seq) != len(columns) || !cons.HasQualities() || len(qual) != len(columns) {
			w["columns"] = len(columns)
			once{}.violate(c, "length", "the consensus does not hold one base and one quality per path column", w)
			return
		}
		if !bytes.Equal(r.sa.Sequence(), pr.A) || !bytes.Equal(r.sb.Sequence(), pr.B) || !bytes.Equal(r.sa.Qualities(), pr.QA) || !bytes.Equal(r.sb.Qualities(), pr.QB) {
			once{}.violate(c, "inputs-modified", "BuildQualityConsensus modified its input reads", w)
			return
		}
		for i, col := range columns {
			base, qx, kind := ref.PEConsensusExpect(pr.A, pr.QA, pr.B, pr.QB, col)
			kinds[kind]++
			cols++
			if seq[i] != base {
				w["column"], w["expected_base"], w["got_base"] = i, string(base), string(seq[i])
				once{}.violate(c, "base:"+kind, "a consensus column does not hold the base the higher-quality-wins rule demands", w)
				return
			}
			if (qx >= 0 && int(qual[i]) != qx) || qual[i] > 90 {
				w["column"], w["expected_quality"], w["got_quality"] = i, qx, qual[i]
				once{}.violate(c, "quality:"+kind, "a consensus column does not hold the documented quality", w)
				return
			}
		}
		st := ref.PEPathStats(pr.A, pr.QA, pr.B, pr.QB, r.o.Path)
		if match < st.MatchLo || match > st.MatchHi {
			w["match"], w["match_lo"], w["match_hi"] = match, st.MatchLo, st.MatchHi
			once{}.violate(c, "match-count", "the number of matches returned with the consensus is outside the bounds derived from the path", w)
		}
		nontrivialKey(c, pr, r.p, r.o, "")
		if k == 0 {
			c.Sample(w)
		}
	})
	c.Count("evaluations", evals)
	c.Count("consensus_columns", cols)
	for k, v := range kinds {
		c.Count("columns_"+k, v)
	}
}

// ---------------------------------------------------------------------------
// stats (assembly layer)

type asmParams struct {
	MinOverlap  int
	MinIdentity float64
	WithStats   bool
	Inplace     bool
}

func assemble(sa, sb *obiseq.BioSequence, p gen.PEParams, ap asmParams, s *session) (cons *obiseq.BioSequence, pan string) {
	defer func() {
		if r := recover(); r != nil {
			pan = fmt.Sprint(r)
			s.reset()
		}
	}()
	cons = obipairing.AssemblePESequences(sa, sb, p.Gap, p.Scale, p.Delta, ap.MinOverlap, ap.MinIdentity, ap.WithStats, ap.Inplace,
		p.Fast, p.FastRel, s.arena, &s.shifts)
	return cons, ""
}

func intAttr(a obiseq.Annotation, k string) (int, bool) {
	v, ok := a[k]
	if !ok {
		return 0, false
	}
	i, ok := v.(int)
	return i, ok
}

func drawAsm(c *core.Ctx) asmParams {
	return asmParams{
		MinOverlap:  []int{1, 4, 10, 20, 20, 30, 60}[c.Rng.Intn(7)],
		MinIdentity: []float64{0, 0.5, 0.8, 0.9, 0.9, 1}[c.Rng.Intn(6)],
		WithStats:   c.Rng.Intn(4) != 0,
		Inplace:     c.Rng.Intn(2) == 0,
	}
}

func identity(match, ali int) float64 {
	if ali == 0 {
		return 0
	}
	return float64(match) / float64(ali)
}

func runStats(c *core.Ctx) {
	loadTables()
	evals := 0
	modes := map[string]int{}
	stream(c, pairsPerCase, randomPick(c, 300), func(k int, r *pairRun, s *session) {
		if r.o.Panic != "" || r.class != "" {
			return
		}
		pr, p := r.pr, r.p
		ap := drawAsm(c)
		if pre := ref.PEPathStats(pr.A, pr.QA, pr.B, pr.QB, r.o.Path); !pre.Ambiguous && pre.AliLength > 0 && pre.MatchLo == pre.MatchHi && c.Rng.Intn(3) == 0 {
			// a min-identity placed on, or a hair beside, the identity of this very overlap: the decision
			// is made on the ratio itself, not on the three decimals reported as score_norm
			id := identity(pre.MatchLo, pre.AliLength)
			m := []float64{id, id + 1e-9, id - 1e-9, math.Ceil(id*1000) / 1000, math.Floor(id*1000) / 1000, id + 0.0004, id - 0.0004}[c.Rng.Intn(7)]
			ap.MinIdentity = math.Min(1, math.Max(0, m))
			c.Count("thresholds_on_the_identity", 1)
		}
		evals++
		sa, sb := mkseq("a", pr.A, pr.QA), mkseq("b", pr.B, pr.QB)
		cons, pan := assemble(sa, sb, p, ap, s)
		w := witness(pr, p, r.o)
		w["assembly"] = fmt.Sprintf("%+v", ap)
		if pan != "" {
			once{}.violate(c, "panic", "AssemblePESequences panicked although PEAlign returns a well-formed path: "+pan, w)
			return
		}
		an := cons.Annotations()
		seq, qual := cons.Sequence(), cons.Qualities()
		w["sequence"], w["qualities"], w["annotations"] = string(seq), qstr(qual), fmt.Sprint(an)
		st := ref.PEPathStats(pr.A, pr.QA, pr.B, pr.QB, r.o.Path)
		w["path_stats"] = fmt.Sprintf("%+v", st)
		mode, _ := an["mode"].(string)
		modes[mode]++
		dir := "right"
		if r.o.IsLeft {
			dir = "left"
		}
		switch mode {
		case "alignment":
			if len(seq) != st.Columns || len(qual) != st.Columns {
				once{}.violate(c, "alignment:length", "mode=alignment but the sequence does not have one symbol per path column", w)
				return
			}
			if ap.WithStats {
				ali, ok1 := intAttr(an, "ali_length")
				as, ok2 := intAttr(an, "seq_a_single")
				bs, ok3 := intAttr(an, "seq_b_single")
				ad, _ := an["ali_dir"].(string)
				if !ok1 || !ok2 || !ok3 {
					once{}.violate(c, "alignment:missing-stat", "mode=alignment with statistics but ali_length / seq_a_single / seq_b_single is missing", w)
					return
				}
				if ali+as+bs != len(seq) {
					once{}.violate(c, "alignment:sum", "ali_length + seq_a_single + seq_b_single differs from the length of the returned sequence", w)
					return
				}
				if ad != dir {
					once{}.violate(c, "alignment:ali_dir", "ali_dir differs from the direction returned by PEAlign", w)
				}
				if !st.Ambiguous && ali == st.AliLength && (as != st.ASingle || bs != st.BSingle) {
					cause := fmt.Sprintf("single-attribution:%s:%s", dir, endShape(st))
					if (r.o.IsLeft && (st.LeadRun > 0 || st.TrailRun < 0)) || (!r.o.IsLeft && (st.LeadRun < 0 || st.TrailRun > 0)) {
						// an end run holds the read the direction does not expect there (containment, charged end gap)
						cause = "single-attribution:end-run-of-the-other-read"
					}
					w["end_runs"] = dir + ":" + endShape(st)
					once{}.violate(c, cause,
						"seq_a_single / seq_b_single are not the numbers of symbols of A / of B in the unpaired ends of the returned sequence", w)
					return
				}
			}
			if !st.Ambiguous && (st.AliLength < ap.MinOverlap || identity(st.MatchHi, st.AliLength) < ap.MinIdentity) {
				once{}.violate(c, "alignment:below-threshold", "mode=alignment although the overlap is shorter than min-overlap or its identity below min-identity", w)
			}
		case "join":
			wantS := append(append(append([]byte{}, pr.A...), []byte("..........")...), pr.B...)
			wantQ := append(append(append([]byte{}, pr.QA...), make([]byte, 10)...), pr.QB...)
			if !bytes.Equal(seq, wantS) || !bytes.Equal(qual, wantQ) {
				once{}.violate(c, "join:layout", "mode=join but the record is not read A, ten dots (quality 0), read B", w)
				return
			}
			if !st.Ambiguous && st.AliLength >= ap.MinOverlap && identity(st.MatchLo, st.AliLength) >= ap.MinIdentity {
				once{}.violate(c, "join:above-threshold", "mode=join although overlap length and identity reach the thresholds", w)
			}
		default:
			once{}.violate(c, "mode-missing", "the record carries no mode annotation", w)
			return
		}
		if ap.WithStats {
			if ali, ok := intAttr(an, "ali_length"); !ok || (!st.Ambiguous && ali != st.AliLength) {
				once{}.violate(c, mode+":ali_length", "ali_length differs from the number of columns between the two unpaired ends", w)
			}
			if sc, ok := intAttr(an, "score"); !ok || sc != r.o.Score {
				once{}.violate(c, mode+":score-annotation", "the score annotation differs from the score returned by PEAlign for the same pair", w)
			}
			if m, ok := intAttr(an, "seq_ab_match"); !ok || m < st.MatchLo || m > st.MatchHi {
				once{}.violate(c, mode+":match-count", "seq_ab_match is outside the bounds derived from the path", w)
			}
		}
		if !ap.Inplace && (!bytes.Equal(sa.Sequence(), pr.A) || !bytes.Equal(sb.Sequence(), pr.B) || !bytes.Equal(sa.Qualities(), pr.QA) || !bytes.Equal(sb.Qualities(), pr.QB)) {
			once{}.violate(c, "inputs-modified", "AssemblePESequences(inplace=false) modified its input reads", w)
		}
		nontrivialKey(c, pr, p, r.o, fmt.Sprintf("%s/o%d/i%v/%v/%v", mode, ap.MinOverlap, ap.MinIdentity, ap.WithStats, ap.Inplace))
		if k == 0 {
			c.Sample(w)
		}
	})
	c.Count("evaluations", evals)
	for k, v := range modes {
		c.Count("mode_"+k, v)
	}
}

// endShape names which reads the two unpaired end runs of a path come from.
func endShape(st ref.PEStats) string {
	n := func(r int) string {
		switch {
		case r < 0:
			return "a"
		case r > 0:
			return "b"
		}
		return "0"
	}
	return "lead-" + n(st.LeadRun) + "-trail-" + n(st.TrailRun)
}

// ---------------------------------------------------------------------------
// reassembly of error-free pairs

func runReassembly(c *core.Ctx) {
	t := loadTables()
	evals, decisive, excluded, ambiguous, invalid := 0, 0, 0, 0, 0
	geos := []string{"stagger-a-first", "stagger-a-first", "stagger-b-first", "stagger-b-first", "same-start", "same-end", "same-span", "a-contains-b", "b-contains-a"}
	pick := func(k int) (gen.PEPair, gen.PEParams) {
		pr := gen.PEPairCase(c.Rng, gen.PEOptions{MaxLen: 300, Geometry: geos[c.Rng.Intn(len(geos))], ErrorFree: true,
			QProfile: []string{"high", "uniform1-41", "decline", "constant", "max93", "uniform0-93"}[c.Rng.Intn(6)]})
		p := gen.PEParamsCase(c.Rng)
		// quality 0 in both reads overflows the 64-bit scores (sub-checks tables, score, optimum): here at most one read holds zeros
		if bytes.IndexByte(pr.QA, 0) >= 0 && bytes.IndexByte(pr.QB, 0) >= 0 {
			q := [][]byte{pr.QA, pr.QB}[c.Rng.Intn(2)]
			for i := range q {
				if q[i] == 0 {
					q[i] = 1
				}
			}
		}
		return pr, p
	}
	s := newSession(150, 150)
	for k := 0; k < pairsPerCase; k++ {
		pr, p := pick(k)
		la, lb := len(pr.A), len(pr.B)
		// placement of the reads on the template
		d := pr.B0 - pr.A0 // true shift: B starts d symbols after A
		lo, hi := min(pr.A0, pr.B0), max(pr.A1, pr.B1)
		frag := pr.Template[lo:hi]
		ov := ref.DiagonalOverlap(la, lb, d)
		minOverlap := []int{1, 4, 10, 20}[c.Rng.Intn(4)]
		if ov < minOverlap {
			minOverlap = max(1, ov)
		}
		if ov < 1 {
			excluded++
			continue
		}
		if p.Fast {
			// fast mode: only when the true offset is the strict maximiser of the 4-mer diagonal score,
			// under the overlap of the diagonal and under the overlap reading of FastShiftFourMer's documentation
			if la < 4 || lb < 4 {
				excluded++
				continue
			}
			diag := ref.FourMerDiagonals(pr.A, pr.B)
			ovTrue := func(e int) int { return ref.DiagonalOverlap(la, lb, e) }
			ovDoc := func(e int) int {
				switch {
				case e > 0:
					return la - e
				case e < 0:
					return lb + e
				}
				return min(la, lb)
			}
			if !ref.StrictBestDiagonal(diag, d, p.FastRel, ovTrue) || (p.FastRel && !ref.StrictBestDiagonal(diag, d, true, ovDoc)) {
				excluded++
				continue
			}
		}
		evals++
		ap := asmParams{MinOverlap: minOverlap, MinIdentity: []float64{0, 0.9, 1}[c.Rng.Intn(3)], WithStats: true, Inplace: false}
		sa, sb := mkseq("a", pr.A, pr.QA), mkseq("b", pr.B, pr.QB)
		c.Risk("AssemblePESequences:" + modeName(p))
		o := s.align(sa, sb, p)
		w := witness(pr, p, o)
		w["fragment"], w["true_shift"], w["true_overlap"], w["assembly"] = string(frag), d, ov, fmt.Sprintf("%+v", ap)
		if o.Panic != "" {
			once{}.violate(c, "panic:"+modeName(p), "PEAlign panicked on an error-free overlapping pair: "+o.Panic, w)
			continue
		}
		cons, pan := assemble(sa, sb, p, ap, s)
		if pan != "" {
			once{}.violate(c, "panic:"+modeName(p), "AssemblePESequences panicked on an error-free overlapping pair: "+pan, w)
			continue
		}
		mode, _ := cons.Annotations()["mode"].(string)
		w["sequence"], w["mode"] = string(cons.Sequence()), mode
		if cl, _, _, _ := ref.PEPathCheck(o.Path, la, lb); cl != "" {
			invalid++ // decided by sub-check path
			continue
		}
		// the sequence the returned path stands for (documented column rule)
		var pathSeq []byte
		for _, col := range ref.PEColumns(o.Path) {
			b, _, _ := ref.PEConsensusExpect(pr.A, pr.QA, pr.B, pr.QB, col)
			pathSeq = append(pathSeq, b)
		}
		if bytes.Equal(pathSeq, frag) {
			// the alignment is the true one: the record must be the fragment unless a threshold is really missed
			st := ref.PEPathStats(pr.A, pr.QA, pr.B, pr.QB, o.Path)
			switch {
			case mode == "alignment" && bytes.Equal(cons.Sequence(), frag):
				decisive++
				c.Key("%s/%s/%s/%s/ov%s/%s", pr.Geometry, modeName(p), lenClass(la), lenClass(lb), lenClass(ov), pr.QProfile)
				if k == 0 {
					c.Sample(w)
				}
			case mode == "alignment":
				once{}.violate(c, "record-differs:"+modeName(p), "error-free pair: the alignment is the true one but the returned sequence is not the fragment", w)
			case st.Ambiguous || st.AliLength < ap.MinOverlap || identity(st.MatchLo, st.AliLength) < ap.MinIdentity:
				ambiguous++ // rejected by a threshold that is really missed (zero qualities are not counted as matches)
			default:
				once{}.violate(c, fmt.Sprintf("rejected:%s:%s", modeName(p), pr.Geometry), "error-free pair aligned correctly and above the thresholds, but the reads are not assembled", w)
			}
			continue
		}
		// not reassembled: legitimate only if the returned alignment scores at least as much as the true placement
		truePath, trueLeft := truePlacement(la, lb, d)
		ts, _ := t.PEPathScore(pr.A, pr.QA, pr.B, pr.QB, truePath, p.Gap, p.Scale, trueLeft)
		if alt, _ := t.PEPathScore(pr.A, pr.QA, pr.B, pr.QB, truePath, p.Gap, p.Scale, !trueLeft); alt > ts {
			ts = alt
		}
		got, _ := t.PEPathScore(pr.A, pr.QA, pr.B, pr.QB, o.Path, p.Gap, p.Scale, o.IsLeft)
		w["true_path"], w["true_path_score"], w["returned_path_score"] = fmt.Sprint(truePath), ts, got
		if got >= ts {
			ambiguous++ // another alignment is at least as good under the documented scores (repeats, low qualities, charged containment gaps)
			continue
		}
		endA, endB := la, lb+d
		cause := fmt.Sprintf("%s:%s", modeName(p), pr.Geometry)
		switch {
		case !p.Fast:
			cause = "exact:" + pr.Geometry
		case d == 0 && endB > endA:
			// the 4-mer shift is 0: the right scheme is used, which charges the end of B that extends beyond A
			cause = "fast:same-start:b-overhang-charged"
		case (d > 0 && endA > endB) || (d < 0 && endB > endA):
			// one read contains the other: the scheme chosen from the sign of the shift charges the 3' overhang
			cause = "fast:containment:3prime-overhang-charged"
		}
		w["placement"] = fmt.Sprintf("B starts %d after A; A ends at %d, B ends at %d (A coordinates)", d, endA, endB)
		once{}.violate(c, cause, "two error-free reads overlapping by at least the minimum overlap are not reassembled into the original fragment", w)
	}
	c.Count("evaluations", evals)
	c.Count("reassembled", decisive)
	c.Count("excluded_not_in_clause", excluded)
	c.Count("skipped_invalid_path", invalid)
	c.Count("another_alignment_at_least_as_good", ambiguous)
}

// truePlacement gives the path placing B d symbols after the start of A (d may be negative).
func truePlacement(la, lb, d int) (path []int, left bool) {
	ov := ref.DiagonalOverlap(la, lb, d)
	var lead, trail int
	if d >= 0 {
		lead = -d // A alone
	} else {
		lead = -d // B alone (positive)
	}
	endA, endB := la, lb+d // in A coordinates
	switch {
	case endB > endA:
		trail = endB - endA // B alone
	case endA > endB:
		trail = -(endA - endB) // A alone
	}
	path = []int{lead, ov}
	if trail != 0 {
		path = append(path, trail, 0)
	}
	return path, d >= 0
}

// ---------------------------------------------------------------------------
// arena reuse

func sameOutcome(x, y outcome) string {
	switch {
	case x.Panic != y.Panic:
		return "panic"
	case x.IsLeft != y.IsLeft:
		return "isLeft"
	case x.Score != y.Score:
		return "score"
	case fmt.Sprint(x.Path) != fmt.Sprint(y.Path):
		return "path"
	case x.FastCount != y.FastCount:
		return "fastcount"
	case x.Over != y.Over:
		return "over"
	case x.FastScore != y.FastScore && !(math.IsNaN(x.FastScore) && math.IsNaN(y.FastScore)):
		return "fastscore"
	}
	return ""
}

func runArena(c *core.Ctx) {
	loadTables()
	evals, skipped := 0, 0
	// sizes alternate between long and short pairs so that every buffer shrinks and grows
	pick := func(k int) (gen.PEPair, gen.PEParams) {
		m := []int{300, 12, 80, 5, 300, 40}[k%6]
		return gen.PEPairCase(c.Rng, gen.PEOptions{MaxLen: m}), gen.PEParamsCase(c.Rng)
	}
	stream(c, pairsPerCase, pick, func(k int, r *pairRun, s *session) {
		pr, p := r.pr, r.p
		if p.Fast && len(pr.B) < 4 {
			// known defect class (identical-overlap branch taken without any 4-mer): the result reads
			// memory beyond the qualities of A, so it is not a function of the inputs; decided by sub-check path
			skipped++
			return
		}
		fresh := newSession(len(pr.A), len(pr.B))
		fo := fresh.align(mkseq("a", pr.A, pr.QA), mkseq("b", pr.B, pr.QB), p)
		evals++
		if f := sameOutcome(r.o, fo); f != "" && !(r.o.Panic != "" && fo.Panic != "") {
			w := witness(pr, p, r.o)
			w["fresh_arena"] = witness(pr, p, fo)
			once{}.violate(c, "reuse:"+f, "PEAlign gives different results with a reused and with a fresh arena", w)
			return
		}
		// the same read OBJECT comes back to the reused arena with other content of the same length
		// (reverse-complemented in place to try the other orientation, or refilled): nothing derived
		// from its former content may be used
		if k%3 == 0 && len(pr.A) >= 4 && r.o.Panic == "" {
			sa, sb := mkseq("a", pr.A, pr.QA), mkseq("b", pr.B, pr.QB)
			s.align(sa, sb, p)
			var a2, q2 []byte
			if k%2 == 0 {
				sa.ReverseComplement(true)
				a2, q2 = append([]byte{}, sa.Sequence()...), append([]byte{}, sa.Qualities()...)
			} else {
				a2 = gen.DNA(c.Rng, len(pr.A))
				q2 = append([]byte{}, pr.QA...)
				sa.SetSequence(append([]byte{}, a2...))
				sa.SetQualities(append([]byte{}, q2...))
			}
			o2 := s.align(sa, sb, p)
			f2 := newSession(len(a2), len(pr.B)).align(mkseq("a", a2, q2), mkseq("b", pr.B, pr.QB), p)
			evals++
			if f := sameOutcome(o2, f2); f != "" && !(o2.Panic != "" && f2.Panic != "") {
				w := witness(gen.PEPair{A: a2, QA: q2, B: pr.B, QB: pr.QB}, p, o2)
				w["fresh_arena_fresh_objects"] = witness(gen.PEPair{A: a2, QA: q2, B: pr.B, QB: pr.QB}, p, f2)
				w["read_A_before_the_edit"] = string(pr.A)
				once{}.violate(c, "reuse:object-edited-in-place:"+f, "PEAlign gives another result for a read object whose content was replaced (same length) than for a new object with that content", w)
				return
			}
		}
		if cl, _, _, _ := ref.PEPathCheck(fo.Path, len(pr.A), len(pr.B)); r.o.Panic != "" || r.class != "" || fo.Panic != "" || cl != "" {
			return
		}
		// assembly layer, reused vs fresh
		ap := drawAsm(c)
		ap.Inplace = false
		c1, p1 := assemble(mkseq("a", pr.A, pr.QA), mkseq("b", pr.B, pr.QB), p, ap, s)
		c2, p2 := assemble(mkseq("a", pr.A, pr.QA), mkseq("b", pr.B, pr.QB), p, ap, fresh)
		evals++
		if p1 != "" || p2 != "" {
			if (p1 == "") != (p2 == "") {
				once{}.violate(c, "reuse:assembly-panic", "AssemblePESequences panics with only one of reused / fresh arena", witness(pr, p, r.o))
			}
			return
		}
		if !bytes.Equal(c1.Sequence(), c2.Sequence()) || !bytes.Equal(c1.Qualities(), c2.Qualities()) || fmt.Sprint(c1.Annotations()) != fmt.Sprint(c2.Annotations()) {
			w := witness(pr, p, r.o)
			w["reused"] = map[string]any{"seq": string(c1.Sequence()), "qual": qstr(c1.Qualities()), "annot": fmt.Sprint(c1.Annotations())}
			w["fresh"] = map[string]any{"seq": string(c2.Sequence()), "qual": qstr(c2.Qualities()), "annot": fmt.Sprint(c2.Annotations())}
			once{}.violate(c, "reuse:assembly", "AssemblePESequences gives different records with a reused and with a fresh arena", w)
		}
		nontrivialKey(c, pr, p, r.o, fmt.Sprint(k%6))
		if k == 0 {
			c.Sample(witness(pr, p, r.o))
		}
	})
	c.Count("evaluations", evals)
	c.Count("skipped_known_memory_dependent_class", skipped)
}

func init() {
	core.Register(&core.Property{
		ID:    "C08",
		Level: "exploration",
		Rule: "read pairs cut from a generated template (lengths 1..300; geometries: staggered both ways, same start, same end, containment both ways, same span, overlap 1..3, abutting, disjoint, tiny reads; " +
			"random / homopolymer-rich / tandem-repeat / two-letter templates; substitutions and indels at 0..10 %, IUPAC symbols at 0..10 %, eight quality profiles over 0..93) x {exact, fast-relative, fast-absolute} x delta {0,1,2,5,10,20} x gap {0.5..4} x scale {0.5..2}, " +
			"streams of 24 pairs through ONE arena and shift map of varying initial size; plus the exhaustive grid of read lengths 1..9 x 1..9 in both modes. The real PEAlign / PELeftAlign / PERightAlign / BuildQualityConsensus / AssemblePESequences run on every pair; " +
			"the oracle is written from the documented end-gap-free scheme (harness/ref/c08_pe.go). " +
			"Added later: concurrent sub-check (one arena per goroutine, 2-16 goroutines, results compared with those obtained alone). min-identity thresholds placed on and a hair beside the identity of the overlap under test. A read object whose content is replaced in place between two alignments with the same arena; first-call: the first alignment of a fresh process (no table read before) compared with the same alignment made later and with the score along its path. " +
			"distinct_nontrivial = distinct (sub-check, geometry, code branch exact|fast-identical|fast-dp x left|right, mode, length classes of both reads, errors present, IUPAC present, quality profile, sub-check specific class) among pairs whose reads both hold a 4-mer and whose path has at least one paired column",
		Assume: []string{
			"reads are non-empty, over the lower-case IUPAC nucleotide alphabet, with qualities 0..93; B is given in the orientation of A",
			"the reference uses the exported per-quality tables as data and Go int arithmetic like the implementation; the tables themselves are compared with the documented model by sub-check tables",
			"consensus quality is checked where the documentation fixes it (single read: its quality; agreement: sum; both capped at 90); on disagreement only the base is checked",
			"seq_ab_match and the identity threshold are checked against bounds (equal unambiguous bases with positive qualities <= matches <= IUPAC-compatible columns)",
			"reassembly: a pair that is not reassembled is a violation only when the returned alignment scores less than the true placement under the documented scores; fast mode only when the true offset is the strict maximiser of the independently computed 4-mer diagonal score",
		},
		Subs: []core.Sub{
			{Name: "tables", N: core.Const(1, 1), Run: runTables},
			{Name: "path", N: core.Const(81+560, 81+6000), Run: runPath},
			{Name: "score", N: core.Const(480, 5000), Run: runScoreFast},
			{Name: "score-exact", N: core.Const(40, 300), Run: runScoreExact},
			{Name: "optimum", N: core.Const(560, 6000), Run: runOptimum},
			{Name: "optimum-small", N: core.Const(smallShards, smallShards), Run: runOptimumSmall},
			{Name: "consensus", N: core.Const(400, 4000), Run: runConsensus},
			{Name: "stats", N: core.Const(400, 4000), Run: runStats},
			{Name: "reassembly", N: core.Const(560, 6000), Run: runReassembly},
			{Name: "arena", N: core.Const(300, 3000), Run: runArena},
			{Name: "first-call", N: core.Const(12, 60), Run: runFirst},
			{Name: "concurrent", N: core.Const(16, 128), Run: runConcurrent, Race: true, NRace: core.Const(4, 16), TimeoutS: 600},
		},
		RaceFiles:     []string{"pkg/obialign/pairedendalign.go", "pkg/obialign/alignment.go", "pkg/obialign/backtracking.go", "pkg/obialign/dnamatrix.go", "pkg/obikmer/encodefourmer.go", "pkg/obitools/obipairing/"},
		MinNontrivial: 500,
	})
}
