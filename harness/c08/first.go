package c08

import (
	"encoding/json"
	"fmt"
	"os"
	"strconv"
	"time"

	"verifh/cmdx"
	"verifh/core"
	"verifh/gen"
)

// The very first alignment of a process. Everything the other sub-checks do happens after the
// scoring tables were read through the verif accessors; here a helper process aligns ONE error-free
// pair (fast mode, identical overlap: the branch that fills no matrix) as the first thing it does,
// and the parent recomputes the score along the returned path.
type firstOut struct {
	IsLeft bool   `json:"is_left"`
	Score  int    `json:"score"`
	Path   []int  `json:"path"`
	Panic  string `json:"panic,omitempty"`
}

func firstCase(seed int64, sub string, idx int) (gen.PEPair, gen.PEParams) {
	r := core.CaseRng(seed, sub, idx)
	pr := gen.PEPairCase(r, gen.PEOptions{MaxLen: 150, ErrorFree: true, Geometry: "stagger-a-first"})
	p := gen.PEParamsCase(r)
	p.Fast = true
	return pr, p
}

func firstMain(args []string) int {
	if len(args) < 3 {
		return 2
	}
	seed, _ := strconv.ParseInt(args[0], 10, 64)
	idx, _ := strconv.Atoi(args[2])
	pr, p := firstCase(seed, args[1], idx)
	s := newSession(len(pr.A), len(pr.B))
	o := s.align(mkseq("a", pr.A, pr.QA), mkseq("b", pr.B, pr.QB), p)
	b, _ := json.Marshal(firstOut{o.IsLeft, o.Score, o.Path, o.Panic})
	fmt.Println(string(b))
	return 0
}

func runFirst(c *core.Ctx) {
	t := loadTables()
	pr, p := firstCase(c.Seed, c.Sub, c.Idx)
	self, _ := os.Executable()
	res := cmdx.Run(self, []string{"c08first", fmt.Sprint(c.Seed), c.Sub, fmt.Sprint(c.Idx)}, cmdx.Opt{Timeout: 60 * time.Second})
	var fo firstOut
	if res.TimedOut || res.Exit != 0 || json.Unmarshal(res.Stdout, &fo) != nil {
		c.Inconclusive("the helper process of the first-alignment sub-check did not answer")
		return
	}
	c.Count("evaluations", 1)
	w := map[string]any{"a": string(pr.A), "b": string(pr.B), "geometry": pr.Geometry, "params": fmt.Sprintf("%+v", p), "first_call": fo}
	if fo.Panic != "" {
		once{}.violate(c, "panic", "the first alignment of a process panics", w)
		return
	}
	// the same call in this process (tables read long ago)
	o := newSession(len(pr.A), len(pr.B)).align(mkseq("a", pr.A, pr.QA), mkseq("b", pr.B, pr.QB), p)
	w["later_call"] = firstOut{o.IsLeft, o.Score, o.Path, o.Panic}
	c.Key("first/%s/%v/%s", pr.Geometry, p.FastRel, branch(p, o))
	if c.Idx < 2 {
		c.Sample(w)
	}
	if fo.Score != o.Score || fo.IsLeft != o.IsLeft || fmt.Sprint(fo.Path) != fmt.Sprint(o.Path) {
		once{}.violate(c, "differs", "the first alignment of a process differs from the same alignment made later", w)
		return
	}
	if want, _ := t.PEPathScore(pr.A, pr.QA, pr.B, pr.QB, fo.Path, p.Gap, p.Scale, fo.IsLeft); want != fo.Score {
		w["score_along_path"] = want
		once{}.violate(c, "score", "the score of the first alignment of a process is not the score recomputed along its path", w)
	}
}

func init() { core.Extra["c08first"] = firstMain }
