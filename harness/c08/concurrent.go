package c08

import (
	"fmt"

	"verifh/conc"
	"verifh/core"
	"verifh/gen"
)

// runConcurrent: obipairing aligns with one arena per worker goroutine. While 2-16 goroutines align
// (each through its own arena and shift map, reused from pair to pair) and build consensus records,
// every result must be the one obtained alone with a fresh arena (which the other sub-checks compare
// with the reference).
func runConcurrent(c *core.Ctx) {
	loadTables()
	type item struct {
		pr gen.PEPair
		p  gen.PEParams
		ap asmParams
	}
	var items []item
	for k := 0; k < c.Pick(60, 160); k++ {
		m := []int{300, 12, 80, 5, 150, 40}[k%6]
		pr, p := gen.PEPairCase(c.Rng, gen.PEOptions{MaxLen: m}), gen.PEParamsCase(c.Rng)
		if p.Fast && len(pr.B) < 4 {
			continue // result depends on memory beyond the reads (known class, see sub-check arena)
		}
		ap := drawAsm(c)
		ap.Inplace = false
		items = append(items, item{pr, p, ap})
	}
	workers := []int{2, 4, 8, 16}[c.Idx%4]
	sessions := make([]*session, workers)
	for i := range sessions {
		sessions[i] = newSession(20+c.Rng.Intn(200), 20+c.Rng.Intn(200))
	}
	eval := func(i, w int) string {
		it := items[i]
		s := newSession(len(it.pr.A), len(it.pr.B))
		if w >= 0 {
			s = sessions[w]
		}
		o := s.align(mkseq("a", it.pr.A, it.pr.QA), mkseq("b", it.pr.B, it.pr.QB), it.p)
		out := fmt.Sprintf("%v|%d|%v|%d|%d|%v|%q", o.IsLeft, o.Score, o.Path, o.FastCount, o.Over, o.FastScore, o.Panic)
		if o.Panic != "" {
			return out
		}
		cons, pn := assemble(mkseq("a", it.pr.A, it.pr.QA), mkseq("b", it.pr.B, it.pr.QB), it.p, it.ap, s)
		if pn != "" || cons == nil {
			return out + "|assembly-panic"
		}
		return out + fmt.Sprintf("|%s|%s|%v", cons.Sequence(), qstr(cons.Qualities()), cons.Annotations())
	}
	c.Risk("concurrent-alignments")
	_, bad, evals := conc.Run(workers, c.Pick(3, 8), len(items), eval)
	c.Count("evaluations", int(evals))
	c.Count("concurrent_evaluations", int(evals))
	c.Key("concurrent/%d/%d", workers, len(items)/20)
	if c.Idx < 2 {
		c.Sample(map[string]any{"pairs": len(items), "goroutines": workers})
	}
	seen := map[string]bool{}
	for _, m := range bad {
		it := items[m.Index]
		mode := "exact"
		if it.p.Fast {
			mode = "fast"
		}
		cause := "concurrent:" + mode
		if m.Panic {
			cause = "concurrent:panic:" + mode
		}
		if !seen[cause] {
			seen[cause] = true
			c.Violate(cause, "a paired-end alignment made while other goroutines align (each with its own arena) differs from the one made alone",
				map[string]any{"a": string(it.pr.A), "b": string(it.pr.B), "params": it.p, "alone": m.Alone, "got": m.Got, "goroutines": workers})
		}
	}
}
