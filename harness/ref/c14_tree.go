package ref

// Reference taxonomy for C14: a rooted tree stored as a parent array, with
// taxids, ranks, scientific names and merged-id aliases. Every query is
// answered in the most naive way (walk the parent links, mark ancestors).

// TaxTree is a rooted tree over nodes 0..n-1.
type TaxTree struct {
	Parent []int    // Parent[root] == root
	Root   int      // index of the root
	Taxid  []int    // distinct taxids
	Rank   []string // rank label of every node
	Name   []string // scientific name of every node
	Alias  [][2]int // (old taxid, node index); old taxids are distinct and are not taxids of nodes

	Depth []int       // filled by Finish
	Index map[int]int // taxid -> node, filled by Finish
	alias map[int]int
	mark  []int
	stamp int
}

// Finish computes the derived tables (depths without recursion: chains are deep).
func (t *TaxTree) Finish() {
	n := len(t.Parent)
	t.Depth = make([]int, n)
	for i := range t.Depth {
		t.Depth[i] = -1
	}
	t.Depth[t.Root] = 0
	var stack []int
	for i := 0; i < n; i++ {
		x := i
		stack = stack[:0]
		for t.Depth[x] < 0 {
			stack = append(stack, x)
			x = t.Parent[x]
		}
		d := t.Depth[x]
		for k := len(stack) - 1; k >= 0; k-- {
			d++
			t.Depth[stack[k]] = d
		}
	}
	t.Index = make(map[int]int, n)
	for i, id := range t.Taxid {
		t.Index[id] = i
	}
	t.alias = make(map[int]int, len(t.Alias))
	for _, a := range t.Alias {
		t.alias[a[0]] = a[1]
	}
	t.mark = make([]int, n)
	t.stamp = 0
}

// N is the number of nodes.
func (t *TaxTree) N() int { return len(t.Parent) }

// Resolve maps a taxid to a node: directly, or through the alias table.
func (t *TaxTree) Resolve(taxid int) (node int, viaAlias bool, ok bool) {
	if i, ok := t.Index[taxid]; ok {
		return i, false, true
	}
	if i, ok := t.alias[taxid]; ok {
		return i, true, true
	}
	return -1, false, false
}

// Path returns the nodes from a to the root (both included).
func (t *TaxTree) Path(a int) []int {
	p := []int{a}
	for a != t.Root {
		a = t.Parent[a]
		p = append(p, a)
	}
	return p
}

// IsAncestorOrSelf tells whether anc lies on the path from x to the root.
func (t *TaxTree) IsAncestorOrSelf(anc, x int) bool {
	for {
		if x == anc {
			return true
		}
		if x == t.Root {
			return false
		}
		x = t.Parent[x]
	}
}

// LCA is the deepest node that is an ancestor-or-self of both: mark the
// ancestors of a, climb from b to the first marked node.
func (t *TaxTree) LCA(a, b int) int {
	t.stamp++
	x := a
	for {
		t.mark[x] = t.stamp
		if x == t.Root {
			break
		}
		x = t.Parent[x]
	}
	x = b
	for t.mark[x] != t.stamp {
		x = t.Parent[x]
	}
	return x
}

// LCASet folds LCA over a non-empty set.
func (t *TaxTree) LCASet(nodes []int) int {
	l := nodes[0]
	for _, x := range nodes[1:] {
		l = t.LCA(l, x)
	}
	return l
}

// AtRank returns every ancestor-or-self of a whose rank is rank, nearest first.
func (t *TaxTree) AtRank(a int, rank string) []int {
	var r []int
	for {
		if t.Rank[a] == rank {
			r = append(r, a)
		}
		if a == t.Root {
			return r
		}
		a = t.Parent[a]
	}
}

// Relation classifies an ordered pair of nodes by the shape of their paths
// (used for case classes and for cause strings).
func (t *TaxTree) Relation(a, b int) string {
	switch {
	case a == b && a == t.Root:
		return "same-root"
	case a == b:
		return "same"
	case a == t.Root || b == t.Root:
		return "root-involved"
	case t.IsAncestorOrSelf(a, b) || t.IsAncestorOrSelf(b, a):
		return "one-ancestor-of-other"
	case t.Depth[a] == t.Depth[b]:
		if t.LCA(a, b) == t.Root {
			return "diverge-at-root-equal-depth"
		}
		return "diverge-equal-depth"
	default:
		if t.LCA(a, b) == t.Root {
			return "diverge-at-root-unequal-depth"
		}
		return "diverge-unequal-depth"
	}
}

// Height is the maximal depth.
func (t *TaxTree) Height() int {
	h := 0
	for _, d := range t.Depth {
		if d > h {
			h = d
		}
	}
	return h
}

// MaxDegree is the maximal number of children of a node.
func (t *TaxTree) MaxDegree() int {
	deg := make([]int, t.N())
	m := 0
	for i, p := range t.Parent {
		if i != t.Root {
			deg[p]++
			if deg[p] > m {
				m = deg[p]
			}
		}
	}
	return m
}

// Ranks returns the distinct rank labels present in the tree (order of first appearance).
func (t *TaxTree) Ranks() []string {
	seen := map[string]bool{}
	var r []string
	for _, k := range t.Rank {
		if !seen[k] {
			seen[k] = true
			r = append(r, k)
		}
	}
	return r
}
