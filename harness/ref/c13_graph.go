package ref

// Brute-force reference of the obiclean graph at distance one (C13).

import (
	"bytes"
	"fmt"
	"sort"
)

// C13OneEdit tells whether `to` is obtained from `from` by exactly one
// substitution, one insertion or one deletion (byte equality), and which.
// Own test, written from the definition: after the longest common prefix the
// remainders must be equal once the single edited symbol is skipped (an edit
// inside a run of equal symbols can always be moved to the end of the run).
func C13OneEdit(from, to []byte) (bool, string) {
	lf, lt := len(from), len(to)
	if lf-lt > 1 || lt-lf > 1 {
		return false, ""
	}
	p := 0
	for p < lf && p < lt && from[p] == to[p] {
		p++
	}
	switch {
	case lf == lt:
		if p == lf {
			return false, "" // identical
		}
		return bytes.Equal(from[p+1:], to[p+1:]), "substitution"
	case lf+1 == lt:
		return bytes.Equal(from[p:], to[p+1:]), "insertion"
	default:
		return bytes.Equal(from[p+1:], to[p:]), "deletion"
	}
}

// C13Node is one sequence of one sample.
type C13Node struct {
	Id    string
	Seq   []byte
	Count int
}

// C13Graph is the reference graph of one sample.
type C13Graph struct {
	Fathers map[string][]string // son id -> ids of its fathers (sorted)
	Kind    map[string]string   // "son>father" -> substitution | insertion | deletion (father -> son)
	NSons   map[string]int
	Status  map[string]string // i: has a father; h: no father, at least one son; s: neither
	NEdges  int
}

// C13Reference links every sequence to every STRICTLY more abundant sequence
// of the sample that is exactly one edit away.
func C13Reference(nodes []C13Node) C13Graph {
	g := C13Graph{Fathers: map[string][]string{}, Kind: map[string]string{}, NSons: map[string]int{}, Status: map[string]string{}}
	for i := range nodes {
		for j := range nodes {
			if i == j || !(nodes[j].Count > nodes[i].Count) {
				continue
			}
			if ok, kind := C13OneEdit(nodes[j].Seq, nodes[i].Seq); ok {
				g.Fathers[nodes[i].Id] = append(g.Fathers[nodes[i].Id], nodes[j].Id)
				g.Kind[nodes[i].Id+">"+nodes[j].Id] = kind
				g.NSons[nodes[j].Id]++
				g.NEdges++
			}
		}
	}
	for _, n := range nodes {
		sort.Strings(g.Fathers[n.Id])
		switch {
		case len(g.Fathers[n.Id]) > 0:
			g.Status[n.Id] = "i"
		case g.NSons[n.Id] > 0:
			g.Status[n.Id] = "h"
		default:
			g.Status[n.Id] = "s"
		}
	}
	return g
}

// C13MutationOK tells whether the annotation "(x)->(y)@p" describes an edit
// that turns the father into the son: x is the symbol of the father ('-' when
// the son has an extra symbol), y the symbol of the son ('-' when the son lacks
// it), p the 1-based position of the symbol (in the father for a substitution
// or a deletion, in the son for an insertion).
func C13MutationOK(father, son []byte, m string) bool {
	var x, y byte
	var p int
	if n, err := fmt.Sscanf(m, "(%c)->(%c)@%d", &x, &y, &p); err != nil || n != 3 {
		return false
	}
	if fmt.Sprintf("(%c)->(%c)@%d", x, y, p) != m {
		return false
	}
	p--
	switch {
	case x != '-' && y != '-':
		if len(father) != len(son) || p < 0 || p >= len(father) || father[p] != x || son[p] != y || x == y {
			return false
		}
		return bytes.Equal(father[:p], son[:p]) && bytes.Equal(father[p+1:], son[p+1:])
	case x == '-' && y != '-': // insertion in the son
		if len(son) != len(father)+1 || p < 0 || p >= len(son) || son[p] != y {
			return false
		}
		return bytes.Equal(son[:p], father[:p]) && bytes.Equal(son[p+1:], father[p:])
	case x != '-' && y == '-': // deletion in the son
		if len(father) != len(son)+1 || p < 0 || p >= len(father) || father[p] != x {
			return false
		}
		return bytes.Equal(father[:p], son[:p]) && bytes.Equal(father[p+1:], son[p:])
	}
	return false
}
