package ref

// Reference semantics of property C07 (reverse complement, windows, coordinate
// transforms of position-bearing annotations). Everything here works on plain
// byte strings owned by the harness.

import (
	"fmt"
	"sort"
	"strconv"
)

// DNAAlphabet is the alphabet of property C07: the IUPAC DNA codes plus '.', '-', '[' and ']'.
const DNAAlphabet = "acgtryswkmbdhvn.-[]"

// Reverse returns s reversed (new slice).
func Reverse(s []byte) []byte {
	r := make([]byte, len(s))
	for i, c := range s {
		r[len(s)-1-i] = c
	}
	return r
}

// LowerBytes returns the ASCII lower case of s (new slice).
func LowerBytes(s []byte) []byte {
	r := make([]byte, len(s))
	for i, c := range s {
		r[i] = Lower(c)
	}
	return r
}

// WindowIndex returns the 0-based source indices covered, in order, by the
// window (from, to) of a sequence of length n.
//
//	linear:   0 <= from < to <= n                      -> from .. to-1
//	circular: the window of x+x starting at from:
//	          from <  to : from < 2n, to-from <= n      -> (x+x+x)[from:to]   (positions modulo n)
//	          from >= to : from < n, to >= 0            -> (x+x)[from:to+n]   (x[from:] then x[:to])
//
// ok is false when (from, to) is outside that domain.
func WindowIndex(n, from, to int, circular bool) (idx []int, ok bool) {
	if n <= 0 || from < 0 || to < 0 {
		return nil, false
	}
	if !circular {
		if from >= to || to > n {
			return nil, false
		}
		for i := from; i < to; i++ {
			idx = append(idx, i)
		}
		return idx, true
	}
	var end int
	if from < to {
		if from >= 2*n || to-from > n { // positions are taken modulo n: a window of x+x+x when it starts in the second copy
			return nil, false
		}
		end = to
	} else {
		if from >= n {
			return nil, false
		}
		end = to + n
	}
	for i := from; i < end; i++ {
		idx = append(idx, i%n)
	}
	return idx, true
}

// Window extracts the window from x (nil when x is nil).
func Window(x []byte, idx []int) []byte {
	if x == nil {
		return nil
	}
	r := make([]byte, len(idx))
	for k, i := range idx {
		r[k] = x[i]
	}
	return r
}

// Mismatch is one entry of the "pairing_mismatches" annotation: at 1-based
// position Pos the two reads carried symbols A and B with scores QA and QB.
// The order of the two (symbol, score) items is not part of the reference.
type Mismatch struct {
	A, B   byte
	QA, QB int
	Pos    int
}

// Key renders the entry like obialign.BuildQualityConsensus does.
func (m Mismatch) Key() string {
	return fmt.Sprintf("(%c:%02d)->(%c:%02d)", m.A&^32, m.QA, m.B&^32, m.QB)
}

// Canon is the order- and case-insensitive identity of the two items of an entry.
func (m Mismatch) Canon() string {
	x := fmt.Sprintf("%c%02d", Lower(m.A), m.QA)
	y := fmt.Sprintf("%c%02d", Lower(m.B), m.QB)
	if x > y {
		x, y = y, x
	}
	return x + "/" + y
}

// ParseMismatchKey parses "(a:30)->(c:12)".
func ParseMismatchKey(k string) (m Mismatch, ok bool) {
	if len(k) != 14 || k[0] != '(' || k[2] != ':' || k[5] != ')' || k[6] != '-' || k[7] != '>' || k[8] != '(' || k[10] != ':' || k[13] != ')' {
		return m, false
	}
	qa, e1 := strconv.Atoi(k[3:5])
	qb, e2 := strconv.Atoi(k[11:13])
	if e1 != nil || e2 != nil {
		return m, false
	}
	return Mismatch{A: k[1], B: k[9], QA: qa, QB: qb}, true
}

// MismatchesRC is the coordinate transform of a reverse complement of a
// sequence of length n: position p becomes n-p+1 and both symbols are complemented.
func MismatchesRC(ms []Mismatch, n int) []Mismatch {
	r := make([]Mismatch, 0, len(ms))
	for _, m := range ms {
		r = append(r, Mismatch{A: Complement(m.A), B: Complement(m.B), QA: m.QA, QB: m.QB, Pos: n - m.Pos + 1})
	}
	return r
}

// MismatchesWindow is the coordinate transform of a window: an entry is kept
// iff its position is covered by the window, and gets the position it has there.
func MismatchesWindow(ms []Mismatch, idx []int) []Mismatch {
	at := map[int]int{}
	for k, i := range idx {
		at[i] = k + 1
	}
	r := make([]Mismatch, 0, len(ms))
	for _, m := range ms {
		if np, in := at[m.Pos-1]; in {
			m.Pos = np
			r = append(r, m)
		}
	}
	return r
}

// MismatchMap renders entries as the annotation value (map key -> position).
func MismatchMap(ms []Mismatch) map[string]int {
	r := make(map[string]int, len(ms))
	for _, m := range ms {
		r[m.Key()] = m.Pos
	}
	return r
}

// CanonMismatches turns an observed annotation value into canon -> position;
// ok is false when a key cannot be parsed or two keys collide.
func CanonMismatches(v map[string]int) (map[string]int, bool) {
	r := make(map[string]int, len(v))
	for k, p := range v {
		m, ok := ParseMismatchKey(k)
		if !ok {
			return nil, false
		}
		c := m.Canon()
		if _, dup := r[c]; dup {
			return nil, false
		}
		r[c] = p
	}
	return r, true
}

// CanonOf turns reference entries into canon -> position.
func CanonOf(ms []Mismatch) map[string]int {
	r := make(map[string]int, len(ms))
	for _, m := range ms {
		r[m.Canon()] = m.Pos
	}
	return r
}

// DiffMismatches compares an observed canon map with the expected one and
// returns the structural classes of the differences (sorted, distinct):
// "inside-dropped" (an expected entry is absent), "outside-kept" (an entry that
// should have disappeared is present), "wrong-position".
func DiffMismatches(got, want map[string]int) []string {
	set := map[string]bool{}
	for k, p := range want {
		g, ok := got[k]
		switch {
		case !ok:
			set["inside-dropped"] = true
		case g != p:
			set["wrong-position"] = true
		}
	}
	for k := range got {
		if _, ok := want[k]; !ok {
			set["outside-kept"] = true
		}
	}
	var r []string
	for k := range set {
		r = append(r, k)
	}
	sort.Strings(r)
	return r
}
