package ref

// Reference semantics of dereplication (DESIGN Appendix A.5, property C06).
//
// key(r)   = (lower-case sequence, printed value of every category attribute, NA when absent)
// count    = sum of count(r) (absent = 1)
// merged_k = sum over the records of the class of (merged_k map of r when present, else {value_k(r) or NA: count(r)})
// --no-singleton removes the classes whose total count is 1.

import (
	"sort"
	"strconv"
	"strings"
)

// C06Rec is one input record of a dereplication workload.
type C06Rec struct {
	ID    string
	Seq   string         // nucleotides as written in the input (any case)
	Count int            // 0 = the record carries no count attribute (it then counts for 1)
	Attrs map[string]any // string or int values; "merged_<k>" entries are map[string]int
}

// C06Opts are the options of the dereplication that change its result.
type C06Opts struct {
	Cats        []string // category attributes (-c), in command-line order
	Merge       []string // attributes to summarise (-m)
	NA          string   // value standing for a missing attribute
	NoSingleton bool
}

// C06Class is one expected output class.
type C06Class struct {
	Seq     string
	Cats    []string                  // printed category values (NA for missing)
	Count   int                       // total count
	Merged  map[string]map[string]int // per merge key: value -> summed weight
	Members int                       // number of input records in the class
	// structural features of the members, per merge key (used to classify a disagreement)
	Premerged map[string]bool // some member carried a merged_<k> map
	Missing   map[string]bool // some member had neither k nor merged_<k>
}

// C06Weight is the count a record stands for.
func (r *C06Rec) C06Weight() int {
	if r.Count <= 0 {
		return 1
	}
	return r.Count
}

// C06Print gives the printed form of an attribute value (string or integer).
func C06Print(v any) string {
	switch t := v.(type) {
	case string:
		return t
	case int:
		return strconv.Itoa(t)
	case float64: // integral values beyond the int64 range: all their digits
		return strconv.FormatFloat(t, 'f', -1, 64)
	}
	return ""
}

// C06Key builds the class key from a sequence and its printed category values.
func C06Key(seq string, cats []string) string {
	return strings.ToLower(seq) + "\x00" + strings.Join(cats, "\x00")
}

// C06CatValues returns the printed category values of a record.
func C06CatValues(r *C06Rec, o C06Opts) []string {
	vals := make([]string, len(o.Cats))
	for i, k := range o.Cats {
		if v, ok := r.Attrs[k]; ok {
			vals[i] = C06Print(v)
		} else {
			vals[i] = o.NA
		}
	}
	return vals
}

// C06Derep computes the expected classes. all holds every class; kept holds
// the classes that must be present in the output (all minus the singletons
// when NoSingleton is set).
func C06Derep(recs []C06Rec, o C06Opts) (all, kept map[string]*C06Class) {
	all = map[string]*C06Class{}
	for i := range recs {
		r := &recs[i]
		cats := C06CatValues(r, o)
		key := C06Key(r.Seq, cats)
		cl := all[key]
		if cl == nil {
			cl = &C06Class{Seq: strings.ToLower(r.Seq), Cats: cats, Merged: map[string]map[string]int{},
				Premerged: map[string]bool{}, Missing: map[string]bool{}}
			for _, k := range o.Merge {
				cl.Merged[k] = map[string]int{}
			}
			all[key] = cl
		}
		cl.Members++
		cl.Count += r.C06Weight()
		for _, k := range o.Merge {
			if m, ok := r.Attrs["merged_"+k].(map[string]int); ok {
				cl.Premerged[k] = true
				for v, w := range m {
					cl.Merged[k][v] += w
				}
				continue
			}
			// a descriptor "key:weight" sums the integer attribute `weight` (0 when absent) instead of the count
			attr, weight := k, r.C06Weight()
			if i := strings.IndexByte(k, ':'); i >= 0 {
				attr, weight = k[:i], 0
				if wv, ok := r.Attrs[k[i+1:]].(int); ok {
					weight = wv
				}
			}
			if v, ok := r.Attrs[attr]; ok {
				cl.Merged[k][C06Print(v)] += weight
			} else {
				cl.Missing[k] = true
				cl.Merged[k][o.NA] += weight
			}
		}
	}
	kept = map[string]*C06Class{}
	for k, cl := range all {
		if o.NoSingleton && cl.Count == 1 {
			continue
		}
		kept[k] = cl
	}
	return all, kept
}

// C06SortedKeys returns the keys of a class map in a fixed order.
func C06SortedKeys(m map[string]*C06Class) []string {
	ks := make([]string, 0, len(m))
	for k := range m {
		ks = append(ks, k)
	}
	sort.Strings(ks)
	return ks
}
