package ref

// Reference semantics of the approximate pattern matcher (property C10).
//
// A pattern is a list of positions. Every position admits a set of bases
// (IUPAC code, [..] class = union, '!' = complement of the set) and may be
// marked '#' (no mismatch allowed at this position). Sequences are over
// {a,c,g,t}. All oracles are deliberately naive (window scans, full DP
// matrices) and share no code and no table with the implementation under test.

import "strings"

// PatPos is one position of a pattern.
type PatPos struct {
	Letters string // IUPAC codes (lower case): one letter, or the content of a [..] class
	Class   bool   // written with brackets
	Neg     bool   // preceded by '!'
	Oblig   bool   // followed by '#'
}

// PatModel is a parsed pattern.
type PatModel []PatPos

// Admits tells whether position p admits the concrete base b (a,c,g,t).
func (p PatPos) Admits(b byte) bool {
	in := false
	for i := 0; i < len(p.Letters); i++ {
		if Includes(p.Letters[i], b) {
			in = true
			break
		}
	}
	return in != p.Neg
}

// AdmitSet returns the bases (subset of "acgt") admitted by the position.
func (p PatPos) AdmitSet() string {
	var sb strings.Builder
	for _, b := range []byte("acgt") {
		if p.Admits(b) {
			sb.WriteByte(b)
		}
	}
	return sb.String()
}

// Text renders the position in the pattern grammar (upper selects the case of the letters).
func (p PatPos) Text(upper bool) string {
	l := p.Letters
	if upper {
		l = strings.ToUpper(l)
	}
	s := l
	if p.Class {
		s = "[" + l + "]"
	}
	if p.Neg {
		s = "!" + s
	}
	if p.Oblig {
		s += "#"
	}
	return s
}

// Text renders the whole pattern.
func (m PatModel) Text(upper bool) string {
	var sb strings.Builder
	for _, p := range m {
		sb.WriteString(p.Text(upper))
	}
	return sb.String()
}

// Pure tells whether the pattern is a plain string of IUPAC codes (no class, '!' or '#').
func (m PatModel) Pure() bool {
	for _, p := range m {
		if p.Class || p.Neg || p.Oblig || len(p.Letters) != 1 {
			return false
		}
	}
	return true
}

// HasOblig tells whether some position is marked '#'.
func (m PatModel) HasOblig() bool {
	for _, p := range m {
		if p.Oblig {
			return true
		}
	}
	return false
}

// RevComp returns the model of the reverse-complemented pattern: positions in
// reverse order, every letter complemented, modifiers kept on their position.
func (m PatModel) RevComp() PatModel {
	r := make(PatModel, len(m))
	for i, p := range m {
		q := p
		l := []byte(p.Letters)
		for k := range l {
			l[k] = Complement(l[k])
		}
		q.Letters = string(l)
		r[len(m)-1-i] = q
	}
	return r
}

// Hit is one reported occurrence: seq[Start:End] with Err errors.
type Hit struct{ Start, End, Err int }

// WindowMismatches counts the mismatches of the pattern against seq[s:s+len(m)];
// ok is false when a position marked '#' mismatches.
func (m PatModel) WindowMismatches(seq []byte, s int) (n int, ok bool) {
	ok = true
	for i, p := range m {
		if !p.Admits(seq[s+i]) {
			n++
			if p.Oblig {
				ok = false
			}
		}
	}
	return n, ok
}

// MismatchHits lists every window lying entirely inside seq[lo:hi] that matches
// the pattern with at most k mismatches (none at a '#' position), by increasing start.
func (m PatModel) MismatchHits(seq []byte, k, lo, hi int) []Hit {
	var r []Hit
	if lo < 0 {
		lo = 0
	}
	if hi > len(seq) {
		hi = len(seq)
	}
	for s := lo; s+len(m) <= hi; s++ {
		if n, ok := m.WindowMismatches(seq, s); ok && n <= k {
			r = append(r, Hit{s, s + len(m), n})
		}
	}
	return r
}

// EditDistance is the Levenshtein distance between the pattern (positions are
// sets) and a concrete span.
func (m PatModel) EditDistance(span []byte) int {
	prev := make([]int, len(span)+1)
	cur := make([]int, len(span)+1)
	for j := range prev {
		prev[j] = j
	}
	for i := 1; i <= len(m); i++ {
		cur[0] = i
		for j := 1; j <= len(span); j++ {
			c := prev[j-1]
			if !m[i-1].Admits(span[j-1]) {
				c++
			}
			if prev[j]+1 < c {
				c = prev[j] + 1
			}
			if cur[j-1]+1 < c {
				c = cur[j-1] + 1
			}
			cur[j] = c
		}
		prev, cur = cur, prev
	}
	return prev[len(span)]
}

// EndDistances returns, for every e in 0..len(text), the minimum over s <= e of
// the edit distance between the pattern and text[s:e] (approximate string
// matching with a free start, Sellers' recurrence written as a full matrix).
func (m PatModel) EndDistances(text []byte) []int {
	rows := len(m) + 1
	cols := len(text) + 1
	d := make([][]int, rows)
	for i := range d {
		d[i] = make([]int, cols)
		d[i][0] = i
	}
	for j := 0; j < cols; j++ {
		d[0][j] = 0
	}
	for i := 1; i < rows; i++ {
		for j := 1; j < cols; j++ {
			c := d[i-1][j-1]
			if !m[i-1].Admits(text[j-1]) {
				c++
			}
			if v := d[i-1][j] + 1; v < c {
				c = v
			}
			if v := d[i][j-1] + 1; v < c {
				c = v
			}
			d[i][j] = c
		}
	}
	return d[rows-1]
}

// MinSubstringDistance is the smallest edit distance between the pattern and any
// substring of text (the empty substring included).
func (m PatModel) MinSubstringDistance(text []byte) int {
	best := len(m)
	for _, v := range m.EndDistances(text) {
		if v < best {
			best = v
		}
	}
	return best
}
