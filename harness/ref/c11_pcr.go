package ref

// Brute-force reference of the in-silico PCR (property C11).
//
// A primer is a string of IUPAC codes; a template is a string over a,c,g,t.
// A *site* of a primer P at position p is a window of len(P) template symbols
// (wrapping around the origin on a circular template) whose number of
// positions with  template base not in set(P[i])  is within the error budget.
//
// Forward orientation : site of F at p, site of revcomp(R) at q.
// Reverse orientation : site of R at p, site of revcomp(F) at q.
// In both orientations the segment between the two sites starts at p+len1 and
// stops at q; its length L must be >= 1 (touching / overlapping primers give
// nothing) and respect the min / max bounds (0 = no bound).

import (
	"fmt"
	"sort"
	"strings"
)

// PCRConfig is the option vector of one PCR simulation.
type PCRConfig struct {
	Forward  string `json:"forward"`
	Reverse  string `json:"reverse"`
	FwdErr   int    `json:"fwd_err"`
	RevErr   int    `json:"rev_err"`
	MinLen   int    `json:"min_len"` // 0 = no bound
	MaxLen   int    `json:"max_len"` // 0 = no bound
	Ext      int    `json:"ext"`     // -1 = no flanks (primers excluded); >=0: primers + Ext flanking symbols
	Full     bool   `json:"full"`    // only amplicons with complete flanks
	Circular bool   `json:"circular"`
}

// PCRRec is what the property fixes of one reported amplicon.
type PCRRec struct {
	Seq      string `json:"seq"`
	Dir      string `json:"direction"`
	FwdMatch string `json:"forward_match"`
	FwdErr   int    `json:"forward_error"`
	RevMatch string `json:"reverse_match"`
	RevErr   int    `json:"reverse_error"`
}

// Key renders the record as a comparable string.
func (r PCRRec) Key() string {
	return fmt.Sprintf("%s|%s|%s|%d|%s|%d", r.Dir, r.Seq, r.FwdMatch, r.FwdErr, r.RevMatch, r.RevErr)
}

// AnnotKey is the part of the record that identifies the pair of sites.
func (r PCRRec) AnnotKey() string {
	return fmt.Sprintf("%s|%s|%d|%s|%d", r.Dir, r.FwdMatch, r.FwdErr, r.RevMatch, r.RevErr)
}

// Status of a pair of sites.
const (
	PCRNone     = 0 // the pair defines no amplicon (L < 1, outside the bounds, incomplete flank with Full)
	PCRRequired = 1 // the property demands exactly this amplicon
	PCROptional = 2 // the property text does not pin the answer down (see Geo)
)

// PCRPair is one (first site, second site) pair of one orientation.
type PCRPair struct {
	Dir    string // forward | reverse
	P, Q   int    // start of the first / second site (template coordinates)
	E1, E2 int    // mismatches of the first / second site
	L      int    // length of the segment between the sites
	Status int
	Geo    string // geometry class, e.g. forward:linear, reverse:circ-wrap:ulen
	Why    string // for Status == PCRNone: touch-overlap | below-min | above-max | incomplete-flank
	Rec    PCRRec // the amplicon (also filled for PCRNone pairs when it can be built: used to classify spurious output)
	AltSeq string // FlankBeyondCircle only: the same amplicon cut modulo the circle length (also accepted)
	// CrashRisk: circular template with flanks, flank reaching before the origin.
	FlankBeforeOrigin bool
	FlankBeyondCircle bool // primers + segment + flanks longer than the circle
}

// Site is one occurrence of a primer.
type Site struct{ Pos, Err int }

// Mismatches counts the positions of the window starting at p (modulo len(t)) that the primer does not admit.
func Mismatches(primer string, t []byte, p int) int {
	n := 0
	N := len(t)
	for i := 0; i < len(primer); i++ {
		if !Includes(primer[i], t[(p+i)%N]) {
			n++
		}
	}
	return n
}

// Sites lists every site of primer on t within the budget.
func Sites(primer string, t []byte, budget int, circular bool) []Site {
	var r []Site
	N := len(t)
	m := len(primer)
	if m == 0 || N == 0 {
		return nil
	}
	last := N - m
	if circular {
		if m > N {
			return nil
		}
		last = N - 1
	}
	for p := 0; p <= last; p++ {
		if e := Mismatches(primer, t, p); e <= budget {
			r = append(r, Site{p, e})
		}
	}
	return r
}

// RevCompString is RevComp on strings (lower case).
func RevCompString(s string) string { return string(RevComp([]byte(strings.ToLower(s)))) }

// circSeg returns t[from..to) on the circle (from, to any integers, to-from in [0, len(t)]).
func circSeg(t []byte, from, to int) string {
	N := len(t)
	b := make([]byte, 0, to-from)
	for i := from; i < to; i++ {
		b = append(b, t[((i%N)+N)%N])
	}
	return string(b)
}

// PCRPairs enumerates every pair of sites of both orientations with its status.
func PCRPairs(t []byte, cfg PCRConfig) []PCRPair {
	N := len(t)
	F := strings.ToLower(cfg.Forward)
	R := strings.ToLower(cfg.Reverse)
	cF := RevCompString(F)
	cR := RevCompString(R)
	var out []PCRPair
	for _, dir := range []string{"forward", "reverse"} {
		p1, p2 := F, cR
		b1, b2 := cfg.FwdErr, cfg.RevErr
		if dir == "reverse" {
			p1, p2 = R, cF
			b1, b2 = cfg.RevErr, cfg.FwdErr
		}
		l1, l2 := len(p1), len(p2)
		s1 := Sites(p1, t, b1, cfg.Circular)
		s2 := Sites(p2, t, b2, cfg.Circular)
		for _, a := range s1 {
			for _, b := range s2 {
				pr := PCRPair{Dir: dir, P: a.Pos, Q: b.Pos, E1: a.Err, E2: b.Err}
				ulen := ""
				if l1 != l2 {
					ulen = ":ulen"
				}
				segFrom := a.Pos + l1
				var segTo int
				if !cfg.Circular {
					pr.L = b.Pos - segFrom
					segTo = b.Pos
					pr.Geo = dir + ":linear" + ulen
				} else {
					d := ((b.Pos-a.Pos)%N + N) % N
					pr.L = d - l1
					segTo = a.Pos + d
					switch {
					case pr.L >= 1 && d+l2 > N:
						pr.Geo = dir + ":circ-lap" + ulen
					case b.Pos < a.Pos:
						pr.Geo = dir + ":circ-wrap" + ulen
					default:
						pr.Geo = dir + ":circ-inner" + ulen
					}
				}
				pr.Status = PCRRequired
				switch {
				case pr.L < 1:
					pr.Status, pr.Why = PCRNone, "touch-overlap"
				case cfg.MinLen > 0 && pr.L < cfg.MinLen:
					pr.Status, pr.Why = PCRNone, "below-min"
				case cfg.MaxLen > 0 && pr.L > cfg.MaxLen:
					pr.Status, pr.Why = PCRNone, "above-max"
				}
				if pr.Status == PCRRequired && cfg.Circular && pr.L >= 1 && pr.L+l1+l2 > N {
					// the far end of the second site lies on the first site: whether that is
					// "a downstream match" on a circle is not fixed by the property
					pr.Status = PCROptional
				}
				from, to := segFrom, segTo
				if pr.L >= 1 {
					if cfg.Ext >= 0 {
						from = a.Pos - cfg.Ext
						to = segTo + l2 + cfg.Ext
						if !cfg.Circular {
							if cfg.Full {
								if from < 0 || to > N {
									if pr.Status != PCRNone {
										pr.Status, pr.Why = PCRNone, "incomplete-flank"
									}
								}
							}
							if from < 0 {
								from = 0
								pr.Geo += ":clipL"
							}
							if to > N {
								to = N
								pr.Geo += ":clipR"
							}
						} else {
							if from < 0 {
								pr.FlankBeforeOrigin = true
							}
							if to-from > N {
								pr.FlankBeyondCircle = true
								if pr.Status == PCRRequired {
									pr.Status = PCROptional
								}
								pr.AltSeq = circSeg(t, from, from+((to-from-1)%N+1))
								if dir == "reverse" {
									pr.AltSeq = RevCompString(pr.AltSeq)
								}
							}
						}
					}
					var seq, m1, m2 string
					if pr.Status != PCRNone || N <= 5000 { // the sequence of a pair that defines no amplicon only serves to classify spurious output
						if cfg.Circular {
							seq = circSeg(t, from, to)
						} else {
							seq = string(t[from:to])
						}
					}
					m1 = circSeg(t, a.Pos, a.Pos+l1)
					m2 = circSeg(t, b.Pos, b.Pos+l2)
					if dir == "forward" {
						pr.Rec = PCRRec{Seq: seq, Dir: dir, FwdMatch: m1, FwdErr: a.Err, RevMatch: RevCompString(m2), RevErr: b.Err}
					} else {
						pr.Rec = PCRRec{Seq: RevCompString(seq), Dir: dir, FwdMatch: RevCompString(m2), FwdErr: b.Err, RevMatch: m1, RevErr: a.Err}
					}
				} else {
					m1 := circSeg(t, a.Pos, a.Pos+l1)
					m2 := circSeg(t, b.Pos, b.Pos+l2)
					// touching / overlapping sites define no amplicon; on a circle the way round from the end of
					// the first site to the start of the second one is kept, only to attribute spurious output
					arc := ""
					if cfg.Circular && N <= 5000 {
						f, e := segFrom, b.Pos
						if cfg.Ext >= 0 {
							f, e = a.Pos-cfg.Ext, b.Pos+l2+cfg.Ext
						}
						n := ((e-f-1)%N+N)%N + 1 // what a circular sub-sequence from f to e holds
						arc = circSeg(t, f, f+n)
					}
					if dir == "forward" {
						pr.Rec = PCRRec{Seq: arc, Dir: dir, FwdMatch: m1, FwdErr: a.Err, RevMatch: RevCompString(m2), RevErr: b.Err}
					} else {
						pr.Rec = PCRRec{Seq: RevCompString(arc), Dir: dir, FwdMatch: RevCompString(m2), FwdErr: b.Err, RevMatch: m1, RevErr: a.Err}
					}
				}
				out = append(out, pr)
			}
		}
	}
	return out
}

// PCRDeviation is one disagreement between observed records and the reference.
type PCRDeviation struct {
	Cause    string  `json:"cause"`
	Observed *PCRRec `json:"observed,omitempty"`
	Expected *PCRRec `json:"expected,omitempty"`
	Pair     string  `json:"pair,omitempty"`
}

// PCRCompare compares the observed multiset with the reference pairs.
// asSet: duplicates are ignored on both sides.
func PCRCompare(obs []PCRRec, pairs []PCRPair, asSet bool) []PCRDeviation {
	req := map[string]int{}
	opt := map[string]int{}
	reqPair := map[string][]*PCRPair{}
	for i := range pairs {
		p := &pairs[i]
		k := p.Rec.Key()
		switch p.Status {
		case PCRRequired:
			reqPair[k] = append(reqPair[k], p)
			if asSet && req[k] > 0 {
				continue
			}
			req[k]++
		case PCROptional:
			opt[k]++
		}
	}
	byAnnot := map[string][]*PCRPair{}
	for i := range pairs {
		p := &pairs[i]
		byAnnot[p.Rec.AnnotKey()] = append(byAnnot[p.Rec.AnnotKey()], p)
		if p.Status == PCROptional && p.AltSeq != "" {
			// flanks running further than once around the circle: the amplicon cut modulo the circle is accepted too
			alt := p.Rec
			alt.Seq = p.AltSeq
			opt[alt.Key()]++
		}
	}
	seen := map[string]int{}
	var extraObs []PCRRec
	for _, o := range obs {
		k := o.Key()
		seen[k]++
		if asSet {
			if seen[k] > 1 {
				continue
			}
			if req[k] == 0 && opt[k] == 0 {
				extraObs = append(extraObs, o)
			}
			continue
		}
		if seen[k] > req[k]+opt[k] {
			extraObs = append(extraObs, o)
		}
	}
	var missing []*PCRPair
	var keys []string
	for k := range req {
		keys = append(keys, k)
	}
	sort.Strings(keys)
	for _, k := range keys {
		// identical records of several pairs: which one is missing cannot be told; same attribution order as for spurious output
		cands := append([]*PCRPair{}, reqPair[k]...)
		sort.SliceStable(cands, func(i, j int) bool { return geoRank(cands[i].Geo) > geoRank(cands[j].Geo) })
		for n := seen[k]; n < req[k]; n++ {
			missing = append(missing, cands[min(n-seen[k], len(cands)-1)])
		}
	}
	var devs []PCRDeviation
	usedMissing := make([]bool, len(missing))
	for i := range extraObs {
		o := extraObs[i]
		// (1) same annotations as a missing amplicon, other sequence
		found := false
		for j, m := range missing {
			if !usedMissing[j] && m.Rec.AnnotKey() == o.AnnotKey() && len(byAnnot[o.AnnotKey()]) == 1 {
				usedMissing[j] = true
				e := m.Rec
				devs = append(devs, PCRDeviation{Cause: "sequence:" + m.Geo, Observed: &extraObs[i], Expected: &e, Pair: pairString(m)})
				found = true
				break
			}
		}
		if found {
			continue
		}
		// (2) same sequence and direction as a missing amplicon, one annotation differs
		for j, m := range missing {
			if !usedMissing[j] && m.Rec.Seq == o.Seq && m.Rec.Dir == o.Dir {
				usedMissing[j] = true
				e := m.Rec
				key := "forward_match"
				switch {
				case e.FwdMatch != o.FwdMatch:
				case e.FwdErr != o.FwdErr:
					key = "forward_error"
				case e.RevMatch != o.RevMatch:
					key = "reverse_match"
				default:
					key = "reverse_error"
				}
				devs = append(devs, PCRDeviation{Cause: "annotation:" + key, Observed: &extraObs[i], Expected: &e, Pair: pairString(m)})
				found = true
				break
			}
		}
		if found {
			continue
		}
		// (3) same sequence, opposite direction
		for j, m := range missing {
			if !usedMissing[j] && m.Rec.Seq == o.Seq && m.Rec.FwdMatch == o.FwdMatch && m.Rec.RevMatch == o.RevMatch {
				usedMissing[j] = true
				e := m.Rec
				devs = append(devs, PCRDeviation{Cause: "annotation:direction", Observed: &extraObs[i], Expected: &e, Pair: pairString(m)})
				found = true
				break
			}
		}
		if found {
			continue
		}
		// (4) spurious: which pair of sites does it claim?
		cause := "spurious:no-such-pair-of-sites"
		pair := ""
		best := -1
		for _, p := range byAnnot[o.AnnotKey()] {
			score := 0
			if p.Status == PCRNone {
				score = 2
				if p.Rec.Seq != "" && p.Rec.Seq == o.Seq {
					score = 3
				}
			} else if p.Rec.Seq == o.Seq {
				score = 1
			}
			// several pairs can explain the same record (repeated sites): the attribution goes, among the
			// best explanations, to the pair whose segment crosses the origin, then to the overlapping geometry
			score = score*10 + geoRank(p.Geo)
			if score > best {
				best = score
				pair = pairString(p)
				if p.Status == PCRNone {
					cause = "spurious:" + p.Geo
				} else {
					cause = "spurious:duplicate:" + p.Geo
				}
			}
		}
		devs = append(devs, PCRDeviation{Cause: cause, Observed: &extraObs[i], Pair: pair})
	}
	for j, m := range missing {
		if !usedMissing[j] {
			e := m.Rec
			devs = append(devs, PCRDeviation{Cause: "missing:" + m.Geo, Expected: &e, Pair: pairString(m)})
		}
	}
	return devs
}

func pairString(p *PCRPair) string {
	return fmt.Sprintf("%s first-site@%d(err %d) second-site@%d(err %d) L=%d %s", p.Dir, p.P, p.E1, p.Q, p.E2, p.L, p.Why)
}

func geoRank(geo string) int {
	switch {
	case strings.Contains(geo, "circ-wrap"):
		return 3
	case strings.Contains(geo, "circ-lap"):
		return 2
	case strings.Contains(geo, "circ-inner"):
		return 1
	}
	return 0
}
