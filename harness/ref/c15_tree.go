package ref

// Tree is a rooted tree given as a parent array over node indexes 0..n-1
// (the root is its own parent). It is the harness's own reference for
// ancestor / LCA questions (C15): nothing of pkg/obitax is used.
type Tree struct {
	Parent []int
	Depth  []int
}

// NewTree computes the depths; it returns nil when the parent array is not a
// tree with exactly one self-parented root reachable from every node.
func NewTree(parent []int) *Tree {
	n := len(parent)
	t := &Tree{Parent: append([]int{}, parent...), Depth: make([]int, n)}
	roots := 0
	for i := range parent {
		if parent[i] < 0 || parent[i] >= n {
			return nil
		}
		if parent[i] == i {
			roots++
		}
	}
	if roots != 1 {
		return nil
	}
	for i := 0; i < n; i++ {
		d, x := 0, i
		for t.Parent[x] != x {
			x = t.Parent[x]
			d++
			if d > n {
				return nil // cycle
			}
		}
		t.Depth[i] = d
	}
	return t
}

// LCA returns the lowest common ancestor of nodes a and b.
func (t *Tree) LCA(a, b int) int {
	for t.Depth[a] > t.Depth[b] {
		a = t.Parent[a]
	}
	for t.Depth[b] > t.Depth[a] {
		b = t.Parent[b]
	}
	for a != b {
		a = t.Parent[a]
		b = t.Parent[b]
	}
	return a
}

// LCAOf returns the lowest common ancestor of a non-empty list of nodes.
func (t *Tree) LCAOf(nodes []int) int {
	l := nodes[0]
	for _, x := range nodes[1:] {
		l = t.LCA(l, x)
	}
	return l
}

// IsAncestorOrSelf tells whether anc lies on the path from x to the root.
func (t *Tree) IsAncestorOrSelf(anc, x int) bool {
	for {
		if x == anc {
			return true
		}
		if t.Parent[x] == x {
			return false
		}
		x = t.Parent[x]
	}
}

// LCSDistance is the distance used by the assignment search of obitag:
// number of columns of the shortest alignment achieving the maximal LCS,
// minus the LCS length (exact byte equality of lower-case a,c,g,t).
func LCSDistance(a, b []byte) int {
	lcs, ali := LCS(a, b, func(x, y byte) bool { return x == y })
	return ali - lcs
}

// Common4mers is the size of the multiset intersection of the 4-letter words
// of a and b (plain byte words; only used to describe failing cases).
func Common4mers(a, b []byte) int {
	ca := map[string]int{}
	for i := 0; i+4 <= len(a); i++ {
		ca[string(a[i:i+4])]++
	}
	n := 0
	for i := 0; i+4 <= len(b); i++ {
		w := string(b[i : i+4])
		if ca[w] > 0 {
			ca[w]--
			n++
		}
	}
	return n
}
