// Package ref holds the deliberately naive reference implementations used as oracles.
package ref

import "strings"

// IupacSets gives, for every IUPAC nucleotide code (lower case), the bases it stands for.
var IupacSets = map[byte]string{
	'a': "a", 'c': "c", 'g': "g", 't': "t", 'u': "t",
	'r': "ag", 'y': "ct", 's': "cg", 'w': "at", 'k': "gt", 'm': "ac",
	'b': "cgt", 'd': "agt", 'h': "act", 'v': "acg", 'n': "acgt",
}

// IupacCodes lists the codes in a fixed order.
const IupacCodes = "acgturyswkmbdhvn"

// Lower returns the ASCII lower case of c.
func Lower(c byte) byte {
	if c >= 'A' && c <= 'Z' {
		return c | 32
	}
	return c
}

// Compatible tells whether two IUPAC codes share at least one base (case-insensitive);
// symbols outside the alphabet match only themselves.
func Compatible(x, y byte) bool {
	x, y = Lower(x), Lower(y)
	sx, okx := IupacSets[x]
	sy, oky := IupacSets[y]
	if !okx || !oky {
		return x == y
	}
	return strings.ContainsAny(sx, sy)
}

// Includes tells whether code p (pattern side) admits the concrete base b.
func Includes(p, b byte) bool {
	sp, ok := IupacSets[Lower(p)]
	if !ok {
		return Lower(p) == Lower(b)
	}
	return strings.IndexByte(sp, Lower(b)) >= 0
}

// complement table for the whole alphabet of obiseq (IUPAC + . - [ ])
var compl = map[byte]byte{
	'a': 't', 'c': 'g', 'g': 'c', 't': 'a', 'u': 'a',
	'r': 'y', 'y': 'r', 's': 's', 'w': 'w', 'k': 'm', 'm': 'k',
	'b': 'v', 'v': 'b', 'd': 'h', 'h': 'd', 'n': 'n',
	'.': '.', '-': '-', '[': ']', ']': '[',
}

// Complement returns the complement of one (lower-case) symbol; unknown symbols give 'n'.
func Complement(c byte) byte {
	if r, ok := compl[Lower(c)]; ok {
		return r
	}
	return 'n'
}

// RevComp returns the reverse complement of s (result in lower case).
func RevComp(s []byte) []byte {
	r := make([]byte, len(s))
	for i, c := range s {
		r[len(s)-1-i] = Complement(c)
	}
	return r
}

// LCS returns the length of the longest common subsequence of a and b under
// the compatibility relation same, and the length of the shortest alignment
// (number of columns: matches + mismatches + gaps) achieving it.
func LCS(a, b []byte, same func(x, y byte) bool) (lcs, alilen int) {
	type cell struct{ s, l int }
	better := func(x, y cell) bool { // x better than y
		if x.s != y.s {
			return x.s > y.s
		}
		return x.l < y.l
	}
	prev := make([]cell, len(b)+1)
	cur := make([]cell, len(b)+1)
	for j := range prev {
		prev[j] = cell{0, j}
	}
	for i := 1; i <= len(a); i++ {
		cur[0] = cell{0, i}
		for j := 1; j <= len(b); j++ {
			d := prev[j-1]
			d.l++
			if same(a[i-1], b[j-1]) {
				d.s++
			}
			u := prev[j]
			u.l++
			l := cur[j-1]
			l.l++
			best := d
			if better(u, best) {
				best = u
			}
			if better(l, best) {
				best = l
			}
			cur[j] = best
		}
		prev, cur = cur, prev
	}
	return prev[len(b)].s, prev[len(b)].l
}

// EditDistance is the Levenshtein distance under exact (byte) equality.
func EditDistance(a, b []byte) int {
	return EditDistanceF(a, b, func(x, y byte) bool { return x == y })
}

// EditDistanceF is the Levenshtein distance under a match relation.
func EditDistanceF(a, b []byte, same func(x, y byte) bool) int {
	prev := make([]int, len(b)+1)
	cur := make([]int, len(b)+1)
	for j := range prev {
		prev[j] = j
	}
	for i := 1; i <= len(a); i++ {
		cur[0] = i
		for j := 1; j <= len(b); j++ {
			c := prev[j-1]
			if !same(a[i-1], b[j-1]) {
				c++
			}
			if prev[j]+1 < c {
				c = prev[j] + 1
			}
			if cur[j-1]+1 < c {
				c = cur[j-1] + 1
			}
			cur[j] = c
		}
		prev, cur = cur, prev
	}
	return prev[len(b)]
}

// Hamming counts the mismatching positions of two equally long strings (-1 when lengths differ).
func Hamming(a, b []byte) int {
	if len(a) != len(b) {
		return -1
	}
	n := 0
	for i := range a {
		if a[i] != b[i] {
			n++
		}
	}
	return n
}

// LCSBanded is LCS restricted to the cells with |i-j| <= band. It equals LCS whenever an optimal
// alignment stays inside the band, which holds when band >= (len difference) + number of
// differences of some alignment (an alignment leaving the band loses more matches than that one).
func LCSBanded(a, b []byte, band int, same func(x, y byte) bool) (lcs, alilen int) {
	type cell struct{ s, l int }
	const none = -1 << 30
	better := func(x, y cell) bool {
		if x.s != y.s {
			return x.s > y.s
		}
		return x.l < y.l
	}
	w := 2*band + 1
	// row i holds columns j in [i-band, i+band]; index k = j - i + band
	prev := make([]cell, w+2)
	cur := make([]cell, w+2)
	for k := range prev {
		prev[k] = cell{none, 0}
	}
	for j := 0; j <= band && j <= len(b); j++ {
		prev[j+band] = cell{0, j}
	}
	for i := 1; i <= len(a); i++ {
		for k := range cur {
			cur[k] = cell{none, 0}
		}
		for k := 0; k < w; k++ {
			j := i - band + k
			if j < 0 || j > len(b) {
				continue
			}
			if j == 0 {
				cur[k] = cell{0, i}
				continue
			}
			best := cell{none, 0}
			// diagonal: (i-1, j-1) has the same k in the previous row
			if d := prev[k]; d.s != none {
				d.l++
				if same(a[i-1], b[j-1]) {
					d.s++
				}
				best = d
			}
			// up: (i-1, j) is k+1 in the previous row
			if k+1 < w {
				if u := prev[k+1]; u.s != none {
					u.l++
					if best.s == none || better(u, best) {
						best = u
					}
				}
			}
			// left: (i, j-1) is k-1 in the current row
			if k-1 >= 0 {
				if l := cur[k-1]; l.s != none {
					l.l++
					if best.s == none || better(l, best) {
						best = l
					}
				}
			}
			cur[k] = best
		}
		prev, cur = cur, prev
	}
	k := len(b) - len(a) + band
	if k < 0 || k >= w || prev[k].s == none {
		return -1, -1
	}
	return prev[k].s, prev[k].l
}
