package ref

// Reference (string-level, deliberately naive) semantics of k-mers used by the
// oracle of property C19: dictionary counting with IUPAC expansion, the node
// centric De Bruijn graph on strings, canonical k-mers and 4-mer tables.

import (
	"sort"
	"strings"
)

// BaseSet returns the bases (over acgt) a lower-case symbol stands for ("" = not a nucleotide code).
func BaseSet(c byte) string { return IupacSets[c] }

// IsPlainBase tells whether the symbol stands for exactly one base (a c g t u).
func IsPlainBase(c byte) bool { return len(IupacSets[c]) == 1 }

// Expand returns every word over acgt compatible with the window (nil if a
// symbol is not an IUPAC code). 'u' reads as 't'.
func Expand(window []byte) []string {
	out := []string{""}
	for _, c := range window {
		set := IupacSets[c]
		if set == "" {
			return nil
		}
		next := make([]string, 0, len(out)*len(set))
		for _, p := range out {
			for i := 0; i < len(set); i++ {
				next = append(next, p+string(set[i]))
			}
		}
		out = next
	}
	return out
}

// KmerWeights is the dictionary of the property: for every word x of length k,
// sum over the sequences of count x (number of windows of the sequence that x
// is an expansion of). A sequence shorter than k has no window.
func KmerWeights(seqs [][]byte, counts []int, k int) map[string]int {
	w := map[string]int{}
	for si, s := range seqs {
		for i := 0; i+k <= len(s); i++ {
			for _, x := range Expand(s[i : i+k]) {
				w[x] += counts[si]
			}
		}
	}
	return w
}

// EncodeKmer packs a word over acgt, 2 bits per base (a=0 c=1 g=2 t=3), first base most significant.
func EncodeKmer(x string) uint64 {
	var v uint64
	for i := 0; i < len(x); i++ {
		v = v<<2 | uint64(strings.IndexByte("acgt", x[i]))
	}
	return v
}

// DecodeKmer is the inverse of EncodeKmer for words of length k; ok is false
// when v has bits above the 2k lowest ones.
func DecodeKmer(v uint64, k int) (x string, ok bool) {
	b := make([]byte, k)
	for i := k - 1; i >= 0; i-- {
		b[i] = "acgt"[v&3]
		v >>= 2
	}
	return string(b), v == 0
}

// EncodeWide packs a word over acgt into limbs (most significant limb first), 2 bits per base.
func EncodeWide(x string, limbs int) []uint64 {
	l := make([]uint64, limbs)
	for i := 0; i < len(x); i++ {
		// shift the whole number left by 2
		for j := 0; j < limbs; j++ {
			l[j] <<= 2
			if j+1 < limbs {
				l[j] |= l[j+1] >> 62
			}
		}
		l[limbs-1] |= uint64(strings.IndexByte("acgt", x[i]))
	}
	return l
}

// DBG is the node-centric De Bruijn graph on strings: the nodes are the words,
// there is an edge x -> y iff the last k-1 letters of x are the first k-1 of y.
type DBG struct {
	K     int
	W     map[string]int
	Nodes []string // sorted
}

// NewDBG builds the graph of a weight dictionary (all words have length k).
func NewDBG(k int, w map[string]int) *DBG {
	g := &DBG{K: k, W: w}
	for x := range w {
		g.Nodes = append(g.Nodes, x)
	}
	sort.Strings(g.Nodes)
	return g
}

// Succ lists the successors of x (sorted).
func (g *DBG) Succ(x string) []string {
	var r []string
	for i := 0; i < 4; i++ {
		y := x[1:] + string("acgt"[i])
		if _, ok := g.W[y]; ok {
			r = append(r, y)
		}
	}
	return r
}

// Pred lists the predecessors of x (sorted).
func (g *DBG) Pred(x string) []string {
	var r []string
	for i := 0; i < 4; i++ {
		y := string("acgt"[i]) + x[:len(x)-1]
		if _, ok := g.W[y]; ok {
			r = append(r, y)
		}
	}
	return r
}

// IsEdge tells whether x -> y is an edge (both must be nodes).
func (g *DBG) IsEdge(x, y string) bool {
	_, okx := g.W[x]
	_, oky := g.W[y]
	return okx && oky && x[1:] == y[:len(y)-1]
}

// Sources lists the nodes without predecessor (sorted).
func (g *DBG) Sources() []string {
	var r []string
	for _, x := range g.Nodes {
		if len(g.Pred(x)) == 0 {
			r = append(r, x)
		}
	}
	return r
}

// TopoOrder returns a topological order of the nodes (Kahn); ok is false iff the graph has a cycle.
func (g *DBG) TopoOrder() (order []string, ok bool) {
	indeg := make(map[string]int, len(g.Nodes))
	var queue []string
	for _, x := range g.Nodes {
		d := len(g.Pred(x))
		indeg[x] = d
		if d == 0 {
			queue = append(queue, x)
		}
	}
	for len(queue) > 0 {
		x := queue[0]
		queue = queue[1:]
		order = append(order, x)
		for _, y := range g.Succ(x) {
			indeg[y]--
			if indeg[y] == 0 {
				queue = append(queue, y)
			}
		}
	}
	return order, len(order) == len(g.Nodes)
}

// MaxWalkWeight returns the maximal total node weight of a walk of an acyclic
// graph that starts at a source node (dynamic programming in topological
// order); ok is false when the graph is cyclic or empty.
func (g *DBG) MaxWalkWeight() (best int, ok bool) {
	order, acyclic := g.TopoOrder()
	if !acyclic || len(order) == 0 {
		return 0, false
	}
	dist := make(map[string]int, len(order))
	for _, x := range order {
		d := 0
		for _, p := range g.Pred(x) {
			if dist[p] > d {
				d = dist[p]
			}
		}
		// a node without predecessor starts a walk; every other node is only
		// reached through a walk that started at a source (acyclic graph)
		dist[x] = d + g.W[x]
		if dist[x] > best {
			best = dist[x]
		}
	}
	return best, true
}

// MaxWalkWeightExhaustive enumerates every walk from every source (depth
// first) and returns the maximal total weight; it gives up (ok=false) after
// limit walk extensions. Only meaningful on acyclic graphs.
func (g *DBG) MaxWalkWeightExhaustive(limit int) (best int, ok bool) {
	steps := 0
	var rec func(x string, acc int) bool
	rec = func(x string, acc int) bool {
		steps++
		if steps > limit {
			return false
		}
		acc += g.W[x]
		if acc > best {
			best = acc
		}
		for _, y := range g.Succ(x) {
			if !rec(y, acc) {
				return false
			}
		}
		return true
	}
	for _, s := range g.Sources() {
		if !rec(s, 0) {
			return 0, false
		}
	}
	return best, true
}

// HasRepeatedWord tells whether some word of length n occurs twice in s.
func HasRepeatedWord(s []byte, n int) bool {
	if n <= 0 {
		return len(s) > 0
	}
	seen := map[string]bool{}
	for i := 0; i+n <= len(s); i++ {
		x := string(s[i : i+n])
		if seen[x] {
			return true
		}
		seen[x] = true
	}
	return false
}

// plain maps u to t (k-mers are over acgt).
func plain(w []byte) string {
	b := make([]byte, len(w))
	for i, c := range w {
		if c == 'u' {
			c = 't'
		}
		b[i] = c
	}
	return string(b)
}

// CanonWindow describes one window of a sequence made of plain bases only.
type CanonWindow struct {
	Pos    int    // start of the window in the sequence
	Fw, Rc string // the word and its reverse complement (centre removed in sparse mode)
	Canon  string // the smaller of both
	Shown  string // Canon rendered on k letters ('#' at the centre in sparse mode)
	RunPos int    // number of plain bases immediately preceding the window (same unambiguous run)
}

// CanonicalWindows lists, in order, the windows of length k of s that contain
// plain bases only, with their canonical form: the smaller (a<c<g<t, letter by
// letter) of the word and its reverse complement; in sparse mode (k odd) the
// central letter (index k/2) of both is ignored.
func CanonicalWindows(s []byte, k int, sparse bool) []CanonWindow {
	var out []CanonWindow
	run := 0 // length of the current run of plain bases ending at i
	for i := 0; i < len(s); i++ {
		if IsPlainBase(s[i]) {
			run++
		} else {
			run = 0
		}
		if run < k {
			continue
		}
		start := i - k + 1
		fw := plain(s[start : i+1])
		rc := string(RevComp([]byte(fw)))
		shownOf := func(x string) string { return x }
		if sparse {
			c := k / 2
			fw = fw[:c] + fw[c+1:]
			rc = rc[:c] + rc[c+1:]
			shownOf = func(x string) string { return x[:c] + "#" + x[c:] }
		}
		canon := fw
		if rc < fw {
			canon = rc
		}
		out = append(out, CanonWindow{Pos: start, Fw: fw, Rc: rc, Canon: canon, Shown: shownOf(canon), RunPos: run - k})
	}
	return out
}

// Fourmers returns the 4-mer codes of s in order (2 bits per base, first base
// most significant); every symbol other than a c g t u counts as 'a', as the
// documentation of Encode4mer states.
func Fourmers(s []byte) []int {
	code := func(c byte) int {
		switch Lower(c) {
		case 'c':
			return 1
		case 'g':
			return 2
		case 't', 'u':
			return 3
		}
		return 0
	}
	var out []int
	for i := 0; i+4 <= len(s); i++ {
		out = append(out, code(s[i])<<6|code(s[i+1])<<4|code(s[i+2])<<2|code(s[i+3]))
	}
	return out
}
