package ref

// Reference semantics of the paired-end aligner (property C08), written from
// the documentation of pkg/obialign (comments of pairedendalign.go, formulas
// of dnamatrix.go, doc comment of BuildQualityConsensus), not from its loops.
//
// Scheme (A spans lines, B spans columns):
//   left  alignment: gaps at the beginning of B and at the end of A are free,
//                    i.e. consuming A while no symbol of B has been consumed
//                    costs nothing, consuming B once A is exhausted costs nothing;
//   right alignment: gaps at the beginning of A and at the end of B are free,
//                    i.e. consuming B while no symbol of A has been consumed
//                    costs nothing, consuming A once B is exhausted costs nothing;
//   every other unpaired symbol costs the gap penalty
//                    int(scale*gap*mismatch[40][40] + 0.5);
//   a paired column costs the per-quality match score, the scaled per-quality
//   mismatch score, or their mixture weighted by the IUPAC match ratio.
//
// A path is a list of (indel, diagonal) pairs: indel < 0 consumes -indel
// symbols of A, indel > 0 consumes indel symbols of B, diagonal >= 0 consumes
// that many symbols of both.

import (
	"fmt"
	"math"
)

// PETables are the per-quality score tables (data handed over by the harness).
type PETables struct {
	Match    [100][100]int
	Mismatch [100][100]int
}

// PEPartMatch is the IUPAC match ratio |Sa ∩ Sb| / |Sa| / |Sb| (0 for non-nucleotides).
func PEPartMatch(a, b byte) float64 {
	sa, oka := IupacSets[Lower(a)]
	sb, okb := IupacSets[Lower(b)]
	if !oka || !okb {
		return 0
	}
	cm := 0
	for i := 0; i < len(sa); i++ {
		for j := 0; j < len(sb); j++ {
			if sa[i] == sb[j] {
				cm++
			}
		}
	}
	if cm == 0 {
		return 0
	}
	return float64(cm) / float64(len(sa)) / float64(len(sb))
}

// Column is the score of one paired column.
func (t *PETables) Column(a, qa, b, qb byte, scale float64) int {
	pm := PEPartMatch(a, b)
	mm := t.Match[qa][qb]
	mi := t.Mismatch[qa][qb]
	switch {
	case pm == 1:
		return mm
	case pm == 0:
		return int(float64(mi)*scale + 0.5)
	}
	return int(pm*float64(mm) + (1-pm)*float64(mi)*scale + 0.5)
}

// GapPenalty is the cost of one unpaired symbol that is not a free end gap.
func (t *PETables) GapPenalty(gap, scale float64) int {
	return int(scale*gap*float64(t.Mismatch[40][40]) + 0.5)
}

// PEOptimum returns the optimal score of the left or right end-gap-free
// alignment of (a,qa) and (b,qb): plain O(nm) dynamic program over prefix lengths.
func (t *PETables) PEOptimum(a, qa, b, qb []byte, gap, scale float64, left bool) int {
	la, lb := len(a), len(b)
	g := t.GapPenalty(gap, scale)
	prev := make([]int, lb+1)
	cur := make([]int, lb+1)
	// no symbol of A consumed
	for j := 0; j <= lb; j++ {
		if left {
			prev[j] = j * g // B before A begins: charged
		} else {
			prev[j] = 0 // B before A begins: free
		}
	}
	for i := 1; i <= la; i++ {
		if left {
			cur[0] = 0 // A before B begins: free
		} else {
			cur[0] = i * g
		}
		for j := 1; j <= lb; j++ {
			best := prev[j-1] + t.Column(a[i-1], qa[i-1], b[j-1], qb[j-1], scale)
			// consume a[i-1] alone (B has j symbols consumed)
			ca := g
			if !left && j == lb {
				ca = 0
			}
			if v := prev[j] + ca; v > best {
				best = v
			}
			// consume b[j-1] alone (A has i symbols consumed)
			cb := g
			if left && i == la {
				cb = 0
			}
			if v := cur[j-1] + cb; v > best {
				best = v
			}
			cur[j] = best
		}
		prev, cur = cur, prev
	}
	return prev[lb]
}

// PEPathCheck verifies the structure of a path for reads of length la and lb.
// It returns "" when the path is well formed, else a short structural class.
func PEPathCheck(path []int, la, lb int) (class string, consumedA, consumedB, columns int) {
	if len(path) == 0 {
		return "empty", 0, 0, 0
	}
	if len(path)%2 != 0 {
		return "odd-length", 0, 0, 0
	}
	for k := 0; k < len(path); k += 2 {
		ind, dia := path[k], path[k+1]
		if dia < 0 {
			return "negative-diagonal", consumedA, consumedB, columns
		}
		if ind < 0 {
			consumedA -= ind
			columns -= ind
		} else {
			consumedB += ind
			columns += ind
		}
		consumedA += dia
		consumedB += dia
		columns += dia
		if consumedA > la || consumedB > lb {
			return "overrun", consumedA, consumedB, columns
		}
	}
	if consumedA != la || consumedB != lb {
		return "consumption", consumedA, consumedB, columns
	}
	return "", consumedA, consumedB, columns
}

// PEColumn is one column of the alignment described by a path: index in A and
// in B of the symbols it holds (-1 = gap).
type PEColumn struct{ IA, IB int }

// PEColumns expands a well-formed path into its columns.
func PEColumns(path []int) []PEColumn {
	var cols []PEColumn
	ia, ib := 0, 0
	for k := 0; k+1 < len(path); k += 2 {
		ind, dia := path[k], path[k+1]
		for ; ind < 0; ind++ {
			cols = append(cols, PEColumn{ia, -1})
			ia++
		}
		for ; ind > 0; ind-- {
			cols = append(cols, PEColumn{-1, ib})
			ib++
		}
		for ; dia > 0; dia-- {
			cols = append(cols, PEColumn{ia, ib})
			ia++
			ib++
		}
	}
	return cols
}

// PEPathScore recomputes the score of a well-formed path under the left or
// right scheme. nGaps returns the number of charged unpaired symbols.
func (t *PETables) PEPathScore(a, qa, b, qb []byte, path []int, gap, scale float64, left bool) (score, charged int) {
	g := t.GapPenalty(gap, scale)
	la, lb := len(a), len(b)
	ia, ib := 0, 0 // symbols consumed so far
	for _, c := range PEColumns(path) {
		switch {
		case c.IB < 0: // A alone
			free := (left && ib == 0) || (!left && ib == lb)
			if !free {
				score += g
				charged++
			}
			ia++
		case c.IA < 0: // B alone
			free := (left && ia == la) || (!left && ia == 0)
			if !free {
				score += g
				charged++
			}
			ib++
		default:
			score += t.Column(a[c.IA], qa[c.IA], b[c.IB], qb[c.IB], scale)
			ia++
			ib++
		}
	}
	return score, charged
}

// PEFormulaScores gives, from the probabilistic model documented in
// dnamatrix.go and evaluated in plain probability space, ten times the log
// ratio (against the uniform model, 1/4) of "the two reads hold the same base"
// when a match (mm) resp. a mismatch (mi) is observed at qualities qa, qb.
// The error probability of a read is 10^(-q/10), spread evenly over the three
// other bases.
func PEFormulaScores(qa, qb int) (mm, mi float64) {
	e1 := math.Pow(10, -float64(qa)/10)
	e2 := math.Pow(10, -float64(qb)/10)
	o1, o2 := 1-e1, 1-e2
	E1, E2 := e1/3, e2/3
	pmm := o1*o2 + 3*E1*E2
	pmi := o1*E2 + o2*E1 + 2*E1*E2
	return 10 * (math.Log(pmm) + math.Log(4)), 10 * (math.Log(pmi) + math.Log(4))
}

// PERoundAccepts tells whether the integer t is int(x+0.5) (Go truncation) for
// some x' within eps of x.
func PERoundAccepts(t int, x float64) bool {
	const eps = 1e-6
	if math.IsNaN(x) || math.IsInf(x, 0) {
		return false
	}
	return t == int(x-eps+0.5) || t == int(x+eps+0.5) || t == int(x+0.5)
}

// IupacUnion returns the IUPAC code (lower case) of the union of two codes; 0 when unknown.
func IupacUnion(a, b byte) byte {
	sa, oka := IupacSets[Lower(a)]
	sb, okb := IupacSets[Lower(b)]
	if !oka || !okb {
		return 0
	}
	var have [256]bool
	for i := 0; i < len(sa); i++ {
		have[sa[i]] = true
	}
	for i := 0; i < len(sb); i++ {
		have[sb[i]] = true
	}
	key := ""
	for _, c := range []byte("acgt") {
		if have[c] {
			key += string(c)
		}
	}
	for code, set := range IupacSets {
		if code != 'u' && set == key {
			return code
		}
	}
	return 0
}

// PEConsensusExpect gives, for one column, the base the documented rule
// demands and the constraint on the quality.
//
//	qualExact >= 0 : the quality must be exactly this value
//	qualExact <  0 : the documentation does not fix the value (only qual <= 90 is checked)
func PEConsensusExpect(a, qa, b, qb []byte, c PEColumn) (base byte, qualExact int, kind string) {
	cap90 := func(q int) int {
		if q > 90 {
			return 90
		}
		return q
	}
	switch {
	case c.IB < 0:
		return a[c.IA], cap90(int(qa[c.IA])), "a-alone"
	case c.IA < 0:
		return b[c.IB], cap90(int(qb[c.IB])), "b-alone"
	}
	nA, nB, xA, xB := a[c.IA], b[c.IB], qa[c.IA], qb[c.IB]
	if nA == nB {
		return nA, cap90(int(xA) + int(xB)), "agree"
	}
	switch {
	case xA > xB:
		return nA, -1, "disagree-a-wins"
	case xB > xA:
		return nB, -1, "disagree-b-wins"
	}
	return IupacUnion(nA, nB), -1, "disagree-tie"
}

// FourMerDiagonals counts, for every shift d = posA - posB, the positions
// where the 4-mer of a at posA equals the 4-mer of b at posB.
func FourMerDiagonals(a, b []byte) map[int]int {
	m := map[int]int{}
	for i := 0; i+4 <= len(a); i++ {
		for j := 0; j+4 <= len(b); j++ {
			if a[i] == b[j] && a[i+1] == b[j+1] && a[i+2] == b[j+2] && a[i+3] == b[j+3] {
				m[i-j]++
			}
		}
	}
	return m
}

// DiagonalOverlap is the number of columns in which both reads are present
// when b is placed at shift d relative to a.
func DiagonalOverlap(la, lb, d int) int {
	lo := max(0, d)
	hi := min(la, lb+d)
	return hi - lo
}

// StrictBestDiagonal tells whether shift d is the strict maximiser of the
// 4-mer diagonal score. rel=false: the count; rel=true: count / (overlap-3),
// where overlap is given by ov (two readings are used by the caller).
func StrictBestDiagonal(diag map[int]int, d int, rel bool, ov func(d int) int) bool {
	cd, ok := diag[d]
	if !ok || cd == 0 {
		return false
	}
	for e, ce := range diag {
		if e == d {
			continue
		}
		if !rel {
			if ce >= cd {
				return false
			}
			continue
		}
		od, oe := ov(d)-3, ov(e)-3
		if od <= 0 {
			return false
		}
		if oe <= 0 {
			return false // the competitor's relative score is not finite: no strict maximiser can be claimed
		}
		// ce/oe >= cd/od  <=>  ce*od >= cd*oe
		if ce*od >= cd*oe {
			return false
		}
	}
	return true
}

// PEStats are the statistics of an alignment derivable from its path.
type PEStats struct {
	Columns    int
	LeadRun    int  // signed first indel run (0 when the path starts with a diagonal)
	TrailRun   int  // signed last indel run when the path ends with it, else 0
	Ambiguous  bool // the unpaired ends are made of adjacent runs of both reads: "single" parts are not defined by the documentation
	AliLength  int  // Columns - |LeadRun| - |TrailRun|
	ASingle    int  // symbols of A in the two end runs
	BSingle    int  // symbols of B in the two end runs
	MatchLo    int  // paired columns holding the same unambiguous base with both qualities > 0
	MatchHi    int  // paired columns holding compatible symbols
	PairedCols int
}

// PEPathStats derives the statistics of a well-formed path.
func PEPathStats(a, qa, b, qb []byte, path []int) PEStats {
	var s PEStats
	cols := PEColumns(path)
	s.Columns = len(cols)
	s.LeadRun = path[0]
	if path[len(path)-1] == 0 {
		s.TrailRun = path[len(path)-2]
	}
	if len(path) == 2 && path[1] == 0 {
		// a single run and nothing else: lead and trail are the same run
		s.Ambiguous = true
	}
	// adjacent opposite runs at an end (a pair with a zero diagonal next to the end run)
	if len(path) >= 4 {
		if path[1] == 0 && path[2] != 0 {
			s.Ambiguous = true
		}
		n := len(path)
		if path[n-1] == 0 && path[n-3] == 0 && path[n-4] != 0 {
			s.Ambiguous = true
		}
	}
	abs := func(x int) int {
		if x < 0 {
			return -x
		}
		return x
	}
	s.AliLength = s.Columns - abs(s.LeadRun) - abs(s.TrailRun)
	for _, r := range []int{s.LeadRun, s.TrailRun} {
		if r < 0 {
			s.ASingle += -r
		} else {
			s.BSingle += r
		}
	}
	for _, c := range cols {
		if c.IA < 0 || c.IB < 0 {
			continue
		}
		s.PairedCols++
		x, y := Lower(a[c.IA]), Lower(b[c.IB])
		if Compatible(x, y) {
			s.MatchHi++
		}
		if x == y && len(IupacSets[x]) == 1 && qa[c.IA] > 0 && qb[c.IB] > 0 {
			s.MatchLo++
		}
	}
	return s
}

// FormatPath renders a path for witnesses.
func FormatPath(path []int) string { return fmt.Sprint(path) }

// ---------------------------------------------------------------------------
// The same reference in exact integer arithmetic (128 bits): used to tell
// whether Go int (64-bit, wrapping) arithmetic overflowed on an input.

// Wide is a signed 128-bit integer.
type Wide struct {
	Hi int64
	Lo uint64
}

// WideOf converts an int.
func WideOf(v int) Wide { return Wide{Hi: int64(v) >> 63, Lo: uint64(int64(v))} }

// Add returns w + v.
func (w Wide) Add(v int) Wide {
	lo := w.Lo + uint64(int64(v))
	carry := int64(0)
	if lo < w.Lo {
		carry = 1
	}
	return Wide{Hi: w.Hi + (int64(v) >> 63) + carry, Lo: lo}
}

// Less tells whether w < x.
func (w Wide) Less(x Wide) bool {
	if w.Hi != x.Hi {
		return w.Hi < x.Hi
	}
	return w.Lo < x.Lo
}

// Is tells whether w equals the int v.
func (w Wide) Is(v int) bool { return w == WideOf(v) }

// String renders w (decimal when it fits an int64, hexadecimal otherwise).
func (w Wide) String() string {
	if w == WideOf(int(int64(w.Lo))) {
		return fmt.Sprint(int64(w.Lo))
	}
	return fmt.Sprintf("0x%016x%016x(128-bit two's complement)", uint64(w.Hi), w.Lo)
}

// PEOptimumWide is PEOptimum in exact arithmetic.
func (t *PETables) PEOptimumWide(a, qa, b, qb []byte, gap, scale float64, left bool) Wide {
	la, lb := len(a), len(b)
	g := t.GapPenalty(gap, scale)
	prev := make([]Wide, lb+1)
	cur := make([]Wide, lb+1)
	for j := 1; j <= lb; j++ {
		if left {
			prev[j] = prev[j-1].Add(g)
		}
	}
	first := Wide{}
	for i := 1; i <= la; i++ {
		if left {
			cur[0] = Wide{}
		} else {
			first = first.Add(g)
			cur[0] = first
		}
		for j := 1; j <= lb; j++ {
			best := prev[j-1].Add(t.Column(a[i-1], qa[i-1], b[j-1], qb[j-1], scale))
			ca := g
			if !left && j == lb {
				ca = 0
			}
			if v := prev[j].Add(ca); best.Less(v) {
				best = v
			}
			cb := g
			if left && i == la {
				cb = 0
			}
			if v := cur[j-1].Add(cb); best.Less(v) {
				best = v
			}
			cur[j] = best
		}
		prev, cur = cur, prev
	}
	return prev[lb]
}

// PEPathScoreWide is PEPathScore in exact arithmetic.
func (t *PETables) PEPathScoreWide(a, qa, b, qb []byte, path []int, gap, scale float64, left bool) Wide {
	g := t.GapPenalty(gap, scale)
	la, lb := len(a), len(b)
	ia, ib := 0, 0
	var score Wide
	for _, c := range PEColumns(path) {
		switch {
		case c.IB < 0:
			if !((left && ib == 0) || (!left && ib == lb)) {
				score = score.Add(g)
			}
			ia++
		case c.IA < 0:
			if !((left && ia == la) || (!left && ia == 0)) {
				score = score.Add(g)
			}
			ib++
		default:
			score = score.Add(t.Column(a[c.IA], qa[c.IA], b[c.IB], qb[c.IB], scale))
			ia++
			ib++
		}
	}
	return score
}
