package ref

// Reference pieces for C12 (demultiplexing): a brute-force primer matcher and
// the "unique nearest tag" rule. Nothing here is shared with the code under test.

// C12Hit is one complete window of a read that matches a primer pattern.
type C12Hit struct {
	Pos int // first position of the window
	Mis int // number of positions where the read base is not admitted by the pattern code
}

// C12Hits returns every complete window of seq (lower-case a,c,g,t) in which
// the IUPAC pattern pat matches with at most maxMis mismatches (substitutions only).
func C12Hits(seq, pat []byte, maxMis int) []C12Hit {
	var hits []C12Hit
	n, m := len(seq), len(pat)
	for p := 0; p+m <= n; p++ {
		mis := 0
		for j := 0; j < m && mis <= maxMis; j++ {
			if !Includes(pat[j], seq[p+j]) {
				mis++
			}
		}
		if mis <= maxMis {
			hits = append(hits, C12Hit{p, mis})
		}
	}
	return hits
}

// C12Mismatches counts the positions of window w (same length as pat) not admitted by pat.
func C12Mismatches(w, pat []byte) int {
	mis := 0
	for j := range pat {
		if j >= len(w) || !Includes(pat[j], w[j]) {
			mis++
		}
	}
	return mis
}

// C12HammingStr is the Hamming distance of two strings of equal length, -1 otherwise.
func C12HammingStr(a, b string) int { return Hamming([]byte(a), []byte(b)) }

// C12LevStr is the Levenshtein distance (unit costs) of two strings.
func C12LevStr(a, b string) int { return EditDistance([]byte(a), []byte(b)) }

// C12Nearest applies the "unique nearest tag" rule: among the distinct
// candidates, the one at the strictly smallest distance from tag. ok is false
// when there is no candidate, when the minimum is reached by two different
// candidates (tie), or when a distance is undefined (dist < 0).
func C12Nearest(tag string, cands []string, dist func(a, b string) int) (best string, d int, ok bool, undefined bool) {
	seen := map[string]bool{}
	d = -1
	n := 0
	for _, c := range cands {
		if seen[c] {
			continue
		}
		seen[c] = true
		x := dist(c, tag)
		if x < 0 {
			return "", -1, false, true
		}
		switch {
		case d < 0 || x < d:
			d, best, n = x, c, 1
		case x == d:
			n++
		}
	}
	if n != 1 {
		return "", d, false, false
	}
	return best, d, true, false
}
