package gen

import (
	"fmt"
	"math/rand"
	"strings"
)

func rc(s []byte) []byte {
	m := map[byte]byte{'a': 't', 'c': 'g', 'g': 'c', 't': 'a'}
	r := make([]byte, len(s))
	for i, c := range s {
		r[len(s)-1-i] = m[c]
	}
	return r
}

// RevCompACGT returns the reverse complement of a sequence over a,c,g,t.
func RevCompACGT(s []byte) []byte { return rc(s) }

func qualLine(r *rand.Rand, n int) string {
	q := make([]byte, n)
	for i := range q {
		q[i] = byte(33 + 10 + r.Intn(31))
	}
	return string(q)
}

// GenericFasta renders n records with JSON title annotations (count, sample) — FASTA.
func GenericFasta(r *rand.Rand, n int) []byte {
	var sb strings.Builder
	for i := 0; i < n; i++ {
		seq := DNA(r, 20+r.Intn(180))
		fmt.Fprintf(&sb, ">seq%05d {\"count\":%d,\"sample\":\"s%d\",\"definition\":\"record %d\"}\n%s\n", i, 1+r.Intn(9), r.Intn(5), i, seq)
	}
	return []byte(sb.String())
}

// ObicleanFasta renders n records as obiclean leaves them: every record has an obiclean_status map;
// some records lack the obiclean_weight map (annotations edited afterwards).
func ObicleanFasta(r *rand.Rand, n int) []byte {
	var sb strings.Builder
	for i := 0; i < n; i++ {
		seq := DNA(r, 20+r.Intn(180))
		st := []string{"h", "i", "s"}[r.Intn(3)]
		smp := fmt.Sprintf("s%d", r.Intn(4))
		w := ""
		if r.Intn(10) < 7 {
			w = fmt.Sprintf(`,"obiclean_weight":{"%s":%d}`, smp, 1+r.Intn(50))
		}
		fmt.Fprintf(&sb, ">seq%05d {\"count\":%d,\"sample\":\"%s\",\"obiclean_status\":{\"%s\":\"%s\"}%s}\n%s\n", i, 1+r.Intn(9), smp, smp, st, w, seq)
	}
	return []byte(sb.String())
}

// GenericFastq renders n FASTQ records with JSON title annotations.
func GenericFastq(r *rand.Rand, n int) []byte {
	var sb strings.Builder
	for i := 0; i < n; i++ {
		seq := DNA(r, 20+r.Intn(180))
		fmt.Fprintf(&sb, "@seq%05d {\"count\":%d,\"sample\":\"s%d\"}\n%s\n+\n%s\n", i, 1+r.Intn(9), r.Intn(5), seq, qualLine(r, len(seq)))
	}
	return []byte(sb.String())
}

// ReadPairs renders n overlapping read pairs (forward file, reverse file), read length rl.
func ReadPairs(r *rand.Rand, n, rl int) (fwd, rev []byte) {
	var f, v strings.Builder
	for i := 0; i < n; i++ {
		frag := DNA(r, rl+r.Intn(rl-10)) // overlap between 10 and rl
		a := append([]byte{}, frag[:rl]...)
		b := rc(frag)[:rl]
		// sequencing errors
		for k := 0; k < r.Intn(4); k++ {
			a[r.Intn(rl)] = ACGT[r.Intn(4)]
			b[r.Intn(rl)] = ACGT[r.Intn(4)]
		}
		// a few reads are what a quality trimmer leaves: 1 to 12 bases (shorter than a 4-mer, than the
		// minimal overlap)
		if k := r.Intn(40); k < 2 {
			cut := []int{1, 2, 3, 4, 5, 12}[r.Intn(6)]
			if k == 0 {
				a = a[:cut]
			} else {
				b = b[:cut]
			}
		}
		fmt.Fprintf(&f, "@pair%05d\n%s\n+\n%s\n", i, a, qualLine(r, len(a)))
		fmt.Fprintf(&v, "@pair%05d\n%s\n+\n%s\n", i, b, qualLine(r, len(b)))
	}
	return []byte(f.String()), []byte(v.String())
}

// Multiplex describes a small demultiplexing experiment.
type Multiplex struct {
	Sheet   []byte
	Reads   []byte // FASTQ
	Fwd     string
	Rev     string
	Samples []string
	Tags    []string
}

// MultiplexData builds a legacy ngsfilter sheet with ntags samples and n tagged amplicons.
func MultiplexData(r *rand.Rand, ntags, n int) Multiplex {
	m := Multiplex{Fwd: "ttagataccccactatgc", Rev: "tagaacaggctcctctag"}
	tags := []string{"aattaac", "gaagtag", "gaatatc", "gcctcct", "ctatgta", "tgacgat", "cgtataa", "atcagtc"}
	var sb strings.Builder
	for i := 0; i < ntags; i++ {
		m.Tags = append(m.Tags, tags[i])
		m.Samples = append(m.Samples, fmt.Sprintf("sample%02d", i))
		fmt.Fprintf(&sb, "exp1\t%s\t%s\t%s\t%s\tF\t@\n", m.Samples[i], tags[i], strings.ToUpper(m.Fwd), strings.ToUpper(m.Rev))
	}
	m.Sheet = []byte(sb.String())
	var rd strings.Builder
	amplicon := func() []byte {
		t := []byte(tags[r.Intn(ntags)])
		if r.Intn(10) == 0 {
			t = DNA(r, 7) // unknown tag
		}
		bar := DNA(r, 30+r.Intn(60))
		fwd := []byte(m.Fwd)
		if r.Intn(6) == 0 {
			fwd[r.Intn(len(fwd))] = ACGT[r.Intn(4)]
		}
		var seq []byte
		seq = append(seq, DNA(r, r.Intn(4))...)
		seq = append(seq, t...)
		seq = append(seq, fwd...)
		seq = append(seq, bar...)
		seq = append(seq, rc([]byte(m.Rev))...)
		seq = append(seq, rc(t)...)
		seq = append(seq, DNA(r, r.Intn(4))...)
		if r.Intn(2) == 0 {
			seq = rc(seq)
		}
		return seq
	}
	for i := 0; i < n; i++ {
		seq := amplicon()
		if r.Intn(10) == 0 {
			// a concatemer: two or three amplicons in one read (one record per amplicon comes out)
			for k := 0; k < 1+r.Intn(2); k++ {
				seq = append(append(seq, DNA(r, 5+r.Intn(20))...), amplicon()...)
			}
		}
		if r.Intn(12) == 0 {
			seq = DNA(r, 80) // no primer at all
		}
		fmt.Fprintf(&rd, "@read%05d\n%s\n+\n%s\n", i, seq, qualLine(r, len(seq)))
	}
	m.Reads = []byte(rd.String())
	return m
}

// MultiplexCloseTags: a CSV sheet asking for approximate tag matching (hamming or indel) whose
// sample tags lie 2 substitutions apart in pairs, and reads whose tags sit between two of them
// (one substitution from each): the answer for such a read is "ambiguous", every time.
func MultiplexCloseTags(r *rand.Rand, n int) Multiplex {
	m := Multiplex{Fwd: "ttagataccccactatgc", Rev: "tagaacaggctcctctag"}
	pairs := [][3]string{ // tag A, tag B (2 substitutions away), a word at distance 1 of both
		{"aattaacg", "aactaaag", "aactaacg"},
		{"gcctcctt", "gcgtccat", "gcgtcctt"},
		{"ctatgtac", "ctttgtgc", "ctatgtgc"},
	}
	var sb strings.Builder
	fmt.Fprintf(&sb, "@param,matching,%s\n@param,primer_mismatches,1\nexperiment,sample,sample_tag,forward_primer,reverse_primer\n", []string{"hamming", "indel"}[r.Intn(2)])
	for i, p := range pairs {
		for k := 0; k < 2; k++ {
			name := fmt.Sprintf("sample%d%c", i, 'a'+k)
			m.Tags = append(m.Tags, p[k])
			m.Samples = append(m.Samples, name)
			fmt.Fprintf(&sb, "exp1,%s,%s,%s,%s\n", name, p[k], m.Fwd, m.Rev)
		}
	}
	m.Sheet = []byte(sb.String())
	var rd strings.Builder
	for i := 0; i < n; i++ {
		p := pairs[r.Intn(len(pairs))]
		t := []byte(p[r.Intn(3)])
		if r.Intn(4) == 0 {
			t[r.Intn(len(t))] = ACGT[r.Intn(4)]
		}
		var seq []byte
		seq = append(seq, DNA(r, r.Intn(4))...)
		seq = append(seq, t...)
		seq = append(seq, m.Fwd...)
		seq = append(seq, DNA(r, 30+r.Intn(60))...)
		seq = append(seq, rc([]byte(m.Rev))...)
		seq = append(seq, rc(t)...)
		seq = append(seq, DNA(r, r.Intn(4))...)
		if r.Intn(2) == 0 {
			seq = rc(seq)
		}
		fmt.Fprintf(&rd, "@read%05d\n%s\n+\n%s\n", i, seq, qualLine(r, len(seq)))
	}
	m.Reads = []byte(rd.String())
	return m
}

// MultiplexSharedPrimer: two markers amplified with the same forward primer and two reverse primers
// (a CSV sheet), and reads of both. Which reads can be assigned is the business of C12; here only
// "the same answer every time" is at stake.
func MultiplexSharedPrimer(r *rand.Rand, n int) Multiplex {
	m := Multiplex{Fwd: "ttagataccccactatgc", Rev: "tagaacaggctcctctag"}
	rev2 := "ggtaccacgattcagacc"
	tags := []string{"aattaac", "gaagtag", "gaatatc", "gcctcct"}
	var sb strings.Builder
	sb.WriteString("experiment,sample,sample_tag,forward_primer,reverse_primer\n")
	for i, t := range tags {
		rv := m.Rev
		if i >= 2 {
			rv = rev2
		}
		fmt.Fprintf(&sb, "exp1,sample%02d,%s,%s,%s\n", i, t, m.Fwd, rv)
	}
	m.Sheet = []byte(sb.String())
	var rd strings.Builder
	for i := 0; i < n; i++ {
		k := r.Intn(4)
		rv := m.Rev
		if k >= 2 {
			rv = rev2
		}
		t := []byte(tags[k])
		var seq []byte
		seq = append(seq, t...)
		seq = append(seq, m.Fwd...)
		seq = append(seq, DNA(r, 30+r.Intn(60))...)
		seq = append(seq, rc([]byte(rv))...)
		seq = append(seq, rc(t)...)
		if r.Intn(2) == 0 {
			seq = rc(seq)
		}
		fmt.Fprintf(&rd, "@read%05d\n%s\n+\n%s\n", i, seq, qualLine(r, len(seq)))
	}
	m.Reads = []byte(rd.String())
	return m
}

// PCRTemplates renders n templates (FASTA), most of them with one planted amplicon for the returned primers.
func PCRTemplates(r *rand.Rand, n int) (fasta []byte, fwd, rev string) {
	fwd, rev = "ggtaccacgattcagac", "ccatgactgatcgtaag"
	var sb strings.Builder
	for i := 0; i < n; i++ {
		left := DNA(r, 10+r.Intn(100))
		amp := DNA(r, 20+r.Intn(120))
		right := DNA(r, 10+r.Intn(100))
		f := []byte(fwd)
		v := rc([]byte(rev))
		for k := 0; k < r.Intn(3); k++ {
			f[r.Intn(len(f))] = ACGT[r.Intn(4)]
		}
		for k := 0; k < r.Intn(3); k++ {
			v[r.Intn(len(v))] = ACGT[r.Intn(4)]
		}
		var seq []byte
		seq = append(seq, left...)
		if r.Intn(8) != 0 {
			seq = append(seq, f...)
			seq = append(seq, amp...)
			seq = append(seq, v...)
		}
		seq = append(seq, right...)
		if r.Intn(2) == 0 {
			seq = rc(seq)
		}
		fmt.Fprintf(&sb, ">tpl%05d {\"taxid\":%d}\n%s\n", i, 2+r.Intn(50), seq)
	}
	return []byte(sb.String()), fwd, rev
}

// PCRGenome renders a few long templates (100-140 kb) carrying a product of `barcode` bases every
// 300-700 bases, for the --fragmented mode of obipcr (the templates are cut into overlapping
// pieces handled by different workers; some products fall into the overlaps).
func PCRGenome(r *rand.Rand, nseq, barcode int) (fasta []byte, fwd, rev string) {
	fwd, rev = "ggtaccacgattcagac", "ccatgactgatcgtaag"
	var sb strings.Builder
	for i := 0; i < nseq; i++ {
		var seq []byte
		target := 100000 + r.Intn(40000)
		for len(seq) < target {
			seq = append(seq, DNA(r, 300+r.Intn(400))...)
			seq = append(seq, fwd...)
			seq = append(seq, DNA(r, max(1, barcode-r.Intn(3)))...)
			seq = append(seq, rc([]byte(rev))...)
		}
		// with -L 10 the pieces are 1000 bases long and start every 956 bases: products are also put
		// exactly inside the 44 bases shared by two consecutive pieces, among them pieces 99 and 100
		// (the pieces are handed to the workers by batches of 100)
		prod := append(append([]byte(fwd), DNA(r, barcode)...), rc([]byte(rev))...)
		for _, k := range []int{5, 50, 100, 101, 130} {
			at := k*956 + 1
			if at+len(prod) < len(seq)-2000 {
				copy(seq[at:], prod)
			}
		}
		fmt.Fprintf(&sb, ">chr%d\n%s\n", i, seq)
	}
	return []byte(sb.String()), fwd, rev
}
