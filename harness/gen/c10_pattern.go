package gen

import (
	"math/rand"

	"verifh/ref"
)

// PatOpts selects the constructs a generated pattern may contain (per mille rates).
type PatOpts struct {
	Ambig int // IUPAC ambiguity code instead of a base
	Class int // [..] class
	Neg   int // '!' in front of the letter / class
	Oblig int // '#' behind the position
	LowCx int // low-complexity pattern (repeat of a 1..3 nt unit)
}

// PatternModel returns a random pattern of n positions.
func PatternModel(r *rand.Rand, n int, o PatOpts) ref.PatModel {
	m := make(ref.PatModel, n)
	var unit []byte
	if r.Intn(1000) < o.LowCx {
		unit = DNA(r, 1+r.Intn(3))
	}
	for i := range m {
		var p ref.PatPos
		switch {
		case r.Intn(1000) < o.Class:
			nl := 1 + r.Intn(3)
			if o.Class > 900 {
				nl = 2 + r.Intn(3) // up to [acgt]
			}
			l := make([]byte, nl)
			for k := range l {
				l[k] = ACGT[r.Intn(4)]
				if r.Intn(8) == 0 {
					l[k] = Ambig[r.Intn(len(Ambig))]
				}
			}
			p.Letters = string(l)
			p.Class = true
		case r.Intn(1000) < o.Ambig:
			p.Letters = string("ryswkmbdhvnu"[r.Intn(12)])
		case unit != nil:
			p.Letters = string(unit[i%len(unit)])
		default:
			p.Letters = string(ACGT[r.Intn(4)])
		}
		p.Neg = r.Intn(1000) < o.Neg
		p.Oblig = r.Intn(1000) < o.Oblig
		m[i] = p
	}
	return m
}

// Instance returns a concrete sequence matched by the pattern without error
// (positions admitting nothing get a random base).
func Instance(r *rand.Rand, m ref.PatModel) []byte {
	s := make([]byte, len(m))
	for i, p := range m {
		set := p.AdmitSet()
		if set == "" {
			s[i] = ACGT[r.Intn(4)]
		} else {
			s[i] = set[r.Intn(len(set))]
		}
	}
	return s
}

// Mismatched returns an instance of the pattern carrying exactly e mismatches
// (as far as the pattern has e positions that can mismatch); avoidOblig keeps
// the '#' positions clean.
func Mismatched(r *rand.Rand, m ref.PatModel, e int, avoidOblig bool) []byte {
	s := Instance(r, m)
	perm := r.Perm(len(m))
	for _, i := range perm {
		if e == 0 {
			break
		}
		if avoidOblig && m[i].Oblig {
			continue
		}
		var bad []byte
		for _, b := range []byte(ACGT) {
			if !m[i].Admits(b) {
				bad = append(bad, b)
			}
		}
		if len(bad) == 0 {
			continue
		}
		s[i] = bad[r.Intn(len(bad))]
		e--
	}
	return s
}

// Plant describes how a sequence for the pattern matcher was built.
type Plant struct {
	Pos    int
	Errors int
	Kind   string // start | end | overlap | inner | cut-start | cut-end
}

// PlantedSeq builds a sequence of length about n over a,c,g,t containing
// occurrences of the pattern with 0..k+1 errors (substitutions, or edits when
// indel is set): at offset 0, at the very end, overlapping each other, truncated
// by either end of the sequence.
func PlantedSeq(r *rand.Rand, m ref.PatModel, n, k int, indel bool) ([]byte, []Plant) {
	var s []byte
	switch r.Intn(6) {
	case 0: // low complexity background
		unit := DNA(r, 1+r.Intn(2))
		s = make([]byte, n)
		for i := range s {
			s[i] = unit[i%len(unit)]
		}
	default:
		s = DNA(r, n)
	}
	var plants []Plant
	np := r.Intn(5)
	last := -1
	for q := 0; q < np; q++ {
		e := r.Intn(k + 2)
		var occ []byte
		if indel {
			occ = Mutate(r, Instance(r, m), e)
		} else {
			occ = Mismatched(r, m, e, r.Intn(4) != 0)
		}
		kind := []string{"start", "end", "overlap", "inner", "inner", "cut-start", "cut-end"}[r.Intn(7)]
		pos := 0
		switch kind {
		case "start":
			pos = 0
		case "end":
			pos = len(s) - len(occ)
		case "overlap":
			if last < 0 {
				kind = "inner"
				pos = r.Intn(max(1, len(s)-len(occ)+1))
			} else {
				pos = last + 1 + r.Intn(max(1, len(occ)))
			}
		case "inner":
			pos = r.Intn(max(1, len(s)-len(occ)+1))
		case "cut-start": // the first symbols hang over the start of the sequence
			cut := 1 + r.Intn(max(1, min(len(occ)-1, 3)))
			if cut < len(occ) {
				occ = occ[cut:]
			}
			pos = 0
		case "cut-end":
			cut := 1 + r.Intn(max(1, min(len(occ)-1, 3)))
			if cut < len(occ) {
				occ = occ[:len(occ)-cut]
			}
			pos = len(s) - len(occ)
		}
		if pos < 0 || pos+len(occ) > len(s) || len(occ) == 0 {
			continue
		}
		copy(s[pos:], occ)
		last = pos
		plants = append(plants, Plant{pos, e, kind})
	}
	return s, plants
}
