package gen

import (
	"fmt"
	"math/rand"
)

// TaxSpec describes a random taxonomy as parallel arrays over node indexes
// 0..n-1. Node 0 is the root (taxid 1, its own parent).
type TaxSpec struct {
	Taxid  []int    `json:"taxid"`
	Parent []int    `json:"parent"` // node index of the parent
	Rank   []string `json:"rank"`
	Name   []string `json:"name"`
}

var c15Ranks = []string{"no rank", "kingdom", "phylum", "class", "order", "family", "genus", "species", "subspecies"}

// Taxonomy draws a random rooted tree with n >= 1 nodes. Shapes: random
// recursive tree, caterpillar (deep), star (flat), or a mix.
func Taxonomy(r *rand.Rand, n int) *TaxSpec {
	if n < 1 {
		n = 1
	}
	t := &TaxSpec{Taxid: make([]int, n), Parent: make([]int, n), Rank: make([]string, n), Name: make([]string, n)}
	used := map[int]bool{1: true}
	t.Taxid[0] = 1
	shape := r.Intn(4)
	depth := make([]int, n)
	for i := 1; i < n; i++ {
		id := 2 + r.Intn(90000)
		for used[id] {
			id = 2 + r.Intn(90000)
		}
		used[id] = true
		t.Taxid[i] = id
		switch shape {
		case 0: // random recursive tree
			t.Parent[i] = r.Intn(i)
		case 1: // deep: mostly attach to the previous node
			if r.Intn(4) > 0 {
				t.Parent[i] = i - 1
			} else {
				t.Parent[i] = r.Intn(i)
			}
		case 2: // flat: mostly attach near the root
			t.Parent[i] = r.Intn(min(i, 3))
		default: // preferential to recent nodes
			t.Parent[i] = max(0, i-1-r.Intn(min(i, 4)))
		}
		depth[i] = depth[t.Parent[i]] + 1
	}
	for i := 0; i < n; i++ {
		t.Rank[i] = c15Ranks[min(depth[i], len(c15Ranks)-1)]
		t.Name[i] = fmt.Sprintf("taxon %d", t.Taxid[i])
	}
	t.Name[0] = "root"
	return t
}

// Descendants returns, for every node, the list of nodes of its subtree (itself included).
func (t *TaxSpec) Descendants() [][]int {
	n := len(t.Parent)
	d := make([][]int, n)
	for i := 0; i < n; i++ {
		x := i
		for {
			d[x] = append(d[x], i)
			if t.Parent[x] == x {
				break
			}
			x = t.Parent[x]
		}
	}
	return d
}
