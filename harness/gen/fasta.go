package gen

import (
	"bytes"
	"fmt"
	"strings"
)

// FRec is a record as the harness's own trivial FASTA/FASTQ parser sees it.
type FRec struct {
	ID    string
	Title string // everything after the id on the title line (trimmed)
	Seq   string
	Qual  string // FASTQ only
}

// ParseFasta parses FASTA text (multi-line sequences).
func ParseFasta(text []byte) ([]FRec, error) {
	var out []FRec
	var cur *FRec
	for _, line := range bytes.Split(text, []byte("\n")) {
		line = bytes.TrimRight(line, "\r")
		if len(line) == 0 {
			continue
		}
		if line[0] == '>' {
			out = append(out, FRec{})
			cur = &out[len(out)-1]
			h := string(line[1:])
			if i := strings.IndexAny(h, " \t"); i >= 0 {
				cur.ID, cur.Title = h[:i], strings.TrimSpace(h[i+1:])
			} else {
				cur.ID = h
			}
			continue
		}
		if cur == nil {
			return nil, fmt.Errorf("sequence data before the first title line")
		}
		cur.Seq += string(line)
	}
	return out, nil
}

// ParseFastq parses 4-line FASTQ text.
func ParseFastq(text []byte) ([]FRec, error) {
	lines := bytes.Split(bytes.TrimRight(text, "\r\n"), []byte("\n"))
	if len(lines) == 1 && len(lines[0]) == 0 {
		return nil, nil
	}
	if len(lines)%4 != 0 {
		return nil, fmt.Errorf("fastq: %d lines", len(lines))
	}
	var out []FRec
	for i := 0; i < len(lines); i += 4 {
		h := string(bytes.TrimRight(lines[i], "\r"))
		if len(h) == 0 || h[0] != '@' || len(lines[i+2]) == 0 || lines[i+2][0] != '+' {
			return nil, fmt.Errorf("fastq: bad record at line %d", i+1)
		}
		r := FRec{Seq: string(bytes.TrimRight(lines[i+1], "\r")), Qual: string(bytes.TrimRight(lines[i+3], "\r"))}
		h = h[1:]
		if j := strings.IndexAny(h, " \t"); j >= 0 {
			r.ID, r.Title = h[:j], strings.TrimSpace(h[j+1:])
		} else {
			r.ID = h
		}
		out = append(out, r)
	}
	return out, nil
}

// IDsOf lists the ids.
func IDsOf(recs []FRec) []string {
	out := make([]string, len(recs))
	for i, r := range recs {
		out[i] = r.ID
	}
	return out
}
