package gen

import (
	"fmt"
	"math/rand"
	"os"
	"path/filepath"
	"strings"

	"verifh/ref"
)

// CountRootedTrees returns the number of labelled rooted trees on n nodes, n^(n-1).
func CountRootedTrees(n int) int {
	c := 1
	for i := 0; i < n-1; i++ {
		c *= n
	}
	return c
}

// NthRootedTree returns the k-th (0 <= k < n^(n-1)) labelled rooted tree on
// nodes 0..n-1 as a parent array (parent[root] == root). k = root + n * (Prüfer
// code read as a number in base n): every labelled tree (Cayley, n^(n-2)) with
// every choice of root.
func NthRootedTree(n, k int) (parent []int, root int) {
	parent = make([]int, n)
	if n == 1 {
		return parent, 0
	}
	root = k % n
	k /= n
	adj := make([][]int, n)
	edge := func(a, b int) {
		adj[a] = append(adj[a], b)
		adj[b] = append(adj[b], a)
	}
	if n == 2 {
		edge(0, 1)
	} else {
		code := make([]int, n-2)
		for i := range code {
			code[i] = k % n
			k /= n
		}
		deg := make([]int, n)
		for i := range deg {
			deg[i] = 1
		}
		for _, x := range code {
			deg[x]++
		}
		for _, x := range code {
			for y := 0; y < n; y++ {
				if deg[y] == 1 {
					edge(y, x)
					deg[y]--
					deg[x]--
					break
				}
			}
		}
		u, v := -1, -1
		for y := 0; y < n; y++ {
			if deg[y] == 1 {
				if u < 0 {
					u = y
				} else {
					v = y
				}
			}
		}
		edge(u, v)
	}
	// orient from the root
	for i := range parent {
		parent[i] = -1
	}
	parent[root] = root
	queue := []int{root}
	for len(queue) > 0 {
		x := queue[0]
		queue = queue[1:]
		for _, y := range adj[x] {
			if parent[y] < 0 {
				parent[y] = x
				queue = append(queue, y)
			}
		}
	}
	return parent, root
}

// TaxShapes are the shapes of RandomParents.
var TaxShapes = []string{"recursive", "chain", "star", "caterpillar", "binary", "broom", "preferential", "two-chains", "deep-bushy"}

// RandomParents draws a rooted tree of the given shape on n nodes; node
// indices are shuffled (the root is not node 0 in general).
func RandomParents(r *rand.Rand, n int, shape string) (parent []int, root int) {
	p := make([]int, n)  // in construction order: p[i] < i, node 0 is the root
	lastA, lastB := 0, 0 // ends of the two lineages of "two-chains"
	for i := 1; i < n; i++ {
		switch shape {
		case "chain":
			p[i] = i - 1
		case "star":
			p[i] = 0
		case "caterpillar": // a spine (even nodes) with one leaf (odd node) on every spine node
			if i%2 == 0 {
				p[i] = i - 2
			} else {
				p[i] = i - 1
			}
		case "binary":
			p[i] = (i - 1) / 2
		case "broom": // long handle then a star
			if i <= n/2 {
				p[i] = i - 1
			} else {
				p[i] = n / 2
			}
		case "preferential": // parent = endpoint of a random earlier edge: hubs
			if i == 1 {
				p[i] = 0
			} else {
				j := 1 + r.Intn(i-1)
				if r.Intn(2) == 0 {
					p[i] = j
				} else {
					p[i] = p[j]
				}
			}
		case "two-chains": // two lineages of unequal length diverging at the root
			if i%3 == 0 {
				p[i] = lastB
				lastB = i
			} else {
				p[i] = lastA
				lastA = i
			}
		case "deep-bushy": // mostly the previous node (deep), sometimes any earlier one
			if r.Intn(4) == 0 {
				p[i] = r.Intn(i)
			} else {
				p[i] = i - 1
			}
		default: // recursive: uniform earlier node
			p[i] = r.Intn(i)
		}
		if p[i] >= i || p[i] < 0 {
			p[i] = i - 1
		}
	}
	perm := r.Perm(n)
	parent = make([]int, n)
	for i := 0; i < n; i++ {
		parent[perm[i]] = perm[p[i]]
	}
	root = perm[0]
	parent[root] = root
	return parent, root
}

// TaxRankPool is the list rank labels are drawn from.
var TaxRankPool = []string{"no rank", "superkingdom", "kingdom", "phylum", "class", "order", "family", "genus", "species", "subspecies", "clade"}

// DressTaxTree gives taxids, ranks, names and aliases to a parent array.
// taxidMode: 0 = index+1, 1 = root gets 1 and the others random distinct, 2 = random distinct (sometimes huge).
// rankMode: 0 = uniform from a small pool (many repeats along a lineage), 1 = ordered by depth with
// interspersed "no rank"/"clade", 2 = a single label everywhere.
func DressTaxTree(r *rand.Rand, parent []int, root int, taxidMode, rankMode, nRanks, nAlias int) *ref.TaxTree {
	n := len(parent)
	t := &ref.TaxTree{Parent: parent, Root: root, Taxid: make([]int, n), Rank: make([]string, n), Name: make([]string, n)}
	used := map[int]bool{}
	draw := func() int {
		for {
			var v int
			switch r.Intn(8) {
			case 0:
				v = 1 + r.Intn(1<<31-2)
			case 1, 2:
				v = 1 + r.Intn(3*n+10)
			default:
				v = 1 + r.Intn(3000000)
			}
			if !used[v] {
				used[v] = true
				return v
			}
		}
	}
	for i := 0; i < n; i++ {
		switch {
		case taxidMode == 0:
			t.Taxid[i] = i + 1
			used[i+1] = true
		case taxidMode == 1 && i == root:
			t.Taxid[i] = 1
			used[1] = true
		}
	}
	if taxidMode != 0 {
		for i := 0; i < n; i++ {
			if t.Taxid[i] == 0 {
				t.Taxid[i] = draw()
			}
		}
	}
	t.Finish() // depths are needed for the ordered ranks
	if nRanks < 1 {
		nRanks = 1
	}
	if nRanks > len(TaxRankPool) {
		nRanks = len(TaxRankPool)
	}
	pool := append([]string{}, TaxRankPool[:nRanks]...)
	for i := 0; i < n; i++ {
		switch rankMode {
		case 1:
			ordered := TaxRankPool[1:10]
			d := t.Depth[i]
			switch {
			case i == root || r.Intn(5) == 0:
				t.Rank[i] = "no rank"
			case r.Intn(7) == 0:
				t.Rank[i] = "clade"
			default:
				t.Rank[i] = ordered[min(len(ordered)-1, (d-1)%(2*len(ordered))/2)]
			}
		case 2:
			t.Rank[i] = pool[0]
		default:
			t.Rank[i] = pool[r.Intn(len(pool))]
		}
		t.Name[i] = fmt.Sprintf("Taxon %c%d", 'A'+byte(t.Depth[i]%26), t.Taxid[i])
	}
	// aliases: old ids are not node ids and are distinct
	for k := 0; k < nAlias; k++ {
		var old int
		for {
			if taxidMode == 0 {
				old = n + 1 + r.Intn(2*n+5)
			} else {
				old = 1 + r.Intn(3000000)
			}
			if !used[old] {
				used[old] = true
				break
			}
		}
		t.Alias = append(t.Alias, [2]int{old, r.Intn(n)})
	}
	t.Finish()
	return t
}

// UnknownTaxids returns k ids that are neither nodes nor aliases (positive), plus 0.
func UnknownTaxids(r *rand.Rand, t *ref.TaxTree, k int) []int {
	var u []int
	for len(u) < k {
		var v int
		if r.Intn(2) == 0 {
			v = 1 + r.Intn(3*t.N()+20)
		} else {
			v = 1 + r.Intn(4000000)
		}
		if _, _, ok := t.Resolve(v); !ok {
			u = append(u, v)
		}
	}
	return u
}

var emblCodes = []string{"", "XX", "BA", "HS", "ZM"}
var otherNameClasses = []string{"synonym", "common name", "authority", "equivalent name", "genbank common name", "includes"}

// TaxDump renders the tree as the three tables of an NCBI taxonomy dump
// (fields separated by "\t|\t", lines terminated by "\t|"). Lines are in random
// order when shuffle is set (NCBI orders by taxid: a parent can come after its
// children). Extra non-scientific names are added when synonyms is set.
func TaxDump(r *rand.Rand, t *ref.TaxTree, shuffle, synonyms bool) (nodes, names, merged string) {
	n := t.N()
	order := make([]int, n)
	for i := range order {
		order[i] = i
	}
	if shuffle {
		r.Shuffle(n, func(i, j int) { order[i], order[j] = order[j], order[i] })
	}
	var nb, mb, ab strings.Builder
	// the last column of nodes.dmp is free text; in one dump out of five one line carries a comment
	// longer than 64 KiB (the default limit of a line scanner), the nodes after it must still be read
	long := -1
	if r.Intn(5) == 0 {
		long = r.Intn(n)
	}
	for k, i := range order {
		comment := []string{"", "", "code compliant; specified", "uncultured"}[r.Intn(4)]
		if k == long {
			comment = strings.Repeat("curated comment; ", 4000+r.Intn(2000))
		}
		fmt.Fprintf(&nb, "%d\t|\t%d\t|\t%s\t|\t%s\t|\t%d\t|\t%d\t|\t%d\t|\t%d\t|\t%d\t|\t%d\t|\t%d\t|\t%d\t|\t%s\t|\n",
			t.Taxid[i], t.Taxid[t.Parent[i]], t.Rank[i], emblCodes[r.Intn(len(emblCodes))], r.Intn(12), r.Intn(2), 1+r.Intn(11), r.Intn(2), r.Intn(5), r.Intn(2), r.Intn(2), r.Intn(2), comment)
	}
	type row struct {
		id          int
		name, class string
	}
	var rows []row
	for _, i := range order {
		rows = append(rows, row{t.Taxid[i], t.Name[i], "scientific name"})
		if synonyms {
			for k := r.Intn(3); k > 0; k-- {
				rows = append(rows, row{t.Taxid[i], fmt.Sprintf("other name %d of %d", k, t.Taxid[i]), otherNameClasses[r.Intn(len(otherNameClasses))]})
			}
		}
	}
	if shuffle {
		r.Shuffle(len(rows), func(i, j int) { rows[i], rows[j] = rows[j], rows[i] })
	}
	for _, w := range rows {
		fmt.Fprintf(&mb, "%d\t|\t%s\t|\t%s\t|\t%s\t|\n", w.id, w.name, "", w.class)
	}
	al := append([][2]int{}, t.Alias...)
	if shuffle {
		r.Shuffle(len(al), func(i, j int) { al[i], al[j] = al[j], al[i] })
	}
	for _, a := range al {
		fmt.Fprintf(&ab, "%d\t|\t%d\t|\n", a[0], t.Taxid[a[1]])
	}
	nodes, names, merged = nb.String(), mb.String(), ab.String()
	if r.Intn(4) == 0 {
		// files written by other tools do not always end with a line feed: the last line counts
		nodes, merged = strings.TrimSuffix(nodes, "\n"), strings.TrimSuffix(merged, "\n")
		if r.Intn(2) == 0 {
			names = strings.TrimSuffix(names, "\n")
		}
	}
	return nodes, names, merged
}

// WriteTaxDump writes nodes.dmp, names.dmp and merged.dmp into dir.
func WriteTaxDump(dir, nodes, names, merged string) error {
	if err := os.MkdirAll(dir, 0o755); err != nil {
		return err
	}
	for name, text := range map[string]string{"nodes.dmp": nodes, "names.dmp": names, "merged.dmp": merged} {
		if err := os.WriteFile(filepath.Join(dir, name), []byte(text), 0o644); err != nil {
			return err
		}
	}
	return nil
}
