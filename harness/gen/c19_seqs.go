package gen

// Generators of property C19: sequences without repeated words, read sets
// derived from a template (branches), repeats (cycles), ambiguity codes.

import "math/rand"

// NoRepeatSeq returns a random sequence over acgt of length at most n in which
// no word of length w (w >= 1) occurs twice. It is built greedily and may be
// shorter than n when no extension is possible (always at least min(n, w) long).
func NoRepeatSeq(r *rand.Rand, n, w int) []byte {
	if n <= w {
		return DNA(r, n)
	}
	s := DNA(r, w)
	seen := map[string]bool{string(s): true}
	for len(s) < n {
		perm := r.Perm(4)
		ok := false
		for _, p := range perm {
			cand := string(s[len(s)-w+1:]) + string(ACGT[p])
			if !seen[cand] {
				seen[cand] = true
				s = append(s, ACGT[p])
				ok = true
				break
			}
		}
		if !ok {
			break
		}
	}
	return s
}

// Substitute applies n substitutions (by a different base) at random positions; new slice.
func Substitute(r *rand.Rand, s []byte, n int) []byte {
	t := append([]byte{}, s...)
	for e := 0; e < n && len(t) > 0; e++ {
		p := r.Intn(len(t))
		c := ACGT[r.Intn(4)]
		for c == t[p] {
			c = ACGT[r.Intn(4)]
		}
		t[p] = c
	}
	return t
}

// Reads returns n reads of a template: substrings (full length with
// probability 1/2) carrying up to maxEdits random edits each.
func Reads(r *rand.Rand, template []byte, n, minLen, maxEdits int) [][]byte {
	out := make([][]byte, 0, n)
	for i := 0; i < n; i++ {
		a, b := 0, len(template)
		if r.Intn(2) == 0 && len(template) > minLen {
			l := minLen + r.Intn(len(template)-minLen+1)
			a = r.Intn(len(template) - l + 1)
			b = a + l
		}
		rd := append([]byte{}, template[a:b]...)
		if maxEdits > 0 {
			if r.Intn(3) == 0 {
				rd = Mutate(r, rd, r.Intn(maxEdits+1))
			} else {
				rd = Substitute(r, rd, r.Intn(maxEdits+1))
			}
		}
		out = append(out, rd)
	}
	return out
}

// InsertRepeat copies a segment of length rl of s and inserts the copy at a
// later position (so that a word of length rl occurs twice); new slice.
func InsertRepeat(r *rand.Rand, s []byte, rl int) []byte {
	if rl <= 0 || rl > len(s) {
		return append([]byte{}, s...)
	}
	p := r.Intn(len(s) - rl + 1)
	q := p + 1 + r.Intn(len(s)-p)
	t := append([]byte{}, s[:q]...)
	t = append(t, s[p:p+rl]...)
	return append(t, s[q:]...)
}

// Tandem returns a tandem repeat of a random unit of the given period, total length n.
func Tandem(r *rand.Rand, period, n int) []byte {
	unit := DNA(r, period)
	s := make([]byte, n)
	for i := range s {
		s[i] = unit[i%period]
	}
	return s
}

// Ambiguate replaces n random positions of s by IUPAC ambiguity codes; new
// slice. Returns also the product of the numbers of bases the codes stand for.
func Ambiguate(r *rand.Rand, s []byte, n int) ([]byte, int) {
	t := append([]byte{}, s...)
	prod := 1
	size := map[byte]int{'r': 2, 'y': 2, 's': 2, 'w': 2, 'k': 2, 'm': 2, 'b': 3, 'd': 3, 'h': 3, 'v': 3, 'n': 4}
	for e := 0; e < n && len(t) > 0; e++ {
		p := r.Intn(len(t))
		if _, done := size[t[p]]; done {
			continue
		}
		c := Ambig[r.Intn(len(Ambig))]
		t[p] = c
		prod *= size[c]
	}
	return t, prod
}
