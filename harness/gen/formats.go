package gen

import (
	"fmt"
	"math/rand"
	"strings"
)

// SeqRec is the ground truth of one record of a generated sequence file.
type SeqRec struct {
	ID       string
	Def      string // FASTA/FASTQ: raw text after the identifier; flat files: the joined definition
	DefLines []string
	Seq      string // lower case
	Qual     []byte // FASTQ: Phred values 0..93
	HasTaxon bool
	Taxid    int
	SciName  string
}

// FileStyle describes how records are rendered.
type FileStyle struct {
	Format   string // fasta fastq genbank embl
	Fold     int    // FASTA: line width (0 = one line)
	CRLF     bool
	FinalEOL bool
	Upper    int  // per-mille of upper-case nucleotides
	PlusID   bool // FASTQ: "+id" separator lines
	BOM      bool // the file starts with a UTF-8 byte order mark (the readers skip it)
}

func (st FileStyle) eol() string {
	if st.CRLF {
		return "\r\n"
	}
	return "\n"
}

const idChars = "abcdefghijklmnopqrstuvwxyzABCDEFGHIJKLMNOPQRSTUVWXYZ0123456789_.:|-"

// RandID draws an identifier without blanks; hostile adds '>' '@' '+' '{' inside (never first).
func RandID(r *rand.Rand, hostile bool) string {
	n := 1 + r.Intn(12)
	b := make([]byte, n)
	for i := range b {
		b[i] = idChars[r.Intn(len(idChars))]
		if hostile && i > 0 && r.Intn(4) == 0 {
			b[i] = ">@+{}="[r.Intn(6)]
		}
	}
	return string(b)
}

// RandDef draws a definition: empty, plain words, hostile characters, or a simple JSON map.
func RandDef(r *rand.Rand, kind int) string {
	// hostile words include '>' '@' '+' at the START of a word, i.e. preceded by a blank on the title line
	words := []string{"Homo", "sapiens", "16S", "rRNA", "partial", "sequence", "x>y", "a@b", "p+q", "{brace", "k=v;", "count=3", ">10", "@home", "+1", ">", "@", "+"}
	switch kind {
	case 0:
		return ""
	case 1:
		n := 1 + r.Intn(5)
		w := make([]string, n)
		for i := range w {
			w[i] = words[r.Intn(6)]
		}
		return strings.Join(w, " ")
	case 2:
		n := 1 + r.Intn(5)
		w := make([]string, n)
		for i := range w {
			w[i] = words[r.Intn(len(words))]
		}
		return strings.Join(w, " ")
	default:
		return fmt.Sprintf(`{"count":%d,"sample":"s%d"}`, 1+r.Intn(50), r.Intn(9))
	}
}

// LongDef returns a definition of about n bytes: a JSON object (asJSON) or plain words.
func LongDef(r *rand.Rand, n int, asJSON bool) string {
	var sb strings.Builder
	if asJSON {
		sb.WriteString(`{"count":` + fmt.Sprint(1+r.Intn(50)) + `,"merged_sample":{`)
		for i := 0; sb.Len() < n-20; i++ {
			if i > 0 {
				sb.WriteByte(',')
			}
			fmt.Fprintf(&sb, `"sample_%04d":%d`, i, 1+r.Intn(999))
		}
		sb.WriteString("}}")
		return sb.String()
	}
	for sb.Len() < n {
		if sb.Len() > 0 {
			sb.WriteByte(' ')
		}
		sb.WriteString([]string{"Homo", "sapiens", "16S", "rRNA", "partial", "sequence"}[r.Intn(6)])
	}
	return sb.String()
}

// RandRec draws a record for the format.
func RandRec(r *rand.Rand, format string, i int, hostile bool, maxLen int) SeqRec {
	rec := SeqRec{ID: fmt.Sprintf("%s_%d", RandID(r, hostile && (format == "fasta" || format == "fastq")), i)}
	l := 1 + r.Intn(maxLen)
	if r.Intn(5) == 0 {
		l = []int{1, 2, 59, 60, 61, 10, 20}[r.Intn(7)]
	}
	seq := DNAIupac(r, l, []int{0, 0, 30}[r.Intn(3)])
	rec.Seq = string(seq)
	switch format {
	case "fasta", "fastq":
		if r.Intn(8) == 0 {
			// the other symbols the FASTA / FASTQ parsers accept in a sequence: gaps and brackets
			b := []byte(rec.Seq)
			for n := 1 + r.Intn(3); n > 0; n-- {
				b[r.Intn(len(b))] = "-.[]"[r.Intn(4)]
			}
			rec.Seq = string(b)
		}
		k := r.Intn(4)
		if !hostile && k == 2 {
			k = 1
		}
		rec.Def = RandDef(r, k)
		if r.Intn(40) == 0 {
			// a title line longer than the 4 KiB / 64 KiB buffers of the usual line readers (a record
			// carrying a large merged_* map has such a title)
			rec.Def = LongDef(r, []int{4000, 4090, 4096, 4100, 8200, 66000}[r.Intn(6)], k == 3)
		}
		if format == "fastq" {
			rec.Qual = make([]byte, l)
			mode := r.Intn(6)
			for j := range rec.Qual {
				switch mode {
				case 0: // quality line looks like nucleotides (letters only): Phred 32..57 -> 'A'..'Z'
					rec.Qual[j] = byte("ACGT"[r.Intn(4)] - 33)
				case 1: // starts with '@'
					rec.Qual[j] = byte(r.Intn(94))
					if j == 0 {
						rec.Qual[j] = '@' - 33
					}
				case 2: // starts with '+'
					rec.Qual[j] = byte(r.Intn(94))
					if j == 0 {
						rec.Qual[j] = '+' - 33
					}
				case 3: // full of '@' '+' '>'
					rec.Qual[j] = byte("@+>"[r.Intn(3)] - 33)
				default:
					rec.Qual[j] = byte(r.Intn(94))
				}
			}
		}
	default:
		if hostile && format == "genbank" && i > 0 && r.Intn(8) == 0 {
			rec.Seq = "" // CON entry (never the first record of a file: the sniffed formats start with a sequence)
		}
		n := 1 + r.Intn(3)
		for k := 0; k < n; k++ {
			rec.DefLines = append(rec.DefLines, RandDef(r, 1))
		}
		rec.Def = strings.Join(rec.DefLines, " ")
		rec.SciName = []string{"Homo sapiens", "Mus musculus", "Zea mays", "Escherichia coli K-12"}[r.Intn(4)]
		rec.Taxid = 1
		if r.Intn(3) != 0 {
			rec.HasTaxon = true
			rec.Taxid = 2 + r.Intn(99999)
		}
	}
	return rec
}

func caseMix(r *rand.Rand, s string, permille int) string {
	if permille == 0 {
		return s
	}
	b := []byte(s)
	for i, c := range b {
		if c >= 'a' && c <= 'z' && r.Intn(1000) < permille {
			b[i] = c - 32
		}
	}
	return string(b)
}

// Render renders the records in the given style.
func Render(r *rand.Rand, recs []SeqRec, st FileStyle) []byte {
	var sb strings.Builder
	eol := st.eol()
	if st.BOM {
		sb.WriteString("\xef\xbb\xbf")
	}
	for _, rec := range recs {
		seq := caseMix(r, rec.Seq, st.Upper)
		switch st.Format {
		case "fasta":
			sb.WriteString(">" + rec.ID)
			if rec.Def != "" {
				sb.WriteString(" " + rec.Def)
			}
			sb.WriteString(eol)
			if st.Fold <= 0 {
				sb.WriteString(seq + eol)
			} else {
				for p := 0; p < len(seq); p += st.Fold {
					sb.WriteString(seq[p:min(len(seq), p+st.Fold)] + eol)
				}
			}
		case "fastq":
			sb.WriteString("@" + rec.ID)
			if rec.Def != "" {
				sb.WriteString(" " + rec.Def)
			}
			sb.WriteString(eol + seq + eol + "+")
			if st.PlusID {
				sb.WriteString(rec.ID)
			}
			sb.WriteString(eol)
			q := make([]byte, len(rec.Qual))
			for i, v := range rec.Qual {
				q[i] = v + 33
			}
			sb.Write(q)
			sb.WriteString(eol)
		case "genbank":
			fmt.Fprintf(&sb, "LOCUS       %s %d bp    DNA     linear   UNA 01-JAN-2000%s", rec.ID, len(seq), eol)
			for i, d := range rec.DefLines {
				if i == 0 {
					sb.WriteString("DEFINITION  " + d + eol)
				} else {
					sb.WriteString("            " + d + eol)
				}
			}
			sb.WriteString("ACCESSION   " + rec.ID + eol)
			sb.WriteString("SOURCE      " + rec.SciName + eol)
			sb.WriteString("  ORGANISM  " + rec.SciName + eol)
			sb.WriteString("FEATURES             Location/Qualifiers" + eol)
			fmt.Fprintf(&sb, "     source          1..%d%s", len(seq), eol)
			fmt.Fprintf(&sb, "                     /organism=\"%s\"%s", rec.SciName, eol)
			if rec.HasTaxon {
				fmt.Fprintf(&sb, "                     /db_xref=\"taxon:%d\"%s", rec.Taxid, eol)
			}
			if r.Intn(3) == 0 {
				// a qualifier wrapped right after "http://": the line ENDS with the two slashes that,
				// at the START of a line, terminate an entry
				fmt.Fprintf(&sb, "                     /note=\"data and protocol at http://%s", eol)
				fmt.Fprintf(&sb, "                     example.org/%s\"%s", rec.ID, eol)
			}
			if rec.Seq == "" {
				// an entry of the CON division: the sequence is given by reference, there is no ORIGIN block
				sb.WriteString("CONTIG      join(" + rec.ID + "P1.1:1..100,gap(20)," + rec.ID + "P2.1:1..200)" + eol)
				sb.WriteString("//" + eol)
				continue
			}
			sb.WriteString("ORIGIN" + eol)
			for p := 0; p < len(seq); p += 60 {
				fmt.Fprintf(&sb, "%9d", p+1)
				for q := p; q < min(len(seq), p+60); q += 10 {
					sb.WriteString(" " + seq[q:min(len(seq), q+10)])
				}
				sb.WriteString(eol)
			}
			sb.WriteString("//" + eol)
		case "embl":
			fmt.Fprintf(&sb, "ID   %s; SV 1; linear; genomic DNA; STD; UNC; %d BP.%s", rec.ID, len(seq), eol)
			sb.WriteString("XX" + eol)
			for _, d := range rec.DefLines {
				sb.WriteString("DE   " + d + eol)
			}
			sb.WriteString("XX" + eol)
			sb.WriteString("OS   " + rec.SciName + eol)
			sb.WriteString("FH   Key             Location/Qualifiers" + eol)
			sb.WriteString("FH" + eol)
			fmt.Fprintf(&sb, "FT   source          1..%d%s", len(seq), eol)
			fmt.Fprintf(&sb, "FT                   /organism=\"%s\"%s", rec.SciName, eol)
			if rec.HasTaxon {
				fmt.Fprintf(&sb, "FT                   /db_xref=\"taxon:%d\"%s", rec.Taxid, eol)
			}
			if r.Intn(3) == 0 {
				fmt.Fprintf(&sb, "FT                   /note=\"data and protocol at http://%s", eol)
				fmt.Fprintf(&sb, "FT                   example.org/%s\"%s", rec.ID, eol)
			}
			fmt.Fprintf(&sb, "SQ   Sequence %d BP;%s", len(seq), eol)
			for p := 0; p < len(seq); p += 60 {
				line := "    "
				for q := p; q < min(len(seq), p+60); q += 10 {
					line += " " + seq[q:min(len(seq), q+10)]
				}
				fmt.Fprintf(&sb, "%-72s%8d%s", line, min(len(seq), p+60), eol)
			}
			sb.WriteString("//" + eol)
		}
	}
	out := sb.String()
	if !st.FinalEOL {
		out = strings.TrimSuffix(out, eol)
	}
	return []byte(out)
}

// RandStyle draws a rendering style for the format.
func RandStyle(r *rand.Rand, format string) FileStyle {
	st := FileStyle{Format: format, CRLF: r.Intn(4) == 0, FinalEOL: r.Intn(4) != 0, Upper: []int{0, 0, 300, 1000}[r.Intn(4)]}
	if format == "fasta" {
		st.Fold = []int{0, 1, 7, 60, 70, 80, 120, 1 + r.Intn(120)}[r.Intn(8)]
	}
	if format == "fastq" {
		st.PlusID = r.Intn(3) == 0
	}
	return st
}
