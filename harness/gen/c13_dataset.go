package gen

// Data sets for C13 (obiclean): samples x sequences x counts, with chains and
// stars of one-difference variants, ties in abundance, and contention sets.

import (
	"bytes"
	"fmt"
	"math/rand"
	"sort"
	"strconv"
	"strings"
)

// C13Seq is one record: a sequence and its number of reads in every sample it occurs in.
type C13Seq struct {
	Id     string
	Seq    []byte
	Counts map[string]int // sample -> count (>= 1)
}

// C13Data is one obiclean input.
type C13Data struct {
	Kind    string // random | dense | contention
	Tag     string // name of the sample attribute (merged_<Tag> holds the counts)
	Attr    bool   // true: every record carries <Tag>:"sample" and count (one sample per record) instead of the merged_<Tag> map
	Samples []string
	Seqs    []C13Seq
	// descriptors (measured on what was generated, used for the evidence classes)
	Ties  bool // at least one pair of one-edit neighbours with equal counts in a sample was planted
	Depth int  // longest planted chain of successive variants
	Star  int  // largest number of variants planted on one sequence
	// Stale: the records already carry obiclean annotations (the file is the result of an earlier
	// run, on these or on other data): they are results of the command, not data
	Stale bool
}

// C13Opts steers C13Random.
type C13Opts struct {
	NSeq      int
	NSamples  int
	MinLen    int
	MaxLen    int
	Alphabet  string // letters used for the roots ("acgt" or fewer for dense graphs)
	CountMode int    // 0 wide (1..10000), 1 narrow (1..3, many ties), 2 proportional to the father
	Attr      bool
	Tag       string
	DupRate   int // per mille of records that repeat an existing sequence under a new id
}

func c13root(r *rand.Rand, n int, alphabet string) []byte {
	s := make([]byte, n)
	for i := range s {
		s[i] = alphabet[r.Intn(len(alphabet))]
	}
	if r.Intn(4) == 0 && n >= 6 { // a homopolymer run: indel positions become ambiguous
		p := r.Intn(n - 3)
		l := 2 + r.Intn(min(6, n-p-1))
		for i := p; i < p+l && i < n; i++ {
			s[i] = s[p]
		}
	}
	return s
}

// c13edit applies one edit drawn over the given alphabet.
func c13edit(r *rand.Rand, s []byte, alphabet string) []byte {
	t := append([]byte{}, s...)
	switch op := r.Intn(3); {
	case op == 0 && len(alphabet) > 1:
		p := r.Intn(len(t))
		c := alphabet[r.Intn(len(alphabet))]
		for c == t[p] {
			c = alphabet[r.Intn(len(alphabet))]
		}
		t[p] = c
	case op == 1 && len(t) > 2:
		p := r.Intn(len(t))
		t = append(t[:p], t[p+1:]...)
	default:
		p := r.Intn(len(t) + 1)
		t = append(t[:p], append([]byte{alphabet[r.Intn(len(alphabet))]}, t[p:]...)...)
	}
	return t
}

// C13Random builds a data set of families of variants.
func C13Random(r *rand.Rand, o C13Opts) C13Data {
	d := C13Data{Kind: "random", Tag: o.Tag, Attr: o.Attr}
	if len(o.Alphabet) < 4 {
		d.Kind = "dense"
	}
	for i := 0; i < o.NSamples; i++ {
		d.Samples = append(d.Samples, fmt.Sprintf("%s%d", []string{"pcr", "S", "x_", ""}[(o.NSamples+len(o.Alphabet))%4], i+1)) // "": numbered samples (1, 2, ...)
	}
	type meta struct {
		depth, sons int
		parent      int
	}
	var metas []meta
	nroots := 1 + r.Intn(1+min(7, o.NSeq/6))
	newCount := func(father map[string]int, s string) int {
		switch o.CountMode {
		case 1:
			return 1 + r.Intn(3)
		case 2:
			if f, ok := father[s]; ok {
				switch r.Intn(10) {
				case 0:
					return f // tie
				case 1:
					return f + 1 + r.Intn(f+1) // more abundant than its model
				default:
					return 1 + r.Intn(max(1, f/(1+r.Intn(20))))
				}
			}
			return 1 + r.Intn(50)
		default:
			if r.Intn(3) == 0 {
				return 1 + r.Intn(4)
			}
			return 1 + r.Intn(10000)
		}
	}
	for len(d.Seqs) < o.NSeq {
		var seq []byte
		var fatherCounts map[string]int
		m := meta{parent: -1}
		k := r.Intn(1000)
		switch {
		case len(d.Seqs) < nroots || k < 80:
			seq = c13root(r, o.MinLen+r.Intn(o.MaxLen-o.MinLen+1), o.Alphabet)
		case k < 80+o.DupRate:
			p := r.Intn(len(d.Seqs))
			seq = append([]byte{}, d.Seqs[p].Seq...)
			fatherCounts = d.Seqs[p].Counts
		default:
			var p int
			switch r.Intn(3) {
			case 0: // star on a root
				p = r.Intn(nroots)
			case 1: // chain: extend the most recent sequence
				p = len(d.Seqs) - 1
			default:
				p = r.Intn(len(d.Seqs))
			}
			nedit := 1
			if k > 850 {
				nedit = 2 + r.Intn(2)
			}
			seq = d.Seqs[p].Seq
			for e := 0; e < nedit; e++ {
				seq = c13edit(r, seq, o.Alphabet)
			}
			fatherCounts = d.Seqs[p].Counts
			if nedit == 1 {
				m.parent = p
				m.depth = metas[p].depth + 1
				metas[p].sons++
			}
		}
		rec := C13Seq{Id: fmt.Sprintf("q%04d", len(d.Seqs)), Seq: seq, Counts: map[string]int{}}
		if o.Attr {
			s := d.Samples[r.Intn(len(d.Samples))]
			if fatherCounts != nil && r.Intn(4) != 0 { // mostly in the sample of its model
				for fs := range fatherCounts {
					s = fs
				}
			}
			rec.Counts[s] = newCount(fatherCounts, s)
		} else {
			for _, s := range d.Samples {
				_, inFather := fatherCounts[s]
				if (inFather && r.Intn(10) < 8) || (!inFather && r.Intn(10) < 3) {
					rec.Counts[s] = newCount(fatherCounts, s)
				}
			}
			if len(rec.Counts) == 0 {
				s := d.Samples[r.Intn(len(d.Samples))]
				rec.Counts[s] = newCount(fatherCounts, s)
			}
		}
		if m.parent >= 0 {
			for s, c := range rec.Counts {
				if fatherCounts[s] == c {
					d.Ties = true
				}
			}
		}
		d.Seqs = append(d.Seqs, rec)
		metas = append(metas, m)
	}
	for _, m := range metas {
		d.Depth = max(d.Depth, m.depth)
		d.Star = max(d.Star, m.sons)
	}
	return d
}

// C13Contention builds a contention set: in every sample a very abundant top
// sequence, `mids` abundant one-error variants of it, and for every variant
// nsons one-error sons (two errors away from the top), all with small counts,
// so that every worker of the pairwise loop updates the same few nodes and the
// weight of the top depends on every son having been counted.
func C13Contention(r *rand.Rand, nsons, mids, nsamples int, equalSons bool, tag string) C13Data {
	d := C13Data{Kind: "contention", Tag: tag}
	for i := 0; i < nsamples; i++ {
		d.Samples = append(d.Samples, fmt.Sprintf("c%d", i+1))
	}
	L := max(40, nsons/3)
	top := DNA(r, L)
	counts := func(base int) map[string]int {
		m := map[string]int{}
		for _, s := range d.Samples {
			m[s] = base + r.Intn(base/10+1)
		}
		return m
	}
	seen := map[string]bool{string(top): true}
	d.Seqs = append(d.Seqs, C13Seq{Id: "top", Seq: top, Counts: counts(1000000)})
	for m := 0; m < mids; m++ {
		mid := append([]byte{}, top...)
		p := m // the difference with the top is at position m
		c := ACGT[r.Intn(4)]
		for c == mid[p] {
			c = ACGT[r.Intn(4)]
		}
		mid[p] = c
		seen[string(mid)] = true
		d.Seqs = append(d.Seqs, C13Seq{Id: fmt.Sprintf("mid%d", m), Seq: mid, Counts: counts(10000 * (m + 1))})
		n := 0
		for tries := 0; n < nsons && tries < nsons*20; tries++ {
			son := append([]byte{}, mid...)
			p := mids + 1 + r.Intn(L-mids-1)
			switch r.Intn(6) {
			case 0:
				son = append(son[:p], son[p+1:]...)
			case 1:
				son = append(son[:p], append([]byte{ACGT[r.Intn(4)]}, son[p:]...)...)
			default:
				c := ACGT[r.Intn(4)]
				for c == son[p] {
					c = ACGT[r.Intn(4)]
				}
				son[p] = c
			}
			if seen[string(son)] {
				continue
			}
			seen[string(son)] = true
			cm := map[string]int{}
			for _, s := range d.Samples {
				if nsamples == 1 || r.Intn(4) != 0 {
					if equalSons {
						cm[s] = 1
					} else {
						cm[s] = 1 + r.Intn(3)
					}
				}
			}
			if len(cm) == 0 {
				cm[d.Samples[0]] = 1
			}
			d.Seqs = append(d.Seqs, C13Seq{Id: fmt.Sprintf("m%ds%04d", m, n), Seq: son, Counts: cm})
			n++
		}
		d.Star = max(d.Star, n)
	}
	d.Depth = 2
	d.Ties = equalSons
	// input order must not be the sorted order: shuffle
	r.Shuffle(len(d.Seqs), func(i, j int) { d.Seqs[i], d.Seqs[j] = d.Seqs[j], d.Seqs[i] })
	return d
}

// Fasta renders the data set as obiuniq would have written it (JSON headers).
func (d C13Data) Fasta() []byte {
	var b bytes.Buffer
	for _, s := range d.Seqs {
		total := 0
		keys := make([]string, 0, len(s.Counts))
		for k, c := range s.Counts {
			keys = append(keys, k)
			total += c
		}
		sort.Strings(keys)
		stale := ""
		if d.Stale {
			st := make([]string, len(keys))
			wt := make([]string, len(keys))
			for i, k := range keys {
				st[i] = fmt.Sprintf("\"%s\":\"%c\"", k, "his"[(len(s.Id)+i+total)%3])
				wt[i] = fmt.Sprintf("\"%s\":%d", k, 1+(total*7+i)%90)
			}
			stale = fmt.Sprintf(",\"obiclean_status\":{%s},\"obiclean_weight\":{%s},\"obiclean_mutation\":{\"ghost\":\"(a)->(c)@1\"},\"obiclean_head\":%v,\"obiclean_headcount\":%d",
				strings.Join(st, ","), strings.Join(wt, ","), total%2 == 0, total%3)
		}
		if d.Attr {
			if _, err := strconv.Atoi(keys[0]); err == nil && keys[0][0] != '0' {
				// a numbered sample is written as the number it is (the header parsers type it as an integer)
				fmt.Fprintf(&b, ">%s {\"count\":%d,\"%s\":%s%s}\n", s.Id, total, d.Tag, keys[0], stale)
			} else {
				fmt.Fprintf(&b, ">%s {\"count\":%d,\"%s\":\"%s\"%s}\n", s.Id, total, d.Tag, keys[0], stale)
			}
		} else if d.Stale {
			parts := make([]string, len(keys))
			for i, k := range keys {
				parts[i] = fmt.Sprintf("\"%s\":%d", k, s.Counts[k])
			}
			fmt.Fprintf(&b, ">%s {\"count\":%d,\"merged_%s\":{%s}%s}\n", s.Id, total, d.Tag, strings.Join(parts, ","), stale)
		} else {
			parts := make([]string, len(keys))
			for i, k := range keys {
				parts[i] = fmt.Sprintf("\"%s\":%d", k, s.Counts[k])
			}
			fmt.Fprintf(&b, ">%s {\"count\":%d,\"merged_%s\":{%s}}\n", s.Id, total, d.Tag, strings.Join(parts, ","))
		}
		b.Write(s.Seq)
		b.WriteByte('\n')
	}
	return b.Bytes()
}
