package gen

// Generators of the in-silico PCR check (C11): IUPAC primers, templates with
// planted priming sites at chosen mismatch counts and distances.

import (
	"math/rand"
)

var iupacSets = map[byte]string{
	'a': "a", 'c': "c", 'g': "g", 't': "t",
	'r': "ag", 'y': "ct", 's': "cg", 'w': "at", 'k': "gt", 'm': "ac",
	'b': "cgt", 'd': "agt", 'h': "act", 'v': "acg", 'n': "acgt",
}

var complBase = map[byte]byte{'a': 't', 'c': 'g', 'g': 'c', 't': 'a'}

// Primer returns a primer of n IUPAC codes; permille = rate of ambiguity codes.
func Primer(r *rand.Rand, n int, permille int) string {
	return string(DNAIupac(r, n, permille))
}

// PCRInstance returns a template window that the primer matches with exactly k
// mismatches (fewer when the primer has fewer than k positions that can mismatch).
func PCRInstance(r *rand.Rand, primer string, k int) []byte {
	w := make([]byte, len(primer))
	var mutable []int
	for i := 0; i < len(primer); i++ {
		set := iupacSets[primer[i]]
		w[i] = set[r.Intn(len(set))]
		if len(set) < 4 {
			mutable = append(mutable, i)
		}
	}
	r.Shuffle(len(mutable), func(i, j int) { mutable[i], mutable[j] = mutable[j], mutable[i] })
	for _, i := range mutable[:min(k, len(mutable))] {
		set := iupacSets[primer[i]]
		var outside []byte
		for _, b := range []byte(ACGT) {
			in := false
			for j := 0; j < len(set); j++ {
				if set[j] == b {
					in = true
				}
			}
			if !in {
				outside = append(outside, b)
			}
		}
		w[i] = outside[r.Intn(len(outside))]
	}
	return w
}

// PCRRevCompACGT reverse-complements a string over a,c,g,t.
func PCRRevCompACGT(s []byte) []byte {
	o := make([]byte, len(s))
	for i, c := range s {
		o[len(s)-1-i] = complBase[c]
	}
	return o
}

// PlantSpec describes one planted amplicon.
type PlantSpec struct {
	At      int  `json:"at"`      // start of the construct in the template
	Reverse bool `json:"reverse"` // construct planted as its reverse complement
	Insert  int  `json:"insert"`  // distance between the sites (negative: the sites overlap)
	K1, K2  int  // mismatches of the two sites
}

// Construct builds  instance(F, k1) + insert + revcomp(instance(R, k2));
// a negative insert overlays the beginning of the second site on the end of the first.
func Construct(r *rand.Rand, fwd, rev string, k1, k2, insert int) []byte {
	a := PCRInstance(r, fwd, k1)
	b := PCRRevCompACGT(PCRInstance(r, rev, k2))
	if insert >= 0 {
		out := append([]byte{}, a...)
		out = append(out, DNA(r, insert)...)
		return append(out, b...)
	}
	ov := min(-insert, len(a), len(b))
	out := append([]byte{}, a...)
	return append(out, b[ov:]...)
}

// Overlay writes w into t at position at (clipped to the template); on a
// circular template the write wraps around the origin.
func Overlay(t []byte, w []byte, at int, circular bool) {
	N := len(t)
	for i, c := range w {
		p := at + i
		if circular {
			p = ((p % N) + N) % N
		} else if p < 0 || p >= N {
			continue
		}
		t[p] = c
	}
}

// Rotate returns t[r:] + t[:r].
func Rotate(t []byte, r int) []byte {
	N := len(t)
	if N == 0 {
		return nil
	}
	r = ((r % N) + N) % N
	o := make([]byte, 0, N)
	o = append(o, t[r:]...)
	return append(o, t[:r]...)
}
