package gen

// Generators for C12 (demultiplexing): sample sheets in the two accepted
// formats and reads assembled from them. The model below is what the sheet
// *declares*; the text is rendered from it (never the other way round), so the
// oracle never has to parse a sheet.

import (
	"fmt"
	"math/rand"
	"strings"
)

// C12Sample is one PCR line of a sheet.
type C12Sample struct {
	FTag, RTag string // "" = this side is not tagged
	Name, Exp  string
	Extra      string // value of the supplementary annotation "note"
}

// C12Marker is one primer pair with its samples and its declared parameters.
type C12Marker struct {
	Fwd, Rev         string // lower case, IUPAC codes allowed
	Form             string // pair | same | fonly | ronly
	FLen, RLen       int    // tag lengths (0 = side not tagged)
	Samples          []C12Sample
	FSpacer, RSpacer int
	FErr, RErr       int  // primer mismatch budget declared by the sheet (default 2)
	FDelim, RDelim   byte // 0 = fixed-position tags
	FIndels, RIndels int  // tag_indels (delimited tags only)
}

// C12Sheet is a whole sample sheet plus the command-line override of the primer budget.
type C12Sheet struct {
	Format       string // legacy | csv
	Matching     string // strict | hamming | indel (legacy: always strict)
	Markers      []C12Marker
	CmdErr       int // value of -e (0 = option not given)
	Delim        bool
	LongLine     bool // one legacy sample line is longer than 64 KiB
	BigSheet     bool // some two thousand samples: the sheet is larger than 128 KiB
	LongHeader   bool // more than 3 KiB of comments before the first sample line
	ClosePrimers bool // the forward primers of two markers differ by one substitution
	Text         string
}

// BudgetF / BudgetR: effective primer mismatch budgets of marker i.
func (s *C12Sheet) BudgetF(i int) int {
	if s.CmdErr > 0 {
		return s.CmdErr
	}
	return s.Markers[i].FErr
}
func (s *C12Sheet) BudgetR(i int) int {
	if s.CmdErr > 0 {
		return s.CmdErr
	}
	return s.Markers[i].RErr
}

// C12Opt restricts the sheet generator.
type C12Opt struct {
	Delim bool // allow delimiter-based / rescue tag extraction (safety clause only)
}

var c12comp = map[byte]byte{'a': 't', 'c': 'g', 'g': 'c', 't': 'a', 'r': 'y', 'y': 'r', 's': 's', 'w': 'w', 'k': 'm', 'm': 'k', 'b': 'v', 'v': 'b', 'd': 'h', 'h': 'd', 'n': 'n'}

// C12RC is the reverse complement of an IUPAC string (lower case).
func C12RC(s string) string {
	b := make([]byte, len(s))
	for i := 0; i < len(s); i++ {
		c, ok := c12comp[s[i]]
		if !ok {
			c = 'n'
		}
		b[len(s)-1-i] = c
	}
	return string(b)
}

var c12sets = map[byte]string{'a': "a", 'c': "c", 'g': "g", 't': "t", 'r': "ag", 'y': "ct", 's': "cg", 'w': "at", 'k': "gt", 'm': "ac", 'b': "cgt", 'd': "agt", 'h': "act", 'v': "acg", 'n': "acgt"}

func c12dist(a, b string, lev bool) int {
	if !lev {
		if len(a) != len(b) {
			return 1 << 20
		}
		n := 0
		for i := range a {
			if a[i] != b[i] {
				n++
			}
		}
		return n
	}
	prev := make([]int, len(b)+1)
	cur := make([]int, len(b)+1)
	for j := range prev {
		prev[j] = j
	}
	for i := 1; i <= len(a); i++ {
		cur[0] = i
		for j := 1; j <= len(b); j++ {
			c := prev[j-1]
			if a[i-1] != b[j-1] {
				c++
			}
			c = min(c, prev[j]+1, cur[j-1]+1)
			cur[j] = c
		}
		prev, cur = cur, prev
	}
	return prev[len(b)]
}

// c12TagSet draws up to n tags of length l with pairwise distance >= dmin
// (Hamming, or Levenshtein when lev), never containing the base avoid.
func c12TagSet(r *rand.Rand, n, l int, lev bool, avoid byte) []string {
	dmin := 3
	switch {
	case l <= 2:
		dmin = 1
	case l <= 4:
		dmin = 2
	}
	if avoid != 0 && l <= 3 {
		dmin = 1
	}
	var tags []string
	for try := 0; try < 400 && len(tags) < n; try++ {
		b := make([]byte, l)
		for i := range b {
			b[i] = ACGT[r.Intn(4)]
			for b[i] == avoid {
				b[i] = ACGT[r.Intn(4)]
			}
		}
		t := string(b)
		ok := true
		for _, u := range tags {
			if c12dist(t, u, lev) < dmin {
				ok = false
				break
			}
		}
		if ok {
			tags = append(tags, t)
		}
	}
	return tags
}

func c12Primer(r *rand.Rand, iupac bool) string {
	n := 16 + r.Intn(13)
	b := DNA(r, n)
	if iupac {
		for k := 1 + r.Intn(3); k > 0; k-- {
			b[r.Intn(n)] = Ambig[r.Intn(len(Ambig))]
		}
	}
	return string(b)
}

func c12Case(r *rand.Rand, s string) string {
	switch r.Intn(3) {
	case 0:
		return strings.ToUpper(s)
	}
	return s
}

// C12MakeSheet draws a well-formed sample sheet and renders its text.
func C12MakeSheet(r *rand.Rand, opt C12Opt) *C12Sheet {
	sh := &C12Sheet{Format: "csv", Matching: "strict", Delim: opt.Delim}
	if !opt.Delim && r.Intn(5) < 2 {
		sh.Format = "legacy"
	}
	if sh.Format == "csv" {
		sh.Matching = []string{"strict", "hamming", "indel"}[r.Intn(3)]
	}
	lev := sh.Matching == "indel"
	nm := 1 + r.Intn(3)
	iupac := r.Intn(4) == 0
	var delim byte
	if opt.Delim {
		delim = ACGT[r.Intn(4)]
	}
	seenPrimer := map[string]bool{}
	newPrimer := func() string {
		for {
			p := c12Primer(r, iupac)
			if !seenPrimer[p] && !seenPrimer[C12RC(p)] {
				seenPrimer[p] = true
				return p
			}
		}
	}
	bigSheet := sh.Format == "csv" && !opt.Delim && r.Intn(40) == 0
	if bigSheet {
		nm = 1
		sh.BigSheet = true
	}
	closePrimers := nm > 1 && r.Intn(6) == 0
	ns := 0
	for mi := 0; mi < nm; mi++ {
		m := C12Marker{Fwd: newPrimer(), Rev: newPrimer(), FErr: 2, RErr: 2}
		if mi > 0 && closePrimers {
			// a variant of the forward primer of the first marker (one substitution: inside every
			// non-zero budget), with an unrelated reverse primer
			f := []byte(sh.Markers[0].Fwd)
			for {
				i := r.Intn(len(f))
				if strings.IndexByte(ACGT, f[i]) < 0 {
					continue
				}
				f[i] = ACGT[(strings.IndexByte(ACGT, f[i])+1+r.Intn(3))%4]
				break
			}
			if !seenPrimer[string(f)] && !seenPrimer[C12RC(string(f))] {
				seenPrimer[string(f)] = true
				m.Fwd = string(f)
				sh.ClosePrimers = true
			}
		}
		m.Form = []string{"pair", "pair", "pair", "pair", "pair", "same", "same", "fonly", "ronly", "pair"}[r.Intn(10)]
		tl := func() int {
			if delim != 0 { // delimited / rescued tags: long enough for tag_indels (<= 2) to make sense
				return 3 + r.Intn(7)
			}
			switch r.Intn(8) {
			case 0:
				return 1 + r.Intn(3)
			case 1:
				return 10
			}
			return 4 + r.Intn(6)
		}
		exp := fmt.Sprintf("exp%c", 'A'+byte(r.Intn(3)))
		add := func(f, rv string) {
			ns++
			names := []string{"s%d", "S_%d", "pcr-%d", "smp.%d"}
			m.Samples = append(m.Samples, C12Sample{FTag: f, RTag: rv, Name: fmt.Sprintf(names[r.Intn(len(names))], ns), Exp: exp, Extra: fmt.Sprintf("x%d", r.Intn(1000))})
		}
		if bigSheet {
			m.Form = "pair"
		}
		switch m.Form {
		case "pair":
			m.FLen, m.RLen = tl(), tl()
			nf, nr := 1+r.Intn(6), 1+r.Intn(6)
			if bigSheet {
				// a plate design: some 45 x 45 tag combinations, a sheet of 150 KiB and more
				m.FLen, m.RLen, nf, nr = 9, 9, 48, 48
			}
			ft := c12TagSet(r, nf, m.FLen, lev, delim)
			rt := c12TagSet(r, nr, m.RLen, lev, delim)
			for _, f := range ft {
				for _, rv := range rt {
					if bigSheet || r.Intn(10) < 6 {
						add(f, rv)
					}
				}
			}
			if len(m.Samples) == 0 {
				add(ft[0], rt[0])
			}
		case "same":
			m.FLen = tl()
			m.RLen = m.FLen
			ts := c12TagSet(r, 1+r.Intn(8), m.FLen, lev, delim)
			for _, t := range ts {
				add(t, t)
			}
			if len(ts) > 1 && r.Intn(3) == 0 { // a few mixed pairs next to the symmetric ones
				add(ts[0], ts[1])
			}
		case "fonly":
			m.FLen = tl()
			for _, t := range c12TagSet(r, 1+r.Intn(8), m.FLen, lev, delim) {
				add(t, "")
			}
		case "ronly":
			m.RLen = tl()
			for _, t := range c12TagSet(r, 1+r.Intn(8), m.RLen, lev, delim) {
				add("", t)
			}
		}
		sh.Markers = append(sh.Markers, m)
	}
	if r.Intn(10) < 3 {
		sh.CmdErr = 1 + r.Intn(3)
	}
	if sh.Format == "legacy" {
		sh.Text = c12RenderLegacy(r, sh)
	} else {
		sh.Text = c12RenderCSV(r, sh, delim)
	}
	if r.Intn(8) == 0 { // sheet edited on another system: CRLF line ends
		sh.Text = strings.ReplaceAll(sh.Text, "\n", "\r\n")
	}
	return sh
}

func c12TagWord(r *rand.Rand, s C12Sample) string {
	f, rv := s.FTag, s.RTag
	switch {
	case f == "" && rv == "":
		return "-:-"
	case f == "":
		return "-:" + c12Case(r, rv)
	case rv == "":
		return c12Case(r, f) + ":-"
	case f == rv && r.Intn(4) != 0:
		return c12Case(r, f)
	}
	return c12Case(r, f) + ":" + c12Case(r, rv)
}

func c12RenderLegacy(r *rand.Rand, sh *C12Sheet) string {
	var b strings.Builder
	if r.Intn(2) == 0 {
		b.WriteString("#exp\tsample\ttags\tforward_primer\treverse_primer\textra_information\n")
	}
	sep := []string{"\t", " ", "  "}[r.Intn(3)]
	// now and then one sample line carries a very long free-text annotation (longer than the 64 KiB
	// a line scanner accepts by default): the samples declared after it must still be read
	long := -1
	if r.Intn(8) == 0 {
		n := 0
		for _, m := range sh.Markers {
			n += len(m.Samples)
		}
		long = r.Intn(max(1, n))
		sh.LongLine = true
	}
	line := 0
	for _, m := range sh.Markers {
		fw, rv := c12Case(r, m.Fwd), c12Case(r, m.Rev)
		for _, s := range m.Samples {
			f := []string{s.Exp, s.Name, c12TagWord(r, s), fw, rv, "F"}
			b.WriteString(strings.Join(f, sep))
			line++
			if line-1 == long {
				fmt.Fprintf(&b, "%s@ note=%s; comment=%s;\n", sep, s.Extra, strings.Repeat("lorem ipsum ", 5500+r.Intn(3000)))
				continue
			}
			switch r.Intn(3) {
			case 0:
				fmt.Fprintf(&b, "%s@ note=%s;", sep, s.Extra)
			case 1:
				fmt.Fprintf(&b, "%s@", sep)
			}
			b.WriteString("\n")
		}
		if r.Intn(4) == 0 {
			b.WriteString("\n")
		}
	}
	return b.String()
}

// c12RenderCSV chooses the parameters of the sheet, applies them to the model
// in the order in which the lines are written, and renders the CSV text.
func c12RenderCSV(r *rand.Rand, sh *C12Sheet, delim byte) string {
	var p []string
	ms := sh.Markers
	prim := func(s string) string { return c12Case(r, s) }
	if sh.Matching != "strict" || r.Intn(3) == 0 {
		p = append(p, "@param,matching,"+sh.Matching)
	}
	// spacers
	switch r.Intn(5) {
	case 0: // none declared
	case 1, 2:
		n := r.Intn(4)
		p = append(p, fmt.Sprintf("@param,spacer,%d", n))
		for i := range ms {
			ms[i].FSpacer, ms[i].RSpacer = n, n
		}
	default:
		f, rv := r.Intn(4), r.Intn(4)
		p = append(p, fmt.Sprintf("@param,forward_spacer,%d", f), fmt.Sprintf("@param,reverse_spacer,%d", rv))
		for i := range ms {
			ms[i].FSpacer, ms[i].RSpacer = f, rv
		}
	}
	for i := range ms {
		if r.Intn(4) == 0 {
			n := r.Intn(4)
			if r.Intn(2) == 0 {
				p = append(p, fmt.Sprintf("@param,spacer,%s,%d", prim(ms[i].Fwd), n))
				ms[i].FSpacer = n
			} else {
				p = append(p, fmt.Sprintf("@param,spacer,%s,%d", prim(ms[i].Rev), n))
				ms[i].RSpacer = n
			}
		}
	}
	// primer mismatch budgets
	switch r.Intn(6) {
	case 0, 1: // default (2)
	case 2, 3, 4:
		n := r.Intn(4)
		p = append(p, fmt.Sprintf("@param,primer_mismatches,%d", n))
		for i := range ms {
			ms[i].FErr, ms[i].RErr = n, n
		}
	default:
		f, rv := r.Intn(4), r.Intn(4)
		p = append(p, fmt.Sprintf("@param,forward_mismatches,%d", f), fmt.Sprintf("@param,reverse_mismatches,%d", rv))
		for i := range ms {
			ms[i].FErr, ms[i].RErr = f, rv
		}
	}
	for i := range ms {
		if r.Intn(5) == 0 {
			n := r.Intn(4)
			if r.Intn(2) == 0 {
				p = append(p, fmt.Sprintf("@param,primer_mismatches,%s,%d", prim(ms[i].Fwd), n))
				ms[i].FErr = n
			} else {
				p = append(p, fmt.Sprintf("@param,primer_mismatches,%s,%d", prim(ms[i].Rev), n))
				ms[i].RErr = n
			}
		}
	}
	if r.Intn(4) == 0 {
		p = append(p, "@param,indels,false")
	}
	if delim != 0 {
		ind := r.Intn(3)
		switch r.Intn(3) {
		case 0:
			p = append(p, fmt.Sprintf("@param,tag_delimiter,%c", delim))
			for i := range ms {
				ms[i].FDelim, ms[i].RDelim = delim, delim
			}
		case 1:
			p = append(p, fmt.Sprintf("@param,forward_tag_delimiter,%c", delim))
			for i := range ms {
				ms[i].FDelim = delim
			}
		default:
			p = append(p, fmt.Sprintf("@param,forward_tag_delimiter,%c", delim), fmt.Sprintf("@param,reverse_tag_delimiter,%c", delim))
			for i := range ms {
				ms[i].FDelim, ms[i].RDelim = delim, delim
			}
		}
		if ind > 0 {
			p = append(p, fmt.Sprintf("@param,tag_indels,%d", ind))
			for i := range ms {
				ms[i].FIndels, ms[i].RIndels = ind, ind
			}
		}
	}
	var b strings.Builder
	if r.Intn(2) == 0 {
		b.WriteString("# sample sheet\n")
	}
	if r.Intn(8) == 0 {
		// a documented sheet (as the official template is): the comment block and the @param lines
		// take more than the 3 KiB that format sniffers look at by default
		for i := 0; i < 45+r.Intn(30); i++ {
			fmt.Fprintf(&b, "# %02d %s\n", i, strings.Repeat("documentation of the run ", 2+r.Intn(3)))
		}
		sh.LongHeader = true
	}
	for _, l := range p {
		b.WriteString(l + "\n")
		if r.Intn(8) == 0 {
			b.WriteString("#\n")
		}
	}
	cols := []string{"experiment", "sample", "sample_tag", "forward_primer", "reverse_primer"}
	extra := r.Intn(2) == 0
	quote := r.Intn(8) == 0 // quoted text fields, as spreadsheet exports write them
	if extra {
		cols = append(cols, "note")
	}
	if r.Intn(3) == 0 {
		r.Shuffle(len(cols), func(i, j int) { cols[i], cols[j] = cols[j], cols[i] })
	}
	b.WriteString(strings.Join(cols, ",") + "\n")
	for _, m := range ms {
		fw, rv := c12Case(r, m.Fwd), c12Case(r, m.Rev)
		for _, s := range m.Samples {
			v := map[string]string{"experiment": s.Exp, "sample": s.Name, "sample_tag": c12TagWord(r, s), "forward_primer": fw, "reverse_primer": rv, "note": s.Extra}
			row := make([]string, len(cols))
			for i, c := range cols {
				row[i] = v[c]
				if quote && (c == "experiment" || c == "sample" || c == "note") {
					row[i] = `"` + v[c] + `"`
				}
			}
			b.WriteString(strings.Join(row, ",") + "\n")
		}
	}
	return b.String()
}

// ---------------------------------------------------------------------------
// reads

// C12Amp is one amplicon of a read, described in its own forward orientation:
//
//	FPre + FwdInst + Barcode + rc(RPre + RevInst)
//
// FPre is what precedes the forward primer (tag, then spacer); RPre is the same
// thing on the reverse-primer side, written in the orientation of the reverse primer.
type C12Amp struct {
	Marker, Sample   int // Sample = index of the sample whose tags were used (-1: none in particular)
	FPre, RPre       string
	FwdInst, RevInst string
	Barcode          string
	Reverse          bool // placed reverse-complemented in the read
	Start            int  // offset of the amplicon in the read
	Note             string
}

// Seq returns the amplicon in its forward orientation.
func (a *C12Amp) Seq() string {
	return a.FPre + a.FwdInst + a.Barcode + C12RC(a.RPre+a.RevInst)
}

// Placed returns the amplicon as it is written in the read.
func (a *C12Amp) Placed() string {
	if a.Reverse {
		return C12RC(a.Seq())
	}
	return a.Seq()
}

// C12Read is a read and its construction.
type C12Read struct {
	Seq   string
	Amps  []C12Amp
	Class string
}

// C12Assemble concatenates flank + amplicon (+ mid + amplicon …) + flank.
func C12Assemble(class string, flanks []string, amps []C12Amp) *C12Read {
	var b strings.Builder
	for i := range amps {
		b.WriteString(flanks[i])
		amps[i].Start = b.Len()
		b.WriteString(amps[i].Placed())
	}
	b.WriteString(flanks[len(amps)])
	return &C12Read{Seq: b.String(), Amps: amps, Class: class}
}

// C12Instance writes a primer as it could appear in a read: every IUPAC code is
// replaced by one admitted base, then mis positions receive a base that the code
// does not admit (positions whose code is n cannot carry a mismatch).
func C12Instance(r *rand.Rand, primer string, mis int) string {
	b := make([]byte, len(primer))
	var can []int
	for i := 0; i < len(primer); i++ {
		set := c12sets[primer[i]]
		b[i] = set[r.Intn(len(set))]
		if len(set) < 4 {
			can = append(can, i)
		}
	}
	r.Shuffle(len(can), func(i, j int) { can[i], can[j] = can[j], can[i] })
	if mis > 0 && r.Intn(3) == 0 { // favour the ends of the primer
		e := []int{0, len(primer) - 1}[r.Intn(2)]
		for i, p := range can {
			if p == e {
				can[0], can[i] = can[i], can[0]
				break
			}
		}
	}
	for k := 0; k < mis && k < len(can); k++ {
		i := can[k]
		set := c12sets[primer[i]]
		c := ACGT[r.Intn(4)]
		for strings.IndexByte(set, c) >= 0 {
			c = ACGT[r.Intn(4)]
		}
		b[i] = c
	}
	return string(b)
}

// C12Substitute changes k distinct positions of s to a different base (never to avoid).
func C12Substitute(r *rand.Rand, s string, k int, avoid byte) string {
	b := []byte(s)
	perm := r.Perm(len(b))
	for i := 0; i < k && i < len(perm); i++ {
		p := perm[i]
		c := ACGT[r.Intn(4)]
		for c == b[p] || c == avoid {
			c = ACGT[r.Intn(4)]
		}
		b[p] = c
	}
	return string(b)
}

// C12Indel applies k single-base insertions / deletions to s.
func C12Indel(r *rand.Rand, s string, k int, avoid byte) string {
	b := []byte(s)
	for ; k > 0; k-- {
		if len(b) > 1 && r.Intn(2) == 0 {
			p := r.Intn(len(b))
			b = append(b[:p:p], b[p+1:]...)
		} else {
			p := r.Intn(len(b) + 1)
			c := ACGT[r.Intn(4)]
			for c == avoid {
				c = ACGT[r.Intn(4)]
			}
			b = append(b[:p:p], append([]byte{c}, b[p:]...)...)
		}
	}
	return string(b)
}

// C12Flank draws a flank: empty, short or medium.
func C12Flank(r *rand.Rand, minLen int) string {
	n := 0
	switch r.Intn(4) {
	case 0:
		n = 0
	case 1:
		n = r.Intn(6)
	default:
		n = r.Intn(41)
	}
	return string(DNA(r, max(n, minLen)))
}
