package gen

// Workloads of property C06 (dereplication): multisets of records with
// duplicated sequences, counts, category / merge attributes that are present,
// absent or already merged, and the FASTA text (JSON title-line annotations).

import (
	"encoding/json"
	"fmt"
	"math/rand"
	"sort"
	"strings"

	"verifh/ref"
)

// C06Params bounds a generated workload.
type C06Params struct {
	MinRecs, MaxRecs int
	MinSeqs, MaxSeqs int
	// OneMergeNoCatOverlap: exactly one merge key, not among the categories, singletons kept (demerge law).
	OneMergeNoCatOverlap bool
}

// C06Workload is a multiset of records plus the options of the dereplication.
type C06Workload struct {
	Recs []ref.C06Rec
	Opts ref.C06Opts
	// descriptors for the evidence
	NSeqs      int
	Premerged  bool // some record carries a merged map of a requested key
	Weighted   bool // the first merge descriptor is key:wgt
	MissingCat bool // some record lacks a requested category attribute
	ExplicitNA bool // some record carries the NA value explicitly in a category attribute
	IntValues  bool // some requested attribute has integer values
}

var c06CatPool = []string{"sample", "primer", "run"}
var c06MergePool = []string{"sample", "tag", "primer"}

type c06Attr struct {
	name    string
	isInt   bool
	domain  []any
	present int // per mille
}

// c06Sequences returns n distinct sequences; a part of them are close variants
// (one substitution, a prefix, an extension) of another one.
func c06Sequences(r *rand.Rand, n int) []string {
	seen := map[string]bool{}
	var out []string
	for len(out) < n {
		var s []byte
		if len(out) > 0 && r.Intn(100) < 35 {
			base := []byte(out[r.Intn(len(out))])
			switch r.Intn(4) {
			case 0:
				s = Mutate(r, base, 1)
			case 1:
				if len(base) > 4 {
					s = append([]byte{}, base[:len(base)-1-r.Intn(3)]...)
				}
			case 2:
				s = append(append([]byte{}, base...), DNA(r, 1+r.Intn(3))...)
			default: // same composition, reversed
				s = make([]byte, len(base))
				for i := range base {
					s[len(base)-1-i] = base[i]
				}
			}
		}
		if len(s) < 4 {
			s = DNA(r, 6+r.Intn(70))
		}
		if seen[string(s)] {
			continue
		}
		seen[string(s)] = true
		out = append(out, string(s))
	}
	return out
}

func c06Domain(r *rand.Rand, name string, isInt bool, na string, withNA bool) []any {
	n := 1 + r.Intn(5)
	var d []any
	for i := 0; i < n; i++ {
		if isInt {
			d = append(d, i+r.Intn(2)*10)
		} else {
			d = append(d, fmt.Sprintf("%c%s%d", name[0], []string{"A", "b", "X_", "v"}[r.Intn(4)], i))
		}
	}
	if !isInt && r.Intn(4) == 0 {
		// values holding the characters a composite key could be joined with: with two category
		// attributes, ("A|B","C") and ("A","B|C") are different classes
		d = []any{"A", "B", "C", "A|B", "B|C", "A,B", "B,C", "A B", "B C", "A/B", "B/C"}
	}
	if isInt && r.Intn(4) == 0 {
		// large identifiers that differ in their last digit only (distinct integers, equal once rounded
		// to single precision)
		d = append(d, 100000001, 100000002, 100000003)
	}
	if isInt && r.Intn(4) == 0 {
		// numeric values beyond the int64 range (20-digit identifiers): read back as floats
		d = append(d, 1e19, 2e19)
		if r.Intn(2) == 0 {
			d = append(d, 1.2345678901234567e19)
		}
	}
	// distinct printed forms
	seen := map[string]bool{}
	var u []any
	for _, v := range d {
		p := ref.C06Print(v)
		if !seen[p] {
			seen[p] = true
			u = append(u, v)
		}
	}
	if withNA && !isInt {
		u = append(u, na)
	}
	return u
}

// C06Generate draws a workload.
func C06Generate(r *rand.Rand, p C06Params) *C06Workload {
	w := &C06Workload{}
	na := "NA"
	switch r.Intn(10) {
	case 0, 1:
		na = "none"
	case 2:
		na = "" // an empty NA value is a value like another
	}
	w.Opts.NA = na
	// requested keys
	ncat := []int{0, 0, 0, 1, 1, 1, 1, 2, 2, 3}[r.Intn(10)]
	nmerge := []int{0, 1, 1, 1, 2, 2}[r.Intn(6)]
	cats := append([]string{}, c06CatPool...)
	r.Shuffle(len(cats), func(i, j int) { cats[i], cats[j] = cats[j], cats[i] })
	w.Opts.Cats = cats[:ncat]
	merges := append([]string{}, c06MergePool...)
	r.Shuffle(len(merges), func(i, j int) { merges[i], merges[j] = merges[j], merges[i] })
	if p.OneMergeNoCatOverlap {
		w.Opts.Merge = nil
		for _, m := range merges {
			inCat := false
			for _, c := range w.Opts.Cats {
				inCat = inCat || c == m
			}
			if !inCat {
				w.Opts.Merge = []string{m}
				break
			}
		}
		if len(w.Opts.Merge) == 0 { // every merge candidate is a category: drop the categories
			w.Opts.Cats = nil
			w.Opts.Merge = merges[:1]
		}
	} else {
		w.Opts.Merge = merges[:nmerge]
		w.Opts.NoSingleton = r.Intn(100) < 35
	}

	// attribute universe: requested keys, plus the other pool names and a free attribute
	names := map[string]bool{"extra": true}
	for _, k := range c06CatPool {
		names[k] = true
	}
	for _, k := range c06MergePool {
		names[k] = true
	}
	var sorted []string
	for k := range names {
		sorted = append(sorted, k)
	}
	sort.Strings(sorted)
	isCat := map[string]bool{}
	for _, k := range w.Opts.Cats {
		isCat[k] = true
	}
	// one case in four: the first merge descriptor is weighted (-m key:wgt sums the integer attribute
	// wgt of the records instead of their counts); the map is then named merged_key:wgt
	weighted := map[string]string{}
	if !p.OneMergeNoCatOverlap && len(w.Opts.Merge) > 0 && r.Intn(4) == 0 {
		weighted[w.Opts.Merge[0]] = w.Opts.Merge[0] + ":wgt"
		w.Opts.Merge = append([]string{w.Opts.Merge[0] + ":wgt"}, w.Opts.Merge[1:]...)
		w.Weighted = true
	}
	isMerge := map[string]bool{}
	for _, k := range w.Opts.Merge {
		if i := strings.IndexByte(k, ':'); i >= 0 {
			k = k[:i]
		}
		isMerge[k] = true
	}
	var attrs []c06Attr
	for _, k := range sorted {
		a := c06Attr{name: k, isInt: r.Intn(100) < 30}
		a.present = []int{1000, 1000, 850, 500, 150}[r.Intn(5)]
		if !isCat[k] && !isMerge[k] {
			a.present = []int{0, 300, 1000}[r.Intn(3)]
		}
		a.domain = c06Domain(r, k, a.isInt, na, isCat[k] && r.Intn(100) < 15)
		if a.isInt && (isCat[k] || isMerge[k]) {
			w.IntValues = true
		}
		attrs = append(attrs, a)
	}
	if len(w.Opts.Cats) >= 2 && r.Intn(3) == 0 {
		// two category attributes whose values, joined with a separator, collide: ("A|B","C") and
		// ("A","B|C") are different classes (and so with ',', ' ', '/', '_')
		sep := []string{"|", ",", " ", "/", "_", ":", ";"}[r.Intn(7)]
		for i := range attrs {
			switch attrs[i].name {
			case w.Opts.Cats[0]:
				attrs[i].isInt, attrs[i].present = false, 1000
				attrs[i].domain = []any{"A", "A" + sep + "B"}
			case w.Opts.Cats[1]:
				attrs[i].isInt, attrs[i].present = false, 1000
				attrs[i].domain = []any{"C", "B" + sep + "C"}
			}
		}
	}
	premergedRate := []int{0, 0, 150, 500}[r.Intn(4)]

	nseq := p.MinSeqs + r.Intn(p.MaxSeqs-p.MinSeqs+1)
	seqs := c06Sequences(r, nseq)
	w.NSeqs = nseq
	nrec := p.MinRecs + r.Intn(p.MaxRecs-p.MinRecs+1)
	skew := 1 + r.Intn(3)
	for i := 0; i < nrec; i++ {
		// skewed choice of the sequence: a few large classes, many small ones
		u := r.Float64()
		x := u
		for s := 1; s < skew; s++ {
			x *= u
		}
		rec := ref.C06Rec{ID: fmt.Sprintf("r%d", i+1), Seq: seqs[int(x*float64(nseq))%nseq], Attrs: map[string]any{}}
		switch c := r.Intn(100); {
		case c < 40:
			rec.Count = 0
		case c < 60:
			rec.Count = 1
		case c < 95:
			rec.Count = 2 + r.Intn(19)
		default:
			rec.Count = 100 + r.Intn(100000)
		}
		for _, a := range attrs {
			if isMerge[a.name] && r.Intn(1000) < premergedRate {
				// already merged: the weights of the map add up to the count of the record
				c := rec.C06Weight()
				m := map[string]int{}
				parts := 1 + r.Intn(3)
				for c > 0 && parts > 0 {
					q := c
					if parts > 1 {
						q = 1 + r.Intn(c)
					}
					v := ref.C06Print(a.domain[r.Intn(len(a.domain))])
					if r.Intn(12) == 0 {
						v = na
					}
					m[v] += q
					c -= q
					parts--
				}
				slot := "merged_" + a.name
				if d, ok := weighted[a.name]; ok {
					slot = "merged_" + d
				}
				rec.Attrs[slot] = m
				w.Premerged = true
				if len(m) == 1 && r.Intn(2) == 0 {
					for v := range m { // the attribute survived the former merge: same value
						for _, d := range a.domain {
							if ref.C06Print(d) == v {
								rec.Attrs[a.name] = d
							}
						}
					}
				}
				continue
			}
			if r.Intn(1000) < a.present {
				v := a.domain[r.Intn(len(a.domain))]
				rec.Attrs[a.name] = v
				if isCat[a.name] && ref.C06Print(v) == na {
					w.ExplicitNA = true
				}
			} else if isCat[a.name] {
				w.MissingCat = true
			}
		}
		if len(weighted) > 0 && r.Intn(100) < 85 {
			rec.Attrs["wgt"] = []int{0, 1, 1, 2, 5, 20}[r.Intn(6)]
		}
		w.Recs = append(w.Recs, rec)
	}
	return w
}

// C06Title renders the title-line annotations of a record as a JSON object
// (key order drawn from r; "" when the record has no annotation).
func C06Title(r *rand.Rand, rec *ref.C06Rec) string {
	var keys []string
	for k := range rec.Attrs {
		keys = append(keys, k)
	}
	sort.Strings(keys)
	if rec.Count > 0 {
		keys = append(keys, "count")
	}
	if len(keys) == 0 {
		return ""
	}
	if r != nil {
		r.Shuffle(len(keys), func(i, j int) { keys[i], keys[j] = keys[j], keys[i] })
	}
	var sb strings.Builder
	sb.WriteByte('{')
	for i, k := range keys {
		if i > 0 {
			sb.WriteByte(',')
		}
		kb, _ := json.Marshal(k)
		sb.Write(kb)
		sb.WriteByte(':')
		var v any
		if k == "count" {
			v = rec.Count
		} else {
			v = rec.Attrs[k]
		}
		vb, _ := json.Marshal(v) // maps are written with sorted keys
		sb.Write(vb)
	}
	sb.WriteByte('}')
	return sb.String()
}

// C06Fasta renders records (in the given order) as FASTA text. Sequences are
// written in lower, upper or mixed case and folded at a line width drawn per file.
func C06Fasta(r *rand.Rand, recs []ref.C06Rec, order []int) []byte {
	var sb strings.Builder
	width := []int{60, 60, 80, 17, 1000}[r.Intn(5)]
	caseMode := r.Intn(3) // 0 lower, 1 upper, 2 per record
	for _, i := range order {
		rec := &recs[i]
		sb.WriteByte('>')
		sb.WriteString(rec.ID)
		if t := C06Title(r, rec); t != "" {
			sb.WriteByte(' ')
			sb.WriteString(t)
		}
		sb.WriteByte('\n')
		s := rec.Seq
		if caseMode == 1 || (caseMode == 2 && r.Intn(2) == 0) {
			s = strings.ToUpper(s)
		}
		for p := 0; p < len(s); p += width {
			sb.WriteString(s[p:min(len(s), p+width)])
			sb.WriteByte('\n')
		}
	}
	return []byte(sb.String())
}

// C06Order returns the identity order or a random permutation of 0..n-1.
func C06Order(r *rand.Rand, n int, permute bool) []int {
	o := make([]int, n)
	for i := range o {
		o[i] = i
	}
	if permute && r != nil {
		r.Shuffle(n, func(i, j int) { o[i], o[j] = o[j], o[i] })
	}
	return o
}
