package gen

import (
	"math/rand"
	"sort"
)

// SpreadPositions returns k distinct increasing positions in [0,n), pairwise at
// least gap apart when n allows it (the gap is reduced otherwise). k is clipped to n.
func SpreadPositions(r *rand.Rand, n, k, gap int) []int {
	if k > n {
		k = n
	}
	if k <= 0 {
		return nil
	}
	for gap > 1 && (k-1)*gap >= n {
		gap--
	}
	free := n - (k-1)*gap
	p := make([]int, k)
	for i := range p {
		p[i] = r.Intn(free)
	}
	sort.Ints(p)
	for i := range p {
		p[i] += i * gap
	}
	// gap==1 and equal draws: make strictly increasing
	for i := 1; i < k; i++ {
		if p[i] <= p[i-1] {
			p[i] = p[i-1] + 1
		}
	}
	for i := k - 1; i >= 0; i-- { // clip to the range, keeping them distinct
		hi := n - 1 - (k - 1 - i)
		if p[i] > hi {
			p[i] = hi
		}
	}
	return p
}

func otherBase(r *rand.Rand, c byte) byte {
	b := ACGT[r.Intn(4)]
	for b == c {
		b = ACGT[r.Intn(4)]
	}
	return b
}

// SpreadEdits applies nsub substitutions, ndel deletions and nins insertions to s
// at positions that are at least 5 apart (when the length allows), so that each
// edit destroys its own set of 4-letter words. The result is a new slice.
func SpreadEdits(r *rand.Rand, s []byte, nsub, ndel, nins int) []byte {
	k := nsub + ndel + nins
	if k == 0 || len(s) == 0 {
		return append([]byte{}, s...)
	}
	pos := SpreadPositions(r, len(s), k, 5)
	kinds := make([]byte, 0, k)
	for i := 0; i < nsub; i++ {
		kinds = append(kinds, 's')
	}
	for i := 0; i < ndel; i++ {
		kinds = append(kinds, 'd')
	}
	for i := 0; i < nins; i++ {
		kinds = append(kinds, 'i')
	}
	r.Shuffle(len(kinds), func(i, j int) { kinds[i], kinds[j] = kinds[j], kinds[i] })
	out := make([]byte, 0, len(s)+nins)
	pi := 0
	for i, c := range s {
		if pi < len(pos) && pos[pi] == i {
			switch kinds[pi] {
			case 's':
				out = append(out, otherBase(r, c))
			case 'd':
				// dropped
			case 'i':
				// an inserted letter different from both neighbours, so that the edit is a real insertion
				ins := otherBase(r, c)
				out = append(out, ins, c)
			}
			pi++
			continue
		}
		out = append(out, c)
	}
	return out
}

// Extend adds k random letters to s, at the 3' end, the 5' end or both.
func Extend(r *rand.Rand, s []byte, k int) []byte {
	left := 0
	switch r.Intn(3) {
	case 0:
		left = k
	case 1:
		left = r.Intn(k + 1)
	}
	out := append([]byte{}, DNA(r, left)...)
	out = append(out, s...)
	out = append(out, DNA(r, k-left)...)
	return out
}

// RefCase is one reference database with its queries (C15).
type RefCase struct {
	Refs    [][]byte
	Fam     []int // relatedness class of each reference (sequence family), -1 = unrelated
	Queries [][]byte
	QKind   []string // near | unrelated | tie | tie-near
}

func clampLen(r *rand.Rand, s []byte, minLen int) []byte {
	for len(s) < minLen {
		s = append(s, ACGT[r.Intn(4)])
	}
	return s
}

// TieGroup builds, around a fresh query s, a reference that is longer than s
// (k insertions and/or k extra letters at the ends: distance k) and references
// obtained by j spread substitutions / deletions / insertions (distance <= j,
// few shared 4-letter words), j = k mostly (a tie), sometimes k-1 or k+1.
// Returned: the query and the references.
func TieGroup(r *rand.Rand, L int) (q []byte, refs [][]byte) {
	L = max(12, L*(80+r.Intn(41))/100)
	q = DNA(r, L)
	kmax := max(1, min(8, L/6))
	k := 1 + r.Intn(kmax)
	var longer []byte
	switch r.Intn(3) {
	case 0:
		longer = SpreadEdits(r, q, 0, 0, k)
	case 1:
		longer = Extend(r, q, k)
	default:
		a := r.Intn(k + 1)
		longer = Extend(r, SpreadEdits(r, q, 0, 0, a), k-a)
	}
	refs = append(refs, longer)
	nOther := 1 + r.Intn(3)
	for o := 0; o < nOther; o++ {
		j := k
		switch r.Intn(10) {
		case 0, 1:
			j = max(0, k-1)
		case 2:
			j = k + 1
		}
		var m []byte
		switch r.Intn(5) {
		case 0, 1: // same length as the query
			m = SpreadEdits(r, q, j, 0, 0)
		case 2: // shorter than the query
			nd := 1 + r.Intn(max(1, j))
			nd = min(nd, j)
			m = SpreadEdits(r, q, j-nd, nd, 0)
		case 3: // one letter longer than the query, still shorter than the long reference when k > 1
			if j >= 1 {
				m = SpreadEdits(r, q, j-1, 0, 1)
			} else {
				m = append([]byte{}, q...)
			}
		default: // truncated at one end (shares almost all words: a control that is never pruned)
			if j < len(q)-8 {
				if r.Intn(2) == 0 {
					m = append([]byte{}, q[j:]...)
				} else {
					m = append([]byte{}, q[:len(q)-j]...)
				}
			} else {
				m = SpreadEdits(r, q, j, 0, 0)
			}
		}
		refs = append(refs, clampLen(r, m, 8))
	}
	if r.Intn(3) == 0 { // a second, independent reference of the same length at distance k (plain tie)
		refs = append(refs, SpreadEdits(r, q, k, 0, 0))
	}
	return q, refs
}

// NewRefCase draws a reference set of nRefs sequences around base length L
// (families of related sequences, near-duplicates at 0-6 edits, exact
// duplicates, length variants within +-30 %, unrelated sequences, and nTie
// tie groups) and nQueries queries (references with 0-8 edits, unrelated
// sequences, and the queries of the tie groups).
func NewRefCase(r *rand.Rand, nRefs, L, nQueries, nTie int) *RefCase {
	rc := &RefCase{}
	add := func(s []byte, fam int) {
		rc.Refs = append(rc.Refs, clampLen(r, s, 8))
		rc.Fam = append(rc.Fam, fam)
	}
	var tieQ [][]byte
	for g := 0; g < nTie && len(rc.Refs) < nRefs; g++ {
		q, refs := TieGroup(r, L)
		tieQ = append(tieQ, q)
		for _, s := range refs {
			add(s, 1000+g)
		}
	}
	nfam := 1 + r.Intn(max(1, min(8, nRefs/3)))
	anc := make([][]byte, nfam)
	for f := range anc {
		if f > 0 && r.Intn(2) == 0 { // related families
			anc[f] = Mutate(r, anc[r.Intn(f)], 4+r.Intn(12))
		} else {
			anc[f] = DNA(r, max(12, L*(70+r.Intn(61))/100))
		}
		anc[f] = clampLen(r, anc[f], 12)
	}
	for len(rc.Refs) < nRefs {
		f := r.Intn(nfam)
		switch x := r.Intn(20); {
		case x < 10:
			add(Mutate(r, anc[f], r.Intn(7)), f)
		case x < 15 && len(rc.Refs) > 0: // near-duplicate (or exact duplicate) of an existing reference
			i := r.Intn(len(rc.Refs))
			add(Mutate(r, rc.Refs[i], r.Intn(4)), rc.Fam[i])
		case x < 18: // length variant: up to 30 % added or removed at the ends
			base := Mutate(r, anc[f], r.Intn(4))
			d := r.Intn(max(1, len(base)*30/100))
			if r.Intn(2) == 0 {
				base = Extend(r, base, d)
			} else if len(base)-d >= 12 {
				cut := r.Intn(d + 1)
				base = append([]byte{}, base[cut:len(base)-(d-cut)]...)
			}
			add(base, f)
		default:
			add(DNA(r, max(12, L*(70+r.Intn(61))/100)), -1)
		}
	}
	// shuffle the references (keeping Fam aligned) so that constructed groups are not at fixed indexes
	r.Shuffle(len(rc.Refs), func(i, j int) {
		rc.Refs[i], rc.Refs[j] = rc.Refs[j], rc.Refs[i]
		rc.Fam[i], rc.Fam[j] = rc.Fam[j], rc.Fam[i]
	})
	for _, q := range tieQ {
		if len(rc.Queries) < nQueries {
			rc.Queries = append(rc.Queries, q)
			rc.QKind = append(rc.QKind, "tie")
		}
		if len(rc.Queries) < nQueries && r.Intn(2) == 0 {
			rc.Queries = append(rc.Queries, clampLen(r, Mutate(r, q, 1), 8))
			rc.QKind = append(rc.QKind, "tie-near")
		}
	}
	for len(rc.Queries) < nQueries {
		if r.Intn(8) == 0 {
			rc.Queries = append(rc.Queries, DNA(r, max(12, L*(70+r.Intn(61))/100)))
			rc.QKind = append(rc.QKind, "unrelated")
			continue
		}
		i := r.Intn(len(rc.Refs))
		rc.Queries = append(rc.Queries, clampLen(r, Mutate(r, rc.Refs[i], r.Intn(9)), 8))
		rc.QKind = append(rc.QKind, "near")
	}
	return rc
}

// AssignTaxa gives every reference a node of the taxonomy: related
// references (same Fam) are placed in the subtree of one node with probability
// 1/2 per case (taxonomy correlated with the sequences), otherwise anywhere.
func AssignTaxa(r *rand.Rand, rc *RefCase, t *TaxSpec) []int {
	n := len(t.Parent)
	desc := t.Descendants()
	node := make([]int, len(rc.Refs))
	correlated := r.Intn(2) == 0
	famRoot := map[int]int{}
	for i := range rc.Refs {
		if !correlated || rc.Fam[i] < 0 {
			node[i] = r.Intn(n)
			continue
		}
		root, ok := famRoot[rc.Fam[i]]
		if !ok {
			root = r.Intn(n)
			famRoot[rc.Fam[i]] = root
		}
		if r.Intn(10) == 0 { // a stray member elsewhere
			node[i] = r.Intn(n)
		} else {
			node[i] = desc[root][r.Intn(len(desc[root]))]
		}
	}
	return node
}

// IndexTrap appends to the case a constellation around one existing reference s
// whose taxon T has a proper ancestor A other than the root: r0 = s with e spread
// substitutions (e = 1 or 2), placed on the parent of A; X = a copy of s (or s with one
// substitution when e = 2), placed on A; two references Y = s plus 5+4e.. extra end letters,
// placed on A. Seen from s, X and Y are at the same taxonomic level (LCA with T = A), Y
// shares every 4-letter word of s and is much longer. Returns the extended node
// assignment and the index of s (-1 when no reference has a deep enough taxon).
func IndexTrap(r *rand.Rand, rc *RefCase, t *TaxSpec, node []int) ([]int, int) {
	var cand []int
	for i := range rc.Refs {
		n := node[i]
		if t.Parent[n] != n && t.Parent[t.Parent[n]] != t.Parent[n] && len(rc.Refs[i]) >= 16 {
			cand = append(cand, i)
		}
	}
	if len(cand) == 0 {
		return node, -1
	}
	self := cand[r.Intn(len(cand))]
	s := rc.Refs[self]
	// proper, non-root ancestors of the taxon of s
	var anc []int
	for a := t.Parent[node[self]]; t.Parent[a] != a; a = t.Parent[a] {
		anc = append(anc, a)
	}
	a := anc[r.Intn(len(anc))]
	e := 1 + r.Intn(2)
	node = append([]int{}, node...)
	add := func(seq []byte, n int) {
		rc.Refs = append(rc.Refs, seq)
		rc.Fam = append(rc.Fam, rc.Fam[self])
		node = append(node, n)
	}
	add(SpreadEdits(r, s, e, 0, 0), t.Parent[a])
	if e == 2 && r.Intn(2) == 0 {
		add(SpreadEdits(r, s, 1, 0, 0), a)
	} else {
		add(append([]byte{}, s...), a)
	}
	for k := 0; k < 2; k++ {
		add(Extend(r, s, 5+4*e+r.Intn(4)), a)
	}
	return node, self
}
