// Package gen holds the case generators (sequences, records, file renderers, taxonomies …).
package gen

import "math/rand"

const ACGT = "acgt"
const Ambig = "ryswkmbdhvn"

// DNA returns a random sequence of length n over a,c,g,t.
func DNA(r *rand.Rand, n int) []byte {
	s := make([]byte, n)
	for i := range s {
		s[i] = ACGT[r.Intn(4)]
	}
	return s
}

// DNAIupac returns a random sequence with ambiguity codes at the given rate (per mille).
func DNAIupac(r *rand.Rand, n int, permille int) []byte {
	s := DNA(r, n)
	for i := range s {
		if r.Intn(1000) < permille {
			s[i] = Ambig[r.Intn(len(Ambig))]
		}
	}
	return s
}

// Mutate applies k random edits (substitution, insertion, deletion) to s and returns a new slice.
func Mutate(r *rand.Rand, s []byte, k int) []byte {
	t := append([]byte{}, s...)
	for e := 0; e < k; e++ {
		switch op := r.Intn(3); {
		case op == 0 && len(t) > 0: // substitution by a different base
			p := r.Intn(len(t))
			c := ACGT[r.Intn(4)]
			for c == t[p] {
				c = ACGT[r.Intn(4)]
			}
			t[p] = c
		case op == 1 && len(t) > 0: // deletion
			p := r.Intn(len(t))
			t = append(t[:p], t[p+1:]...)
		default: // insertion
			p := r.Intn(len(t) + 1)
			t = append(t[:p], append([]byte{ACGT[r.Intn(4)]}, t[p:]...)...)
		}
	}
	return t
}

// NthString returns the idx-th string over a,c,g,t in length-lexicographic order
// ("" , a, c, g, t, aa, ac, …).
func NthString(idx int) []byte {
	n := 0
	count := 1
	for idx >= count {
		idx -= count
		count *= 4
		n++
	}
	s := make([]byte, n)
	for i := n - 1; i >= 0; i-- {
		s[i] = ACGT[idx%4]
		idx /= 4
	}
	return s
}

// CountStrings returns the number of strings over a,c,g,t of length <= n.
func CountStrings(n int) int {
	t, c := 0, 1
	for i := 0; i <= n; i++ {
		t += c
		c *= 4
	}
	return t
}

// Upper randomly upper-cases letters of s (new slice) with probability p per mille.
func Upper(r *rand.Rand, s []byte, permille int) []byte {
	t := append([]byte{}, s...)
	for i, c := range t {
		if c >= 'a' && c <= 'z' && r.Intn(1000) < permille {
			t[i] = c - 32
		}
	}
	return t
}
