package gen

import (
	"bytes"
	"compress/gzip"
	"fmt"
	"io"

	"github.com/dsnet/compress/bzip2"
	kgzip "github.com/klauspost/compress/gzip"
	"github.com/klauspost/compress/zstd"
	"github.com/klauspost/pgzip"
	"github.com/ulikunitz/xz"
)

// Codecs supported by the readers of obitools4.
var Codecs = []string{"gzip", "bzip2", "xz", "zstd"}

// CodecExt is the usual file extension of a codec.
func CodecExt(codec string) string {
	return map[string]string{"gzip": ".gz", "bzip2": ".bz2", "xz": ".xz", "zstd": ".zst"}[codec]
}

// Compress returns data compressed as ONE member / frame / stream of the codec.
func Compress(codec string, data []byte) ([]byte, error) {
	var b bytes.Buffer
	switch codec {
	case "gzip":
		w := gzip.NewWriter(&b)
		w.Write(data)
		if err := w.Close(); err != nil {
			return nil, err
		}
	case "bzip2":
		w, err := bzip2.NewWriter(&b, &bzip2.WriterConfig{Level: 6})
		if err != nil {
			return nil, err
		}
		w.Write(data)
		if err := w.Close(); err != nil {
			return nil, err
		}
	case "xz-multiblock": // one stream, many small blocks
		cfg := xz.WriterConfig{BlockSize: 300, DictCap: 1 << 16} // small dictionary: decoders allocate it for every block
		w, err := cfg.NewWriter(&b)
		if err != nil {
			return nil, err
		}
		w.Write(data)
		if err := w.Close(); err != nil {
			return nil, err
		}
	case "xz":
		cfg := xz.WriterConfig{}
		if len(data) < 1<<20 {
			cfg.DictCap = 1 << 16 // the decoders allocate the dictionary: 8 MiB by default
		}
		w, err := cfg.NewWriter(&b)
		if err != nil {
			return nil, err
		}
		w.Write(data)
		if err := w.Close(); err != nil {
			return nil, err
		}
	case "zstd":
		w, err := zstd.NewWriter(&b)
		if err != nil {
			return nil, err
		}
		w.Write(data)
		if err := w.Close(); err != nil {
			return nil, err
		}
	default:
		return nil, fmt.Errorf("unknown codec %s", codec)
	}
	return b.Bytes(), nil
}

// SilentPrefixCuts returns the cut positions k (6 <= k < len(comp)) at which the
// decoding library used by the toolkit reads the prefix comp[:k] to a clean EOF
// without any error: the truncations a reader stack is most likely to accept
// silently. The library is used here to choose hostile fault points, never as oracle.
func SilentPrefixCuts(codec string, comp []byte) []int {
	var out []int
	// only the xz decoder has such prefixes inside the stream (between blocks, after the
	// stream header); the other codecs are covered by the head/tail/sampled cuts
	if (codec != "xz" && codec != "xz-multiblock") || len(comp) > 8000 {
		return nil
	}
	for k := 6; k < len(comp); k++ {
		if decodesCleanly(codec, comp[:k]) {
			out = append(out, k)
		}
	}
	return out
}

func decodesCleanly(codec string, data []byte) (ok bool) {
	defer func() {
		if recover() != nil {
			ok = false
		}
	}()
	var r io.Reader
	var err error
	switch codec {
	case "gzip":
		r, err = pgzip.NewReader(bytes.NewReader(data))
	case "bzip2":
		r, err = bzip2.NewReader(bytes.NewReader(data), &bzip2.ReaderConfig{})
	case "xz", "xz-multiblock":
		r, err = xz.NewReader(bytes.NewReader(data))
	case "zstd":
		var d *zstd.Decoder
		d, err = zstd.NewReader(bytes.NewReader(data))
		if err == nil {
			defer d.Close()
		}
		r = d
	}
	if err != nil || r == nil {
		return false
	}
	_, err = io.Copy(io.Discard, r)
	return err == nil
}

// DecodeError reads data to the end with the decoding library the toolkit itself uses for that
// codec and returns the first non-EOF error the library reports (nil when the library reads the
// stream to a clean end of file): the errors that the input stream of a command delivers.
func DecodeError(codec string, data []byte) (err error) {
	defer func() {
		if r := recover(); r != nil {
			err = fmt.Errorf("decoder panic: %v", r)
		}
	}()
	var r io.Reader
	switch codec {
	case "gzip":
		r, err = kgzip.NewReader(bytes.NewReader(data))
	case "bzip2":
		r, err = bzip2.NewReader(bytes.NewReader(data), &bzip2.ReaderConfig{})
	case "xz", "xz-multiblock":
		r, err = xz.NewReader(bytes.NewReader(data))
	case "zstd":
		var d *zstd.Decoder
		d, err = zstd.NewReader(bytes.NewReader(data))
		if err == nil {
			defer d.Close()
		}
		r = d
	}
	if err != nil {
		return err
	}
	_, err = io.Copy(io.Discard, r)
	return err
}

// DecodedBeforeError reads data with the decoding library of the codec and returns how many bytes
// the library delivers before it reports an error or the end of the stream (-1 when the stream
// cannot even be opened).
func DecodedBeforeError(codec string, data []byte) (n int) {
	defer func() {
		if r := recover(); r != nil {
			n = -1
		}
	}()
	var r io.Reader
	var err error
	switch codec {
	case "gzip":
		r, err = kgzip.NewReader(bytes.NewReader(data))
	case "bzip2":
		r, err = bzip2.NewReader(bytes.NewReader(data), &bzip2.ReaderConfig{})
	case "xz", "xz-multiblock":
		r, err = xz.NewReader(bytes.NewReader(data))
	case "zstd":
		var d *zstd.Decoder
		d, err = zstd.NewReader(bytes.NewReader(data))
		if err == nil {
			defer d.Close()
		}
		r = d
	}
	if err != nil || r == nil {
		return -1
	}
	m, _ := io.Copy(io.Discard, r)
	return int(m)
}

// CompressFlushed compresses the parts one after the other with a flush of the compressor after
// each of them (gzip: sync flush; zstd: end of block), and returns the offsets of the compressed
// stream at which every byte of parts[0..i] can be decoded: a stream cut at such an offset decodes
// to whole parts and then ends unexpectedly. Only gzip and zstd can do that.
func CompressFlushed(codec string, parts [][]byte) (comp []byte, cuts []int, err error) {
	var b bytes.Buffer
	switch codec {
	case "gzip":
		w := gzip.NewWriter(&b)
		for _, p := range parts {
			w.Write(p)
			if err := w.Flush(); err != nil {
				return nil, nil, err
			}
			cuts = append(cuts, b.Len())
		}
		if err := w.Close(); err != nil {
			return nil, nil, err
		}
	case "zstd":
		w, err := zstd.NewWriter(&b)
		if err != nil {
			return nil, nil, err
		}
		for _, p := range parts {
			w.Write(p)
			if err := w.Flush(); err != nil {
				return nil, nil, err
			}
			cuts = append(cuts, b.Len())
		}
		if err := w.Close(); err != nil {
			return nil, nil, err
		}
	default:
		return nil, nil, fmt.Errorf("codec %s cannot be flushed", codec)
	}
	if len(cuts) > 0 {
		cuts = cuts[:len(cuts)-1] // the last one is followed by the end of the stream only
	}
	return b.Bytes(), cuts, nil
}

// CompressMembers compresses each part on its own and concatenates the results: a multi-member gzip
// file (what `cat a.gz b.gz`, bgzip or an appending writer produce), and the analogous multi-stream /
// multi-frame files of the other codecs. starts = offset of every member but the first.
func CompressMembers(codec string, parts [][]byte) (out []byte, starts []int, err error) {
	for i, p := range parts {
		c, e := Compress(codec, p)
		if e != nil {
			return nil, nil, e
		}
		if i > 0 {
			starts = append(starts, len(out))
		}
		out = append(out, c...)
	}
	return out, starts, nil
}
