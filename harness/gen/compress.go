package gen

import (
	"bytes"
	"compress/gzip"
	"fmt"

	"github.com/dsnet/compress/bzip2"
	"github.com/klauspost/compress/zstd"
	"github.com/ulikunitz/xz"
)

// Codecs supported by the readers of obitools4.
var Codecs = []string{"gzip", "bzip2", "xz", "zstd"}

// CodecExt is the usual file extension of a codec.
func CodecExt(codec string) string {
	return map[string]string{"gzip": ".gz", "bzip2": ".bz2", "xz": ".xz", "zstd": ".zst"}[codec]
}

// Compress returns data compressed as ONE member / frame / stream of the codec.
func Compress(codec string, data []byte) ([]byte, error) {
	var b bytes.Buffer
	switch codec {
	case "gzip":
		w := gzip.NewWriter(&b)
		w.Write(data)
		if err := w.Close(); err != nil {
			return nil, err
		}
	case "bzip2":
		w, err := bzip2.NewWriter(&b, &bzip2.WriterConfig{Level: 6})
		if err != nil {
			return nil, err
		}
		w.Write(data)
		if err := w.Close(); err != nil {
			return nil, err
		}
	case "xz":
		w, err := xz.NewWriter(&b)
		if err != nil {
			return nil, err
		}
		w.Write(data)
		if err := w.Close(); err != nil {
			return nil, err
		}
	case "zstd":
		w, err := zstd.NewWriter(&b)
		if err != nil {
			return nil, err
		}
		w.Write(data)
		if err := w.Close(); err != nil {
			return nil, err
		}
	default:
		return nil, fmt.Errorf("unknown codec %s", codec)
	}
	return b.Bytes(), nil
}
