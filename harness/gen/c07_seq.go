package gen

// Generators of property C07: sequences over the full DNA alphabet of obiseq,
// quality vectors, feature tables, annotation maps (nested), mismatch lists.

import (
	"fmt"
	"math/rand"

	"verifh/ref"
)

// DNAFull returns a sequence of length n over ref.DNAAlphabet. mode 0: a,c,g,t only;
// 1: IUPAC letters; 2: the whole alphabet, uniformly; 3: a,c,g,t with a few other symbols.
func DNAFull(r *rand.Rand, n, mode int) []byte {
	s := make([]byte, n)
	for i := range s {
		switch mode {
		case 0:
			s[i] = ACGT[r.Intn(4)]
		case 1:
			s[i] = ref.DNAAlphabet[r.Intn(15)]
		case 2:
			s[i] = ref.DNAAlphabet[r.Intn(len(ref.DNAAlphabet))]
		default:
			if r.Intn(8) == 0 {
				s[i] = ref.DNAAlphabet[r.Intn(len(ref.DNAAlphabet))]
			} else {
				s[i] = ACGT[r.Intn(4)]
			}
		}
	}
	return s
}

// RotatedAlphabet returns the sequence of length n whose i-th symbol is the
// (i+k)-th symbol of the alphabet (every symbol visits every position when k varies).
func RotatedAlphabet(n, k int) []byte {
	s := make([]byte, n)
	for i := range s {
		s[i] = ref.DNAAlphabet[(i+k)%len(ref.DNAAlphabet)]
	}
	return s
}

// Quals returns n quality scores in 0..93 (0xDB, the poison byte, is impossible).
func Quals(r *rand.Rand, n int) []byte {
	q := make([]byte, n)
	for i := range q {
		q[i] = byte(r.Intn(94))
	}
	return q
}

// Feature returns a feature-table-like text in a slice whose capacity is
// len, a bit more, or 512 (as a bytes.Buffer would give).
func Feature(r *rand.Rand) []byte {
	n := 1 + r.Intn(60)
	c := n
	switch r.Intn(3) {
	case 1:
		c = n + r.Intn(64)
	case 2:
		c = 512
	}
	f := make([]byte, n, c)
	const al = "FT source/=\"1..90CDSjoin(),"
	for i := range f {
		f[i] = al[r.Intn(len(al))]
	}
	return f
}

// AnnotValue returns a fresh annotation value: scalar or (nested) container.
func AnnotValue(r *rand.Rand, depth int) any {
	k := r.Intn(9)
	if depth <= 0 && k >= 4 {
		k = r.Intn(4)
	}
	switch k {
	case 0:
		return r.Intn(1000)
	case 1:
		return fmt.Sprintf("v%d", r.Intn(1000))
	case 2:
		return float64(r.Intn(1000)) / 8
	case 3:
		return r.Intn(2) == 0
	case 4:
		m := map[string]int{}
		for i := 1 + r.Intn(3); i > 0; i-- {
			m[fmt.Sprintf("s%d", r.Intn(6))] = r.Intn(100)
		}
		return m
	case 5:
		m := map[string]string{}
		for i := 1 + r.Intn(3); i > 0; i-- {
			m[fmt.Sprintf("t%d", r.Intn(6))] = fmt.Sprintf("x%d", r.Intn(100))
		}
		return m
	case 6:
		l := make([]int, 1+r.Intn(4))
		for i := range l {
			l[i] = r.Intn(100)
		}
		return l
	case 7:
		l := make([]any, 1+r.Intn(3))
		for i := range l {
			l[i] = AnnotValue(r, depth-1)
		}
		return l
	default:
		m := map[string]any{}
		for i := 1 + r.Intn(3); i > 0; i-- {
			m[fmt.Sprintf("n%d", r.Intn(6))] = AnnotValue(r, depth-1)
		}
		return m
	}
}

// AnnotKeys are the attribute names used by the C07 workloads.
var AnnotKeys = []string{"count", "sample", "score", "flag", "merged_sample", "tags", "path", "mixed", "nested", "deep"}

// Annotations returns a fresh annotation map with 0..max entries.
func Annotations(r *rand.Rand, max int) map[string]any {
	m := map[string]any{}
	for i := r.Intn(max + 1); i > 0; i-- {
		m[AnnotKeys[r.Intn(len(AnnotKeys))]] = AnnotValue(r, 2)
	}
	return m
}

// Mismatches returns k entries with distinct positions in 1..n (k is reduced
// to n when needed) and distinct canonical identities.
func Mismatches(r *rand.Rand, n, k int) []ref.Mismatch {
	if k > n {
		k = n
	}
	pos := r.Perm(n)[:k]
	seen := map[string]bool{}
	var ms []ref.Mismatch
	for _, p := range pos {
		for {
			m := ref.Mismatch{A: ref.DNAAlphabet[r.Intn(15)], B: ref.DNAAlphabet[r.Intn(15)], QA: r.Intn(94), QB: r.Intn(94), Pos: p + 1}
			if m.A == m.B {
				continue
			}
			// the identity must stay distinct under complementation as well (it does: complement is a bijection)
			if seen[m.Canon()] {
				continue
			}
			seen[m.Canon()] = true
			ms = append(ms, m)
			break
		}
	}
	return ms
}

// MismatchesAll returns one entry at every position 1..n.
func MismatchesAll(r *rand.Rand, n int) []ref.Mismatch {
	ms := Mismatches(r, n, n)
	return ms
}
