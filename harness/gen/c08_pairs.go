package gen

import (
	"bytes"
	"math/rand"
)

// PEPair is one pair of reads (B already in the orientation of A, as
// obipairing.AssemblePESequences expects it) cut from a common template.
type PEPair struct {
	A, QA, B, QB []byte
	Geometry     string // how the two reads are placed on the template
	Template     []byte
	A0, A1       int // A = Template[A0:A1] before errors
	B0, B1       int // B = Template[B0:B1] before errors
	Errors       int // number of edits applied to the reads (0 = error free)
	Ambig        int // number of IUPAC ambiguity symbols in the reads
	QProfile     string
	Complexity   string
}

// PEGeometries lists the overlap geometries of the generator.
var PEGeometries = []string{
	"stagger-a-first", "stagger-b-first", "same-start", "same-end", "a-contains-b", "b-contains-a",
	"same-span", "overlap-lt4", "disjoint", "tiny-reads", "abutting",
}

// PEQualProfiles lists the quality profiles.
var PEQualProfiles = []string{"uniform0-93", "high", "low0-10", "decline", "constant", "with-zeros", "max93", "uniform1-41"}

// PEQual draws a quality vector of length n (values 0..93).
func PEQual(r *rand.Rand, n int, profile string) []byte {
	q := make([]byte, n)
	k := byte(r.Intn(94))
	for i := range q {
		switch profile {
		case "uniform0-93":
			q[i] = byte(r.Intn(94))
		case "high":
			q[i] = byte(30 + r.Intn(12))
		case "low0-10":
			q[i] = byte(r.Intn(11))
		case "decline": // Illumina-like: good at the start, worse at the end
			hi := 41 - 35*i/max(1, n)
			q[i] = byte(max(2, hi-r.Intn(6)))
		case "constant":
			q[i] = k
		case "with-zeros":
			if r.Intn(4) == 0 {
				q[i] = 0
			} else {
				q[i] = byte(r.Intn(42))
			}
		case "max93":
			q[i] = 93
		default: // uniform1-41
			q[i] = byte(1 + r.Intn(41))
		}
	}
	return q
}

// PETemplate draws a template of length n; complexity selects random DNA or
// repeat-rich DNA (ties between diagonals).
func PETemplate(r *rand.Rand, n int, complexity string) []byte {
	switch complexity {
	case "homopolymer-rich":
		var t []byte
		for len(t) < n {
			c := ACGT[r.Intn(4)]
			t = append(t, bytes.Repeat([]byte{c}, 1+r.Intn(9))...)
		}
		return t[:n]
	case "tandem-repeat":
		unit := DNA(r, 2+r.Intn(7))
		var t []byte
		for len(t) < n {
			if r.Intn(6) == 0 {
				t = append(t, DNA(r, 1+r.Intn(5))...)
			}
			t = append(t, unit...)
		}
		return t[:n]
	case "two-letter":
		t := make([]byte, n)
		x, y := ACGT[r.Intn(4)], ACGT[r.Intn(4)]
		for i := range t {
			if r.Intn(2) == 0 {
				t[i] = x
			} else {
				t[i] = y
			}
		}
		return t
	}
	return DNA(r, n)
}

// PEOptions steer PEPairCase.
type PEOptions struct {
	MaxLen    int    // maximal read length (<= 300)
	Geometry  string // "" = random
	ErrorFree bool   // no edits, no ambiguity codes
	QProfile  string // "" = random
}

func c08ClampLen(n, lo, hi int) int { return max(lo, min(hi, n)) }

// PEPairCase draws one pair.
func PEPairCase(r *rand.Rand, o PEOptions) PEPair {
	if o.MaxLen <= 0 {
		o.MaxLen = 300
	}
	geo := o.Geometry
	if geo == "" {
		geo = PEGeometries[r.Intn(len(PEGeometries))]
	}
	// read lengths: mostly realistic, sometimes very short
	drawLen := func() int {
		switch r.Intn(10) {
		case 0:
			return 1 + r.Intn(8)
		case 1, 2:
			return 4 + r.Intn(30)
		case 3:
			return c08ClampLen(o.MaxLen-r.Intn(5), 1, o.MaxLen)
		default:
			return 1 + r.Intn(o.MaxLen)
		}
	}
	la, lb := drawLen(), drawLen()
	var a0, b0 int
	switch geo {
	case "stagger-a-first": // a0 < b0 < a1 < b1
		if la < 2 {
			la = 2
		}
		a0 = 0
		b0 = 1 + r.Intn(la-1) // 1..la-1 : overlap la-b0 >= 1
		if b0+lb <= la {
			lb = la - b0 + 1 + r.Intn(min(o.MaxLen, 40))
		}
		lb = min(lb, o.MaxLen)
		if b0+lb <= la { // cannot extend beyond A within MaxLen: shift B
			b0 = la - lb + 1
		}
	case "stagger-b-first":
		if lb < 2 {
			lb = 2
		}
		b0 = 0
		a0 = 1 + r.Intn(lb-1)
		if a0+la <= lb {
			la = lb - a0 + 1 + r.Intn(min(o.MaxLen, 40))
		}
		la = min(la, o.MaxLen)
		if a0+la <= lb {
			a0 = lb - la + 1
		}
	case "same-start":
		a0, b0 = 0, 0
	case "same-end":
		if la >= lb {
			a0, b0 = 0, la-lb
		} else {
			a0, b0 = lb-la, 0
		}
	case "a-contains-b":
		if la < 3 {
			la = 3 + r.Intn(20)
		}
		lb = 1 + r.Intn(la-2)
		a0 = 0
		b0 = 1 + r.Intn(la-lb-1)
		if r.Intn(2) == 0 { // small overhang at one end
			lb = max(lb, la-1-(1+r.Intn(3)))
			b0 = 1
			if r.Intn(2) == 0 {
				b0 = la - lb - 1
			}
		}
	case "b-contains-a":
		if lb < 3 {
			lb = 3 + r.Intn(20)
		}
		la = 1 + r.Intn(lb-2)
		b0 = 0
		a0 = 1 + r.Intn(lb-la-1)
		if r.Intn(2) == 0 {
			la = max(la, lb-1-(1+r.Intn(3)))
			a0 = 1
			if r.Intn(2) == 0 {
				a0 = lb - la - 1
			}
		}
	case "same-span":
		lb = la
	case "overlap-lt4":
		ov := 1 + r.Intn(3)
		la, lb = max(la, ov), max(lb, ov)
		if r.Intn(2) == 0 {
			a0, b0 = 0, la-ov
		} else {
			b0, a0 = 0, lb-ov
		}
	case "abutting":
		a0, b0 = 0, la
	case "tiny-reads":
		la, lb = 1+r.Intn(6), 1+r.Intn(6)
		if r.Intn(2) == 0 {
			lb = 1 + r.Intn(o.MaxLen)
		}
		if r.Intn(2) == 0 {
			la, lb = lb, la
		}
		span := max(la, lb)
		a0, b0 = r.Intn(span-la+1), r.Intn(span-lb+1)
	case "disjoint":
		a0, b0 = 0, la+5+r.Intn(20)
	}
	tl := max(a0+la, b0+lb)
	cx := []string{"random", "random", "random", "homopolymer-rich", "tandem-repeat", "two-letter"}[r.Intn(6)]
	if o.ErrorFree && r.Intn(4) != 0 {
		cx = "random"
	}
	t := PETemplate(r, tl, cx)
	p := PEPair{Geometry: geo, Template: t, A0: a0, A1: a0 + la, B0: b0, B1: b0 + lb, Complexity: cx}
	p.A = append([]byte{}, t[a0:a0+la]...)
	p.B = append([]byte{}, t[b0:b0+lb]...)
	if !o.ErrorFree {
		// sequencing errors at a rate of 0..10 %
		rate := []int{0, 0, 5, 10, 20, 50, 100}[r.Intn(7)] // per mille
		ea, eb := 0, 0
		for i := 0; i < la; i++ {
			if r.Intn(1000) < rate {
				ea++
			}
		}
		for i := 0; i < lb; i++ {
			if r.Intn(1000) < rate {
				eb++
			}
		}
		if r.Intn(3) == 0 { // substitutions only
			p.A = substitute(r, p.A, ea)
			p.B = substitute(r, p.B, eb)
		} else {
			p.A = Mutate(r, p.A, ea)
			p.B = Mutate(r, p.B, eb)
		}
		p.Errors = ea + eb
		if len(p.A) == 0 {
			p.A = []byte{ACGT[r.Intn(4)]}
		}
		if len(p.B) == 0 {
			p.B = []byte{ACGT[r.Intn(4)]}
		}
		if len(p.A) > 300 {
			p.A = p.A[:300]
		}
		if len(p.B) > 300 {
			p.B = p.B[:300]
		}
		// IUPAC symbols at a low rate
		if r.Intn(4) == 0 {
			am := []int{5, 20, 100}[r.Intn(3)]
			for _, s := range [][]byte{p.A, p.B} {
				for i := range s {
					if r.Intn(1000) < am {
						s[i] = Ambig[r.Intn(len(Ambig))]
						p.Ambig++
					}
				}
			}
		}
	}
	prof := o.QProfile
	if prof == "" {
		prof = PEQualProfiles[r.Intn(len(PEQualProfiles))]
	}
	p.QProfile = prof
	p.QA = PEQual(r, len(p.A), prof)
	p.QB = PEQual(r, len(p.B), prof)
	return p
}

func substitute(r *rand.Rand, s []byte, k int) []byte {
	t := append([]byte{}, s...)
	for e := 0; e < k && len(t) > 0; e++ {
		p := r.Intn(len(t))
		c := ACGT[r.Intn(4)]
		for c == t[p] {
			c = ACGT[r.Intn(4)]
		}
		t[p] = c
	}
	return t
}

// PEParams are the settings of one alignment.
type PEParams struct {
	Fast    bool
	FastRel bool
	Delta   int
	Gap     float64
	Scale   float64
}

// PEParamsCase draws the settings.
func PEParamsCase(r *rand.Rand) PEParams {
	p := PEParams{Fast: r.Intn(2) == 0, FastRel: r.Intn(2) == 0}
	p.Delta = []int{0, 1, 2, 5, 5, 10, 20}[r.Intn(7)]
	p.Gap = []float64{0.5, 1, 2, 2, 3, 4}[r.Intn(6)]
	p.Scale = []float64{0.5, 1, 1, 1.5, 2}[r.Intn(5)]
	return p
}
