package main

import _ "verifh/c11"
