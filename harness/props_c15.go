package main

import _ "verifh/c15"
