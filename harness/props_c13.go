package main

import _ "verifh/c13"
