// Command vh is the verification harness: supervisor (`run`), child and replay modes.
package main

import (
	"fmt"
	"os"

	"verifh/core"
)

func main() {
	if len(os.Args) < 2 {
		fmt.Println("usage: vh run <ID> <tier> | vh child ... | vh replay <ID> <file> | vh list")
		os.Exit(2)
	}
	switch os.Args[1] {
	case "run":
		tier := "quick"
		if len(os.Args) > 3 {
			tier = os.Args[3]
		}
		os.Exit(core.RunMain(os.Args[2], tier))
	case "child":
		os.Exit(core.ChildMain(os.Args[2:]))
	case "replay":
		os.Exit(core.ReplayMain(os.Args[2], os.Args[3]))
	case "list":
		core.List()
	default:
		os.Exit(extra(os.Args[1:]))
	}
}
