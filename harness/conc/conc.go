// Package conc drives a deterministic evaluation function from several goroutines at once and
// compares every answer with the answer the same evaluation gives alone.
package conc

import (
	"fmt"
	"sync"
	"sync/atomic"
)

// Mismatch is one answer that differs under concurrency.
type Mismatch struct {
	Index  int
	Alone  string
	Got    string
	Panic  bool
	Worker int
}

// Run evaluates eval(i, w) for i in [0,n) once sequentially (w = -1; the "alone" answers, returned) and
// then `rounds` times from each of `workers` goroutines (w = goroutine number, for per-goroutine
// scratch state), in goroutine-dependent orders. It returns the first mismatch of every goroutine.
func Run(workers, rounds, n int, eval func(i, w int) string) (alone []string, bad []Mismatch, evals int64) {
	alone = make([]string, n)
	for i := 0; i < n; i++ {
		alone[i] = eval(i, -1)
	}
	var cnt atomic.Int64
	var mu sync.Mutex
	var wg sync.WaitGroup
	for w := 0; w < workers; w++ {
		wg.Add(1)
		go func(w int) {
			defer wg.Done()
			reported := false
			for r := 0; r < rounds; r++ {
				for k := 0; k < n; k++ {
					i := (k*7 + w*13 + r*3) % n
					func() {
						defer func() {
							if x := recover(); x != nil && !reported {
								reported = true
								mu.Lock()
								bad = append(bad, Mismatch{Index: i, Alone: alone[i], Got: fmt.Sprint(x), Panic: true, Worker: w})
								mu.Unlock()
							}
						}()
						cnt.Add(1)
						if got := eval(i, w); got != alone[i] && !reported {
							reported = true
							mu.Lock()
							bad = append(bad, Mismatch{Index: i, Alone: alone[i], Got: got, Worker: w})
							mu.Unlock()
						}
					}()
				}
			}
		}(w)
	}
	wg.Wait()
	return alone, bad, cnt.Load()
}
