package main

import _ "verifh/c17"
