module verifh

go 1.23.1

require (
	git.metabarcoding.org/obitools/obitools4/obitools4 v0.0.0
	github.com/anishathalye/porcupine v1.3.0
	github.com/sirupsen/logrus v1.9.3
)

require golang.org/x/sys v0.17.0 // indirect

replace git.metabarcoding.org/obitools/obitools4/obitools4 => /repo
