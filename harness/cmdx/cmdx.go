// Package cmdx runs the real commands (built from /repo) as child processes.
package cmdx

import (
	"bytes"
	"os"
	"os/exec"
	"syscall"
	"time"

	"verifh/core"
)

// Res is the observable outcome of one command execution.
type Res struct {
	Stdout   []byte
	Stderr   []byte
	Exit     int
	TimedOut bool
	Deadlock bool // only meaningful when TimedOut: the SIGQUIT dump shows a dead-lock
}

// Opt configures a run.
type Opt struct {
	Stdin   []byte
	StdinFile string
	Env     []string
	Dir     string
	Timeout time.Duration // watchdog (default 120 s); firing is not a verdict by itself
}

// Run executes bin with args.
func Run(bin string, args []string, o Opt) Res {
	cmd := exec.Command(bin, args...)
	cmd.Env = append(os.Environ(), o.Env...)
	cmd.Dir = o.Dir
	var out, errb bytes.Buffer
	cmd.Stdout = &out
	cmd.Stderr = &errb
	if o.StdinFile != "" {
		f, err := os.Open(o.StdinFile)
		if err == nil {
			defer f.Close()
			cmd.Stdin = f
		}
	} else if o.Stdin != nil {
		cmd.Stdin = bytes.NewReader(o.Stdin)
	}
	to := o.Timeout
	if to == 0 {
		to = 120 * time.Second
	}
	if err := cmd.Start(); err != nil {
		return Res{Exit: -1, Stderr: []byte(err.Error())}
	}
	done := make(chan error, 1)
	go func() { done <- cmd.Wait() }()
	var werr error
	r := Res{}
	select {
	case werr = <-done:
	case <-time.After(to):
		r.TimedOut = true
		cmd.Process.Signal(syscall.SIGQUIT)
		select {
		case werr = <-done:
		case <-time.After(10 * time.Second):
			cmd.Process.Kill()
			werr = <-done
		}
	}
	r.Stdout = out.Bytes()
	r.Stderr = errb.Bytes()
	if werr != nil {
		r.Exit = -1
		if ee, ok := werr.(*exec.ExitError); ok {
			r.Exit = ee.ExitCode()
		}
	}
	if r.TimedOut {
		r.Deadlock = core.IsDeadlockDump(string(r.Stderr))
	}
	return r
}

// Tail returns the last n bytes of b as a string.
func Tail(b []byte, n int) string {
	if len(b) > n {
		b = b[len(b)-n:]
	}
	return string(b)
}

// Diag returns the part of stderr that explains a failure: from the first
// "panic:" / "fatal error:" / level=fatal line when there is one (up to n
// bytes), else the tail.
func Diag(b []byte, n int) string {
	s := string(b)
	for _, mark := range []string{"panic: ", "fatal error: ", "level=fatal", "level=panic"} {
		if i := indexOf(s, mark); i >= 0 {
			if len(s)-i > n {
				return s[i : i+n]
			}
			return s[i:]
		}
	}
	return Tail(b, n)
}

func indexOf(s, sub string) int {
	for i := 0; i+len(sub) <= len(s); i++ {
		if s[i:i+len(sub)] == sub {
			return i
		}
	}
	return -1
}
