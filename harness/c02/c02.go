// Package c02: write then read round-trips records unchanged (FASTA/FASTQ + JSON header).
package c02

import (
	"bytes"
	"encoding/json"
	"fmt"
	"git.metabarcoding.org/obitools/obitools4/obitools4/pkg/obiverif"
	"math"
	"os"
	"path/filepath"
	"sort"
	"strings"

	"git.metabarcoding.org/obitools/obitools4/obitools4/pkg/obiformats"
	"git.metabarcoding.org/obitools/obitools4/obitools4/pkg/obiiter"
	"git.metabarcoding.org/obitools/obitools4/obitools4/pkg/obioptions"
	"git.metabarcoding.org/obitools/obitools4/obitools4/pkg/obiseq"
	log "github.com/sirupsen/logrus"

	"verifh/cmdx"
	"verifh/core"
	"verifh/gen"
)

// ---------------------------------------------------------------- generators

var hostileRunes = []rune{'"', '\\', '{', '}', ';', '=', '>', '@', '\'', ' ', '+', ':', ',', '[', ']', '/', '&', '<'}
var unicodeRunes = []rune{'é', 'ß', 'Ω', '日', '本', '𝔘', '😀', 'ñ', ' ', ' '}

// pattern classes of a string value (used for the case classification and the crash label)
func patternClass(s string) []string {
	var out []string
	has := func(sub string) bool { return strings.Contains(s, sub) }
	if has(`\"}`) || has(`"}`) {
		out = append(out, "quote-then-closing-brace")
	}
	if has(`"{`) {
		out = append(out, "quote-then-opening-brace")
	}
	if has(`"`) {
		out = append(out, "quote")
	}
	if has(`\`) {
		out = append(out, "backslash")
	}
	if has("{") || has("}") {
		out = append(out, "brace")
	}
	for _, r := range s {
		if r > 127 {
			out = append(out, "non-ascii")
			break
		}
	}
	if has("\n") || has("\t") {
		out = append(out, "control")
	}
	return out
}

func randString(c *core.Ctx) string {
	n := c.Rng.Intn(14)
	var sb strings.Builder
	mode := c.Rng.Intn(8)
	for i := 0; i < n; i++ {
		switch {
		case mode <= 2: // plain
			sb.WriteByte("abcdefghijklmnopqrstuvwxyzABCDEFXYZ0123456789_-."[c.Rng.Intn(47)])
		case mode <= 5: // hostile ASCII mix
			if c.Rng.Intn(2) == 0 {
				sb.WriteRune(hostileRunes[c.Rng.Intn(len(hostileRunes))])
			} else {
				sb.WriteByte("abcxyz019"[c.Rng.Intn(9)])
			}
		case mode == 6: // unicode
			if c.Rng.Intn(2) == 0 {
				sb.WriteRune(unicodeRunes[c.Rng.Intn(len(unicodeRunes))])
			} else {
				sb.WriteByte("abc"[c.Rng.Intn(3)])
			}
		default: // everything, with control characters
			switch c.Rng.Intn(4) {
			case 0:
				sb.WriteRune(hostileRunes[c.Rng.Intn(len(hostileRunes))])
			case 1:
				sb.WriteRune(unicodeRunes[c.Rng.Intn(len(unicodeRunes))])
			case 2:
				sb.WriteByte("\n\t"[c.Rng.Intn(2)])
			default:
				sb.WriteByte("abc"[c.Rng.Intn(3)])
			}
		}
	}
	s := sb.String()
	// the patterns named in the design: a quote followed by a brace
	switch c.Rng.Intn(12) {
	case 0:
		s += `a"}`
	case 1:
		s += `x"{`
	case 2:
		s = `"}` + s
	case 3:
		s += `\`
	}
	return s
}

func randKey(c *core.Ctx, i int) string {
	base := []string{"sample", "primer", "score", "mode", "tag", "experiment", "run.id", "obi-key", "ns:attr", "A_b9"}[c.Rng.Intn(10)]
	return fmt.Sprintf("%s%d", base, i)
}

func randInt(c *core.Ctx) int {
	switch c.Rng.Intn(6) {
	case 0:
		return 0
	case 1:
		return []int{1 << 53, -(1 << 53), 1<<53 - 1, 1 << 31, -(1 << 31), 1<<32 + 1}[c.Rng.Intn(6)]
	case 2:
		return -c.Rng.Intn(1000)
	}
	return c.Rng.Intn(100000)
}

func randFloat(c *core.Ctx) float64 {
	switch c.Rng.Intn(6) {
	case 0:
		return float64(c.Rng.Intn(100)) // integral
	case 1:
		return []float64{1e21, 1e-7, -2.5e-10, 1.7976931348623157e308, 5e-324, 0.1}[c.Rng.Intn(6)]
	case 2:
		return -c.Rng.Float64() * 1000
	}
	return c.Rng.Float64() * math.Pow(10, float64(c.Rng.Intn(12)-4))
}

// randAnnotations draws an annotation map and the list of value-type names used.
func randAnnotations(c *core.Ctx) (map[string]any, []string) {
	m := map[string]any{}
	types := map[string]bool{}
	n := c.Rng.Intn(6)
	for i := 0; i < n; i++ {
		k := randKey(c, i)
		switch c.Rng.Intn(9) {
		case 0, 1:
			m[k] = randString(c)
			types["string"] = true
		case 2:
			m[k] = randInt(c)
			types["int"] = true
		case 3:
			m[k] = randFloat(c)
			types["float"] = true
		case 4:
			m[k] = c.Rng.Intn(2) == 0
			types["bool"] = true
		case 5:
			mi := map[string]int{}
			for j := 0; j < c.Rng.Intn(4); j++ {
				mi[fmt.Sprintf("s%d", c.Rng.Intn(9))] = randInt(c)
			}
			m[k] = mi
			types["map[string]int"] = true
		case 6:
			ms := map[string]string{}
			for j := 0; j < c.Rng.Intn(4); j++ {
				ms[fmt.Sprintf("k%d", j)] = randString(c)
			}
			m[k] = ms
			types["map[string]string"] = true
		case 7:
			var li []int
			for j := 0; j < c.Rng.Intn(5); j++ {
				li = append(li, randInt(c))
			}
			if li == nil {
				li = []int{}
			}
			m[k] = li
			types["[]int"] = true
		default:
			m[k] = map[string]any{"a": randInt(c), "b": randString(c), "c": []int{1, 2}}
			types["nested"] = true
		}
	}
	if c.Rng.Intn(3) == 0 {
		m["count"] = 1 + c.Rng.Intn(1000)
		types["count"] = true
	}
	if c.Rng.Intn(12) == 0 {
		// keys whose names have a meaning for the toolkit (merged_*, *_count, *_status) holding maps
		// of numbers that are not all integers, or of strings: values are kept as they are
		k := []string{"merged_sample", "merged_q", "obiclean_count", "reads_count", "obiclean_status"}[c.Rng.Intn(5)]
		mv := map[string]any{}
		for j := 0; j < 1+c.Rng.Intn(3); j++ {
			switch c.Rng.Intn(3) {
			case 0:
				mv[fmt.Sprintf("s%d", j)] = float64(c.Rng.Intn(50)) + []float64{0.5, 0.25, 0.1}[c.Rng.Intn(3)]
			case 1:
				mv[fmt.Sprintf("s%d", j)] = c.Rng.Intn(50)
			default:
				mv[fmt.Sprintf("s%d", j)] = randString(c)
			}
		}
		m[k] = mv
		types["special-key-map"] = true
	}
	if c.Rng.Intn(40) == 0 {
		// a title line longer than the 4 KiB / 64 KiB buffers of the usual line readers: what a
		// dereplicated record with a few hundred samples carries
		target := []int{3900, 4096, 4200, 9000, 70000}[c.Rng.Intn(5)]
		if c.Rng.Intn(2) == 0 {
			mi := map[string]int{}
			for j := 0; j*18 < target; j++ {
				mi[fmt.Sprintf("sample_%05d", j)] = 1 + c.Rng.Intn(999)
			}
			m["merged_sample"] = mi
			types["long-map"] = true
		} else {
			m["long_text"] = strings.Repeat("lorem ipsum ", target/12)
			types["long-string"] = true
		}
	}
	var tl []string
	for t := range types {
		tl = append(tl, t)
	}
	sort.Strings(tl)
	return m, tl
}

type rec struct {
	ID    string
	Seq   string
	Qual  []byte
	Def   string
	Annot map[string]any
	Types []string
}

func randRec(c *core.Ctx, withQual bool) rec {
	r := rec{ID: gen.RandID(c.Rng, c.Rng.Intn(3) == 0)}
	if c.Rng.Intn(10) == 0 {
		// identifiers are not always ASCII; what ends an identifier on a title line is a space or a
		// tab, not every character that Unicode classifies as white space
		at := c.Rng.Intn(len(r.ID) + 1)
		r.ID = r.ID[:at] + string([]rune{0x00A0, 0x2009, 0x202F, 0x3000, 0x00E9, 0x03A9, 0x2028, 0x0085}[c.Rng.Intn(8)]) + r.ID[at:]
	}
	l := []int{1, 2, 59, 60, 61, 119, 120, 121, 1 + c.Rng.Intn(200)}[c.Rng.Intn(9)]
	r.Seq = string(gen.DNAIupac(c.Rng, l, []int{0, 100}[c.Rng.Intn(2)]))
	if withQual {
		r.Qual = make([]byte, l)
		for i := range r.Qual {
			r.Qual[i] = byte(c.Rng.Intn(94))
		}
		if c.Rng.Intn(4) == 0 {
			for i := range r.Qual {
				r.Qual[i] = []byte{0, 93, 31, 41}[c.Rng.Intn(4)]
			}
		}
	}
	r.Annot, r.Types = randAnnotations(c)
	if c.Rng.Intn(2) == 0 {
		r.Def = strings.TrimSpace(randString(c))
		// a definition is a single line of text without leading/trailing blanks
		r.Def = strings.NewReplacer("\n", " ", "\t", " ").Replace(r.Def)
		r.Def = strings.TrimSpace(r.Def)
		if c.Rng.Intn(6) == 0 {
			// free text that reads like the other title-line syntax (key=value; ...): it is still the
			// definition of the record, and names one of its attributes now and then
			key := "gene"
			for k := range r.Annot {
				if c.Rng.Intn(2) == 0 {
					key = k
				}
				break
			}
			if strings.ContainsAny(key, " ;=\t\"'{}") || key == "" {
				key = "gene"
			}
			r.Def = strings.TrimSpace(fmt.Sprintf("%s=%s; %s", key, []string{"COI", "3", "1.5", "true"}[c.Rng.Intn(4)], r.Def))
		}
	}
	return r
}

func (r rec) bio() *obiseq.BioSequence {
	s := obiseq.NewBioSequence(r.ID, []byte(r.Seq), "")
	for k, v := range r.Annot {
		s.SetAttribute(k, deepCopy(v))
	}
	if r.Def != "" {
		s.SetDefinition(r.Def)
	}
	if r.Qual != nil {
		s.SetQualities(append([]byte{}, r.Qual...))
	}
	return s
}

func deepCopy(v any) any {
	switch t := v.(type) {
	case map[string]int:
		m := map[string]int{}
		for k, x := range t {
			m[k] = x
		}
		return m
	case map[string]string:
		m := map[string]string{}
		for k, x := range t {
			m[k] = x
		}
		return m
	case []int:
		return append([]int{}, t...)
	case map[string]any:
		m := map[string]any{}
		for k, x := range t {
			m[k] = deepCopy(x)
		}
		return m
	}
	return v
}

// canon converts a value to a canonical form: numbers -> float64, maps -> map[string]any, lists -> []any.
func canon(v any) any {
	b, err := json.Marshal(v)
	if err != nil {
		return fmt.Sprintf("unmarshalable:%v", v)
	}
	var out any
	d := json.NewDecoder(bytes.NewReader(b))
	if err := d.Decode(&out); err != nil {
		return fmt.Sprintf("undecodable:%s", b)
	}
	return out
}

func sameValue(a, b any) bool {
	ca, _ := json.Marshal(canon(a))
	cb, _ := json.Marshal(canon(b))
	return bytes.Equal(ca, cb)
}

func typeName(v any) string {
	switch v.(type) {
	case string:
		return "string"
	case int, int64:
		return "int"
	case float64:
		return "float"
	case bool:
		return "bool"
	case map[string]int:
		return "map[string]int"
	case map[string]string:
		return "map[string]string"
	case []int:
		return "[]int"
	}
	return "nested"
}

// ---------------------------------------------------------------- in-process round trip

func allPatterns(r rec) []string {
	set := map[string]bool{}
	var walk func(v any)
	walk = func(v any) {
		switch t := v.(type) {
		case string:
			for _, p := range patternClass(t) {
				set[p] = true
			}
		case map[string]string:
			for _, x := range t {
				walk(x)
			}
		case map[string]any:
			for _, x := range t {
				walk(x)
			}
		}
	}
	for _, v := range r.Annot {
		walk(v)
	}
	walk(r.Def)
	var out []string
	for p := range set {
		out = append(out, p)
	}
	sort.Strings(out)
	return out
}

func lenClass(l int) string {
	switch {
	case l < 59:
		return "<59"
	case l <= 61:
		return fmt.Sprint(l)
	case l < 119:
		return "62-118"
	case l <= 121:
		return fmt.Sprint(l)
	}
	return ">121"
}

func runRoundTrip(c *core.Ctx) {
	log.SetLevel(log.ErrorLevel)
	fastq := c.Idx%2 == 1
	shift := []int{33, 64}[(c.Idx/2)%2]
	if !fastq {
		shift = 33
	}
	// the offset declared for the *input* of the process is independent of the one the writer must
	// use (obiconvert --solexa: input 64, output 33): half of the FASTQ groups run with the two
	// process-wide offsets different; the text is always read back with the writer's offset
	inGlobal := shift
	if fastq && (c.Idx/8)%2 == 1 {
		inGlobal = 97 - shift
	}
	obioptions.SetInputQualityShift(inGlobal)
	obioptions.SetOutputQualityShift(shift)
	defer obioptions.SetInputQualityShift(33)
	defer obioptions.SetOutputQualityShift(33)
	guessed := (c.Idx/4)%2 == 1
	per := c.Pick(150, 1500)
	for i := 0; i < per; i++ {
		r := randRec(c, fastq)
		pats := allPatterns(r)
		label := "no-hostile-pattern"
		if len(pats) > 0 {
			label = strings.Join(pats, "+")
		}
		c.Risk("roundtrip:" + label)
		s := r.bio()
		var text string
		if fastq {
			text = obiformats.FormatFastq(s, obiformats.FormatFastSeqJsonHeader)
		} else {
			text = obiformats.FormatFasta(s, obiformats.FormatFastSeqJsonHeader) + "\n"
		}
		det := map[string]any{"record": r, "fastq": fastq, "quality_shift": shift, "process_input_shift": inGlobal, "header_parser": map[bool]string{true: "guessed", false: "json"}[guessed], "written": text}
		parse := func(txt string) (*obiseq.BioSequence, string) {
			var parser obiformats.SeqFileChunkParser
			if fastq {
				parser = obiformats.FastqChunkParser(byte(shift), true)
			} else {
				parser = obiformats.FastaChunkParser()
			}
			seqs, err := parser("src", strings.NewReader(strings.TrimRight(txt, "\n")))
			if err != nil || len(seqs) != 1 {
				return nil, fmt.Sprintf("parsed %d records, err=%v", len(seqs), err)
			}
			if guessed {
				obiformats.ParseGuessedFastSeqHeader(seqs[0])
			} else {
				obiformats.ParseFastSeqJsonHeader(seqs[0])
			}
			return seqs[0], ""
		}
		c.Count("evaluations", 1)
		c.Key("rt/%v/%v/%s/%v", r.Types, pats, lenClass(len(r.Seq)), fastq)
		for _, p := range pats {
			c.Count("titles_with."+p, 1)
		}
		back, perr := parse(text)
		if back == nil {
			det["error"] = perr
			c.Violate("record-count:"+label, "the written record is not read back as exactly one record", det)
			continue
		}
		if i == 0 {
			c.Sample(det)
		}
		// compare
		cause := ""
		switch {
		case back.Id() != r.ID:
			cause = "id"
		case back.String() != r.Seq:
			cause = "sequence"
		case back.Definition() != r.Def:
			cause = "definition"
		}
		if cause == "" && fastq && !bytes.Equal(back.Qualities(), r.Qual) {
			cause = fmt.Sprintf("quality:out%d-in%d", shift, inGlobal)
		}
		if cause == "" {
			got := back.Annotations()
			want := map[string]any{}
			for k, v := range r.Annot {
				want[k] = v
			}
			if r.Def != "" {
				want["definition"] = r.Def
			}
			for k, v := range want {
				gv, ok := got[k]
				if !ok {
					cause = "lost-annotation:" + typeName(v)
					det["key"] = k
					break
				}
				if !sameValue(gv, v) {
					cause = "value:" + typeName(v)
					det["key"] = k
					det["got_value"] = gv
					break
				}
			}
			if cause == "" && len(got) != len(want) {
				cause = "extra-annotation"
				det["got_annotations"] = got
			}
		}
		if cause != "" {
			det["read_back"] = map[string]any{"id": back.Id(), "definition": back.Definition(), "sequence": back.String(), "annotations": fmt.Sprint(back.Annotations())}
			c.Violate("roundtrip:"+cause+":"+label, "a written record is not read back unchanged", det)
			continue
		}
		// fixed point: write(read(write(r))) == write(r)
		var text2 string
		if fastq {
			text2 = obiformats.FormatFastq(back, obiformats.FormatFastSeqJsonHeader)
		} else {
			text2 = obiformats.FormatFasta(back, obiformats.FormatFastSeqJsonHeader) + "\n"
		}
		if text2 != text {
			det["rewritten"] = text2
			c.Violate("fixedpoint:"+label, "writing the re-read record does not give byte-identical text", det)
		}
	}
}

// runReparse: re-parsing a formatted header never changes or loses annotations,
// for title lines the parser accepts (titles built by hand, not by the writer).
func runReparse(c *core.Ctx) {
	log.SetLevel(log.ErrorLevel)
	per := c.Pick(150, 1500)
	for i := 0; i < per; i++ {
		annot, types := randAnnotations(c)
		// a hand-made title: JSON produced by encoding/json (different escaping choices than the toolkit's writer)
		// one title in four carries its definition inside the JSON object (the "definition" key is where the
		// toolkit keeps it); free text after the object is appended to it, never put in its place
		defInJSON := ""
		if c.Rng.Intn(4) == 0 {
			defInJSON = []string{"COI amplicon", "x", "marker 16S; clone 12", "uncultured bacterium"}[c.Rng.Intn(4)]
			annot["definition"] = defInJSON
		}
		b, err := json.Marshal(annot)
		if err != nil {
			continue
		}
		title := string(b)
		trailing := ""
		if c.Rng.Intn(3) == 0 {
			trailing = strings.TrimSpace(strings.NewReplacer("\n", " ", "\t", " ", "{", "(", "}", ")").Replace(randString(c)))
			title += " " + trailing
		}
		var pats []string
		for _, p := range patternClass(title) {
			pats = append(pats, p)
		}
		label := "no-hostile-pattern"
		if len(pats) > 0 {
			label = strings.Join(pats, "+")
		}
		c.Risk("reparse:" + label)
		s := obiseq.NewBioSequence("id1", []byte("acgt"), strings.TrimSpace(title))
		obiformats.ParseFastSeqJsonHeader(s)
		first := obiformats.FormatFastSeqJsonHeader(s)
		s2 := obiseq.NewBioSequence("id1", []byte("acgt"), first)
		obiformats.ParseFastSeqJsonHeader(s2)
		second := obiformats.FormatFastSeqJsonHeader(s2)
		c.Count("evaluations", 1)
		c.Key("rp/%v/%v", types, pats)
		det := map[string]any{"title": title, "formatted_once": first, "formatted_twice": second}
		if i == 0 {
			c.Sample(det)
		}
		// every annotation of the accepted title must be present with the same value
		for k, v := range annot {
			gv, ok := s.Annotations()[k]
			if !ok {
				c.Violate("reparse:lost-annotation:"+label, "an annotation of an accepted title line is lost by the parser", det)
				break
			}
			if k == "definition" && defInJSON != "" && strings.TrimSpace(trailing) != "" {
				// definition given in the object AND free text behind it: both are kept
				if gs, _ := gv.(string); !strings.Contains(gs, defInJSON) || !strings.Contains(gs, strings.TrimSpace(trailing)) {
					det["key"], det["definition_read"] = k, gv
					c.Violate("reparse:definition-and-trailing-text:"+label, "the definition given inside the JSON object of a title line is lost or the text that follows the object is", det)
					break
				}
				c.Count("titles_with_definition_key_and_trailing_text", 1)
				continue
			}
			if !sameValue(gv, v) {
				det["key"] = k
				c.Violate("reparse:value:"+typeName(v)+":"+label, "an annotation of an accepted title line changes value when parsed", det)
				break
			}
		}
		if first != second {
			c.Violate("reparse:fixedpoint:"+label, "re-parsing a formatted header changes it", det)
		}
	}
}

// ---------------------------------------------------------------- writer + reader through iterators and files

func runStream(c *core.Ctx) {
	log.SetLevel(log.ErrorLevel)
	fastq := c.Idx%2 == 1
	n := 1 + c.Rng.Intn(c.Pick(40, 300))
	var recs []rec
	sl := obiseq.MakeBioSequenceSlice(0)
	long := c.Idx%16 == 7 || c.Idx%16 == 8
	if long {
		n = 6 // genomes, contigs: sequences of a megabase and more, lengths on both sides of 2^20 and of the multiples of the line width
	}
	for i := 0; i < n; i++ {
		r := randRec(c, fastq)
		r.ID = fmt.Sprintf("%s_%d", r.ID, i)
		if long {
			l := []int{1 << 20, 1<<20 + 1, 1048560, 1048620, 1048620 + 60*c.Rng.Intn(50), 1<<20 + c.Rng.Intn(100000), 2097120, 1<<20 - 1}[(i+c.Idx)%8]
			r.Seq = string(gen.DNA(c.Rng, l))
			if fastq {
				r.Qual = bytes.Repeat([]byte{byte(10 + c.Rng.Intn(30))}, l)
			}
			c.Count("records_of_a_megabase_and_more", 1)
		}
		recs = append(recs, r)
		sl = append(sl, r.bio())
	}
	path := filepath.Join(c.Dir, fmt.Sprintf("rt%d", c.Idx))
	defer os.Remove(path)
	c.Risk("stream")
	it := obiiter.IBatchOver("src", sl, 1+c.Rng.Intn(20))
	var out obiiter.IBioSequence
	var err error
	if fastq {
		out, err = obiformats.WriteFastqToFile(it, path, obiformats.OptionsParallelWorkers(1+c.Rng.Intn(4)))
	} else {
		out, err = obiformats.WriteFastaToFile(it, path, obiformats.OptionsParallelWorkers(1+c.Rng.Intn(4)))
	}
	if err != nil {
		c.Violate("stream:write-error", "the writer returns an error", map[string]any{"error": err.Error()})
		return
	}
	out.Consume()
	obiiter.WaitForLastPipe()
	// the file is read back through read buffers of several sizes: what the toolkit writes must not
	// be cut at a place its own chunk splitter mistakes for a record start
	chunk := []int{0, 50, 200, 1000, 4000}[c.Rng.Intn(5)]
	if long {
		chunk = 0 // the real read buffers: growing a tiny forced buffer up to a megabase record costs minutes
	}
	obiverif.SetChunk(chunk)
	defer obiverif.SetChunk(0)
	rd, err := obiformats.ReadSequencesFromFile(path, obiformats.OptionsParallelWorkers(1+c.Rng.Intn(4)))
	if err != nil {
		c.Violate("stream:read-error", "the written file cannot be read back", map[string]any{"error": err.Error()})
		return
	}
	got := map[string]*obiseq.BioSequence{}
	var order []string
	type ob struct {
		o   int
		ids []string
	}
	var batches []ob
	for rd.Next() {
		b := rd.Get()
		o := ob{o: b.Order()}
		for _, s := range b.Slice() {
			got[s.Id()] = s
			o.ids = append(o.ids, s.Id())
		}
		batches = append(batches, o)
	}
	sort.Slice(batches, func(i, j int) bool { return batches[i].o < batches[j].o })
	for _, b := range batches {
		order = append(order, b.ids...)
	}
	c.Count("evaluations", 1)
	c.Count("stream_records", n)
	c.Key("stream/%v/%d/%d", fastq, n/10, chunk)
	det := map[string]any{"fastq": fastq, "records": n, "forced_read_buffer": chunk}
	if len(order) != n {
		det["read_back"] = len(order)
		c.Violate("stream:record-count", "the file written by the toolkit is not read back as the same number of records", det)
		return
	}
	for i, r := range recs {
		if order[i] != r.ID {
			c.Violate("stream:order", "records are read back in another order", det)
			return
		}
		s := got[r.ID]
		bad := ""
		switch {
		case s.String() != r.Seq:
			bad = "sequence"
		case s.Definition() != r.Def:
			bad = "definition"
		case fastq && !bytes.Equal(s.Qualities(), r.Qual):
			bad = "quality"
		}
		if bad == "" {
			for k, v := range r.Annot {
				if gv, ok := s.Annotations()[k]; !ok || !sameValue(gv, v) {
					bad = "annotation:" + typeName(v)
					det["key"] = k
					break
				}
			}
		}
		if bad != "" && long {
			det["record_id"], det["expected_length"], det["read_back_length"] = r.ID, len(r.Seq), s.Len()
			c.Violate("stream:long:"+bad, "a record of a megabase or more written to a file and read back through the real reader differs", det)
			return
		}
		if bad != "" {
			det["record"] = r
			det["read_back"] = map[string]any{"definition": s.Definition(), "sequence": s.String(), "annotations": fmt.Sprint(s.Annotations())}
			c.Violate("stream:"+bad, "a record written to a file and read back through the real reader differs", det)
			return
		}
	}
	c.Sample(det)
}

// ---------------------------------------------------------------- end to end

func runE2E(c *core.Ctx) {
	fastq := c.Idx%2 == 1
	n := 1 + c.Rng.Intn(c.Pick(30, 200))
	var sb strings.Builder
	var recs []rec
	for i := 0; i < n; i++ {
		r := randRec(c, fastq)
		r.ID = fmt.Sprintf("%s_%d", strings.NewReplacer(">", "x", "@", "y", "+", "z").Replace(r.ID), i)
		recs = append(recs, r)
		s := r.bio()
		if fastq {
			sb.WriteString(obiformats.FormatFastq(s, obiformats.FormatFastSeqJsonHeader))
		} else {
			sb.WriteString(obiformats.FormatFasta(s, obiformats.FormatFastSeqJsonHeader) + "\n")
		}
	}
	in := filepath.Join(c.Dir, fmt.Sprintf("in%d", c.Idx))
	os.WriteFile(in, []byte(sb.String()), 0o644)
	defer os.Remove(in)
	hdr := [][]string{nil, {"--input-json-header"}}[c.Rng.Intn(2)]
	args := append([]string{"--no-progressbar", "--max-cpu", "4", "--batch-size", fmt.Sprint(1 + c.Rng.Intn(30))}, hdr...)
	first := cmdx.Run(filepath.Join(c.BinDir, "obiconvert"), append(append([]string{}, args...), in), cmdx.Opt{})
	c.Count("evaluations", 1)
	c.Count("pipelines", 1)
	det := map[string]any{"fastq": fastq, "records": n, "args": args, "exit": first.Exit, "stderr": cmdx.Tail(first.Stderr, 600)}
	if first.TimedOut {
		c.Inconclusive("watchdog on obiconvert")
		return
	}
	if first.Exit != 0 {
		c.Violate("e2e:exit", "obiconvert fails on a file written by the toolkit's own formatter", det)
		return
	}
	if !bytes.Equal(first.Stdout, []byte(sb.String())) {
		det["input"] = cmdx.Tail([]byte(sb.String()), 1200)
		det["output"] = cmdx.Tail(first.Stdout, 1200)
		c.Violate("e2e:fixedpoint", "obiconvert of a file written by the toolkit is not byte-identical (write-after-read is not a fixed point)", det)
		return
	}
	c.Key("e2e/%v/%d/%v", fastq, n/10, hdr)
	c.Sample(det)
}

func init() {
	core.Register(&core.Property{
		ID:    "C02",
		Level: "exploration",
		Rule: "random records (ids without blanks incl. '>' '@' '+' '{', IUPAC sequences of length 1..200 with emphasis on 59,60,61,119,120,121, qualities 0..93, definition present/absent, annotation maps with hostile strings (quotes, backslashes, braces, ';' '=' '>' '@', non-ASCII runes, control characters, the patterns quote+brace), ints to 2^53, floats, bools, map[string]int/string, []int, nested maps) are formatted by the toolkit (FASTA/FASTQ + JSON header), parsed back by the real chunk parser + json/guessed header parser and compared by value, then formatted again (byte fixed point); hand-made JSON titles are parsed, re-formatted and re-parsed; whole files go through WriteFasta/WriteFastq -> ReadSequencesFromFile and through obiconvert. " +
			"Added later: process-wide input offset different from the output offset, title lines of 4 KiB-70 kB (large merged maps, long strings), maps under the key names merged_* / *_count / *_status holding non-integers, the stream file read back through forced read buffers of 50..4000 bytes. Title lines in the other syntax the parsers accept (key=value; ... free text: sub-check obi-title, a small model of the value forms, rewritten in both syntaxes), definitions that read like such attributes. " +
			"distinct_nontrivial = distinct (value-type set, hostile-pattern set, length class, format) tuples",
		Assume: []string{"encoding/json defines value equality (numbers by value)", "definitions are single lines without leading/trailing blanks"},
		Subs: []core.Sub{
			{Name: "roundtrip", N: core.Const(64, 2048), Run: runRoundTrip},
			{Name: "reparse", N: core.Const(32, 1024), Run: runReparse},
			{Name: "obi-title", N: core.Const(32, 512), Run: runOBITitle},
			{Name: "stream", N: core.Const(32, 1024), Run: runStream},
			{Name: "e2e", N: core.Const(24, 480), Run: runE2E},
		},
		Cmds:          []string{"obiconvert"},
		MinNontrivial: 200,
	})
}
