package c02

import (
	"fmt"
	"sort"
	"strconv"
	"strings"

	"git.metabarcoding.org/obitools/obitools4/obitools4/pkg/obiformats"
	"git.metabarcoding.org/obitools/obitools4/obitools4/pkg/obiseq"
	log "github.com/sirupsen/logrus"

	"verifh/core"
)

// The other title-line syntax the parsers accept: `key=value; key=value; free text` (the format of
// the earlier OBITools, still written with --output-OBI-header). The model is deliberately small:
//
//	decimal literal            -> that number (compared by value)
//	true/false/True/FALSE/T/F  -> that boolean
//	'text'                     -> text
//	{'k':1,'l':2}              -> that map (merged_* keys: integers)
//	any other word or phrase   -> the text itself, e.g. nan, Inf, Infinity, 0x1p-2, 1_000, e5
//
// Values never hold ';', '=', quotes or braces, and the free text never looks like `word=`.
type obiVal struct {
	text string // as written after `key=`
	want any
	kind string
}

func obiValue(c *core.Ctx) obiVal {
	r := c.Rng
	switch r.Intn(9) {
	case 0:
		n := r.Intn(100000) - 500
		return obiVal{strconv.Itoa(n), n, "int"}
	case 1: // non-integral decimal
		f := float64(r.Intn(2000000)-1000000)/1000 + 0.0005
		return obiVal{strconv.FormatFloat(f, 'f', -1, 64), f, "float"}
	case 2: // other spellings of decimal numbers
		x := []struct {
			s string
			v float64
		}{{".5", 0.5}, {"-.25", -0.25}, {"2.5e-3", 0.0025}, {"1e3", 1000}, {"3.0", 3}, {"7.", 7}, {"+12", 12}, {"1.25E2", 125}, {"6.02e23", 6.02e23}, {"0.1", 0.1}}[r.Intn(10)]
		return obiVal{x.s, x.v, "float-spelling"}
	case 3:
		w := []string{"true", "false", "True", "False", "TRUE", "FALSE", "T", "F", "t", "f"}[r.Intn(10)]
		return obiVal{w, strings.ToLower(w[:1]) == "t", "bool"}
	case 4: // words that other number parsers would take for numbers
		w := []string{"nan", "NaN", "NAN", "inf", "Inf", "-inf", "+Inf", "infinity", "Infinity", "0x1p-2", "0x10", "1_000", "e5", "1e", "--3", "1.2.3", "0b11", "0o17", "١٢٣"}[r.Intn(19)]
		return obiVal{w, w, "number-like-word"}
	case 5:
		w := []string{"Homo sapiens", "sample_12", "plate-3/A7", "a.b.c", "x", "NA", "none", "yes", "COI", "run 7 lane 2", "tru", "fals"}[r.Intn(12)]
		return obiVal{w, w, "word"}
	case 6:
		w := []string{"hello world", "", "a b  c", "12", "true", "it is 5 o clock"}[r.Intn(6)]
		return obiVal{"'" + w + "'", w, "quoted"}
	case 7:
		m := map[string]any{}
		var parts []string
		for i := 0; i < 1+r.Intn(3); i++ {
			k := fmt.Sprintf("k%d", i)
			if r.Intn(2) == 0 {
				v := r.Intn(50)
				m[k] = v
				parts = append(parts, fmt.Sprintf("'%s':%d", k, v))
			} else {
				v := fmt.Sprintf("v%d", r.Intn(9))
				m[k] = v
				parts = append(parts, fmt.Sprintf("'%s':'%s'", k, v))
			}
		}
		return obiVal{"{" + strings.Join(parts, ",") + "}", m, "dict"}
	default:
		n := r.Intn(9)
		return obiVal{strconv.Itoa(n), n, "int"}
	}
}

// runOBITitle: title lines in the key=value; syntax are parsed by the explicit and by the guessing
// parser; every attribute of the line must be delivered with its value; the record is then written
// in the same syntax (and in the default one) and read again: nothing may be lost on the way.
func runOBITitle(c *core.Ctx) {
	log.SetLevel(log.ErrorLevel)
	per := c.Pick(150, 1500)
	for i := 0; i < per; i++ {
		r := c.Rng
		n := 1 + r.Intn(6)
		want := map[string]any{}
		kinds := map[string]bool{}
		var parts []string
		for k := 0; k < n; k++ {
			key := []string{"count", "sample", "score", "ratio", "taxid", "ok", "strain", "note", "plate", "weight", "x1", "lat"}[r.Intn(12)]
			if _, dup := want[key]; dup {
				continue
			}
			v := obiValue(c)
			if key == "count" || key == "taxid" { // attributes with a fixed meaning for the toolkit
				v = obiVal{strconv.Itoa(1 + r.Intn(90)), 0, "int"}
				v.want, _ = strconv.Atoi(v.text)
			}
			want[key] = v.want
			kinds[v.kind] = true
			sp := []string{" ", " ", "  "}[r.Intn(3)] // the syntax separates the attributes by a blank
			parts = append(parts, key+"="+v.text+";"+sp)
		}
		def := []string{"", "", "free text here", "Homo sapiens isolate 12", "16S ribosomal RNA, partial sequence"}[r.Intn(5)]
		title := strings.TrimSpace(strings.Join(parts, "") + " " + def)
		var kl []string
		for k := range kinds {
			kl = append(kl, k)
		}
		sort.Strings(kl)
		label := strings.Join(kl, "+")
		c.Risk("obi-title:" + title)
		det := map[string]any{"title": title, "expected": want, "expected_definition": def}
		parser := []string{"obi", "guessed"}[r.Intn(2)]
		det["parser"] = parser
		s := obiseq.NewBioSequence("id1", []byte("acgt"), title)
		if parser == "obi" {
			obiformats.ParseFastSeqOBIHeader(s)
		} else {
			obiformats.ParseGuessedFastSeqHeader(s)
		}
		c.Count("evaluations", 1)
		c.Key("obi/%s/%s/%d/%v", parser, label, len(want), def != "")
		got := map[string]any{}
		for k, v := range s.Annotations() {
			got[k] = v
		}
		det["parsed"] = fmt.Sprint(got)
		det["parsed_definition"] = s.Definition()
		if i == 0 {
			c.Sample(det)
		}
		bad := false
		keys := make([]string, 0, len(want))
		for k := range want {
			keys = append(keys, k)
		}
		sort.Strings(keys)
		for _, k := range keys {
			gv, ok := got[k]
			det["key"] = k
			if !ok {
				c.Violate("lost-annotation:"+kindOf(want[k]), "an attribute of a key=value; title line is lost by the parser", det)
				bad = true
				break
			}
			if !sameValue(gv, want[k]) {
				c.Violate("value:"+kindOf(want[k]), "an attribute of a key=value; title line changes value when parsed", det)
				bad = true
				break
			}
		}
		if bad {
			continue
		}
		if strings.TrimSpace(s.Definition()) != def {
			c.Violate("definition", "the free text of a key=value; title line is not delivered as the definition", det)
			continue
		}
		// written again in both syntaxes and re-read
		for _, syntax := range []string{"obi", "json"} {
			var line string
			if syntax == "obi" {
				line = obiformats.FormatFastSeqOBIHeader(s)
			} else {
				line = obiformats.FormatFastSeqJsonHeader(s)
			}
			s2 := obiseq.NewBioSequence("id1", []byte("acgt"), strings.TrimSpace(line))
			obiformats.ParseGuessedFastSeqHeader(s2)
			det["rewritten_as_"+syntax] = line
			for _, k := range keys {
				gv, ok := s2.Annotations()[k]
				if !ok || !sameValue(gv, want[k]) {
					if syntax == "obi" && !obiRepresentable(want[k]) {
						continue
					}
					det["key"] = k
					det["reread"] = fmt.Sprint(s2.Annotations())
					c.Violate("rewrite-"+syntax+":"+kindOf(want[k]), "an attribute is lost or changed when the record is written as a "+syntax+" title line and read again", det)
					bad = true
					break
				}
			}
			if bad {
				break
			}
		}
	}
}

// obiRepresentable: strings that the key=value; syntax gives back as they are (a string that reads
// as a number or a boolean, or an empty one, is written bare and comes back as that number).
func obiRepresentable(v any) bool {
	s, ok := v.(string)
	if !ok {
		return true
	}
	if s == "" || strings.TrimSpace(s) != s {
		return false
	}
	if _, err := strconv.ParseFloat(s, 64); err == nil {
		return false
	}
	switch s {
	case "true", "false", "True", "False", "TRUE", "FALSE", "T", "F", "t", "f":
		return false
	}
	return true
}

func kindOf(v any) string {
	switch t := v.(type) {
	case int:
		return "int"
	case float64:
		if t == float64(int64(t)) {
			return "integral-float"
		}
		return "float"
	case bool:
		return "bool"
	case string:
		return "string"
	}
	return "dict"
}
