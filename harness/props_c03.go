package main

import _ "verifh/c03"
