package main

import _ "verifh/c16"
