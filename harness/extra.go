package main

import (
	"fmt"

	"verifh/core"
)

func extra(args []string) int {
	if f, ok := core.Extra[args[0]]; ok {
		return f(args[1:])
	}
	fmt.Println("unknown mode", args[0])
	return 2
}
