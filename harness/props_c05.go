package main

import _ "verifh/c05"
