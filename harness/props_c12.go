package main

import _ "verifh/c12"
