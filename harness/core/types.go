// Package core is the supervisor / child runtime of the verification harness.
//
// A property is a list of sub-checks. A sub-check is a deterministic family of
// cases indexed 0..N(tier)-1; the content of case i is a function of
// (VERIF_SEED, sub-check name, i) only. Target code is run in child processes
// (one range of cases per child); the supervisor only reads their logs.
package core

import (
	"encoding/json"
	"fmt"
	"hash/fnv"
	"math/rand"
	"os"
	"sync"
)

// Violation is one refutation observed by an oracle.
type Violation struct {
	Sig    string `json:"sig"`    // <sub>:<classified cause>  (the supervisor prefixes the property id)
	What   string `json:"what"`   // one sentence
	Detail any    `json:"detail"` // observed / expected
	Idx    int    `json:"idx"`
	Sub    string `json:"sub"`
}

// Ctx is handed to the Run function of a sub-check for one case.
type Ctx struct {
	ID     string
	Sub    string
	Tier   string
	Seed   int64
	Idx    int
	Rng    *rand.Rand
	Dir    string // scratch directory of the child (removed by the supervisor)
	BinDir string // directory of the commands built from /repo
	Replay bool

	log        *os.File
	mu         sync.Mutex
	violations []Violation
	keys       map[uint64]struct{}
	counters   map[string]int64
	samples    []any
	inconcl    []string
}

// Quick tells whether the run is the quick tier.
func (c *Ctx) Quick() bool { return c.Tier != "thorough" }

// Pick returns q in the quick tier and t in the thorough tier.
func (c *Ctx) Pick(q, t int) int {
	if c.Quick() {
		return q
	}
	return t
}

// Violate records a violation; sig is "<cause>" (sub-check name is added).
func (c *Ctx) Violate(cause, what string, detail any) {
	c.mu.Lock()
	defer c.mu.Unlock()
	if len(c.violations) >= 20 {
		return
	}
	c.violations = append(c.violations, Violation{Sig: c.Sub + ":" + cause, What: what, Detail: detail, Idx: c.Idx, Sub: c.Sub})
}

// Violations returns the number of violations recorded so far for this case.
func (c *Ctx) Violations() int {
	c.mu.Lock()
	defer c.mu.Unlock()
	return len(c.violations)
}

// Inconclusive records that (part of) the case could not be decided.
func (c *Ctx) Inconclusive(reason string) {
	c.mu.Lock()
	defer c.mu.Unlock()
	if len(c.inconcl) < 5 {
		c.inconcl = append(c.inconcl, reason)
	}
}

// Key records one distinct non-trivial case descriptor.
func (c *Ctx) Key(format string, a ...any) {
	h := fnv.New64a()
	fmt.Fprintf(h, "%s|", c.Sub)
	fmt.Fprintf(h, format, a...)
	c.mu.Lock()
	c.keys[h.Sum64()] = struct{}{}
	c.mu.Unlock()
}

// Count adds n to a named counter ("evaluations" is the number of executions).
func (c *Ctx) Count(name string, n int) {
	c.mu.Lock()
	c.counters[name] += int64(n)
	c.mu.Unlock()
}

// Sample records a literal case for the evidence file (only a few are kept).
func (c *Ctx) Sample(v any) {
	c.mu.Lock()
	if len(c.samples) < 2 {
		c.samples = append(c.samples, v)
	}
	c.mu.Unlock()
}

// Risk announces, before target code is called, a label describing the case in
// flight; if the process dies the supervisor uses it to classify the crash.
func (c *Ctx) Risk(label string) {
	if c.log != nil {
		b, _ := json.Marshal(map[string]any{"risk": label, "idx": c.Idx})
		c.log.Write(append(b, '\n'))
	}
}

// Sub is one sub-check of a property.
type Sub struct {
	Name string
	// N is the number of cases of the tier.
	N func(tier string) int
	// Run executes case c.Idx.
	Run func(c *Ctx)
	// Race: the sub-check is also run (NRace cases) on the -race twin.
	Race  bool
	NRace func(tier string) int
	// Shard is the maximal number of cases per child (0 = automatic).
	Shard int
	// TimeoutS is the watchdog for one child, in seconds (0 = 600).
	TimeoutS int
	// Env is added to the environment of the children.
	Env []string
	// NoCrash: a child death is not attributed to the property (it is inconclusive).
	NoCrash bool
	// Serial: children of this sub-check run one at a time (they use all cores themselves).
	Serial bool
}

// Property is the registration record of a property.
type Property struct {
	ID     string
	Level  string // exploration | fault_enumeration
	Rule   string // how cases are generated; what makes one non-trivial
	Assume []string
	Subs   []Sub
	// Cmds are the commands (cmd/obitools/<name>) the children need in BinDir.
	Cmds []string
	// RaceCmds are additionally built with -race into BinDir/race.
	RaceCmds []string
	// AsanCmds are additionally built with -asan into BinDir/asan.
	AsanCmds []string
	// MinNontrivial: fewer distinct non-trivial observations make the run inconclusive.
	MinNontrivial int
	// Post is run by the supervisor after all children (e.g. to check counters).
	Post func(tier string, counters map[string]int64) (inconclusive []string)
	// RaceFiles: race reports count for the property iff a site lies in one of these path fragments.
	RaceFiles []string
}

var registry = map[string]*Property{}

// Register adds a property to the registry.
func Register(p *Property) { registry[p.ID] = p }

// Const returns a tier → n function.
func Const(quick, thorough int) func(string) int {
	return func(tier string) int {
		if tier == "thorough" {
			return thorough
		}
		return quick
	}
}

// CaseRng derives the generator of one case.
func CaseRng(seed int64, sub string, idx int) *rand.Rand {
	h := fnv.New64a()
	fmt.Fprintf(h, "%d|%s|%d", seed, sub, idx)
	return rand.New(rand.NewSource(int64(h.Sum64())))
}

// List prints the registered properties and sub-checks.
func List() {
	for id, p := range registry {
		fmt.Print(id)
		for _, s := range p.Subs {
			fmt.Print(" ", s.Name)
		}
		fmt.Println()
	}
}

// Extra modes (`vh <mode> …`) registered by property packages, e.g. helper
// processes that a case spawns.
var Extra = map[string]func(args []string) int{}
