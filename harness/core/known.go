package core

import (
	"bufio"
	"os"
	"path/filepath"
	"regexp"
	"strings"
)

// KnownFinding is one `finding:` line of /verif/KNOWN_FINDINGS.txt.
type KnownFinding struct {
	Property  string
	Signature string
	Text      string
}

type knownSet struct{ findings []KnownFinding }

var kfLine = regexp.MustCompile(`^finding:\s+property=(\S+)\s+signature=(\S+)\s+(.*)$`)

// loadKnownFindings reads the committed list (never written at run time).
func loadKnownFindings(id string) *knownSet {
	ks := &knownSet{}
	f, err := os.Open(filepath.Join(VerifDir, "KNOWN_FINDINGS.txt"))
	if err != nil {
		return ks
	}
	defer f.Close()
	sc := bufio.NewScanner(f)
	sc.Buffer(make([]byte, 1<<16), 1<<20)
	for sc.Scan() {
		m := kfLine.FindStringSubmatch(strings.TrimSpace(sc.Text()))
		if m == nil || m[1] != id {
			continue
		}
		ks.findings = append(ks.findings, KnownFinding{m[1], m[2], m[3]})
	}
	return ks
}

// match returns the finding whose signature equals sig exactly.
func (ks *knownSet) match(sig string) *KnownFinding {
	for i := range ks.findings {
		if ks.findings[i].Signature == sig {
			return &ks.findings[i]
		}
	}
	return nil
}
