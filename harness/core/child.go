package core

import (
	"encoding/json"
	"fmt"
	"os"
	"sort"
	"strconv"
)

type endRecord struct {
	End          int              `json:"end"`
	Violations   []Violation      `json:"violations,omitempty"`
	Keys         []uint64         `json:"keys,omitempty"`
	Counters     map[string]int64 `json:"counters,omitempty"`
	Samples      []any            `json:"samples,omitempty"`
	Inconclusive []string         `json:"inconclusive,omitempty"`
}

// ChildMain runs cases [start,end) of one sub-check and logs to logpath.
// args: ID sub tier seed start end logpath dir bindir [replay]
func ChildMain(args []string) int {
	if len(args) < 9 {
		fmt.Fprintln(os.Stderr, "usage: vh child ID sub tier seed start end log dir bindir")
		return 2
	}
	p := registry[args[0]]
	if p == nil {
		fmt.Fprintln(os.Stderr, "unknown property", args[0])
		return 2
	}
	var sub *Sub
	for i := range p.Subs {
		if p.Subs[i].Name == args[1] {
			sub = &p.Subs[i]
		}
	}
	if sub == nil {
		fmt.Fprintln(os.Stderr, "unknown sub-check", args[1])
		return 2
	}
	tier := args[2]
	seed, _ := strconv.ParseInt(args[3], 10, 64)
	start, _ := strconv.Atoi(args[4])
	end, _ := strconv.Atoi(args[5])
	logf, err := os.OpenFile(args[6], os.O_CREATE|os.O_WRONLY|os.O_APPEND, 0o644)
	if err != nil {
		fmt.Fprintln(os.Stderr, err)
		return 2
	}
	defer logf.Close()
	replay := len(args) > 9 && args[9] == "replay"
	only := int(envInt("VH_REPLAY_IDX", -1))
	for idx := start; idx < end; idx++ {
		if only >= 0 && idx != only {
			continue
		}
		b, _ := json.Marshal(map[string]int{"begin": idx})
		logf.Write(append(b, '\n'))
		c := &Ctx{ID: p.ID, Sub: sub.Name, Tier: tier, Seed: seed, Idx: idx,
			Rng: CaseRng(seed, sub.Name, idx), Dir: args[7], BinDir: args[8], Replay: replay,
			log: logf, keys: map[uint64]struct{}{}, counters: map[string]int64{}}
		sub.Run(c)
		rec := endRecord{End: idx, Violations: c.violations, Counters: c.counters, Samples: c.samples, Inconclusive: c.inconcl}
		if _, ok := rec.Counters["evaluations"]; !ok {
			rec.Counters["evaluations"] = 1
		}
		for k := range c.keys {
			rec.Keys = append(rec.Keys, k)
		}
		sort.Slice(rec.Keys, func(i, j int) bool { return rec.Keys[i] < rec.Keys[j] })
		b, err = json.Marshal(rec)
		if err != nil {
			// a detail that cannot be serialised must not hide the verdict
			for i := range rec.Violations {
				rec.Violations[i].Detail = fmt.Sprint(rec.Violations[i].Detail)
			}
			rec.Samples = nil
			b, _ = json.Marshal(rec)
		}
		logf.Write(append(b, '\n'))
	}
	return 0
}
