package core

import "github.com/anishathalye/porcupine"

// keep the dependency in the module graph
var _ = porcupine.Ok
