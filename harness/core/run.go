package core

import (
	"bufio"
	"bytes"
	"crypto/sha1"
	"encoding/json"
	"fmt"
	"os"
	"os/exec"
	"path/filepath"
	"runtime"
	"sort"
	"strconv"
	"strings"
	"sync"
	"syscall"
	"time"
)

// VerifDir is the root of the machinery (/verif; a private copy during development).
var VerifDir = func() string {
	if d := os.Getenv("VH_VERIF"); d != "" {
		return d
	}
	return "/verif"
}()

type runState struct {
	p      *Property
	tier   string
	seed   int64
	jobs   int
	runDir string
	binDir string
	self   string
	twin   string // race twin of vh ("" when not built)

	mu         sync.Mutex
	violations []Violation
	inconcl    []string
	keys       map[uint64]struct{}
	counters   map[string]int64
	samples    []any
	perSub     map[string]map[string]int64
	crashes    map[string]int
	sigCount   map[string]int // violations per signature (all of them; only the first witnesses are stored)
}

func envInt(name string, def int64) int64 {
	if s := os.Getenv(name); s != "" {
		if v, err := strconv.ParseInt(s, 10, 64); err == nil {
			return v
		}
	}
	return def
}

// RunMain is `vh run <ID> <tier>`; returns the exit status.
func RunMain(id, tier string) int {
	p := registry[id]
	if p == nil {
		fmt.Printf("INCONCLUSIVE property=%s reason=unknown-property\n", id)
		return 2
	}
	if t := os.Getenv("VERIF_TIER"); t == "quick" || t == "thorough" {
		tier = t
	}
	if tier != "thorough" {
		tier = "quick"
	}
	t0 := time.Now()
	rs := &runState{p: p, tier: tier, seed: envInt("VERIF_SEED", 1), jobs: int(envInt("VERIF_JOBS", int64(runtime.NumCPU()))),
		keys: map[uint64]struct{}{}, counters: map[string]int64{}, perSub: map[string]map[string]int64{}, crashes: map[string]int{}, sigCount: map[string]int{}}
	rs.runDir = os.Getenv("VH_RUN")
	if rs.runDir == "" {
		d, err := os.MkdirTemp("", "vh-run-")
		if err != nil {
			fmt.Printf("INCONCLUSIVE property=%s reason=no-run-dir\n", id)
			return 2
		}
		rs.runDir = d
		defer os.RemoveAll(d)
	}
	rs.binDir = filepath.Join(rs.runDir, "bin")
	os.MkdirAll(rs.binDir, 0o755)
	rs.self, _ = os.Executable()
	only := os.Getenv("VERIF_ONLY") // restrict to some sub-checks (development aid; never set by registered commands)

	if err := rs.build(only); err != nil {
		fmt.Printf("INCONCLUSIVE property=%s reason=build-failed\n%s\n", id, err)
		return 2
	}

	for i := range p.Subs {
		sub := &p.Subs[i]
		if only != "" && !matchOnly(only, sub.Name) {
			continue
		}
		rs.runSub(sub, false)
		if sub.Race && rs.twin != "" {
			rs.runSub(sub, true)
		}
	}
	rs.collectRaces()

	if p.Post != nil {
		for _, r := range p.Post(tier, rs.counters) {
			rs.inconcl = append(rs.inconcl, r)
		}
	}
	if only == "" && len(rs.keys) < max(2, p.MinNontrivial) {
		rs.inconcl = append(rs.inconcl, fmt.Sprintf("only %d distinct non-trivial cases observed", len(rs.keys)))
	}
	return rs.report(time.Since(t0).Seconds(), only != "")
}

func matchOnly(only, name string) bool {
	for _, o := range strings.Split(only, ",") {
		if o == name || (strings.HasSuffix(o, "*") && strings.HasPrefix(name, strings.TrimSuffix(o, "*"))) {
			return true
		}
	}
	return false
}

func (rs *runState) goBuild(out string, extra []string, pkgs ...string) error {
	args := []string{"build", "-tags", "verif"}
	if mf := os.Getenv("VH_MODFILE"); mf != "" {
		args = append(args, "-modfile="+mf)
	}
	args = append(args, extra...)
	args = append(args, "-o", out)
	args = append(args, pkgs...)
	cmd := exec.Command("go", args...)
	cmd.Dir = filepath.Join(VerifDir, "harness")
	cmd.Env = append(os.Environ(), "CGO_CFLAGS=-w "+os.Getenv("VH_CGO_CFLAGS_EXTRA"))
	var buf bytes.Buffer
	cmd.Stdout = &buf
	cmd.Stderr = &buf
	if err := cmd.Run(); err != nil {
		return fmt.Errorf("go %s: %v\n%s", strings.Join(args, " "), err, tail(buf.String(), 3000))
	}
	return nil
}

const cmdPrefix = "git.metabarcoding.org/obitools/obitools4/obitools4/cmd/obitools/"

func (rs *runState) build(only string) error {
	p := rs.p
	var wg sync.WaitGroup
	errs := make(chan error, 8)
	needRace := false
	for _, s := range p.Subs {
		if s.Race && (only == "" || matchOnly(only, s.Name)) {
			needRace = true
		}
	}
	if os.Getenv("VERIF_NORACE") == "1" {
		needRace = false
	}
	if needRace {
		wg.Add(1)
		go func() {
			defer wg.Done()
			out := filepath.Join(rs.runDir, "vh.race")
			if err := rs.goBuild(out, []string{"-race"}, "."); err != nil {
				errs <- err
				return
			}
			rs.twin = out
		}()
	}
	pk := func(names []string) []string {
		var r []string
		for _, n := range names {
			r = append(r, cmdPrefix+n)
		}
		return r
	}
	if len(p.Cmds) > 0 {
		wg.Add(1)
		go func() {
			defer wg.Done()
			if err := rs.goBuild(rs.binDir+"/", nil, pk(p.Cmds)...); err != nil {
				errs <- err
			}
		}()
	}
	if len(p.RaceCmds) > 0 && os.Getenv("VERIF_NORACE") != "1" {
		wg.Add(1)
		go func() {
			defer wg.Done()
			os.MkdirAll(rs.binDir+"/race", 0o755)
			if err := rs.goBuild(rs.binDir+"/race/", []string{"-race"}, pk(p.RaceCmds)...); err != nil {
				errs <- err
			}
		}()
	}
	if len(p.AsanCmds) > 0 {
		wg.Add(1)
		go func() {
			defer wg.Done()
			os.MkdirAll(rs.binDir+"/asan", 0o755)
			if err := rs.goBuild(rs.binDir+"/asan/", []string{"-asan"}, pk(p.AsanCmds)...); err != nil {
				errs <- err
			}
		}()
	}
	wg.Wait()
	close(errs)
	for e := range errs {
		return e
	}
	return nil
}

type shard struct{ start, end int }

func (rs *runState) runSub(sub *Sub, race bool) {
	n := sub.N(rs.tier)
	if race {
		n = 0
		if sub.NRace != nil {
			n = sub.NRace(rs.tier)
		}
		if n == 0 {
			n = min(sub.N(rs.tier), 64)
		}
	}
	if n <= 0 {
		return
	}
	jobs := rs.jobs
	if sub.Serial {
		jobs = 1
	}
	per := sub.Shard
	if per <= 0 {
		per = (n + jobs*4 - 1) / (jobs * 4)
	}
	if per < 1 {
		per = 1
	}
	var shards []shard
	for s := 0; s < n; s += per {
		shards = append(shards, shard{s, min(n, s+per)})
	}
	ch := make(chan shard)
	var wg sync.WaitGroup
	for w := 0; w < jobs; w++ {
		wg.Add(1)
		go func(w int) {
			defer wg.Done()
			for sh := range ch {
				rs.runShard(sub, race, sh, w)
			}
		}(w)
	}
	for _, sh := range shards {
		ch <- sh
	}
	close(ch)
	wg.Wait()
}

func (rs *runState) tooManyCrashes(sub string) bool {
	rs.mu.Lock()
	defer rs.mu.Unlock()
	return rs.crashes[sub] >= 12
}

// runShard runs a range of cases in child processes, restarting after the
// case in flight when a child dies.
func (rs *runState) runShard(sub *Sub, race bool, sh shard, w int) {
	start := sh.start
	for start < sh.end {
		if rs.tooManyCrashes(sub.Name) {
			rs.mu.Lock()
			rs.inconcl = appendUniq(rs.inconcl, "sub-check "+sub.Name+": stopped after 12 child deaths (cases not run)")
			rs.mu.Unlock()
			return
		}
		next := rs.runChild(sub, race, start, sh.end, w)
		start = next
	}
}

func appendUniq(l []string, s string) []string {
	for _, x := range l {
		if x == s {
			return l
		}
	}
	return append(l, s)
}

var childSeq int64
var childSeqMu sync.Mutex

func (rs *runState) runChild(sub *Sub, race bool, start, end, w int) (next int) {
	childSeqMu.Lock()
	childSeq++
	tag := fmt.Sprintf("%s-%d", sub.Name, childSeq)
	childSeqMu.Unlock()
	tag = strings.ReplaceAll(tag, "/", "_")
	dir := filepath.Join(rs.runDir, "w", tag)
	os.MkdirAll(dir, 0o755)
	defer os.RemoveAll(dir)
	logp := filepath.Join(dir, "result.jsonl")
	errp := filepath.Join(dir, "stderr")
	bin := rs.self
	if race {
		bin = rs.twin
	}
	cmd := exec.Command(bin, "child", rs.p.ID, sub.Name, rs.tier, strconv.FormatInt(rs.seed, 10),
		strconv.Itoa(start), strconv.Itoa(end), logp, dir, rs.binDir)
	if os.Getenv("VH_REPLAY") == "1" {
		cmd.Args = append(cmd.Args, "replay")
	}
	cmd.Env = append(os.Environ(), sub.Env...)
	cmd.Env = append(cmd.Env, "VH_RACEDIR="+filepath.Join(rs.runDir, "race"))
	if race {
		os.MkdirAll(filepath.Join(rs.runDir, "race"), 0o755)
		cmd.Env = append(cmd.Env, "GORACE=halt_on_error=0 log_path="+filepath.Join(rs.runDir, "race", tag), "VH_RACE=1")
	}
	ef, _ := os.Create(errp)
	cmd.Stdout = ef
	cmd.Stderr = ef
	cmd.SysProcAttr = &syscall.SysProcAttr{Setpgid: true}
	if err := cmd.Start(); err != nil {
		ef.Close()
		rs.mu.Lock()
		rs.inconcl = appendUniq(rs.inconcl, "cannot start child: "+err.Error())
		rs.mu.Unlock()
		return end
	}
	to := sub.TimeoutS
	if to == 0 {
		to = 1800
	}
	if race {
		to *= 4
	}
	done := make(chan error, 1)
	go func() { done <- cmd.Wait() }()
	timedOut := false
	var werr error
	select {
	case werr = <-done:
	case <-time.After(time.Duration(to) * time.Second):
		timedOut = true
		cmd.Process.Signal(syscall.SIGQUIT)
		select {
		case werr = <-done:
		case <-time.After(10 * time.Second):
			syscall.Kill(-cmd.Process.Pid, syscall.SIGKILL)
			werr = <-done
		}
	}
	syscall.Kill(-cmd.Process.Pid, syscall.SIGKILL) // grand-children, if any
	ef.Close()
	exit := 0
	if werr != nil {
		exit = -1
		if ee, ok := werr.(*exec.ExitError); ok {
			exit = ee.ExitCode()
		}
	}

	// read the log
	inflight := -1
	risk := ""
	last := start - 1
	if f, err := os.Open(logp); err == nil {
		sc := bufio.NewScanner(f)
		sc.Buffer(make([]byte, 1<<20), 1<<28)
		for sc.Scan() {
			line := sc.Bytes()
			if bytes.HasPrefix(line, []byte(`{"begin"`)) {
				var b struct{ Begin int }
				json.Unmarshal(line, &b)
				inflight = b.Begin
				risk = ""
				continue
			}
			if bytes.HasPrefix(line, []byte(`{"idx"`)) || bytes.Contains(line[:min(len(line), 40)], []byte(`"risk"`)) {
				var b struct{ Risk string }
				json.Unmarshal(line, &b)
				risk = b.Risk
				continue
			}
			var rec endRecord
			if err := json.Unmarshal(line, &rec); err != nil {
				continue
			}
			inflight = -1
			last = rec.End
			rs.absorb(sub, race, &rec)
		}
		f.Close()
	}
	if exit == 0 && !timedOut && inflight < 0 && last == end-1 {
		return end
	}
	// the child died
	stderr, _ := os.ReadFile(errp)
	class, violated, excerpt := classifyDeath(timedOut, exit, string(stderr))
	idx := inflight
	if idx < 0 {
		idx = last + 1
	}
	rs.mu.Lock()
	rs.crashes[sub.Name]++
	if race && exit == 66 && inflight < 0 {
		// -race binaries exit 66 at the end when a report was printed; the log is complete
		rs.crashes[sub.Name]--
		rs.mu.Unlock()
		return end
	}
	if violated && !sub.NoCrash {
		cause := "crash:" + class
		if risk != "" {
			cause += ":" + risk
		}
		rs.addViolation(Violation{Sig: sub.Name + ":" + cause, Sub: sub.Name, Idx: idx,
			What:   fmt.Sprintf("child process died (%s, exit %d) while running case %d", class, exit, idx),
			Detail: map[string]any{"stderr": excerpt, "risk": risk, "race_twin": race}})
	} else {
		rs.inconcl = appendUniq(rs.inconcl, fmt.Sprintf("sub-check %s case %d: child ended abnormally (%s, exit %d)", sub.Name, idx, class, exit))
	}
	rs.mu.Unlock()
	return idx + 1
}

// addViolation counts a violation under its signature and stores the first three witnesses of each signature (caller holds rs.mu).
func (rs *runState) addViolation(v Violation) {
	rs.sigCount[v.Sig]++
	if rs.sigCount[v.Sig] <= 3 {
		rs.violations = append(rs.violations, v)
	}
}

func (rs *runState) absorb(sub *Sub, race bool, rec *endRecord) {
	rs.mu.Lock()
	defer rs.mu.Unlock()
	for _, v := range rec.Violations {
		rs.addViolation(v)
	}
	for _, k := range rec.Keys {
		rs.keys[k] = struct{}{}
	}
	ps := rs.perSub[sub.Name]
	if ps == nil {
		ps = map[string]int64{}
		rs.perSub[sub.Name] = ps
	}
	for k, v := range rec.Counters {
		if race {
			k = "race_twin." + k
		}
		rs.counters[k] += v
		ps[k] += v
	}
	ps["cases"]++
	have := 0
	for _, s := range rs.samples {
		if m, ok := s.(map[string]any); ok && m["sub"] == sub.Name {
			have++
		}
	}
	if have < 2 && !race {
		for _, s := range rec.Samples {
			rs.samples = append(rs.samples, map[string]any{"sub": sub.Name, "case": rec.End, "sample": s})
			break
		}
	}
	for _, r := range rec.Inconclusive {
		rs.inconcl = appendUniq(rs.inconcl, "sub-check "+sub.Name+": "+r)
	}
}

// report prints the verdict lines, writes the evidence file and returns the exit status.
func (rs *runState) report(wall float64, partial bool) int {
	id := rs.p.ID
	kf := loadKnownFindings(id)
	// group violations by signature
	bySig := map[string][]Violation{}
	var sigs []string
	for _, v := range rs.violations {
		full := id + ":" + v.Sig
		if _, ok := bySig[full]; !ok {
			sigs = append(sigs, full)
		}
		bySig[full] = append(bySig[full], v)
	}
	sort.Strings(sigs)
	unlisted := 0
	observedKnown := map[string]int{}
	for _, sig := range sigs {
		vs := bySig[sig]
		n := rs.sigCount[vs[0].Sig]
		if n < len(vs) {
			n = len(vs)
		}
		if k := kf.match(sig); k != nil {
			observedKnown[k.Signature] += n
			continue
		}
		unlisted += n
		// one replay file per signature (first witness), plus a count
		v := vs[0]
		path := rs.writeReplay(sig, v, n)
		fmt.Printf("VIOLATION property=%s replay=%s signature=%s count=%d what=%s\n", id, path, sig, n, oneLine(v.What))
	}
	for _, k := range kf.findings {
		obs := "no"
		if observedKnown[k.Signature] > 0 {
			obs = fmt.Sprintf("yes(%d)", observedKnown[k.Signature])
		}
		fmt.Printf("KNOWN-FINDING: property=%s %s [signature=%s observed=%s]\n", id, k.Text, k.Signature, obs)
	}
	for _, r := range rs.inconcl {
		fmt.Printf("INCONCLUSIVE property=%s reason=%s\n", id, oneLine(r))
	}

	// evidence
	counters := map[string]any{}
	for k, v := range rs.counters {
		counters[k] = v
	}
	cov := map[string]any{
		"evaluations":         rs.counters["evaluations"],
		"distinct_nontrivial": len(rs.keys),
		"rule":                rs.p.Rule,
		"samples":             rs.samples,
		"counters":            counters,
		"per_subcheck":        rs.perSub,
		"known_findings_observed": observedKnown,
		"inconclusive":        rs.inconcl,
	}
	if len(rs.samples) == 0 {
		cov["samples"] = []any{"(no sample recorded)"}
	}
	ev := map[string]any{
		"property_id": id, "tier": rs.tier, "seed": rs.seed, "level": rs.p.Level,
		"coverage": cov, "assumptions": rs.p.Assume, "wall_s": wall, "violations": unlisted,
	}
	// evidence describes runs against /repo itself: nothing is written for a partial run or for a
	// self-validation run against a scratch copy (VH_REPO)
	if !partial && os.Getenv("VH_REPO") == "" {
		os.MkdirAll(filepath.Join(VerifDir, "evidence"), 0o755)
		b, _ := json.MarshalIndent(ev, "", " ")
		os.WriteFile(filepath.Join(VerifDir, "evidence", id+".json"), append(b, '\n'), 0o644)
	}
	fmt.Printf("SUMMARY property=%s tier=%s seed=%d evaluations=%d distinct_nontrivial=%d violations=%d known=%d inconclusive=%d wall_s=%.1f\n",
		id, rs.tier, rs.seed, rs.counters["evaluations"], len(rs.keys), unlisted, len(observedKnown), len(rs.inconcl), wall)
	switch {
	case unlisted > 0:
		return 1
	case len(rs.inconcl) > 0:
		return 2
	}
	return 0
}

func oneLine(s string) string {
	s = strings.ReplaceAll(s, "\n", " ")
	if len(s) > 300 {
		s = s[:300]
	}
	return s
}

func (rs *runState) writeReplay(sig string, v Violation, count int) string {
	dir := filepath.Join(VerifDir, "replays", rs.p.ID)
	os.MkdirAll(dir, 0o755)
	h := sha1.Sum([]byte(fmt.Sprintf("%s|%d|%s|%d", sig, rs.seed, rs.tier, v.Idx)))
	path := filepath.Join(dir, fmt.Sprintf("%x.json", h[:8]))
	rep := map[string]any{"property": rs.p.ID, "signature": sig, "sub": v.Sub, "tier": rs.tier, "seed": rs.seed, "idx": v.Idx,
		"what": v.What, "detail": v.Detail, "count_same_signature": count}
	b, _ := json.MarshalIndent(rep, "", " ")
	os.WriteFile(path, append(b, '\n'), 0o644)
	return path
}

// ReplayMain re-runs the case recorded in a replay file.
func ReplayMain(id, path string) int {
	b, err := os.ReadFile(path)
	if err != nil {
		fmt.Println("cannot read replay file:", err)
		return 2
	}
	var rep struct {
		Property, Sub, Tier string
		Seed                int64
		Idx                 int
	}
	if err := json.Unmarshal(b, &rep); err != nil || rep.Property != id {
		fmt.Println("bad replay file")
		return 2
	}
	os.Setenv("VERIF_SEED", strconv.FormatInt(rep.Seed, 10))
	os.Setenv("VERIF_TIER", rep.Tier)
	os.Setenv("VERIF_ONLY", rep.Sub)
	os.Setenv("VH_REPLAY", "1")
	os.Setenv("VH_REPLAY_IDX", strconv.Itoa(rep.Idx))
	p := registry[id]
	if p == nil {
		return 2
	}
	for i := range p.Subs {
		if p.Subs[i].Name == rep.Sub {
			idx := rep.Idx
			p.Subs[i].N = func(string) int { return idx + 1 }
			p.Subs[i].Shard = idx + 1
			p.Subs[i].Race = false
		}
	}
	return RunMain(id, rep.Tier)
}
