package core

import (
	"runtime"
	"strings"
	"time"
)

// Bounded runs f in a goroutine and waits for it. If f has not returned when
// the (generous) watchdog fires, all goroutine stacks are dumped and
// classified (see isDeadlock): a dead-lock — every goroutine with target or
// workload frames blocked on a channel / WaitGroup / mutex, none runnable —
// is a violation `deadlock[:label]` (a logical verdict: no progress is
// possible from such a state); anything else is inconclusive. Returns true
// when f returned. The blocked goroutines are left behind (harmless).
func (c *Ctx) Bounded(label string, watchdog time.Duration, f func()) bool {
	done := make(chan struct{})
	go func() {
		defer close(done)
		f()
	}()
	select {
	case <-done:
		return true
	case <-time.After(watchdog):
	}
	// give a slow machine a second chance before dumping
	select {
	case <-done:
		return true
	case <-time.After(watchdog):
	}
	buf := make([]byte, 1<<22)
	n := runtime.Stack(buf, true)
	dump := string(buf[:n])
	// drop the calling goroutine (first block)
	if i := strings.Index(dump, "\n\ngoroutine "); i >= 0 {
		dump = dump[i+2:]
	}
	select {
	case <-done:
		return true
	default:
	}
	if isDeadlock(dump) {
		cause := "deadlock"
		if label != "" {
			cause += ":" + label
		}
		c.Violate(cause, "the pipeline never terminates: every goroutine of the workload and of the library is blocked on a channel, wait group or lock",
			map[string]any{"label": label, "goroutine_dump": head(dump, 6000)})
	} else {
		c.Inconclusive("watchdog fired without a dead-lock proof (" + label + ")")
	}
	return false
}
