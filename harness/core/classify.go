package core

import (
	"regexp"
	"strings"
)

// classifyDeath turns the way a child died into (class, violated).
// violated=false means the death proves nothing (inconclusive).
func classifyDeath(timedOut bool, exitCode int, stderr string) (class string, violated bool, excerpt string) {
	excerpt = tail(stderr, 4000)
	if timedOut {
		if isDeadlock(stderr) {
			return "deadlock", true, excerpt
		}
		return "watchdog", false, excerpt
	}
	switch {
	case strings.Contains(stderr, "ERROR: AddressSanitizer"):
		return "asan", true, head(after(stderr, "ERROR: AddressSanitizer"), 3000)
	case strings.Contains(stderr, "runtime error:") && strings.Contains(stderr, "UndefinedBehaviorSanitizer") || regexp.MustCompile(`\.c:\d+:\d+: runtime error:`).MatchString(stderr):
		return "ubsan", true, excerpt
	case strings.Contains(stderr, "fatal error: checkptr"):
		return "checkptr", true, head(after(stderr, "fatal error: checkptr"), 3000)
	case strings.Contains(stderr, "all goroutines are asleep - deadlock"):
		return "deadlock", true, head(after(stderr, "fatal error:"), 3000)
	case strings.Contains(stderr, "fatal error: "):
		m := regexp.MustCompile(`fatal error: ([^\n]*)`).FindStringSubmatch(stderr)
		return "fatal-runtime:" + slug(m[1]), true, head(after(stderr, "fatal error: "), 3000)
	case strings.Contains(stderr, "panic: ") || strings.Contains(stderr, "[signal SIG"):
		return "panic", true, head(after(stderr, "panic: "), 3000)
	case strings.Contains(stderr, "level=fatal") || exitCode == 1:
		return "fatalf", true, excerpt
	case exitCode == 66 && strings.Contains(stderr, "DATA RACE"):
		return "race-exit", false, excerpt
	}
	return "exit" + itoa(exitCode), true, excerpt
}

func itoa(i int) string {
	if i < 0 {
		return "-" + itoa(-i)
	}
	if i < 10 {
		return string(rune('0' + i))
	}
	return itoa(i/10) + string(rune('0'+i%10))
}

func slug(s string) string {
	s = strings.ToLower(s)
	s = regexp.MustCompile(`[^a-z0-9]+`).ReplaceAllString(s, "-")
	if len(s) > 40 {
		s = s[:40]
	}
	return strings.Trim(s, "-")
}

func tail(s string, n int) string {
	if len(s) > n {
		return s[len(s)-n:]
	}
	return s
}
func head(s string, n int) string {
	if len(s) > n {
		return s[:n]
	}
	return s
}
func after(s, mark string) string {
	i := strings.Index(s, mark)
	if i < 0 {
		return s
	}
	return s[i:]
}

// (a SIGQUIT dump names the g and the m of every goroutine: "goroutine 7 gp=0xc000188540 m=nil [chan receive]:")
var goroutineHdr = regexp.MustCompile(`(?m)^goroutine \d+ (?:gp=\S+ m=\S+ (?:mp=\S+ )?)?\[([^\]]*)\]:$`)

// isDeadlock parses a SIGQUIT goroutine dump: dead-lock iff every goroutine
// with a frame in the target or in the harness workload is blocked on a
// channel / select / WaitGroup / mutex and none is running, runnable, in a
// syscall, in IO wait or sleeping.
func isDeadlock(dump string) bool {
	locs := goroutineHdr.FindAllStringSubmatchIndex(dump, -1)
	if len(locs) == 0 {
		return false
	}
	relevant := 0
	for i, loc := range locs {
		state := dump[loc[2]:loc[3]]
		endBody := len(dump)
		if i+1 < len(locs) {
			endBody = locs[i+1][0]
		}
		body := dump[loc[1]:endBody]
		if !strings.Contains(body, "git.metabarcoding.org/obitools") && !strings.Contains(body, "verifh/c") {
			continue
		}
		// the supervisor-side plumbing of the child (signal handling etc.) has no such frames
		relevant++
		st := strings.Split(state, ",")[0]
		switch {
		case strings.HasPrefix(st, "chan send"), strings.HasPrefix(st, "chan receive"),
			strings.HasPrefix(st, "select"), strings.HasPrefix(st, "semacquire"),
			strings.HasPrefix(st, "sync.WaitGroup.Wait"), strings.HasPrefix(st, "sync.Mutex.Lock"),
			strings.HasPrefix(st, "sync.RWMutex"), strings.HasPrefix(st, "sync.Cond.Wait"):
			// blocked
		default:
			return false
		}
	}
	return relevant > 0
}

// IsDeadlockDump applies the dead-lock classification to a SIGQUIT goroutine dump of a command.
func IsDeadlockDump(dump string) bool { return isDeadlock(dump) }
