package core

import (
	"bufio"
	"fmt"
	"os"
	"path/filepath"
	"regexp"
	"sort"
	"strings"
)

type benign struct {
	a, b *regexp.Regexp
	why  string
}

func loadBenign() []benign {
	var out []benign
	f, err := os.Open(filepath.Join(VerifDir, "race_benign.tsv"))
	if err != nil {
		return nil
	}
	defer f.Close()
	sc := bufio.NewScanner(f)
	for sc.Scan() {
		l := sc.Text()
		if strings.HasPrefix(l, "#") || strings.TrimSpace(l) == "" {
			continue
		}
		p := strings.SplitN(l, "\t", 3)
		if len(p) < 3 {
			continue
		}
		ra, e1 := regexp.Compile(p[0])
		rb, e2 := regexp.Compile(p[1])
		if e1 != nil || e2 != nil {
			continue
		}
		out = append(out, benign{ra, rb, p[2]})
	}
	return out
}

var frameLoc = regexp.MustCompile(`^\s+(/\S+\.go):(\d+)`)

type raceSite struct {
	file string
	line int
	text string
	fn   string
}

// firstRepoFrame returns the first frame of a stack (lines of a report
// section) that lies in the repository under test.
func firstRepoFrame(lines []string) (raceSite, bool) {
	repo := os.Getenv("VH_REPO")
	if repo == "" {
		repo = "/repo"
	}
	for i, l := range lines {
		m := frameLoc.FindStringSubmatch(l)
		if m == nil {
			continue
		}
		if !strings.HasPrefix(m[1], repo+"/") {
			continue
		}
		var ln int
		fmt.Sscanf(m[2], "%d", &ln)
		s := raceSite{file: strings.TrimPrefix(m[1], repo+"/"), line: ln}
		if i > 0 {
			s.fn = strings.TrimSpace(lines[i-1])
		}
		if b, err := os.ReadFile(m[1]); err == nil {
			src := strings.Split(string(b), "\n")
			if ln-1 < len(src) && ln > 0 {
				s.text = strings.TrimSpace(src[ln-1])
			}
		}
		return s, true
	}
	return raceSite{}, false
}

// collectRaces parses the race logs of the twins and turns non-benign
// reports with a site in the property's anchored files into violations.
func (rs *runState) collectRaces() {
	files, _ := filepath.Glob(filepath.Join(rs.runDir, "race", "*"))
	more, _ := filepath.Glob(filepath.Join(rs.runDir, "race", "*", "*"))
	files = append(files, more...)
	if len(files) == 0 {
		return
	}
	ben := loadBenign()
	classes := map[string]int{}
	reports := 0
	for _, f := range files {
		st, err := os.Stat(f)
		if err != nil || st.IsDir() {
			continue
		}
		b, err := os.ReadFile(f)
		if err != nil {
			continue
		}
		for _, block := range strings.Split(string(b), "WARNING: DATA RACE")[1:] {
			reports++
			if i := strings.Index(block, "=================="); i >= 0 {
				block = block[:i]
			}
			lines := strings.Split(block, "\n")
			// sections: first access ... "Previous ... by" ... then "Goroutine ... created at"
			var secA, secB []string
			cur := &secA
			for _, l := range lines {
				if strings.HasPrefix(l, "Previous ") {
					cur = &secB
				}
				if strings.HasPrefix(l, "Goroutine ") {
					cur = nil
				}
				if cur != nil {
					*cur = append(*cur, l)
				}
			}
			a, okA := firstRepoFrame(secA)
			bb, okB := firstRepoFrame(secB)
			if !okA && !okB {
				classes["outside-repo"]++
				continue
			}
			anch := false
			for _, frag := range rs.p.RaceFiles {
				if (okA && strings.Contains(a.file, frag)) || (okB && strings.Contains(bb.file, frag)) {
					anch = true
				}
			}
			pair := []string{a.file + ": " + a.text, bb.file + ": " + bb.text}
			sort.Strings(pair)
			isBenign := ""
			for _, bn := range ben {
				if (bn.a.MatchString(a.text) && bn.b.MatchString(bb.text)) || (bn.a.MatchString(bb.text) && bn.b.MatchString(a.text)) {
					isBenign = bn.why
					break
				}
			}
			switch {
			case isBenign != "":
				classes["benign: "+pair[0]+" <-> "+pair[1]]++
			case !anch:
				classes["not-anchored: "+pair[0]+" <-> "+pair[1]]++
			default:
				classes["VIOLATION: "+pair[0]+" <-> "+pair[1]]++
				fa, fb := filepath.Base(a.file), filepath.Base(bb.file)
				if fa > fb {
					fa, fb = fb, fa
				}
				ta, tb := slug(a.text), slug(bb.text)
				if ta > tb {
					ta, tb = tb, ta
				}
				rs.addViolation(Violation{Sub: "race", Idx: -1,
					Sig:    fmt.Sprintf("race:%s:%s:%s:%s", fa, fb, ta, tb),
					What:   "data race reported by the Go race detector: " + pair[0] + " <-> " + pair[1],
					Detail: map[string]any{"report": head(block, 6000), "log": filepath.Base(f)}})
			}
		}
	}
	rs.counters["race_reports"] = int64(reports)
	rs.perSub["race"] = map[string]int64{}
	for k, v := range classes {
		rs.perSub["race"][k] = int64(v)
	}
}
