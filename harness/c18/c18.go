// Package c18: output write failures are reported, never followed by a successful exit.
//
// Fault enumeration: the real writers run, one helper process per fault point,
// over a sink that refuses the write crossing byte offset k (every k for small
// outputs), refuses Close, or accepts a short write; the oracle is the exit
// status of that process (the library's own log.Fatalf is the report). The
// end-to-end sub-checks observe the exit status of the commands (/dev/full,
// strace ENOSPC injection).
package c18

import (
	"fmt"
	"io"
	"os"
	"os/exec"
	"path/filepath"
	"strconv"
	"strings"
	"syscall"
	"time"

	"git.metabarcoding.org/obitools/obitools4/obitools4/pkg/obiiter"

	log "github.com/sirupsen/logrus"

	"verifh/cmdx"
	"verifh/core"
	"verifh/itx"
	"verifh/wrx"
)

type wcase struct {
	sizes      []int
	parts      [][]itx.Rec
	perm       []int
	compressed bool
	// notOwner: the writer is told not to close the output (OptionDontCloseFile, what the library uses for a
	// stream it was lent): it still has to flush what it buffered, and to report a flush that fails. JSON and CSV
	// writers only: WriteFasta / WriteFastq never flush in that mode (pinned behaviour; every entry point of the
	// library and every command gives them OptionCloseFile)
	notOwner bool
}

// mkCase derives the writer case idx of a sub-check (same in the parent and in the fault helper).
func mkCase(seed int64, sub string, idx int) wcase {
	r := core.CaseRng(seed, sub, idx)
	target := []int{150, 900, 3000, 4500, 9000, 20000}[idx%6]
	nb := 1 + r.Intn(6)
	if strings.HasPrefix(sub, "inproc-big") {
		// 9 or 17 MiB written as many small batches: whatever a writer changes once a stream has
		// grown (buffer sizes, flush policy) happens somewhere along the way
		target = []int{9 << 20, 17 << 20}[idx%2]
		nb = 5000 + r.Intn(3000) // batches of 1-2 KB: smaller than any output buffer
	}
	per := target / (nb * 2 * 70)
	if per < 1 {
		per = 1
	}
	sizes := make([]int, nb)
	for i := range sizes {
		sizes[i] = per + r.Intn(per+1)
		if r.Intn(6) == 0 {
			sizes[i] = 0
		}
	}
	if itx.Sum(sizes) == 0 {
		sizes[0] = 1
	}
	recs := wrx.Recs(r, itx.Sum(sizes), func() int { return 20 + r.Intn(100) })
	perm := r.Perm(nb)
	if idx%3 == 0 {
		for i := range perm {
			perm[i] = i
		}
	}
	return wcase{sizes, itx.Partition(recs, sizes), perm, idx%5 == 4, idx%4 == 1 && (sub == "inproc-json" || sub == "inproc-csv")}
}

// faultMain is the helper process: `vh c18fault <kind> <seed> <sub> <idx> <fault> <k>`.
// It runs ONE writer over ONE faulty sink with the library's normal fatal-error
// behaviour (os.Exit through logrus) and exits 0 when the writer completed.
// The sink announces its first refusal on stderr at once.
func faultMain(args []string) int {
	if len(args) < 6 {
		return 2
	}
	kind, sub, fault := args[0], args[2], args[4]
	seed, _ := strconv.ParseInt(args[1], 10, 64)
	idx, _ := strconv.Atoi(args[3])
	k, _ := strconv.ParseInt(args[5], 10, 64)
	log.SetLevel(log.FatalLevel)
	wc := mkCase(seed, sub, idx)
	sink := wrx.NewSink()
	sink.OnRefuse = func() { os.Stderr.WriteString("VH-REFUSED\n") }
	// the kind of error varies with the fault point: generic, disk full, closed pipe, I/O error
	sink.Err = wrx.Errnos[(int64(idx)+k+int64(len(wrx.Errnos)))%int64(len(wrx.Errnos))]
	switch fault {
	case "write":
		sink.FailAt = k
	case "short":
		sink.FailAt = k
		sink.Short = true
	case "oneshot":
		sink.FailAt = k
		sink.OneShot = true
	case "close":
		sink.FailClose = true
	}
	bios := wrx.Bios(wc.parts, kind == "fastq")
	if err := wrx.Run(kind, bios, wc.perm, sink, 1, wc.compressed, !wc.notOwner); err != nil {
		fmt.Fprintln(os.Stderr, "VH-ERROR", err)
		return 3
	}
	obiiter.WaitForLastPipe() // what every command does before exiting
	fmt.Printf("VH-BYTES %d\n", len(sink.Snapshot()))
	return 0
}

func sizeClass(total int) string {
	switch {
	case total < 4096:
		return "below-bufio"
	case total < 3*4096:
		return "1-3-buffers"
	}
	return "many-buffers"
}

func runInproc(c *core.Ctx, kind string) {
	wc := mkCase(c.Seed, c.Sub, c.Idx)
	self, _ := os.Executable()
	run := func(fault string, k int) (refused bool, exit int, bytes int, res cmdx.Res) {
		res = cmdx.Run(self, []string{"c18fault", kind, fmt.Sprint(c.Seed), c.Sub, fmt.Sprint(c.Idx), fault, fmt.Sprint(k)}, cmdx.Opt{Timeout: 60 * time.Second})
		refused = strings.Contains(string(res.Stderr), "VH-REFUSED")
		fmt.Sscanf(string(res.Stdout), "VH-BYTES %d", &bytes)
		return refused, res.Exit, bytes, res
	}
	// fault-free reference run: size of the complete output
	_, exit, total, res := run("none", 0)
	if exit != 0 || total == 0 {
		if res.TimedOut && !res.Deadlock {
			c.Inconclusive("watchdog on the fault-free run")
			return
		}
		c.Violate("spurious-failure", "the writer fails although the sink accepted everything", map[string]any{"writer": kind, "sizes": wc.sizes, "arrival": wc.perm, "exit": exit, "stderr": cmdx.Tail(res.Stderr, 800)})
		return
	}
	det := func(extra map[string]any) map[string]any {
		m := map[string]any{"writer": kind, "sizes": wc.sizes, "arrival": wc.perm, "compressed": wc.compressed, "output_bytes": total, "writer_told_not_to_close": wc.notOwner}
		for k, v := range extra {
			m[k] = v
		}
		return m
	}
	c.Sample(det(map[string]any{"fault_points": "write crossing byte offset k refused, for k over the whole output; refused Close; short writes"}))
	where := func() string {
		switch {
		case wc.compressed:
			return "gzip"
		case total <= 4096:
			return "flush" // the whole result sits in the bufio buffer until Close
		case itx.OutOfOrder(wc.perm) > 0:
			return "write-or-drain"
		}
		return "write"
	}
	check := func(fault string, k int) bool {
		refused, exit, _, res := run(fault, k)
		c.Count("evaluations", 1)
		c.Count("fault_points."+fault, 1)
		if res.TimedOut {
			if res.Deadlock {
				c.Violate("deadlock:"+fault, "the writer dead-locks after a refused write", det(map[string]any{"fault": fault, "k": k, "dump": cmdx.Tail(res.Stderr, 3000)}))
				return false
			}
			c.Inconclusive("watchdog on a fault run")
			return true
		}
		if refused {
			c.Key("%s/%s/%s/%v/%s/%v", kind, fault, sizeClass(total), wc.compressed, where(), wc.notOwner)
			c.Count("refusals_delivered", 1)
			if wc.notOwner {
				c.Count("refusals_delivered_to_a_writer_not_owning_its_output", 1)
			}
		}
		switch {
		case refused && exit == 0:
			w := where()
			if fault == "close" {
				w = "close"
			}
			c.Violate("exit0:"+fault+":"+w, "the sink refused a write/close but the process exits with status 0",
				det(map[string]any{"fault": fault, "k": k}))
			return false
		case !refused && exit != 0:
			c.Violate("spurious-failure", "non-zero exit although nothing was refused", det(map[string]any{"fault": fault, "k": k, "exit": exit, "stderr": cmdx.Tail(res.Stderr, 800)}))
			return false
		}
		return true
	}
	// (a) write crossing offset k
	step := 1
	maxPoints := c.Pick(60, 2048)
	if total > maxPoints {
		step = (total + maxPoints - 1) / maxPoints
	}
	for k := 0; k < total; k += step {
		kk := k
		if step > 1 {
			kk = min(total-1, k+c.Rng.Intn(step))
		}
		if !check("write", kk) {
			return
		}
	}
	// (b) close fault
	if !check("close", -1) {
		return
	}
	// (c) short writes
	for i := 0; i < c.Pick(3, 20); i++ {
		if !check("short", c.Rng.Intn(total)) {
			return
		}
	}
	// (d) transient faults: one write is refused, the sink accepts everything afterwards
	for i := 0; i < c.Pick(4, 30); i++ {
		if !check("oneshot", c.Rng.Intn(total)) {
			return
		}
	}
}

// runInprocBig: outputs of 9 / 17 MiB; sticky and one-shot (transient) refusals of the write that
// crosses the offsets where a growing stream may change regime: 64 KiB, 1, 2, 4, 8, 16 MiB.
func runInprocBig(c *core.Ctx) {
	kind := []string{"fasta", "fastq"}[(c.Idx/2)%2]
	self, _ := os.Executable()
	run := func(fault string, k int) (refused bool, exit int, bytes int, res cmdx.Res) {
		res = cmdx.Run(self, []string{"c18fault", kind, fmt.Sprint(c.Seed), c.Sub, fmt.Sprint(c.Idx), fault, fmt.Sprint(k)}, cmdx.Opt{Timeout: 300 * time.Second})
		refused = strings.Contains(string(res.Stderr), "VH-REFUSED")
		fmt.Sscanf(string(res.Stdout), "VH-BYTES %d", &bytes)
		return refused, res.Exit, bytes, res
	}
	_, exit, total, res := run("none", 0)
	if exit != 0 || total == 0 {
		if res.TimedOut {
			c.Inconclusive("watchdog on the fault-free run")
			return
		}
		c.Violate("spurious-failure", "the writer fails although the sink accepted everything", map[string]any{"writer": kind, "exit": exit, "stderr": cmdx.Tail(res.Stderr, 800)})
		return
	}
	c.Sample(map[string]any{"writer": kind, "output_bytes": total, "fault_points": "sticky and one-shot refusal of the write crossing 64 KiB, 1, 2, 4, 8, 16 MiB (sticky: -1, +0, +4097; one-shot: every KiB from -3500 to +4097)"})
	for _, t := range []int{64 << 10, 1 << 20, 2 << 20, 4 << 20, 8 << 20, 16 << 20} {
		for _, d := range []int{-3500, -2500, -1500, -500, -1, 0, 700, 1700, 2700, 4097} {
			k := t + d
			if k >= total {
				continue
			}
			for _, fault := range []string{"write", "oneshot"} {
				if fault == "write" && d != -1 && d != 0 && d != 4097 {
					continue // the sticky fault at three offsets, the transient one every KiB around the threshold
				}
				refused, exit, _, res := run(fault, k)
				c.Count("evaluations", 1)
				c.Count("fault_points."+fault, 1)
				if res.TimedOut {
					if res.Deadlock {
						c.Violate("deadlock:"+fault, "the writer dead-locks after a refused write", map[string]any{"writer": kind, "fault": fault, "k": k, "dump": cmdx.Tail(res.Stderr, 3000)})
						return
					}
					c.Inconclusive("watchdog on a fault run")
					continue
				}
				if refused {
					c.Key("big/%s/%s/%d", kind, fault, t>>16)
					c.Count("refusals_delivered", 1)
				}
				if refused && exit == 0 {
					c.Violate("exit0:"+fault+":big", "the sink refused a write but the process exits with status 0", map[string]any{"writer": kind, "output_bytes": total, "fault": fault, "k": k})
					return
				}
				if !refused && exit != 0 {
					c.Violate("spurious-failure", "non-zero exit although nothing was refused", map[string]any{"writer": kind, "fault": fault, "k": k, "exit": exit, "stderr": cmdx.Tail(res.Stderr, 800)})
					return
				}
			}
		}
	}
}

// ---------------------------------------------------------------- end to end

func writeInput(c *core.Ctx, n int, fastq bool) string {
	var sb strings.Builder
	for i := 0; i < n; i++ {
		seq := make([]byte, 40+c.Rng.Intn(60))
		for j := range seq {
			seq[j] = "acgt"[c.Rng.Intn(4)]
		}
		if fastq {
			fmt.Fprintf(&sb, "@r%d {\"k\":%d}\n%s\n+\n%s\n", i, i%3, seq, strings.Repeat("I", len(seq)))
		} else {
			fmt.Fprintf(&sb, ">r%d {\"k\":%d}\n%s\n", i, i%3, seq)
		}
	}
	p := filepath.Join(c.Dir, fmt.Sprintf("in-%d-%d.%s", c.Idx, n, map[bool]string{true: "fastq", false: "fasta"}[fastq]))
	os.WriteFile(p, []byte(sb.String()), 0o644)
	return p
}

type e2eCmd struct {
	name string
	bin  string
	args []string
	fq   bool
}

func e2eCmds() []e2eCmd {
	return []e2eCmd{
		{"fasta", "obiconvert", []string{"--fasta-output"}, false},
		{"fastq", "obiconvert", []string{"--fastq-output"}, true},
		{"json", "obiconvert", []string{"--json-output"}, false},
		{"csv", "obicsv", []string{"-i", "-s"}, false},
		{"fasta-gz", "obiconvert", []string{"--fasta-output", "-Z"}, false},
		// the default output path (format chosen from the first record) and a result without any record
		{"default", "obiconvert", nil, false},
		{"default-gz", "obiconvert", []string{"-Z"}, false},
		{"default-gz-empty-result", "obigrep", []string{"-l", "1000000", "-Z"}, false},
	}
}

func runDevFull(c *core.Ctx) {
	cmds := e2eCmds()
	cmds = cmds[:len(cmds)-1] // a result without any record writes nothing: nothing can fail (see runStrace)
	cm := cmds[c.Idx%len(cmds)]
	n := []int{1, 3, 20, 200, 3000}[(c.Idx/len(cmds))%5]
	in := writeInput(c, n, cm.fq)
	defer os.Remove(in)
	modes := []string{"stdout", "-o"}
	if cm.bin == "obicsv" {
		modes = []string{"stdout"} // obicsv's main never passes the -o name to the writer: its output always goes to stdout
	}
	for _, mode := range modes {
		args := append([]string{"--no-progressbar", "--max-cpu", fmt.Sprint(1 + c.Rng.Intn(4)), "--batch-size", fmt.Sprint(1 + c.Rng.Intn(50))}, cm.args...)
		var res cmdx.Res
		if mode == "-o" {
			args = append(args, "-o", "/dev/full", in)
			res = cmdx.Run(filepath.Join(c.BinDir, cm.bin), args, cmdx.Opt{})
		} else {
			args = append(args, in)
			res = runToDevFull(filepath.Join(c.BinDir, cm.bin), args)
		}
		c.Count("evaluations", 1)
		c.Count("devfull_runs", 1)
		c.Key("devfull/%s/%s/%d", cm.name, mode, n)
		det := map[string]any{"command": cm.bin, "args": args, "mode": mode, "records": n, "exit": res.Exit, "stderr": cmdx.Tail(res.Stderr, 800)}
		if c.Idx < 5 {
			c.Sample(det)
		}
		if res.TimedOut {
			c.Inconclusive("watchdog on " + cm.bin + " > /dev/full")
			continue
		}
		if res.Exit == 0 {
			sz := "large"
			if n <= 20 {
				sz = "below-bufio"
			}
			c.Violate(fmt.Sprintf("exit0:devfull:%s:%s:%s", cm.name, mode, sz), "the command exits 0 although every write to its output fails (ENOSPC)", det)
		}
	}
}

func runToDevFull(bin string, args []string) cmdx.Res {
	f, err := os.OpenFile("/dev/full", os.O_WRONLY, 0)
	if err != nil {
		return cmdx.Res{Exit: -1, TimedOut: true}
	}
	defer f.Close()
	cmd := exec.Command(bin, args...)
	cmd.Stdout = f
	var eb strings.Builder
	cmd.Stderr = &eb
	done := make(chan error, 1)
	if err := cmd.Start(); err != nil {
		return cmdx.Res{Exit: -1, TimedOut: true}
	}
	go func() { done <- cmd.Wait() }()
	select {
	case err := <-done:
		r := cmdx.Res{Stderr: []byte(eb.String())}
		if err != nil {
			r.Exit = -1
			if ee, ok := err.(*exec.ExitError); ok {
				r.Exit = ee.ExitCode()
			}
		}
		return r
	case <-time.After(120 * time.Second):
		cmd.Process.Kill()
		<-done
		return cmdx.Res{TimedOut: true, Exit: -1}
	}
}

// runStrace: the N-th write(2) on the -o file fails with ENOSPC.
func runStrace(c *core.Ctx) {
	if _, err := exec.LookPath("strace"); err != nil {
		c.Inconclusive("strace not available")
		return
	}
	cmds := e2eCmds()
	cmds = append(cmds[:3], cmds[4:]...) // obicsv ignores -o (see runDevFull)
	cm := cmds[c.Idx%len(cmds)]
	n := []int{2, 30, 400, 3000}[(c.Idx/len(cmds))%4]
	in := writeInput(c, n, cm.fq)
	defer os.Remove(in)
	out := filepath.Join(c.Dir, fmt.Sprintf("out-%d", c.Idx))
	// reference run: how many bytes does the complete output have?
	base := append([]string{"--no-progressbar", "--max-cpu", "2", "--batch-size", "20"}, cm.args...)
	ref := cmdx.Run(filepath.Join(c.BinDir, cm.bin), append(append([]string{}, base...), "-o", out, in), cmdx.Opt{})
	st, err := os.Stat(out)
	if ref.Exit != 0 || err != nil {
		c.Inconclusive("reference run failed for " + cm.name)
		return
	}
	full := st.Size()
	os.Remove(out)
	for when := 1; when <= c.Pick(3, 8); when++ {
		args := []string{"-f", "-o", "/dev/null", "-P", out, "-e", "trace=write", "-e", fmt.Sprintf("inject=write:error=ENOSPC:when=%d", when),
			filepath.Join(c.BinDir, cm.bin)}
		args = append(args, base...)
		args = append(args, "-o", out, in)
		res := cmdx.Run("strace", args, cmdx.Opt{})
		var got int64 = -1
		if st, err := os.Stat(out); err == nil {
			got = st.Size()
		}
		os.Remove(out)
		c.Count("evaluations", 1)
		c.Count("strace_runs", 1)
		det := map[string]any{"command": cm.bin, "args": base, "records": n, "failing_write": when, "exit": res.Exit, "output_bytes": got, "complete_output_bytes": full, "stderr": cmdx.Tail(res.Stderr, 600)}
		if res.TimedOut {
			c.Inconclusive("watchdog on strace " + cm.bin)
			continue
		}
		if strings.Contains(string(res.Stderr), "ptrace") && strings.Contains(string(res.Stderr), "Operation not permitted") {
			c.Inconclusive("ptrace is not permitted here")
			return
		}
		// the injection only counts when it really hit a write: the output is then incomplete
		if got >= full {
			continue
		}
		c.Key("strace/%s/%d/%d", cm.name, n, when)
		if res.Exit == 0 {
			c.Violate(fmt.Sprintf("exit0:strace:%s", cm.name), "the command exits 0 although a write(2) on its output file failed with ENOSPC and the file is incomplete", det)
		}
		if when == 1 {
			c.Sample(det)
		}
	}
}

// runStraceClose: the close(2) of the -o file fails with EIO (what NFS, quota and FUSE file systems do
// when the write-back fails): "writing, flushing or closing an output stream fails".
func runStraceClose(c *core.Ctx) {
	if _, err := exec.LookPath("strace"); err != nil {
		c.Inconclusive("strace not available")
		return
	}
	cmds := e2eCmds()
	cmds = append(cmds[:3], cmds[4:len(cmds)-1]...) // obicsv ignores -o (see runDevFull); no record, no output stream
	cmds = append(cmds, e2eCmd{"json-gz", "obiconvert", []string{"--json-output", "-Z"}, false}, e2eCmd{"fastq-gz", "obiconvert", []string{"--fastq-output", "-Z"}, true})
	// the result on the standard output, redirected to a file (one case in three): obicsv included
	toStdout := c.Idx%3 == 2
	if toStdout {
		cmds = append(cmds, e2eCmds()[3])
	}
	cm := cmds[c.Idx%len(cmds)]
	n := []int{1, 3, 30, 400, 3000}[(c.Idx/len(cmds))%5]
	in := writeInput(c, n, cm.fq)
	defer os.Remove(in)
	out := filepath.Join(c.Dir, fmt.Sprintf("outc-%d", c.Idx))
	trace := out + ".strace"
	defer os.Remove(trace)
	defer os.Remove(out)
	base := append([]string{"--no-progressbar", "--max-cpu", fmt.Sprint(1 + c.Rng.Intn(4)), "--batch-size", fmt.Sprint(1 + c.Rng.Intn(50))}, cm.args...)
	for _, errno := range []string{"EIO", "ENOSPC", "EINTR", "EDQUOT"} {
		args := []string{"-f", "-o", trace, "-P", out, "-e", "trace=close", "-e", "inject=close:error=" + errno + ":when=1", filepath.Join(c.BinDir, cm.bin)}
		args = append(args, base...)
		var res cmdx.Res
		if toStdout {
			args = append(args, in)
			res = cmdx.Run("/bin/sh", append([]string{"-c", `exec strace "$@" > "$VH_OUT"`, "sh"}, args...), cmdx.Opt{Env: []string{"VH_OUT=" + out}})
		} else {
			if c.Idx%2 == 1 {
				// the result replaces a file left by an earlier run
				os.WriteFile(out, []byte(">old\nacgt\n"), 0o644)
			}
			args = append(args, "-o", out, in)
			res = cmdx.Run("strace", args, cmdx.Opt{})
		}
		tr, _ := os.ReadFile(trace)
		os.Remove(out)
		c.Count("evaluations", 1)
		c.Count("strace_runs", 1)
		det := map[string]any{"command": cm.bin, "args": base, "records": n, "close_errno": errno, "output_on_stdout": toStdout, "output_file_exists_before": !toStdout && c.Idx%2 == 1, "exit": res.Exit, "strace": cmdx.Tail(tr, 400), "stderr": cmdx.Tail(res.Stderr, 600)}
		if res.TimedOut {
			c.Inconclusive("watchdog on strace " + cm.bin)
			continue
		}
		if strings.Contains(string(res.Stderr), "ptrace") && strings.Contains(string(res.Stderr), "Operation not permitted") {
			c.Inconclusive("ptrace is not permitted here")
			return
		}
		injected := strings.Contains(string(tr), "(INJECTED)")
		c.Key("strace-close/%s/%d/%s/%v/%v", cm.name, n, errno, injected, toStdout)
		if injected {
			c.Count("close_faults_delivered", 1)
		}
		if res.Exit == 0 {
			cause := "exit0:close-failed:" + cm.name
			what := "the command exits 0 although the close(2) of its output file failed"
			if !injected {
				cause = "exit0:never-closed:" + cm.name
				what = "the command exits 0 without ever closing its output file: a failure delivered at close time cannot be reported"
			}
			c.Violate(cause, what, det)
		}
		if errno == "EIO" && c.Idx < 2 {
			c.Sample(det)
		}
	}
}

// runFifo: the output file is a named pipe whose reader goes away after a few bytes (`-o >(head -c 100)`):
// the writes fail with EPIPE once the pipe is full; the command must not exit 0.
func runFifo(c *core.Ctx) {
	cmds := e2eCmds()
	cmds = append(cmds[:3], cmds[4:7]...) // obicsv ignores -o; the empty-result command writes nothing
	cm := cmds[c.Idx%len(cmds)]
	n := 6000 + c.Rng.Intn(3000) // far more output than a pipe buffer (64 KiB) holds
	in := writeInput(c, n, cm.fq)
	defer os.Remove(in)
	fifo := filepath.Join(c.Dir, fmt.Sprintf("fifo-%d", c.Idx))
	if err := syscall.Mkfifo(fifo, 0o600); err != nil {
		c.Inconclusive("cannot create a named pipe here: " + err.Error())
		return
	}
	defer os.Remove(fifo)
	keep := []int{0, 1, 100, 5000}[c.Rng.Intn(4)]
	readerDone := make(chan int64, 1)
	go func() {
		f, err := os.OpenFile(fifo, os.O_RDONLY, 0)
		if err != nil {
			readerDone <- -1
			return
		}
		nr, _ := io.CopyN(io.Discard, f, int64(keep))
		f.Close()
		readerDone <- nr
	}()
	args := append([]string{"--no-progressbar", "--max-cpu", fmt.Sprint(1 + c.Rng.Intn(4))}, cm.args...)
	args = append(args, "-o", fifo, in)
	res := cmdx.Run(filepath.Join(c.BinDir, cm.bin), args, cmdx.Opt{Timeout: 120 * time.Second})
	var got int64 = -2
	select {
	case got = <-readerDone:
	case <-time.After(5 * time.Second):
		// the command never opened the pipe: unblock the reader
		if f, err := os.OpenFile(fifo, os.O_WRONLY|syscall.O_NONBLOCK, 0); err == nil {
			f.Close()
		}
	}
	c.Count("evaluations", 1)
	det := map[string]any{"command": cm.bin, "args": args, "records": n, "reader_kept_bytes": keep, "reader_read": got, "exit": res.Exit, "stderr": cmdx.Tail(res.Stderr, 600)}
	if res.TimedOut {
		c.Inconclusive("watchdog on a command writing to a named pipe")
		return
	}
	c.Key("fifo/%s/%d", cm.name, keep)
	if c.Idx < 2 {
		c.Sample(det)
	}
	if res.Exit == 0 {
		c.Violate("exit0:closed-pipe:"+cm.name, "the command exits 0 although the reader of its output pipe went away long before the end of the output (EPIPE)", det)
	}
}

func init() {
	core.Extra["c18fault"] = faultMain
	var subs []core.Sub
	for _, k := range wrx.Kinds {
		kind := k
		subs = append(subs, core.Sub{Name: "inproc-" + kind, N: core.Const(24, 60), Shard: 2, TimeoutS: 3000, Run: func(c *core.Ctx) { runInproc(c, kind) }})
	}
	subs = append(subs,
		core.Sub{Name: "inproc-big", N: core.Const(2, 4), Shard: 1, TimeoutS: 3000, Run: runInprocBig},
		core.Sub{Name: "e2e-devfull", N: core.Const(25, 100), Run: runDevFull},
		core.Sub{Name: "e2e-strace", N: core.Const(10, 40), Run: runStrace},
		core.Sub{Name: "e2e-fifo", N: core.Const(7, 42), Run: runFifo},
		core.Sub{Name: "e2e-strace-close", N: core.Const(12, 60), Run: runStraceClose},
	)
	core.Register(&core.Property{
		ID:    "C18",
		Level: "fault_enumeration",
		Rule: "fault points: for each (writer, output size class below/above the 4 KiB buffer, batch arrival order, plain/gzip) the write crossing byte offset k is refused for k over the whole output (step 1 up to 8 KiB in the thorough tier, <= 160 sampled offsets per output in quick), plus a refused Close and short writes; end to end: commands writing to /dev/full (stdout and -o) and strace injecting ENOSPC on the N-th write(2) of the -o file, or EIO/ENOSPC on its close(2). Oracle: a refusal announced by the sink implies a non-zero exit status of the process (one helper process per fault point running the real writer; the commands themselves end to end). " +
			"Added later: errno-shaped faults (ENOSPC, EPIPE, EIO, EINTR, EDQUOT), the default output path, a result without any record under write injection, close(2) faults on -o FILE and on the redirected standard output, an output pipe whose reader goes away. Transient (one-shot) write faults, inproc-big (9 / 17 MiB written as 1-2 KB batches, faults every KiB around 64 KiB, 1, 2, 4, 8, 16 MiB), the close fault also when the output file exists before the run. " +
			"distinct_nontrivial = distinct (writer, fault kind, size class, compression, phase) classes in which a refusal was actually delivered + distinct (command, mode, size) / (command, size, N) end-to-end runs in which the fault was effective",
		Assume:        []string{"helper process = real writer + faulty io.WriteCloser + obiiter.WaitForLastPipe, nothing else", "e2e: /dev/full returns ENOSPC on every write; strace -e inject fails exactly the N-th write(2) of each thread on the output path"},
		Subs:          subs,
		Cmds:          []string{"obiconvert", "obicsv", "obigrep"},
		MinNontrivial: 20,
	})
}
