// Package wrx drives the real writers (WriteFasta/WriteFastq/WriteJSON/WriteCSV)
// with a chosen batch partition, arrival order and sink.
package wrx

import (
	"bytes"
	"fmt"
	"io"
	"math/rand"
	"os"
	"sync"
	"syscall"

	"git.metabarcoding.org/obitools/obitools4/obitools4/pkg/obiformats"
	"git.metabarcoding.org/obitools/obitools4/obitools4/pkg/obiiter"
	"git.metabarcoding.org/obitools/obitools4/obitools4/pkg/obiseq"

	"verifh/itx"
)

// Kinds of writer.
var Kinds = []string{"fasta", "fastq", "json", "csv"}

// CSVAuto makes Run start the CSV writer in automatic column mode (set by the caller around a Run).
var CSVAuto bool

// Sink records everything a writer does to its output.
type Sink struct {
	mu          sync.Mutex
	Buf         bytes.Buffer
	Writes      int
	Closes      int
	WriteAfterC int
	Closed      chan struct{}
	// fault injection (C18)
	FailAt    int64  // the write that would cross this byte offset fails (-1: never)
	FailClose bool   // Close returns an error
	Short     bool   // the failing write is a short write (n < len, err = io.ErrShortWrite)
	OneShot   bool   // only that write fails: the sink accepts everything afterwards (a transient fault)
	Refused   int    // number of refusals reported to the writer
	OnRefuse  func() // called at the first refusal
	Err       error  // the error returned by a refusal (nil: ErrInjected)
	accepted  int64
}

// NewSink returns a recording sink without faults.
func NewSink() *Sink { return &Sink{Closed: make(chan struct{}), FailAt: -1} }

var ErrInjected = fmt.Errorf("injected write fault (no space left on device)")

// Errnos are the error values a faulty sink can be told to return (Sink.Err), shaped like the
// errors of a real file: disk full, closed pipe, I/O error.
var Errnos = []error{
	ErrInjected,
	&os.PathError{Op: "write", Path: "out", Err: syscall.ENOSPC},
	&os.PathError{Op: "write", Path: "out", Err: syscall.EPIPE},
	&os.PathError{Op: "write", Path: "out", Err: syscall.EIO},
	&os.PathError{Op: "close", Path: "out", Err: syscall.EINTR},
	&os.PathError{Op: "write", Path: "out", Err: syscall.EDQUOT},
}

func (s *Sink) fault() error {
	if s.Err != nil {
		return s.Err
	}
	return ErrInjected
}

func (s *Sink) Write(p []byte) (int, error) {
	s.mu.Lock()
	defer s.mu.Unlock()
	if s.Closes > 0 {
		s.WriteAfterC++
	}
	s.Writes++
	if s.FailAt >= 0 && s.accepted+int64(len(p)) > s.FailAt {
		s.Refused++
		if s.Refused == 1 && s.OnRefuse != nil {
			s.OnRefuse()
		}
		if s.Short {
			n := int(s.FailAt - s.accepted)
			if n < 0 {
				n = 0
			}
			s.Buf.Write(p[:n])
			s.accepted += int64(n)
			s.FailAt = s.accepted // every later write fails too
			return n, io.ErrShortWrite
		}
		s.FailAt = s.accepted
		if s.OneShot {
			s.FailAt = -1
		}
		return 0, s.fault()
	}
	s.accepted += int64(len(p))
	return s.Buf.Write(p)
}

func (s *Sink) Close() error {
	s.mu.Lock()
	defer s.mu.Unlock()
	s.Closes++
	if s.Closes == 1 {
		close(s.Closed)
	}
	if s.FailClose {
		s.Refused++
		if s.Refused == 1 && s.OnRefuse != nil {
			s.OnRefuse()
		}
		return s.fault()
	}
	return nil
}

// Snapshot returns the bytes received so far.
func (s *Sink) Snapshot() []byte {
	s.mu.Lock()
	defer s.mu.Unlock()
	return append([]byte{}, s.Buf.Bytes()...)
}

// Recs builds records suitable for every writer (with qualities for FASTQ).
func Recs(r *rand.Rand, n int, seqLen func() int) []itx.Rec {
	out := make([]itx.Rec, n)
	for i := range out {
		l := seqLen()
		s := make([]byte, l)
		for j := range s {
			s[j] = "acgt"[r.Intn(4)]
		}
		out[i] = itx.Rec{ID: fmt.Sprintf("r%d", i), Seq: string(s), K: r.Intn(3)}
	}
	return out
}

// hostileNotes: text attribute values that a JSON writer has to escape (or must not "unescape").
var hostileNotes = []string{"C:\\users\\bob", "a\x01b", "tab\there", `back\\slash "quoted"`, "<b>&amp;</b>", "line\u2028separator", `literal \u00e9 escape`, "\u00e9t\u00e9", "\\u", "x\x1fy\x7f"}

// NoteOf: the "note" attribute of the record of that identifier (one record in three has one).
func NoteOf(id string) (string, bool) {
	h := 0
	for _, c := range id {
		h = h*31 + int(c)
	}
	if h%3 != 0 {
		return "", false
	}
	return hostileNotes[(h/3)%len(hostileNotes)], true
}

func idHash(id string) int {
	h := 0
	for _, c := range id {
		h = (h*31 + int(c)) & 0xffffff
	}
	return h
}

// Bios builds the real batches (with qualities when withQual).
func Bios(parts [][]itx.Rec, withQual bool) []obiseq.BioSequenceSlice {
	out := make([]obiseq.BioSequenceSlice, len(parts))
	for i, p := range parts {
		out[i] = obiseq.MakeBioSequenceSlice(0)
		for _, r := range p {
			s := r.Bio()
			if note, ok := NoteOf(r.ID); ok {
				s.SetAttribute("note", note)
			}
			if withQual {
				q := make([]byte, len(r.Seq))
				for j := range q {
					q[j] = byte((j*7 + len(r.ID)) % 41)
				}
				if h := idHash(r.ID); h%5 == 1 {
					// scores over the whole range of a byte, as they come out of a file decoded with the wrong
					// offset (a phred+33 file read with --solexa: '!'..'?' wrap to 225..255): the writers cap
					// them at 93, the quality line stays printable
					for j := range q {
						q[j] = byte((j*37 + h) % 256)
					}
				}
				s.SetQualities(q)
			}
			out[i] = append(out[i], s)
		}
	}
	return out
}

// Run starts the writer kind on the batches fed in the arrival order perm and
// waits until the output iterator is drained. It does NOT wait for the sink
// to be closed (the caller decides how to wait: <-sink.Closed).
func Run(kind string, bios []obiseq.BioSequenceSlice, perm []int, sink io.WriteCloser, workers int, compressed bool, closeFile bool) error {
	in := itx.FeedBio(bios, perm)
	opts := []obiformats.WithOption{obiformats.OptionsParallelWorkers(workers), obiformats.OptionsCompressed(compressed)}
	if closeFile {
		opts = append(opts, obiformats.OptionCloseFile())
	} else {
		opts = append(opts, obiformats.OptionDontCloseFile())
	}
	if SkipEmpty {
		opts = append(opts, obiformats.OptionsSkipEmptySequence(true))
	}
	var out obiiter.IBioSequence
	var err error
	switch kind {
	case "fasta":
		out, err = obiformats.WriteFasta(in, sink, opts...)
	case "fastq":
		out, err = obiformats.WriteFastq(in, sink, opts...)
	case "json":
		out, err = obiformats.WriteJSON(in, sink, opts...)
	case "csv":
		if CSVAuto {
			// the columns are taken from the records of the first batch the writer sees
			opts = append(opts, obiformats.CSVAutoColumn(true))
		} else {
			opts = append(opts, obiformats.CSVKey("k"))
		}
		out, err = obiformats.WriteCSV(in, sink, opts...)
	default:
		return fmt.Errorf("unknown writer kind %s", kind)
	}
	if err != nil {
		return err
	}
	for out.Next() {
		out.Get()
	}
	return nil
}

// SkipEmpty: the writers are run with the skip-empty option (--skip-empty): records without
// sequence are left out, a batch made only of such records formats to nothing.
var SkipEmpty bool

// Expected returns the bytes the FASTA/FASTQ writers must produce: the
// in-order concatenation of the package's own batch formatting.
func Expected(kind string, bios []obiseq.BioSequenceSlice) []byte {
	var b bytes.Buffer
	for k, sl := range bios {
		batch := obiiter.MakeBioSequenceBatch("src", k, sl)
		switch kind {
		case "fasta":
			b.Write(obiformats.FormatFastaBatch(batch, obiformats.FormatFastSeqJsonHeader, SkipEmpty).Bytes())
		case "fastq":
			b.Write(obiformats.FormatFastqBatch(batch, obiformats.FormatFastSeqJsonHeader, SkipEmpty).Bytes())
		}
	}
	return b.Bytes()
}
