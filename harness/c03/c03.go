// Package c03: no record is lost, duplicated or reordered between reader and writer.
//
// The real combinators of pkg/obiiter are fed with chosen batch partitions
// (empty batches included) in chosen arrival orders; what comes out is
// recorded at the iterator boundary and compared with the per-combinator
// specification of DESIGN.md Appendix A.1.
package c03

import (
	"fmt"
	"runtime"
	"sort"
	"strings"
	"sync"
	"time"

	"git.metabarcoding.org/obitools/obitools4/obitools4/pkg/obiformats"
	"git.metabarcoding.org/obitools/obitools4/obitools4/pkg/obiiter"
	"git.metabarcoding.org/obitools/obitools4/obitools4/pkg/obioptions"
	"git.metabarcoding.org/obitools/obitools4/obitools4/pkg/obiseq"
	"git.metabarcoding.org/obitools/obitools4/obitools4/pkg/obiverif"
	log "github.com/sirupsen/logrus"

	"verifh/core"
	"verifh/itx"
)

const wd = 20 * time.Second

func shapeClass(sizes []int) string {
	if len(sizes) == 0 {
		return "no-batch"
	}
	all := true
	var pos []string
	for i, s := range sizes {
		if s != 0 {
			all = false
			continue
		}
		switch {
		case i == 0:
			pos = append(pos, "first")
		case i == len(sizes)-1:
			pos = append(pos, "last")
		default:
			if len(pos) == 0 || pos[len(pos)-1] != "mid" {
				pos = append(pos, "mid")
			}
		}
	}
	if all {
		return "all-empty"
	}
	if len(pos) == 0 {
		return "no-empty"
	}
	return "empty-" + strings.Join(pos, "+")
}

// plan is one (partition, arrival order) to feed.
type plan struct {
	recs  []itx.Rec
	sizes []int
	parts [][]itx.Rec
	perm  []int
}

// plans enumerates the partitions/permutations of one case.
func plans(c *core.Ctx, prefix string) []plan {
	nb := c.Idx % 7 // 0..6 batches
	if c.Idx%23 == 22 {
		nb = 8 + c.Rng.Intn(30)
	}
	sizes := itx.RandSizes(c.Rng, nb, []int{0, 250, 500}[c.Rng.Intn(3)])
	if nb > 0 && c.Idx%5 == 0 {
		sizes[0] = 0
	}
	if nb > 1 && c.Idx%7 == 0 {
		sizes[nb-1] = 0
	}
	recs := itx.MkRecs(c.Rng, prefix, itx.Sum(sizes))
	parts := itx.Partition(recs, sizes)
	ex := c.Pick(4, 5)
	var out []plan
	for _, p := range itx.Perms(c.Rng, nb, ex, c.Pick(6, 24)) {
		out = append(out, plan{recs, sizes, parts, p})
	}
	return out
}

func (p plan) key(c *core.Ctx, comb string, extra ...any) {
	ooo := itx.OutOfOrder(p.perm)
	sc := shapeClass(p.sizes)
	if ooo > 0 || strings.HasPrefix(sc, "empty") || sc == "all-empty" || sc == "no-batch" {
		c.Key("%s/%v/%v/%v", comb, p.sizes, p.perm, extra)
	}
	c.Count("evaluations", 1)
	c.Count("histories."+comb, 1)
	if ooo > 0 {
		c.Count("out_of_order_histories", 1)
	}
}

func (p plan) detail(obs any) map[string]any {
	return map[string]any{"sizes": p.sizes, "arrival": p.perm, "observed": obs}
}

func (p plan) sample(c *core.Ctx, comb string, obs any) {
	if len(p.perm) >= 3 && itx.OutOfOrder(p.perm) > 0 {
		c.Sample(map[string]any{"combinator": comb, "sizes": p.sizes, "arrival": p.perm, "observed": obs})
	}
}

// nonEmptyParts returns the numbers (indices) of all parts and the ids of every part.
func numbers(n int) []int {
	out := make([]int, n)
	for i := range out {
		out[i] = i
	}
	return out
}

// ---------------------------------------------------------------- SortBatches

func runSort(c *core.Ctx) {
	for _, p := range plans(c, "r") {
		var obs []itx.Obs
		label := "sort:" + shapeClass(p.sizes)
		c.Risk(label)
		var arrMu sync.Mutex
		var arrived []int
		obiverif.SetEventHook(func(site string, v []int) {
			if site == "sortbatches.arrival" && len(v) == 1 {
				arrMu.Lock()
				arrived = append(arrived, v[0])
				arrMu.Unlock()
			}
		})
		ok := c.Bounded(label, wd, func() { obs = itx.Drain(itx.Feed(p.parts, p.perm).SortBatches()) })
		obiverif.SetEventHook(nil)
		if !ok {
			return
		}
		p.key(c, "sort")
		// the arrival order observed inside SortBatches (hook) is the fed permutation
		arrMu.Lock()
		if fmt.Sprint(arrived) == fmt.Sprint(p.perm) || (len(arrived) == 0 && len(p.perm) == 0) {
			c.Count("sortbatches_arrival_orders_confirmed_by_hook", 1)
		} else {
			c.Inconclusive("the arrival order observed at SortBatches differs from the fed permutation")
		}
		arrMu.Unlock()
		p.sample(c, "SortBatches", obs)
		for i, o := range obs {
			if o.Order != i {
				c.Violate("arrival-not-increasing", "SortBatches delivers batches in an order that is not 0,1,2,...", p.detail(obs))
				break
			}
		}
		if len(obs) != len(p.parts) {
			c.Violate("missing-batch", "SortBatches does not deliver every batch", p.detail(obs))
			continue
		}
		if d := itx.CompareSeq(itx.InArrival(obs), itx.IDs(p.recs)); d != "" {
			c.Violate(d, "SortBatches changes the record sequence", p.detail(obs))
		}
	}
}

// ---------------------------------------------------------------- Rebatch / FilterEmpty

func checkRebatched(c *core.Ctx, what string, p plan, obs []itx.Obs, want []string, size int, arrivalOrdered bool) {
	if n := itx.Numbering(obs); n != "" {
		c.Violate("numbering:"+n, what+": output batches are not numbered 0..m-1", p.detail(obs))
		return
	}
	ids := itx.ByNumber(obs)
	if d := itx.CompareSeq(ids, want); d != "" {
		det := p.detail(obs)
		det["expected_ids"] = want
		c.Violate(d, what+": records lost, duplicated or reordered", det)
		return
	}
	if size > 0 {
		sorted := append([]itx.Obs{}, obs...)
		sort.Slice(sorted, func(i, j int) bool { return sorted[i].Order < sorted[j].Order })
		for i, o := range sorted {
			if len(o.IDs) == 0 || len(o.IDs) > size || (i < len(sorted)-1 && len(o.IDs) != size) {
				c.Violate("batch-size", what+": batches are not all of the requested size (last one smaller, none empty)", p.detail(obs))
				break
			}
		}
	}
}

func runRebatch(c *core.Ctx) {
	size := []int{1, 2, 3, 7}[c.Rng.Intn(4)]
	for _, p := range plans(c, "r") {
		var obs []itx.Obs
		label := "rebatch:" + shapeClass(p.sizes)
		c.Risk(label)
		if !c.Bounded(label, wd, func() { obs = itx.Drain(itx.Feed(p.parts, p.perm).Rebatch(size)) }) {
			return
		}
		p.key(c, "rebatch", size)
		p.sample(c, fmt.Sprintf("Rebatch(%d)", size), obs)
		checkRebatched(c, "Rebatch", p, obs, itx.IDs(p.recs), size, true)
	}
}

func runFilterEmpty(c *core.Ctx) {
	for _, p := range plans(c, "r") {
		var obs []itx.Obs
		label := "filterempty:" + shapeClass(p.sizes)
		c.Risk(label)
		if !c.Bounded(label, wd, func() { obs = itx.Drain(itx.Feed(p.parts, p.perm).FilterEmpty()) }) {
			return
		}
		p.key(c, "filterempty")
		p.sample(c, "FilterEmpty", obs)
		checkRebatched(c, "FilterEmpty", p, obs, itx.IDs(p.recs), 0, true)
		for _, o := range obs {
			if len(o.IDs) == 0 {
				c.Violate("empty-kept", "FilterEmpty delivers an empty batch", p.detail(obs))
			}
		}
		ne := 0
		for _, s := range p.sizes {
			if s > 0 {
				ne++
			}
		}
		if len(obs) != ne {
			c.Violate("batch-count", "FilterEmpty must deliver exactly the non-empty batches", p.detail(obs))
		}
	}
}

// ---------------------------------------------------------------- workers

type wkind struct {
	name string
	// expected output ids for one input record
	out func(r itx.Rec) []string
	w   obiseq.SeqWorker
}

func workerKinds() []wkind {
	return []wkind{
		{"identity", func(r itx.Rec) []string { return []string{r.ID} },
			func(s *obiseq.BioSequence) (obiseq.BioSequenceSlice, error) { return obiseq.BioSequenceSlice{s}, nil }},
		{"drop-k0", func(r itx.Rec) []string {
			if r.K == 0 {
				return nil
			}
			return []string{r.ID}
		}, func(s *obiseq.BioSequence) (obiseq.BioSequenceSlice, error) {
			if k, _ := s.GetIntAttribute("k"); k == 0 {
				return obiseq.BioSequenceSlice{}, nil
			}
			return obiseq.BioSequenceSlice{s}, nil
		}},
		{"emit-two", func(r itx.Rec) []string { return []string{r.ID, r.ID + "_bis"} },
			func(s *obiseq.BioSequence) (obiseq.BioSequenceSlice, error) {
				t := s.Copy()
				t.SetId(s.Id() + "_bis")
				return obiseq.BioSequenceSlice{s, t}, nil
			}},
		{"drop-all", func(r itx.Rec) []string { return nil },
			func(s *obiseq.BioSequence) (obiseq.BioSequenceSlice, error) { return obiseq.BioSequenceSlice{}, nil }},
	}
}

func checkWorker(c *core.Ctx, what string, p plan, obs []itx.Obs, wk wkind) {
	if !itx.SameNumbers(obs, numbers(len(p.parts))) {
		cause := "numbering:gap"
		if len(obs) > len(p.parts) {
			cause = "numbering:dup"
		}
		c.Violate(cause+":"+wk.name, what+": the output batch numbers are not those of the input (emptied batches included)", p.detail(obs))
		return
	}
	for _, o := range obs {
		var want []string
		for _, r := range p.parts[o.Order] {
			want = append(want, wk.out(r)...)
		}
		if d := itx.CompareSeq(o.IDs, want); d != "" {
			det := p.detail(obs)
			det["batch"] = o.Order
			det["expected_ids"] = want
			c.Violate(d+":"+wk.name, what+": a batch does not hold the worker's output for the same-numbered input batch", det)
			return
		}
	}
}

func runWorkers(c *core.Ctx) {
	kinds := workerKinds()
	wk := kinds[c.Idx%len(kinds)]
	nw := []int{1, 2, 3, 8}[(c.Idx/len(kinds))%4]
	variant := (c.Idx / 16) % 3 // 0 MakeIWorker, 1 MakeISliceWorker, 2 MakeIConditionalWorker
	for _, p := range plans(c, "r") {
		var obs []itx.Obs
		label := fmt.Sprintf("worker%d:%s:%s", variant, wk.name, shapeClass(p.sizes))
		c.Risk(label)
		ok := c.Bounded(label, wd, func() {
			in := itx.Feed(p.parts, p.perm)
			switch variant {
			case 0:
				obs = itx.Drain(in.MakeIWorker(wk.w, false, nw))
			case 1:
				obs = itx.Drain(in.MakeISliceWorker(obiseq.SeqToSliceWorker(wk.w, false), false, nw))
			default:
				obs = itx.Drain(in.MakeIConditionalWorker(func(s *obiseq.BioSequence) bool { return true }, wk.w, false, nw))
			}
		})
		if !ok {
			return
		}
		p.key(c, "worker", variant, wk.name, nw)
		p.sample(c, fmt.Sprintf("worker variant %d %s x%d", variant, wk.name, nw), obs)
		checkWorker(c, "worker", p, obs, wk)
	}
}

// ---------------------------------------------------------------- FilterOn / FilterAnd / DivideOn

func predK(s *obiseq.BioSequence) bool {
	k, _ := s.GetIntAttribute("k")
	return k != 1
}

func runFilterOn(c *core.Ctx) {
	size := []int{1, 2, 5}[c.Rng.Intn(3)]
	nw := []int{1, 2, 4}[c.Rng.Intn(3)]
	for _, p := range plans(c, "r") {
		var want []string
		for _, r := range p.recs {
			if r.K != 1 {
				want = append(want, r.ID)
			}
		}
		var obs []itx.Obs
		label := "filteron:" + shapeClass(p.sizes)
		c.Risk(label)
		if !c.Bounded(label, wd, func() { obs = itx.Drain(itx.Feed(p.parts, p.perm).FilterOn(predK, size, nw)) }) {
			return
		}
		p.key(c, "filteron", size, nw)
		p.sample(c, "FilterOn", obs)
		checkRebatched(c, "FilterOn", p, obs, want, size, false)
	}
}

func runDivideOn(c *core.Ctx) {
	size := []int{1, 2, 5}[c.Rng.Intn(3)]
	for _, p := range plans(c, "r") {
		var wantT, wantF []string
		for _, r := range p.recs {
			if r.K != 1 {
				wantT = append(wantT, r.ID)
			} else {
				wantF = append(wantF, r.ID)
			}
		}
		var obsT, obsF []itx.Obs
		label := "divideon:" + shapeClass(p.sizes)
		c.Risk(label)
		ok := c.Bounded(label, wd, func() {
			t, f := itx.Feed(p.parts, p.perm).DivideOn(predK, size)
			var wg sync.WaitGroup
			wg.Add(2)
			go func() { defer wg.Done(); obsT = itx.Drain(t) }()
			go func() { defer wg.Done(); obsF = itx.Drain(f) }()
			wg.Wait()
		})
		if !ok {
			return
		}
		p.key(c, "divideon", size)
		p.sample(c, "DivideOn", map[string]any{"true": obsT, "false": obsF})
		checkRebatched(c, "DivideOn(true stream)", p, obsT, wantT, size, false)
		checkRebatched(c, "DivideOn(false stream)", p, obsF, wantF, size, false)
	}
}

// ---------------------------------------------------------------- Distribute

func runDistribute(c *core.Ctx) {
	size := []int{1, 2, 5}[c.Rng.Intn(3)]
	for _, p := range plans(c, "r") {
		want := map[string][]string{}
		for _, r := range p.recs {
			k := fmt.Sprint(r.K)
			want[k] = append(want[k], r.ID)
		}
		got := map[string][]itx.Obs{}
		announced := map[int]int{}
		var mu sync.Mutex
		label := "distribute:" + shapeClass(p.sizes)
		c.Risk(label)
		ok := c.Bounded(label, wd, func() {
			cl := obiseq.AnnotationClassifier("k", "NA")
			d := itx.Feed(p.parts, p.perm).Distribute(cl, size)
			var wg sync.WaitGroup
			for code := range d.News() {
				mu.Lock()
				announced[code]++
				mu.Unlock()
				out, err := d.Outputs(code)
				if err != nil {
					continue
				}
				wg.Add(1)
				go func(code int, out obiiter.IBioSequence) {
					defer wg.Done()
					o := itx.Drain(out)
					mu.Lock()
					got[cl.Value(code)] = o
					mu.Unlock()
				}(code, out)
			}
			wg.Wait()
		})
		if !ok {
			return
		}
		p.key(c, "distribute", size)
		p.sample(c, "Distribute", got)
		for _, n := range announced {
			if n != 1 {
				c.Violate("news-dup", "Distribute announces a key more than once", p.detail(got))
			}
		}
		if len(got) != len(want) {
			c.Violate("keys", "Distribute does not open exactly one stream per key value", p.detail(got))
			continue
		}
		for k, w := range want {
			checkRebatched(c, "Distribute(stream "+k+")", p, got[k], w, size, false)
		}
	}
}

// ---------------------------------------------------------------- Pool / Concat

// streams builds ns input streams with their own partitions and arrival orders.
type multi struct {
	plans []plan
}

func multiPlans(c *core.Ctx) multi {
	ns := 2 + c.Rng.Intn(2)
	var m multi
	for s := 0; s < ns; s++ {
		nb := c.Rng.Intn(4)
		if (c.Idx+s)%3 == 0 {
			nb = 0 // an empty stream
		}
		sizes := itx.RandSizes(c.Rng, nb, 200)
		recs := itx.MkRecs(c.Rng, fmt.Sprintf("s%d_", s), itx.Sum(sizes))
		m.plans = append(m.plans, plan{recs, sizes, itx.Partition(recs, sizes), c.Rng.Perm(nb)})
	}
	return m
}

func (m multi) class() string {
	var e []string
	for i, p := range m.plans {
		if len(p.sizes) == 0 {
			switch {
			case i == 0:
				e = append(e, "first")
			case i == len(m.plans)-1:
				e = append(e, "last")
			default:
				e = append(e, "mid")
			}
		}
	}
	if len(e) == 0 {
		return "no-empty-stream"
	}
	return "empty-stream-" + strings.Join(e, "+")
}

func (m multi) detail(obs any) map[string]any {
	var s []map[string]any
	for _, p := range m.plans {
		s = append(s, map[string]any{"sizes": p.sizes, "arrival": p.perm})
	}
	return map[string]any{"streams": s, "observed": obs}
}

func runPoolConcat(c *core.Ctx) {
	concat := c.Idx%2 == 0
	name := "pool"
	if concat {
		name = "concat"
	}
	for rep := 0; rep < c.Pick(6, 20); rep++ {
		m := multiPlans(c)
		var obs []itx.Obs
		label := name + ":" + m.class()
		c.Risk(label)
		ok := c.Bounded(label, wd, func() {
			its := make([]obiiter.IBioSequence, len(m.plans))
			for i, p := range m.plans {
				its[i] = itx.Feed(p.parts, p.perm)
			}
			if concat {
				obs = itx.Drain(its[0].Concat(its[1:]...))
			} else {
				obs = itx.Drain(its[0].Pool(its[1:]...))
			}
		})
		if !ok {
			return
		}
		c.Count("evaluations", 1)
		c.Count("histories."+name, 1)
		c.Key("%s/%v", name, m.detail(nil))
		if rep == 0 {
			c.Sample(map[string]any{"combinator": name, "case": m.detail(obs)})
		}
		nb := 0
		var all []string
		for _, p := range m.plans {
			nb += len(p.sizes)
			all = append(all, itx.IDs(p.recs)...)
		}
		if len(obs) != nb {
			c.Violate("batch-count:"+m.class(), name+": the number of output batches is not the total number of input batches", m.detail(obs))
			continue
		}
		if n := itx.Numbering(obs); n != "" {
			c.Violate("numbering:"+n+":"+m.class(), name+": output batches are not numbered 0..m-1", m.detail(obs))
			continue
		}
		if concat {
			if d := itx.CompareSeq(itx.ByNumber(obs), all); d != "" {
				c.Violate(d+":"+m.class(), "Concat: the output is not stream 1 followed by stream 2 ...", m.detail(obs))
			}
		} else {
			if d := itx.CompareMultiset(itx.ByNumber(obs), all, false); d != "" {
				c.Violate(d+":"+m.class(), "Pool: records lost or duplicated", m.detail(obs))
			}
		}
	}
}

// ---------------------------------------------------------------- pairing

func runPaired(c *core.Ctx) {
	obioptions.SetBatchSize([]int{1, 2, 3, 10}[c.Rng.Intn(4)])
	for _, p := range plans(c, "f") {
		// the reverse file: same number of records, its own partition and arrival order
		rsizes := repartition(c, len(p.recs))
		rrecs := make([]itx.Rec, len(p.recs))
		for i, r := range p.recs {
			rrecs[i] = itx.Rec{ID: "m" + r.ID, Seq: r.Seq, K: r.K}
		}
		rp := plan{rrecs, rsizes, itx.Partition(rrecs, rsizes), c.Rng.Perm(len(rsizes))}
		type pobs struct {
			Fwd, Rev []itx.Obs
			Mates    []string
		}
		var o pobs
		label := "pairto:" + shapeClass(p.sizes)
		c.Risk(label)
		ok := c.Bounded(label, wd, func() {
			paired := itx.Feed(p.parts, p.perm).PairTo(itx.Feed(rp.parts, rp.perm))
			a := paired
			for a.Next() {
				batch := a.Get()
				ob := itx.Obs{Order: batch.Order()}
				for _, s := range batch.Slice() {
					ob.IDs = append(ob.IDs, s.Id())
					if s.PairedWith() != nil {
						o.Mates = append(o.Mates, s.Id()+"|"+s.PairedWith().Id())
					} else {
						o.Mates = append(o.Mates, s.Id()+"|<none>")
					}
				}
				o.Fwd = append(o.Fwd, ob)
				// the mates of the same batch through PairedWith()
				mb := batch.PairedWith()
				mo := itx.Obs{Order: mb.Order()}
				for _, s := range mb.Slice() {
					mo.IDs = append(mo.IDs, s.Id())
				}
				o.Rev = append(o.Rev, mo)
			}
		})
		if !ok {
			return
		}
		p.key(c, "pairto", rp.sizes, rp.perm)
		p.sample(c, "PairTo", o)
		det := p.detail(o)
		det["reverse_sizes"] = rp.sizes
		det["reverse_arrival"] = rp.perm
		if n := itx.Numbering(o.Fwd); n != "" {
			c.Violate("numbering:"+n, "PairTo: output batches are not numbered 0..m-1", det)
			continue
		}
		if d := itx.CompareSeq(itx.ByNumber(o.Fwd), itx.IDs(p.recs)); d != "" {
			c.Violate(d, "PairTo: forward records lost, duplicated or reordered", det)
			continue
		}
		for _, m := range o.Mates {
			parts := strings.SplitN(m, "|", 2)
			if parts[1] != "m"+parts[0] {
				c.Violate("mate-desync", "PairTo: record i of the forward stream is not paired with record i of the reverse stream", det)
				break
			}
		}
		for i := range o.Fwd {
			if o.Rev[i].Order != o.Fwd[i].Order || len(o.Rev[i].IDs) != len(o.Fwd[i].IDs) {
				c.Violate("pairedwith", "PairedWith(): the mate batch has another number or size than its batch", det)
				break
			}
		}
	}
}

func repartition(c *core.Ctx, n int) []int {
	var sizes []int
	left := n
	for left > 0 {
		s := 1 + c.Rng.Intn(4)
		if s > left {
			s = left
		}
		if c.Rng.Intn(5) == 0 {
			sizes = append(sizes, 0)
		}
		sizes = append(sizes, s)
		left -= s
	}
	return sizes
}

// ---------------------------------------------------------------- fragments

func runFragments(c *core.Ctx) {
	for _, p0 := range plans(c, "r") {
		// long records: lengths 5..80
		p := p0
		recs := make([]itx.Rec, len(p0.recs))
		for i, r := range p0.recs {
			l := 5 + c.Rng.Intn(76)
			s := make([]byte, l)
			for j := range s {
				s[j] = "acgt"[c.Rng.Intn(4)]
			}
			recs[i] = itx.Rec{ID: r.ID, Seq: string(s), K: r.K}
		}
		p.recs = recs
		p.parts = itx.Partition(recs, p.sizes)
		length := 10 + c.Rng.Intn(20)
		overlap := c.Rng.Intn(length / 2)
		minsize := length + c.Rng.Intn(10)
		size := []int{1, 3, 10}[c.Rng.Intn(3)]
		nw := []int{1, 2, 4}[c.Rng.Intn(3)]
		type frag struct {
			ID  string
			Seq string
		}
		var obs []itx.Obs
		var frags []frag
		label := "fragments:" + shapeClass(p.sizes)
		c.Risk(label)
		ok := c.Bounded(label, wd, func() {
			out := obiiter.IFragments(minsize, length, overlap, size, nw)(itx.Feed(p.parts, p.perm))
			for out.Next() {
				b := out.Get()
				ob := itx.Obs{Order: b.Order()}
				for _, s := range b.Slice() {
					ob.IDs = append(ob.IDs, s.Id())
					frags = append(frags, frag{s.Id(), s.String()})
				}
				obs = append(obs, ob)
			}
		})
		if !ok {
			return
		}
		p.key(c, "fragments", length, overlap, minsize)
		det := p.detail(obs)
		det["params"] = map[string]int{"minsize": minsize, "length": length, "overlap": overlap, "batch": size, "workers": nw}
		if n := itx.Numbering(obs); n != "" {
			c.Violate("numbering:"+n, "IFragments: output batches are not numbered 0..m-1", det)
			continue
		}
		// order of fragments by batch number
		sort.SliceStable(obs, func(i, j int) bool { return obs[i].Order < obs[j].Order })
		// rebuild: fragments of a record are consecutive, cover it with the given overlap
		byArr := map[string]string{}
		for _, f := range frags {
			byArr[f.ID] = f.Seq
		}
		pos := 0
		ordered := itx.ByNumber(obs)
		bad := ""
		for _, r := range p.recs {
			if len(r.Seq) <= minsize {
				if pos >= len(ordered) || ordered[pos] != r.ID {
					bad = "short-record-changed"
					break
				}
				pos++
				continue
			}
			covered := 0
			first := true
			for covered < len(r.Seq) {
				if pos >= len(ordered) {
					bad = "lost"
					break
				}
				fs, okf := byArr[ordered[pos]]
				if !okf || !strings.HasPrefix(ordered[pos], r.ID) {
					bad = "lost"
					break
				}
				start := covered
				if !first {
					start = covered - overlap
				}
				if start < 0 || start+len(fs) > len(r.Seq) || r.Seq[start:start+len(fs)] != fs {
					bad = "fragment-content"
					break
				}
				covered = start + len(fs)
				first = false
				pos++
			}
			if bad != "" {
				break
			}
		}
		if bad == "" && pos != len(ordered) {
			bad = "extra"
		}
		if bad != "" {
			det["records"] = p.recs
			det["fragments"] = frags
			c.Violate(bad, "IFragments: the fragments do not cover every long record in order with the requested overlap (short records unchanged)", det)
		}
	}
}

// ---------------------------------------------------------------- merge / load / tee / batchover / files

func runMerge(c *core.Ctx) {
	size := []int{1, 2, 100}[c.Rng.Intn(3)]
	for _, p := range plans(c, "r") {
		hasEmpty := false
		ne := 0
		for _, s := range p.sizes {
			if s == 0 {
				hasEmpty = true
			} else {
				ne++
			}
		}
		type mobs struct {
			Obs    []itx.Obs
			Counts []int
		}
		var o mobs
		label := "merge:no-empty-batch"
		if hasEmpty {
			label = "merge:empty-batch"
		}
		c.Risk(label)
		ok := c.Bounded(label, wd, func() {
			out := itx.Feed(p.parts, p.perm).IMergeSequenceBatch("NA", obiseq.StatsOnDescriptions{}, size)
			for out.Next() {
				b := out.Get()
				ob := itx.Obs{Order: b.Order()}
				for _, s := range b.Slice() {
					ob.IDs = append(ob.IDs, s.Id())
					o.Counts = append(o.Counts, s.Count())
				}
				o.Obs = append(o.Obs, ob)
			}
		})
		if !ok {
			return
		}
		p.key(c, "merge", size)
		if n := itx.Numbering(o.Obs); n != "" {
			c.Violate("numbering:"+n, "IMergeSequenceBatch: output batches are not numbered 0..m-1", p.detail(o))
			continue
		}
		if len(o.Counts) != ne || itx.Sum(o.Counts) != len(p.recs) {
			c.Violate("count", "IMergeSequenceBatch: not one merged record per non-empty input batch with the summed count", p.detail(o))
		}
	}
}

func runLoad(c *core.Ctx) {
	for _, p := range plans(c, "r") {
		var obs []itx.Obs
		label := "completefile:" + shapeClass(p.sizes)
		c.Risk(label)
		if !c.Bounded(label, wd, func() { obs = itx.Drain(itx.Feed(p.parts, p.perm).CompleteFileIterator()) }) {
			return
		}
		p.key(c, "completefile")
		want := 1
		if len(p.recs) == 0 {
			want = 0
		}
		if len(obs) != want || (want == 1 && obs[0].Order != 0) {
			c.Violate("numbering", "CompleteFileIterator must deliver a single batch 0 (none for an empty input)", p.detail(obs))
			continue
		}
		ordered := itx.OutOfOrder(p.perm) == 0
		if d := itx.CompareMultiset(itx.InArrival(obs), itx.IDs(p.recs), false); d != "" {
			c.Violate(d, "CompleteFileIterator: records lost or duplicated", p.detail(obs))
		} else if ordered {
			if d := itx.CompareSeq(itx.InArrival(obs), itx.IDs(p.recs)); d != "" {
				c.Violate(d, "CompleteFileIterator: records reordered although the batches arrived in order", p.detail(obs))
			}
		}
	}
}

func runTee(c *core.Ctx) {
	for _, p := range plans(c, "r") {
		var a, b []itx.Obs
		label := "copytee:" + shapeClass(p.sizes)
		c.Risk(label)
		ok := c.Bounded(label, wd, func() {
			x, y := itx.Feed(p.parts, p.perm).CopyTee()
			var wg sync.WaitGroup
			wg.Add(2)
			go func() { defer wg.Done(); a = itx.Drain(x) }()
			go func() { defer wg.Done(); b = itx.Drain(y) }()
			wg.Wait()
		})
		if !ok {
			return
		}
		p.key(c, "copytee")
		for _, obs := range [][]itx.Obs{a, b} {
			if !itx.SameNumbers(obs, numbers(len(p.parts))) {
				c.Violate("numbering", "CopyTee: an output does not carry the batch numbers of the input", p.detail(map[string]any{"first": a, "second": b}))
				break
			}
			if d := itx.CompareSeq(itx.ByNumber(obs), itx.IDs(p.recs)); d != "" {
				c.Violate(d, "CopyTee: records lost, duplicated or reordered", p.detail(map[string]any{"first": a, "second": b}))
				break
			}
		}
	}
}

// ---------------------------------------------------------------- LimitMemory

// limitWaitBound: LimitMemory gives up waiting for memory after 10^4 scheduler yields and delivers
// the batch anyway. The monitor counts the waiting steps of the current batch (hook event
// "limitmemory.wait") and decides "never delivers" on a count of logical steps, 20 times that figure,
// not on a clock; the spinning goroutine is then stopped from inside the hook.
const limitWaitBound = 200000

func runLimitMemory(c *core.Ctx) {
	for i, p := range plans(c, "r") {
		// fraction 1: the limit is never exceeded. fraction 1e-12: it always is, for ever (the
		// situation of a host whose memory stays full): every batch must still be delivered
		pressure := i%3 == 0 && len(p.parts) <= 5
		fraction := 1.0
		if pressure {
			fraction = 1e-12
		}
		var obs []itx.Obs
		label := fmt.Sprintf("limitmemory:%v:%s", pressure, shapeClass(p.sizes))
		c.Risk(label)
		stuck := make(chan struct{})
		var waits, maxWait int64
		obiverif.SetEventHook(func(site string, v []int) {
			if site != "limitmemory.wait" || len(v) == 0 {
				return
			}
			waits++
			if int64(v[0]) > maxWait {
				maxWait = int64(v[0])
			}
			if v[0] > limitWaitBound {
				close(stuck)
				runtime.Goexit()
			}
		})
		isStuck := false
		ok := c.Bounded(label, 3*wd, func() {
			done := make(chan struct{})
			go func() { obs = itx.Drain(itx.Feed(p.parts, p.perm).LimitMemory(fraction)); close(done) }()
			select {
			case <-done:
			case <-stuck:
				isStuck = true
			}
		})
		obiverif.SetEventHook(nil)
		if !ok {
			return
		}
		p.key(c, "limitmemory", pressure)
		c.Count("limitmemory_wait_steps_observed", int(waits))
		if isStuck {
			c.Violate("never-delivers:persistent-pressure", fmt.Sprintf("LimitMemory is still waiting on the same batch after %d waiting steps: under persistent memory pressure the stream never ends", limitWaitBound), p.detail(nil))
			return
		}
		if pressure && len(p.parts) > 0 && maxWait == 0 {
			c.Inconclusive("the memory-pressure branch of LimitMemory was not reached")
		}
		p.sample(c, "LimitMemory", obs)
		if !itx.SameNumbers(obs, numbers(len(p.parts))) {
			c.Violate("numbering", "LimitMemory: the output does not carry the batch numbers of the input", p.detail(obs))
			continue
		}
		if d := itx.CompareSeq(itx.ByNumber(obs), itx.IDs(p.recs)); d != "" {
			c.Violate(d, "LimitMemory: records lost, duplicated or reordered", p.detail(obs))
			continue
		}
	}
}

func runBatchOver(c *core.Ctx) {
	for rep := 0; rep < c.Pick(8, 30); rep++ {
		n := []int{0, 1, 2, 5, 9, 17}[c.Rng.Intn(6)]
		if c.Idx%4 == 0 && rep == 0 {
			n = 0
		}
		size := 1 + c.Rng.Intn(6)
		recs := itx.MkRecs(c.Rng, "r", n)
		data := obiseq.MakeBioSequenceSlice(0)
		for _, r := range recs {
			data = append(data, r.Bio())
		}
		var obs []itx.Obs
		label := "ibatchover:non-empty-data"
		if n == 0 {
			label = "ibatchover:empty-data"
		}
		c.Risk(label)
		if !c.Bounded(label, wd, func() { obs = itx.Drain(obiiter.IBatchOver("src", data, size)) }) {
			return
		}
		c.Count("evaluations", 1)
		c.Count("histories.ibatchover", 1)
		c.Key("ibatchover/%d/%d", n, size)
		p := plan{recs: recs, sizes: []int{n}}
		checkRebatched(c, "IBatchOver", p, obs, itx.IDs(recs), size, true)
	}
}

func runFiles(c *core.Ctx) {
	for rep := 0; rep < c.Pick(6, 20); rep++ {
		m := multiPlans(c)
		nread := 1 + c.Rng.Intn(3)
		names := make([]string, len(m.plans))
		byName := map[string]plan{}
		for i, p := range m.plans {
			names[i] = fmt.Sprintf("file%d", i)
			byName[names[i]] = p
		}
		reader := func(name string, _ ...obiformats.WithOption) (obiiter.IBioSequence, error) {
			p := byName[name]
			// a real file reader numbers its batches 0..m-1 but, because of its parallel
			// header-parsing stage, delivers them in any order
			return itx.Feed(p.parts, p.perm), nil
		}
		var obs []itx.Obs
		label := fmt.Sprintf("readfiles:%s", m.class())
		c.Risk(label)
		if !c.Bounded(label, wd, func() { obs = itx.Drain(obiformats.ReadSequencesBatchFromFiles(names, reader, nread)) }) {
			return
		}
		c.Count("evaluations", 1)
		c.Count("histories.readfiles", 1)
		c.Key("readfiles/%d/%v", nread, m.detail(nil))
		var all []string
		nb := 0
		for _, p := range m.plans {
			all = append(all, itx.IDs(p.recs)...)
			nb += len(p.parts)
		}
		det := m.detail(obs)
		det["concurrent_readers"] = nread
		if len(obs) != nb {
			c.Violate("batch-count", "ReadSequencesBatchFromFiles: not every batch of every file is delivered", det)
			continue
		}
		if n := itx.Numbering(obs); n != "" {
			c.Violate("numbering:"+n, "ReadSequencesBatchFromFiles: output batches are not numbered 0..m-1", det)
			continue
		}
		if nread == 1 {
			if d := itx.CompareSeq(itx.ByNumber(obs), all); d != "" {
				c.Violate(d, "ReadSequencesBatchFromFiles (one reader): the files are not delivered one after the other in order", det)
			}
		} else if d := itx.CompareMultiset(itx.ByNumber(obs), all, false); d != "" {
			c.Violate(d, "ReadSequencesBatchFromFiles: records lost or duplicated", det)
		}
	}
}

// ---------------------------------------------------------------- composition (as the commands do)

func runCompose(c *core.Ctx) {
	obiverif.SetYield(uint64(c.Seed)*1000+uint64(c.Idx), 300, 200)
	defer obiverif.SetYield(0, 0, 0)
	nw := []int{1, 2, 4, 8}[c.Idx%4]
	size := []int{1, 2, 7}[c.Rng.Intn(3)]
	kinds := workerKinds()
	for _, p := range plans(c, "r") {
		wk := kinds[c.Rng.Intn(3)] // identity, drop-k0, emit-two
		var want []string
		for _, r := range p.recs {
			if r.K != 1 {
				want = append(want, wk.out(r)...)
			}
		}
		var obs []itx.Obs
		label := "compose:" + shapeClass(p.sizes)
		c.Risk(label)
		ok := c.Bounded(label, wd, func() {
			it := itx.Feed(p.parts, p.perm).
				MakeIWorker(func(s *obiseq.BioSequence) (obiseq.BioSequenceSlice, error) { return obiseq.BioSequenceSlice{s}, nil }, false, nw). // header-parser like stage
				MakeIWorker(wk.w, false, nw).
				FilterOn(predK, size, nw).
				Rebatch(size + 1).
				SortBatches()
			obs = itx.Drain(it)
		})
		if !ok {
			return
		}
		p.key(c, "compose", nw, size, wk.name)
		p.sample(c, "worker|worker|FilterOn|Rebatch|SortBatches", obs)
		for i, o := range obs {
			if o.Order != i {
				c.Violate("arrival-not-increasing", "composition ending with SortBatches delivers batches out of order", p.detail(obs))
				break
			}
		}
		checkRebatched(c, "composition", p, obs, want, size+1, true)
	}
}

func init() {
	log.SetLevel(log.ErrorLevel)
	n := func(q, t int) func(string) int { return core.Const(q, t*4) }
	core.Register(&core.Property{
		ID:    "C03",
		Level: "exploration",
		Rule: "each history = one real obiiter combinator (or composition, or end-to-end command) fed with a partition of uniquely identified records into batches (sizes from {0,1,2,3,5}, 0..6 batches exhaustively permuted up to 4 (quick) / 5 (thorough) batches, random permutations up to 38) pushed in a chosen arrival order, 1..8 workers; the batches observed at the output iterator are checked against the per-combinator specification (numbering 0..m-1, exactly-once, order, closure). " +
			"Added later: LimitMemory under persistent pressure (step-count monitor), directories with sub-directories and symbolic links as input, a named pipe among several input files, -o to an existing longer file, obiconvert with its standard error on a pseudo terminal (single and paired). One of several input files given as a multi-member gzip file. " +
			"distinct_nontrivial = distinct (combinator, partition, arrival order, parameters) with at least one out-of-order arrival or at least one empty batch / empty stream",
		Assume: []string{"the specification table of DESIGN.md Appendix A.1", "termination is decided in the bounded form: output closed after the last input batch was pushed; a dead-lock is a goroutine dump in which every workload/library goroutine is blocked"},
		Subs: []core.Sub{
			{Name: "sort", N: n(70, 280), Run: runSort},
			{Name: "rebatch", N: n(70, 280), Run: runRebatch},
			{Name: "filterempty", N: n(70, 280), Run: runFilterEmpty},
			{Name: "workers", N: n(96, 480), Run: runWorkers, Race: true, NRace: n(24, 96)},
			{Name: "filteron", N: n(70, 280), Run: runFilterOn, Race: true, NRace: n(12, 48)},
			{Name: "divideon", N: n(70, 280), Run: runDivideOn, Race: true, NRace: n(12, 48)},
			{Name: "distribute", N: n(70, 280), Run: runDistribute, Race: true, NRace: n(12, 48)},
			{Name: "poolconcat", N: n(60, 240), Run: runPoolConcat, Race: true, NRace: n(12, 48)},
			{Name: "paired", N: n(70, 280), Run: runPaired, Race: true, NRace: n(12, 48)},
			{Name: "fragments", N: n(70, 280), Run: runFragments, Race: true, NRace: n(12, 48)},
			{Name: "merge", N: n(42, 140), Run: runMerge},
			{Name: "completefile", N: n(42, 140), Run: runLoad},
			{Name: "copytee", N: n(42, 140), Run: runTee},
			{Name: "limitmemory", N: n(21, 84), Run: runLimitMemory},
			{Name: "ibatchover", N: n(16, 64), Run: runBatchOver},
			{Name: "readfiles", N: n(32, 128), Run: runFiles, Race: true, NRace: n(12, 48)},
			{Name: "compose", N: n(96, 480), Run: runCompose, Race: true, NRace: n(24, 96)},
			{Name: "e2e", N: n(24, 120), Run: runE2E},
			{Name: "e2e-files", N: n(16, 80), Run: runE2EFiles},
			{Name: "e2e-dir", N: n(12, 30), Run: runE2EDir},
			{Name: "e2e-tty", N: n(8, 16), Run: runE2ETty},
			{Name: "e2e-mates-unequal", N: n(16, 96), Run: runE2EMatesUnequal},
		},
		Cmds:          []string{"obiconvert", "obigrep", "obiannotate"},
		MinNontrivial: 500,
		RaceFiles:     []string{"pkg/obiiter/", "pkg/obiseq/worker.go", "pkg/obiformats/batch_of_files_reader.go", "pkg/obitools/obiconvert/"},
	})
}
