package c03

import (
	"fmt"
	"io"
	"os"
	"os/exec"
	"path/filepath"
	"strings"
	"syscall"
	"time"
	"unsafe"

	"verifh/cmdx"
	"verifh/core"
	"verifh/gen"
	"verifh/itx"
)

// runE2E: obiconvert / obigrep -l / obiannotate --length over (max-cpu x batch-size):
// the ids on stdout are the selected ids in input order and the process exits.
func runE2E(c *core.Ctx) {
	n := []int{0, 1, 2, 3, 17, 120, 700}[c.Idx%7]
	recs := itx.MkRecs(c.Rng, "r", n)
	var sb strings.Builder
	for _, r := range recs {
		fmt.Fprintf(&sb, ">%s {\"k\":%d}\n%s\n", r.ID, r.K, r.Seq)
	}
	in := filepath.Join(c.Dir, fmt.Sprintf("e2e-%d.fasta", c.Idx))
	os.WriteFile(in, []byte(sb.String()), 0o644)
	defer os.Remove(in)
	minLen := 10 + c.Rng.Intn(8)
	type cmdSpec struct {
		name string
		args []string
		keep func(r itx.Rec) bool
	}
	specs := []cmdSpec{
		{"obiconvert", nil, func(itx.Rec) bool { return true }},
		{"obigrep", []string{"-l", fmt.Sprint(minLen)}, func(r itx.Rec) bool { return len(r.Seq) >= minLen }},
		{"obiannotate", []string{"--length"}, func(itx.Rec) bool { return true }},
	}
	spec := specs[(c.Idx/7)%3]
	var want []string
	for _, r := range recs {
		if spec.keep(r) {
			want = append(want, r.ID)
		}
	}
	cpus := []int{1, 2, 3, 8, 32}
	sizes := []int{1, 2, 7, max(1, n)}
	for _, cpu := range cpus {
		for _, bs := range sizes {
			if n > 100 && bs < 7 && c.Quick() {
				continue
			}
			args := append([]string{"--max-cpu", fmt.Sprint(cpu), "--batch-size", fmt.Sprint(bs), "--no-progressbar"}, spec.args...)
			// one run in two writes to -o FILE, where FILE exists already and holds more records (the
			// result of an earlier, less selective run): the file must hold the output and nothing else
			toFile := (cpu+bs)%2 == 0
			outPath := filepath.Join(c.Dir, fmt.Sprintf("e2e-%d.out.fasta", c.Idx))
			if toFile {
				var stale strings.Builder
				for i := 0; i < n+40; i++ {
					fmt.Fprintf(&stale, ">stale_%d {\"k\":0}\nacgtacgtacgtacgtacgtacgt\n", i)
				}
				os.WriteFile(outPath, []byte(stale.String()), 0o644)
				args = append(args, "-o", outPath)
			}
			args = append(args, in)
			res := cmdx.Run(filepath.Join(c.BinDir, spec.name), args, cmdx.Opt{Env: []string{fmt.Sprintf("OBIVERIF_YIELD=%d:200:300", c.Idx*100+cpu)}})
			if toFile {
				res.Stdout, _ = os.ReadFile(outPath)
				os.Remove(outPath)
			}
			c.Count("evaluations", 1)
			c.Count("command_runs", 1)
			det := map[string]any{"command": spec.name, "args": args, "records": n, "exit": res.Exit, "stderr": cmdx.Tail(res.Stderr, 1500), "output_to_existing_file": toFile}
			if res.TimedOut {
				if res.Deadlock {
					c.Violate("deadlock:"+spec.name, "the command never terminates (dead-lock in the goroutine dump)", det)
				} else {
					c.Inconclusive("command watchdog fired without dead-lock proof: " + spec.name)
				}
				continue
			}
			if res.Exit != 0 {
				cls := "records"
				if n == 0 {
					cls = "empty-input"
				}
				c.Violate(fmt.Sprintf("exit:%s:%s", spec.name, cls), "the command fails on a well-formed input", det)
				continue
			}
			got, err := gen.ParseFasta(res.Stdout)
			if err != nil {
				det["stdout"] = cmdx.Tail(res.Stdout, 1000)
				c.Violate("output-unparsable:"+spec.name, "the output is not FASTA", det)
				continue
			}
			if d := itx.CompareSeq(gen.IDsOf(got), want); d != "" {
				det["got_ids"] = gen.IDsOf(got)
				det["want_ids"] = want
				c.Violate(d+":"+spec.name, "the command does not output exactly the selected records in input order", det)
			}
			if n > bs {
				c.Key("e2e/%s/%d/%d/%d/%v", spec.name, n, cpu, bs, toFile)
			}
		}
	}
	c.Sample(map[string]any{"command": spec.name, "args": spec.args, "records": n, "max_cpu": cpus, "batch_size": sizes})
}

// runE2EFiles: several input files (some of them empty) given to one command:
// the records of the files come out one file after the other, in order.
func runE2EFiles(c *core.Ctx) {
	nf := 2 + c.Rng.Intn(3)
	var paths, texts []string
	var want []string
	var shape []int
	for f := 0; f < nf; f++ {
		n := []int{0, 0, 1, 3, 40, 300}[c.Rng.Intn(6)]
		if f == 0 && c.Idx%2 == 0 {
			n = 0 // empty first file
		}
		shape = append(shape, n)
		recs := itx.MkRecs(c.Rng, fmt.Sprintf("f%d_", f), n)
		var sb strings.Builder
		for _, r := range recs {
			fmt.Fprintf(&sb, ">%s {\"k\":%d}\n%s\n", r.ID, r.K, r.Seq)
			want = append(want, r.ID)
		}
		// the files are read in the order of the command line, which is not the order of their names
		p := filepath.Join(c.Dir, fmt.Sprintf("mf-%d-%c-%d.fasta", c.Idx, 'a'+rune(c.Rng.Intn(26)), f))
		os.WriteFile(p, []byte(sb.String()), 0o644)
		defer os.Remove(p)
		if c.Idx%3 == 2 && n >= 3 && c.Rng.Intn(2) == 0 {
			// this file is given as a gzip file made of several members (cat a.gz b.gz, bgzip)
			text := []byte(sb.String())
			a := 1 + c.Rng.Intn(len(text)-2)
			if comp, _, err := gen.CompressMembers("gzip", [][]byte{text[:a], text[a:]}); err == nil {
				p += ".gz"
				os.WriteFile(p, comp, 0o644)
				defer os.Remove(p)
				c.Count("multi_member_gzip_inputs", 1)
			}
		}
		paths = append(paths, p)
		texts = append(texts, sb.String())
	}
	// one case in three: one of the files is a named pipe filled by another process
	pipeAt := -1
	if c.Idx%3 == 1 {
		pipeAt = c.Rng.Intn(nf)
	}
	for _, cfg := range [][2]int{{1, 100}, {4, 3}, {16, 1}} {
		runPaths := append([]string{}, paths...)
		if pipeAt >= 0 {
			fifo := paths[pipeAt] + ".fifo.fasta"
			os.Remove(fifo)
			if err := syscall.Mkfifo(fifo, 0o600); err == nil {
				go func(text string) {
					if f, err := os.OpenFile(fifo, os.O_WRONLY, 0); err == nil {
						f.WriteString(text)
						f.Close()
					}
				}(texts[pipeAt])
				runPaths[pipeAt] = fifo
				defer os.Remove(fifo)
			}
		}
		args := append([]string{"--no-progressbar", "--max-cpu", fmt.Sprint(cfg[0]), "--batch-size", fmt.Sprint(cfg[1])}, runPaths...)
		res := cmdx.Run(filepath.Join(c.BinDir, "obiconvert"), args, cmdx.Opt{})
		if pipeAt >= 0 {
			if f, err := os.OpenFile(runPaths[pipeAt], os.O_RDONLY|syscall.O_NONBLOCK, 0); err == nil {
				f.Close() // unblocks the feeder if the command never opened the pipe
			}
		}
		c.Count("evaluations", 1)
		c.Count("command_runs", 1)
		det := map[string]any{"files_record_counts": shape, "config": cfg, "named_pipe_at": pipeAt, "exit": res.Exit, "stderr": cmdx.Diag(res.Stderr, 1500)}
		cls := "no-empty-file"
		for i, n := range shape {
			if n == 0 {
				cls = "empty-file"
				if i == 0 {
					cls = "empty-first-file"
					break
				}
			}
		}
		if res.TimedOut {
			if res.Deadlock {
				c.Violate("files:deadlock:"+cls, "obiconvert on several files never terminates", det)
			} else {
				c.Inconclusive("watchdog on obiconvert (several files)")
			}
			continue
		}
		if res.Exit != 0 {
			c.Violate("files:exit:"+cls, "obiconvert fails on several well-formed files", det)
			continue
		}
		got, err := gen.ParseFasta(res.Stdout)
		if err != nil {
			c.Violate("files:output-unparsable", "the output is not FASTA", det)
			continue
		}
		c.Key("files/%v/%v/%d", shape, cfg, pipeAt)
		if d := itx.CompareSeq(gen.IDsOf(got), want); d != "" {
			det["got"] = len(got)
			det["want"] = len(want)
			c.Violate("files:"+d+":"+cls, "the records of several input files are not output exactly once, file after file, in order", det)
		}
	}
	c.Sample(map[string]any{"files_record_counts": shape})
}

// runE2EDir: a directory given as input: every sequence file of the tree (real sub-directories,
// symbolic links to directories and to files) is read exactly once; files without a sequence
// extension are ignored.
func runE2EDir(c *core.Ctx) {
	root := filepath.Join(c.Dir, fmt.Sprintf("dir-%d", c.Idx))
	in := filepath.Join(root, "in")
	out := filepath.Join(root, "outside")
	os.MkdirAll(filepath.Join(in, "m_sub", "deeper"), 0o755)
	os.MkdirAll(filepath.Join(out, "linked_dir"), 0o755)
	defer os.RemoveAll(root)
	perFile := map[string][]string{}
	var want []string
	mk := func(path, tag string, n int) {
		recs := itx.MkRecs(c.Rng, tag+"_", n)
		var sb strings.Builder
		for _, r := range recs {
			fmt.Fprintf(&sb, ">%s {\"k\":%d}\n%s\n", r.ID, r.K, r.Seq)
			perFile[tag] = append(perFile[tag], r.ID)
			want = append(want, r.ID)
		}
		os.WriteFile(path, []byte(sb.String()), 0o644)
	}
	n := func() int { return []int{1, 2, 5, 40}[c.Rng.Intn(4)] }
	// names chosen so that links sort before, between and after plain files
	mk(filepath.Join(in, "a_first.fasta"), "afirst", n())
	mk(filepath.Join(out, "linked_dir", "x_in_linked_dir.fasta"), "linkeddir", n())
	mk(filepath.Join(in, "m_sub", "s_in_sub.fasta"), "sub", n())
	mk(filepath.Join(in, "m_sub", "deeper", "d_deeper.fasta"), "deeper", n())
	mk(filepath.Join(out, "target_of_link.fasta"), "linkedfile", n())
	mk(filepath.Join(in, "z_last.fasta"), "zlast", n())
	os.WriteFile(filepath.Join(in, "notes.txt"), []byte(">not_a_sequence_file\nacgt\n"), 0o644)
	linkDirName := []string{"0_link_dir", "k_link_dir", "zz_link_dir"}[c.Idx%3]
	linkFileName := []string{"b_link.fasta", "y_link.fasta"}[(c.Idx/3)%2]
	if err := os.Symlink(filepath.Join(out, "linked_dir"), filepath.Join(in, linkDirName)); err != nil {
		c.Inconclusive("cannot create symbolic links here")
		return
	}
	os.Symlink(filepath.Join(out, "target_of_link.fasta"), filepath.Join(in, linkFileName))
	for _, cfg := range [][2]int{{1, 100}, {4, 3}, {16, 1}} {
		args := []string{"--no-progressbar", "--max-cpu", fmt.Sprint(cfg[0]), "--batch-size", fmt.Sprint(cfg[1]), in}
		res := cmdx.Run(filepath.Join(c.BinDir, "obiconvert"), args, cmdx.Opt{})
		c.Count("evaluations", 1)
		c.Count("command_runs", 1)
		det := map[string]any{"link_to_directory": linkDirName, "link_to_file": linkFileName, "files": perFile, "config": cfg, "exit": res.Exit, "stderr": cmdx.Diag(res.Stderr, 1500)}
		if res.TimedOut {
			if res.Deadlock {
				c.Violate("dir:deadlock", "obiconvert on a directory never terminates", det)
			} else {
				c.Inconclusive("watchdog on obiconvert (directory)")
			}
			continue
		}
		if res.Exit != 0 {
			c.Violate("dir:exit", "obiconvert fails on a directory of well-formed files", det)
			continue
		}
		got, err := gen.ParseFasta(res.Stdout)
		if err != nil {
			c.Violate("dir:output-unparsable", "the output is not FASTA", det)
			continue
		}
		c.Key("dir/%s/%s/%v", linkDirName, linkFileName, cfg)
		ids := gen.IDsOf(got)
		seen := map[string]int{}
		for _, id := range ids {
			seen[id]++
		}
		lost, dup, extra := 0, 0, 0
		for _, w := range want {
			switch {
			case seen[w] == 0:
				lost++
			case seen[w] > 1:
				dup++
			}
		}
		if len(ids) > len(want)+dup {
			extra = len(ids) - len(want)
		}
		if lost+dup+extra > 0 {
			det["lost"], det["duplicated"], det["extra"], det["got_ids"] = lost, dup, extra, ids
			cause := "dir:lost"
			if lost == 0 && dup > 0 {
				cause = "dir:duplicated"
			} else if lost == 0 {
				cause = "dir:extra"
			}
			c.Violate(cause, "the sequence files of an input directory (sub-directories and symbolic links included) are not all read exactly once", det)
			continue
		}
		// inside a file the order of the records is kept
		pos := map[string]int{}
		for i, id := range ids {
			pos[id] = i
		}
		for tag, l := range perFile {
			for i := 1; i < len(l); i++ {
				if pos[l[i]] < pos[l[i-1]] {
					det["file"] = tag
					c.Violate("dir:order-inside-file", "the records of one file of the directory come out in another order", det)
					break
				}
			}
		}
	}
	c.Sample(map[string]any{"link_to_directory": linkDirName, "link_to_file": linkFileName, "files": len(perFile)})
}

// openPty opens a pseudo terminal pair (Linux).
func openPty() (master, slave *os.File, err error) {
	master, err = os.OpenFile("/dev/ptmx", os.O_RDWR, 0)
	if err != nil {
		return nil, nil, err
	}
	var n uint32
	var unlock int32
	if _, _, e := syscall.Syscall(syscall.SYS_IOCTL, master.Fd(), syscall.TIOCSPTLCK, uintptr(unsafe.Pointer(&unlock))); e != 0 {
		master.Close()
		return nil, nil, e
	}
	if _, _, e := syscall.Syscall(syscall.SYS_IOCTL, master.Fd(), syscall.TIOCGPTN, uintptr(unsafe.Pointer(&n))); e != 0 {
		master.Close()
		return nil, nil, e
	}
	slave, err = os.OpenFile(fmt.Sprintf("/dev/pts/%d", n), os.O_RDWR|syscall.O_NOCTTY, 0)
	if err != nil {
		master.Close()
		return nil, nil, err
	}
	return master, slave, nil
}

// runE2ETty: the commands run by a user at a terminal: the standard error is a (pseudo) terminal and
// the progress bar is on, which inserts one more stage in the pipeline. Single and paired inputs:
// every record (and every mate) comes out once, in order.
func runE2ETty(c *core.Ctx) {
	n := []int{3, 40, 700, 2500}[c.Idx%4]
	paired := (c.Idx/4)%2 == 1
	dir := filepath.Join(c.Dir, fmt.Sprintf("tty-%d", c.Idx))
	os.MkdirAll(dir, 0o755)
	defer os.RemoveAll(dir)
	recs := itx.MkRecs(c.Rng, "r", n)
	var f, r strings.Builder
	var want []string
	for _, x := range recs {
		q := strings.Repeat("I", len(x.Seq))
		fmt.Fprintf(&f, "@%s {\"k\":%d}\n%s\n+\n%s\n", x.ID, x.K, x.Seq, q)
		fmt.Fprintf(&r, "@%s {\"k\":%d}\n%s\n+\n%s\n", x.ID, x.K, x.Seq, q)
		want = append(want, x.ID)
	}
	fwd, rev, out := filepath.Join(dir, "fwd.fastq"), filepath.Join(dir, "rev.fastq"), filepath.Join(dir, "out.fastq")
	os.WriteFile(fwd, []byte(f.String()), 0o644)
	os.WriteFile(rev, []byte(r.String()), 0o644)
	master, slave, err := openPty()
	if err != nil {
		c.Inconclusive("no pseudo terminal available: " + err.Error())
		return
	}
	defer master.Close()
	go io.Copy(io.Discard, master)
	args := []string{"--max-cpu", fmt.Sprint([]int{1, 2, 8}[c.Rng.Intn(3)]), "--batch-size", fmt.Sprint([]int{1, 20, 1000}[c.Rng.Intn(3)]), "-o", out}
	if paired {
		args = append(args, "--paired-with", rev)
	}
	args = append(args, fwd)
	cmd := exec.Command(filepath.Join(c.BinDir, "obiconvert"), args...)
	cmd.Stderr = slave
	done := make(chan error, 1)
	if err := cmd.Start(); err != nil {
		slave.Close()
		c.Inconclusive("cannot start obiconvert")
		return
	}
	slave.Close()
	go func() { done <- cmd.Wait() }()
	var werr error
	select {
	case werr = <-done:
	case <-time.After(120 * time.Second):
		cmd.Process.Kill()
		<-done
		c.Inconclusive("watchdog on obiconvert at a terminal")
		return
	}
	c.Count("evaluations", 1)
	c.Count("command_runs", 1)
	det := map[string]any{"args": args, "records": n, "paired": paired, "stderr": "a pseudo terminal (progress bar on)"}
	if werr != nil {
		det["error"] = werr.Error()
		c.Violate("tty:exit", "obiconvert fails when its standard error is a terminal", det)
		return
	}
	c.Key("tty/%d/%v", n, paired)
	files := map[string]string{"single": out}
	if paired {
		files = map[string]string{"forward": filepath.Join(dir, "out_R1.fastq"), "reverse": filepath.Join(dir, "out_R2.fastq")}
	}
	for what, p := range files {
		b, err := os.ReadFile(p)
		if err != nil {
			det["missing_file"] = filepath.Base(p)
			c.Violate("tty:file-missing:"+what, "an output file is not written when the standard error is a terminal (every mate is lost)", det)
			return
		}
		got, err := gen.ParseFastq(b)
		if err != nil {
			c.Violate("tty:output-unparsable", "the output is not FASTQ", det)
			return
		}
		if d := itx.CompareSeq(gen.IDsOf(got), want); d != "" {
			det["file"], det["got"], det["want"] = filepath.Base(p), len(got), len(want)
			c.Violate("tty:"+d+":"+what, "obiconvert at a terminal does not output every record once, in order", det)
			return
		}
	}
	if c.Idx < 2 {
		c.Sample(det)
	}
}

// runE2EMatesUnequal: --paired-with given a mate file that does not hold the same number of reads as the
// forward file (a truncated download, the wrong lane). Whatever the command makes of it, it terminates:
// the reads of the longer file that find no partner must not leave a reader blocked for ever.
func runE2EMatesUnequal(c *core.Ctx) {
	bs := []int{1, 2, 5, 50}[c.Idx%4]
	n := bs * (1 + c.Rng.Intn(4))
	if c.Idx%8 >= 4 {
		n += c.Rng.Intn(bs) // the last forward batch is partial
	}
	// the longer file holds 1-3 complete batches more, or only a few reads more
	extra := bs * (1 + c.Rng.Intn(3))
	if c.Idx%3 == 2 {
		extra = 1 + c.Rng.Intn(bs)
	}
	mateLonger := (c.Idx/2)%2 == 0
	nf, nr := n, n+extra
	if !mateLonger {
		nf, nr = n+extra, n
	}
	dir := filepath.Join(c.Dir, fmt.Sprintf("uneq-%d", c.Idx))
	os.MkdirAll(dir, 0o755)
	defer os.RemoveAll(dir)
	recs := itx.MkRecs(c.Rng, "r", max(nf, nr))
	var f, r strings.Builder
	for i, x := range recs {
		if i < nf {
			fmt.Fprintf(&f, ">%s {\"k\":%d}\n%s\n", x.ID, x.K, x.Seq)
		}
		if i < nr {
			fmt.Fprintf(&r, ">%s {\"k\":%d}\n%s\n", x.ID, x.K, x.Seq)
		}
	}
	fwd, rev, out := filepath.Join(dir, "fwd.fasta"), filepath.Join(dir, "rev.fasta"), filepath.Join(dir, "out.fasta")
	os.WriteFile(fwd, []byte(f.String()), 0o644)
	os.WriteFile(rev, []byte(r.String()), 0o644)
	cpu := []int{1, 2, 8}[c.Rng.Intn(3)]
	args := []string{"--no-progressbar", "--max-cpu", fmt.Sprint(cpu), "--batch-size", fmt.Sprint(bs), "-o", out, "--paired-with", rev, fwd}
	res := cmdx.Run(filepath.Join(c.BinDir, "obiconvert"), args, cmdx.Opt{Timeout: 40 * time.Second})
	c.Count("evaluations", 1)
	c.Count("command_runs", 1)
	cls := "forward-longer"
	if mateLonger {
		cls = "mate-longer"
	}
	if extra%bs == 0 {
		cls += ":whole-batches"
	}
	c.Key("uneq/%s/%d/%d", cls, bs, cpu)
	det := map[string]any{"forward_reads": nf, "mate_reads": nr, "batch_size": bs, "max_cpu": cpu, "exit": res.Exit, "stderr": cmdx.Diag(res.Stderr, 1200)}
	if c.Idx < 2 {
		c.Sample(det)
	}
	if res.TimedOut {
		if res.Deadlock {
			det["dump"] = cmdx.Tail(res.Stderr, 2500)
			c.Violate("mates-unequal:deadlock:"+cls, "obiconvert --paired-with never terminates when the two files do not hold the same number of reads", det)
		} else {
			c.Inconclusive("watchdog on obiconvert --paired-with (unequal files)")
		}
		return
	}
	if res.Exit == 0 {
		c.Count("unequal_mate_files_accepted", 1)
	} else {
		c.Count("unequal_mate_files_refused", 1)
	}
}
