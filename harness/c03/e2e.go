package c03

import (
	"fmt"
	"os"
	"path/filepath"
	"strings"

	"verifh/cmdx"
	"verifh/core"
	"verifh/gen"
	"verifh/itx"
)

// runE2E: obiconvert / obigrep -l / obiannotate --length over (max-cpu x batch-size):
// the ids on stdout are the selected ids in input order and the process exits.
func runE2E(c *core.Ctx) {
	n := []int{0, 1, 2, 3, 17, 120, 700}[c.Idx%7]
	recs := itx.MkRecs(c.Rng, "r", n)
	var sb strings.Builder
	for _, r := range recs {
		fmt.Fprintf(&sb, ">%s {\"k\":%d}\n%s\n", r.ID, r.K, r.Seq)
	}
	in := filepath.Join(c.Dir, fmt.Sprintf("e2e-%d.fasta", c.Idx))
	os.WriteFile(in, []byte(sb.String()), 0o644)
	defer os.Remove(in)
	minLen := 10 + c.Rng.Intn(8)
	type cmdSpec struct {
		name string
		args []string
		keep func(r itx.Rec) bool
	}
	specs := []cmdSpec{
		{"obiconvert", nil, func(itx.Rec) bool { return true }},
		{"obigrep", []string{"-l", fmt.Sprint(minLen)}, func(r itx.Rec) bool { return len(r.Seq) >= minLen }},
		{"obiannotate", []string{"--length"}, func(itx.Rec) bool { return true }},
	}
	spec := specs[(c.Idx/7)%3]
	var want []string
	for _, r := range recs {
		if spec.keep(r) {
			want = append(want, r.ID)
		}
	}
	cpus := []int{1, 2, 3, 8, 32}
	sizes := []int{1, 2, 7, max(1, n)}
	for _, cpu := range cpus {
		for _, bs := range sizes {
			if n > 100 && bs < 7 && c.Quick() {
				continue
			}
			args := append([]string{"--max-cpu", fmt.Sprint(cpu), "--batch-size", fmt.Sprint(bs), "--no-progressbar"}, spec.args...)
			args = append(args, in)
			res := cmdx.Run(filepath.Join(c.BinDir, spec.name), args, cmdx.Opt{Env: []string{fmt.Sprintf("OBIVERIF_YIELD=%d:200:300", c.Idx*100+cpu)}})
			c.Count("evaluations", 1)
			c.Count("command_runs", 1)
			det := map[string]any{"command": spec.name, "args": args, "records": n, "exit": res.Exit, "stderr": cmdx.Tail(res.Stderr, 1500)}
			if res.TimedOut {
				if res.Deadlock {
					c.Violate("deadlock:"+spec.name, "the command never terminates (dead-lock in the goroutine dump)", det)
				} else {
					c.Inconclusive("command watchdog fired without dead-lock proof: " + spec.name)
				}
				continue
			}
			if res.Exit != 0 {
				cls := "records"
				if n == 0 {
					cls = "empty-input"
				}
				c.Violate(fmt.Sprintf("exit:%s:%s", spec.name, cls), "the command fails on a well-formed input", det)
				continue
			}
			got, err := gen.ParseFasta(res.Stdout)
			if err != nil {
				det["stdout"] = cmdx.Tail(res.Stdout, 1000)
				c.Violate("output-unparsable:"+spec.name, "the output is not FASTA", det)
				continue
			}
			if d := itx.CompareSeq(gen.IDsOf(got), want); d != "" {
				det["got_ids"] = gen.IDsOf(got)
				det["want_ids"] = want
				c.Violate(d+":"+spec.name, "the command does not output exactly the selected records in input order", det)
			}
			if n > bs {
				c.Key("e2e/%s/%d/%d/%d", spec.name, n, cpu, bs)
			}
		}
	}
	c.Sample(map[string]any{"command": spec.name, "args": spec.args, "records": n, "max_cpu": cpus, "batch_size": sizes})
}


// runE2EFiles: several input files (some of them empty) given to one command:
// the records of the files come out one file after the other, in order.
func runE2EFiles(c *core.Ctx) {
	nf := 2 + c.Rng.Intn(3)
	var paths []string
	var want []string
	var shape []int
	for f := 0; f < nf; f++ {
		n := []int{0, 0, 1, 3, 40, 300}[c.Rng.Intn(6)]
		if f == 0 && c.Idx%2 == 0 {
			n = 0 // empty first file
		}
		shape = append(shape, n)
		recs := itx.MkRecs(c.Rng, fmt.Sprintf("f%d_", f), n)
		var sb strings.Builder
		for _, r := range recs {
			fmt.Fprintf(&sb, ">%s {\"k\":%d}\n%s\n", r.ID, r.K, r.Seq)
			want = append(want, r.ID)
		}
		p := filepath.Join(c.Dir, fmt.Sprintf("mf-%d-%d.fasta", c.Idx, f))
		os.WriteFile(p, []byte(sb.String()), 0o644)
		defer os.Remove(p)
		paths = append(paths, p)
	}
	for _, cfg := range [][2]int{{1, 100}, {4, 3}, {16, 1}} {
		args := append([]string{"--no-progressbar", "--max-cpu", fmt.Sprint(cfg[0]), "--batch-size", fmt.Sprint(cfg[1])}, paths...)
		res := cmdx.Run(filepath.Join(c.BinDir, "obiconvert"), args, cmdx.Opt{})
		c.Count("evaluations", 1)
		c.Count("command_runs", 1)
		det := map[string]any{"files_record_counts": shape, "config": cfg, "exit": res.Exit, "stderr": cmdx.Diag(res.Stderr, 1500)}
		cls := "no-empty-file"
		for i, n := range shape {
			if n == 0 {
				cls = "empty-file"
				if i == 0 {
					cls = "empty-first-file"
					break
				}
			}
		}
		if res.TimedOut {
			if res.Deadlock {
				c.Violate("files:deadlock:"+cls, "obiconvert on several files never terminates", det)
			} else {
				c.Inconclusive("watchdog on obiconvert (several files)")
			}
			continue
		}
		if res.Exit != 0 {
			c.Violate("files:exit:"+cls, "obiconvert fails on several well-formed files", det)
			continue
		}
		got, err := gen.ParseFasta(res.Stdout)
		if err != nil {
			c.Violate("files:output-unparsable", "the output is not FASTA", det)
			continue
		}
		c.Key("files/%v/%v", shape, cfg)
		if d := itx.CompareSeq(gen.IDsOf(got), want); d != "" {
			det["got"] = len(got)
			det["want"] = len(want)
			c.Violate("files:"+d+":"+cls, "the records of several input files are not output exactly once, file after file, in order", det)
		}
	}
	c.Sample(map[string]any{"files_record_counts": shape})
}
