package c03

import (
	"fmt"
	"os"
	"path/filepath"
	"strings"

	"verifh/cmdx"
	"verifh/core"
	"verifh/gen"
	"verifh/itx"
)

// runE2E: obiconvert / obigrep -l / obiannotate --length over (max-cpu x batch-size):
// the ids on stdout are the selected ids in input order and the process exits.
func runE2E(c *core.Ctx) {
	n := []int{0, 1, 2, 3, 17, 120, 700}[c.Idx%7]
	recs := itx.MkRecs(c.Rng, "r", n)
	var sb strings.Builder
	for _, r := range recs {
		fmt.Fprintf(&sb, ">%s {\"k\":%d}\n%s\n", r.ID, r.K, r.Seq)
	}
	in := filepath.Join(c.Dir, fmt.Sprintf("e2e-%d.fasta", c.Idx))
	os.WriteFile(in, []byte(sb.String()), 0o644)
	defer os.Remove(in)
	minLen := 10 + c.Rng.Intn(8)
	type cmdSpec struct {
		name string
		args []string
		keep func(r itx.Rec) bool
	}
	specs := []cmdSpec{
		{"obiconvert", nil, func(itx.Rec) bool { return true }},
		{"obigrep", []string{"-l", fmt.Sprint(minLen)}, func(r itx.Rec) bool { return len(r.Seq) >= minLen }},
		{"obiannotate", []string{"--length"}, func(itx.Rec) bool { return true }},
	}
	spec := specs[(c.Idx/7)%3]
	var want []string
	for _, r := range recs {
		if spec.keep(r) {
			want = append(want, r.ID)
		}
	}
	cpus := []int{1, 2, 3, 8, 32}
	sizes := []int{1, 2, 7, max(1, n)}
	for _, cpu := range cpus {
		for _, bs := range sizes {
			if n > 100 && bs < 7 && c.Quick() {
				continue
			}
			args := append([]string{"--max-cpu", fmt.Sprint(cpu), "--batch-size", fmt.Sprint(bs), "--no-progressbar"}, spec.args...)
			args = append(args, in)
			res := cmdx.Run(filepath.Join(c.BinDir, spec.name), args, cmdx.Opt{Env: []string{fmt.Sprintf("OBIVERIF_YIELD=%d:200:300", c.Idx*100+cpu)}})
			c.Count("evaluations", 1)
			c.Count("command_runs", 1)
			det := map[string]any{"command": spec.name, "args": args, "records": n, "exit": res.Exit, "stderr": cmdx.Tail(res.Stderr, 1500)}
			if res.TimedOut {
				if res.Deadlock {
					c.Violate("deadlock:"+spec.name, "the command never terminates (dead-lock in the goroutine dump)", det)
				} else {
					c.Inconclusive("command watchdog fired without dead-lock proof: " + spec.name)
				}
				continue
			}
			if res.Exit != 0 {
				cls := "records"
				if n == 0 {
					cls = "empty-input"
				}
				c.Violate(fmt.Sprintf("exit:%s:%s", spec.name, cls), "the command fails on a well-formed input", det)
				continue
			}
			got, err := gen.ParseFasta(res.Stdout)
			if err != nil {
				det["stdout"] = cmdx.Tail(res.Stdout, 1000)
				c.Violate("output-unparsable:"+spec.name, "the output is not FASTA", det)
				continue
			}
			if d := itx.CompareSeq(gen.IDsOf(got), want); d != "" {
				det["got_ids"] = gen.IDsOf(got)
				det["want_ids"] = want
				c.Violate(d+":"+spec.name, "the command does not output exactly the selected records in input order", det)
			}
			if n > bs {
				c.Key("e2e/%s/%d/%d/%d", spec.name, n, cpu, bs)
			}
		}
	}
	c.Sample(map[string]any{"command": spec.name, "args": spec.args, "records": n, "max_cpu": cpus, "batch_size": sizes})
}
