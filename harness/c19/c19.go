// Package c19: exact De Bruijn weights and heaviest path; strand-invariant
// canonical k-mers; exact 4-mer tables.
//
// Every sub-check executes the real code of pkg/obikmer and compares what it
// returns with a naive string-level reference (harness/ref/c19_kmer.go).
package c19

import (
	"fmt"
	"io"
	"os"
	"sort"
	"strings"

	"git.metabarcoding.org/obitools/obitools4/obitools4/pkg/obikmer"
	"git.metabarcoding.org/obitools/obitools4/obitools4/pkg/obiseq"
	log "github.com/sirupsen/logrus"

	"verifh/core"
	"verifh/gen"
	"verifh/ref"
)

func quiet() { log.SetOutput(io.Discard) }

// violate records the first violation of each cause class of a case (a case is
// a batch of evaluations) and counts every one in the counter "failed.<cause>",
// so that a frequent class cannot crowd the others out of the supervisor's list.
var (
	seenCtx   *core.Ctx
	seenCause map[string]bool
)

func violate(c *core.Ctx, cause, what string, detail any) {
	if seenCtx != c {
		seenCtx, seenCause = c, map[string]bool{}
	}
	c.Count("failed."+c.Sub+":"+cause, 1)
	if !seenCause[cause] {
		seenCause[cause] = true
		c.Violate(cause, what, detail)
	}
}

// bs builds a fresh BioSequence; count 0 = no count attribute (the sequence then weighs 1).
func bs(s []byte, count int) *obiseq.BioSequence {
	q := obiseq.NewBioSequence("s", s, "")
	if count > 0 {
		q.SetCount(count)
	}
	return q
}

func effCount(c int) int {
	if c <= 0 {
		return 1
	}
	return c
}

// guard runs f and reports a (recoverable) panic of the target code.
func guard(f func()) (panicked bool, msg string) {
	defer func() {
		if r := recover(); r != nil {
			panicked = true
			if e, ok := r.(*log.Entry); ok {
				msg = e.Message
			} else {
				msg = fmt.Sprint(r)
			}
			if len(msg) > 200 {
				msg = msg[:200]
			}
		}
	}()
	f()
	return
}

// pickK draws a k-mer size in [lo, hi] with emphasis on both ends.
func pickK(c *core.Ctx, lo, hi int) int {
	switch c.Rng.Intn(6) {
	case 0:
		return lo + c.Rng.Intn(min(3, hi-lo+1))
	case 1:
		return hi - c.Rng.Intn(min(3, hi-lo+1))
	}
	return lo + c.Rng.Intn(hi-lo+1)
}

type seqSet struct {
	Seqs   [][]byte
	Counts []int // 0 = no count attribute
}

func (s *seqSet) add(seq []byte, count int) {
	s.Seqs = append(s.Seqs, seq)
	s.Counts = append(s.Counts, count)
}

func (s *seqSet) strings() []string {
	r := make([]string, len(s.Seqs))
	for i, q := range s.Seqs {
		r[i] = string(q)
	}
	return r
}

func (s *seqSet) effCounts() []int {
	r := make([]int, len(s.Counts))
	for i, c := range s.Counts {
		r[i] = effCount(c)
	}
	return r
}

func (s *seqSet) build(k int) *obikmer.DeBruijnGraph {
	g := obikmer.MakeDeBruijnGraph(k)
	for i, q := range s.Seqs {
		g.Push(bs(q, s.Counts[i]))
	}
	return g
}

func drawCount(c *core.Ctx) int {
	switch c.Rng.Intn(4) {
	case 0:
		return 0 // no attribute
	case 1:
		return 1
	}
	return 1 + c.Rng.Intn(40)
}

func isAmbig(b byte) bool { return len(ref.BaseSet(b)) > 1 }

// ---------------------------------------------------------------------------
// weights
// ---------------------------------------------------------------------------

const (
	catPlain = "plain"
	catLenK  = "len=k"
	catAmbig = "ambiguity"
)

// weightSet draws a sequence set of one category:
//
//	plain     : plain bases (a c g t, seldom u), lengths <k and >k, never =k
//	len=k     : as plain, plus at least one sequence of length exactly k
//	ambiguity : as plain, plus IUPAC ambiguity codes in sequences longer than k
func weightSet(c *core.Ctx, k int, cat string) *seqSet {
	r := c.Rng
	maxLen := c.Pick(160, 500)
	set := &seqSet{}
	tl := k + 1 + r.Intn(max(1, maxLen-k))
	var template []byte
	if r.Intn(3) == 0 {
		template = gen.Tandem(r, 1+r.Intn(4), tl) // many repeated k-mers inside one sequence
		template = gen.Substitute(r, template, r.Intn(4))
	} else {
		template = gen.DNA(r, tl)
	}
	n := 1 + r.Intn(6)
	for i := 0; i < n; i++ {
		var s []byte
		switch r.Intn(7) {
		case 0: // unrelated
			s = gen.DNA(r, k+1+r.Intn(max(1, maxLen-k)))
		case 1: // shorter than k: contributes nothing
			s = gen.DNA(r, r.Intn(k))
		case 2: // exact duplicate of the template
			s = append([]byte{}, template...)
		case 3: // length k+1: two windows
			a := r.Intn(len(template) - k)
			s = append([]byte{}, template[a:a+k+1]...)
		default:
			s = gen.Reads(r, template, 1, k+1, 3)[0]
		}
		if len(s) == k { // edits may shorten a read to exactly k
			s = append(s, gen.ACGT[r.Intn(4)])
		}
		if r.Intn(12) == 0 && len(s) > 0 {
			s[r.Intn(len(s))] = 'u'
		}
		if r.Intn(8) == 0 {
			s = gen.Upper(r, s, 300) // the constructor lower-cases
		}
		set.add(s, drawCount(c))
	}
	switch cat {
	case catLenK:
		m := 1 + r.Intn(2)
		for i := 0; i < m; i++ {
			var s []byte
			if r.Intn(2) == 0 {
				a := r.Intn(len(template) - k + 1)
				s = append([]byte{}, template[a:a+k]...)
			} else {
				s = gen.DNA(r, k)
			}
			if r.Intn(6) == 0 {
				s, _ = gen.Ambiguate(r, s, 1)
			}
			set.add(s, drawCount(c))
		}
	case catAmbig:
		done := false
		for try := 0; try < 20 && !done; try++ {
			for i, s := range set.Seqs {
				if len(s) > k && (r.Intn(2) == 0 || !done) {
					t, prod := gen.Ambiguate(r, []byte(strings.ToLower(string(s))), 1+r.Intn(3))
					if prod > 1 {
						set.Seqs[i] = t
						done = true
					}
				}
			}
			if !done { // no sequence longer than k yet
				set.add(gen.DNA(r, k+1+r.Intn(30)), drawCount(c))
			}
		}
	}
	// shuffle so that the special sequences are not always pushed last
	r.Shuffle(len(set.Seqs), func(i, j int) {
		set.Seqs[i], set.Seqs[j] = set.Seqs[j], set.Seqs[i]
		set.Counts[i], set.Counts[j] = set.Counts[j], set.Counts[i]
	})
	return set
}

// weightClassifier classifies a k-mer whose observed weight differs from the dictionary.
//
//	weight:ambiguity : over-counted word that is (an expansion of) a window lying
//	                   strictly downstream of an ambiguity code of its sequence
//	weight:len=k     : under-counted word that occurs in a sequence of length exactly k
//	weight:plain     : anything else
type weightClassifier struct {
	downstream map[string]bool // expansions of windows that start after an ambiguity code (sequences longer than k)
	inLenK     map[string]bool // expansions of the sequences of length exactly k
}

func newWeightClassifier(seqs [][]byte, k int) *weightClassifier {
	wc := &weightClassifier{downstream: map[string]bool{}, inLenK: map[string]bool{}}
	for _, s := range seqs {
		if len(s) == k {
			for _, e := range ref.Expand(s) {
				wc.inLenK[e] = true
			}
		}
		if len(s) <= k {
			continue
		}
		first := -1
		for i, b := range s {
			if isAmbig(b) {
				first = i
				break
			}
		}
		if first < 0 {
			continue
		}
		for i := first + 1; i+k <= len(s); i++ {
			for _, e := range ref.Expand(s[i : i+k]) {
				wc.downstream[e] = true
			}
		}
	}
	return wc
}

func (wc *weightClassifier) cause(x string, obs, exp int) string {
	switch {
	case obs > exp && wc.downstream[x]:
		return "weight:ambiguity"
	case obs < exp && wc.inLenK[x]:
		return "weight:len=k"
	}
	return "weight:plain"
}

// checkWeights compares the node table of the real graph with the dictionary.
func checkWeights(c *core.Ctx, set *seqSet, k int, cat string) {
	lowered := make([][]byte, len(set.Seqs))
	for i, s := range set.Seqs {
		lowered[i] = []byte(strings.ToLower(string(s)))
	}
	exp := ref.KmerWeights(lowered, set.effCounts(), k)
	wc := newWeightClassifier(lowered, k)
	var g *obikmer.DeBruijnGraph
	c.Risk(fmt.Sprintf("Push k=%d cat=%s", k, cat))
	if p, msg := guard(func() { g = set.build(k) }); p {
		violate(c, "panic:push:"+cat, "DeBruijnGraph.Push panicked: "+msg, map[string]any{"k": k, "seqs": set.strings(), "counts": set.Counts})
		return
	}
	nodes := g.VerifNodes()
	detail := func(x string, obs, want int) map[string]any {
		return map[string]any{"k": k, "seqs": set.strings(), "counts": set.effCounts(), "kmer": x, "observed_weight": obs, "expected_weight": want, "category": cat}
	}
	reported := map[string]bool{} // one report per cause and graph
	report := func(cause, what string, d map[string]any) {
		if !reported[cause] {
			reported[cause] = true
			violate(c, cause, what, d)
		}
	}
	// every expected word, in sorted order
	words := make([]string, 0, len(exp))
	for x := range exp {
		words = append(words, x)
	}
	sort.Strings(words)
	for _, x := range words {
		code := ref.EncodeKmer(x)
		obs := int(nodes[code])
		if viaAPI := g.Weight(code); viaAPI != obs {
			report("weight:accessor", "Weight() differs from the node table", detail(x, viaAPI, obs))
		}
		if obs != exp[x] {
			report(wc.cause(x, obs, exp[x]), fmt.Sprintf("weight of %s is %d, sum of count x occurrences is %d", x, obs, exp[x]), detail(x, obs, exp[x]))
		}
	}
	// no other node
	codes := make([]uint64, 0, len(nodes))
	for code := range nodes {
		codes = append(codes, code)
	}
	sort.Slice(codes, func(i, j int) bool { return codes[i] < codes[j] })
	for _, code := range codes {
		x, ok := ref.DecodeKmer(code, k)
		if !ok {
			report("weight:node-out-of-range", fmt.Sprintf("node code %#x has bits above the 2k lowest", code), detail(x, int(nodes[code]), 0))
			continue
		}
		if _, ok := exp[x]; !ok {
			report(wc.cause(x, int(nodes[code]), 0), fmt.Sprintf("node %s (weight %d) occurs in no sequence", x, nodes[code]), detail(x, int(nodes[code]), 0))
		}
	}
	if g.Len() != len(nodes) {
		report("weight:len", "Len() differs from the size of the node table", map[string]any{"len": g.Len(), "nodes": len(nodes)})
	}
	// absent words weigh 0: one-letter variants of present words
	for i := 0; i < 8 && len(words) > 0; i++ {
		x := []byte(words[c.Rng.Intn(len(words))])
		x[c.Rng.Intn(k)] = gen.ACGT[c.Rng.Intn(4)]
		if _, ok := exp[string(x)]; !ok {
			if w := g.Weight(ref.EncodeKmer(string(x))); w != 0 && nodes[ref.EncodeKmer(string(x))] == 0 {
				report("weight:accessor", "Weight() of an absent word is not 0", detail(string(x), w, 0))
			}
		}
	}
}

func runWeights(c *core.Ctx) {
	quiet()
	per := c.Pick(100, 700)
	for it := 0; it < per; it++ {
		k := pickK(c, 2, 31)
		cat := []string{catPlain, catPlain, catPlain, catLenK, catAmbig, catAmbig}[c.Rng.Intn(6)]
		set := weightSet(c, k, cat)
		checkWeights(c, set, k, cat)
		nshort, nlong, total := 0, 0, 0
		for _, s := range set.Seqs {
			if len(s) < k {
				nshort++
			} else if len(s) > k {
				nlong++
			}
			total += len(s)
		}
		c.Key("w/%d/%s/%d/%v/%d", k, cat, len(set.Seqs), nshort > 0, min(total/100, 9))
		if it == 0 {
			c.Sample(map[string]any{"k": k, "category": cat, "seqs": set.strings(), "counts": set.effCounts()})
		}
		c.Count("evaluations", 1)
		c.Count("graphs."+cat, 1)
	}
}

// runDegenerate: one read with a stretch of ambiguity codes dense enough for a single window to stand
// for more than 2^20 words (e.g. nine n, one b, one r at k=11: 1 572 864). The node table is compared
// with a numeric dictionary (k-mer code -> count x occurrences) built window by window.
func runDegenerate(c *core.Ctx) {
	quiet()
	r := c.Rng
	k := 11 + r.Intn(3)
	three, two := "bdhv", "rykmsw"
	block := []byte(strings.Repeat("n", 9))
	block = append(block, three[r.Intn(4)], two[r.Intn(6)])
	if r.Intn(2) == 0 {
		block = append(block, two[r.Intn(6)])
	}
	block = block[:min(len(block), k)]
	r.Shuffle(len(block), func(i, j int) { block[i], block[j] = block[j], block[i] })
	read := append(append(gen.DNA(r, 5+r.Intn(20)), block...), gen.DNA(r, k+r.Intn(20))...)
	count := 1 + r.Intn(4)
	code := map[byte]uint64{'a': 0, 'c': 1, 'g': 2, 't': 3}
	exp := map[uint64]uint{}
	largest := 0
	for i := 0; i+k <= len(read); i++ {
		cur := []uint64{0}
		for _, b := range read[i : i+k] {
			set := ref.BaseSet(b)
			next := make([]uint64, 0, len(cur)*len(set))
			for _, key := range cur {
				for j := 0; j < len(set); j++ {
					next = append(next, key<<2|code[set[j]])
				}
			}
			cur = next
		}
		largest = max(largest, len(cur))
		for _, key := range cur {
			exp[key] += uint(count)
		}
	}
	detail := map[string]any{"k": k, "read": string(read), "count": count, "words_of_the_largest_window": largest, "expected_nodes": len(exp)}
	var g *obikmer.DeBruijnGraph
	c.Risk(fmt.Sprintf("Push k=%d degenerate read %s", k, read))
	if p, msg := guard(func() {
		g = obikmer.MakeDeBruijnGraph(k)
		g.Push(bs(read, count))
	}); p {
		violate(c, "panic:push:degenerate", "DeBruijnGraph.Push panicked: "+msg, detail)
		return
	}
	nodes := g.VerifNodes()
	c.Count("evaluations", 1)
	c.Count("degenerate_windows_beyond_2^20_words", b2i(largest > 1<<20))
	c.Count("degenerate_nodes_compared", len(exp))
	c.Key("deg/%d/%d/%d", k, len(block), largest>>18)
	bad, missing, extra := 0, 0, 0
	var first string
	for key, w := range exp {
		if nodes[key] != w {
			bad++
			if nodes[key] == 0 {
				missing++
			}
			if x, _ := ref.DecodeKmer(key, k); first == "" || x < first {
				first = x
			}
		}
	}
	for key := range nodes {
		if _, ok := exp[key]; !ok {
			extra++
		}
	}
	if bad > 0 || extra > 0 {
		detail["words_with_a_wrong_weight"], detail["of_which_absent"], detail["nodes_in_no_window"], detail["smallest_wrong_word"] = bad, missing, extra, first
		violate(c, "weight:degenerate-window", fmt.Sprintf("%d of the %d words the windows of the read stand for do not weigh count x occurrences (%d absent), %d nodes occur in no window", bad, len(exp), missing, extra), detail)
	}
	c.Sample(detail)
}

func b2i(b bool) int {
	if b {
		return 1
	}
	return 0
}

// ---------------------------------------------------------------------------
// path / cycle
// ---------------------------------------------------------------------------

func decodeAll(codes []uint64, k int) ([]string, bool) {
	out := make([]string, len(codes))
	all := true
	for i, code := range codes {
		x, ok := ref.DecodeKmer(code, k)
		out[i] = x
		all = all && ok
	}
	return out, all
}

func sortedCopy(a []string) []string {
	b := append([]string{}, a...)
	sort.Strings(b)
	return b
}

func sameStrings(a, b []string) bool {
	if len(a) != len(b) {
		return false
	}
	for i := range a {
		if a[i] != b[i] {
			return false
		}
	}
	return true
}

type graphFacts struct {
	nodes, branching, sources int
	acyclic                   bool
	maxW                      int
}

// checkGraph verifies cycle detection, neighbourhoods, the heaviest path and
// the consensus of a real graph against the string-level graph that has the
// same node table (weights are read from the real graph: defects of the
// weights do not leak into this oracle).
func checkGraph(c *core.Ctx, g *obikmer.DeBruijnGraph, k int, input map[string]any) (f graphFacts) {
	with := func(m map[string]any) map[string]any {
		d := map[string]any{}
		for a, b := range input {
			d[a] = b
		}
		for a, b := range m {
			d[a] = b
		}
		return d
	}
	w := map[string]int{}
	for code, wt := range g.VerifNodes() {
		x, ok := ref.DecodeKmer(code, k)
		if !ok {
			violate(c, "node-out-of-range", fmt.Sprintf("node code %#x has bits above the 2k lowest", code), with(nil))
			return
		}
		w[x] = int(wt)
	}
	dbg := ref.NewDBG(k, w)
	f.nodes = len(dbg.Nodes)
	if f.nodes == 0 {
		return // the property says nothing about the empty graph
	}
	_, acyclic := dbg.TopoOrder()
	f.acyclic = acyclic

	// cycle detection
	var hc bool
	c.Risk(fmt.Sprintf("HasCycle k=%d nodes=%d", k, f.nodes))
	if p, msg := guard(func() { hc = g.HasCycle() }); p {
		violate(c, "panic:hascycle", "HasCycle panicked: "+msg, with(nil))
		return
	}
	if hc && acyclic {
		violate(c, "hascycle:false-positive", "HasCycle reports a cycle in an acyclic graph", with(nil))
	}
	if !hc && !acyclic {
		violate(c, "hascycle:false-negative", "HasCycle misses a cycle", with(nil))
		return // the path search of the library would not terminate on this graph
	}

	// neighbourhoods and sources
	for _, x := range dbg.Nodes {
		code := ref.EncodeKmer(x)
		succ := dbg.Succ(x)
		if len(succ) > 1 {
			f.branching++
		}
		nx, ok1 := decodeAll(g.Nexts(code), k)
		if !ok1 || !sameStrings(sortedCopy(nx), succ) {
			violate(c, "walk:nexts", "Nexts() is not the successor set of the node", with(map[string]any{"node": x, "nexts": nx, "expected": succ}))
			break
		}
		pv, ok2 := decodeAll(g.Previouses(code), k)
		if !ok2 || !sameStrings(sortedCopy(pv), dbg.Pred(x)) {
			violate(c, "walk:previouses", "Previouses() is not the predecessor set of the node", with(map[string]any{"node": x, "previouses": pv, "expected": dbg.Pred(x)}))
			break
		}
	}
	sources := dbg.Sources()
	f.sources = len(sources)
	heads, okh := decodeAll(g.Heads(), k)
	if !okh || !sameStrings(sortedCopy(heads), sources) {
		violate(c, "walk:heads", "Heads() is not the set of nodes without predecessor", with(map[string]any{"heads": sortedCopy(heads), "expected": sources}))
	}

	// heaviest path
	var path []uint64
	c.Risk(fmt.Sprintf("HaviestPath k=%d nodes=%d acyclic=%v", k, f.nodes, acyclic))
	if p, msg := guard(func() { path = g.HaviestPath() }); p {
		violate(c, fmt.Sprintf("panic:haviestpath:acyclic=%v", acyclic), "HaviestPath panicked: "+msg, with(nil))
		return
	}
	var cons *obiseq.BioSequence
	var cerr error
	if p, msg := guard(func() { cons, cerr = g.LongestConsensus("consensus", 0) }); p {
		violate(c, fmt.Sprintf("panic:longestconsensus:acyclic=%v", acyclic), "LongestConsensus panicked: "+msg, with(nil))
		return
	}
	if !acyclic {
		if path != nil {
			ps, _ := decodeAll(path, k)
			violate(c, "path-on-cyclic", "HaviestPath returns a path although the graph has a cycle", with(map[string]any{"path": ps}))
		}
		if cons != nil {
			violate(c, "consensus-on-cyclic", "LongestConsensus returns a sequence although the graph has a cycle", with(map[string]any{"consensus": cons.String()}))
		}
		return
	}
	best, _ := dbg.MaxWalkWeight()
	f.maxW = best
	if f.nodes <= 60 {
		if ex, ok := dbg.MaxWalkWeightExhaustive(300000); ok && ex != best {
			c.Inconclusive(fmt.Sprintf("oracle self-check failed: DP %d, exhaustive %d", best, ex))
			return
		}
		c.Count("optimum_confirmed_by_enumeration", 1)
	}
	checkWalk := func(what string, walk []string, causePrefix string) {
		if len(walk) == 0 {
			violate(c, causePrefix+"none-on-acyclic", what+": nothing returned although the graph is acyclic", with(nil))
			return
		}
		total := 0
		for i, x := range walk {
			wt, ok := w[x]
			if !ok {
				violate(c, causePrefix+"not-walk", what+": a k-mer of the result is not a node of the graph", with(map[string]any{"walk": walk, "kmer": x}))
				return
			}
			if i > 0 && !dbg.IsEdge(walk[i-1], x) {
				violate(c, causePrefix+"not-walk", what+": consecutive nodes do not overlap on k-1 letters", with(map[string]any{"walk": walk, "at": i}))
				return
			}
			total += wt
		}
		if len(dbg.Pred(walk[0])) != 0 {
			violate(c, causePrefix+"not-source-start", what+": the walk does not start at a source node", with(map[string]any{"walk": walk, "max_weight": best, "walk_weight": total}))
			return
		}
		if total != best {
			violate(c, causePrefix+"not-max", fmt.Sprintf("%s: total weight %d, a walk from a source weighs %d", what, total, best), with(map[string]any{"walk": walk, "walk_weight": total, "max_weight": best}))
		}
	}
	ps, okp := decodeAll(path, k)
	if !okp {
		violate(c, "not-walk", "HaviestPath returns a code with bits above the 2k lowest", with(map[string]any{"path": path}))
	} else {
		checkWalk("HaviestPath", ps, "")
	}
	if cons == nil {
		violate(c, "consensus:none-on-acyclic", fmt.Sprintf("LongestConsensus returns no sequence (%v) although the graph is acyclic", cerr), with(nil))
	} else {
		s := cons.String()
		var walk []string
		for i := 0; i+k <= len(s); i++ {
			walk = append(walk, s[i:i+k])
		}
		if len(walk) == 0 {
			violate(c, "consensus:not-walk", "LongestConsensus returns a sequence shorter than k", with(map[string]any{"consensus": s}))
		} else {
			checkWalk("LongestConsensus", walk, "consensus:")
		}
	}
	return
}

// graphSet draws a sequence set for the path (mode 0) and cycle (modes 1..5) sub-checks.
func graphSet(c *core.Ctx, k int, mode int) *seqSet {
	r := c.Rng
	maxLen := c.Pick(120, 400)
	set := &seqSet{}
	count := func() int { return drawCount(c) }
	switch mode {
	case 0: // reads of a repeat-free template: bubbles and tips, (almost always) acyclic
		tl := k + 2 + r.Intn(max(1, maxLen-k))
		template := gen.NoRepeatSeq(r, tl, k-1)
		n := 2 + r.Intn(6)
		for _, rd := range gen.Reads(r, template, n, min(len(template), k+1), 3) {
			set.add(rd, count())
		}
		if r.Intn(3) == 0 { // a second, unrelated locus: more sources
			t2 := gen.NoRepeatSeq(r, k+1+r.Intn(40), k-1)
			for _, rd := range gen.Reads(r, t2, 1+r.Intn(2), min(len(t2), k+1), 1) {
				set.add(rd, count())
			}
		}
		if r.Intn(5) == 0 {
			i := r.Intn(len(set.Seqs))
			if len(set.Seqs[i]) > k {
				set.Seqs[i], _ = gen.Ambiguate(r, set.Seqs[i], 1)
			}
		}
	case 1: // short random sequences: dense small graphs, cycles frequent for small k
		n := 1 + r.Intn(5)
		for i := 0; i < n; i++ {
			set.add(gen.DNA(r, k+1+r.Intn(3*k+4)), count())
		}
	case 2: // one repeat of length k-3 .. k+2 inserted in a repeat-free template: cycle iff a (k-1)-mer repeats
		template := gen.NoRepeatSeq(r, k+4+r.Intn(max(1, maxLen-k)), max(1, k-3))
		rl := k - 3 + r.Intn(6)
		s := gen.InsertRepeat(r, template, max(1, rl))
		set.add(s, count())
		if r.Intn(2) == 0 {
			for _, rd := range gen.Reads(r, s, 1+r.Intn(3), min(len(s), k+1), 2) {
				set.add(rd, count())
			}
		}
	case 3: // cycle closed across two reads: A+B and B+A
		a := gen.NoRepeatSeq(r, k-2+r.Intn(k+6), max(1, k-1))
		b := gen.NoRepeatSeq(r, k-2+r.Intn(k+6), max(1, k-1))
		set.add(append(append([]byte{}, a...), b...), count())
		set.add(append(append([]byte{}, b...), a...), count())
	case 4: // homopolymers and tandem repeats around length k
		period := 1 + r.Intn(3)
		set.add(gen.Tandem(r, period, k+1+r.Intn(2*k+2)), count())
		if r.Intn(2) == 0 {
			set.add(gen.DNA(r, k+1+r.Intn(20)), count())
		}
	default: // reads of a template that may contain repeats
		template := gen.DNA(r, k+2+r.Intn(max(1, maxLen-k)))
		for _, rd := range gen.Reads(r, template, 1+r.Intn(5), min(len(template), k+1), 3) {
			set.add(rd, count())
		}
	}
	for i, s := range set.Seqs { // keep every sequence longer than k (len = k is the business of `weights`)
		for len(s) <= k {
			s = append(s, gen.ACGT[r.Intn(4)])
		}
		set.Seqs[i] = s
	}
	return set
}

func runGraphs(c *core.Ctx, modes []int, per int, tag string) {
	quiet()
	for it := 0; it < per; it++ {
		mode := modes[c.Rng.Intn(len(modes))]
		var k int
		if mode == 1 || c.Rng.Intn(4) == 0 {
			k = 2 + c.Rng.Intn(6)
		} else {
			k = pickK(c, 2, 31)
		}
		set := graphSet(c, k, mode)
		var g *obikmer.DeBruijnGraph
		c.Risk(fmt.Sprintf("Push k=%d mode=%d", k, mode))
		if p, msg := guard(func() { g = set.build(k) }); p {
			violate(c, "panic:push", "DeBruijnGraph.Push panicked: "+msg, map[string]any{"k": k, "seqs": set.strings()})
			continue
		}
		f := checkGraph(c, g, k, map[string]any{"k": k, "seqs": set.strings(), "counts": set.effCounts()})
		c.Count("evaluations", 1)
		if f.nodes < 2 {
			continue
		}
		if f.acyclic {
			c.Count("acyclic_graphs", 1)
			if f.branching > 0 {
				c.Count("acyclic_graphs_with_branches", 1)
			}
		} else {
			c.Count("cyclic_graphs", 1)
		}
		c.Key("%s/%d/%d/%v/%d/%d/%d", tag, k, mode, f.acyclic, min(f.nodes/20, 12), min(f.branching, 6), min(f.sources, 4))
		if c.Rng.Intn(2) == 0 {
			// the same graph object queried again after it was changed (obiconsensus filters rare
			// k-mers out of a graph it has already examined; more reads may be pushed afterwards):
			// every answer must follow the current node table
			minw := 2 + c.Rng.Intn(3)
			if f.maxW > 4 && c.Rng.Intn(2) == 0 {
				minw = 1 + c.Rng.Intn(f.maxW)
			}
			c.Risk(fmt.Sprintf("FilterMinWeight k=%d min=%d", k, minw))
			if p, msg := guard(func() { g.FilterMinWeight(minw) }); p {
				violate(c, "panic:filter", "FilterMinWeight panicked: "+msg, map[string]any{"k": k, "seqs": set.strings(), "min": minw})
				continue
			}
			f2 := checkGraph(c, g, k, map[string]any{"k": k, "seqs": set.strings(), "counts": set.effCounts(), "after_FilterMinWeight": minw})
			c.Count("evaluations", 1)
			c.Count("graphs_rechecked_after_filter", 1)
			if !f.acyclic && f2.acyclic && f2.nodes >= 2 {
				c.Count("cycles_removed_by_filter", 1)
				c.Key("%s-filtered/%d/%d/cycle-removed", tag, k, mode)
			}
			if c.Rng.Intn(2) == 0 {
				extra := graphSet(c, k, mode)
				if p, _ := guard(func() {
					for i, q := range extra.Seqs {
						g.Push(bs(q, extra.Counts[i]))
					}
				}); !p {
					checkGraph(c, g, k, map[string]any{"k": k, "seqs": set.strings(), "then_filtered": minw, "then_pushed": extra.strings()})
					c.Count("evaluations", 1)
				}
			}
		}
		if it == 0 {
			c.Sample(map[string]any{"k": k, "seqs": set.strings(), "counts": set.effCounts(), "acyclic": f.acyclic, "nodes": f.nodes, "branching_nodes": f.branching, "max_walk_weight": f.maxW})
		}
	}
}

func runPath(c *core.Ctx)  { runGraphs(c, []int{0, 0, 0, 5}, c.Pick(100, 700), "path") }
func runCycle(c *core.Ctx) { runGraphs(c, []int{1, 1, 2, 2, 3, 4, 5}, c.Pick(80, 500), "cycle") }

// ---------------------------------------------------------------------------
// identity
// ---------------------------------------------------------------------------

func runIdentity(c *core.Ctx) {
	quiet()
	per := c.Pick(100, 700)
	for it := 0; it < per; it++ {
		k := pickK(c, 2, 31)
		maxLen := c.Pick(200, 500)
		var n int
		switch c.Rng.Intn(5) {
		case 0:
			n = k // exactly one k-mer
		case 1:
			n = k + 1 + c.Rng.Intn(3)
		default:
			n = k + 1 + c.Rng.Intn(max(1, maxLen-k))
		}
		// no repeated (k-1)-mer (hence no repeated k-mer): the graph is a simple path.
		s := gen.NoRepeatSeq(c.Rng, n, k-1)
		if len(s) < k {
			continue
		}
		count := drawCount(c)
		in := s
		if c.Rng.Intn(8) == 0 {
			in = gen.Upper(c.Rng, s, 400)
		}
		g := obikmer.MakeDeBruijnGraph(k)
		var cons *obiseq.BioSequence
		var err error
		c.Risk(fmt.Sprintf("identity k=%d len=%d", k, len(s)))
		p, msg := guard(func() {
			g.Push(bs(in, count))
			cons, err = g.LongestConsensus("id", 0)
		})
		rel := "len>k"
		if len(s) == k {
			rel = "len=k"
		}
		detail := map[string]any{"k": k, "seq": string(in), "count": effCount(count), "error": fmt.Sprint(err)}
		c.Count("evaluations", 1)
		c.Count("identity_sequences", 1)
		c.Key("id/%d/%s/%d", k, rel, min(len(s)/25, 20))
		switch {
		case p:
			violate(c, "panic:"+rel, "Push/LongestConsensus panicked: "+msg, detail)
		case cons == nil:
			violate(c, "not-returned:"+rel, "a single sequence without repeated k-mer gives no consensus", detail)
		case cons.String() != string(s):
			detail["consensus"] = cons.String()
			violate(c, "changed:"+rel, "a single sequence without repeated k-mer is not returned unchanged", detail)
		}
		if it == 0 {
			c.Sample(detail)
		}
	}
}

// ---------------------------------------------------------------------------
// fourmer
// ---------------------------------------------------------------------------

func runFourmer(c *core.Ctx) {
	quiet()
	per := c.Pick(300, 2000)
	var buffer []byte
	var table obikmer.Table4mer
	var index [][]int
	var prevExp [256]int
	var prevTable *obikmer.Table4mer
	for it := 0; it < per; it++ {
		var n int
		switch c.Rng.Intn(6) {
		case 0:
			n = c.Rng.Intn(6) // 0..5: shorter than, equal to, just longer than 4
		case 1:
			n = 4 + c.Rng.Intn(16)
		default:
			n = 4 + c.Rng.Intn(c.Pick(300, 500))
		}
		amb := []int{0, 0, 0, 30, 200}[c.Rng.Intn(5)]
		var s []byte
		if c.Rng.Intn(6) == 0 && n > 0 {
			s = gen.Tandem(c.Rng, 1+c.Rng.Intn(4), n)
		} else {
			s = gen.DNAIupac(c.Rng, n, amb)
		}
		if c.Rng.Intn(10) == 0 && n > 0 {
			s[c.Rng.Intn(n)] = 'u'
		}
		if c.Rng.Intn(8) == 0 {
			s = gen.Upper(c.Rng, s, 300)
		}
		codes := ref.Fourmers(s)
		var exp [256]int
		pos := make([][]int, 256)
		for i, code := range codes {
			exp[code]++
			pos[code] = append(pos[code], i)
		}
		reuse := c.Rng.Intn(2) == 0
		lenClass := "len>=4"
		if n < 4 {
			lenClass = fmt.Sprintf("len=%d", n)
		}
		detail := map[string]any{"seq": string(s), "reused_buffers": reuse}
		c.Count("evaluations", 1)
		c.Key("4/%s/%d/%d/%v", lenClass, min(n/20, 30), amb, reuse)
		var got *obikmer.Table4mer
		var enc []byte
		var idx [][]int
		c.Risk(fmt.Sprintf("Count4Mer len=%d", n))
		p, msg := guard(func() {
			if reuse {
				got = obikmer.Count4Mer(bs(s, 0), &buffer, &table)
				enc = append([]byte{}, obikmer.Encode4mer(bs(s, 0), &buffer)...)
				idx = obikmer.Index4mer(bs(s, 0), &index, &buffer)
			} else {
				got = obikmer.Count4Mer(bs(s, 0), nil, nil)
				enc = obikmer.Encode4mer(bs(s, 0), nil)
				idx = obikmer.Index4mer(bs(s, 0), nil, nil)
			}
		})
		if p {
			violate(c, "panic:"+lenClass, "Count4Mer/Encode4mer/Index4mer panicked: "+msg, detail)
			prevTable = nil
			continue
		}
		bad := false
		for code := 0; code < 256 && !bad; code++ {
			if int(got[code]) != exp[code] {
				x, _ := ref.DecodeKmer(uint64(code), 4)
				detail["fourmer"], detail["observed"], detail["expected"] = x, got[code], exp[code]
				violate(c, "count", "the 4-mer table differs from the number of occurrences", detail)
				bad = true
			}
		}
		if len(enc) != len(codes) {
			violate(c, "encode", "Encode4mer does not return one code per window", detail)
			bad = true
		} else {
			for i := range enc {
				if int(enc[i]) != codes[i] {
					detail["position"] = i
					violate(c, "encode", "Encode4mer returns a wrong code", detail)
					bad = true
					break
				}
			}
		}
		for code := 0; code < 256 && !bad; code++ {
			if fmt.Sprint(idx[code]) != fmt.Sprint(pos[code]) && !(len(idx[code]) == 0 && len(pos[code]) == 0) {
				x, _ := ref.DecodeKmer(uint64(code), 4)
				detail["fourmer"], detail["observed"], detail["expected"] = x, idx[code], pos[code]
				violate(c, "index", "Index4mer does not list the positions of the 4-mer", detail)
				bad = true
			}
		}
		if len(codes) > 0 {
			c.Count("fourmer_tables_nonempty", 1)
		}
		if sum := obikmer.Sum4Mer(got); sum != len(codes) {
			detail["sum"] = sum
			violate(c, "sum", "Sum4Mer is not the number of windows", detail)
		}
		if prevTable != nil {
			common := 0
			for code := 0; code < 256; code++ {
				common += min(exp[code], prevExp[code])
			}
			if cm := obikmer.Common4Mer(got, prevTable); cm != common {
				detail["common"], detail["expected"] = cm, common
				violate(c, "common", "Common4Mer is not the sum of the minima", detail)
			}
		}
		cp := *got
		prevTable, prevExp = &cp, exp
		if it == 0 {
			c.Sample(map[string]any{"seq": string(s), "windows": len(codes)})
		}
	}
}

func init() {
	core.Register(&core.Property{
		ID:    "C19",
		Level: "exploration",
		Rule: "real pkg/obikmer code executed next to a string-level reference. weights: sequence sets (1-8 sequences with counts, reads of a template, tandem repeats, lengths <k / =k / >k up to 500, IUPAC codes) x k=2..31, node table compared with the dictionary sum(count x occurrences), each expansion of an ambiguous window counting once; " +
			"path/cycle: graphs with bubbles, tips, several sources, inserted repeats, cycles closed across reads, tandem repeats: HasCycle vs Kahn, Nexts/Previouses/Heads vs string overlaps, HaviestPath and LongestConsensus(.,0) must be a walk from a source of the maximal weight computed by DP (confirmed by exhaustive walk enumeration on graphs of at most 60 nodes), nothing returned iff cyclic; " +
			"identity: one sequence without repeated (k-1)-mer, length k..500; canonical: NormalizedKmerSlice of s and of revcomp(s) for Uint64/Uint128/Uint256 keys, every k with 2k <= word width, k<=64, even = plain, odd = sparse, lengths <k, =k, beyond 32/64/128 bases, ambiguity codes; fourmer: Count4Mer/Encode4mer/Index4mer/Common4Mer, lengths 0..500, fresh and reused buffers. " +
			"Added later: graphs examined again after FilterMinWeight and after further pushes, obikmersimcount end to end for k = 2..64 plain and sparse with queries in both orientations. weights-degenerate: one window standing for more than 2^20 words, against a numeric dictionary; consensus: obiconsensus.BuildConsensus on reads with an exact repeat of 4-30 bases (the k-mer size has to be raised, up to 31). " +
			"distinct_nontrivial = distinct (k, category, set size, total length class) for weights, (k, generator, acyclic, node-count class, branching nodes, sources) for graphs of at least 2 nodes, (k, len=k or >k, length class) for identity, (key type, k, sparse, length class relative to k and to the word, ambiguity, first failing clause) for canonical, (length class, ambiguity rate, reuse) for fourmer",
		Assume: []string{
			"an ambiguity code stands for each of its bases: every expansion of a window counts as one occurrence of that word (weights); windows containing an ambiguity code yield no canonical k-mer (index); 4-mer tables read every symbol other than a,c,g,t,u as 'a' as documented in Encode4mer",
			"'the graph' of the path/cycle clauses is the node-centric De Bruijn graph of the node table actually built (edge = overlap of k-1 letters)",
			"'without repeated k-mer' is applied as 'without repeated (k-1)-mer' (a repeated (k-1)-mer closes a cycle in the node-centric graph, for which the property itself demands that no path is returned)",
			"sequence counts are >= 1; the empty graph is outside the property",
			"a key type is used only for k-mer sizes it can hold (2k <= width)",
		},
		Subs: []core.Sub{
			{Name: "weights", N: core.Const(64, 512), Run: runWeights, Shard: 2, TimeoutS: 600},
			{Name: "weights-degenerate", N: core.Const(2, 8), Run: runDegenerate, Shard: 1, TimeoutS: 600},
			{Name: "path", N: core.Const(64, 512), Run: runPath, Shard: 2, TimeoutS: 600},
			{Name: "cycle", N: core.Const(64, 512), Run: runCycle, Shard: 2, TimeoutS: 600},
			{Name: "identity", N: core.Const(32, 256), Run: runIdentity, Shard: 2, TimeoutS: 600},
			{Name: "consensus", N: core.Const(16, 96), Run: runConsensus, TimeoutS: 600},
			{Name: "canonical", N: core.Const(nCombos, nCombos*6), Run: runCanonical, Shard: 4, TimeoutS: 600},
			{Name: "kmersim-e2e", N: core.Const(4, 24), Run: runKmerSimE2E},
			{Name: "fourmer", N: core.Const(32, 256), Run: runFourmer, Shard: 2, TimeoutS: 600},
		},
		Cmds:          []string{"obikmersimcount"},
		MinNontrivial: 500,
		// every sub-check must have observed the situations it is about
		Post: func(tier string, counters map[string]int64) (inconclusive []string) {
			if os.Getenv("VERIF_ONLY") != "" {
				return nil
			}
			for _, name := range []string{"graphs.plain", "graphs.len=k", "graphs.ambiguity", "acyclic_graphs_with_branches", "cyclic_graphs",
				"optimum_confirmed_by_enumeration", "identity_sequences", "sequences_with_rolling_update", "fourmer_tables_nonempty"} {
				if counters[name] == 0 {
					inconclusive = append(inconclusive, "nothing observed for "+name)
				}
			}
			return
		},
	})
}
