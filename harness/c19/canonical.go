package c19

import (
	"fmt"
	"strings"

	"git.metabarcoding.org/obitools/obitools4/obitools4/pkg/obifp"
	"git.metabarcoding.org/obitools/obitools4/obitools4/pkg/obikmer"

	"verifh/core"
	"verifh/gen"
	"verifh/ref"
)

type combo struct {
	typ   string
	width int // bits of the key type
	k     int // final k-mer size (even: plain mode, odd: sparse mode)
}

// every (key type, k) with 2 <= k <= 64 and 2k <= width
var combos = func() []combo {
	var l []combo
	for _, t := range []struct {
		typ   string
		width int
	}{{"Uint64", 64}, {"Uint128", 128}, {"Uint256", 256}} {
		for k := 2; k <= 64 && 2*k <= t.width; k++ {
			l = append(l, combo{t.typ, t.width, k})
		}
	}
	return l
}()

var nCombos = len(combos)

type limbed interface{ VerifLimbs() []uint64 }

type canonObs struct {
	shown []string // KmerAsString of every returned key
	clean bool     // every key equals the 2-bit packing of its string (no stray bit)
	dirty string   // first key that is not clean
}

func observe[T obifp.FPUint[T]](m *obikmer.KmerMap[T], s []byte, limbs int, sparse bool, buff *[]T) canonObs {
	keys := m.NormalizedKmerSlice(bs(s, 0), buff)
	o := canonObs{clean: true}
	for _, key := range keys {
		str := m.KmerAsString(key)
		o.shown = append(o.shown, str)
		word := str
		if sparse {
			word = strings.Replace(str, "#", "", 1)
		}
		if l, ok := any(key).(limbed); ok && o.clean {
			got, want := l.VerifLimbs(), ref.EncodeWide(word, limbs)
			for i := range want {
				if len(got) != len(want) || got[i] != want[i] {
					o.clean = false
					o.dirty = fmt.Sprintf("%s=%x", str, got)
					break
				}
			}
		}
	}
	return o
}

// compareCanon compares the observed list with the reference windows.
// It returns the failing clause ("" = held) and whether every discrepancy has
// the structure "forward word larger than it should be": plain mode, the word
// is smaller than its reverse complement but the reverse complement was
// returned, and at least one base other than 'a' precedes the window inside
// the same unambiguous run and inside the key word (the preceding bases that a
// rolling word of `capacity` bases still holds).
func compareCanon(s []byte, k, capacity int, sparse bool, obs []string, exp []ref.CanonWindow) (clause string, allUnmasked bool, first map[string]any) {
	if len(obs) != len(exp) {
		return "count", false, map[string]any{"returned": len(obs), "windows_without_ambiguity": len(exp)}
	}
	allUnmasked = true
	firstUnmasked := false
	for j, w := range exp {
		if obs[j] == w.Shown {
			continue
		}
		word := obs[j]
		if sparse {
			word = strings.Replace(word, "#", "", 1)
		}
		kind := "value"
		if word == w.Fw || word == w.Rc {
			kind = "not-min"
		}
		unmasked := false
		if !sparse && w.Fw < w.Rc && word == w.Rc {
			p := min(w.RunPos, capacity-k)
			for q := w.Pos - p; q < w.Pos; q++ {
				if s[q] != 'a' {
					unmasked = true
				}
			}
		}
		if first == nil || (firstUnmasked && !unmasked) {
			first = map[string]any{"window_start": w.Pos, "word": w.Fw, "word_revcomp": w.Rc, "expected": w.Shown, "returned": obs[j]}
			firstUnmasked = unmasked
		}
		if clause == "" || kind == "value" {
			clause = kind
		}
		allUnmasked = allUnmasked && unmasked
	}
	if clause == "" {
		allUnmasked = false
	}
	return
}

func multisetEqual(a, b []string) bool {
	if len(a) != len(b) {
		return false
	}
	x, y := sortedCopy(a), sortedCopy(b)
	for i := range x {
		if x[i] != y[i] {
			return false
		}
	}
	return true
}

// canonSeq draws a sequence for one (k, capacity).
func canonSeq(c *core.Ctx, k, capacity int) (s []byte, lenClass string, amb bool) {
	r := c.Rng
	maxLen := 500
	var n int
	switch r.Intn(8) {
	case 0:
		n = r.Intn(k) // shorter than k: no k-mer
	case 1:
		n = k
	case 2:
		n = k + 1 + r.Intn(3)
	case 3: // around the capacity of the key word
		n = max(k, capacity-2+r.Intn(5))
	case 4: // around twice the capacity
		n = max(k, 2*capacity-2+r.Intn(5))
	default:
		n = k + r.Intn(maxLen-k+1)
	}
	switch r.Intn(10) {
	case 0: // low complexity
		s = gen.Substitute(r, gen.Tandem(r, 1+r.Intn(3), n), r.Intn(4))
	case 1: // poly-a stretches (clean upper bits of a rolling word)
		s = gen.DNA(r, n)
		for i := range s {
			if r.Intn(3) != 0 {
				s[i] = 'a'
			}
		}
	case 2: // palindromic: the word equals its reverse complement
		h := gen.DNA(r, (n+1)/2)
		s = append(append([]byte{}, h...), ref.RevComp(h)...)[:n]
	default:
		s = gen.DNA(r, n)
	}
	if r.Intn(3) == 0 && n > 0 {
		s, _ = gen.Ambiguate(r, s, 1+r.Intn(3))
		for _, b := range s {
			if isAmbig(b) {
				amb = true
			}
		}
	}
	if r.Intn(15) == 0 && n > 0 {
		s[r.Intn(n)] = 'u'
	}
	switch {
	case n < k:
		lenClass = "<k"
	case n == k:
		lenClass = "=k"
	case n <= capacity:
		lenClass = "<=word"
	case n <= 2*capacity:
		lenClass = "<=2words"
	default:
		lenClass = ">2words"
	}
	return
}

func canonCases[T obifp.FPUint[T]](c *core.Ctx, cb combo, per int) {
	k, capacity, limbs := cb.k, cb.width/2, cb.width/64
	sparse := k%2 == 1
	// request the size; seldom the neighbouring size that the constructor adjusts to k
	req := k
	if c.Rng.Intn(8) == 0 {
		if sparse {
			req = k - 1 // even + sparse -> k
		} else {
			req = k + 1 // odd + plain -> k
		}
	}
	base := map[string]any{"type": cb.typ, "k": k, "requested_k": req, "sparse": sparse}
	var m *obikmer.KmerMap[T]
	c.Risk(fmt.Sprintf("NewKmerMap[%s] k=%d sparse=%v", cb.typ, req, sparse))
	if p, msg := guard(func() { m = obikmer.NewKmerMap[T](nil, uint(req), sparse, -1) }); p {
		base["panic"] = msg
		c.Count("evaluations", 1)
		if 2*k == cb.width {
			c.Key("canon/%s/%d/construct-panic", cb.typ, k)
			violate(c, "construct-panic:2k=word-width", fmt.Sprintf("NewKmerMap[%s] panics for k=%d although a %d-bit key holds %d bases", cb.typ, k, cb.width, capacity), base)
		} else {
			violate(c, "construct-panic", fmt.Sprintf("NewKmerMap[%s] panics for k=%d", cb.typ, k), base)
		}
		return
	}
	if int(m.Kmersize) != k || (m.SparseAt >= 0) != sparse {
		base["kmersize"], base["sparse_at"] = m.Kmersize, m.SparseAt
		violate(c, "construct", "NewKmerMap does not give the requested even/plain or odd/sparse k-mer size", base)
		return
	}
	var buff []T
	for it := 0; it < per; it++ {
		s, lenClass, amb := canonSeq(c, k, capacity)
		rc := ref.RevComp(s)
		detail := map[string]any{"type": cb.typ, "k": k, "sparse": sparse, "seq": string(s), "revcomp": string(rc)}
		var of, or, ob canonObs
		c.Risk(fmt.Sprintf("NormalizedKmerSlice[%s] k=%d len=%d", cb.typ, k, len(s)))
		if p, msg := guard(func() {
			of = observe(m, s, limbs, sparse, nil)
			or = observe(m, rc, limbs, sparse, nil)
			if it%4 == 0 {
				ob = observe(m, s, limbs, sparse, &buff)
			} else {
				ob = of
			}
		}); p {
			detail["panic"] = msg
			violate(c, "panic:"+lenClass, "NormalizedKmerSlice/KmerAsString panicked", detail)
			continue
		}
		c.Count("evaluations", 2)
		ef := ref.CanonicalWindows(s, k, sparse)
		er := ref.CanonicalWindows(rc, k, sparse)
		failed := ""
		// each returned key is the smaller of the word and its reverse complement
		clauseF, unmF, firstF := compareCanon(s, k, capacity, sparse, of.shown, ef)
		clauseR, unmR, firstR := compareCanon(rc, k, capacity, sparse, or.shown, er)
		for _, side := range []struct {
			clause string
			unm    bool
			first  map[string]any
			strand string
		}{{clauseF, unmF, firstF, "sequence"}, {clauseR, unmR, firstR, "reverse complement"}} {
			if side.clause == "" {
				continue
			}
			cause := side.clause
			if side.unm {
				cause += ":forward-word-unmasked"
			}
			d := map[string]any{"on": side.strand}
			for a, b := range detail {
				d[a] = b
			}
			for a, b := range side.first {
				d[a] = b
			}
			violate(c, cause, "a canonical k-mer is not the smaller of the k-mer and its reverse complement", d)
			if failed == "" {
				failed = cause
			}
		}
		// the keys carry nothing but the k-mer
		if !of.clean || !or.clean {
			detail["key"] = of.dirty + or.dirty
			violate(c, "value:stray-bits", "a returned key is not the 2-bit packing of its k-mer", detail)
			if failed == "" {
				failed = "stray-bits"
			}
		}
		// strand invariance of the multiset
		if !multisetEqual(of.shown, or.shown) {
			cause := "strand"
			if (clauseF == "" || unmF) && (clauseR == "" || unmR) && (clauseF != "" || clauseR != "") {
				cause += ":forward-word-unmasked"
			}
			detail["from_sequence"], detail["from_revcomp"] = sortedCopy(of.shown), sortedCopy(or.shown)
			violate(c, cause, "a sequence and its reverse complement yield different multisets of canonical k-mers", detail)
			delete(detail, "from_sequence")
			delete(detail, "from_revcomp")
			if failed == "" {
				failed = cause
			}
		}
		// a caller-provided buffer does not change the answer
		if !sameStrings(of.shown, ob.shown) {
			violate(c, "buffer", "NormalizedKmerSlice answers differently with a reused buffer", detail)
		}
		if len(ef) > 0 {
			c.Key("canon/%s/%d/%s/%v/%s", cb.typ, k, lenClass, amb, failed)
		}
		if len(ef) > 1 {
			c.Count("sequences_with_rolling_update", 1)
		}
		if it == 0 {
			c.Sample(map[string]any{"type": cb.typ, "k": k, "sparse": sparse, "seq": string(s), "canonical_kmers": len(ef)})
		}
	}
}

func runCanonical(c *core.Ctx) {
	quiet()
	cb := combos[c.Idx%nCombos]
	per := c.Pick(192, 1000)
	switch cb.typ {
	case "Uint64":
		canonCases[obifp.Uint64](c, cb, per)
	case "Uint128":
		canonCases[obifp.Uint128](c, cb, per)
	default:
		canonCases[obifp.Uint256](c, cb, per)
	}
}
