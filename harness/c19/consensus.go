package c19

import (
	"fmt"
	"os"
	"path/filepath"

	"git.metabarcoding.org/obitools/obitools4/obitools4/pkg/obikmer"
	"git.metabarcoding.org/obitools/obitools4/obitools4/pkg/obiseq"
	"git.metabarcoding.org/obitools/obitools4/obitools4/pkg/obitools/obiconsensus"

	"verifh/core"
	"verifh/gen"
)

// runConsensus: obiconsensus.BuildConsensus raises the k-mer size until the graph of the reads has
// no cycle and returns the consensus of that graph. Reads holding an exact repeat of L bases make
// the graph cyclic up to k = L+1: the answer must be the consensus at the first acyclic size k*
// (found here with the graph code itself, which the other sub-checks compare with the references),
// for every k* up to 31, the largest size a node code can hold.
func runConsensus(c *core.Ctx) {
	quiet()
	r := c.Rng
	per := c.Pick(12, 60)
	for it := 0; it < per; it++ {
		L := []int{4, 9, 15, 22, 27, 28, 29, 29, 30}[r.Intn(9)]
		rep := gen.DNA(r, L)
		tpl := append(append(append(append(gen.DNA(r, 20+r.Intn(30)), rep...), gen.DNA(r, 15+r.Intn(30))...), rep...), gen.DNA(r, 20+r.Intn(30))...)
		long := it%4 == 2
		if long { // graphs of more than a thousand k-mers
			tpl = append(tpl, gen.DNA(r, 1100+r.Intn(400))...)
		}
		req := L - 2 + r.Intn(5)
		if req < 2 {
			req = 2
		}
		if req > 31 {
			req = 31
		}
		mk := func() obiseq.BioSequenceSlice {
			var sl obiseq.BioSequenceSlice
			for i := 0; i < 2+r.Intn(3); i++ {
				sl = append(sl, bs(append([]byte{}, tpl...), 1+r.Intn(5)))
			}
			if long {
				// one read that goes on alone beyond the template: k-mers seen once
				sl = append(sl, bs(append(append([]byte{}, tpl[len(tpl)-200:]...), gen.DNA(r, 200)...), 1))
			}
			return sl
		}
		reads := mk()
		// first acyclic size, with the graph code
		kstar := -1
		var want string
		for k := req; k <= 31; k++ {
			g := obikmer.MakeDeBruijnGraph(k)
			for _, s := range reads {
				g.Push(s)
			}
			if !g.HasCycle() {
				kstar = k
				if s, err := g.LongestConsensus("cons", 0); err == nil && s != nil {
					want = s.String()
				}
				break
			}
		}
		if kstar < 0 || want == "" {
			c.Count("consensus_cases_without_acyclic_size", 1)
			continue
		}
		c.Risk(fmt.Sprintf("BuildConsensus k=%d repeat=%d", req, L))
		var got *obiseq.BioSequence
		var err error
		// one case in three also asks for the description of the graph to be saved (--save-graph): what
		// is written next to the result must not change the result; the identifier may hold a '/'
		// (Illumina read names), in which case the file cannot be created and that is all
		save, id, dir := it%3 == 1, "cons", ""
		if save {
			dir = filepath.Join(c.Dir, fmt.Sprintf("graphs-%d-%d", c.Idx, it))
			defer os.RemoveAll(dir)
			if it%2 == 1 {
				id = "read_0001/1"
			}
			c.Count("consensus_with_saved_graph", 1)
		}
		if p, msg := guard(func() { got, err = obiconsensus.BuildConsensus(reads, id, req, 0, save, dir) }); p {
			violate(c, "consensus:panic", "BuildConsensus panicked: "+msg, map[string]any{"requested_k": req, "repeat_length": L, "template": string(tpl)})
			continue
		}
		c.Count("evaluations", 1)
		c.Key("cons/%d/%d/%d", L, req, kstar)
		det := map[string]any{"requested_k": req, "repeat_length": L, "first_acyclic_k": kstar, "template": string(tpl), "reads": len(reads), "expected": want}
		if it == 0 {
			c.Sample(det)
		}
		switch {
		case err != nil || got == nil:
			det["error"] = fmt.Sprint(err)
			violate(c, fmt.Sprintf("consensus:none-returned:k*=%d", min(kstar, 31)), "BuildConsensus returns no consensus although the graph has no cycle at the first acyclic k-mer size", det)
		case got.String() != want:
			det["got"] = got.String()
			violate(c, "consensus:differs", "BuildConsensus does not return the consensus of the graph at the first acyclic k-mer size", det)
		default:
			if ks, ok := got.GetIntAttribute("obiconsensus_kmer_size"); !ok || ks != kstar {
				det["reported_kmer_size"] = ks
				violate(c, "consensus:kmer-size", "the k-mer size reported with the consensus is not the first acyclic one", det)
			}
		}
	}
}
