package c19

import (
	"fmt"
	"os"
	"path/filepath"
	"regexp"
	"strings"

	"verifh/cmdx"
	"verifh/core"
	"verifh/gen"
	"verifh/ref"
)

var matchCountRe = regexp.MustCompile(`"obikmer_match_count":(\d+)`)

// runKmerSimE2E: the k-mer index as the commands build it (obikmersimcount: the word size of the index
// is chosen by the command from -k and --sparse). Queries cut from the references, each given in both
// orientations: the command must end normally for every k of the documented range, a query and its
// reverse complement must match the same number of references (strand invariance of the canonical
// k-mers), and a query must match the reference it was cut from.
func runKmerSimE2E(c *core.Ctx) {
	dir := filepath.Join(c.Dir, fmt.Sprintf("kmersim-%d", c.Idx))
	os.MkdirAll(dir, 0o755)
	defer os.RemoveAll(dir)
	var refs [][]byte
	var rsb, qsb strings.Builder
	for i := 0; i < 3+c.Rng.Intn(4); i++ {
		s := gen.DNA(c.Rng, 150+c.Rng.Intn(150))
		refs = append(refs, s)
		fmt.Fprintf(&rsb, ">r%d\n%s\n", i, s)
	}
	type q struct{ id string }
	var ids []string
	for i, s := range refs {
		a := c.Rng.Intn(len(s) - 130)
		cut := s[a : a+130]
		fmt.Fprintf(&qsb, ">q%d_fwd\n%s\n>q%d_rev\n%s\n", i, cut, i, ref.RevComp(cut))
		ids = append(ids, fmt.Sprintf("q%d_fwd", i), fmt.Sprintf("q%d_rev", i))
	}
	rp, qp := filepath.Join(dir, "R.fasta"), filepath.Join(dir, "Q.fasta")
	os.WriteFile(rp, []byte(rsb.String()), 0o644)
	os.WriteFile(qp, []byte(qsb.String()), 0o644)
	ks := []int{2, 3, 4, 5, 8, 15, 16, 29, 30, 31, 32, 33, 34, 47, 48, 62, 63, 64}
	for _, k := range ks {
		for _, sparse := range []bool{false, true} {
			if sparse && k >= 64 {
				continue // an even size is raised to the next odd one in sparse mode: 65 is out of range
			}
			if !sparse && k%2 == 1 && k > 31 {
				continue
			}
			args := []string{"--no-progressbar", "--max-cpu", fmt.Sprint(1 + c.Rng.Intn(4)), "-k", fmt.Sprint(k)}
			if sparse {
				args = append(args, "-S")
			}
			args = append(args, "-r", rp, qp)
			res := cmdx.Run(filepath.Join(c.BinDir, "obikmersimcount"), args, cmdx.Opt{})
			c.Count("evaluations", 1)
			c.Count("command_runs", 1)
			det := map[string]any{"k": k, "sparse": sparse, "args": args, "exit": res.Exit, "stderr": cmdx.Diag(res.Stderr, 1500)}
			if res.TimedOut {
				c.Inconclusive("watchdog on obikmersimcount")
				continue
			}
			cls := fmt.Sprintf("k%d-sparse%v", k, sparse)
			if res.Exit != 0 {
				c.Violate("kmersim:exit:"+cls, "obikmersimcount fails for a k-mer size of the documented range", det)
				continue
			}
			counts := map[string]string{}
			for _, rec := range strings.Split(string(res.Stdout), ">")[1:] {
				title := strings.SplitN(rec, "\n", 2)[0]
				id := strings.Fields(title)[0]
				if m := matchCountRe.FindStringSubmatch(title); m != nil {
					counts[id] = m[1]
				}
			}
			c.Key("kmersim/%d/%v", k, sparse)
			for i := 0; i+1 < len(ids); i += 2 {
				f, r := counts[ids[i]], counts[ids[i+1]]
				if f == "" || r == "" {
					det["stdout"] = cmdx.Tail(res.Stdout, 800)
					c.Violate("kmersim:record-missing:"+cls, "a query is missing from the output of obikmersimcount", det)
					break
				}
				if f != r {
					det["query"], det["forward_count"], det["reverse_count"] = ids[i], f, r
					c.Violate("kmersim:strand-dependent:"+cls, "a query and its reverse complement do not match the same number of references", det)
					break
				}
				if f == "0" {
					det["query"] = ids[i]
					c.Violate("kmersim:own-reference-missed:"+cls, "a query cut from a reference shares no k-mer with it", det)
					break
				}
			}
		}
	}
	if c.Idx == 0 {
		c.Sample(map[string]any{"references": len(refs), "queries": len(ids), "k": ks})
	}
}
