package main

import _ "verifh/c01"
