package c13

import (
	"bufio"
	"bytes"
	"encoding/json"
	"fmt"
	"os"
	"os/exec"
	"path/filepath"
	"strconv"
	"strings"

	"verifh/core"
	"verifh/gen"
)

// parseOutput reads the FASTA (JSON headers) written by obiclean.
func parseOutput(b []byte) (map[string]annot, []string, []string, error) {
	out := map[string]annot{}
	var dups, order []string
	sc := bufio.NewScanner(bytes.NewReader(b))
	sc.Buffer(make([]byte, 1<<20), 1<<28)
	for sc.Scan() {
		l := sc.Text()
		if !strings.HasPrefix(l, ">") {
			continue
		}
		id, rest, _ := strings.Cut(l[1:], " ")
		m := map[string]interface{}{}
		if strings.TrimSpace(rest) != "" {
			if err := json.Unmarshal([]byte(rest), &m); err != nil {
				return nil, nil, nil, fmt.Errorf("header of %s is not JSON: %v", id, err)
			}
		}
		if _, ok := out[id]; ok {
			dups = append(dups, id)
		}
		out[id] = readAnnot(m)
		order = append(order, id)
	}
	return out, dups, order, nil
}

// runCmd runs the obiclean command; ok=false when no output could be observed.
// A failure whose stack shows code of the obiclean package is a violation. A
// failure elsewhere (input reader, JSON library, writer) is not what C13 is
// about: it is counted and sampled in the evidence, and the run is repeated
// (at most 3 attempts); a persistent failure makes the case inconclusive.
func runCmd(c *core.Ctx, o *once, ds gen.C13Data, cf config, input string, args []string, workers int) (run, bool) {
	full := append(append([]string{}, args...), input)
	det := describe(ds, cf, workers)
	det["args"] = full
	var stdout, stderr bytes.Buffer
	for attempt := 1; ; attempt++ {
		cmd := exec.Command(filepath.Join(c.BinDir, "obiclean"), full...)
		stdout.Reset()
		stderr.Reset()
		cmd.Stdout = &stdout
		cmd.Stderr = &stderr
		cmd.Env = append(os.Environ(), "OBIMAXCPU=", "OBIBATCHSIZE=")
		err := cmd.Run()
		c.Count("e2e_runs", 1)
		if err == nil {
			delete(det, "stderr")
			delete(det, "error")
			break
		}
		msg := stderr.String()
		det["stderr"] = tailStr(msg, 3000)
		det["error"] = err.Error()
		if strings.Contains(msg, "/pkg/obitools/obiclean/") {
			o.violate("command-failed", "obiclean exits with an error raised in the obiclean package on a well-formed input", det)
			return run{}, false
		}
		c.Count("e2e_failures_outside_obiclean", 1)
		c.Sample(map[string]any{"failure_outside_obiclean": det})
		if attempt == 3 {
			c.Inconclusive("the obiclean command failed 3 times outside the obiclean package (reader / writer): " + firstPanicLine(msg))
			return run{}, false
		}
	}
	ann, dups, order, perr := parseOutput(stdout.Bytes())
	if perr != nil {
		det["error"] = perr.Error()
		o.violate("output-unreadable", "obiclean output cannot be parsed", det)
		return run{}, false
	}
	if len(dups) > 0 {
		det["duplicated"] = dups[:min(5, len(dups))]
		o.violate("record-duplicated", "a record is written more than once", det)
	}
	// The command loads the data set with IBioSequence.Load(), which appends the batches of the reader in
	// their order of ARRIVAL: the records may reach the graph construction in another order than in the file.
	// The output is written in that order, so the permutation is observable.
	permuted := len(order) != len(ds.Seqs)
	for i := 0; !permuted && i < len(order); i++ {
		permuted = order[i] != ds.Seqs[i].Id
	}
	c.Count("e2e_runs_with_permuted_load_order", btoi(permuted))
	return run{workers: workers, ann: ann, permuted: permuted}, true
}

func firstPanicLine(s string) string {
	for _, l := range strings.Split(s, "\n") {
		if strings.HasPrefix(l, "panic:") || strings.HasPrefix(l, "fatal error:") || strings.Contains(l, "level=fatal") {
			return l
		}
	}
	return "no panic line"
}

func tailStr(s string, n int) string {
	if len(s) > n {
		return s[len(s)-n:]
	}
	return s
}

func runE2E(c *core.Ctx) {
	r := c.Rng
	cf := config{D: []int{1, 1, 1, 2, 3}[r.Intn(5)], Ratio: []float64{1, 1, 0.5, 0.05}[r.Intn(4)]}
	var ds gen.C13Data
	if c.Idx%3 == 0 {
		tag := []string{"sample", "pcr"}[r.Intn(2)]
		ds = gen.C13Contention(r, 300+r.Intn(c.Pick(1200, 2000)), 1+r.Intn(3), 1+r.Intn(2), r.Intn(3) != 0, tag)
	} else {
		maxN := c.Pick(400, 1000)
		if cf.D > 1 {
			maxN = 300
		}
		ds = randomData(c, maxN)
	}
	if c.Idx%4 == 2 {
		ds.Stale = true // the file comes out of an earlier run of obiclean
		c.Count("inputs_carrying_earlier_obiclean_annotations", 1)
	}
	input := filepath.Join(c.Dir, fmt.Sprintf("e2e-%d.fasta", c.Idx))
	if err := os.WriteFile(input, ds.Fasta(), 0o644); err != nil {
		c.Inconclusive("cannot write the input file")
		return
	}
	defer os.Remove(input)
	if keep := os.Getenv("VH_C13_KEEP"); keep != "" { // development aid: keep the input of the case
		os.WriteFile(filepath.Join(keep, fmt.Sprintf("e2e-seed%d-%d.fasta", c.Seed, c.Idx)), ds.Fasta(), 0o644)
	}
	var args []string
	if ds.Tag != "sample" || r.Intn(3) == 0 {
		args = append(args, []string{"-s", "--sample"}[r.Intn(2)], ds.Tag)
	}
	if cf.D != 1 || r.Intn(4) == 0 {
		args = append(args, []string{"-d", "--distance"}[r.Intn(2)], strconv.Itoa(cf.D))
	}
	if cf.Ratio != 1 || r.Intn(4) == 0 {
		args = append(args, []string{"-r", "--ratio"}[r.Intn(2)], strconv.FormatFloat(cf.Ratio, 'g', -1, 64))
	}
	o := &once{c, map[string]bool{}}
	c.Risk("obiclean-command")
	base, ok := runCmd(c, o, ds, cf, input, append([]string{"--force-one-cpu"}, args...), 1)
	if !ok {
		c.Count("evaluations", 1)
		return
	}
	nedges := 0
	for _, a := range base.ann {
		nedges += len(a.Mutation)
	}
	if cf.def() {
		checkExact(o, ds, refGraphs(ds), base, cf)
	} else if len(base.ann) != len(ds.Seqs) {
		o.violate("record-lost", "the number of records written differs from the input", describe(ds, cf, 1))
	}
	evals := 1
	diverged := 0
	reps := c.Pick(2, 3)
	for _, w := range pickWorkers(c, c.Pick(3, 5)) {
		for rep := 0; rep < reps; rep++ {
			x, ok := runCmd(c, o, ds, cf, input, append([]string{"--max-cpu", strconv.Itoa(w)}, args...), w)
			evals++
			if !ok {
				continue
			}
			if f := compareRuns(o, ds, cf, base, x, rep); len(f) > 0 {
				diverged++
			}
		}
		keyData(c, "e2e", ds, cf, w, nedges)
	}
	c.Count("evaluations", evals)
	c.Count("e2e_diverging_runs", diverged)
	c.Count("e2e_mutation_entries_in_reference_runs", nedges)
	if c.Idx < 2 {
		d := describe(ds, cf, 0)
		d["args"] = args
		c.Sample(d)
	}
}
