// Package c13: the obiclean graph is exact (distance one) and identical for any
// worker count and from run to run.
//
// Target code is executed through obiclean.VerifGraph (verif_export.go of the
// package: buildSamples, BuildSeqGraph with the real worker pool,
// FilterGraphOnRatio, Mutation, ObicleanStatus, annotateOBIClean, in the order
// of CLIOBIClean) and through the obiclean command itself.
package c13

import (
	"bytes"
	"fmt"
	"os"
	"sort"
	"strconv"
	"strings"

	"git.metabarcoding.org/obitools/obitools4/obitools4/pkg/obiseq"
	"git.metabarcoding.org/obitools/obitools4/obitools4/pkg/obitools/obiclean"

	"verifh/core"
	"verifh/gen"
	"verifh/ref"
)

// annot is what obiclean writes on one record (the observables of the property).
type annot struct {
	Status   map[string]string `json:"status"`
	Weight   map[string]int    `json:"weight"`
	Mutation map[string]string `json:"mutation"`
	Head     bool              `json:"head"`
	HasHead  bool              `json:"has_head"`
	Counts   [4]int            `json:"counts"` // head, internal, singleton, sample
}

// run is one observed execution.
type run struct {
	workers  int
	nodes    map[string][]obiclean.VerifNode // in-process only
	ann      map[string]annot                // by record id
	lost     int                             // in-process: sum over nodes of |in-degree - SonCount| right after the pairwise loop
	lostAt   []string
	permuted bool // e2e only: the records were written (hence loaded) in another order than the input file
}

type config struct {
	D     int
	Ratio float64
}

func (cf config) def() bool { return cf.D == 1 && cf.Ratio == 1.0 }

// buildSeqs makes fresh BioSequences for one execution (obiclean annotates in place).
func buildSeqs(ds gen.C13Data, variant int) obiseq.BioSequenceSlice {
	out := make(obiseq.BioSequenceSlice, 0, len(ds.Seqs))
	for _, s := range ds.Seqs {
		bs := obiseq.NewBioSequence(s.Id, append([]byte{}, s.Seq...), "")
		total := 0
		for _, c := range s.Counts {
			total += c
		}
		if ds.Attr {
			for k := range s.Counts {
				if n, err := strconv.Atoi(k); err == nil && k[0] != '0' && variant%2 == 0 {
					// a numbered sample, typed as the header parsers type it
					bs.SetAttribute(ds.Tag, n)
				} else {
					bs.SetAttribute(ds.Tag, k)
				}
			}
		} else {
			switch variant % 3 {
			case 0:
				m := map[string]int{}
				for k, c := range s.Counts {
					m[k] = c
				}
				bs.SetAttribute("merged_"+ds.Tag, m)
			case 1:
				m := obiseq.StatsOnValues{}
				for k, c := range s.Counts {
					m[k] = c
				}
				bs.SetAttribute("merged_"+ds.Tag, m)
			default: // what a JSON header gives
				m := map[string]interface{}{}
				for k, c := range s.Counts {
					m[k] = float64(c)
				}
				bs.SetAttribute("merged_"+ds.Tag, m)
			}
		}
		bs.SetCount(total)
		out = append(out, bs)
	}
	return out
}

func readAnnot(a map[string]interface{}) annot {
	r := annot{Status: map[string]string{}, Weight: map[string]int{}, Mutation: map[string]string{}}
	toInt := func(v interface{}) int {
		switch v := v.(type) {
		case int:
			return v
		case float64:
			return int(v)
		}
		return -999999
	}
	switch m := a["obiclean_status"].(type) {
	case map[string]string:
		for k, v := range m {
			r.Status[k] = v
		}
	case map[string]interface{}:
		for k, v := range m {
			r.Status[k] = fmt.Sprint(v)
		}
	}
	switch m := a["obiclean_weight"].(type) {
	case map[string]int:
		for k, v := range m {
			r.Weight[k] = v
		}
	case map[string]interface{}:
		for k, v := range m {
			r.Weight[k] = toInt(v)
		}
	}
	switch m := a["obiclean_mutation"].(type) {
	case map[string]string:
		for k, v := range m {
			r.Mutation[k] = v
		}
	case map[string]interface{}:
		for k, v := range m {
			r.Mutation[k] = fmt.Sprint(v)
		}
	}
	if h, ok := a["obiclean_head"].(bool); ok {
		r.Head, r.HasHead = h, true
	}
	for i, k := range []string{"obiclean_headcount", "obiclean_internalcount", "obiclean_singletoncount", "obiclean_samplecount"} {
		if v, ok := a[k]; ok {
			r.Counts[i] = toInt(v)
		} else {
			r.Counts[i] = -1
		}
	}
	return r
}

// runGraph executes the real graph construction in this process.
func runGraph(c *core.Ctx, ds gen.C13Data, workers int, cf config, variant int) run {
	seqs := buildSeqs(ds, variant)
	c.Risk(fmt.Sprintf("VerifGraph:%s:d%d", ds.Kind, cf.D))
	nodes := obiclean.VerifGraph(seqs, ds.Tag, workers, cf.D, cf.Ratio)
	r := run{workers: workers, nodes: nodes, ann: map[string]annot{}}
	for _, s := range seqs {
		r.ann[s.Id()] = readAnnot(s.Annotations())
	}
	// internal consistency right after the pairwise loop: SonCount must be the in-degree
	names := make([]string, 0, len(nodes))
	for name := range nodes {
		names = append(names, name)
	}
	sort.Strings(names)
	for _, name := range names {
		ns := nodes[name]
		indeg := make([]int, len(ns))
		for _, n := range ns {
			for _, e := range n.EdgesBuilt {
				if e.Father >= 0 && e.Father < len(ns) {
					indeg[e.Father]++
				}
			}
		}
		for i, n := range ns {
			if n.SonCountBuilt != indeg[i] {
				d := indeg[i] - n.SonCountBuilt
				if d < 0 {
					d = -d
				}
				r.lost += d
				if len(r.lostAt) < 5 {
					r.lostAt = append(r.lostAt, fmt.Sprintf("%s/%s: SonCount=%d in-degree=%d", name, n.Id, n.SonCountBuilt, indeg[i]))
				}
			}
		}
	}
	return r
}

// once reports a cause at most once per case.
type once struct {
	c    *core.Ctx
	seen map[string]bool
}

func (o *once) violate(cause, what string, detail map[string]any) {
	if o.seen[cause] {
		return
	}
	o.seen[cause] = true
	o.c.Violate(cause, what, detail)
}

func describe(ds gen.C13Data, cf config, workers int) map[string]any {
	d := map[string]any{"kind": ds.Kind, "records": len(ds.Seqs), "samples": ds.Samples, "tag": ds.Tag, "sample_attribute_only": ds.Attr,
		"distance": cf.D, "ratio": cf.Ratio, "workers": workers}
	if len(ds.Seqs) <= 60 {
		d["fasta"] = string(ds.Fasta())
	}
	return d
}

func seqOf(ds gen.C13Data) map[string][]byte {
	m := make(map[string][]byte, len(ds.Seqs))
	for _, s := range ds.Seqs {
		m[s.Id] = s.Seq
	}
	return m
}

// sampleNodes lists the records of one sample.
func sampleNodes(ds gen.C13Data, sample string) []ref.C13Node {
	var out []ref.C13Node
	for _, s := range ds.Seqs {
		if c, ok := s.Counts[sample]; ok {
			out = append(out, ref.C13Node{Id: s.Id, Seq: s.Seq, Count: c})
		}
	}
	return out
}

// refGraphs computes the brute-force reference of every sample.
func refGraphs(ds gen.C13Data) map[string]ref.C13Graph {
	out := map[string]ref.C13Graph{}
	for _, s := range ds.Samples {
		if ns := sampleNodes(ds, s); len(ns) > 0 {
			out[s] = ref.C13Reference(ns)
		}
	}
	return out
}

// selfCheckRef compares the one-edit test of the reference with the
// Levenshtein DP on pairs of the data set; false = the reference is broken.
func selfCheckRef(c *core.Ctx, ds gen.C13Data) bool {
	n := len(ds.Seqs)
	for k := 0; k < 200; k++ {
		i, j := c.Rng.Intn(n), c.Rng.Intn(n)
		a, b := ds.Seqs[i].Seq, ds.Seqs[j].Seq
		if len(a) > 400 {
			continue
		}
		ok, _ := ref.C13OneEdit(a, b)
		if ok != (ref.EditDistance(a, b) == 1) {
			return false
		}
	}
	return true
}

func spuriousClass(son, father ref.C13Node) string {
	switch {
	case father.Count == son.Count:
		return "tie"
	case father.Count < son.Count:
		return "less-abundant-father"
	case bytes.Equal(son.Seq, father.Seq):
		return "identical"
	}
	return "distance>1"
}

// checkExact compares one execution at distance 1 / ratio 1 with the
// brute-force reference, layer by layer, so that one defect gives one cause:
//  1. edges (exported graph; for the command: the keys of obiclean_mutation) against the reference graph;
//  2. mutation strings against the pair of sequences;
//  3. status against the edges that were OBSERVED (i: has a father; h: no father, >= 1 son; s: neither)
//     - for the command, against the reference graph, and only when layer 1 held;
//  4. head flag and the four counters against the statuses that were WRITTEN.
func checkExact(o *once, ds gen.C13Data, refs map[string]ref.C13Graph, r run, cf config) {
	seqs := seqOf(ds)
	suffix := ""
	if r.lost > 0 {
		suffix = ":lost-soncount-update"
	}
	det := func(extra map[string]any) map[string]any {
		d := describe(ds, cf, r.workers)
		for k, v := range extra {
			d[k] = v
		}
		if r.lost > 0 {
			d["soncount_vs_indegree"] = r.lostAt
		}
		return d
	}
	edgesBad := false
	wantMut := map[string]map[string]bool{} // son -> fathers over all samples (reference)
	for _, sample := range ds.Samples {
		g, ok := refs[sample]
		if !ok {
			continue
		}
		nodes := sampleNodes(ds, sample)
		byId := map[string]ref.C13Node{}
		for _, n := range nodes {
			byId[n.Id] = n
		}
		for son, fs := range g.Fathers {
			for _, f := range fs {
				if wantMut[son] == nil {
					wantMut[son] = map[string]bool{}
				}
				wantMut[son][f] = true
			}
		}
		if r.nodes == nil {
			continue
		}
		got := r.nodes[sample]
		if len(got) != len(nodes) {
			o.violate("nodes", "the graph of a sample does not hold exactly the records of the sample",
				det(map[string]any{"sample": sample, "expected_nodes": len(nodes), "got_nodes": len(got)}))
			edgesBad = true
			continue
		}
		indeg := map[string]int{}
		for _, n := range got {
			for _, e := range n.Edges {
				indeg[e.FatherId]++
			}
		}
		for i, n := range got {
			if i > 0 && got[i-1].Count > n.Count {
				o.violate("nodes", "sample vector not sorted by increasing count", det(map[string]any{"sample": sample}))
			}
			if bn, ok := byId[n.Id]; !ok || bn.Count != n.Count {
				o.violate("nodes", "node with a wrong count or foreign to the sample", det(map[string]any{"sample": sample, "node": n.Id, "count": n.Count}))
				edgesBad = true
				continue
			}
			// layer 1
			want := g.Fathers[n.Id]
			var have []string
			for _, e := range n.EdgesBuilt {
				have = append(have, e.FatherId)
				if e.Dist != 1 {
					o.violate("edge-spurious:dist-field", "edge of the distance-one graph with Dist != 1", det(map[string]any{"sample": sample, "son": n.Id, "father": e.FatherId, "dist": e.Dist}))
				}
			}
			if edgeKey(n.Edges) != edgeKey(n.EdgesBuilt) {
				o.violate("edge-filtered-at-ratio-1", "edges change after construction although no ratio filter applies", det(map[string]any{"sample": sample, "son": n.Id}))
			}
			sort.Strings(have)
			for k := 1; k < len(have); k++ {
				if have[k] == have[k-1] {
					edgesBad = true
					o.violate("edge-spurious:duplicate", "the same son->father edge is present twice",
						det(map[string]any{"sample": sample, "son": n.Id, "father": have[k]}))
				}
			}
			hs := map[string]bool{}
			for _, h := range have {
				hs[h] = true
				if !contains(want, h) {
					edgesBad = true
					o.violate("edge-spurious:"+spuriousClass(byId[n.Id], byId[h]), "edge son->father although the two are not (one edit apart and father strictly more abundant)",
						det(map[string]any{"sample": sample, "son": n.Id, "son_seq": string(seqs[n.Id]), "son_count": n.Count,
							"father": h, "father_seq": string(seqs[h]), "father_count": byId[h].Count}))
				}
			}
			for _, w := range want {
				if !hs[w] {
					edgesBad = true
					o.violate("edge-missing:"+g.Kind[n.Id+">"+w], "no edge although the father is strictly more abundant and exactly one edit away",
						det(map[string]any{"sample": sample, "son": n.Id, "son_seq": string(seqs[n.Id]), "son_count": n.Count,
							"father": w, "father_seq": string(seqs[w]), "father_count": byId[w].Count}))
				}
			}
			// layer 3: status against the observed edges
			wantSt := "s"
			switch {
			case len(n.Edges) > 0:
				wantSt = "i"
			case indeg[n.Id] > 0:
				wantSt = "h"
			}
			gotSt := r.ann[n.Id].Status[sample]
			if gotSt == "" {
				gotSt = "none"
			}
			if gotSt != wantSt {
				o.violate(fmt.Sprintf("status:%s-as-%s%s", wantSt, gotSt, suffix), "obiclean_status is not the status implied by the edges of the graph that was built",
					det(map[string]any{"sample": sample, "record": n.Id, "expected": wantSt, "got": gotSt, "fathers": have, "sons": indeg[n.Id], "SonCount": n.SonCount}))
			}
			if _, ok := r.ann[n.Id].Weight[sample]; !ok {
				o.violate("weight-absent", "no obiclean_weight for a sample the record belongs to", det(map[string]any{"sample": sample, "record": n.Id}))
			}
		}
	}
	for _, s := range ds.Seqs {
		a, ok := r.ann[s.Id]
		if !ok {
			o.violate("record-lost", "a record of the input is absent from the output", det(map[string]any{"record": s.Id}))
			continue
		}
		// layers 1 (command) and 2
		for f := range wantMut[s.Id] {
			m, ok := a.Mutation[f]
			_, k := ref.C13OneEdit(seqs[f], s.Seq)
			if !ok {
				if r.nodes == nil { // the mutation map is the only trace of the edges in the output
					edgesBad = true
					o.violate("edge-missing:"+k, "no obiclean_mutation entry for a father that is strictly more abundant and exactly one edit away",
						det(map[string]any{"son": s.Id, "son_seq": string(s.Seq), "father": f, "father_seq": string(seqs[f])}))
				} else if !edgesBad {
					o.violate("mutation:absent:"+k, "edge without obiclean_mutation entry", det(map[string]any{"son": s.Id, "father": f}))
				}
				continue
			}
			if !ref.C13MutationOK(seqs[f], s.Seq, m) {
				o.violate("mutation:"+k, "obiclean_mutation does not describe the edit father -> son",
					det(map[string]any{"son": s.Id, "son_seq": string(s.Seq), "father": f, "father_seq": string(seqs[f]), "mutation": m}))
			}
		}
		for f := range a.Mutation {
			if !wantMut[s.Id][f] {
				cls := "unknown-father"
				if _, ok := seqs[f]; ok {
					cls = "not-a-father"
				}
				if r.nodes == nil {
					edgesBad = true
					o.violate("edge-spurious:"+cls, "obiclean_mutation names a father that the reference graph does not give", det(map[string]any{"son": s.Id, "father": f, "mutation": a.Mutation[f]}))
				} else if !edgesBad {
					o.violate("mutation:spurious-key:"+cls, "obiclean_mutation names a father that the graph does not give", det(map[string]any{"son": s.Id, "father": f}))
				}
			}
		}
	}
	for _, s := range ds.Seqs {
		a, ok := r.ann[s.Id]
		if !ok {
			continue
		}
		// layer 3 for the command (the edges are those of the reference when layer 1 held)
		if r.nodes == nil && !edgesBad {
			for sample := range s.Counts {
				wantSt := refs[sample].Status[s.Id]
				gotSt := a.Status[sample]
				if gotSt == "" {
					gotSt = "none"
				}
				if gotSt != wantSt {
					o.violate(fmt.Sprintf("status:%s-as-%s", wantSt, gotSt), "obiclean_status is not the status implied by the graph",
						det(map[string]any{"sample": sample, "record": s.Id, "expected": wantSt, "got": gotSt, "fathers": refs[sample].Fathers[s.Id], "sons": refs[sample].NSons[s.Id]}))
				}
				if _, ok := a.Weight[sample]; !ok {
					o.violate("weight-absent", "no obiclean_weight for a sample the record belongs to", det(map[string]any{"sample": sample, "record": s.Id}))
				}
			}
		}
		// layer 4: head flag and counters against the written statuses
		var want [4]int
		for _, st := range a.Status {
			switch st {
			case "h":
				want[0]++
			case "i":
				want[1]++
			case "s":
				want[2]++
			}
		}
		want[3] = len(s.Counts)
		if a.Counts != want {
			o.violate("counts", "obiclean_headcount/internalcount/singletoncount/samplecount are not the numbers of h/i/s statuses written for the record",
				det(map[string]any{"record": s.Id, "status": a.Status, "expected_head_internal_singleton_sample": want, "got": a.Counts}))
		}
		if !a.HasHead || a.Head != (want[0]+want[2] > 0) {
			o.violate("head-flag", "obiclean_head is not (head or singleton in at least one sample)",
				det(map[string]any{"record": s.Id, "status": a.Status, "expected": want[0]+want[2] > 0, "got": a.Head, "present": a.HasHead}))
		}
	}
}

func contains(l []string, s string) bool {
	for _, x := range l {
		if x == s {
			return true
		}
	}
	return false
}

func edgeKey(es []obiclean.VerifEdge) string {
	var b strings.Builder
	for _, e := range es {
		fmt.Fprintf(&b, "%s/%d/%d/%c%c;", e.FatherId, e.Dist, e.Pos, e.From, e.To)
	}
	return b.String()
}

// compareRuns compares an execution with the 1-worker reference execution.
// It returns the list of differing fields (for the evidence counters).
func compareRuns(o *once, ds gen.C13Data, cf config, base, x run, rep int) []string {
	var fields []string
	diff := map[string][]string{}
	add := func(field, where string) {
		if len(diff[field]) == 0 {
			fields = append(fields, field)
		}
		if len(diff[field]) < 4 {
			diff[field] = append(diff[field], where)
		}
	}
	if base.nodes != nil && x.nodes != nil {
		for sample, bn := range base.nodes {
			xn := x.nodes[sample]
			if len(xn) != len(bn) {
				add("nodes", sample)
				continue
			}
			for i := range bn {
				if bn[i].Id != xn[i].Id || bn[i].Count != xn[i].Count {
					add("nodes", sample+"/"+bn[i].Id)
					continue
				}
				if edgeKey(bn[i].EdgesBuilt) != edgeKey(xn[i].EdgesBuilt) {
					add("edges", fmt.Sprintf("%s/%s: %s | %s", sample, bn[i].Id, edgeKey(bn[i].EdgesBuilt), edgeKey(xn[i].EdgesBuilt)))
				}
				if edgeKey(bn[i].Edges) != edgeKey(xn[i].Edges) {
					add("filtered-edges", fmt.Sprintf("%s/%s: %s | %s", sample, bn[i].Id, edgeKey(bn[i].Edges), edgeKey(xn[i].Edges)))
				}
			}
		}
	}
	ids := make([]string, 0, len(base.ann))
	for id := range base.ann {
		ids = append(ids, id)
	}
	sort.Strings(ids)
	if len(x.ann) != len(base.ann) {
		add("records", fmt.Sprintf("%d | %d", len(base.ann), len(x.ann)))
	}
	for _, id := range ids {
		a := base.ann[id]
		b, ok := x.ann[id]
		if !ok {
			add("records", id)
			continue
		}
		if fmt.Sprint(a.Weight) != fmt.Sprint(b.Weight) {
			add("weight", fmt.Sprintf("%s: %v | %v", id, a.Weight, b.Weight))
		}
		if fmt.Sprint(a.Status) != fmt.Sprint(b.Status) {
			add("status", fmt.Sprintf("%s: %v | %v", id, a.Status, b.Status))
		}
		if a.Counts != b.Counts {
			add("counts", fmt.Sprintf("%s: %v | %v", id, a.Counts, b.Counts))
		}
		if a.Head != b.Head || a.HasHead != b.HasHead {
			add("head", fmt.Sprintf("%s: %v | %v", id, a.Head, b.Head))
		}
		if fmt.Sprint(a.Mutation) != fmt.Sprint(b.Mutation) {
			add("mutation", fmt.Sprintf("%s: %v | %v", id, a.Mutation, b.Mutation))
		}
	}
	if len(fields) == 0 {
		return nil
	}
	detail := describe(ds, cf, x.workers)
	detail["reference_workers"] = base.workers
	detail["repetition"] = rep
	detail["differences (reference | this run)"] = diff
	// "edges" (before any filtering) and "nodes"/"records" cannot be a consequence of a wrong SonCount;
	// everything else derives from SonCount (reweightSequences, FilterGraphOnRatio, ObicleanStatus).
	structural := ""
	for _, f := range []string{"nodes", "records", "edges"} {
		if len(diff[f]) > 0 && structural == "" {
			structural = f
		}
	}
	switch {
	case structural != "":
		o.violate("worker-dependent:"+structural, fmt.Sprintf("%s differ between %d worker(s) and %d workers on the same input", structural, base.workers, x.workers), detail)
	case (x.permuted || base.permuted) && len(diff["weight"]) == 0:
		// weights are computed by reweightSequences from the distance-one graph, whose edges need a strict
		// count inequality: they do not depend on the order of the records; a weight difference is never a load-order effect
		detail["load_order_permuted"] = map[string]bool{"reference_run": base.permuted, "this_run": x.permuted}
		o.violate("load-order-dependent",
			fmt.Sprintf("%s differ between two executions of the command on the same file; in one of them the records were loaded in another order than in the file (batches appended in arrival order)", strings.Join(fields, ",")), detail)
	case x.lost > 0:
		detail["soncount_vs_indegree_after_pairwise_loop"] = x.lostAt
		detail["lost_increments"] = x.lost
		o.violate("worker-dependent:lost-soncount-update",
			fmt.Sprintf("%s differ between %d worker(s) and %d workers on the same input; in that run SonCount of a shared father is below its number of sons (lost `SonCount++`)", strings.Join(fields, ","), base.workers, x.workers), detail)
	default:
		first := fields[0]
		for _, f := range []string{"mutation", "head", "counts", "status", "weight"} { // fixed priority: the last one present wins
			if len(diff[f]) > 0 {
				first = f
			}
		}
		o.violate("worker-dependent:"+first, fmt.Sprintf("%s differ between %d worker(s) and %d workers on the same input", strings.Join(fields, ","), base.workers, x.workers), detail)
	}
	return fields
}

var allWorkers = []int{2, 4, 8, 16, 32}

func raceTwin() bool { return os.Getenv("VH_RACE") == "1" }

func sizeClass(n int) int {
	switch {
	case n < 50:
		return 0
	case n < 200:
		return 1
	case n < 1000:
		return 2
	}
	return 3
}

func keyData(c *core.Ctx, what string, ds gen.C13Data, cf config, workers int, edges int) {
	if edges == 0 {
		return // an edge-less graph is trivial
	}
	c.Key("%s/%s/ns%d/sz%d/ties%v/depth%d/star%d/attr%v/d%d/r%v/w%d", what, ds.Kind, len(ds.Samples), sizeClass(len(ds.Seqs)), ds.Ties, min(ds.Depth, 3), sizeClass(ds.Star), ds.Attr, cf.D, cf.Ratio, workers)
}

func totalEdges(refs map[string]ref.C13Graph) int {
	n := 0
	for _, g := range refs {
		n += g.NEdges
	}
	return n
}

func builtEdges(r run) int {
	n := 0
	for _, ns := range r.nodes {
		for _, x := range ns {
			n += len(x.EdgesBuilt)
		}
	}
	return n
}

// randomData draws a random-family data set; maxN bounds the number of records.
func randomData(c *core.Ctx, maxN int) gen.C13Data {
	r := c.Rng
	o := gen.C13Opts{NSamples: 1 + r.Intn(6), Alphabet: gen.ACGT, Tag: "sample", CountMode: r.Intn(3)}
	if r.Intn(4) == 0 {
		o.Tag = "pcr"
	}
	if r.Intn(5) == 0 {
		o.Attr = true
	}
	if r.Intn(3) == 0 {
		o.DupRate = 30
	}
	switch r.Intn(8) {
	case 0, 1: // dense: short sequences over two letters, most pairs are neighbours
		o.Alphabet = "ac"
		o.MinLen, o.MaxLen = 3, 8
		o.NSeq = 20 + r.Intn(min(maxN, 150)-19)
	case 2: // big
		o.MinLen, o.MaxLen = 60, 120
		o.NSeq = maxN/2 + r.Intn(maxN/2+1)
	default:
		o.MinLen = 15 + r.Intn(60)
		o.MaxLen = o.MinLen + r.Intn(40)
		o.NSeq = 20 + r.Intn(min(maxN, 400)-19)
		if r.Intn(4) == 0 {
			// ambiguity codes are symbols like the others for the one-difference test: n against t is a substitution
			o.Alphabet = []string{"acgtn", "acgtryn"}[r.Intn(2)]
		}
	}
	return gen.C13Random(r, o)
}

// laneData: long sequences whose count of one base sits exactly on 2^8 or 2^16, with one-difference
// variants on both sides of that count (what a composition filter packed in 8 or 16 bit lanes, or a
// length stored in a short integer, gets wrong). One or two samples, the root is the most abundant.
func laneData(c *core.Ctx) gen.C13Data {
	r := c.Rng
	lane := []int{256, 65536, 65536}[r.Intn(3)]
	base := gen.ACGT[r.Intn(4)]
	others := strings.ReplaceAll(gen.ACGT, string(base), "")
	root := bytes.Repeat([]byte{base}, lane)
	for i := 0; i < lane/3+r.Intn(50); i++ {
		root = append(root, others[r.Intn(3)])
	}
	r.Shuffle(len(root), func(i, j int) { root[i], root[j] = root[j], root[i] })
	posOf := func(want bool) int { // a position holding (or not holding) the base
		for {
			p := r.Intn(len(root))
			if (root[p] == base) == want {
				return p
			}
		}
	}
	ds := gen.C13Data{Kind: "lanes", Tag: "sample", Samples: []string{"s1"}}
	if r.Intn(2) == 0 {
		ds.Samples = append(ds.Samples, "s2")
	}
	add := func(id string, seq []byte, n int) {
		cs := map[string]int{}
		for _, smp := range ds.Samples {
			cs[smp] = n + r.Intn(3)
		}
		ds.Seqs = append(ds.Seqs, gen.C13Seq{Id: id, Seq: seq, Counts: cs})
	}
	add("root", root, 1000)
	p := posOf(true)
	add("del_base", append(append([]byte{}, root[:p]...), root[p+1:]...), 10)
	p = posOf(true)
	v := append([]byte{}, root...)
	v[p] = others[r.Intn(3)]
	add("sub_base_away", v, 20)
	p = r.Intn(len(root) + 1)
	add("ins_base", append(append(append([]byte{}, root[:p]...), base), root[p:]...), 30)
	p = posOf(false)
	v = append([]byte{}, root...)
	v[p] = base
	add("sub_to_base", v, 40)
	ds.Star, ds.Depth = 4, 1
	return ds
}

// extremeCounts: abundances at the limits of their types (a sequence read more than 2^32 times in a
// sample, next to variants read a few times) and entries equal to 0 (a merged map can hold them).
func extremeCounts(c *core.Ctx) gen.C13Data {
	r := c.Rng
	ds := gen.C13Data{Kind: "extreme-counts", Tag: "sample", Samples: []string{"s1", "s2"}}
	root := gen.DNA(r, 40+r.Intn(40))
	edit := func(s []byte) []byte {
		t := append([]byte{}, s...)
		p := r.Intn(len(t))
		t[p] = gen.ACGT[(strings.IndexByte(gen.ACGT, t[p])+1+r.Intn(3))%4]
		return t
	}
	add := func(id string, seq []byte, c1, c2 int) {
		ds.Seqs = append(ds.Seqs, gen.C13Seq{Id: id, Seq: seq, Counts: map[string]int{"s1": c1, "s2": c2}})
	}
	big := []int{1<<32 + 4, 1 << 32, 1<<32 - 1, 1<<31 + 7, 3 << 32}[r.Intn(5)]
	add("root", root, big, 1)
	add("v_small", edit(root), 10, 0)
	add("v_huge", edit(root), big-1, 1)
	add("v_int32", edit(root), 1<<31-1, 2)
	add("v_one", edit(root), 1, 1)
	other := gen.DNA(r, 50)
	add("o_root", other, 1, 7)
	add("o_zero", edit(other), 0, 0)
	ds.Star, ds.Depth, ds.Ties = 4, 1, true
	return ds
}

func runExact(c *core.Ctx) {
	ds := randomData(c, c.Pick(600, 2000))
	if c.Idx%16 == 15 {
		ds = laneData(c)
		c.Count("lane_boundary_data_sets", 1)
	}
	if c.Idx%16 == 14 {
		ds = extremeCounts(c)
		c.Count("extreme_count_data_sets", 1)
	}
	cf := config{1, 1.0}
	if !selfCheckRef(c, ds) {
		c.Inconclusive("reference self-check failed: one-edit test disagrees with the Levenshtein DP")
		return
	}
	refs := refGraphs(ds)
	workers := []int{1, 1, 2, 3, 4, 8, 16, 32}[c.Rng.Intn(8)]
	r := runGraph(c, ds, workers, cf, c.Rng.Intn(3))
	o := &once{c, map[string]bool{}}
	checkExact(o, ds, refs, r, cf)
	c.Count("evaluations", 1)
	c.Count("graph_builds", 1)
	c.Count("reference_edges", totalEdges(refs))
	c.Count("runs_with_lost_soncount_updates", btoi(r.lost > 0))
	keyData(c, "exact", ds, cf, workers, totalEdges(refs))
	if c.Idx < 2 {
		c.Sample(describe(ds, cf, workers))
	}
}

func btoi(b bool) int {
	if b {
		return 1
	}
	return 0
}

// determinismCase: reference execution with one worker, then every worker
// count x repetitions; all written fields must be equal.
func determinismCase(c *core.Ctx, ds gen.C13Data, cf config, workers []int, reps int) {
	o := &once{c, map[string]bool{}}
	variant := c.Rng.Intn(3)
	base := runGraph(c, ds, 1, cf, variant)
	builds := 1
	if base.lost > 0 {
		// one worker: no concurrency; a SonCount that is not the in-degree is a defect of the sequential code
		o.violate("soncount-not-indegree", "with ONE worker SonCount differs from the number of sons after the pairwise loop", map[string]any{"data": describe(ds, cf, 1), "where": base.lostAt})
	}
	if cf.def() {
		checkExact(o, ds, refGraphs(ds), base, cf)
	}
	nedges := builtEdges(base)
	diverged := 0
	for _, w := range workers {
		for rep := 0; rep < reps; rep++ {
			x := runGraph(c, ds, w, cf, variant)
			builds++
			c.Count("runs_with_lost_soncount_updates", btoi(x.lost > 0))
			c.Count("lost_soncount_increments", x.lost)
			if f := compareRuns(o, ds, cf, base, x, rep); len(f) > 0 {
				diverged++
			}
		}
		keyData(c, "det", ds, cf, w, nedges)
	}
	c.Count("evaluations", builds)
	c.Count("graph_builds", builds)
	c.Count("diverging_runs", diverged)
	c.Count("edges_in_reference_runs", nedges)
	if c.Idx < 2 {
		c.Sample(describe(ds, cf, 0))
	}
}

func pickWorkers(c *core.Ctx, n int) []int {
	if raceTwin() {
		return []int{4, 16}
	}
	p := c.Rng.Perm(len(allWorkers))
	var out []int
	for _, i := range p[:min(n, len(p))] {
		out = append(out, allWorkers[i])
	}
	sort.Ints(out)
	return out
}

func runDeterminism(c *core.Ctx) {
	r := c.Rng
	cf := config{D: []int{1, 1, 2, 3}[r.Intn(4)], Ratio: []float64{1, 1, 0.5, 0.05, 0.1}[r.Intn(5)]}
	var ds gen.C13Data
	if c.Idx%3 == 0 {
		ds = gen.C13Contention(r, 150+r.Intn(c.Pick(450, 1200)), 1+r.Intn(3), 1+r.Intn(2), r.Intn(3) != 0, "sample")
	} else {
		maxN := c.Pick(500, 1000)
		if cf.D > 1 {
			maxN = 300
		}
		ds = randomData(c, maxN)
	}
	reps := c.Pick(2, 3+r.Intn(4))
	workers := pickWorkers(c, c.Pick(3, 5))
	if raceTwin() {
		reps = 1
	}
	determinismCase(c, ds, cf, workers, reps)
}

// runContention: every worker updates the same few nodes (run one child at a
// time so that the workers really run in parallel).
func runContention(c *core.Ctx) {
	r := c.Rng
	cf := config{D: 1, Ratio: []float64{1, 1, 0.5}[r.Intn(3)]}
	nsons := 500 + r.Intn(c.Pick(1000, 2000)+1)
	mids := 1 + r.Intn(3)
	if raceTwin() {
		nsons = min(nsons, 500)
	}
	ds := gen.C13Contention(r, nsons, mids, 1+r.Intn(2), r.Intn(3) != 0, "sample")
	reps := c.Pick(3, 5)
	workers := pickWorkers(c, c.Pick(3, 5))
	if raceTwin() {
		reps = 1
	}
	determinismCase(c, ds, cf, workers, reps)
}

func init() {
	core.Register(&core.Property{
		ID:    "C13",
		Level: "exploration",
		Rule: "data sets = 1-6 samples x 20-2000 records: families of one-edit variants (stars on a root, chains, random attachment), 2-3-edit and unrelated records, repeated sequences, homopolymer runs, dense two-letter sets, counts wide / narrow (ties) / proportional to the model (ties and inversions), merged_<tag> maps or one <tag> attribute per record; contention sets = top <- 1-3 abundant variants <- 150-2500 one-error sons each; " +
			"every data set is run through the package's own graph construction (VerifGraph, real worker pool) and through the obiclean command; oracle = brute-force graph (own one-edit test, self-checked against the Levenshtein DP) for edges / status / mutation / head flag / counts at distance 1, ratio 1, and equality of every written annotation with the 1-worker execution for workers 2..32 x repetitions x distance 1-3 x ratio {1,0.5,0.1,0.05}; race twin on the same executions. " +
			"Added later: data sets with ambiguity codes (n, r, y: symbols like the others for the one-difference test). Sequences of 340 / 87000 bases whose count of one base is exactly 2^8 / 2^16, with one-difference variants on both sides of that count. Abundances of 2^31 .. 3*2^32 in a sample, and entries equal to 0. " +
			"distinct_nontrivial = distinct (sub-check, data-set kind, #samples, size class, ties planted, chain depth, star size class, attribute mode, distance, ratio, worker count) classes of executions whose graph has at least one edge",
		Assume: []string{"sequences are non-empty, over a,c,g,t (one data set in ten or so also uses the codes n, r, y, compared as plain symbols), record identifiers are unique", "every record names at least one sample with a count >= 1",
			"the mutation is written (father symbol)->(son symbol)@(1-based position of that symbol), '-' for the missing symbol, as the Edge fields From/To of the package say",
			"the weight formula and the ratio filter are not constrained by the property: weights and all settings other than distance 1 / ratio 1 are only required to be reproducible"},
		Subs: []core.Sub{
			{Name: "exact", N: core.Const(128, 600), Run: runExact, TimeoutS: 1800},
			{Name: "determinism", N: core.Const(48, 220), Run: runDeterminism, Race: true, NRace: core.Const(6, 18), TimeoutS: 1800},
			{Name: "contention", N: core.Const(4, 10), Run: runContention, Serial: true, Shard: 1, Race: true, NRace: core.Const(1, 3), TimeoutS: 1800},
			{Name: "e2e", N: core.Const(21, 80), Run: runE2E, TimeoutS: 1800},
		},
		Cmds:          []string{"obiclean"},
		MinNontrivial: 100,
		RaceFiles:     []string{"obitools/obiclean/"},
		Post: func(tier string, counters map[string]int64) []string {
			var out []string
			if os.Getenv("VERIF_ONLY") != "" {
				return nil
			}
			if counters["graph_builds"] < 300 {
				out = append(out, fmt.Sprintf("only %d graph builds observed", counters["graph_builds"]))
			}
			if counters["reference_edges"] == 0 || counters["edges_in_reference_runs"] == 0 {
				out = append(out, "no edge observed")
			}
			if counters["e2e_runs"] == 0 {
				out = append(out, "the obiclean command was never run")
			}
			return out
		},
	})
}
